#!/bin/bash
# Offline build of the framework: regenerate the translated Lean files from /repo, build library + driver.
set -e
cd "$(dirname "$0")"
export PYTHONPATH="$PWD"
/venv/bin/python harness/extract.py || echo "extract reported errors (checks will report them)"
cd lean
lake build Placement placement-driver
