import Placement.Driver.Core
import Placement.Model.Reads
import Placement.Model.Versions
/-
  Driver command of the read model (C11):

    {"cmd":"read","route":R,"mv":N, ...params}  ->  {"status":S,"code":C,"body":B}

  routes and parameters (strings as the API receives them):
    rp {uuid} | rps | inventories {uuid} | inventory {uuid, rc} | rp_usages {uuid} | rp_allocations {uuid}
    rp_aggregates {uuid} | rp_traits {uuid} | traits {name?, associated?, extra?} | trait {name}
    rcs | rc {name} | allocations {consumer} | usages {project_id?, user_id?, consumer_type?, extra?} | root

  Unverified glue: JSON <-> `Placement.Body`, parsing of the two query strings
  (`_normalize_traits_qs_param`, the pattern of `consumer_type`).
-/
open Lean Placement

namespace Placement.Driver.Reads
open Placement.Driver

mutual
  partial def bodyJson (nm : Nat → String) : Body Float → Json
    | .null => Json.null
    | .bool b => Json.bool b
    | .int i => Json.num (JsonNumber.fromInt i)
    | .ratio r => floatJson r
    | .name n => Json.str (nm n)
    | .str s => Json.str s
    | .arr xs => Json.arr (xs.map (bodyJson nm)).toArray
    | .obj kvs => Json.mkObj (kvs.map (fun kv => (keyStr nm kv.1, bodyJson nm kv.2)))
  partial def keyStr (nm : Nat → String) : Key → String
    | .fld f => f.toString
    | .nm n => nm n
end

/-- keys of an object that occur more than once (a JSON object cannot carry them: reported) -/
partial def dupKeys (nm : Nat → String) : Body Float → List String
  | .arr xs => xs.flatMap (dupKeys nm)
  | .obj kvs =>
    let ks := kvs.map (fun kv => keyStr nm kv.1)
    (ks.filter (fun k => ks.count k > 1)).eraseDups ++ kvs.flatMap (fun kv => dupKeys nm kv.2)
  | _ => []

def isTypeChar (c : Char) : Bool := c.isUpper || c.isDigit || c == '_'

/-- `CONSUMER_TYPE_GET_PATTERN = ^[A-Z0-9_]+$|^all|^unknown$` (minLength 1) -/
def parseCtFilter (s : String) : M CtFilter := do
  if s == "all" then return .all
  else if s == "unknown" then return .unknown
  else if !s.isEmpty && (s.all isTypeChar || s.startsWith "all") then return .named (← intern s)
  else return .invalid

/-- `_normalize_traits_qs_param` -/
def parseTraitName (q : TraitQuery) (s : String) : M TraitQuery := do
  match s.splitOn ":" with
  | [] | [_] => return { q with nameBad := true }
  | op :: rest =>
    let value := ":".intercalate rest
    if op == "in" then
      let names ← (value.splitOn ",").mapM intern
      return { q with nameIn := some names }
    else if op == "startswith" then
      let tbl := (← get).tbl
      return { q with pfx := some (fun n => (tbl.name n).startsWith value) }
    else return q

def flag (j : Json) (k : String) : Bool :=
  match j.getObjVal? k with
  | .ok (.bool b) => b
  | _ => false

def handle? : Ext := fun j => do
  match j.getObjValAs? String "cmd" with
  | .ok "read" =>
    let route ← str j "route"
    let mv ← nat j "mv"
    let uuid : M Nat := do intern (← str j "uuid")
    let db := (← get).db
    let (r, b) : Resp × Body Float ← match route with
      | "rp" => pure (getRp mv db (← uuid))
      | "rps" => pure (listRps mv db)
      | "inventories" => pure (getInventories mv db (← uuid))
      | "inventory" => pure (getInventory mv db (← uuid) (← intern (← str j "rc")))
      | "rp_usages" => pure (getRpUsages mv db (← uuid))
      | "rp_allocations" => pure (getRpAllocations mv db (← uuid))
      | "rp_aggregates" => pure (getRpAggregates mv db (← uuid))
      | "rp_traits" => pure (getRpTraits mv db (← uuid))
      | "traits" =>
        let mut q : TraitQuery := { extra := flag j "extra" }
        if let some s ← optStr j "name" then q ← parseTraitName q s
        if let some s ← optStr j "associated" then
          let l := s.toLower
          q := { q with associated := some (if l == "true" then some true else if l == "false" then some false else none) }
        pure (listTraits mv db q)
      | "trait" => pure (getTrait mv db (← intern (← str j "name")))
      | "rcs" => pure (listRcs mv db)
      | "rc" => pure (getRc mv db (← intern (← str j "name")))
      | "allocations" => pure (getAllocations mv db (← intern (← str j "consumer")))
      | "usages" =>
        let project ← match ← optStr j "project_id" with
          | some s => if s.isEmpty then pure none else pure (some (← intern s))
          | none => pure none
        let (user, userBad) ← match ← optStr j "user_id" with
          | some s => if s.isEmpty then pure (none, true) else pure (some (← intern s), false)
          | none => pure (none, false)
        let ctype ← match ← optStr j "consumer_type" with
          | some s => pure (some (← parseCtFilter s))
          | none => pure none
        pure (getUsages mv db { project, user, userBad, ctype, extra := flag j "extra" })
      | "root" => pure (getRoot Placement.Versions.maxMinor)
      | _ => throw s!"unknown read route {route}"
    let nm := (← get).tbl.name
    match dupKeys nm b with
    | [] => return some (Json.mkObj [("status", r.status), ("code", codeStr r.code), ("body", bodyJson nm b)])
    | ks => return some (Json.mkObj [("status", r.status), ("code", codeStr r.code), ("body", bodyJson nm b),
                                     ("duplicate_keys", Json.arr (ks.map Json.str).toArray)])
  | _ => return none

end Placement.Driver.Reads
