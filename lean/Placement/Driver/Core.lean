import Lean.Data.Json
import Placement.Model.Handlers
import Placement.Model.Txn
import Placement.Model.Sync
import Placement.Model.Fault
/-
  Line-protocol driver of the executable model (unverified glue, exercised by the correspondence
  check): one JSON object per input line, one JSON object per output line.
  Strings (uuids, names) are interned to natural numbers: names starting with `CUSTOM_` get odd
  numbers, all others even numbers (`Placement.isCustom`).
-/
open Lean Placement

namespace Placement.Driver

instance : CapOps Float where
  capLt a r n := (Float.ofInt a * r) < Float.ofInt n
  capTrunc a r := ((Float.ofInt a * r).toInt64).toInt

structure Interner where
  toNat : Std.HashMap String Nat := {}
  even : Array String := #[]
  odd : Array String := #[]

def Interner.intern (t : Interner) (s : String) : Interner × Nat :=
  match t.toNat[s]? with
  | some n => (t, n)
  | none =>
    if s.startsWith "CUSTOM_" then
      let n := 2 * t.odd.size + 1
      ({ t with toNat := t.toNat.insert s n, odd := t.odd.push s }, n)
    else
      let n := 2 * t.even.size
      ({ t with toNat := t.toNat.insert s n, even := t.even.push s }, n)

def Interner.name (t : Interner) (n : Nat) : String :=
  if n % 2 == 1 then t.odd.getD (n / 2) s!"?{n}" else t.even.getD (n / 2) s!"?{n}"

structure St where
  stdRcs : List Nat := []
  stdTraits : List Nat := []
  db : DB Float := {}
  cfg : Config := { incompleteProject := 0, incompleteUser := 0 }
  tbl : Interner := {}

abbrev M := StateT St (Except String)

def intern (s : String) : M Nat := do
  let st ← get
  let (t, n) := st.tbl.intern s
  set { st with tbl := t }
  return n

def str (j : Json) (k : String) : M String :=
  match j.getObjValAs? String k with
  | .ok s => pure s
  | .error e => throw s!"field {k}: {e}"

def nat (j : Json) (k : String) : M Nat :=
  match j.getObjValAs? Nat k with
  | .ok s => pure s
  | .error e => throw s!"field {k}: {e}"

def int (j : Json) (k : String) : M Int :=
  match j.getObjValAs? Int k with
  | .ok s => pure s
  | .error e => throw s!"field {k}: {e}"

def optStr (j : Json) (k : String) : M (Option String) :=
  match j.getObjVal? k with
  | .ok .null => pure none
  | .ok (.str s) => pure (some s)
  | .ok _ => throw s!"field {k}: not a string"
  | .error _ => pure none

def optNat (j : Json) (k : String) : M (Option Nat) :=
  match j.getObjVal? k with
  | .ok .null => pure none
  | .ok v => match v.getNat? with
    | .ok n => pure (some n)
    | .error e => throw s!"field {k}: {e}"
  | .error _ => pure none

def arr (j : Json) (k : String) : M (Array Json) :=
  match j.getObjVal? k with
  | .ok (.arr a) => pure a
  | _ => throw s!"field {k}: not an array"

def fld (j : Json) (k : String) : M Json :=
  match j.getObjVal? k with
  | .ok v => pure v
  | .error e => throw e

def float (j : Json) (k : String) : M Float :=
  match j.getObjVal? k with
  | .ok (.num n) => pure n.toFloat
  | .ok (.str "NaN") => pure (0.0 / 0.0)
  | .ok (.str "Infinity") => pure (1.0 / 0.0)
  | .ok (.str "-Infinity") => pure (-1.0 / 0.0)
  | _ => throw s!"field {k}: not a number"

def invSpec (j : Json) : M (InvSpec Float) := do
  return { rcName := ← intern (← str j "rc"), total := ← int j "total", reserved := ← int j "reserved",
           minUnit := ← int j "min_unit", maxUnit := ← int j "max_unit", stepSize := ← int j "step_size",
           ratio := ← float j "ratio" }

def consumerReq (j : Json) : M ConsumerReq := do
  let uuid ← intern (← str j "uuid")
  let project ← (← optStr j "project").mapM intern
  let user ← (← optStr j "user").mapM intern
  let ctype ← (← optStr j "ctype").mapM intern
  let gen ← optNat j "gen"
  let mut allocs : List (Nat × Nat × Int) := []
  for a in ← arr j "allocs" do
    match a with
    | .arr #[.str rp, .str rc, amount] =>
      match amount.getInt? with
      | .ok n => allocs := allocs ++ [(← intern rp, ← intern rc, n)]
      | .error e => throw e
    | _ => throw "bad alloc entry"
  return { uuid, project, user, ctype, gen, allocs }

def parseOp (j : Json) : M (Op Float) := do
  let op ← str j "op"
  match op with
  | "rp_create" =>
    return .rpCreate (← nat j "mv") (← intern (← str j "uuid")) (← intern (← str j "name"))
      (← (← optStr j "parent").mapM intern)
  | "rp_update" =>
    let hasParent := match j.getObjVal? "has_parent" with | .ok (.bool b) => b | _ => false
    let p ← (← optStr j "parent").mapM intern
    return .rpUpdate (← nat j "mv") (← intern (← str j "uuid")) (← intern (← str j "name"))
      (if hasParent then some p else none)
  | "rp_delete" => return .rpDelete (← intern (← str j "uuid"))
  | "inv_set" =>
    let invs ← (← arr j "invs").toList.mapM invSpec
    return .invSet (← nat j "mv") (← intern (← str j "uuid")) (← nat j "gen") invs
  | "inv_add" => return .invAdd (← nat j "mv") (← intern (← str j "uuid")) (← invSpec (← fld j "inv"))
  | "inv_update" =>
    return .invUpdate (← nat j "mv") (← intern (← str j "uuid")) (← nat j "gen") (← invSpec (← fld j "inv"))
  | "inv_delete" => return .invDelete (← intern (← str j "uuid")) (← intern (← str j "rc"))
  | "inv_delete_all" => return .invDeleteAll (← nat j "mv") (← intern (← str j "uuid"))
  | "trait_put" => return .traitPut (← intern (← str j "name"))
  | "trait_delete" => return .traitDelete (← intern (← str j "name"))
  | "rp_traits_set" =>
    let ts ← (← arr j "traits").toList.mapM (fun t => match t with | .str s => intern s | _ => throw "trait")
    return .rpTraitsSet (← intern (← str j "uuid")) (← nat j "gen") ts
  | "rp_traits_delete" => return .rpTraitsDelete (← intern (← str j "uuid"))
  | "rc_post" => return .rcPost (← intern (← str j "name"))
  | "rc_put" => return .rcPut (← intern (← str j "name"))
  | "rc_rename" => return .rcRename (← intern (← str j "old")) (← intern (← str j "new"))
  | "rc_delete" => return .rcDelete (← intern (← str j "name"))
  | "aggs_set" =>
    let as ← (← arr j "aggs").toList.mapM (fun t => match t with | .str s => intern s | _ => throw "agg")
    return .aggsSet (← nat j "mv") (← intern (← str j "uuid")) (← optNat j "gen") as
  | "alloc_put" => return .allocPut (← nat j "mv") (← consumerReq (← fld j "c"))
  | "alloc_post" => return .allocPost (← nat j "mv") (← (← arr j "cs").toList.mapM consumerReq)
  | "alloc_delete" => return .allocDelete (← intern (← str j "consumer"))
  | "reshape" =>
    let invs ← (← arr j "invs").toList.mapM (fun r => do
      let is ← (← arr r "invs").toList.mapM invSpec
      return ({ uuid := ← intern (← str r "uuid"), gen := ← nat r "gen", invs := is } : RpInvReq Float))
    return .reshape (← nat j "mv") invs (← (← arr j "cs").toList.mapM consumerReq)
  | _ => throw s!"unknown op {op}"

def codeStr : Code → String
  | .none => "" | .undefined => "placement.undefined_code"
  | .concurrentUpdate => "placement.concurrent_update" | .duplicateName => "placement.duplicate_name"
  | .inventoryInUse => "placement.inventory.inuse" | .providerInUse => "placement.resource_provider.inuse"
  | .cannotDeleteParent => "placement.resource_provider.cannot_delete_parent"
  | .resourceProviderNotFound => "placement.resource_provider.not_found"
  | .queryParameter => "placement.query.bad_value"

/-- exact: the IEEE bit pattern (decoded by the harness) -/
def floatJson (f : Float) : Json := Json.mkObj [("bits", f.toBits.toNat)]

def dumpJson (st : St) : Json :=
  let nm := st.tbl.name
  let db := st.db
  let uuidOf (id : Nat) : String := match db.rpById id with | some r => nm r.uuid | none => s!"?{id}"
  let rcOf (id : Nat) : String := match db.rcName id with | some n => nm n | none => s!"?{id}"
  let rps := db.rps.map (fun r => (nm r.uuid, Json.mkObj [("name", nm r.name), ("gen", r.gen),
      ("parent", match r.parent with | some p => Json.str (uuidOf p) | none => Json.null),
      ("root", uuidOf r.root)]))
  let cons := db.consumers.map (fun c => (nm c.uuid, Json.mkObj [("project", nm c.project), ("user", nm c.user),
      ("gen", c.gen), ("ctype", match c.ctype with | some t => Json.str (nm t) | none => Json.null)]))
  Json.mkObj [
    ("rps", Json.mkObj rps),
    ("invs", Json.arr (db.invs.map (fun i => Json.arr #[uuidOf i.rp, rcOf i.rc, i.total, i.reserved, i.minUnit,
        i.maxUnit, i.stepSize, floatJson i.ratio])).toArray),
    ("allocs", Json.arr (db.allocs.map (fun a => Json.arr #[uuidOf a.rp, nm a.consumer, rcOf a.rc, a.used])).toArray),
    ("consumers", Json.mkObj cons),
    ("rp_traits", Json.arr (db.rpTraits.map (fun p => Json.arr #[uuidOf p.1, nm p.2])).toArray),
    ("rp_aggs", Json.arr (db.rpAggs.map (fun p => Json.arr #[uuidOf p.1, nm p.2])).toArray),
    ("aggs", Json.arr (db.aggs.map (fun a => Json.str (nm a))).toArray),
    ("custom_rcs", Json.arr ((db.rcs.filter (fun p => p.1 ≥ 10000 || isCustom p.2)).map
        (fun p => Json.arr #[nm p.2, p.1])).toArray),
    ("n_std_rcs", (db.rcs.filter (·.1 < 10000)).length),
    ("custom_traits", Json.arr ((db.traits.filter isCustom).map (fun t => Json.str (nm t))).toArray),
    ("n_traits", db.traits.length),
    ("projects", Json.arr (db.projects.map (fun a => Json.str (nm a))).toArray),
    ("users", Json.arr (db.users.map (fun a => Json.str (nm a))).toArray),
    ("ctypes", Json.arr (db.ctypes.map (fun a => Json.str (nm a))).toArray)]


/-- `load`: install the tables of a canonical dump (harness/app.py `dump()`) into the model state.
Internal provider / consumer ids are assigned in order of appearance. -/
def loadDump (j : Json) : M Unit := do
  let st ← get
  let mut db : DB Float := { rcs := st.db.rcs.filter (·.1 < 10000), traits := st.db.traits.filter (fun t => !isCustom t) }
  -- custom classes and traits
  for e in ← arr j "custom_rcs" do
    match e with
    | .arr #[.str n, idj] =>
      match idj.getNat? with
      | .ok id => db := { db with rcs := db.rcs ++ [(id, ← intern n)] }
      | .error e => throw e
    | _ => throw "custom_rcs"
  for e in ← arr j "custom_traits" do
    match e with
    | .str n => db := { db with traits := db.traits ++ [← intern n] }
    | _ => throw "custom_traits"
  -- providers: two passes (ids first, then parent/root links)
  let rpsj ← fld j "rps"
  let rpList ← match rpsj with
    | .obj kvs => pure (kvs.toList)
    | _ => throw "rps"
  let mut ids : List (String × Nat) := []
  let mut next := 1
  for (u, _) in rpList do
    ids := ids ++ [(u, next)]
    next := next + 1
  let idOf (u : String) : Nat := ((ids.find? (·.1 == u)).map (·.2)).getD 0
  let mut rows : List RpRow := []
  for (u, v) in rpList do
    let parent ← optStr v "parent"
    let uN ← intern u
    let nN ← intern (← str v "name")
    let gN ← nat v "gen"
    let rootS ← str v "root"
    let row : RpRow := { id := idOf u, uuid := uN, name := nN, gen := gN, parent := parent.map idOf, root := idOf rootS }
    rows := rows ++ [row]
  db := { db with rps := rows, nextRp := next }
  let rcIdOf (n : Nat) : Nat := ((db.rcs.find? (·.2 == n)).map (·.1)).getD 0
  for e in ← arr j "invs" do
    match e with
    | .arr #[.str rp, .str rc, t, r, mi, ma, stp, ratio] =>
      let g (x : Json) : M Int := match x.getInt? with | .ok n => pure n | .error e => throw e
      let ratioF ← match ratio with
        | .num n => pure n.toFloat
        | _ => throw "ratio"
      let rcN ← intern rc
      let vt ← g t
      let vr ← g r
      let vmi ← g mi
      let vma ← g ma
      let vst ← g stp
      let row : InvRow Float := { rp := idOf rp, rc := rcIdOf rcN, total := vt, reserved := vr, minUnit := vmi, maxUnit := vma, stepSize := vst, ratio := ratioF }
      db := { db with invs := db.invs ++ [row] }
    | _ => throw "invs"
  for e in ← arr j "allocs" do
    match e with
    | .arr #[.str rp, .str c, .str rc, used] =>
      match used.getInt? with
      | .ok n =>
        let rcN ← intern rc
        let cN ← intern c
        let row : AllocRow := { rp := idOf rp, rc := rcIdOf rcN, consumer := cN, used := n }
        db := { db with allocs := db.allocs ++ [row] }
      | .error e => throw e
    | _ => throw "allocs"
  let consj ← fld j "consumers"
  let consList ← match consj with
    | .obj kvs => pure kvs.toList
    | _ => throw "consumers"
  let mut cid := 1
  for (u, v) in consList do
    let ct ← (← optStr v "ctype").mapM intern
    let uN ← intern u
    let pN ← intern (← str v "project")
    let usN ← intern (← str v "user")
    let gN ← nat v "gen"
    let row : ConsRow := { id := cid, uuid := uN, project := pN, user := usN, ctype := ct, gen := gN }
    db := { db with consumers := db.consumers ++ [row] }
    cid := cid + 1
  db := { db with nextCons := cid }
  for e in ← arr j "rp_traits" do
    match e with
    | .arr #[.str rp, .str t] => db := { db with rpTraits := db.rpTraits ++ [(idOf rp, ← intern t)] }
    | _ => throw "rp_traits"
  for e in ← arr j "rp_aggs" do
    match e with
    | .arr #[.str rp, .str a] => db := { db with rpAggs := db.rpAggs ++ [(idOf rp, ← intern a)] }
    | _ => throw "rp_aggs"
  let strs (k : String) : M (List Nat) := do
    (← arr j k).toList.mapM (fun t => match t with | .str s => intern s | _ => throw k)
  let a1 ← strs "aggs"
  let a2 ← strs "projects"
  let a3 ← strs "users"
  let a4 ← strs "ctypes"
  db := { db with aggs := a1, projects := a2, users := a3, ctypes := a4 }
  modify fun st => { st with db := db }

def lblStr : Lbl → String
  | .getRp => "getRp" | .getTraits => "getTraits" | .main => "main" | .getProject => "getProject"
  | .createProject => "createProject" | .getUser => "getUser" | .createUser => "createUser"
  | .getConsumer => "getConsumer" | .getCtype => "getCtype" | .createCtype => "createCtype"
  | .createConsumer => "createConsumer" | .updateConsumer => "updateConsumer" | .getAllocs => "getAllocs" | .cleanup => "cleanup" | .other => "other"

def respJson (r : Resp) : Json := Json.mkObj [("status", r.status), ("code", codeStr r.code)]

/-- run a schedule over the transaction programs of several requests; a schedule entry naming a
finished request is skipped; when the schedule is exhausted the remaining requests run to the end
in index order (as the harness does) -/
partial def runSchedule (db : DB Float) (ps : Array (P Float)) (sched : List Nat) (trace : Array Json) :
    DB Float × Array (P Float) × Array Json :=
  let stepReq (i : Nat) (db : DB Float) (ps : Array (P Float)) (trace : Array Json) :=
    match ps[i]? with
    | some (.txn l f) =>
      let (db', p') := f db
      (db', ps.set! i p', trace.push (Json.arr #[i, lblStr l]))
    | _ => (db, ps, trace)
  match sched with
  | i :: rest =>
    let (db', ps', tr') := stepReq i db ps trace
    runSchedule db' ps' rest tr'
  | [] =>
    match (List.range ps.size).find? (fun i => match ps[i]? with | some (.txn _ _) => true | _ => false) with
    | some i =>
      let (db', ps', tr') := stepReq i db ps trace
      runSchedule db' ps' [] tr'
    | none => (db, ps, trace)

/-- extension commands registered by other driver modules -/
abbrev Ext := Json → M (Option Json)

def handleCore (j : Json) : M Json := do
  match j.getObjValAs? String "cmd" with
  | .ok "reset" =>
    set ({} : St)
    let rcs ← (← arr j "rcs").toList.mapM (fun t => match t with | .str s => intern s | _ => throw "rc")
    let traits ← (← arr j "traits").toList.mapM (fun t => match t with | .str s => intern s | _ => throw "trait")
    let cfgj ← fld j "cfg"
    let p ← intern (← str cfgj "project")
    let u ← intern (← str cfgj "user")
    modify fun st => { st with
      stdRcs := rcs, stdTraits := traits,
      db := { rcs := rcs.zipIdx.map (fun (n, i) => (i, n)), traits := traits },
      cfg := { incompleteProject := p, incompleteUser := u } }
    return Json.mkObj [("ok", true)]
  | .ok "dump" => return dumpJson (← get)
  | .ok "sched" =>
    let ops ← (← arr j "ops").toList.mapM parseOp
    let sched ← (← arr j "schedule").toList.mapM (fun x => match x.getNat? with | .ok n => pure n | .error e => throw e)
    let st ← get
    let ps := (ops.map (prog st.cfg)).toArray
    let (db', ps', trace) := runSchedule st.db ps sched #[]
    set { st with db := db' }
    let res := ps'.map (fun p => match p with | .done r => respJson r | .txn _ _ => Json.null)
    return Json.mkObj [("responses", Json.arr res), ("trace", Json.arr trace)]
  | .ok "sync" =>
    modify fun st => { st with db := sync st.stdRcs st.stdTraits st.db }
    return Json.mkObj [("ok", true)]
  | .ok "drop_std" =>
    let rcs ← (← arr j "rcs").toList.mapM (fun t => match t with | .str s => intern s | _ => throw "rc")
    let ts ← (← arr j "traits").toList.mapM (fun t => match t with | .str s => intern s | _ => throw "trait")
    modify fun st => { st with db := dropStd rcs ts st.db }
    return Json.mkObj [("ok", true)]
  | .ok "std_tables" =>
    let st ← get
    return Json.mkObj [
      ("rcs", Json.arr ((st.db.rcs.filter (·.1 < 10000)).map (fun p => Json.arr #[st.tbl.name p.2, p.1])).toArray),
      ("traits", Json.arr ((st.db.traits.filter (fun t => !isCustom t)).map (fun t => Json.str (st.tbl.name t))).toArray)]
  | .ok "fault_put" =>
    -- PUT /allocations/{c} with one fault at statement `k` of `_set_allocations` (first attempt):
    -- consumer handling as in the handler, then `mainTxnWithFault` (Model/Fault.lean)
    let op ← parseOp (← fld j "op")
    let k ← nat j "k"
    let kindS ← str j "kind"
    let kind : Fault.Kind := match kindS with
      | "deadlock" => .deadlock false
      | "deadlock_rb" => .deadlock true
      | _ => .other
    let st ← get
    match op with
    | .allocPut mv c =>
      match ensureConsumer st.cfg st.db mv c with
      | (db1, .error r) =>
        set { st with db := db1 }
        return Json.mkObj [("early", respJson r)]
      | (db1, .ok (cons, created, attr)) =>
        match allocObjects db1 cons c with
        | .error r =>
          set { st with db := (if created then deleteConsumerRows db1 [cons.id] else db1) }
          return Json.mkObj [("early", respJson r)]
        | .ok objs =>
          let res := mainTxnWithFault db1 cons attr objs (some (k, kind))
          let ok := res.error.isNone && !res.faulted
          let dbf := if ok then res.state.db else (if created then deleteConsumerRows db1 [cons.id] else db1)
          set { st with db := dbf }
          return Json.mkObj [("ok", ok), ("faulted", res.faulted),
            ("statements", (setAllocStmts (R := Float) objs).length)]
    | _ => throw "fault_put: not an alloc_put"
  | .ok "prefixw" =>
    let op ← parseOp (← fld j "op")
    let n ← nat j "j"
    let st ← get
    let (db', p) := Prog.runWrites 500 n (prog st.cfg op) st.db
    set { st with db := db' }
    return Json.mkObj [("done", match p with | .done r => respJson r | .txn _ _ => Json.null)]
  | .ok "seqprog" =>
    let op ← parseOp (← fld j "op")
    let st ← get
    let (db', r) := Prog.runSeq 500 (prog st.cfg op) st.db
    set { st with db := db' }
    match r with
    | some r => return respJson r
    | none => throw "out of fuel"
  | .ok "load" =>
    loadDump (← fld j "dump")
    return Json.mkObj [("ok", true)]
  | .ok c => throw s!"unknown cmd {c}"
  | .error _ =>
    let op ← parseOp j
    let st ← get
    let (db', r) := step st.cfg st.db op
    set { st with db := db' }
    return respJson r


def handleWith (exts : List Ext) (j : Json) : M Json := do
  for e in exts do
    if let some r ← e j then return r
  handleCore j

partial def loop (exts : List Ext) (h : IO.FS.Stream) (out : IO.FS.Stream) (st : St) : IO Unit := do
  let line ← h.getLine
  if line.isEmpty then return ()
  let (res, st') := match Json.parse line with
    | .error e => (Json.mkObj [("error", s!"parse: {e}")], st)
    | .ok j => match (handleWith exts j).run st with
      | .ok (r, st') => (r, st')
      | .error e => (Json.mkObj [("error", e)], st)
  out.putStrLn res.compress
  out.flush
  loop exts h out st'

end Placement.Driver
