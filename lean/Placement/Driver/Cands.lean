import Placement.Driver.Core
import Placement.Spec.Candidates
import Placement.Spec.Summaries
/-
  Driver commands of the filter / allocation-candidate specification (C13, C03, C02, C20), evaluated
  on the driver's current state (`DB Float`):

    {"cmd":"list_rps","filters":{...}}       -> {"status":200,"uuids":[...]} | {"status":400}
    {"cmd":"candidates","query":{...}}       -> {"status":200,"candidates":[{"alloc":[[uuid,class,n]],"maps":[[suffix,[uuid]]]}],
                                                 "summaries":[{"rp":uuid,"resources":[[class,capacity,used]],"traits":[..],"parent":..,"root":..}]}

  Unverified glue (JSON <-> the structures of `Spec/Filters.lean`, `Spec/Candidates.lean`).
-/
open Lean Placement Placement.Spec

namespace Placement.Driver.Cands
open Placement.Driver

def strList (j : Json) : M (List Nat) :=
  match j with
  | .arr a => a.toList.mapM (fun x => match x with | .str s => intern s | _ => throw "expected string")
  | .null => pure []
  | _ => throw "expected array of strings"

def strListList (j : Json) : M (List (List Nat)) :=
  match j with
  | .arr a => a.toList.mapM strList
  | .null => pure []
  | _ => throw "expected array of arrays"

def optFld (j : Json) (k : String) : Json :=
  match j.getObjVal? k with
  | .ok v => v
  | .error _ => .null

/-- `[[class name, amount], ...]` with names interned (not yet resolved) -/
def resList (j : Json) : M (List (Nat × Int)) :=
  match j with
  | .arr a => a.toList.mapM (fun x => match x with
      | .arr #[.str rc, n] => do
        match n.getInt? with
        | .ok v => pure (← intern rc, v)
        | .error e => throw e
      | _ => throw "resources entry")
  | .null => pure []
  | _ => throw "resources"

def optName (j : Json) (k : String) : M (Option Nat) := do
  match ← optStr j k with
  | some s => pure (some (← intern s))
  | none => pure none

def rawFilters (j : Json) : M RawFilters := do
  return { name := ← optName j "name", uuid := ← optName j "uuid", inTree := ← optName j "in_tree",
           memberOf := ← strListList (optFld j "member_of"),
           forbiddenAggs := ← strList (optFld j "forbidden_aggs"),
           required := ← strListList (optFld j "required"),
           forbidden := ← strList (optFld j "forbidden"),
           resources := ← resList (optFld j "resources") }

/-- a group with class NAMES in `resources`; resolved by `resolveGroup` -/
def rawGroup (j : Json) : M Group := do
  return { suffix := ← intern (← str j "suffix"),
           resources := ← resList (optFld j "resources"),
           required := ← strListList (optFld j "required"),
           forbidden := ← strList (optFld j "forbidden"),
           memberOf := ← strListList (optFld j "member_of"),
           forbiddenAggs := ← strList (optFld j "forbidden_aggs"),
           inTree := ← optName j "in_tree" }

def groupTraitsKnown (db : DB Float) (g : Group) : Bool :=
  g.required.all (fun s => s.all (fun t => db.traits.contains t)) && g.forbidden.all (fun t => db.traits.contains t)

def resolveGroup (db : DB Float) (g : Group) : Option Group :=
  if !groupTraitsKnown db g then none
  else (resolveResources db g.resources).map (fun r => { g with resources := r })

def parseQuery (j : Json) : M (Option Query) := do
  let st ← get
  let db := st.db
  let shareT ← intern "MISC_SHARES_VIA_AGGREGATE"
  let unsuff ← match optFld j "unsuff" with
    | .null => pure none
    | g => pure (some (← rawGroup g))
  let groups ← match optFld j "groups" with
    | .arr a => a.toList.mapM rawGroup
    | _ => pure []
  let policy ← optStr j "policy"
  let ss ← strListList (optFld j "same_subtree")
  let rr ← strList (optFld j "root_required")
  let rf ← strList (optFld j "root_forbidden")
  let mv := (← optNat j "mv").getD 39
  if !(rr ++ rf).all (fun t => db.traits.contains t) then return none
  let un' ← match unsuff with
    | none => pure (some none)
    | some g => pure ((resolveGroup db g).map some)
  let gs' := groups.mapM (resolveGroup db)
  match un', gs' with
  | some u, some gs =>
    return some { shareT := shareT, unsuff := u, groups := gs, isolate := policy == some "isolate",
                  sameSubtree := ss, rootRequired := rr, rootForbidden := rf, mv := mv }
  | _, _ => return none

def candJson (st : St) (c : Candidate) : Json :=
  let nm := st.tbl.name
  let db := st.db
  let uuidOf (id : Nat) : String := match db.rpById id with | some r => nm r.uuid | none => s!"?{id}"
  let rcOf (id : Nat) : String := match db.rcName id with | some n => nm n | none => s!"?{id}"
  Json.mkObj [
    ("alloc", Json.arr (c.alloc.map (fun x => Json.arr #[uuidOf x.1.1, rcOf x.1.2, x.2])).toArray),
    ("maps", Json.arr (c.maps.map (fun m => Json.arr #[nm m.1, Json.arr (m.2.map (fun p => Json.str (uuidOf p))).toArray])).toArray)]

def summaryJson (st : St) (s : Summary) : Json :=
  let nm := st.tbl.name
  let db := st.db
  let uuidOf (id : Nat) : String := match db.rpById id with | some r => nm r.uuid | none => s!"?{id}"
  let rcOf (id : Nat) : String := match db.rcName id with | some n => nm n | none => s!"?{id}"
  Json.mkObj ([
    ("rp", Json.str (uuidOf s.rp)),
    ("resources", Json.arr (s.resources.map (fun r => Json.arr #[rcOf r.rc, r.capacity, r.used])).toArray)] ++
    (match s.traits with
     | some ts => [("traits", Json.arr (ts.map (fun t => Json.str (nm t))).toArray)]
     | none => []) ++
    (match s.parent with
     | some (some p) => [("parent", Json.str (uuidOf p))]
     | some none => [("parent", Json.null)]
     | none => []) ++
    (match s.root with
     | some r => [("root", Json.str (uuidOf r))]
     | none => []))

def handle? : Ext := fun j => do
  match j.getObjValAs? String "cmd" with
  | .ok "list_rps" =>
    let f ← rawFilters (← fld j "filters")
    let st ← get
    match hListProviders st.db f with
    | .error s => return some (Json.mkObj [("status", s)])
    | .ok rows =>
      return some (Json.mkObj [("status", (200 : Nat)),
        ("uuids", Json.arr (rows.map (fun r => Json.str (st.tbl.name r.uuid))).toArray)])
  | .ok "candidates" =>
    match ← parseQuery (← fld j "query") with
    | none => return some (Json.mkObj [("status", (400 : Nat))])
    | some q =>
      let st ← get
      let cs := candidates st.db q
      return some (Json.mkObj [("status", (200 : Nat)), ("candidates", Json.arr (cs.map (candJson st)).toArray),
        ("summaries", Json.arr ((summaries st.db q cs).map (summaryJson st)).toArray)])
  | _ => return none

end Placement.Driver.Cands
