import Placement.Driver.Core
import Placement.Model.Merge
/-
  Driver command of the merge-stage model (`Model/Merge.lean`).  All names are numbers (the harness interns provider
  uuids, class names, anchors and suffixes):

    {"cmd":"merge","store":[[rp,rc,amount],...],
     "groups":[[suffix,[{"anchor":n,"same":bool,"arrs":[object ids],"maps":[[suffix,[providers]]]}]]],
     "ctx":{"policy_none":b,"isolate":b,"multi":[rc],"num_granular":n,"same_subtrees":[[suffix]],
            "parents":[[p, q | null]],"limits":[[rp,rc,used,capacity,max_unit]]}}
      -> {"merged":[{"arrs":[[rp,rc,amount]],"maps":[[suffix,[providers]]]}]}

  Unverified glue.
-/
open Lean Placement Placement.Merge

namespace Placement.Driver.Merge
open Placement.Driver

def natOf (j : Json) : M Nat := match j.getNat? with | .ok n => pure n | .error e => throw e
def intOf (j : Json) : M Int := match j.getInt? with | .ok n => pure n | .error e => throw e
def listOf (j : Json) : M (List Json) := match j with | .arr a => pure a.toList | _ => throw "expected array"
def natList (j : Json) : M (List Nat) := do (← listOf j).mapM natOf
def boolOf (j : Json) : M Bool := match j with | .bool b => pure b | _ => throw "expected bool"

def parseMaps (j : Json) : M (List (Nat × List Nat)) := do
  (← listOf j).mapM (fun x => do
    match x with
    | .arr #[s, ps] => pure (← natOf s, ← natList ps)
    | _ => throw "mapping")

def parseAreq (j : Json) : M Areq := do
  pure { anchor := ← natOf (← fld j "anchor"), useSame := ← boolOf (← fld j "same"),
         arrs := ← natList (← fld j "arrs"), maps := ← parseMaps (← fld j "maps") }

def parseCtx (j : Json) : M Ctx := do
  let parents ← (← listOf (← fld j "parents")).mapM (fun x => do
    match x with
    | .arr #[p, .null] => pure (← natOf p, (none : Option Nat))
    | .arr #[p, q] => pure (← natOf p, some (← natOf q))
    | _ => throw "parent")
  let limits ← (← listOf (← fld j "limits")).mapM (fun x => do
    match x with
    | .arr #[rp, rc, u, c, m] => pure ((← natOf rp, ← natOf rc), (← intOf u, ← intOf c, ← intOf m))
    | _ => throw "limit")
  pure { policyNone := ← boolOf (← fld j "policy_none"), isolate := ← boolOf (← fld j "isolate"),
         multiRcs := ← natList (← fld j "multi"), numGranular := ← natOf (← fld j "num_granular"),
         sameSubtrees := ← (← listOf (← fld j "same_subtrees")).mapM natList,
         parents := parents, limits := limits }

def handle? : Ext := fun j => do
  match j.getObjValAs? String "cmd" with
  | .ok "merge" =>
    let store ← (← listOf (← fld j "store")).mapM (fun x => do
      match x with
      | .arr #[rp, rc, n] => pure ({ rp := ← natOf rp, rc := ← natOf rc, amount := ← intOf n } : Arr)
      | _ => throw "arr")
    let groups ← (← listOf (← fld j "groups")).mapM (fun x => do
      match x with
      | .arr #[s, as] => pure (← natOf s, ← (← listOf as).mapM parseAreq)
      | _ => throw "group")
    let ctx ← parseCtx (← fld j "ctx")
    let out := mergeCandidates ctx store groups
    return some (Json.mkObj [("merged", Json.arr (out.map (fun r => Json.mkObj [
      ("arrs", Json.arr (r.1.map (fun a => Json.arr #[a.rp, a.rc, a.amount])).toArray),
      ("maps", Json.arr (r.2.map (fun m => Json.arr #[m.1, Json.arr (m.2.map (fun (p : Nat) => Json.num p)).toArray])).toArray)])).toArray)])
  | _ => return none

end Placement.Driver.Merge
