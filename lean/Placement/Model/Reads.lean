import Placement.Model.Handlers
/-
  The READ side of the API: one function per GET route, `mv → state → Resp × Body`, mirroring the
  handlers' serializers (`placement/handlers/*.py`, `_serialize_*`) and the queries behind them
  (`placement/objects/*.py`), including every microversion-dependent field.

  Reads are functions of the state: there is nothing to prove about purity.  What is proved
  (`Props/C11Reads.lean`) is that the different views they report agree with each other and with
  the stored rows.

  Joins of the SQL queries are rendered as `filterMap`s over the tables:
    * every provider lookup (`_get_provider_by_uuid`, `_get_all_by_filters_from_db`) is an INNER join
      with the root provider row and an OUTER join with the parent row;
    * `_get_allocations_by_provider_id` inner-joins the consumers table, and
      `_get_allocations_by_consumer_uuid` inner-joins providers and consumers;
    * `usage._get_all_by_resource_provider_uuid` starts from the provider's INVENTORY rows and
      outer-joins allocations (no consumer join);
    * the `GET /usages` queries inner-join consumers (project / user are stored with the consumer
      row in this model, `ConsRow.project`, `ConsRow.user`).
  Names of resource classes come from `rc_cache.string_from_id`, which raises for an unknown id; rows
  whose class id has no name (impossible under the referential-integrity invariant C08) are dropped.

  Not modelled: `links`, `Last-Modified`/`Cache-Control` headers, error message texts.
-/
namespace Placement

/-- fixed field names of response bodies -/
inductive Fld
  | uuid | name | generation | parentProviderUuid | rootProviderUuid | resourceProviders
  | resourceProviderGeneration | inventories | total | reserved | minUnit | maxUnit | stepSize
  | allocationRatio | usages | allocations | resources | consumerGeneration | projectId | userId
  | consumerType | consumerCount | aggregates | traits | resourceClasses
  | versions | id | maxVersion | minVersion | status
  | all | unknown          -- the two pseudo consumer types of `GET /usages` (1.38)
deriving DecidableEq, Repr, Inhabited

def Fld.toString : Fld → String
  | .uuid => "uuid" | .name => "name" | .generation => "generation"
  | .parentProviderUuid => "parent_provider_uuid" | .rootProviderUuid => "root_provider_uuid"
  | .resourceProviders => "resource_providers"
  | .resourceProviderGeneration => "resource_provider_generation" | .inventories => "inventories"
  | .total => "total" | .reserved => "reserved" | .minUnit => "min_unit" | .maxUnit => "max_unit"
  | .stepSize => "step_size" | .allocationRatio => "allocation_ratio" | .usages => "usages"
  | .allocations => "allocations" | .resources => "resources"
  | .consumerGeneration => "consumer_generation" | .projectId => "project_id" | .userId => "user_id"
  | .consumerType => "consumer_type" | .consumerCount => "consumer_count"
  | .aggregates => "aggregates" | .traits => "traits" | .resourceClasses => "resource_classes"
  | .versions => "versions" | .id => "id" | .maxVersion => "max_version" | .minVersion => "min_version"
  | .status => "status" | .all => "all" | .unknown => "unknown"

/-- a key of a JSON object: a fixed field name or an interned name (uuid, class, consumer type) -/
inductive Key
  | fld (f : Fld)
  | nm (n : Nat)
deriving DecidableEq, Repr, Inhabited

/-- response bodies -/
inductive Body (R : Type)
  | null
  | bool (b : Bool)
  | int (i : Int)
  | ratio (r : R)
  | name (n : Nat)          -- an interned string: uuid, provider / class / trait name, project, user, type
  | str (s : String)        -- a literal of the code ("unknown", version strings)
  | arr (xs : List (Body R))
  | obj (kvs : List (Key × Body R))
deriving Inhabited

variable {R : Type}

namespace Body

/-- the members of an object (`[]` for anything else) -/
def fields : Body R → List (Key × Body R)
  | .obj kvs => kvs
  | _ => []

/-- the elements of an array -/
def items : Body R → List (Body R)
  | .arr xs => xs
  | _ => []

/-- `body[k]` -/
def get? (b : Body R) (k : Key) : Option (Body R) := (b.fields.find? (·.1 == k)).map (·.2)

def fld? (b : Body R) (f : Fld) : Option (Body R) := b.get? (.fld f)

/-- the integer carried by a body -/
def int? : Body R → Option Int
  | .int i => some i
  | _ => none

/-- the interned name carried by a body -/
def name? : Body R → Option Nat
  | .name n => some n
  | _ => none

/-- the members of an object whose key is a name and whose value is an integer:
`{"VCPU": 2, "consumer_count": 1}` ↦ `[(VCPU, 2)]` -/
def namedInts (b : Body R) : List (Nat × Int) :=
  b.fields.filterMap (fun kv => match kv.1, kv.2 with
    | .nm n, .int i => some (n, i)
    | _, _ => none)

/-- the members of an object whose key is a name -/
def named (b : Body R) : List (Nat × Body R) :=
  b.fields.filterMap (fun kv => match kv.1 with
    | .nm n => some (n, kv.2)
    | _ => none)

end Body

/-! ### providers -/

/-- one row of the provider queries: the provider joined with its root (inner join) and its
parent (outer join) -/
structure RpView where
  row : RpRow
  rootUuid : Nat
  parentUuid : Option Nat
deriving DecidableEq, Repr, Inhabited

def rpView (db : DB R) (r : RpRow) : Option RpView :=
  match db.rpById r.root with
  | none => none
  | some root =>
    some { row := r, rootUuid := root.uuid,
           parentUuid := r.parent.bind (fun p => (db.rpById p).map (·.uuid)) }

/-- `ResourceProvider.get_by_uuid` (`NotFound` = `none`) -/
def provider (db : DB R) (u : Nat) : Option RpView := (db.rpByUuid u).bind (rpView db)

def r404body : Resp × Body R := (r404, .null)
def r400body : Resp × Body R := (r400, .null)

/-- `_serialize_provider` without `links` -/
def providerBody (mv : Nat) (v : RpView) : Body R :=
  .obj ([(.fld .uuid, .name v.row.uuid), (.fld .name, .name v.row.name),
         (.fld .generation, .int v.row.gen)] ++
        (if mv ≥ 14 then
          [(.fld .parentProviderUuid, match v.parentUuid with | some p => .name p | none => .null),
           (.fld .rootProviderUuid, .name v.rootUuid)]
         else []))

/-- `GET /resource_providers/{uuid}` -/
def getRp (mv : Nat) (db : DB R) (u : Nat) : Resp × Body R :=
  match provider db u with
  | none => r404body
  | some v => (r200, providerBody mv v)

/-- `GET /resource_providers` without query parameters (filters: property C13) -/
def listRps (mv : Nat) (db : DB R) : Resp × Body R :=
  (r200, .obj [(.fld .resourceProviders, .arr ((db.rps.filterMap (rpView db)).map (providerBody mv)))])

/-! ### inventories -/

def invsOf (db : DB R) (rp : Nat) : List (InvRow R) := db.invs.filter (·.rp == rp)

/-- `OUTPUT_INVENTORY_FIELDS` -/
def invFields (i : InvRow R) : List (Key × Body R) :=
  [(.fld .total, .int i.total), (.fld .reserved, .int i.reserved), (.fld .minUnit, .int i.minUnit),
   (.fld .maxUnit, .int i.maxUnit), (.fld .stepSize, .int i.stepSize),
   (.fld .allocationRatio, .ratio i.ratio)]

/-- `GET /resource_providers/{uuid}/inventories` -/
def getInventories (_mv : Nat) (db : DB R) (u : Nat) : Resp × Body R :=
  match provider db u with
  | none => r404body
  | some v =>
    (r200, .obj [(.fld .resourceProviderGeneration, .int v.row.gen),
                 (.fld .inventories, .obj ((invsOf db v.row.id).filterMap (fun i =>
                    (db.rcName i.rc).map (fun n => (Key.nm n, Body.obj (invFields i))))))])

/-- `GET /resource_providers/{uuid}/inventories/{resource_class}`; `_serialize_inventory` adds the
generation only `if generation:` (a generation of 0 is omitted) -/
def getInventory (_mv : Nat) (db : DB R) (u rcName : Nat) : Resp × Body R :=
  match provider db u with
  | none => r404body
  | some v =>
    match (invsOf db v.row.id).find? (fun i => db.rcName i.rc == some rcName) with
    | none => r404body
    | some i =>
      (r200, .obj (invFields i ++
        (if v.row.gen != 0 then [(.fld .resourceProviderGeneration, .int v.row.gen)] else [])))

/-! ### usages of one provider -/

/-- the classes the provider has inventory of -/
def invClasses (db : DB R) (rp : Nat) : List Nat := ((invsOf db rp).map (·.rc)).eraseDups

/-- `GET /resource_providers/{uuid}/usages`: every inventory class with `SUM(used)` (0 without
allocations) -/
def getRpUsages (_mv : Nat) (db : DB R) (u : Nat) : Resp × Body R :=
  match provider db u with
  | none => r404body
  | some v =>
    (r200, .obj [(.fld .resourceProviderGeneration, .int v.row.gen),
                 (.fld .usages, .obj ((invClasses db v.row.id).filterMap (fun rc =>
                    (db.rcName rc).map (fun n => (Key.nm n, Body.int (db.usage v.row.id rc))))))])

/-! ### allocations -/

/-- `{class name: amount}` of a list of allocation rows -/
def resourcesObj (db : DB R) (rows : List AllocRow) : Body R :=
  .obj (rows.filterMap (fun a => (db.rcName a.rc).map (fun n => (Key.nm n, Body.int a.used))))

/-- `_get_allocations_by_provider_id`: the provider's allocations joined with their consumers -/
def rpAllocRows (db : DB R) (rp : Nat) : List (AllocRow × ConsRow) :=
  (db.allocs.filter (·.rp == rp)).filterMap (fun a => (db.consByUuid a.consumer).map (fun c => (a, c)))

/-- `GET /resource_providers/{uuid}/allocations` -/
def getRpAllocations (mv : Nat) (db : DB R) (u : Nat) : Resp × Body R :=
  match provider db u with
  | none => r404body
  | some v =>
    let rows := rpAllocRows db v.row.id
    let consumers := (rows.map (·.2)).eraseDups
    (r200, .obj [(.fld .allocations, .obj (consumers.map (fun c =>
                    (Key.nm c.uuid, Body.obj (
                      [(Key.fld .resources, resourcesObj db ((rows.filter (·.2 == c)).map (·.1)))] ++
                      (if mv ≥ 28 then [(Key.fld .consumerGeneration, Body.int c.gen)] else [])))))),
                 (.fld .resourceProviderGeneration, .int v.row.gen)])

/-- `_get_allocations_by_consumer_uuid`: the consumer's allocations joined with providers and the
consumer record -/
def consAllocRows (db : DB R) (c : Nat) : List (AllocRow × RpRow × ConsRow) :=
  (db.allocs.filter (·.consumer == c)).filterMap (fun a =>
    match db.rpById a.rp, db.consByUuid c with
    | some p, some cr => some (a, p, cr)
    | _, _ => none)

/-- `ct_cache.string_from_id`: a NULL type is reported as "unknown" -/
def ctypeBody (t : Option Nat) : Body R :=
  match t with
  | some n => .name n
  | none => .str "unknown"

/-- `GET /allocations/{consumer_uuid}`: never 404; project/user (1.12), consumer generation (1.28)
and consumer type (1.38) only when there are allocations -/
def getAllocations (mv : Nat) (db : DB R) (c : Nat) : Resp × Body R :=
  let rows := consAllocRows db c
  let providers := (rows.map (·.2.1)).eraseDups
  let allocs : Body R := .obj (providers.map (fun p =>
    (Key.nm p.uuid, Body.obj [(Key.fld .generation, Body.int p.gen),
                              (Key.fld .resources, resourcesObj db ((rows.filter (·.2.1 == p)).map (·.1)))])))
  (r200, .obj ([(.fld .allocations, allocs)] ++
    (match rows.head? with
     | none => []
     | some (_, _, cr) =>
       if mv ≥ 12 then
         [(.fld .projectId, .name cr.project), (.fld .userId, .name cr.user)] ++
         (if mv ≥ 28 then [(.fld .consumerGeneration, .int cr.gen)] else []) ++
         (if mv ≥ 38 then [(.fld .consumerType, ctypeBody cr.ctype)] else [])
       else [])))

/-! ### aggregates, traits, resource classes -/

/-- `GET /resource_providers/{uuid}/aggregates` (1.1; generation from 1.19);
`_get_aggregates_by_provider_id` joins the aggregates table -/
def getRpAggregates (mv : Nat) (db : DB R) (u : Nat) : Resp × Body R :=
  if mv < 1 then r404body else
  match provider db u with
  | none => r404body
  | some v =>
    (r200, .obj ([(.fld .aggregates, .arr (((db.aggsOf v.row.id).filter db.aggs.contains).map .name))] ++
                 (if mv ≥ 19 then [(.fld .resourceProviderGeneration, .int v.row.gen)] else [])))

/-- `GET /resource_providers/{uuid}/traits` (1.6) -/
def getRpTraits (mv : Nat) (db : DB R) (u : Nat) : Resp × Body R :=
  if mv < 6 then r404body else
  match provider db u with
  | none => r404body
  | some v =>
    (r200, .obj [(.fld .traits, .arr ((db.traitsOf v.row.id).map .name)),
                 (.fld .resourceProviderGeneration, .int v.row.gen)])

/-- query string of `GET /traits`, parsed: `name=in:a,b` / `name=startswith:p` (any other operator
is ignored, a value without `:` is a 400), `associated=true|false` (case-insensitive; anything else
is a 400).  The prefix test is on strings, which live in the driver: `pfx n` says whether the name
interned as `n` starts with the requested prefix. -/
structure TraitQuery where
  nameBad : Bool := false
  nameIn : Option (List Nat) := none
  pfx : Option (Nat → Bool) := none
  associated : Option (Option Bool) := none
  /-- a query parameter outside the schema -/
  extra : Bool := false

/-- `GET /traits` (1.6) -/
def listTraits (mv : Nat) (db : DB R) (q : TraitQuery) : Resp × Body R :=
  if mv < 6 then r404body
  else if q.extra || q.nameBad || q.associated == some none then r400body
  else
    let assoc (t : Nat) : Bool :=
      match q.associated with
      | some (some true) => db.rpTraits.any (·.2 == t)
      | some (some false) => !(db.rpTraits.any (·.2 == t))
      | _ => true
    let ts := db.traits.filter (fun t =>
      (match q.nameIn with | some l => l.contains t | none => true) &&
      (match q.pfx with | some p => p t | none => true) && assoc t)
    (r200, .obj [(.fld .traits, .arr (ts.map .name))])

/-- `GET /traits/{name}` (1.6): 204 / 404, no body -/
def getTrait (mv : Nat) (db : DB R) (name : Nat) : Resp × Body R :=
  if mv < 6 then r404body
  else if db.traits.contains name then (r204, .null) else r404body

/-- `GET /resource_classes` (1.2): standard and custom classes -/
def listRcs (mv : Nat) (db : DB R) : Resp × Body R :=
  if mv < 2 then r404body
  else (r200, .obj [(.fld .resourceClasses, .arr (db.rcs.map (fun p => Body.obj [(Key.fld .name, Body.name p.2)])))])

/-- `GET /resource_classes/{name}` (1.2) -/
def getRc (mv : Nat) (db : DB R) (name : Nat) : Resp × Body R :=
  if mv < 2 then r404body
  else match db.rcId name with
    | none => r404body
    | some _ => (r200, .obj [(.fld .name, .name name)])

/-! ### usage totals -/

/-- value of the `consumer_type` query parameter (1.38): `all`, `unknown`, a type name, or a
string outside the schema's pattern -/
inductive CtFilter
  | all | unknown | named (t : Nat) | invalid
deriving DecidableEq, Repr, Inhabited

/-- query string of `GET /usages`, parsed -/
structure UsageQuery where
  project : Option Nat         -- required (`none`: absent or empty ⇒ 400)
  user : Option Nat := none
  userBad : Bool := false      -- `user_id=` (empty) violates minLength
  ctype : Option CtFilter := none
  extra : Bool := false        -- a query parameter outside the schema
deriving Inhabited

/-- the WHERE clause of the usage queries, on the consumer: project, optionally user, and a
condition on the consumer's type -/
def usageMatch (project : Nat) (user : Option Nat) (tp : Option Nat → Bool) (c : ConsRow) : Bool :=
  c.project == project && (match user with | some u => c.user == u | none => true) && tp c.ctype

/-- the join of the usage queries: allocations ⋈ consumers, restricted to a project, optionally a
user, and a condition on the consumer's type -/
def totalRows (db : DB R) (project : Nat) (user : Option Nat) (tp : Option Nat → Bool) :
    List (AllocRow × ConsRow) :=
  db.allocs.filterMap (fun a =>
    match db.consByUuid a.consumer with
    | some c => if usageMatch project user tp c then some (a, c) else none
    | none => none)

/-- `SUM(used) GROUP BY resource_class_id` -/
def sumByClass (db : DB R) (rows : List (AllocRow × ConsRow)) : List (Key × Body R) :=
  ((rows.map (·.1.rc)).eraseDups).filterMap (fun rc =>
    (db.rcName rc).map (fun n =>
      (Key.nm n, Body.int (((rows.filter (·.1.rc == rc)).map (·.1.used)).sum))))

/-- `COUNT(DISTINCT allocations.consumer_id)` -/
def consumerCount (rows : List (AllocRow × ConsRow)) : Nat := ((rows.map (·.1.consumer)).eraseDups).length

/-- one `{class: sum, ..., "consumer_count": n}` group of the 1.38 format; the code builds it from
the per-class result rows, so no rows ⇒ no group -/
def usageGroup (db : DB R) (key : Key) (rows : List (AllocRow × ConsRow)) : List (Key × Body R) :=
  if (sumByClass (R := R) db rows).isEmpty then []
  else [(key, .obj (sumByClass db rows ++ [(.fld .consumerCount, .int (consumerCount rows))]))]

def ctypeKey (t : Option Nat) : Key :=
  match t with
  | some n => .nm n
  | none => .fld .unknown

/-- `GET /usages` (1.9; `consumer_type` and grouping by type from 1.38) -/
def getUsages (mv : Nat) (db : DB R) (q : UsageQuery) : Resp × Body R :=
  if mv < 9 then r404body
  else if q.extra || q.userBad || q.ctype == some .invalid || (mv < 38 && q.ctype.isSome) then r400body
  else match q.project with
  | none => r400body
  | some project =>
    if mv < 38 then
      (r200, .obj [(.fld .usages, .obj (sumByClass db (totalRows db project q.user (fun _ => true))))])
    else
      match q.ctype with
      | some .all =>
        (r200, .obj [(.fld .usages, .obj (usageGroup db (.fld .all) (totalRows db project q.user (fun _ => true))))])
      | some .unknown =>
        (r200, .obj [(.fld .usages, .obj (usageGroup db (.fld .unknown)
                        (totalRows db project q.user (fun t => t.isNone))))])
      | some (.named t) =>
        (r200, .obj [(.fld .usages, .obj (usageGroup db (.nm t)
                        (totalRows db project q.user (fun t' => t' == some t))))])
      | _ =>
        -- grouped by the consumers' types (NULL type = "unknown")
        let rows := totalRows db project q.user (fun _ => true)
        let types := (rows.map (·.2.ctype)).eraseDups
        (r200, .obj [(.fld .usages, .obj (types.flatMap (fun t =>
                        usageGroup db (ctypeKey t) (rows.filter (·.2.ctype == t)))))])

/-! ### version document -/

/-- `GET /` -/
def getRoot (maxMinor : Nat) : Resp × Body R :=
  (r200, .obj [(.fld .versions, .arr [.obj [(.fld .id, .str "v1.0"), (.fld .maxVersion, .str s!"1.{maxMinor}"),
                                            (.fld .minVersion, .str "1.0"), (.fld .status, .str "CURRENT")]])])

end Placement
