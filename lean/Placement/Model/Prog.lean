/-
  Requests as trees of atomic database transactions.

  `txn f` is one outermost enginefacade scope: atomic and isolated, committed on normal exit;
  a transaction that raises leaves the state unchanged (the stage function returns the old state).
  Continuations are named top-level stage functions (see Handlers.lean), never anonymous closures,
  so that invariants can enumerate the stages a request can be in.
-/
namespace Placement

/-- what a transaction is for (compared with the tables the real transaction touches) -/
inductive Lbl
  | getRp | getTraits | main | getProject | createProject | getUser | createUser
  | getConsumer | getCtype | createCtype | createConsumer | updateConsumer | getAllocs | cleanup | other
deriving DecidableEq, Repr, Inhabited

inductive Prog (σ α : Type) where
  | done : α → Prog σ α
  | txn  : Lbl → (σ → σ × Prog σ α) → Prog σ α

namespace Prog
variable {σ α : Type}

/-- Sequential semantics with fuel (every handler has a bounded number of transactions). -/
def runSeq : Nat → Prog σ α → σ → σ × Option α
  | _, .done a, s => (s, some a)
  | 0, .txn _ _, s => (s, none)
  | n + 1, .txn _ f, s => let (s', p) := f s; runSeq n p s'

/-- Execute at most `k` transactions, then stop (process death between transactions). -/
def runPrefix : Nat → Prog σ α → σ → σ × Prog σ α
  | 0, p, s => (s, p)
  | _, .done a, s => (s, .done a)
  | k + 1, .txn _ f, s => let (s', p) := f s; runPrefix k p s'

/-- One scheduling step: request `i` performs its next transaction. -/
def stepAt (ps : List (Prog σ α)) (i : Nat) (s : σ) : σ × List (Prog σ α) :=
  match ps[i]? with
  | some (.txn _ f) => let (s', p') := f s; (s', ps.set i p')
  | _ => (s, ps)

/-- Scheduled semantics: the schedule names which request performs its next transaction. -/
def runSched : List Nat → σ → List (Prog σ α) → σ × List (Prog σ α)
  | [], s, ps => (s, ps)
  | i :: is, s, ps => let (s', ps') := stepAt ps i s; runSched is s' ps'

def result? : Prog σ α → Option α
  | .done a => some a
  | .txn _ _ => none

/-- number of transactions still to run along the path taken from `s` (with fuel) -/
def isDone : Prog σ α → Bool
  | .done _ => true
  | .txn _ _ => false

end Prog
end Placement

namespace Placement
/-- transactions opened in writer mode -/
def Lbl.isWrite : Lbl → Bool
  | .main | .createProject | .createUser | .createCtype | .createConsumer | .updateConsumer | .cleanup | .other => true
  | _ => false
end Placement

namespace Placement.Prog
/-- run until `j` writer transactions have committed and the next transaction would be a writer
(process death before or inside it); read transactions change no state -/
def runWrites {σ α : Type} : Nat → Nat → Prog σ α → σ → σ × Prog σ α
  | 0, _, p, s => (s, p)
  | _, _, .done a, s => (s, .done a)
  | fuel + 1, j, .txn l f, s =>
    if l.isWrite then
      match j with
      | 0 => (s, .txn l f)
      | j' + 1 => let (s', p) := f s; runWrites fuel j' p s'
    else let (s', p) := f s; runWrites fuel j p s'

/-- label of the next transaction -/
def next? {σ α : Type} : Prog σ α → Option Lbl
  | .done _ => none
  | .txn l _ => some l
end Placement.Prog
