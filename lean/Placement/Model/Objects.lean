import Placement.Model.Basic
/-
  The object layer (`placement/objects/*.py`), one function per database-touching function of the
  code, over the relational state of `Basic.lean`.  Each function is what the code does inside ONE
  transaction; `Except` = the exception the Python function raises (the transaction is then rolled
  back by the caller: the old state is kept).
-/
namespace Placement

/-- Exceptions of `placement.exception` (and oslo.db) that handlers branch on. -/
inductive Exc
  | notFound | rcNotFound | traitNotFound | consumerNotFound
  | invalidInventory | capacityExceeded | constraintsViolated
  | inventoryInUse | invWithRcNotFound | invalidInvCapacity
  | concurrentUpdate | rpConcurrentUpdate
  | objectAction | rpInUse | cannotDeleteParent | dbDuplicate
  | rcExists | rcInUse | rcCannotDeleteStandard | rcCannotUpdateStandard
  | traitExists | traitInUse | traitCannotDeleteStandard
  | consumerExists
deriving DecidableEq, Repr, Inhabited

/-- `isinstance(e, placement.exception.NotFound)` -/
def Exc.isNotFound : Exc → Bool
  | .notFound | .rcNotFound | .traitNotFound | .consumerNotFound | .invWithRcNotFound => true
  | _ => false

/-- `isinstance(e, placement.exception.InvalidInventory)` -/
def Exc.isInvalidInventory : Exc → Bool
  | .invalidInventory | .capacityExceeded | .constraintsViolated => true
  | _ => false

/-- `isinstance(e, placement.exception.ConcurrentUpdateDetected)` -/
def Exc.isConcurrentUpdate : Exc → Bool
  | .concurrentUpdate | .rpConcurrentUpdate => true
  | _ => false

structure InvSpec (R : Type) where
  rcName : Nat
  total : Int
  reserved : Int
  minUnit : Int
  maxUnit : Int
  stepSize : Int
  ratio : R
deriving Repr, Inhabited

/-- One allocation object as `_set_allocations` receives it: the provider and consumer as the
request read them earlier (internal id and generation at that time), class by name, amount. -/
structure AllocReq where
  rpId : Nat
  rpGen : Nat
  rcName : Nat
  consId : Nat
  consUuid : Nat
  consGen : Nat
  used : Int
deriving DecidableEq, Repr, Inhabited

variable {R : Type}

/-! ### providers -/

/-- `ResourceProvider.increment_generation`: compare-and-swap on (id, generation). -/
def incRpGen (db : DB R) (id gen : Nat) : Except Exc (DB R) :=
  match db.rps.find? (fun r => r.id == id && r.gen == gen) with
  | some _ => .ok (db.setRp id (fun r => { r with gen := gen + 1 }))
  | none => .error .rpConcurrentUpdate

/-- `Consumer.increment_generation` -/
def incConsGen (db : DB R) (id gen : Nat) : Except Exc (DB R) :=
  match db.consumers.find? (fun c => c.id == id && c.gen == gen) with
  | some _ =>
    let cs := db.consumers.map (fun c => if c.id == id then { c with gen := gen + 1 } else c)
    .ok { db with consumers := cs }
  | none => .error .concurrentUpdate

/-- `ResourceProvider._create_in_db` -/
def createProvider (db : DB R) (uuid name : Nat) (parent : Option Nat) : Except Exc (DB R × RpRow) :=
  let ins (par : Option Nat) (root : Option Nat) : Except Exc (DB R × RpRow) :=
    if db.rps.any (fun r => r.uuid == uuid || r.name == name) then .error .dbDuplicate
    else
      let id := db.nextRp
      let row : RpRow := { id := id, uuid := uuid, name := name, gen := 0, parent := par,
                           root := root.getD id }
      .ok ({ db with rps := db.rps ++ [row], nextRp := id + 1 }, row)
  match parent with
  | none => ins none none
  | some pu =>
    if pu == uuid then .error .objectAction
    else match db.rpByUuid pu with
      | none => .error .objectAction
      | some p => ins (some p.id) (some p.root)

/-- `ResourceProvider.get_subtree`: providers of the same tree reachable from `x` through child
links (`fuel` bounds the recursion; the number of providers suffices in a forest). -/
def subtreeIds (db : DB R) (root : Nat) : Nat → Nat → List Nat
  | 0, x => [x]
  | fuel + 1, x =>
    x :: ((db.rps.filter (fun r => r.root == root && r.parent == some x)).map (·.id)).flatMap
           (subtreeIds db root fuel)

/-- `ResourceProvider._update_in_db`; `parent` is the parent uuid the object carries when `save()`
is called (the handler overwrites it only when the body names one). -/
def updateProvider (db : DB R) (id : Nat) (name : Nat) (parent : Option Nat) (allowReparent : Bool) :
    Except Exc (DB R) :=
  match db.rpById id with
  | none => .error .notFound
  | some me =>
    let finish (newParent : Option (Option Nat)) (newRoot : Option Nat) (sub : List Nat) : Except Exc (DB R) :=
      if db.rps.any (fun r => r.id != id && r.name == name) then .error .dbDuplicate
      else
        let rps := db.rps.map (fun r =>
          if r.id == id then
            { r with name := name, parent := newParent.getD r.parent, root := newRoot.getD r.root }
          else if sub.contains r.id then { r with root := newRoot.getD r.root } else r)
        .ok { db with rps := rps }
    match parent with
    | some pu =>
      match db.rpByUuid pu with
      | none => .error .objectAction
      | some p =>
        if me.parent.isSome && me.parent != some p.id && !allowReparent then .error .objectAction
        else
          let sub := subtreeIds db me.root db.rps.length me.id
          if sub.contains p.id then .error .objectAction
          else finish (some (some p.id)) (some p.root) sub
    | none =>
      if me.parent.isSome then
        if !allowReparent then .error .objectAction
        else
          let sub := subtreeIds db me.root db.rps.length me.id
          finish (some none) (some me.id) sub
      else finish none none []

/-- `ResourceProvider._delete` -/
def deleteProvider (db : DB R) (id : Nat) : Except Exc (DB R) :=
  if db.hasChildren id then .error .cannotDeleteParent
  else if db.allocs.any (·.rp == id) then .error .rpInUse
  else if !(db.rps.any (·.id == id)) then .error .notFound
  else .ok { db with
    invs := db.invs.filter (·.rp != id)
    rpAggs := db.rpAggs.filter (·.1 != id)
    rpTraits := db.rpTraits.filter (·.1 != id)
    rps := db.rps.filter (·.id != id) }

/-! ### inventories -/

def InvSpec.toRow (rp rc : Nat) (i : InvSpec R) : InvRow R :=
  { rp := rp, rc := rc, total := i.total, reserved := i.reserved, minUnit := i.minUnit,
    maxUnit := i.maxUnit, stepSize := i.stepSize, ratio := i.ratio }

/-- resolve class names (`rc_cache.id_from_string`), first unknown name raises -/
def resolveRcs (db : DB R) : List (InvSpec R) → Except Exc (List (Nat × InvSpec R))
  | [] => .ok []
  | i :: is => match db.rcId i.rcName with
    | none => .error .rcNotFound
    | some id => (resolveRcs db is).map ((id, i) :: ·)

/-- `_set_inventory`: replace all inventory of a provider, guarded by the generation `gen`
the caller read. -/
def setInventory (db : DB R) (rp gen : Nat) (invs : List (InvSpec R)) : Except Exc (DB R) := do
  let these ← resolveRcs db invs
  let existing := (db.invs.filter (·.rp == rp)).map (·.rc)
  let theseIds := these.map (·.1)
  let toDelete := existing.filter (fun rc => !theseIds.contains rc)
  if db.allocs.any (fun a => a.rp == rp && toDelete.contains a.rc) then throw .inventoryInUse
  let kept := db.invs.filter (fun i => !(i.rp == rp && toDelete.contains i.rc))
  -- `inv_obj.find` returns the first record of that class in the request
  let updated := kept.map (fun i =>
    if i.rp == rp then
      match these.find? (·.1 == i.rc) with
      | some (_, s) => s.toRow rp i.rc
      | none => i
    else i)
  let toAdd := (theseIds.filter (fun rc => !existing.contains rc)).eraseDups
  let added := toAdd.filterMap (fun rc => (these.find? (·.1 == rc)).map (fun p => p.2.toRow rp rc))
  incRpGen { db with invs := updated ++ added } rp gen

/-- `_add_inventory` (POST one inventory) -/
def addInventory (db : DB R) (rp gen : Nat) (inv : InvSpec R) : Except Exc (DB R) :=
  match db.rcId inv.rcName with
  | none => .error .rcNotFound
  | some rc =>
    if (db.invOf rp rc).isSome then .error .dbDuplicate
    else incRpGen { db with invs := db.invs ++ [inv.toRow rp rc] } rp gen

/-- `_update_inventory` (PUT one inventory) -/
def updateInventory (db : DB R) (rp gen : Nat) (inv : InvSpec R) : Except Exc (DB R) :=
  match db.rcId inv.rcName with
  | none => .error .rcNotFound
  | some rc =>
    if (db.invOf rp rc).isNone then .error .invWithRcNotFound
    else
      let invs := db.invs.map (fun i => if i.rp == rp && i.rc == rc then inv.toRow rp rc else i)
      incRpGen { db with invs := invs } rp gen

/-- `_delete_inventory` -/
def deleteInventory (db : DB R) (rp gen : Nat) (rcName : Nat) : Except Exc (DB R) :=
  match db.rcId rcName with
  | none => .error .rcNotFound
  | some rc =>
    if db.allocs.any (fun a => a.rp == rp && a.rc == rc) then .error .inventoryInUse
    else if (db.invOf rp rc).isNone then .error .notFound
    else incRpGen { db with invs := db.invs.filter (fun i => !(i.rp == rp && i.rc == rc)) } rp gen

/-! ### traits, aggregates, classes -/

/-- `_set_traits` -/
def setTraits (db : DB R) (rp gen : Nat) (traits : List Nat) : Except Exc (DB R) :=
  let existing := db.traitsOf rp
  let toAdd := (traits.filter (fun t => !existing.contains t)).eraseDups
  let toDelete := existing.filter (fun t => !traits.contains t)
  if toAdd.isEmpty && toDelete.isEmpty then .ok db
  else
    let kept := db.rpTraits.filter (fun p => !(p.1 == rp && toDelete.contains p.2))
    incRpGen { db with rpTraits := kept ++ toAdd.map (fun t => (rp, t)) } rp gen

/-- `_set_aggregates` -/
def setAggregates (db : DB R) (rp gen : Nat) (aggs : List Nat) (incGen : Bool) : Except Exc (DB R) :=
  let existing := db.aggsOf rp
  let toAdd := (aggs.filter (fun a => !existing.contains a)).eraseDups
  let newAggs := toAdd.filter (fun a => !db.aggs.contains a)
  let kept := db.rpAggs.filter (fun p => !(p.1 == rp && !aggs.contains p.2))
  let db' := { db with aggs := db.aggs ++ newAggs, rpAggs := kept ++ toAdd.map (fun a => (rp, a)) }
  if incGen then incRpGen db' rp gen else .ok db'

def createTrait (db : DB R) (name : Nat) : Except Exc (DB R) :=
  if db.traits.contains name then .error .traitExists
  else .ok { db with traits := db.traits ++ [name] }

/-- `Trait.destroy` -/
def deleteTrait (db : DB R) (name : Nat) : Except Exc (DB R) :=
  if !isCustom name then .error .traitCannotDeleteStandard
  else if db.rpTraits.any (·.2 == name) then .error .traitInUse
  else if !db.traits.contains name then .error .traitNotFound
  else .ok { db with traits := db.traits.filter (· != name) }

/-- `ResourceClass._get_next_id` -/
def nextRcId (db : DB R) : Nat :=
  let m := (db.rcs.map (·.1)).foldl max 0
  if m < minCustomRcId then minCustomRcId else m + 1

/-- `ResourceClass.create` (names in `orc.STANDARDS` are the non-custom names) -/
def createRc (db : DB R) (name : Nat) : Except Exc (DB R) :=
  if !isCustom name then
    (if (db.rcId name).isSome then .error .rcExists else .error .objectAction)
  else if (db.rcId name).isSome then .error .rcExists
  else .ok { db with rcs := db.rcs ++ [(nextRcId db, name)] }

/-- `ResourceClass.destroy` -/
def deleteRc (db : DB R) (id : Nat) : Except Exc (DB R) :=
  if id < minCustomRcId then .error .rcCannotDeleteStandard
  else if db.invs.any (·.rc == id) then .error .rcInUse
  else if !(db.rcs.any (·.1 == id)) then .error .notFound
  else .ok { db with rcs := db.rcs.filter (·.1 != id) }

/-- `ResourceClass.save` (rename, microversions 1.2-1.6) -/
def renameRc (db : DB R) (id newName : Nat) : Except Exc (DB R) :=
  if id < minCustomRcId then .error .rcCannotUpdateStandard
  else if db.rcs.any (fun p => p.1 != id && p.2 == newName) then .error .rcExists
  else .ok { db with rcs := db.rcs.map (fun p => if p.1 == id then (id, newName) else p) }

/-! ### allocations -/

variable [CapOps R]

/-- the two tests of `_check_capacity_exceeded` for one allocation; `running` is the sum of the
amounts seen so far in this request for the same (provider, class), this one included -/
def unitViolated (i : InvRow R) (amount : Int) : Bool :=
  amount < i.minUnit || amount > i.maxUnit || amount % i.stepSize != 0

def capacityExceeded (i : InvRow R) (used amount running : Int) : Bool :=
  CapOps.capLt (i.total - i.reserved) i.ratio (used + amount) ||
  CapOps.capLt (i.total - i.reserved) i.ratio (used + running)

/-- the loop of `_check_capacity_exceeded` over resolved allocations `(rp, rc, used)`;
`seen` are the entries already visited -/
def checkLoop (db : DB R) : List (Nat × Nat × Int) → List (Nat × Nat × Int) → Except Exc Unit
  | _, [] => .ok ()
  | seen, (rp, rc, amount) :: rest =>
    if amount == 0 then checkLoop db (seen ++ [(rp, rc, amount)]) rest
    else match db.invOf rp rc with
      | none => .error .invalidInventory
      | some i =>
        let running := ((seen.filter (fun s => s.1 == rp && s.2.1 == rc)).map (·.2.2)).sum + amount
        if unitViolated i amount then .error .constraintsViolated
        else if capacityExceeded i (db.usage rp rc) amount running then .error .capacityExceeded
        else checkLoop db (seen ++ [(rp, rc, amount)]) rest

def resolveAllocRcs (db : DB R) : List AllocReq → Except Exc (List (Nat × Nat × Int))
  | [] => .ok []
  | a :: as => match db.rcId a.rcName with
    | none => .error .rcNotFound
    | some rc => (resolveAllocRcs db as).map ((a.rpId, rc, a.used) :: ·)

/-- `_check_capacity_exceeded` -/
def checkCapacity (db : DB R) (allocs : List AllocReq) : Except Exc Unit := do
  let res ← resolveAllocRcs db allocs
  let rcIds := res.map (·.2.1)
  -- every provider named must have inventory of at least one of the classes named
  if res.any (fun a => !(db.invs.any (fun i => i.rp == a.1 && rcIds.contains i.rc)
                          && db.rps.any (·.id == a.1))) then throw .invalidInventory
  checkLoop db [] res

def incRpGens (db : DB R) : List (Nat × Nat) → Except Exc (DB R)
  | [] => .ok db
  | (id, gen) :: rest => do let db' ← incRpGen db id gen; incRpGens db' rest

def incConsGens (db : DB R) : List (Nat × Nat) → Except Exc (DB R)
  | [] => .ok db
  | (id, gen) :: rest => do let db' ← incConsGen db id gen; incConsGens db' rest

/-- first occurrence per key (Python dicts keep the first value stored under `if k not in d`) -/
def firstByKey : List (Nat × Nat) → List (Nat × Nat)
  | [] => []
  | (k, v) :: rest => (k, v) :: (firstByKey rest).filter (·.1 != k)

/-- `delete_consumers_if_no_allocations` -/
def deleteConsumersIfNoAllocs (db : DB R) (uuids : List Nat) : DB R :=
  let cs := db.consumers.filter (fun c =>
      !(uuids.contains c.uuid && !(db.allocs.any (·.consumer == c.uuid))))
  { db with consumers := cs }

/-- `_set_allocations` (one attempt) -/
def setAllocations (db : DB R) (allocs : List AllocReq) : Except Exc (DB R) := do
  let consUuids := allocs.map (·.consUuid)
  let db1 := { db with allocs := db.allocs.filter (fun a => !consUuids.contains a.consumer) }
  checkCapacity db1 allocs
  let res ← resolveAllocRcs db1 allocs
  let rows := (allocs.zip res).filterMap (fun (a, r) =>
    if a.used == 0 then none
    else some ({ rp := a.rpId, rc := r.2.1, consumer := a.consUuid, used := a.used } : AllocRow))
  let db2 := { db1 with allocs := db1.allocs ++ rows }
  let db3 ← incRpGens db2 (firstByKey (allocs.map (fun a => (a.rpId, a.rpGen))))
  let db4 ← incConsGens db3 (firstByKey (allocs.map (fun a => (a.consId, a.consGen))))
  let withAllocs := (allocs.filter (fun a => a.used > 0)).map (·.consUuid)
  let toCheck := consUuids.filter (fun u => !withAllocs.contains u)
  return deleteConsumersIfNoAllocs db4 toCheck

/-- `delete_all` (DELETE /allocations/{consumer}) -/
def deleteAllocations (db : DB R) (consumer : Nat) : DB R :=
  deleteConsumersIfNoAllocs { db with allocs := db.allocs.filter (·.consumer != consumer) } [consumer]

end Placement
