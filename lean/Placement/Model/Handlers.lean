import Placement.Model.Objects
/-
  The handlers (`placement/handlers/*.py`), sequential semantics: `step db op` is the effect of one
  complete request executed alone.  The transaction structure of the concurrency-relevant
  handlers is modelled separately in `Txn.lean` and proved/evaluated to agree with this file.

  Requests are already parsed and schema-valid (schema validation is the generated model of
  `Gen/Schemas.lean`, property C15); `mv` is the minor microversion.
-/
namespace Placement

structure Config where
  incompleteProject : Nat
  incompleteUser : Nat
deriving Repr, Inhabited

structure ConsumerReq where
  uuid : Nat
  project : Option Nat      -- absent below 1.8
  user : Option Nat
  ctype : Option Nat        -- from 1.38
  gen : Option Nat          -- consumer_generation, `none` = null; meaningful from 1.28
  allocs : List (Nat × Nat × Int)   -- (provider uuid, class name, amount) in body order
deriving Repr, Inhabited

structure RpInvReq (R : Type) where
  uuid : Nat
  gen : Nat
  invs : List (InvSpec R)
deriving Repr, Inhabited

inductive Op (R : Type)
  | rpCreate (mv uuid name : Nat) (parent : Option Nat)
  | rpUpdate (mv uuid name : Nat) (parent : Option (Option Nat))
  | rpDelete (uuid : Nat)
  | invSet (mv uuid gen : Nat) (invs : List (InvSpec R))
  | invAdd (mv uuid : Nat) (inv : InvSpec R)
  | invUpdate (mv uuid gen : Nat) (inv : InvSpec R)
  | invDelete (uuid rcName : Nat)
  | invDeleteAll (mv uuid : Nat)
  | traitPut (name : Nat)
  | traitDelete (name : Nat)
  | rpTraitsSet (uuid gen : Nat) (traits : List Nat)
  | rpTraitsDelete (uuid : Nat)
  | rcPost (name : Nat)
  | rcPut (name : Nat)                 -- 1.7+
  | rcRename (old new : Nat)           -- 1.2 - 1.6
  | rcDelete (name : Nat)
  | aggsSet (mv uuid : Nat) (gen : Option Nat) (aggs : List Nat)
  | allocPut (mv : Nat) (c : ConsumerReq)
  | allocPost (mv : Nat) (cs : List ConsumerReq)
  | allocDelete (consumer : Nat)
  | reshape (mv : Nat) (invs : List (RpInvReq R)) (cs : List ConsumerReq)
deriving Repr, Inhabited

variable {R : Type} [CapOps R]

def r200 : Resp := { status := 200 }
def r201 : Resp := { status := 201 }
def r204 : Resp := { status := 204 }
def r400 : Resp := { status := 400, code := .undefined }
def r404 : Resp := { status := 404, code := .undefined }
def r409 (c : Code := .undefined) : Resp := { status := 409, code := c }
def r500 : Resp := { status := 500 }

/-- `_validate_inventory_capacity`: `int(capacity) <= 0` is rejected below 1.26, `< 0` from 1.26 -/
def invCapacityInvalid (mv : Nat) (i : InvSpec R) : Bool :=
  let cap := CapOps.capTrunc (i.total - i.reserved) i.ratio
  if mv < 26 then cap ≤ 0 else cap < 0

/-! ### providers -/

def hRpCreate (db : DB R) (mv uuid name : Nat) (parent : Option Nat) : DB R × Resp :=
  if mv < 14 && parent.isSome then (db, r400) else
  match createProvider db uuid name parent with
  | .ok (db', _) => (db', if mv < 20 then r201 else r200)
  | .error .dbDuplicate => (db, r409 .duplicateName)
  | .error .objectAction => (db, r400)
  | .error _ => (db, r500)

def hRpUpdate (db : DB R) (mv uuid name : Nat) (parent : Option (Option Nat)) : DB R × Resp :=
  match db.rpByUuid uuid with
  | none => (db, r404)
  | some me =>
    if mv < 14 && parent.isSome then (db, r400) else
    let curParent : Option Nat := me.parent.bind (fun p => (db.rpById p).map (·.uuid))
    match updateProvider db me.id name (parent.getD curParent) (mv ≥ 37) with
    | .ok db' => (db', r200)
    | .error .dbDuplicate => (db, r409 .duplicateName)
    | .error .objectAction => (db, r400)
    | .error .notFound => (db, r404)
    | .error _ => (db, r500)

def hRpDelete (db : DB R) (uuid : Nat) : DB R × Resp :=
  match db.rpByUuid uuid with
  | none => (db, r404)
  | some me =>
    match deleteProvider db me.id with
    | .ok db' => (db', r204)
    | .error .rpInUse => (db, r409 .providerInUse)
    | .error .cannotDeleteParent => (db, r409 .cannotDeleteParent)
    | .error .notFound => (db, r404)
    | .error _ => (db, r500)

/-! ### inventories -/

def hInvSet (db : DB R) (mv uuid gen : Nat) (invs : List (InvSpec R)) : DB R × Resp :=
  match db.rpByUuid uuid with
  | none => (db, r404)
  | some rp =>
    if gen != rp.gen then (db, r409 .concurrentUpdate)
    else if invs.any (invCapacityInvalid mv) then (db, r400)
    else match setInventory db rp.id rp.gen invs with
      | .ok db' => (db', r200)
      | .error .rcNotFound => (db, r400)
      | .error .invWithRcNotFound => (db, r409)
      | .error .inventoryInUse => (db, r409 .inventoryInUse)
      | .error e => (db, if e.isConcurrentUpdate || e == .dbDuplicate then r409 .concurrentUpdate else r500)

def hInvAdd (db : DB R) (mv uuid : Nat) (inv : InvSpec R) : DB R × Resp :=
  match db.rpByUuid uuid with
  | none => (db, r404)
  | some rp =>
    if invCapacityInvalid mv inv then (db, r400)
    else match addInventory db rp.id rp.gen inv with
      | .ok db' => (db', r201)
      | .error e =>
        if e.isConcurrentUpdate || e == .dbDuplicate then (db, r409 .concurrentUpdate)
        else if e.isNotFound then (db, r400) else (db, r500)

def hInvUpdate (db : DB R) (mv uuid gen : Nat) (inv : InvSpec R) : DB R × Resp :=
  match db.rpByUuid uuid with
  | none => (db, r404)
  | some rp =>
    if gen != rp.gen then (db, r409 .concurrentUpdate)
    else if invCapacityInvalid mv inv then (db, r400)
    else match updateInventory db rp.id rp.gen inv with
      | .ok db' => (db', r200)
      | .error .invWithRcNotFound => (db, r400)
      | .error e =>
        if e.isConcurrentUpdate || e == .dbDuplicate then (db, r409 .concurrentUpdate)
        else if e.isNotFound then (db, r404) else (db, r500)

def hInvDelete (db : DB R) (uuid rcName : Nat) : DB R × Resp :=
  match db.rpByUuid uuid with
  | none => (db, r404)
  | some rp =>
    match deleteInventory db rp.id rp.gen rcName with
    | .ok db' => (db', r204)
    | .error .inventoryInUse => (db, r409 .concurrentUpdate)
    | .error e =>
      if e.isConcurrentUpdate then (db, r409 .concurrentUpdate)
      else if e.isNotFound then (db, r404) else (db, r500)

def hInvDeleteAll (db : DB R) (mv uuid : Nat) : DB R × Resp :=
  if mv < 5 then (db, { status := 405, code := .undefined }) else
  match db.rpByUuid uuid with
  | none => (db, r404)
  | some rp =>
    match setInventory db rp.id rp.gen [] with
    | .ok db' => (db', r204)
    | .error .inventoryInUse => (db, r409 .inventoryInUse)
    | .error e => if e.isConcurrentUpdate then (db, r409 .concurrentUpdate) else (db, r500)

/-! ### traits, classes, aggregates -/

def hTraitPut (db : DB R) (name : Nat) : DB R × Resp :=
  if !isCustom name then (db, r400)
  else if db.traits.contains name then (db, r204)
  else match createTrait db name with
    | .ok db' => (db', r201)
    | .error _ => (db, r204)

def hTraitDelete (db : DB R) (name : Nat) : DB R × Resp :=
  if !db.traits.contains name then (db, r404) else
  match deleteTrait db name with
  | .ok db' => (db', r204)
  | .error .traitNotFound => (db, r404)
  | .error .traitCannotDeleteStandard => (db, r400)
  | .error .traitInUse => (db, r409)
  | .error _ => (db, r500)

def hRpTraitsSet (db : DB R) (uuid gen : Nat) (traits : List Nat) : DB R × Resp :=
  match db.rpByUuid uuid with
  | none => (db, r404)
  | some rp =>
    if rp.gen != gen then (db, r409 .concurrentUpdate)
    else if traits.any (fun t => !db.traits.contains t) then (db, r400)
    else match setTraits db rp.id rp.gen traits with
      | .ok db' => (db', r200)
      | .error e => if e.isConcurrentUpdate then (db, r409 .concurrentUpdate) else (db, r500)

def hRpTraitsDelete (db : DB R) (uuid : Nat) : DB R × Resp :=
  match db.rpByUuid uuid with
  | none => (db, r404)
  | some rp =>
    match setTraits db rp.id rp.gen [] with
    | .ok db' => (db', r204)
    | .error e => if e.isConcurrentUpdate then (db, r409 .concurrentUpdate) else (db, r500)

def hRcPost (db : DB R) (name : Nat) : DB R × Resp :=
  if !isCustom name then (db, r400) else       -- schema: ^CUSTOM_...
  match createRc db name with
  | .ok db' => (db', r201)
  | .error .rcExists => (db, r409)
  | .error _ => (db, r500)

def hRcPut (db : DB R) (name : Nat) : DB R × Resp :=
  if !isCustom name then (db, r400) else
  if (db.rcId name).isSome then (db, r204) else
  match createRc db name with
  | .ok db' => (db', r201)
  | .error .rcExists => (db, r204)
  | .error _ => (db, r500)

def hRcRename (db : DB R) (old new : Nat) : DB R × Resp :=
  if !isCustom new then (db, r400) else
  match db.rcId old with
  | none => (db, r404)
  | some id =>
    match renameRc db id new with
    | .ok db' => (db', r200)
    | .error .rcExists => (db, r409)
    | .error .rcCannotUpdateStandard => (db, r400)
    | .error _ => (db, r500)

def hRcDelete (db : DB R) (name : Nat) : DB R × Resp :=
  match db.rcId name with
  | none => (db, r404)
  | some id =>
    match deleteRc db id with
    | .ok db' => (db', r204)
    | .error .rcCannotDeleteStandard => (db, r400)
    | .error .rcInUse => (db, r409)
    | .error .notFound => (db, r404)
    | .error _ => (db, r500)

def hAggsSet (db : DB R) (mv uuid : Nat) (gen : Option Nat) (aggs : List Nat) : DB R × Resp :=
  if mv < 1 then (db, r404) else
  match db.rpByUuid uuid with
  | none => (db, r404)
  | some rp =>
    let consider := mv ≥ 19
    if consider && gen != some rp.gen then (db, r409 .concurrentUpdate)
    else match setAggregates db rp.id rp.gen aggs consider with
      | .ok db' => (db', r200)
      | .error e => if e.isConcurrentUpdate then (db, r409 .concurrentUpdate)
                    else if e == .dbDuplicate then (db, r409) else (db, r500)

/-! ### consumers -/

def addIfMissing (l : List Nat) (x : Nat) : List Nat := if l.contains x then l else l ++ [x]

/-- What `ensure_consumer` hands to `update_consumers`: requested project, user, type. -/
structure ReqAttr where
  project : Nat
  user : Nat
  ctype : Option Nat
deriving Repr, Inhabited

/-- `util.ensure_consumer`: get-or-create project, user, consumer (type from 1.38), each in its own
committed transaction; early generation comparison from 1.28. -/
def ensureConsumer (cfg : Config) (db : DB R) (mv : Nat) (c : ConsumerReq) :
    DB R × Except Resp (ConsRow × Bool × ReqAttr) :=
  let project := c.project.getD cfg.incompleteProject
  let user := if c.project.isNone then cfg.incompleteUser else c.user.getD cfg.incompleteUser
  let db1 := { db with projects := addIfMissing db.projects project, users := addIfMissing db.users user }
  let withType (d : DB R) : DB R × Option Nat :=
    if mv ≥ 38 then
      match c.ctype with
      | some t => ({ d with ctypes := addIfMissing d.ctypes t }, some t)
      | none => (d, none)
    else (d, none)
  match db1.consByUuid c.uuid with
  | some cons =>
    if mv ≥ 28 && some cons.gen != c.gen then (db1, .error (r409 .concurrentUpdate))
    else
      let (db2, t) := withType db1
      (db2, .ok (cons, false, { project := project, user := user, ctype := t }))
  | none =>
    if mv ≥ 28 && c.gen.isSome then (db1, .error (r409 .concurrentUpdate))
    else
      let (db2, t) := withType db1
      let row : ConsRow := { id := db2.nextCons, uuid := c.uuid, project := project, user := user,
                             ctype := t, gen := 0 }
      ({ db2 with consumers := db2.consumers ++ [row], nextCons := db2.nextCons + 1 },
       .ok (row, true, { project := project, user := user, ctype := t }))

/-- `util.update_consumers` for one consumer (inside the main write transaction) -/
def updateConsumer (db : DB R) (cons : ConsRow) (a : ReqAttr) : DB R :=
  let upd (d : DB R) (p u : Nat) (t : Option Nat) : DB R :=
    let cs := d.consumers.map (fun c =>
      if c.id == cons.id && c.gen == cons.gen then { c with project := p, user := u, ctype := t } else c)
    { d with consumers := cs }
  let changedPU := a.project != cons.project || a.user != cons.user
  let db1 := if changedPU then upd db a.project a.user cons.ctype else db
  match a.ctype with
  | some t => if some t != cons.ctype then upd db1 a.project a.user (some t) else db1
  | none => db1

def deleteConsumerRows (db : DB R) (ids : List Nat) : DB R :=
  { db with consumers := db.consumers.filter (fun c => !ids.contains c.id) }

/-- allocation objects for one consumer entry: `_new_allocations` over the body, or the
consumer's existing rows with `used = 0` when the entry is empty -/
def allocObjects (db : DB R) (cons : ConsRow) (c : ConsumerReq) : Except Resp (List AllocReq) :=
  if c.allocs.isEmpty then
    -- `get_all_by_consumer_id`: join of allocations, providers, consumer
    match db.consByUuid cons.uuid with
    | none => .ok []
    | some cur =>
      .ok ((db.allocs.filter (·.consumer == cons.uuid)).filterMap (fun a =>
        match db.rpById a.rp, db.rcName a.rc with
        | some rp, some n => some { rpId := rp.id, rpGen := rp.gen, rcName := n, consId := cur.id,
                                    consUuid := cur.uuid, consGen := cur.gen, used := 0 }
        | _, _ => none))
  else
    if c.allocs.any (fun a => (db.rpByUuid a.1).isNone) then .error r400
    else .ok (c.allocs.filterMap (fun a =>
      (db.rpByUuid a.1).map (fun rp =>
        { rpId := rp.id, rpGen := rp.gen, rcName := a.2.1, consId := cons.id, consUuid := cons.uuid,
          consGen := cons.gen, used := a.2.2 })))

/-- exception map shared by the three allocation-writing handlers -/
def allocErr (e : Exc) : Resp :=
  if e.isNotFound then r400
  else if e.isInvalidInventory then r409
  else if e.isConcurrentUpdate then r409 .concurrentUpdate
  else r500

def hAllocPut (cfg : Config) (db : DB R) (mv : Nat) (c : ConsumerReq) : DB R × Resp :=
  if mv < 28 && c.allocs.isEmpty then (db, r400) else
  match ensureConsumer cfg db mv c with
  | (db1, .error r) => (db1, r)
  | (db1, .ok (cons, created, attr)) =>
    match allocObjects db1 cons c with
    | .error r => ((if created then deleteConsumerRows db1 [cons.id] else db1), r)
    | .ok objs =>
      let db2 := updateConsumer db1 cons attr
      match setAllocations db2 objs with
      | .ok db3 => ((if created && objs.isEmpty then deleteConsumerRows db3 [cons.id] else db3), r204)
      | .error e => ((if created then deleteConsumerRows db1 [cons.id] else db1), allocErr e)

/-- `inspect_consumers`: ensure every consumer; on the first failure delete those created so far -/
def inspectConsumers (cfg : Config) (mv : Nat) :
    DB R → List ConsumerReq → List (ConsumerReq × ConsRow × ReqAttr) → List Nat →
    DB R × Except Resp (List (ConsumerReq × ConsRow × ReqAttr) × List Nat)
  | db, [], acc, created => (db, .ok (acc, created))
  | db, c :: cs, acc, created =>
    match ensureConsumer cfg db mv c with
    | (db1, .error r) => (deleteConsumerRows db1 created, .error r)
    | (db1, .ok (cons, isNew, attr)) =>
      inspectConsumers cfg mv db1 cs (acc ++ [(c, cons, attr)]) (if isNew then created ++ [cons.id] else created)

def allocObjectsAll (db : DB R) : List (ConsumerReq × ConsRow × ReqAttr) → Except Resp (List AllocReq)
  | [] => .ok []
  | (c, cons, _) :: rest => do
    let a ← allocObjects db cons c
    let b ← allocObjectsAll db rest
    return a ++ b

def updateConsumers (db : DB R) : List (ConsumerReq × ConsRow × ReqAttr) → DB R
  | [] => db
  | (_, cons, attr) :: rest => updateConsumers (updateConsumer db cons attr) rest

/-- consumers created by this request whose entry carries no allocations -/
def createdEmpty (triples : List (ConsumerReq × ConsRow × ReqAttr)) (created : List Nat) : List Nat :=
  (triples.filter (fun t => created.contains t.2.1.id && t.1.allocs.isEmpty)).map (·.2.1.id)

def hAllocPost (cfg : Config) (db : DB R) (mv : Nat) (cs : List ConsumerReq) : DB R × Resp :=
  if mv < 13 then (db, r404) else
  match inspectConsumers cfg mv db cs [] [] with
  | (db1, .error r) => (db1, r)
  | (db1, .ok (triples, created)) =>
    match allocObjectsAll db1 triples with
    | .error r => (deleteConsumerRows db1 created, r)
    | .ok objs =>
      let db2 := updateConsumers db1 triples
      match setAllocations db2 objs with
      | .ok db3 => (deleteConsumerRows db3 (createdEmpty triples created), r204)
      | .error e => (deleteConsumerRows db1 created, allocErr e)

def hAllocDelete (db : DB R) (consumer : Nat) : DB R × Resp :=
  if db.allocs.any (·.consumer == consumer) then (deleteAllocations db consumer, r204)
  else (db, r404)

/-! ### reshaper -/

/-- generation of a provider as the request's Python objects know it -/
def knownGen (gens : List (Nat × Nat)) (id dflt : Nat) : Nat :=
  ((gens.find? (·.1 == id)).map (·.2)).getD dflt

def bumpGen (gens : List (Nat × Nat)) (id : Nat) : List (Nat × Nat) :=
  gens.map (fun p => if p.1 == id then (p.1, p.2 + 1) else p)

def invRowToSpec (db : DB R) (i : InvRow R) : Option (InvSpec R) :=
  (db.rcName i.rc).map (fun n =>
    { rcName := n, total := i.total, reserved := i.reserved, minUnit := i.minUnit,
      maxUnit := i.maxUnit, stepSize := i.stepSize, ratio := i.ratio })

/-- interim inventories: existing ∪ new (new wins per class) -/
def reshapeInterim (db : DB R) : List (Nat × List (InvSpec R)) → List (Nat × Nat) →
    Except Exc (DB R × List (Nat × Nat))
  | [], gens => .ok (db, gens)
  | (rp, newInvs) :: rest, gens =>
    if newInvs.isEmpty then reshapeInterim db rest gens
    else
      let existing := (db.invs.filter (·.rp == rp)).filterMap (invRowToSpec db)
      let merged := existing.filter (fun e => !(newInvs.any (·.rcName == e.rcName))) ++ newInvs
      match setInventory db rp (knownGen gens rp 0) merged with
      | .error e => .error e
      | .ok db' => reshapeInterim db' rest (bumpGen gens rp)

def reshapeFinal (db : DB R) : List (Nat × List (InvSpec R)) → List (Nat × Nat) → Except Exc (DB R)
  | [], _ => .ok db
  | (rp, newInvs) :: rest, gens =>
    match setInventory db rp (knownGen gens rp 0) newInvs with
    | .error e => .error e
    | .ok db' => reshapeFinal db' rest (bumpGen gens rp)

/-- `objects/reshaper.reshape` -/
def reshapeTxn (db : DB R) (invs : List (Nat × Nat × List (InvSpec R))) (objs : List AllocReq) :
    Except Exc (DB R) := do
  let gens0 : List (Nat × Nat) := invs.map (fun t => (t.1, t.2.1))
  let byRp := invs.map (fun t => (t.1, t.2.2))
  let (db1, gens1) ← reshapeInterim db byRp gens0
  -- allocation objects on affected providers share the provider object (and its generation)
  let objs' := objs.map (fun a => { a with rpGen := knownGen gens1 a.rpId a.rpGen })
  let db2 ← setAllocations db1 objs'
  let touched := (objs'.map (·.rpId)).eraseDups
  let gens2 := touched.foldl bumpGen gens1
  reshapeFinal db2 byRp gens2

def resolveReshapeRps (db : DB R) : List (RpInvReq R) → Except Resp (List (Nat × Nat × List (InvSpec R)))
  | [] => .ok []
  | r :: rest =>
    match db.rpByUuid r.uuid with
    | none => .error { status := 400, code := .resourceProviderNotFound }
    | some rp =>
      if r.gen != rp.gen then .error (r409 .concurrentUpdate)
      else (resolveReshapeRps db rest).map ((rp.id, rp.gen, r.invs) :: ·)

def reshapeErr (e : Exc) : Resp :=
  if e.isConcurrentUpdate then r409 .concurrentUpdate
  else if e.isNotFound then r400
  else if e == .inventoryInUse then r409 .inventoryInUse
  else if e.isInvalidInventory then r409
  else r500

def hReshape (cfg : Config) (db : DB R) (mv : Nat) (invs : List (RpInvReq R)) (cs : List ConsumerReq) :
    DB R × Resp :=
  if mv < 30 then (db, r404) else
  match resolveReshapeRps db invs with
  | .error r => (db, r)
  | .ok rinvs =>
    match inspectConsumers cfg mv db cs [] [] with
    | (db1, .error r) => (db1, r)
    | (db1, .ok (triples, created)) =>
      match allocObjectsAll db1 triples with
      | .error r => (deleteConsumerRows db1 created, r)
      | .ok objs =>
        let db2 := updateConsumers db1 triples
        match reshapeTxn db2 rinvs objs with
        | .ok db3 => (deleteConsumerRows db3 (createdEmpty triples created), r204)
        | .error e => (deleteConsumerRows db1 created, reshapeErr e)

/-! ### dispatch -/

def step (cfg : Config) (db : DB R) : Op R → DB R × Resp
  | .rpCreate mv u n p => hRpCreate db mv u n p
  | .rpUpdate mv u n p => hRpUpdate db mv u n p
  | .rpDelete u => hRpDelete db u
  | .invSet mv u g is => hInvSet db mv u g is
  | .invAdd mv u i => hInvAdd db mv u i
  | .invUpdate mv u g i => hInvUpdate db mv u g i
  | .invDelete u rc => hInvDelete db u rc
  | .invDeleteAll mv u => hInvDeleteAll db mv u
  | .traitPut n => hTraitPut db n
  | .traitDelete n => hTraitDelete db n
  | .rpTraitsSet u g ts => hRpTraitsSet db u g ts
  | .rpTraitsDelete u => hRpTraitsDelete db u
  | .rcPost n => hRcPost db n
  | .rcPut n => hRcPut db n
  | .rcRename o n => hRcRename db o n
  | .rcDelete n => hRcDelete db n
  | .aggsSet mv u g as => hAggsSet db mv u g as
  | .allocPut mv c => hAllocPut cfg db mv c
  | .allocPost mv cs => hAllocPost cfg db mv cs
  | .allocDelete c => hAllocDelete db c
  | .reshape mv invs cs => hReshape cfg db mv invs cs

/-- a history: the list of responses and the final state -/
def run (cfg : Config) : DB R → List (Op R) → DB R × List Resp
  | db, [] => (db, [])
  | db, op :: ops =>
    let (db', r) := step cfg db op
    let (db'', rs) := run cfg db' ops
    (db'', r :: rs)

end Placement
