/-
  C14 model: which (route, method) answers at which microversion, version negotiation, the
  meaning of an in-handler version gate, schema selection chains, and the table of documented
  features (rest_api_version_history.rst) with the generated gate sites / windows implementing
  each of them.

  Everything here is computed from `Placement.Gen.Versions` (regenerated from the source tree on
  every run) in the way `placement.handler.dispatch`, `placement.handler.make_map`,
  `placement.microversion.version_handler/_find_method` and
  `microversion_parse.extract_version` decide it:

  * `make_map` connects, per declared path, one route per declared method and then a catch-all
    route to `handle_405`; `dispatch` raises 404 when nothing matches.  Hence: unknown path ⇒ 404,
    known path with an undeclared method ⇒ 405.
  * a handler decorated with `version_handler(min, max, status_code)` runs the first registered
    window with `min ≤ v ≤ max`; when there is none it raises `status_code` (404, or 405 for
    `DELETE /resource_providers/{uuid}/inventories`).
  * `extract_version`: no header (or a header for another service) ⇒ first element of VERSIONS,
    `latest` ⇒ last element, `X.Y` that is not listed ⇒ 406, unparsable ⇒ 400.
  * `Version.matches((1, N))` is `(1, N) ≤ v ≤ max_version`.
-/
import Placement.Gen.Versions

namespace Placement.Versions
open Placement.Gen

/-! ## availability of a (route, method) at a minor version -/

inductive Avail where
  | ok
  | notFound404
  | notAllowed405
  deriving DecidableEq, Repr

def Avail.toString : Avail → String
  | .ok => "ok"
  | .notFound404 => "404"
  | .notAllowed405 => "405"

/-- `microversion.min_version_string()` = `VERSIONS[0]` -/
def minMinor : Nat := versionMinors.head?.getD 0
/-- `microversion.max_version_string()` = `VERSIONS[-1]` -/
def maxMinor : Nat := versionMinors.getLast?.getD 0

/-- windows registered for the handler with interned id `h` -/
def windowsOf (h : Nat) : List Window := windows.filter (fun w => w.hid == h)

def inWindow (w : Window) (v : Nat) : Bool := decide (w.lo ≤ v) && decide (v ≤ w.hi)

/-- `_find_method`: some registered window contains the version -/
def inSomeWindow (h : Nat) (v : Nat) : Bool := (windowsOf h).any (fun w => inWindow w v)

def statusAvail (s : Nat) : Avail := if s = 405 then .notAllowed405 else .notFound404

def pathDeclared (p : String) : Bool := routes.any (fun r => r.path == p)

def findRoute (p m : String) : Option Route := routes.find? (fun r => r.path == p && r.method == m)

/-- What `dispatch` + `version_handler` answer for path template `p`, method `m`, minor `v`
(before the handler body runs). -/
def availability (p m : String) (v : Nat) : Avail :=
  match findRoute p m with
  | none => if pathDeclared p then .notAllowed405 else .notFound404
  | some r =>
    if r.versioned then
      if inSomeWindow r.hid v then .ok else statusAvail r.missStatus
    else .ok

/-- smallest `lo` of the windows of a handler (`maxMinor + 1` when it has none) -/
def introducedAt (h : Nat) : Nat := ((windowsOf h).map (·.lo)).foldl min (maxMinor + 1)

/-- version from which the route answers, when it is declared at all -/
def routeIntroducedAt (p m : String) : Option Nat :=
  (findRoute p m).map (fun r => if r.versioned then introducedAt r.hid else 0)

/-- (path, method, first version, status below it) of every declared route -/
def routeSurface : List (String × String × Nat × Nat) :=
  routes.map (fun r => (r.path, r.method, if r.versioned then introducedAt r.hid else 0,
                        if r.versioned then r.missStatus else 0))

/-- The routes the documentation lists (api-ref + rest_api_version_history.rst): first version and what
a request gets below it.  Hand written; `route_table_as_documented` compares it with the code. -/
def documentedRoutes : List (String × String × Nat × Nat) := [
  ("", "GET", 0, 0),
  ("/", "GET", 0, 0),
  ("/allocation_candidates", "GET", 10, 404),
  ("/allocations", "POST", 13, 404),
  ("/allocations/{consumer_uuid}", "DELETE", 0, 0),
  ("/allocations/{consumer_uuid}", "GET", 0, 0),
  ("/allocations/{consumer_uuid}", "PUT", 0, 404),
  ("/reshaper", "POST", 30, 404),
  ("/resource_classes", "GET", 2, 404),
  ("/resource_classes", "POST", 2, 404),
  ("/resource_classes/{name}", "DELETE", 2, 404),
  ("/resource_classes/{name}", "GET", 2, 404),
  ("/resource_classes/{name}", "PUT", 2, 404),
  ("/resource_providers", "GET", 0, 0),
  ("/resource_providers", "POST", 0, 0),
  ("/resource_providers/{uuid}", "DELETE", 0, 0),
  ("/resource_providers/{uuid}", "GET", 0, 0),
  ("/resource_providers/{uuid}", "PUT", 0, 0),
  ("/resource_providers/{uuid}/aggregates", "GET", 1, 404),
  ("/resource_providers/{uuid}/aggregates", "PUT", 1, 404),
  ("/resource_providers/{uuid}/allocations", "GET", 0, 0),
  ("/resource_providers/{uuid}/inventories", "DELETE", 5, 405),
  ("/resource_providers/{uuid}/inventories", "GET", 0, 0),
  ("/resource_providers/{uuid}/inventories", "POST", 0, 0),
  ("/resource_providers/{uuid}/inventories", "PUT", 0, 0),
  ("/resource_providers/{uuid}/inventories/{resource_class}", "DELETE", 0, 0),
  ("/resource_providers/{uuid}/inventories/{resource_class}", "GET", 0, 0),
  ("/resource_providers/{uuid}/inventories/{resource_class}", "PUT", 0, 0),
  ("/resource_providers/{uuid}/traits", "DELETE", 6, 404),
  ("/resource_providers/{uuid}/traits", "GET", 6, 404),
  ("/resource_providers/{uuid}/traits", "PUT", 6, 404),
  ("/resource_providers/{uuid}/usages", "GET", 0, 0),
  ("/traits", "GET", 6, 404),
  ("/traits/{name}", "DELETE", 6, 404),
  ("/traits/{name}", "GET", 6, 404),
  ("/traits/{name}", "PUT", 6, 404),
  ("/usages", "GET", 9, 404)
]

/-! ## version negotiation (`microversion_parse.extract_version` behind `MicroversionMiddleware`) -/

/-- the `openstack-api-version` request header, as far as negotiation looks at it -/
inductive VersionHeader where
  | absent                       -- no header
  | otherService                 -- a header that names only other service types
  | latest                       -- `placement latest`
  | ver (major minor : Nat)      -- `placement X.Y`, both numerals
  | malformed                    -- `placement <anything else>`
  deriving DecidableEq, Repr

inductive Negotiated where
  | accept (minor : Nat)
  | reject406
  | reject400
  deriving DecidableEq, Repr

def negotiate : VersionHeader → Negotiated
  | .absent => .accept minMinor
  | .otherService => .accept minMinor
  | .latest => .accept maxMinor
  | .ver major minor => if major = 1 ∧ minor ∈ versionMinors then .accept minor else .reject406
  | .malformed => .reject400

/-- value of the `openstack-api-version` response header: the version actually applied -/
def responseVersionHeader : Negotiated → Option String
  | .accept n => some ("placement 1." ++ toString n)
  | _ => none

/-- status class of the whole exchange before the handler body runs -/
inductive Outcome where
  | served (minor : Nat)      -- handler runs at this minor
  | status (code : Nat)       -- 400 / 404 / 405 / 406
  deriving DecidableEq, Repr

def respond (h : VersionHeader) (p m : String) : Outcome :=
  match negotiate h with
  | .reject406 => .status 406
  | .reject400 => .status 400
  | .accept v =>
    match availability p m v with
    | .ok => .served v
    | .notFound404 => .status 404
    | .notAllowed405 => .status 405

/-! ## in-handler gates -/

/-- `Version(1, v).matches((1, n))` with `max_version = (1, maxMinor)`; also `Version(1, v) >= (1, n)`
for `v ≤ maxMinor` -/
def gateOpen (n v : Nat) : Bool := decide (n ≤ v) && decide (v ≤ maxMinor)

def findGate (func : String) (ord : Nat) : Option Gate :=
  gates.find? (fun g => g.func == func && g.ord == ord)

/-! ## schema selection chains -/

/-- the schema constant a chain picks at minor `v`, as the code evaluates it -/
def chainSelect (c : SchemaChain) (v : Nat) : String :=
  if c.kind == "last" then
    c.arms.foldl (fun acc a => if gateOpen a.gateMinor v then a.schema else acc) c.default
  else
    match c.arms.find? (fun a => gateOpen a.gateMinor v) with
    | some a => a.schema
    | none => c.default

/-- what it should pick: the arm whose *name* carries the greatest version `≤ v`, else the default -/
def chainIdeal (c : SchemaChain) (v : Nat) : String :=
  let cands := c.arms.filter (fun a => match a.nameMinor with | some n => decide (n ≤ v) | none => false)
  match cands.foldl (fun (best : Option Arm) a =>
      match best with
      | none => some a
      | some b => if b.nameMinor.getD 0 < a.nameMinor.getD 0 then some a else some b) none with
  | some a => a.schema
  | none => c.default

/-! ## documented features -/

/-- One documented change of the API surface, identified by the microversion that introduced it and a
tag.  Appendix A of DESIGN.md, checked row by row against rest_api_version_history.rst and the code. -/
structure Feature where
  minor : Nat
  tag : String
  what : String
  deriving Repr, DecidableEq

def features : List Feature := [
  ⟨1, "aggregates_routes", "GET/PUT /resource_providers/{uuid}/aggregates (404 below)"⟩,
  ⟨1, "links_aggregates", "`aggregates` entry in provider links"⟩,
  ⟨2, "resource_class_routes", "/resource_classes routes (404 below)"⟩,
  ⟨3, "rp_member_of", "`member_of` on GET /resource_providers (400 below)"⟩,
  ⟨4, "rp_resources", "`resources` on GET /resource_providers (400 below)"⟩,
  ⟨5, "delete_all_inventories", "DELETE /resource_providers/{uuid}/inventories (405 below)"⟩,
  ⟨6, "traits_routes", "/traits and /resource_providers/{uuid}/traits routes (404 below)"⟩,
  ⟨6, "links_traits", "`traits` entry in provider links"⟩,
  ⟨7, "put_resource_class_idempotent", "bodiless PUT /resource_classes/{name} -> 201/204; rename with body only 1.2-1.6"⟩,
  ⟨8, "allocation_project_user", "project_id/user_id required in PUT /allocations/{c} (rejected as extra keys below)"⟩,
  ⟨9, "usages_route", "GET /usages (404 below)"⟩,
  ⟨10, "allocation_candidates_route", "GET /allocation_candidates (404 below)"⟩,
  ⟨11, "links_allocations", "`allocations` entry in provider links"⟩,
  ⟨12, "allocation_dict_format", "dict-form allocations in PUT; project_id/user_id in GET /allocations/{c}; dict-form allocation_requests"⟩,
  ⟨13, "post_allocations", "POST /allocations (404 below)"⟩,
  ⟨14, "nested_providers", "parent_provider_uuid/root_provider_uuid in provider bodies, accepted in POST/PUT; in_tree on listing"⟩,
  ⟨15, "last_modified", "last-modified + cache-control: no-cache on GETs and bodied PUT/POST"⟩,
  ⟨16, "candidates_limit", "`limit` on GET /allocation_candidates (400 below)"⟩,
  ⟨17, "candidates_required", "`required` on candidates (400 below); traits in provider_summaries"⟩,
  ⟨18, "rp_required", "`required` on GET /resource_providers (400 below)"⟩,
  ⟨19, "aggregates_generation", "aggregates payloads carry and check resource_provider_generation"⟩,
  ⟨20, "post_provider_returns_body", "POST /resource_providers -> 200 with body (201 empty below)"⟩,
  ⟨21, "candidates_member_of", "`member_of` on candidates (400 below)"⟩,
  ⟨22, "forbidden_traits", "forbidden traits !T in required (400 below)"⟩,
  ⟨23, "error_code", "`code` in error bodies"⟩,
  ⟨24, "repeated_member_of", "repeated member_of (400 below)"⟩,
  ⟨25, "granular_groups", "numbered request groups, group_policy (400 below)"⟩,
  ⟨26, "reserved_equal_total", "inventory with reserved == total (400 below)"⟩,
  ⟨27, "all_classes_in_summaries", "all resource classes in provider_summaries (requested only below)"⟩,
  ⟨28, "consumer_generation", "consumer_generation in GET allocations, required in PUT/POST; empty allocations in PUT"⟩,
  ⟨29, "nested_candidates", "nested candidates; parent/root uuid in provider_summaries"⟩,
  ⟨30, "reshaper_route", "POST /reshaper (404 below)"⟩,
  ⟨31, "candidates_in_tree", "in_tree, in_tree<N> on candidates (400 below)"⟩,
  ⟨32, "forbidden_aggregates", "forbidden aggregates member_of=!agg, !in: (400 below)"⟩,
  ⟨33, "string_suffixes", "string request group suffixes (400 below)"⟩,
  ⟨34, "mappings", "mappings in allocation requests; accepted and ignored in PUT/POST allocations and reshaper"⟩,
  ⟨35, "root_required", "root_required on candidates (400 below)"⟩,
  ⟨36, "same_subtree", "same_subtree and resourceless groups on candidates (400 below)"⟩,
  ⟨37, "reparenting", "re-parenting / un-parenting through PUT /resource_providers/{uuid} (400 below)"⟩,
  ⟨38, "consumer_type", "consumer_type required in PUT/POST/reshaper, shown in GET /allocations/{c}; consumer_type filter and grouping in GET /usages"⟩,
  ⟨39, "any_traits", "required=in:..., repeated required (400 / last one wins below)"⟩
]

/-- A generated site (gate: function + ordinal; window: handler + first version) attributed to the
feature `(minor, tag)`. -/
structure Claim where
  name : String
  num : Nat
  minor : Nat
  tag : String
  deriving Repr, DecidableEq

/-- Which documented feature each in-handler gate site implements.  Hand written, in the order of the
generated `gates` list (function, ordinal): `gates_accounted` demands a one-to-one positional match, so
a new, removed or re-versioned gate in the source breaks the build until the documentation side is
revisited. -/
def gateClaims : List Claim := [
  ⟨"placement.handlers.aggregate._send_aggregates", 0, 19, "aggregates_generation"⟩,
  ⟨"placement.handlers.aggregate._send_aggregates", 1, 15, "last_modified"⟩,
  ⟨"placement.handlers.aggregate.set_aggregates", 0, 19, "aggregates_generation"⟩,
  ⟨"placement.handlers.allocation._last_modified_from_allocations", 0, 15, "last_modified"⟩,
  ⟨"placement.handlers.allocation._serialize_allocations_for_consumer", 0, 12, "allocation_dict_format"⟩,
  ⟨"placement.handlers.allocation._serialize_allocations_for_consumer", 1, 28, "consumer_generation"⟩,
  ⟨"placement.handlers.allocation._serialize_allocations_for_consumer", 2, 38, "consumer_type"⟩,
  ⟨"placement.handlers.allocation._serialize_allocations_for_resource_provider", 0, 28, "consumer_generation"⟩,
  ⟨"placement.handlers.allocation._set_allocations_for_consumer", 0, 12, "allocation_dict_format"⟩,
  ⟨"placement.handlers.allocation.list_for_consumer", 0, 15, "last_modified"⟩,
  ⟨"placement.handlers.allocation.list_for_resource_provider", 0, 15, "last_modified"⟩,
  ⟨"placement.handlers.allocation.set_allocations", 0, 28, "consumer_generation"⟩,
  ⟨"placement.handlers.allocation.set_allocations", 1, 34, "mappings"⟩,
  ⟨"placement.handlers.allocation.set_allocations", 2, 38, "consumer_type"⟩,
  ⟨"placement.handlers.allocation_candidate._get_schema", 0, 36, "same_subtree"⟩,
  ⟨"placement.handlers.allocation_candidate._get_schema", 1, 35, "root_required"⟩,
  ⟨"placement.handlers.allocation_candidate._get_schema", 2, 33, "string_suffixes"⟩,
  ⟨"placement.handlers.allocation_candidate._get_schema", 3, 31, "candidates_in_tree"⟩,
  ⟨"placement.handlers.allocation_candidate._get_schema", 4, 25, "granular_groups"⟩,
  ⟨"placement.handlers.allocation_candidate._get_schema", 5, 21, "candidates_member_of"⟩,
  ⟨"placement.handlers.allocation_candidate._get_schema", 6, 17, "candidates_required"⟩,
  ⟨"placement.handlers.allocation_candidate._get_schema", 7, 16, "candidates_limit"⟩,
  ⟨"placement.handlers.allocation_candidate._transform_allocation_candidates", 0, 12, "allocation_dict_format"⟩,
  ⟨"placement.handlers.allocation_candidate._transform_allocation_requests_dict", 0, 34, "mappings"⟩,
  ⟨"placement.handlers.allocation_candidate._transform_provider_summaries", 0, 17, "candidates_required"⟩,
  ⟨"placement.handlers.allocation_candidate._transform_provider_summaries", 1, 27, "all_classes_in_summaries"⟩,
  ⟨"placement.handlers.allocation_candidate._transform_provider_summaries", 2, 29, "nested_candidates"⟩,
  ⟨"placement.handlers.allocation_candidate.list_allocation_candidates", 0, 29, "nested_candidates"⟩,
  ⟨"placement.handlers.allocation_candidate.list_allocation_candidates", 1, 15, "last_modified"⟩,
  ⟨"placement.handlers.inventory._send_inventories", 0, 15, "last_modified"⟩,
  ⟨"placement.handlers.inventory._send_inventory", 0, 15, "last_modified"⟩,
  ⟨"placement.handlers.inventory._validate_inventory_capacity", 0, 26, "reserved_equal_total"⟩,
  ⟨"placement.handlers.reshaper.reshape", 0, 38, "consumer_type"⟩,
  ⟨"placement.handlers.reshaper.reshape", 1, 34, "mappings"⟩,
  ⟨"placement.handlers.resource_class._serialize_resource_classes", 0, 15, "last_modified"⟩,
  ⟨"placement.handlers.resource_class.get_resource_class", 0, 15, "last_modified"⟩,
  ⟨"placement.handlers.resource_class.list_resource_classes", 0, 15, "last_modified"⟩,
  ⟨"placement.handlers.resource_provider._serialize_links", 0, 1, "links_aggregates"⟩,
  ⟨"placement.handlers.resource_provider._serialize_links", 1, 6, "links_traits"⟩,
  ⟨"placement.handlers.resource_provider._serialize_links", 2, 11, "links_allocations"⟩,
  ⟨"placement.handlers.resource_provider._serialize_provider", 0, 14, "nested_providers"⟩,
  ⟨"placement.handlers.resource_provider._serialize_providers", 0, 15, "last_modified"⟩,
  ⟨"placement.handlers.resource_provider.create_resource_provider", 0, 14, "nested_providers"⟩,
  ⟨"placement.handlers.resource_provider.create_resource_provider", 1, 20, "post_provider_returns_body"⟩,
  ⟨"placement.handlers.resource_provider.get_resource_provider", 0, 15, "last_modified"⟩,
  ⟨"placement.handlers.resource_provider.list_resource_providers", 0, 18, "rp_required"⟩,
  ⟨"placement.handlers.resource_provider.list_resource_providers", 1, 14, "nested_providers"⟩,
  ⟨"placement.handlers.resource_provider.list_resource_providers", 2, 4, "rp_resources"⟩,
  ⟨"placement.handlers.resource_provider.list_resource_providers", 3, 3, "rp_member_of"⟩,
  ⟨"placement.handlers.resource_provider.list_resource_providers", 4, 15, "last_modified"⟩,
  ⟨"placement.handlers.resource_provider.update_resource_provider", 0, 14, "nested_providers"⟩,
  ⟨"placement.handlers.resource_provider.update_resource_provider", 1, 37, "reparenting"⟩,
  ⟨"placement.handlers.resource_provider.update_resource_provider", 2, 15, "last_modified"⟩,
  ⟨"placement.handlers.root.home", 0, 15, "last_modified"⟩,
  ⟨"placement.handlers.trait._serialize_traits", 0, 15, "last_modified"⟩,
  ⟨"placement.handlers.trait.get_trait", 0, 15, "last_modified"⟩,
  ⟨"placement.handlers.trait.list_traits", 0, 15, "last_modified"⟩,
  ⟨"placement.handlers.trait.list_traits_for_resource_provider", 0, 15, "last_modified"⟩,
  ⟨"placement.handlers.trait.put_trait", 0, 15, "last_modified"⟩,
  ⟨"placement.handlers.trait.update_traits_for_resource_provider", 0, 15, "last_modified"⟩,
  ⟨"placement.handlers.usage.get_total_usages", 0, 38, "consumer_type"⟩,
  ⟨"placement.handlers.usage.get_total_usages", 1, 15, "last_modified"⟩,
  ⟨"placement.handlers.usage.list_usages", 0, 15, "last_modified"⟩,
  ⟨"placement.handlers.util.ensure_consumer", 0, 28, "consumer_generation"⟩,
  ⟨"placement.handlers.util.ensure_consumer", 1, 38, "consumer_type"⟩,
  ⟨"placement.lib.RequestGroup.dict_from_request", 0, 22, "forbidden_traits"⟩,
  ⟨"placement.lib.RequestGroup.dict_from_request", 1, 33, "string_suffixes"⟩,
  ⟨"placement.lib.RequestGroup.dict_from_request", 2, 36, "same_subtree"⟩,
  ⟨"placement.util.json_error_formatter", 0, 23, "error_code"⟩,
  ⟨"placement.util.normalize_member_of_qs_params", 0, 24, "repeated_member_of"⟩,
  ⟨"placement.util.normalize_member_of_qs_params", 1, 32, "forbidden_aggregates"⟩,
  ⟨"placement.util.normalize_traits_qs_params", 0, 22, "forbidden_traits"⟩,
  ⟨"placement.util.normalize_traits_qs_params", 1, 39, "any_traits"⟩
]

/-- Which documented feature each version window that does not start at 1.0 implements (handler, lo),
in the order of the generated `windows` list. -/
def windowClaims : List Claim := [
  ⟨"placement.handlers.aggregate.get_aggregates", 1, 1, "aggregates_routes"⟩,
  ⟨"placement.handlers.aggregate.set_aggregates", 1, 1, "aggregates_routes"⟩,
  ⟨"placement.handlers.allocation.set_allocations", 13, 13, "post_allocations"⟩,
  ⟨"placement.handlers.allocation.set_allocations_for_consumer", 8, 8, "allocation_project_user"⟩,
  ⟨"placement.handlers.allocation.set_allocations_for_consumer", 12, 12, "allocation_dict_format"⟩,
  ⟨"placement.handlers.allocation.set_allocations_for_consumer", 28, 28, "consumer_generation"⟩,
  ⟨"placement.handlers.allocation.set_allocations_for_consumer", 34, 34, "mappings"⟩,
  ⟨"placement.handlers.allocation.set_allocations_for_consumer", 38, 38, "consumer_type"⟩,
  ⟨"placement.handlers.allocation_candidate.list_allocation_candidates", 10, 10, "allocation_candidates_route"⟩,
  ⟨"placement.handlers.inventory.delete_inventories", 5, 5, "delete_all_inventories"⟩,
  ⟨"placement.handlers.reshaper.reshape", 30, 30, "reshaper_route"⟩,
  ⟨"placement.handlers.resource_class.create_resource_class", 2, 2, "resource_class_routes"⟩,
  ⟨"placement.handlers.resource_class.delete_resource_class", 2, 2, "resource_class_routes"⟩,
  ⟨"placement.handlers.resource_class.get_resource_class", 2, 2, "resource_class_routes"⟩,
  ⟨"placement.handlers.resource_class.list_resource_classes", 2, 2, "resource_class_routes"⟩,
  ⟨"placement.handlers.resource_class.update_resource_class", 2, 2, "resource_class_routes"⟩,
  ⟨"placement.handlers.resource_class.update_resource_class", 7, 7, "put_resource_class_idempotent"⟩,
  ⟨"placement.handlers.trait.delete_trait", 6, 6, "traits_routes"⟩,
  ⟨"placement.handlers.trait.delete_traits_for_resource_provider", 6, 6, "traits_routes"⟩,
  ⟨"placement.handlers.trait.get_trait", 6, 6, "traits_routes"⟩,
  ⟨"placement.handlers.trait.list_traits", 6, 6, "traits_routes"⟩,
  ⟨"placement.handlers.trait.list_traits_for_resource_provider", 6, 6, "traits_routes"⟩,
  ⟨"placement.handlers.trait.put_trait", 6, 6, "traits_routes"⟩,
  ⟨"placement.handlers.trait.update_traits_for_resource_provider", 6, 6, "traits_routes"⟩,
  ⟨"placement.handlers.usage.get_total_usages", 9, 9, "usages_route"⟩
]

def Claim.isOf (c : Claim) (f : Feature) : Bool := c.minor == f.minor && c.tag == f.tag

/-- the generated gates attributed to a feature (positional pairing of `gates` with `gateClaims`) -/
def Feature.gateSites (f : Feature) : List Gate :=
  (gates.zip gateClaims).filterMap (fun gc => if gc.2.isOf f then some gc.1 else none)

/-- the generated windows attributed to a feature -/
def Feature.windowSites (f : Feature) : List Window :=
  ((windows.filter (fun w => w.lo != 0)).zip windowClaims).filterMap (fun wc => if wc.2.isOf f then some wc.1 else none)

/-- is the feature present at minor `v` according to the documentation? -/
def Feature.documentedAt (f : Feature) (v : Nat) : Bool := decide (f.minor ≤ v)

/-- is it present according to the code: all its gates open, and its windows started -/
def Feature.implementedAt (f : Feature) (v : Nat) : Bool :=
  f.gateSites.all (fun g => gateOpen g.minor v) && f.windowSites.all (fun w => decide (w.lo ≤ v))

end Placement.Versions
