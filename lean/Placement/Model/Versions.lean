/-
  C14 model: which (route, method) answers at which microversion, version negotiation, the
  meaning of an in-handler version gate, schema selection chains, and the table of documented
  features (rest_api_version_history.rst) with the generated gate sites / windows implementing
  each of them.

  Everything here is computed from `Placement.Gen.Versions` (regenerated from the source tree on
  every run) in the way `placement.handler.dispatch`, `placement.handler.make_map`,
  `placement.microversion.version_handler/_find_method` and
  `microversion_parse.extract_version` decide it:

  * `make_map` connects, per declared path, one route per declared method and then a catch-all
    route to `handle_405`; `dispatch` raises 404 when nothing matches.  Hence: unknown path ⇒ 404,
    known path with an undeclared method ⇒ 405.
  * a handler decorated with `version_handler(min, max, status_code)` runs the first registered
    window with `min ≤ v ≤ max`; when there is none it raises `status_code` (404, or 405 for
    `DELETE /resource_providers/{uuid}/inventories`).
  * `extract_version`: no header (or a header for another service) ⇒ first element of VERSIONS,
    `latest` ⇒ last element, `X.Y` that is not listed ⇒ 406, unparsable ⇒ 400.
  * `Version.matches((1, N))` is `(1, N) ≤ v ≤ max_version`.
-/
import Placement.Gen.Versions

namespace Placement.Versions
open Placement.Gen

/-! ## availability of a (route, method) at a minor version -/

inductive Avail where
  | ok
  | notFound404
  | notAllowed405
  deriving DecidableEq, Repr

def Avail.toString : Avail → String
  | .ok => "ok"
  | .notFound404 => "404"
  | .notAllowed405 => "405"

/-- `microversion.min_version_string()` = `VERSIONS[0]` -/
def minMinor : Nat := versionMinors.head?.getD 0
/-- `microversion.max_version_string()` = `VERSIONS[-1]` -/
def maxMinor : Nat := versionMinors.getLast?.getD 0

def windowsOf (h : String) : List Window := windows.filter (fun w => w.handler == h)

def inWindow (w : Window) (v : Nat) : Bool := decide (w.lo ≤ v) && decide (v ≤ w.hi)

/-- `_find_method`: some registered window contains the version -/
def inSomeWindow (h : String) (v : Nat) : Bool := (windowsOf h).any (fun w => inWindow w v)

def statusAvail (s : Nat) : Avail := if s = 405 then .notAllowed405 else .notFound404

def pathDeclared (p : String) : Bool := routes.any (fun r => r.path == p)

def findRoute (p m : String) : Option Route := routes.find? (fun r => r.path == p && r.method == m)

/-- What `dispatch` + `version_handler` answer for path template `p`, method `m`, minor `v`
(before the handler body runs). -/
def availability (p m : String) (v : Nat) : Avail :=
  match findRoute p m with
  | none => if pathDeclared p then .notAllowed405 else .notFound404
  | some r =>
    if r.versioned then
      if inSomeWindow r.handler v then .ok else statusAvail r.missStatus
    else .ok

/-- smallest `lo` of the windows of a handler (`maxMinor + 1` when it has none) -/
def introducedAt (h : String) : Nat := ((windowsOf h).map (·.lo)).foldl min (maxMinor + 1)

/-- version from which the route answers, when it is declared at all -/
def routeIntroducedAt (p m : String) : Option Nat :=
  (findRoute p m).map (fun r => if r.versioned then introducedAt r.handler else 0)

/-- (path, method, first version, status below it) of every declared route -/
def routeSurface : List (String × String × Nat × Nat) :=
  routes.map (fun r => (r.path, r.method, if r.versioned then introducedAt r.handler else 0,
                        if r.versioned then r.missStatus else 0))

/-- The routes the documentation lists (api-ref + rest_api_version_history.rst): first version and what
a request gets below it.  Hand written; `route_table_as_documented` compares it with the code. -/
def documentedRoutes : List (String × String × Nat × Nat) := [
  ("", "GET", 0, 0),
  ("/", "GET", 0, 0),
  ("/allocation_candidates", "GET", 10, 404),
  ("/allocations", "POST", 13, 404),
  ("/allocations/{consumer_uuid}", "DELETE", 0, 0),
  ("/allocations/{consumer_uuid}", "GET", 0, 0),
  ("/allocations/{consumer_uuid}", "PUT", 0, 404),
  ("/reshaper", "POST", 30, 404),
  ("/resource_classes", "GET", 2, 404),
  ("/resource_classes", "POST", 2, 404),
  ("/resource_classes/{name}", "DELETE", 2, 404),
  ("/resource_classes/{name}", "GET", 2, 404),
  ("/resource_classes/{name}", "PUT", 2, 404),
  ("/resource_providers", "GET", 0, 0),
  ("/resource_providers", "POST", 0, 0),
  ("/resource_providers/{uuid}", "DELETE", 0, 0),
  ("/resource_providers/{uuid}", "GET", 0, 0),
  ("/resource_providers/{uuid}", "PUT", 0, 0),
  ("/resource_providers/{uuid}/aggregates", "GET", 1, 404),
  ("/resource_providers/{uuid}/aggregates", "PUT", 1, 404),
  ("/resource_providers/{uuid}/allocations", "GET", 0, 0),
  ("/resource_providers/{uuid}/inventories", "DELETE", 5, 405),
  ("/resource_providers/{uuid}/inventories", "GET", 0, 0),
  ("/resource_providers/{uuid}/inventories", "POST", 0, 0),
  ("/resource_providers/{uuid}/inventories", "PUT", 0, 0),
  ("/resource_providers/{uuid}/inventories/{resource_class}", "DELETE", 0, 0),
  ("/resource_providers/{uuid}/inventories/{resource_class}", "GET", 0, 0),
  ("/resource_providers/{uuid}/inventories/{resource_class}", "PUT", 0, 0),
  ("/resource_providers/{uuid}/traits", "DELETE", 6, 404),
  ("/resource_providers/{uuid}/traits", "GET", 6, 404),
  ("/resource_providers/{uuid}/traits", "PUT", 6, 404),
  ("/resource_providers/{uuid}/usages", "GET", 0, 0),
  ("/traits", "GET", 6, 404),
  ("/traits/{name}", "DELETE", 6, 404),
  ("/traits/{name}", "GET", 6, 404),
  ("/traits/{name}", "PUT", 6, 404),
  ("/usages", "GET", 9, 404)
]

/-! ## version negotiation (`microversion_parse.extract_version` behind `MicroversionMiddleware`) -/

/-- the `openstack-api-version` request header, as far as negotiation looks at it -/
inductive VersionHeader where
  | absent                       -- no header
  | otherService                 -- a header that names only other service types
  | latest                       -- `placement latest`
  | ver (major minor : Nat)      -- `placement X.Y`, both numerals
  | malformed                    -- `placement <anything else>`
  deriving DecidableEq, Repr

inductive Negotiated where
  | accept (minor : Nat)
  | reject406
  | reject400
  deriving DecidableEq, Repr

def negotiate : VersionHeader → Negotiated
  | .absent => .accept minMinor
  | .otherService => .accept minMinor
  | .latest => .accept maxMinor
  | .ver major minor => if major = 1 ∧ minor ∈ versionMinors then .accept minor else .reject406
  | .malformed => .reject400

/-- value of the `openstack-api-version` response header: the version actually applied -/
def responseVersionHeader : Negotiated → Option String
  | .accept n => some ("placement 1." ++ toString n)
  | _ => none

/-- status class of the whole exchange before the handler body runs -/
inductive Outcome where
  | served (minor : Nat)      -- handler runs at this minor
  | status (code : Nat)       -- 400 / 404 / 405 / 406
  deriving DecidableEq, Repr

def respond (h : VersionHeader) (p m : String) : Outcome :=
  match negotiate h with
  | .reject406 => .status 406
  | .reject400 => .status 400
  | .accept v =>
    match availability p m v with
    | .ok => .served v
    | .notFound404 => .status 404
    | .notAllowed405 => .status 405

/-! ## in-handler gates -/

/-- `Version(1, v).matches((1, n))` with `max_version = (1, maxMinor)`; also `Version(1, v) >= (1, n)`
for `v ≤ maxMinor` -/
def gateOpen (n v : Nat) : Bool := decide (n ≤ v) && decide (v ≤ maxMinor)

def findGate (func : String) (ord : Nat) : Option Gate :=
  gates.find? (fun g => g.func == func && g.ord == ord)

/-! ## schema selection chains -/

/-- the schema constant a chain picks at minor `v`, as the code evaluates it -/
def SchemaChain.select (c : SchemaChain) (v : Nat) : String :=
  if c.kind == "last" then
    c.arms.foldl (fun acc a => if gateOpen a.gateMinor v then a.schema else acc) c.default
  else
    match c.arms.find? (fun a => gateOpen a.gateMinor v) with
    | some a => a.schema
    | none => c.default

/-- what it should pick: the arm whose *name* carries the greatest version `≤ v`, else the default -/
def SchemaChain.ideal (c : SchemaChain) (v : Nat) : String :=
  let cands := c.arms.filter (fun a => match a.nameMinor with | some n => decide (n ≤ v) | none => false)
  match cands.foldl (fun (best : Option Arm) a =>
      match best with
      | none => some a
      | some b => if b.nameMinor.getD 0 < a.nameMinor.getD 0 then some a else some b) none with
  | some a => a.schema
  | none => c.default

/-! ## documented features -/

/-- One documented change of the API surface. `gates`: (function, ordinal) of generated gate sites,
`windows`: (handler, lo) of generated version windows that implement it. -/
structure Feature where
  id : String
  minor : Nat
  gates : List (String × Nat)
  windows : List (String × Nat)
  deriving Repr, DecidableEq

private def hn (s : String) : String := "placement.handlers." ++ s

/-- Appendix A of DESIGN.md, checked row by row against rest_api_version_history.rst and the code. -/
def features : List Feature := [
  ⟨"F01_aggregates_routes", 1, [], [(hn "aggregate.get_aggregates", 1), (hn "aggregate.set_aggregates", 1)]⟩,
  ⟨"F01_links_aggregates", 1, [(hn "resource_provider._serialize_links", 0)], []⟩,
  ⟨"F02_resource_class_routes", 2, [],
    [(hn "resource_class.create_resource_class", 2), (hn "resource_class.delete_resource_class", 2),
     (hn "resource_class.get_resource_class", 2), (hn "resource_class.list_resource_classes", 2),
     (hn "resource_class.update_resource_class", 2)]⟩,
  ⟨"F03_rp_member_of", 3, [(hn "resource_provider.list_resource_providers", 3)], []⟩,
  ⟨"F04_rp_resources", 4, [(hn "resource_provider.list_resource_providers", 2)], []⟩,
  ⟨"F05_delete_all_inventories", 5, [], [(hn "inventory.delete_inventories", 5)]⟩,
  ⟨"F06_traits_routes", 6, [],
    [(hn "trait.delete_trait", 6), (hn "trait.delete_traits_for_resource_provider", 6), (hn "trait.get_trait", 6),
     (hn "trait.list_traits", 6), (hn "trait.list_traits_for_resource_provider", 6), (hn "trait.put_trait", 6),
     (hn "trait.update_traits_for_resource_provider", 6)]⟩,
  ⟨"F06_links_traits", 6, [(hn "resource_provider._serialize_links", 1)], []⟩,
  ⟨"F07_put_resource_class_idempotent", 7, [], [(hn "resource_class.update_resource_class", 7)]⟩,
  ⟨"F08_allocation_project_user", 8, [], [(hn "allocation.set_allocations_for_consumer", 8)]⟩,
  ⟨"F09_usages_route", 9, [], [(hn "usage.get_total_usages", 9)]⟩,
  ⟨"F10_allocation_candidates_route", 10, [], [(hn "allocation_candidate.list_allocation_candidates", 10)]⟩,
  ⟨"F11_links_allocations", 11, [(hn "resource_provider._serialize_links", 2)], []⟩,
  ⟨"F12_allocation_dict_format", 12,
    [(hn "allocation._set_allocations_for_consumer", 0), (hn "allocation._serialize_allocations_for_consumer", 0),
     (hn "allocation_candidate._transform_allocation_candidates", 0)],
    [(hn "allocation.set_allocations_for_consumer", 12)]⟩,
  ⟨"F13_post_allocations", 13, [], [(hn "allocation.set_allocations", 13)]⟩,
  ⟨"F14_nested_providers", 14,
    [(hn "resource_provider._serialize_provider", 0), (hn "resource_provider.create_resource_provider", 0),
     (hn "resource_provider.update_resource_provider", 0), (hn "resource_provider.list_resource_providers", 1)], []⟩,
  ⟨"F15_last_modified", 15,
    [(hn "aggregate._send_aggregates", 1), (hn "allocation._last_modified_from_allocations", 0),
     (hn "allocation.list_for_consumer", 0), (hn "allocation.list_for_resource_provider", 0),
     (hn "allocation_candidate.list_allocation_candidates", 1), (hn "inventory._send_inventories", 0),
     (hn "inventory._send_inventory", 0), (hn "resource_class._serialize_resource_classes", 0),
     (hn "resource_class.get_resource_class", 0), (hn "resource_class.list_resource_classes", 0),
     (hn "resource_provider._serialize_providers", 0), (hn "resource_provider.get_resource_provider", 0),
     (hn "resource_provider.list_resource_providers", 4), (hn "resource_provider.update_resource_provider", 2),
     (hn "root.home", 0), (hn "trait._serialize_traits", 0), (hn "trait.get_trait", 0), (hn "trait.list_traits", 0),
     (hn "trait.list_traits_for_resource_provider", 0), (hn "trait.put_trait", 0),
     (hn "trait.update_traits_for_resource_provider", 0), (hn "usage.get_total_usages", 1),
     (hn "usage.list_usages", 0)], []⟩,
  ⟨"F16_candidates_limit", 16, [(hn "allocation_candidate._get_schema", 7)], []⟩,
  ⟨"F17_candidates_required", 17,
    [(hn "allocation_candidate._get_schema", 6), (hn "allocation_candidate._transform_provider_summaries", 0)], []⟩,
  ⟨"F18_rp_required", 18, [(hn "resource_provider.list_resource_providers", 0)], []⟩,
  ⟨"F19_aggregates_generation", 19,
    [(hn "aggregate._send_aggregates", 0), (hn "aggregate.set_aggregates", 0)], []⟩,
  ⟨"F20_post_provider_returns_body", 20, [(hn "resource_provider.create_resource_provider", 1)], []⟩,
  ⟨"F21_candidates_member_of", 21, [(hn "allocation_candidate._get_schema", 5)], []⟩,
  ⟨"F22_forbidden_traits", 22,
    [("placement.util.normalize_traits_qs_params", 0), ("placement.lib.RequestGroup.dict_from_request", 0)], []⟩,
  ⟨"F23_error_code", 23, [("placement.util.json_error_formatter", 0)], []⟩,
  ⟨"F24_repeated_member_of", 24, [("placement.util.normalize_member_of_qs_params", 0)], []⟩,
  ⟨"F25_granular_groups", 25, [(hn "allocation_candidate._get_schema", 4)], []⟩,
  ⟨"F26_reserved_equal_total", 26, [(hn "inventory._validate_inventory_capacity", 0)], []⟩,
  ⟨"F27_all_classes_in_summaries", 27, [(hn "allocation_candidate._transform_provider_summaries", 1)], []⟩,
  ⟨"F28_consumer_generation", 28,
    [(hn "allocation._serialize_allocations_for_consumer", 1),
     (hn "allocation._serialize_allocations_for_resource_provider", 0),
     (hn "allocation.set_allocations", 0), (hn "util.ensure_consumer", 0)],
    [(hn "allocation.set_allocations_for_consumer", 28)]⟩,
  ⟨"F29_nested_candidates", 29,
    [(hn "allocation_candidate._transform_provider_summaries", 2),
     (hn "allocation_candidate.list_allocation_candidates", 0)], []⟩,
  ⟨"F30_reshaper_route", 30, [], [(hn "reshaper.reshape", 30)]⟩,
  ⟨"F31_candidates_in_tree", 31, [(hn "allocation_candidate._get_schema", 3)], []⟩,
  ⟨"F32_forbidden_aggregates", 32, [("placement.util.normalize_member_of_qs_params", 1)], []⟩,
  ⟨"F33_string_suffixes", 33,
    [(hn "allocation_candidate._get_schema", 2), ("placement.lib.RequestGroup.dict_from_request", 1)], []⟩,
  ⟨"F34_mappings", 34,
    [(hn "allocation_candidate._transform_allocation_requests_dict", 0), (hn "allocation.set_allocations", 1),
     (hn "reshaper.reshape", 1)],
    [(hn "allocation.set_allocations_for_consumer", 34)]⟩,
  ⟨"F35_root_required", 35, [(hn "allocation_candidate._get_schema", 1)], []⟩,
  ⟨"F36_same_subtree", 36,
    [(hn "allocation_candidate._get_schema", 0), ("placement.lib.RequestGroup.dict_from_request", 2)], []⟩,
  ⟨"F37_reparenting", 37, [(hn "resource_provider.update_resource_provider", 1)], []⟩,
  ⟨"F38_consumer_type", 38,
    [(hn "allocation._serialize_allocations_for_consumer", 2), (hn "allocation.set_allocations", 2),
     (hn "reshaper.reshape", 0), (hn "usage.get_total_usages", 0), (hn "util.ensure_consumer", 1)],
    [(hn "allocation.set_allocations_for_consumer", 38)]⟩,
  ⟨"F39_any_traits", 39, [("placement.util.normalize_traits_qs_params", 1)], []⟩
]

/-- features that claim gate site `(func, ord)` -/
def claimsOfGate (func : String) (ord : Nat) : List Feature :=
  features.filter (fun f => f.gates.any (fun c => c.1 == func && c.2 == ord))

/-- features that claim the window of `handler` starting at `lo` -/
def claimsOfWindow (handler : String) (lo : Nat) : List Feature :=
  features.filter (fun f => f.windows.any (fun c => c.1 == handler && c.2 == lo))

/-- is the feature present at minor `v` according to the documentation? -/
def Feature.documentedAt (f : Feature) (v : Nat) : Bool := decide (f.minor ≤ v)

/-- is it present according to the code: all its gates open, and its windows started -/
def Feature.implementedAt (f : Feature) (v : Nat) : Bool :=
  f.gates.all (fun c => match findGate c.1 c.2 with | some g => gateOpen g.minor v | none => false) &&
  f.windows.all (fun c => (Placement.Gen.windows.any (fun w => w.handler == c.1 && w.lo == c.2)) && decide (c.2 ≤ v))

end Placement.Versions
