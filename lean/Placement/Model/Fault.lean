import Placement.Model.Txn
/-
  Database faults and the retry decorator (`oslo_db.api.wrap_db_retry`), at statement granularity.

  A transaction body is a list of statements over a state `σ` (database + the Python objects the
  body mutates, e.g. the generation fields of provider / consumer objects).  One fault is injected
  at statement index `k` of the first attempt:

    * `deadlock false`  retryable; the database did NOT roll back (lock wait timeout): the effects of
                        the statements executed so far stay in the open transaction;
    * `deadlock true`   retryable; the database rolled the WHOLE open transaction back (deadlock
                        victim) - a new transaction starts implicitly with the next statement;
    * `other`           not retryable: the exception propagates.

  Two placements of the decorator occur in the code:

    (A) `@wrap_db_retry @writer def f`, called outside any transaction (`_set_aggregates`,
        `_trait_sync`, `_resource_classes_sync`): every attempt is its own transaction; a failed
        attempt is rolled back by enginefacade before the next one starts.
    (B) the same decorator stack on `_set_allocations`, but called INSIDE the handler's outer writer
        scope (`_update_consumers_and_create_allocations`): the inner `writer` joins the outer
        transaction, so a retry re-runs the body inside the same (or, after a server-side rollback,
        an implicitly new) transaction, after `pre` (= `update_consumers`) has already run.
-/
namespace Placement
namespace Fault

inductive Kind
  | deadlock (rolledBack : Bool)
  | other
deriving DecidableEq, Repr, Inhabited

abbrev Stmt (σ : Type) := σ → Except Exc σ

inductive Out (σ : Type)
  | done (s : σ)                 -- ran to the end
  | exc (s : σ) (e : Exc)        -- a domain exception, state at that point
  | fault (s : σ)                -- the injected fault fired, state before the faulting statement

/-- run `body` from `s`; the fault fires when the statement counter reaches `k` -/
def runBody {σ : Type} : List (Stmt σ) → σ → Option Nat → Out σ
  | [], s, _ => .done s
  | _ :: _, s, some 0 => .fault s
  | st :: rest, s, k =>
    match st s with
    | .error e => .exc s e
    | .ok s' => runBody rest s' (k.map (· - 1))

/-- result of a write transaction: committed state and whether it succeeded -/
structure Res (σ : Type) where
  state : σ
  error : Option Exc      -- `none` = success; `some e` = the exception answered to the caller
  faulted : Bool := false -- a non-retryable database error was answered
deriving Inhabited

/-- (A): the decorated function is the outermost transaction. `s0` = committed state. -/
def runOutermost {σ : Type} (body : List (Stmt σ)) (s0 : σ) (fault : Option (Nat × Kind)) : Res σ :=
  match fault with
  | none =>
    match runBody body s0 none with
    | .done s => { state := s, error := none }
    | .exc _ e => { state := s0, error := some e }
    | .fault _ => { state := s0, error := none }
  | some (k, kind) =>
    match runBody body s0 (some k) with
    | .done s => { state := s, error := none }            -- the fault position was never reached
    | .exc _ e => { state := s0, error := some e }
    | .fault _ =>
      match kind with
      | .other => { state := s0, error := none, faulted := true }
      | .deadlock _ =>
        -- enginefacade rolls the failed attempt back; the retry is a fresh transaction
        match runBody body s0 none with
        | .done s => { state := s, error := none }
        | .exc _ e => { state := s0, error := some e }
        | .fault _ => { state := s0, error := none }

/-- (B): `pre` then the retried `body` inside one outer transaction.  `db`-level rollback is
modelled by `rollback : σ → σ → σ` = "database part of the first argument, Python-object part of
the second" (objects mutated by the failed attempt keep their values). -/
def runNested {σ : Type} (rollback : σ → σ → σ) (pre : σ → σ) (body : List (Stmt σ)) (s0 : σ)
    (fault : Option (Nat × Kind)) : Res σ :=
  let s1 := pre s0
  let finish (o : Out σ) : Res σ :=
    match o with
    | .done s => { state := s, error := none }
    | .exc _ e => { state := s0, error := some e }
    | .fault _ => { state := s0, error := none }
  match fault with
  | none => finish (runBody body s1 none)
  | some (k, kind) =>
    match runBody body s1 (some k) with
    | .fault sk =>
      match kind with
      | .other => { state := s0, error := none, faulted := true }
      | .deadlock false => finish (runBody body sk none)                 -- on top of the partial effects
      | .deadlock true => finish (runBody body (rollback s0 sk) none)    -- `pre` is lost, objects stay mutated
    | o => finish o

end Fault

/-! ### instance: `_set_allocations` as a statement list over (database, object generations) -/

variable {R : Type} [CapOps R]

/-- database plus the generation fields of the Python provider / consumer objects of the request -/
structure FS (R : Type) where
  db : DB R
  rpGen : List (Nat × Nat)      -- provider id ↦ generation the object carries
  consGen : List (Nat × Nat)    -- consumer id ↦ generation the object carries

def FS.rollback (committed cur : FS R) : FS R := { cur with db := committed.db }

def getGen (m : List (Nat × Nat)) (id : Nat) : Nat := ((m.find? (·.1 == id)).map (·.2)).getD 0
def setGen (m : List (Nat × Nat)) (id g : Nat) : List (Nat × Nat) := m.map (fun p => if p.1 == id then (id, g) else p)

/-- the statements of `_set_allocations` in execution order -/
def setAllocStmts (allocs : List AllocReq) : List (Fault.Stmt (FS R)) :=
  let consUuids := (allocs.map (·.consUuid)).eraseDups
  let dels : List (Fault.Stmt (FS R)) := consUuids.map (fun u s =>
    .ok { s with db := { s.db with allocs := s.db.allocs.filter (·.consumer != u) } })
  let check : Fault.Stmt (FS R) := fun s =>
    match checkCapacity s.db allocs with
    | .ok _ => .ok s
    | .error e => .error e
  let inserts : List (Fault.Stmt (FS R)) := (allocs.filter (·.used != 0)).map (fun a s =>
    match s.db.rcId a.rcName with
    | none => .error .rcNotFound
    | some rc =>
      let row : AllocRow := { rp := a.rpId, rc := rc, consumer := a.consUuid, used := a.used }
      .ok { s with db := { s.db with allocs := s.db.allocs ++ [row] } })
  let rpIncs : List (Fault.Stmt (FS R)) := (firstByKey (allocs.map (fun a => (a.rpId, a.rpGen)))).map (fun p s =>
    let g := getGen s.rpGen p.1
    match incRpGen s.db p.1 g with
    | .ok db' => .ok { s with db := db', rpGen := setGen s.rpGen p.1 (g + 1) }
    | .error e => .error e)
  let consIncs : List (Fault.Stmt (FS R)) := (firstByKey (allocs.map (fun a => (a.consId, a.consGen)))).map (fun p s =>
    let g := getGen s.consGen p.1
    match incConsGen s.db p.1 g with
    | .ok db' => .ok { s with db := db', consGen := setGen s.consGen p.1 (g + 1) }
    | .error e => .error e)
  let cleanup : Fault.Stmt (FS R) := fun s =>
    let withAllocs := (allocs.filter (fun a => a.used > 0)).map (·.consUuid)
    .ok { s with db := deleteConsumersIfNoAllocs s.db (consUuids.filter (fun u => !withAllocs.contains u)) }
  dels ++ [check] ++ inserts ++ rpIncs ++ consIncs ++ [cleanup]

/-- object generations as the request read them -/
def FS.ofRequest (db : DB R) (allocs : List AllocReq) : FS R :=
  { db := db, rpGen := firstByKey (allocs.map (fun a => (a.rpId, a.rpGen))),
    consGen := firstByKey (allocs.map (fun a => (a.consId, a.consGen))) }

/-- `replace_all` around the (retried) body: on a provider generation conflict the provider objects
are re-read from the COMMITTED state (`reader.independent`) and the body runs again on top of the
partial effects, at most `n` times -/
def reloadLoop (committed : DB R) (body : List (Fault.Stmt (FS R))) : Nat → FS R → Fault.Out (FS R)
  | 0, s => .exc s .rpConcurrentUpdate
  | n + 1, s =>
    match Fault.runBody body s none with
    | .exc s' .rpConcurrentUpdate =>
      let fresh := s'.rpGen.map (fun p => (p.1, ((committed.rpById p.1).map (·.gen)).getD p.2))
      reloadLoop committed body n { s' with rpGen := fresh }
    | o => o

/-- the main transaction of `PUT /allocations/{c}` (one consumer entry) under one injected fault:
`update_consumers`, then `replace_all` { retry-decorated `_set_allocations` } -/
def mainTxnWithFault (db : DB R) (cons : ConsRow) (attr : ReqAttr) (allocs : List AllocReq)
    (fault : Option (Nat × Fault.Kind)) : Fault.Res (FS R) :=
  let s0 := FS.ofRequest db allocs
  let body := setAllocStmts (R := R) allocs
  let s1 : FS R := { s0 with db := updateConsumer s0.db cons attr }
  let finish (o : Fault.Out (FS R)) : Fault.Res (FS R) :=
    match o with
    | .done s => { state := s, error := none }
    | .exc _ e => { state := s0, error := some e }
    | .fault _ => { state := s0, error := none }
  match fault with
  | none => finish (reloadLoop db body retryCount s1)
  | some (k, kind) =>
    match Fault.runBody body s1 (some k) with
    | .fault sk =>
      match kind with
      | .other => { state := s0, error := none, faulted := true }
      | .deadlock false => finish (reloadLoop db body retryCount sk)
      | .deadlock true => finish (reloadLoop db body retryCount (FS.rollback s0 sk))
    | .exc s' .rpConcurrentUpdate =>
      let fresh := s'.rpGen.map (fun p => (p.1, ((db.rpById p.1).map (·.gen)).getD p.2))
      finish (reloadLoop db body (retryCount - 1) { s' with rpGen := fresh })
    | o => finish o

end Placement
