import Placement.Model.Handlers
/-
  Start-up synchronisation of the standard traits (os-traits) and resource classes
  (os-resource-classes) into the database: `trait._trait_sync`, `resource_class._resource_classes_sync`.
  `stdTraits` / `stdRcs` are the library lists (names interned to even numbers: not `CUSTOM_`).
-/
namespace Placement
variable {R : Type}

/-- `_trait_sync`: insert every library trait that is not among the non-custom names in the table -/
def syncTraits (stdTraits : List Nat) (db : DB R) : DB R :=
  let present := db.traits.filter (fun t => !isCustom t)
  let need := (stdTraits.filter (fun t => !present.contains t)).eraseDups
  { db with traits := db.traits ++ need }

/-- `_resource_classes_sync`: insert (index, name) for every standard class whose name is not among
the non-custom names in the table -/
def syncRcs (stdRcs : List Nat) (db : DB R) : DB R :=
  let present := (db.rcs.map (·.2)).filter (fun n => !isCustom n)
  let need := (stdRcs.zipIdx.filter (fun p => !present.contains p.1)).map (fun p => (p.2, p.1))
  { db with rcs := db.rcs ++ need }

/-- `deploy.update_database` -/
def sync (stdRcs stdTraits : List Nat) (db : DB R) : DB R :=
  syncRcs stdRcs (syncTraits stdTraits db)

/-- every library symbol is present, standard classes at id = index -/
def Synced (stdRcs stdTraits : List Nat) (db : DB R) : Prop :=
  (∀ t ∈ stdTraits, t ∈ db.traits) ∧ (∀ p ∈ stdRcs.zipIdx, (p.2, p.1) ∈ db.rcs)

/-- harness-only operation (not an API request): standard rows removed by SQL, to start the
synchronisation from an empty or partially synchronised database -/
def dropStd (rcNames traitNames : List Nat) (db : DB R) : DB R :=
  { db with rcs := db.rcs.filter (fun p => !(rcNames.contains p.2 && p.1 < minCustomRcId)),
            traits := db.traits.filter (fun t => !(traitNames.contains t && !isCustom t)) }

end Placement
