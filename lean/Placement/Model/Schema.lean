/-
  JSON Schema validation with the semantics of `jsonschema` 4.x as placement calls it:

      jsonschema.validate(data, schema, format_checker=jsonschema.FormatChecker())

  No `$schema` key is present in the tree, so `validator_for` picks the latest draft (2020-12):
  `"integer"` accepts floats with zero fraction, `bool` is neither integer nor number, `pattern` and
  `patternProperties` use `re.search` (unanchored), `patternProperties` also apply to keys listed in
  `properties`, `additionalProperties` looks at keys that are in neither, `minimum`/`maximum` are
  Python comparisons (a NaN passes both), `format` is applied to every instance and the checker
  registered for `uuid` is `oslo_utils.uuidutils.is_uuid_like` (placement/util.py).

  `validate` is defined by structural recursion on the **schema** (a schema without `$ref` only ever
  descends into sub-schemas), which also covers `anyOf`/`oneOf`/`allOf`/`not` on the same instance.
-/
import Placement.Model.Json
import Placement.Model.Regex

namespace Placement

open Regex (Re)

inductive Ty where
  | null | boolean | integer | number | string | array | object
deriving Repr, DecidableEq, Inhabited

inductive Fmt where
  | uuid
deriving Repr, DecidableEq, Inhabited

/-- keywords that look at the instance itself and at no sub-schema -/
inductive Check where
  | minimum (n : Num)
  | maximum (n : Num)
  | minLength (n : Nat)
  | maxLength (n : Nat)
  | minItems (n : Nat)
  | maxItems (n : Nat)
  | minProperties (n : Nat)
  | maxProperties (n : Nat)
  | uniqueItems
  | required (ks : List String)
  | pattern (re : Re)
  | format (f : Fmt)
  | enum (vs : List Json)
deriving Repr, Inhabited

/-- `additionalProperties`: absent / `true`, `false`, or a schema -/
inductive Addl (α : Type) where
  | allow
  | deny
  | schema (s : α)
deriving Repr, Inhabited

structure Schema where
  /-- `type` (a single name or a list); `[]` = keyword absent -/
  types : List Ty
  checks : List Check
  props : List (String × Schema)
  pats : List (Re × Schema)
  addl : Addl Schema
  items : Option Schema
  anyOf : List Schema
  oneOf : List Schema
  allOf : List Schema
  not : Option Schema
deriving Repr, Inhabited

/-! ### `format: uuid` = `oslo_utils.uuidutils.is_uuid_like` -/

/-- Python `s.replace(pat, "")` for a non-empty `pat` (left to right, non-overlapping). -/
def removeAll (pat : List Char) (s : List Char) : List Char := go 0 s
where
  go (skip : Nat) : List Char → List Char
    | [] => []
    | c :: cs =>
      match skip with
      | n + 1 => go n cs
      | 0 => if (Regex.stripPrefix pat (c :: cs)).isSome then go (pat.length - 1) cs else c :: go 0 cs

def isBrace (c : Char) : Bool := c = '{' || c = '}'

def isHexDigit (c : Char) : Bool :=
  ('0'.val ≤ c.val && c.val ≤ '9'.val) || ('a'.val ≤ c.val && c.val ≤ 'f'.val) || ('A'.val ≤ c.val && c.val ≤ 'F'.val)

/-- `val.replace('urn:', '').replace('uuid:', '').strip('{}').replace('-', '')` -/
def uuidCore (s : List Char) : List Char :=
  let a := removeAll ['u', 'r', 'n', ':'] s
  let b := removeAll ['u', 'u', 'i', 'd', ':'] a
  let c := ((b.dropWhile isBrace).reverse.dropWhile isBrace).reverse
  c.filter (fun ch => ch ≠ '-')

/-- `str(uuid.UUID(val)).replace('-', '') == _format_uuid_string(val)`: 32 hexadecimal digits remain
(no code point outside ASCII lower-cases to an ASCII hexadecimal digit). -/
def isUuidLike (s : List Char) : Bool :=
  let h := uuidCore s
  h.length == 32 && h.all isHexDigit

/-! ### the validator -/

def isType (j : Json) : Ty → Bool
  | .null => (match j with | .null => true | _ => false)
  | .boolean => (match j with | .bool _ => true | _ => false)
  | .integer => j.intVal?.isSome
  | .number => j.num?.isSome
  | .string => (match j with | .str _ => true | _ => false)
  | .array => (match j with | .arr _ => true | _ => false)
  | .object => (match j with | .obj _ => true | _ => false)

def typesOk (ts : List Ty) (j : Json) : Bool := ts.isEmpty || ts.any (isType j)

def checkOk (j : Json) : Check → Bool
  | .minimum m => (match j.num? with | some x => !Num.lt x m | none => true)
  | .maximum m => (match j.num? with | some x => !Num.lt m x | none => true)
  | .minLength n => (match j with | .str s => n ≤ s.toList.length | _ => true)
  | .maxLength n => (match j with | .str s => s.toList.length ≤ n | _ => true)
  | .minItems n => (match j with | .arr xs => n ≤ xs.length | _ => true)
  | .maxItems n => (match j with | .arr xs => xs.length ≤ n | _ => true)
  | .minProperties n => (match j with | .obj kvs => n ≤ kvs.length | _ => true)
  | .maxProperties n => (match j with | .obj kvs => kvs.length ≤ n | _ => true)
  | .uniqueItems => (match j with | .arr xs => Json.uniq xs | _ => true)
  | .required ks => (match j with | .obj kvs => ks.all (fun k => (lookup k kvs).isSome) | _ => true)
  | .pattern re => (match j with | .str s => Regex.test re s | _ => true)
  | .format .uuid => (match j with | .str s => isUuidLike s.toList | _ => false)
  | .enum vs => vs.any (fun v => Json.eq v j)

/-- key is covered by `properties` or by some `patternProperties` regex -/
def keyKnown (props : List (String × Schema)) (pats : List (Re × Schema)) (k : String) : Bool :=
  (lookup k props).isSome || pats.any (fun p => Regex.test p.1 k)

/-- members of an object (nothing for other values: the object keywords ignore non-objects) -/
def fieldsOf : Json → List (String × Json)
  | .obj kvs => kvs
  | _ => []

/-- elements of an array (nothing for other values) -/
def itemsOf : Json → List Json
  | .arr xs => xs
  | _ => []

mutual
  def validate : Schema → Json → Bool
    | ⟨ts, cs, props, pats, addl, items, anyOf, oneOf, allOf, nt⟩, j =>
      typesOk ts j && cs.all (checkOk j) &&
      validateProps props j && validatePats pats j &&
      validateAddl addl (keyKnown props pats) j &&
      validateItems items j &&
      (anyOf.isEmpty || validateAny anyOf j) &&
      (oneOf.isEmpty || validateCount oneOf j == 1) &&
      validateAll allOf j &&
      validateNot nt j
  def validateProps : List (String × Schema) → Json → Bool
    | [], _ => true
    | (k, s) :: rest, j =>
      (lookup k (fieldsOf j)).all (validate s) && validateProps rest j
  def validatePats : List (Re × Schema) → Json → Bool
    | [], _ => true
    | (re, s) :: rest, j =>
      (fieldsOf j).all (fun kv => !Regex.test re kv.1 || validate s kv.2) && validatePats rest j
  def validateAddl : Addl Schema → (String → Bool) → Json → Bool
    | .allow, _, _ => true
    | .deny, known, j => (fieldsOf j).all (fun kv => known kv.1)
    | .schema s, known, j => (fieldsOf j).all (fun kv => known kv.1 || validate s kv.2)
  def validateItems : Option Schema → Json → Bool
    | none, _ => true
    | some s, j => (itemsOf j).all (validate s)
  def validateNot : Option Schema → Json → Bool
    | none, _ => true
    | some s, j => !validate s j
  def validateAny : List Schema → Json → Bool
    | [], _ => false
    | s :: rest, j => validate s j || validateAny rest j
  def validateAll : List Schema → Json → Bool
    | [], _ => true
    | s :: rest, j => validate s j && validateAll rest j
  def validateCount : List Schema → Json → Nat
    | [], _ => 0
    | s :: rest, j => (if validate s j then 1 else 0) + validateCount rest j
end

end Placement
