import Placement.Model.Handlers
import Placement.Model.Prog
/-
  Transaction structure of the concurrency-relevant handlers: each request is a `Prog` whose
  `txn` nodes are the outermost enginefacade scopes of the Python handler that touch the
  database, in order, labelled by purpose.  Every stage is a named top-level function.

  Sequentially (`Prog.runSeq`) these programs agree with `Handlers.step` (`Lemmas/TxnSeq.lean`,
  and checked on every generated history by the correspondence harness).

  Not modelled (the scheduled runs start from states where these cannot happen, DESIGN §6):
  the extra re-read after a lost project/user/consumer-type creation race; resource-class and
  trait caches (classes and traits are not created or deleted concurrently in the scheduled runs).
-/
namespace Placement
variable {R : Type} [CapOps R]

abbrev P (R : Type) := Prog (DB R) Resp

/-! ### provider-generation guarded writes: read the provider, then one write transaction -/

def errInvSet (e : Exc) : Resp :=
  match e with
  | .rcNotFound => r400
  | .invWithRcNotFound => r409
  | .inventoryInUse => r409 .inventoryInUse
  | e => if e.isConcurrentUpdate || e == .dbDuplicate then r409 .concurrentUpdate else r500

def tInvSetW (rp gen : Nat) (invs : List (InvSpec R)) (db : DB R) : DB R × P R :=
  match setInventory db rp gen invs with
  | .ok db' => (db', .done r200)
  | .error e => (db, .done (errInvSet e))

def tInvSetR (mv uuid gen : Nat) (invs : List (InvSpec R)) (db : DB R) : DB R × P R :=
  match db.rpByUuid uuid with
  | none => (db, .done r404)
  | some rp =>
    if gen != rp.gen then (db, .done (r409 .concurrentUpdate))
    else if invs.any (invCapacityInvalid mv) then (db, .done r400)
    else (db, .txn .main (tInvSetW rp.id rp.gen invs))

def pInvSet (mv uuid gen : Nat) (invs : List (InvSpec R)) : P R := .txn .getRp (tInvSetR mv uuid gen invs)

def errInvAdd (e : Exc) : Resp :=
  if e.isConcurrentUpdate || e == .dbDuplicate then r409 .concurrentUpdate
  else if e.isNotFound then r400 else r500

def tInvAddW (rp gen : Nat) (inv : InvSpec R) (db : DB R) : DB R × P R :=
  match addInventory db rp gen inv with
  | .ok db' => (db', .done r201)
  | .error e => (db, .done (errInvAdd e))

def tInvAddR (mv uuid : Nat) (inv : InvSpec R) (db : DB R) : DB R × P R :=
  match db.rpByUuid uuid with
  | none => (db, .done r404)
  | some rp =>
    if invCapacityInvalid mv inv then (db, .done r400)
    else (db, .txn .main (tInvAddW rp.id rp.gen inv))

def pInvAdd (mv uuid : Nat) (inv : InvSpec R) : P R := .txn .getRp (tInvAddR mv uuid inv)

def errInvUpdate (e : Exc) : Resp :=
  match e with
  | .invWithRcNotFound => r400
  | e => if e.isConcurrentUpdate || e == .dbDuplicate then r409 .concurrentUpdate
         else if e.isNotFound then r404 else r500

def tInvUpdateW (rp gen : Nat) (inv : InvSpec R) (db : DB R) : DB R × P R :=
  match updateInventory db rp gen inv with
  | .ok db' => (db', .done r200)
  | .error e => (db, .done (errInvUpdate e))

def tInvUpdateR (mv uuid gen : Nat) (inv : InvSpec R) (db : DB R) : DB R × P R :=
  match db.rpByUuid uuid with
  | none => (db, .done r404)
  | some rp =>
    if gen != rp.gen then (db, .done (r409 .concurrentUpdate))
    else if invCapacityInvalid mv inv then (db, .done r400)
    else (db, .txn .main (tInvUpdateW rp.id rp.gen inv))

def pInvUpdate (mv uuid gen : Nat) (inv : InvSpec R) : P R := .txn .getRp (tInvUpdateR mv uuid gen inv)

def errInvDelete (e : Exc) : Resp :=
  match e with
  | .inventoryInUse => r409 .concurrentUpdate
  | e => if e.isConcurrentUpdate then r409 .concurrentUpdate else if e.isNotFound then r404 else r500

def tInvDeleteW (rp gen rcName : Nat) (db : DB R) : DB R × P R :=
  match deleteInventory db rp gen rcName with
  | .ok db' => (db', .done r204)
  | .error e => (db, .done (errInvDelete e))

def tInvDeleteR (uuid rcName : Nat) (db : DB R) : DB R × P R :=
  match db.rpByUuid uuid with
  | none => (db, .done r404)
  | some rp => (db, .txn .main (tInvDeleteW rp.id rp.gen rcName))

def pInvDelete (uuid rcName : Nat) : P R := .txn .getRp (tInvDeleteR uuid rcName)

def errInvDeleteAll (e : Exc) : Resp :=
  match e with
  | .inventoryInUse => r409 .inventoryInUse
  | e => if e.isConcurrentUpdate then r409 .concurrentUpdate else r500

def tInvDeleteAllW (rp gen : Nat) (db : DB R) : DB R × P R :=
  match setInventory db rp gen [] with
  | .ok db' => (db', .done r204)
  | .error e => (db, .done (errInvDeleteAll e))

def tInvDeleteAllR (uuid : Nat) (db : DB R) : DB R × P R :=
  match db.rpByUuid uuid with
  | none => (db, .done r404)
  | some rp => (db, .txn .main (tInvDeleteAllW rp.id rp.gen))

def pInvDeleteAll (mv uuid : Nat) : P R :=
  if mv < 5 then .done { status := 405, code := .undefined } else .txn .getRp (tInvDeleteAllR uuid)

def tRpTraitsSetW (rp gen : Nat) (traits : List Nat) (db : DB R) : DB R × P R :=
  match setTraits db rp gen traits with
  | .ok db' => (db', .done r200)
  | .error e => (db, .done (if e.isConcurrentUpdate then r409 .concurrentUpdate else r500))

def tRpTraitsSetT (rp gen : Nat) (traits : List Nat) (db : DB R) : DB R × P R :=
  if traits.any (fun t => !db.traits.contains t) then (db, .done r400)
  else (db, .txn .main (tRpTraitsSetW rp gen traits))

def tRpTraitsSetR (uuid gen : Nat) (traits : List Nat) (db : DB R) : DB R × P R :=
  match db.rpByUuid uuid with
  | none => (db, .done r404)
  | some rp =>
    if rp.gen != gen then (db, .done (r409 .concurrentUpdate))
    else (db, .txn .getTraits (tRpTraitsSetT rp.id rp.gen traits))

def pRpTraitsSet (uuid gen : Nat) (traits : List Nat) : P R := .txn .getRp (tRpTraitsSetR uuid gen traits)

def tRpTraitsDeleteW (rp gen : Nat) (db : DB R) : DB R × P R :=
  match setTraits db rp gen [] with
  | .ok db' => (db', .done r204)
  | .error e => (db, .done (if e.isConcurrentUpdate then r409 .concurrentUpdate else r500))

def tRpTraitsDeleteR (uuid : Nat) (db : DB R) : DB R × P R :=
  match db.rpByUuid uuid with
  | none => (db, .done r404)
  | some rp => (db, .txn .main (tRpTraitsDeleteW rp.id rp.gen))

def pRpTraitsDelete (uuid : Nat) : P R := .txn .getRp (tRpTraitsDeleteR uuid)

def tAggsSetW (rp gen : Nat) (aggs : List Nat) (consider : Bool) (db : DB R) : DB R × P R :=
  match setAggregates db rp gen aggs consider with
  | .ok db' => (db', .done r200)
  | .error e => (db, .done (if e.isConcurrentUpdate then r409 .concurrentUpdate
                            else if e == .dbDuplicate then r409 else r500))

def tAggsSetR (mv uuid : Nat) (gen : Option Nat) (aggs : List Nat) (db : DB R) : DB R × P R :=
  match db.rpByUuid uuid with
  | none => (db, .done r404)
  | some rp =>
    let consider := mv ≥ 19
    if consider && gen != some rp.gen then (db, .done (r409 .concurrentUpdate))
    else (db, .txn .main (tAggsSetW rp.id rp.gen aggs consider))

def pAggsSet (mv uuid : Nat) (gen : Option Nat) (aggs : List Nat) : P R :=
  if mv < 1 then .done r404 else .txn .getRp (tAggsSetR mv uuid gen aggs)

/-! ### allocation writes -/

/-- `incRpGens` keeping the increments made before the first failing compare-and-swap -/
def incRpGensP (db : DB R) : List (Nat × Nat) → DB R × Option Exc
  | [] => (db, none)
  | (id, gen) :: rest =>
    match incRpGen db id gen with
    | .ok db' => incRpGensP db' rest
    | .error e => (db, some e)

def incConsGensP (db : DB R) : List (Nat × Nat) → DB R × Option Exc
  | [] => (db, none)
  | (id, gen) :: rest =>
    match incConsGen db id gen with
    | .ok db' => incConsGensP db' rest
    | .error e => (db, some e)

/-- `_set_allocations` with the partial effects an exception leaves inside the enclosing
transaction (the nested writer scope does not roll back by itself) -/
def setAllocationsP (db : DB R) (allocs : List AllocReq) : DB R × Option Exc :=
  let consUuids := allocs.map (·.consUuid)
  let db1 := { db with allocs := db.allocs.filter (fun a => !consUuids.contains a.consumer) }
  match checkCapacity db1 allocs, resolveAllocRcs db1 allocs with
  | .error e, _ => (db1, some e)
  | _, .error e => (db1, some e)
  | .ok _, .ok res =>
    let rows := (allocs.zip res).filterMap (fun (a, r) =>
      if a.used == 0 then none
      else some ({ rp := a.rpId, rc := r.2.1, consumer := a.consUuid, used := a.used } : AllocRow))
    let db2 := { db1 with allocs := db1.allocs ++ rows }
    match incRpGensP db2 (firstByKey (allocs.map (fun a => (a.rpId, a.rpGen)))) with
    | (db3, some e) => (db3, some e)
    | (db3, none) =>
      match incConsGensP db3 (firstByKey (allocs.map (fun a => (a.consId, a.consGen)))) with
      | (db4, some e) => (db4, some e)
      | (db4, none) =>
        let withAllocs := (allocs.filter (fun a => a.used > 0)).map (·.consUuid)
        let toCheck := consUuids.filter (fun u => !withAllocs.contains u)
        (deleteConsumersIfNoAllocs db4 toCheck, none)

/-- reload every provider object from the committed state (`reader.independent`) -/
def refreshRps (committed : DB R) : List AllocReq → Except Exc (List AllocReq)
  | [] => .ok []
  | a :: as =>
    match committed.rpById a.rpId with
    | none => .error .notFound
    | some rp => (refreshRps committed as).map ({ a with rpGen := rp.gen } :: ·)

/-- `replace_all`: server-side retry on a provider generation conflict -/
def replaceAll (committed : DB R) : Nat → DB R → List AllocReq → Except Exc (DB R)
  | 0, _, _ => .error .rpConcurrentUpdate
  | n + 1, db, objs =>
    match setAllocationsP db objs with
    | (db', none) => .ok db'
    | (db', some .rpConcurrentUpdate) =>
      match refreshRps committed objs with
      | .error e => .error e
      | .ok objs' => replaceAll committed n db' objs'
    | (_, some e) => .error e

def retryCount : Nat := 10

/-- `objects/reshaper.reshape` with `replace_all` -/
def reshapeTxnR (db : DB R) (invs : List (Nat × Nat × List (InvSpec R))) (objs : List AllocReq) :
    Except Exc (DB R) := do
  let gens0 : List (Nat × Nat) := invs.map (fun t => (t.1, t.2.1))
  let byRp := invs.map (fun t => (t.1, t.2.2))
  let (db1, gens1) ← reshapeInterim db byRp gens0
  let objs' := objs.map (fun a => { a with rpGen := knownGen gens1 a.rpId a.rpGen })
  let db2 ← replaceAll db retryCount db1 objs'
  let touched := (objs'.map (·.rpId)).eraseDups
  let gens2 := touched.foldl bumpGen gens1
  reshapeFinal db2 byRp gens2

inductive AKind | put | post | reshape
deriving DecidableEq, Repr, Inhabited

/-- locals of an allocation-writing request -/
structure ACtx (R : Type) where
  cfg : Config
  mv : Nat
  kind : AKind
  rinvs : List (Nat × Nat × List (InvSpec R)) := []
  done : List (ConsumerReq × ConsRow × ReqAttr) := []
  created : List Nat := []
  ctCache : Option (List Nat) := none      -- consumer-type cache of this request
deriving Inhabited

/-- delete the consumers this request created, one transaction each, then answer -/
def aCleanup (r : Resp) : List Nat → DB R → DB R × P R
  | [], db => (db, .done r)
  | [id], db => (deleteConsumerRows db [id], .done r)
  | id :: rest, db => (deleteConsumerRows db [id], .txn .cleanup (aCleanup r rest))

def cleanupThen (ids : List Nat) (r : Resp) : P R :=
  match ids with
  | [] => .done r
  | _ => .txn .cleanup (aCleanup r ids)

def aErr (ctx : ACtx R) (e : Exc) : Resp :=
  match ctx.kind with
  | .reshape => reshapeErr e
  | _ => allocErr e

/-- the main write transaction -/
def aMain (ctx : ACtx R) (objs : List AllocReq) (db : DB R) : DB R × P R :=
  let db2 := updateConsumers db ctx.done
  let res := match ctx.kind with
    | .reshape => reshapeTxnR db2 ctx.rinvs objs
    | _ => replaceAll db retryCount db2 objs
  match res with
  | .ok db3 =>
    -- inside the same transaction: consumers created by this request that hold no allocation
    -- (their entry was empty) are deleted again
    let createdUuids := (ctx.done.filter (fun t => ctx.created.contains t.2.1.id)).map (·.2.1.uuid)
    (deleteConsumersIfNoAllocs db3 createdUuids, .done r204)
  | .error e => (db, cleanupThen ctx.created (aErr ctx e))

/-- read the providers named by the current consumer entry, one transaction each; `k` is the rest
of the request given the provider rows read -/
def aGetRps (created : List Nat) (k : List RpRow → P R) : List Nat → List RpRow → DB R → DB R × P R
  | [], rows, db => (db, k rows)
  | [u], rows, db =>
    match db.rpByUuid u with
    | none => (db, cleanupThen created r400)
    | some rp => (db, k (rows ++ [rp]))
  | u :: u' :: us, rows, db =>
    match db.rpByUuid u with
    | none => (db, cleanupThen created r400)
    | some rp => (db, .txn .getRp (aGetRps created k (u' :: us) (rows ++ [rp])))

def allocReqsOf (c : ConsumerReq) (cons : ConsRow) (rows : List RpRow) : List AllocReq :=
  c.allocs.filterMap (fun a =>
    (rows.find? (·.uuid == a.1)).map (fun rp =>
      let o : AllocReq := { rpId := rp.id, rpGen := rp.gen, rcName := a.2.1, consId := cons.id,
                            consUuid := cons.uuid, consGen := cons.gen, used := a.2.2 }
      o))

/-- `get_all_by_consumer_id` for an empty entry: the consumer's rows with `used = 0` -/
def clearReqsOf (db : DB R) (cons : ConsRow) : List AllocReq :=
  match db.consByUuid cons.uuid with
  | none => []
  | some _ => (db.allocs.filter (·.consumer == cons.uuid)).filterMap (fun a =>
      match db.rpById a.rp, db.rcName a.rc with
      | some rp, some n =>
        -- the write is guarded by the consumer object `ensure_consumer` validated
        let o : AllocReq := { rpId := rp.id, rpGen := rp.gen, rcName := n, consId := cons.id,
                              consUuid := cons.uuid, consGen := cons.gen, used := 0 }
        some o
      | _, _ => none)

def aGetAllocs (cons : ConsRow) (k : List AllocReq → P R) (db : DB R) : DB R × P R :=
  (db, k (clearReqsOf db cons))

/-- `create_allocation_list`: next consumer entry, or the main transaction -/
def aBuildNext (ctx : ACtx R) : List (ConsumerReq × ConsRow × ReqAttr) → List AllocReq → P R
  | [], objs => .txn .main (aMain ctx objs)
  | (c, cons, _) :: rest, objs =>
    if c.allocs.isEmpty then
      .txn .getAllocs (aGetAllocs cons (fun mine => aBuildNext ctx rest (objs ++ mine)))
    else
      .txn .getRp (aGetRps ctx.created
        (fun rows => aBuildNext ctx rest (objs ++ allocReqsOf c cons rows))
        ((c.allocs.map (·.1)).eraseDups) [])

def reqProject (cfg : Config) (c : ConsumerReq) : Nat := c.project.getD cfg.incompleteProject
def reqUser (cfg : Config) (c : ConsumerReq) : Nat :=
  if c.project.isNone then cfg.incompleteUser else c.user.getD cfg.incompleteUser

/-! `ensure_consumer` for one entry; `k` is the rest of the request given the updated locals -/

/-- lost the creation race (`ConsumerExists`), type differs: `consumer.update()` -/
def aAdoptUpdate (ctx : ACtx R) (c : ConsumerReq) (cons : ConsRow) (t : Option Nat) (k : ACtx R → P R)
    (db : DB R) : DB R × P R :=
  let attr : ReqAttr := { project := reqProject ctx.cfg c, user := reqUser ctx.cfg c, ctype := t }
  let cs := db.consumers.map (fun x =>
    if x.id == cons.id && x.gen == cons.gen then { x with ctype := t } else x)
  ({ db with consumers := cs }, k { ctx with done := ctx.done ++ [(c, { cons with ctype := t }, attr)] })

/-- lost the creation race: the existing record is read again and adopted (no generation check);
if it has meanwhile been deleted the `ConsumerNotFound` escapes (404) -/
def aAdopt (ctx : ACtx R) (c : ConsumerReq) (t : Option Nat) (k : ACtx R → P R)
    (db : DB R) : DB R × P R :=
  let attr : ReqAttr := { project := reqProject ctx.cfg c, user := reqUser ctx.cfg c, ctype := t }
  match db.consByUuid c.uuid with
  | none => (db, cleanupThen ctx.created r404)
  | some cons =>
    if t != cons.ctype then (db, .txn .updateConsumer (aAdoptUpdate ctx c cons t k))
    else (db, k { ctx with done := ctx.done ++ [(c, cons, attr)] })

def aCreateConsumer (ctx : ACtx R) (c : ConsumerReq) (t : Option Nat) (k : ACtx R → P R)
    (db : DB R) : DB R × P R :=
  let attr : ReqAttr := { project := reqProject ctx.cfg c, user := reqUser ctx.cfg c, ctype := t }
  match db.consByUuid c.uuid with
  | some _ => (db, .txn .getConsumer (aAdopt ctx c t k))
  | none =>
    let row : ConsRow := { id := db.nextCons, uuid := c.uuid, project := attr.project, user := attr.user,
                           ctype := t, gen := 0 }
    ({ db with consumers := db.consumers ++ [row], nextCons := db.nextCons + 1 },
     k { ctx with done := ctx.done ++ [(c, row, attr)], created := ctx.created ++ [row.id] })

/-- after project, user, consumer lookup and type: record the consumer or create it -/
def aAfterType (ctx : ACtx R) (c : ConsumerReq) (found : Option ConsRow) (t : Option Nat)
    (k : ACtx R → P R) : P R :=
  match found with
  | some cons =>
    k { ctx with done := ctx.done ++ [(c, cons, { project := reqProject ctx.cfg c,
                                                  user := reqUser ctx.cfg c, ctype := t })] }
  | none => .txn .createConsumer (aCreateConsumer ctx c t k)

/-- the insert lost a race (`ConsumerTypeExists`, another request created the type after this one looked): "try
again" - the type cache is refreshed in a transaction of its own and now has the name (types are never removed) -/
def aRereadCtype (ctx : ACtx R) (c : ConsumerReq) (found : Option ConsRow) (t : Nat)
    (k : ACtx R → P R) (db : DB R) : DB R × P R :=
  (db, aAfterType { ctx with ctCache := some db.ctypes } c found (some t) k)

def aCreateCtype (ctx : ACtx R) (c : ConsumerReq) (found : Option ConsRow) (t : Nat)
    (k : ACtx R → P R) (db : DB R) : DB R × P R :=
  if db.ctypes.contains t then (db, .txn .getCtype (aRereadCtype ctx c found t k))
  else ({ db with ctypes := addIfMissing db.ctypes t }, aAfterType { ctx with ctCache := none } c found (some t) k)

def aGetCtype (ctx : ACtx R) (c : ConsumerReq) (found : Option ConsRow) (t : Nat)
    (k : ACtx R → P R) (db : DB R) : DB R × P R :=
  let ctx' := { ctx with ctCache := some db.ctypes }
  if db.ctypes.contains t then (db, aAfterType ctx' c found (some t) k)
  else (db, .txn .createCtype (aCreateCtype ctx' c found t k))

/-- `get_or_create_consumer_type_id` through the request's type cache (from 1.38) -/
def aType (ctx : ACtx R) (c : ConsumerReq) (found : Option ConsRow) (k : ACtx R → P R) : P R :=
  if ctx.mv ≥ 38 then
    match c.ctype with
    | none => aAfterType ctx c found none k
    | some t =>
      match ctx.ctCache with
      | some cache =>
        if cache.contains t then aAfterType ctx c found (some t) k
        else .txn .getCtype (aGetCtype ctx c found t k)
      | none => .txn .getCtype (aGetCtype ctx c found t k)
  else aAfterType ctx c found none k

def aGetConsumer (ctx : ACtx R) (c : ConsumerReq) (k : ACtx R → P R) (db : DB R) : DB R × P R :=
  match db.consByUuid c.uuid with
  | some cons =>
    if ctx.mv ≥ 28 && some cons.gen != c.gen then (db, cleanupThen ctx.created (r409 .concurrentUpdate))
    else (db, aType ctx c (some cons) k)
  | none =>
    if ctx.mv ≥ 28 && c.gen.isSome then (db, cleanupThen ctx.created (r409 .concurrentUpdate))
    else (db, aType ctx c none k)

/-- the insert lost a race (`UserExists` / `ProjectExists`): the record is read again, in a transaction of its own -/
def aAgain (next : P R) (db : DB R) : DB R × P R := (db, next)

def aCreateUser (ctx : ACtx R) (c : ConsumerReq) (k : ACtx R → P R) (db : DB R) : DB R × P R :=
  if db.users.contains (reqUser ctx.cfg c) then (db, .txn .getUser (aAgain (.txn .getConsumer (aGetConsumer ctx c k))))
  else ({ db with users := addIfMissing db.users (reqUser ctx.cfg c) }, .txn .getConsumer (aGetConsumer ctx c k))

def aGetUser (ctx : ACtx R) (c : ConsumerReq) (k : ACtx R → P R) (db : DB R) : DB R × P R :=
  if db.users.contains (reqUser ctx.cfg c) then (db, .txn .getConsumer (aGetConsumer ctx c k))
  else (db, .txn .createUser (aCreateUser ctx c k))

def aCreateProject (ctx : ACtx R) (c : ConsumerReq) (k : ACtx R → P R) (db : DB R) : DB R × P R :=
  if db.projects.contains (reqProject ctx.cfg c) then (db, .txn .getProject (aAgain (.txn .getUser (aGetUser ctx c k))))
  else ({ db with projects := addIfMissing db.projects (reqProject ctx.cfg c) }, .txn .getUser (aGetUser ctx c k))

def aGetProject (ctx : ACtx R) (c : ConsumerReq) (k : ACtx R → P R) (db : DB R) : DB R × P R :=
  if db.projects.contains (reqProject ctx.cfg c) then (db, .txn .getUser (aGetUser ctx c k))
  else (db, .txn .createProject (aCreateProject ctx c k))

/-- `inspect_consumers`: ensure every consumer entry in turn, then build the allocation objects -/
def aNext (ctx : ACtx R) : List ConsumerReq → P R
  | [] => aBuildNext ctx ctx.done []
  | c :: rest => .txn .getProject (aGetProject ctx c (fun ctx' => aNext ctx' rest))

def pAllocPut (cfg : Config) (mv : Nat) (c : ConsumerReq) : P R :=
  if mv < 28 && c.allocs.isEmpty then .done r400
  else aNext { cfg := cfg, mv := mv, kind := .put } [c]

def pAllocPost (cfg : Config) (mv : Nat) (cs : List ConsumerReq) : P R :=
  if mv < 13 then .done r404 else aNext { cfg := cfg, mv := mv, kind := .post } cs

/-- reshaper: providers named under `inventories` are read and compared first, one by one -/
def aReshapeRps (cfg : Config) (mv : Nat) (todo : List (RpInvReq R))
    (acc : List (Nat × Nat × List (InvSpec R))) (cs : List ConsumerReq) (db : DB R) : DB R × P R :=
  match todo with
  | [] => (db, .done r500)
  | r :: rest =>
    match db.rpByUuid r.uuid with
    | none => (db, .done { status := 400, code := .resourceProviderNotFound })
    | some rp =>
      if r.gen != rp.gen then (db, .done (r409 .concurrentUpdate))
      else
        let acc' := acc ++ [(rp.id, rp.gen, r.invs)]
        match rest with
        | _ :: _ => (db, .txn .getRp (aReshapeRps cfg mv rest acc' cs))
        | [] => (db, aNext { cfg := cfg, mv := mv, kind := .reshape, rinvs := acc' } cs)

def pReshape (cfg : Config) (mv : Nat) (invs : List (RpInvReq R)) (cs : List ConsumerReq) : P R :=
  if mv < 30 then .done r404
  else match invs with
    | [] => aNext { cfg := cfg, mv := mv, kind := .reshape } cs
    | _ :: _ => .txn .getRp (aReshapeRps cfg mv invs [] cs)

/-! ### DELETE /allocations/{consumer}: read the rows, then delete them and the consumer in one
transaction (rows are identified by value here; the code deletes by row id) -/

def tAllocDeleteW (rows : List AllocRow) (consumer : Nat) (db : DB R) : DB R × P R :=
  (deleteConsumersIfNoAllocs { db with allocs := db.allocs.filter (fun a => !rows.contains a) } [consumer],
   .done r204)

def tAllocDeleteR (consumer : Nat) (db : DB R) : DB R × P R :=
  -- `get_all_by_consumer_id` joins allocations with providers and the consumer record
  let rows := db.allocs.filter (fun a => a.consumer == consumer &&
    (db.rpById a.rp).isSome && (db.consByUuid consumer).isSome)
  if rows.isEmpty then (db, .done r404) else (db, .txn .main (tAllocDeleteW rows consumer))

def pAllocDelete (consumer : Nat) : P R := .txn .getAllocs (tAllocDeleteR consumer)

/-! ### provider update / delete: look the provider up (`get_by_uuid`), then one write transaction
(`save()` / `destroy()`); the write works on the row id read before and re-reads everything else -/

def errRpUpdate (e : Exc) : Resp :=
  match e with
  | .dbDuplicate => r409 .duplicateName
  | .objectAction => r400
  | .notFound => r404
  | _ => r500

def tRpUpdateW (mv id name : Nat) (parent : Option Nat) (db : DB R) : DB R × P R :=
  match updateProvider db id name parent (mv ≥ 37) with
  | .ok db' => (db', .done r200)
  | .error e => (db, .done (errRpUpdate e))

def tRpUpdateR (mv uuid name : Nat) (parent : Option (Option Nat)) (db : DB R) : DB R × P R :=
  match db.rpByUuid uuid with
  | none => (db, .done r404)
  | some me =>
    if mv < 14 && parent.isSome then (db, .done r400) else
    (db, .txn .main (tRpUpdateW mv me.id name
      (parent.getD (me.parent.bind (fun p => (db.rpById p).map (·.uuid))))))

def pRpUpdate (mv uuid name : Nat) (parent : Option (Option Nat)) : P R :=
  .txn .getRp (tRpUpdateR mv uuid name parent)

def errRpDelete (e : Exc) : Resp :=
  match e with
  | .rpInUse => r409 .providerInUse
  | .cannotDeleteParent => r409 .cannotDeleteParent
  | .notFound => r404
  | _ => r500

def tRpDeleteW (id : Nat) (db : DB R) : DB R × P R :=
  match deleteProvider db id with
  | .ok db' => (db', .done r204)
  | .error e => (db, .done (errRpDelete e))

def tRpDeleteR (uuid : Nat) (db : DB R) : DB R × P R :=
  match db.rpByUuid uuid with
  | none => (db, .done r404)
  | some me => (db, .txn .main (tRpDeleteW me.id))

def pRpDelete (uuid : Nat) : P R := .txn .getRp (tRpDeleteR uuid)

/-- the transaction program of a request; requests outside the concurrency scope (trait and class requests) run as one step -/
def stepTxn (cfg : Config) (op : Op R) (db : DB R) : DB R × P R :=
  let (db', r) := step cfg db op
  (db', .done r)

def prog (cfg : Config) : Op R → P R
  | .invSet mv u g is => pInvSet mv u g is
  | .invAdd mv u i => pInvAdd mv u i
  | .invUpdate mv u g i => pInvUpdate mv u g i
  | .invDelete u rc => pInvDelete u rc
  | .invDeleteAll mv u => pInvDeleteAll mv u
  | .rpTraitsSet u g ts => pRpTraitsSet u g ts
  | .rpTraitsDelete u => pRpTraitsDelete u
  | .aggsSet mv u g as => pAggsSet mv u g as
  | .allocPut mv c => pAllocPut cfg mv c
  | .allocPost mv cs => pAllocPost cfg mv cs
  | .reshape mv invs cs => pReshape cfg mv invs cs
  | .allocDelete c => pAllocDelete c
  | .rpUpdate mv u n p => pRpUpdate mv u n p
  | .rpDelete u => pRpDelete u
  | .rpCreate mv u n p => .txn .main (stepTxn cfg (.rpCreate mv u n p))
  | op => .txn .other (stepTxn cfg op)

end Placement
