/-
  The fragment of Python's `re` that the patterns of `placement.schemas` use, with the semantics of
  `re.search(pattern, string)` as `jsonschema` calls it (no flags):

  * unanchored search: a match may start at any offset; `^` matches at offset 0 only;
  * `$` matches at the end of the string **and before a newline that is the last character**;
    `\Z` matches at the very end only;
  * character classes are sets of code point ranges; `.` is any character except `\n`;
  * `*`, `+`, `?`, `{m}`, `{m,n}`, `{m,}` are `rep a lo hi`; greedy/lazy is irrelevant for the yes/no
    answer; groups only group.

  `ends r st` is the list of states reachable by matching `r` from state `st`; a state is the rest of
  the input together with the fact "we are still at offset 0".  Import-free and kernel-reducible.
-/
namespace Placement.Regex

inductive Re where
  | eps
  | lit (cs : List Char)
  | cls (neg : Bool) (ranges : List (Char × Char))
  | anyc
  | bol
  | eol
  | eos
  | seq (a b : Re)
  | alt (a b : Re)
  | rep (a : Re) (lo : Nat) (hi : Option Nat)
deriving Repr, DecidableEq, Inhabited

structure St where
  atStart : Bool
  rest : List Char
deriving Repr, DecidableEq

def inRanges (c : Char) : List (Char × Char) → Bool
  | [] => false
  | (lo, hi) :: rs => (lo.val ≤ c.val && c.val ≤ hi.val) || inRanges c rs

/-- membership in `[...]` / `[^...]` -/
def inClass (neg : Bool) (rs : List (Char × Char)) (c : Char) : Bool :=
  if neg then !inRanges c rs else inRanges c rs

def stripPrefix : List Char → List Char → Option (List Char)
  | [], r => some r
  | _ :: _, [] => none
  | c :: cs, d :: r => if c = d then stripPrefix cs r else none

/-- bounded repetition of a step function.  `fuel` bounds the number of iterations. -/
def repAux (f : St → List St) : Nat → Nat → Option Nat → St → List St
  | 0, lo, _, s => if lo = 0 then [s] else []
  | fuel + 1, lo, hi, s =>
    (if lo = 0 then [s] else []) ++
    (if hi = some 0 then []
     else (f s).flatMap (fun s' => repAux f fuel (lo - 1) (hi.map (· - 1)) s'))

def ends : Re → St → List St
  | .eps, s => [s]
  | .lit cs, s =>
    (match cs with
     | [] => [s]
     | _ :: _ =>
       match stripPrefix cs s.rest with
       | some r => [⟨false, r⟩]
       | none => [])
  | .cls neg rs, s =>
    (match s.rest with
     | c :: r => if inClass neg rs c then [⟨false, r⟩] else []
     | [] => [])
  | .anyc, s =>
    (match s.rest with
     | c :: r => if c = '\n' then [] else [⟨false, r⟩]
     | [] => [])
  | .bol, s => if s.atStart then [s] else []
  | .eol, s => if s.rest = [] ∨ s.rest = ['\n'] then [s] else []
  | .eos, s => if s.rest = [] then [s] else []
  | .seq a b, s => (ends a s).flatMap (ends b)
  | .alt a b, s => ends a s ++ ends b s
  | .rep a lo hi, s => repAux (ends a) (s.rest.length + lo + 1) lo hi s

def searchFrom (r : Re) : Bool → List Char → Bool
  | b, [] => !(ends r ⟨b, []⟩).isEmpty
  | b, c :: cs => !(ends r ⟨b, c :: cs⟩).isEmpty || searchFrom r false cs

/-- `re.search(r, s) is not None` -/
def «matches» (r : Re) (s : List Char) : Bool := searchFrom r true s

/-- `re.search` on a `String` -/
def test (r : Re) (s : String) : Bool := «matches» r s.toList

/-! ### membership lemmas -/

theorem mem_ends_seq {a b : Re} {s t : St} :
    t ∈ ends (.seq a b) s ↔ ∃ m, m ∈ ends a s ∧ t ∈ ends b m := by
  simp [ends, List.mem_flatMap]

theorem mem_ends_alt {a b : Re} {s t : St} :
    t ∈ ends (.alt a b) s ↔ t ∈ ends a s ∨ t ∈ ends b s := by
  simp [ends]

theorem mem_ends_bol {s t : St} : t ∈ ends .bol s ↔ s.atStart = true ∧ t = s := by
  unfold ends; split <;> simp_all

theorem mem_ends_eol {s t : St} :
    t ∈ ends .eol s ↔ (s.rest = [] ∨ s.rest = ['\n']) ∧ t = s := by
  unfold ends; split <;> simp_all

theorem mem_ends_eos {s t : St} : t ∈ ends .eos s ↔ s.rest = [] ∧ t = s := by
  unfold ends; split <;> simp_all

theorem stripPrefix_eq_some {cs r out : List Char} :
    stripPrefix cs r = some out ↔ r = cs ++ out := by
  induction cs generalizing r with
  | nil => simp [stripPrefix, eq_comm]
  | cons c cs ih =>
    cases r with
    | nil => simp [stripPrefix]
    | cons d r =>
      simp only [stripPrefix, List.cons_append, List.cons.injEq]
      split
      · rename_i h; subst h; simp [ih]
      · rename_i h; simp; intro h'; exact absurd h'.symm h

theorem mem_ends_lit_cons {c : Char} {cs : List Char} {s t : St} :
    t ∈ ends (.lit (c :: cs)) s ↔ ∃ r, s.rest = (c :: cs) ++ r ∧ t = ⟨false, r⟩ := by
  simp only [ends]
  split
  · rename_i r h
    rw [stripPrefix_eq_some] at h
    constructor
    · intro ht; simp at ht; exact ⟨r, h, ht⟩
    · rintro ⟨r', h', rfl⟩
      rw [h] at h'
      have := List.append_cancel_left h'
      simp [this]
  · rename_i h
    constructor
    · intro ht; cases ht
    · rintro ⟨r', h', _⟩
      have : stripPrefix (c :: cs) s.rest = some r' := stripPrefix_eq_some.mpr h'
      rw [h] at this; cases this

theorem mem_ends_cls {neg : Bool} {rs : List (Char × Char)} {s t : St} :
    t ∈ ends (.cls neg rs) s ↔ ∃ c r, s.rest = c :: r ∧ inClass neg rs c = true ∧ t = ⟨false, r⟩ := by
  simp only [ends]
  split
  · rename_i c r h
    split
    · rename_i hc
      constructor
      · intro ht; simp at ht; exact ⟨c, r, h, hc, ht⟩
      · rintro ⟨c', r', h1, _, h3⟩
        rw [h] at h1; cases h1; simp [h3]
    · rename_i hc
      constructor
      · intro ht; cases ht
      · rintro ⟨c', r', h1, h2, _⟩
        rw [h] at h1; cases h1; exact absurd h2 hc
  · rename_i h; simp [h]

/-- Repetition of a character class consumes a block of class members. -/
theorem mem_repAux_cls {neg : Bool} {rs : List (Char × Char)} (fuel lo : Nat) (hi : Option Nat) (s t : St)
    (h : t ∈ repAux (ends (.cls neg rs)) fuel lo hi s) :
    ∃ pre, s.rest = pre ++ t.rest ∧ (∀ c ∈ pre, inClass neg rs c = true) ∧ lo ≤ pre.length ∧
      (∀ n, hi = some n → pre.length ≤ n) ∧ (pre = [] → t = s) ∧ (pre ≠ [] → t.atStart = false) := by
  induction fuel generalizing lo hi s with
  | zero =>
    simp only [repAux] at h
    split at h
    · rename_i hlo; simp at h; subst h; subst hlo
      exact ⟨[], by simp, by simp, by simp, by simp, by simp, by simp⟩
    · cases h
  | succ fuel ih =>
    simp only [repAux, List.mem_append] at h
    rcases h with h | h
    · split at h
      · rename_i hlo; simp at h; subst h; subst hlo
        exact ⟨[], by simp, by simp, by simp, by simp, by simp, by simp⟩
      · cases h
    · split at h
      · cases h
      · rename_i hhi
        rw [List.mem_flatMap] at h
        obtain ⟨m, hm, ht⟩ := h
        rw [mem_ends_cls] at hm
        obtain ⟨c, r, hs, hc, rfl⟩ := hm
        obtain ⟨pre, h1, h2, h3, h4, h5, h6⟩ := ih _ _ _ ht
        refine ⟨c :: pre, ?_, ?_, ?_, ?_, ?_, ?_⟩
        · simp [hs]; exact h1
        · intro d hd
          rcases List.mem_cons.mp hd with rfl | hd
          · exact hc
          · exact h2 d hd
        · simp; omega
        · intro n hn
          subst hn
          cases n with
          | zero => exact absurd rfl hhi
          | succ n =>
            have := h4 n (by simp)
            simp; omega
        · intro hnil; cases hnil
        · intro _
          by_cases hp : pre = []
          · rw [h5 hp]
          · exact h6 hp

theorem mem_ends_rep_cls {neg : Bool} {rs : List (Char × Char)} {lo : Nat} {hi : Option Nat} {s t : St}
    (h : t ∈ ends (.rep (.cls neg rs) lo hi) s) :
    ∃ pre, s.rest = pre ++ t.rest ∧ (∀ c ∈ pre, inClass neg rs c = true) ∧ lo ≤ pre.length ∧
      (∀ n, hi = some n → pre.length ≤ n) ∧ (pre = [] → t = s) ∧ (pre ≠ [] → t.atStart = false) := by
  simp only [ends] at h
  exact mem_repAux_cls _ _ _ _ _ h

/-- A pattern that begins with `^` can only match at offset 0. -/
theorem searchFrom_bol_false (r : Re) (s : List Char) : searchFrom (.seq .bol r) false s = false := by
  induction s with
  | nil => simp [searchFrom, ends]
  | cons c cs ih => simp [searchFrom, ends, ih]

theorem matches_bol {r : Re} {s : List Char} :
    «matches» (.seq .bol r) s = true ↔ ∃ t, t ∈ ends r ⟨true, s⟩ := by
  unfold «matches»
  cases s with
  | nil =>
    simp [searchFrom, ends]
    cases ends r ⟨true, []⟩ <;> simp
  | cons c cs =>
    simp only [searchFrom, searchFrom_bol_false, Bool.or_false]
    simp [ends]
    cases ends r ⟨true, c :: cs⟩ <;> simp

end Placement.Regex
