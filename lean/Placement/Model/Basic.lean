/-
  State of the placement service as the properties see it.

  All identities (uuids, names) are natural numbers: the driver interns strings, so equality of
  names is equality of numbers.  Names of traits / resource classes with the prefix `CUSTOM_` are
  interned to odd numbers, all other names to even numbers (`isCustom`).
  Internal row ids (`RpRow.id`, `ConsRow.id`, custom resource class ids) are kept because the
  code's compare-and-swap statements and joins are written in terms of them.
-/
namespace Placement

/-- The only floating point operation of the service: `(total - reserved) * allocation_ratio`
compared with an integer, or truncated by `int()`.  `R` is the type of ratios. -/
class CapOps (R : Type) where
  /-- `(avail * ratio) < n` -/
  capLt : Int → R → Int → Bool
  /-- `int(avail * ratio)` -/
  capTrunc : Int → R → Int

/-- `int()` of a capacity that is not below zero is its floor (the schema puts no lower bound on
`allocation_ratio`, so the non-negativity is a hypothesis expressed with the operations themselves). -/
class LawfulCapOps (R : Type) extends CapOps R where
  trunc_spec : ∀ (a : Int) (r : R) (n : Int), capLt a r 0 = false → (n ≤ capTrunc a r ↔ capLt a r n = false)

structure RpRow where
  id : Nat
  uuid : Nat
  name : Nat
  gen : Nat
  parent : Option Nat   -- internal id of the parent
  root : Nat            -- internal id of the root
deriving DecidableEq, Repr, Inhabited

structure InvRow (R : Type) where
  rp : Nat
  rc : Nat
  total : Int
  reserved : Int
  minUnit : Int
  maxUnit : Int
  stepSize : Int
  ratio : R
deriving Repr, Inhabited

structure AllocRow where
  rp : Nat
  rc : Nat
  consumer : Nat        -- consumer uuid (allocations.consumer_id holds the uuid)
  used : Int
deriving DecidableEq, Repr, Inhabited

structure ConsRow where
  id : Nat
  uuid : Nat
  project : Nat         -- external project id
  user : Nat            -- external user id
  ctype : Option Nat    -- consumer type name
  gen : Nat
deriving DecidableEq, Repr, Inhabited

structure DB (R : Type) where
  rps : List RpRow := []
  invs : List (InvRow R) := []
  allocs : List AllocRow := []
  consumers : List ConsRow := []
  projects : List Nat := []
  users : List Nat := []
  ctypes : List Nat := []
  rcs : List (Nat × Nat) := []        -- (id, name)
  traits : List Nat := []             -- names
  rpTraits : List (Nat × Nat) := []   -- (provider id, trait name)
  aggs : List Nat := []               -- aggregate uuids ever recorded
  rpAggs : List (Nat × Nat) := []     -- (provider id, aggregate uuid)
  nextRp : Nat := 1                   -- fresh internal ids, never reused
  nextCons : Nat := 1
deriving Inhabited

def isCustom (name : Nat) : Bool := name % 2 == 1

def minCustomRcId : Nat := 10000

variable {R : Type}

namespace DB

def rpByUuid (db : DB R) (u : Nat) : Option RpRow := db.rps.find? (·.uuid == u)
def rpById (db : DB R) (i : Nat) : Option RpRow := db.rps.find? (·.id == i)
def rpByName (db : DB R) (n : Nat) : Option RpRow := db.rps.find? (·.name == n)
def rcId (db : DB R) (name : Nat) : Option Nat := (db.rcs.find? (·.2 == name)).map (·.1)
def rcName (db : DB R) (id : Nat) : Option Nat := (db.rcs.find? (·.1 == id)).map (·.2)
def invOf (db : DB R) (rp rc : Nat) : Option (InvRow R) := db.invs.find? (fun i => i.rp == rp && i.rc == rc)
def consByUuid (db : DB R) (u : Nat) : Option ConsRow := db.consumers.find? (·.uuid == u)

/-- `SUM(used)` over all consumers for one (provider, class). -/
def usage (db : DB R) (rp rc : Nat) : Int :=
  ((db.allocs.filter (fun a => a.rp == rp && a.rc == rc)).map (·.used)).sum

def hasChildren (db : DB R) (id : Nat) : Bool := db.rps.any (·.parent == some id)
def traitsOf (db : DB R) (rp : Nat) : List Nat := (db.rpTraits.filter (·.1 == rp)).map (·.2)
def aggsOf (db : DB R) (rp : Nat) : List Nat := (db.rpAggs.filter (·.1 == rp)).map (·.2)

def setRp (db : DB R) (id : Nat) (f : RpRow → RpRow) : DB R :=
  { db with rps := db.rps.map (fun r => if r.id == id then f r else r) }

end DB

/-- Error codes of `placement/errors.py` plus the outcomes the properties distinguish. -/
inductive Code
  | none | undefined | concurrentUpdate | duplicateName | inventoryInUse
  | providerInUse | cannotDeleteParent | resourceProviderNotFound | queryParameter
deriving DecidableEq, Repr, Inhabited

/-- An uncaught Python exception (-> 500 through FaultWrapper) is an explicit outcome. -/
structure Resp where
  status : Nat
  code : Code := .none
deriving DecidableEq, Repr, Inhabited

def Resp.ok (r : Resp) : Bool := 200 ≤ r.status && r.status < 300

end Placement
