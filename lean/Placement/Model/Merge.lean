import Placement.Gen.Guards
/-
  The merge stage of `GET /allocation_candidates` (`objects/allocation_candidate.py`: `_merge_candidates`,
  `_consolidate_allocation_requests`, `_satisfies_group_policy`, `_satisfies_same_subtree`, `_check_same_subtree`,
  `RequestWideSearchContext.copy_arr_if_needed`, `exceeds_capacity`), following the code statement by statement.

  Python detail that matters and is modelled: `AllocationRequestResource` objects are MUTABLE and SHARED.  The per-group
  allocation requests handed to `_merge_candidates` reference resource objects (`Arr`) by identity; consolidating one
  combination adds amounts ONTO an object (`arrs_by_rp_rc[key].amount += arr.amount`) unless `copy_arr_if_needed`
  made a copy first.  The store (`List Arr`, index = identity) is therefore threaded through all combinations of all
  anchors, in the order `itertools.product` produces them, and a mutation made for one combination is seen by the
  later ones and by the final serialisation.  The decisions (copy? group policy satisfied? same subtree?) are the
  generated `Gen.copyArrNeeded`, `Gen.groupPolicyOk`, `Gen.sameSubtreeOk`, `Gen.summaryExceeded`.

  The set `areqs` of the code is modelled with Python's semantics for elements that change after insertion: an entry
  keeps the hash it had when it was added (here: a snapshot of its value), membership compares the snapshot with the
  new element's current hash and then the CURRENT values (`__eq__`).

  Resource classes, provider ids, anchors and suffixes are numbers (interned by the driver).  Import-free.
-/
namespace Placement.Merge

/-- an `AllocationRequestResource` -/
structure Arr where
  rp : Nat
  rc : Nat
  amount : Int
deriving DecidableEq, Repr, Inhabited

/-- an `AllocationRequest`: `arrs` are object identities (indices into the store) -/
structure Areq where
  anchor : Nat
  useSame : Bool
  arrs : List Nat
  /-- suffix ↦ provider ids (sorted, without duplicates) -/
  maps : List (Nat × List Nat)
deriving DecidableEq, Repr, Inhabited

/-- what the merge stage reads of the request-wide context -/
structure Ctx where
  policyNone : Bool
  isolate : Bool
  /-- resource classes requested by more than one group -/
  multiRcs : List Nat
  /-- number of groups with a suffix -/
  numGranular : Nat
  sameSubtrees : List (List Nat)
  /-- provider ↦ parent (`parent_uuid_by_rp_uuid`) -/
  parents : List (Nat × Option Nat)
  /-- (provider, class) ↦ (used, capacity, max_unit) of the provider summaries -/
  limits : List ((Nat × Nat) × (Int × Int × Int))
deriving Repr, Inhabited

abbrev Store := List Arr

def getArr (st : Store) (i : Nat) : Arr := st.getD i default

/-! ### `_consolidate_allocation_requests` -/

def lookupKey (k : Nat × Nat) : List ((Nat × Nat) × Nat) → Option Nat
  | [] => none
  | (k', v) :: rest => if k = k' then some v else lookupKey k rest

def addTo (st : Store) (j : Nat) (n : Int) : Store :=
  st.set j { getArr st j with amount := (getArr st j).amount + n }

/-- the loop over `areq.resource_requests` of all allocation requests of one combination: `acc` is `arrs_by_rp_rc`
(insertion-ordered), the store is mutated in place -/
def consolidateArrs (ctx : Ctx) : Store → List ((Nat × Nat) × Nat) → List Nat → Store × List ((Nat × Nat) × Nat)
  | st, acc, [] => (st, acc)
  | st, acc, i :: is =>
    let a := getArr st i
    match lookupKey (a.rp, a.rc) acc with
    | none =>
      if Gen.copyArrNeeded ctx.policyNone ctx.isolate (ctx.multiRcs.contains a.rc) then
        consolidateArrs ctx (st ++ [a]) (acc ++ [((a.rp, a.rc), st.length)]) is       -- `copy.copy(arr)`: a new object
      else
        consolidateArrs ctx st (acc ++ [((a.rp, a.rc), i)]) is                         -- the SAME object
    | some j => consolidateArrs ctx (addTo st j a.amount) acc is                       -- `.amount += arr.amount`

def insertSorted (x : Nat) : List Nat → List Nat
  | [] => [x]
  | y :: ys => if x = y then y :: ys else if x < y then x :: y :: ys else y :: insertSorted x ys

def unionSorted (a b : List Nat) : List Nat := a.foldl (fun acc x => insertSorted x acc) b

/-- `mappings[suffix].update(providers)` -/
def addMapping (m : List (Nat × List Nat)) (sfx : Nat) (ps : List Nat) : List (Nat × List Nat) :=
  match m with
  | [] => [(sfx, unionSorted ps [])]
  | (s, qs) :: rest => if s = sfx then (s, unionSorted ps qs) :: rest else (s, qs) :: addMapping rest sfx ps

def mergeMappings (combo : List Areq) : List (Nat × List Nat) :=
  combo.foldl (fun m a => a.maps.foldl (fun m' sp => addMapping m' sp.1 sp.2) m) []

/-- one combination (one allocation request per request group) folded into one allocation request -/
def consolidate (ctx : Ctx) (st : Store) (combo : List Areq) : Store × Areq :=
  let (st', acc) := consolidateArrs ctx st [] (combo.flatMap (·.arrs))
  (st', { anchor := (combo.headD default).anchor, useSame := false, arrs := acc.map (·.2), maps := mergeMappings combo })

/-! ### `_satisfies_group_policy`, `_satisfies_same_subtree` -/

def dedupNat : List Nat → List Nat
  | [] => []
  | x :: xs => if (dedupNat xs).contains x then dedupNat xs else x :: dedupNat xs

/-- providers of the first mapping of every allocation request that came from a granular group -/
def granularProviders (combo : List Areq) : List Nat :=
  dedupNat ((combo.filter (·.useSame)).flatMap (fun a => (a.maps.headD (0, [])).2))

def groupPolicyOk (ctx : Ctx) (combo : List Areq) : Bool :=
  Gen.groupPolicyOk ctx.policyNone ctx.isolate ctx.numGranular (granularProviders combo).length

def parentOf (ctx : Ctx) (p : Nat) : Option Nat :=
  match ctx.parents.find? (·.1 == p) with
  | some (_, q) => q
  | none => none

/-- `_get_ancestors_by_one_uuid`: the provider and everything above it -/
def ancestors (ctx : Ctx) : Nat → Nat → List Nat
  | 0, p => [p]
  | fuel + 1, p => p :: (match parentOf ctx p with
                         | some q => ancestors ctx fuel q
                         | none => [])

def subtreeProviders (combo : List Areq) (sfxs : List Nat) : List Nat :=
  dedupNat (combo.flatMap (fun a => (a.maps.filter (fun sp => sfxs.contains sp.1)).flatMap (·.2)))

def checkSameSubtree (ctx : Ctx) (ps : List Nat) : Bool :=
  let common := ps.filter (fun c => ps.all (fun p => (ancestors ctx ctx.parents.length p).contains c))
  Gen.sameSubtreeOk ps.length common.length

def sameSubtreeOk (ctx : Ctx) (combo : List Areq) : Bool :=
  ctx.sameSubtrees.all (fun s => checkSameSubtree ctx (subtreeProviders combo s))

/-! ### `exceeds_capacity` -/

def limitOf (ctx : Ctx) (k : Nat × Nat) : Int × Int × Int :=
  match ctx.limits.find? (·.1 == k) with
  | some (_, l) => l
  | none => (0, 0, 0)

def exceeds (ctx : Ctx) (st : Store) (a : Areq) : Bool :=
  a.arrs.any (fun i =>
    let x := getArr st i
    let l := limitOf ctx (x.rp, x.rc)
    Gen.summaryExceeded l.1 x.amount l.2.1 l.2.2)

/-! ### the set of merged requests -/

/-- the value of an allocation request as `__hash__` / `__eq__` see it: its resource requests as a set (sorted,
duplicates removed) and its mappings -/
def insertArr (x : Arr) : List Arr → List Arr
  | [] => [x]
  | y :: ys =>
    if x = y then y :: ys
    else if x.rp < y.rp || (x.rp == y.rp && (x.rc < y.rc || (x.rc == y.rc && x.amount < y.amount))) then x :: y :: ys
    else y :: insertArr x ys

def valueOf (st : Store) (a : Areq) : List Arr × List (Nat × List Nat) :=
  ((a.arrs.map (getArr st)).foldl (fun acc x => insertArr x acc) [], a.maps)

/-- an element of the Python set: the hash snapshot taken when it was added, and the object -/
structure Entry where
  snapshot : List Arr
  areq : Areq
deriving Repr

/-- `areqs.add(areq)` -/
def setAdd (st : Store) (set : List Entry) (a : Areq) : List Entry :=
  let v := valueOf st a
  if set.any (fun e => e.snapshot == v.1 && valueOf st e.areq == v) then set else set ++ [{ snapshot := v.1, areq := a }]

/-! ### `_merge_candidates` -/

/-- `itertools.product`: the last list varies fastest -/
def prods {α : Type} : List (List α) → List (List α)
  | [] => [[]]
  | l :: ls => l.flatMap (fun x => (prods ls).map (x :: ·))

/-- the combinations of one anchor, in order -/
def mergeCombos (ctx : Ctx) : Store → List Entry → List (List Areq) → Store × List Entry
  | st, set, [] => (st, set)
  | st, set, combo :: rest =>
    if !groupPolicyOk ctx combo then mergeCombos ctx st set rest
    else if !sameSubtreeOk ctx combo then mergeCombos ctx st set rest
    else
      let (st', a) := consolidate ctx st combo
      if exceeds ctx st' a then mergeCombos ctx st' set rest          -- the mutations stay
      else mergeCombos ctx st' (setAdd st' set a) rest

/-- anchors in order of first appearance -/
def anchorsOf (groups : List (Nat × List Areq)) : List Nat :=
  dedupNat ((groups.flatMap (fun g => g.2.map (·.anchor))).reverse) |>.reverse

/-- `areq_lists_by_anchor[anchor]`: per suffix (in the order of `candidates`) the requests with that anchor; viable
only when every suffix has at least one -/
def listsFor (groups : List (Nat × List Areq)) (anchor : Nat) : Option (List (List Areq)) :=
  let ls := groups.map (fun g => g.2.filter (fun a => a.anchor == anchor))
  if ls.all (fun l => !l.isEmpty) then some ls else none

def mergeAnchors (ctx : Ctx) (groups : List (Nat × List Areq)) : Store → List Entry → List Nat → Store × List Entry
  | st, set, [] => (st, set)
  | st, set, an :: rest =>
    match listsFor groups an with
    | none => mergeAnchors ctx groups st set rest
    | some ls =>
      let (st', set') := mergeCombos ctx st set (prods ls)
      mergeAnchors ctx groups st' set' rest

/-- `_merge_candidates`: the merged allocation requests with the values the response serialises (the store as it is
AFTER all combinations were processed) -/
def mergeCandidates (ctx : Ctx) (st : Store) (groups : List (Nat × List Areq)) :
    List (List Arr × List (Nat × List Nat)) :=
  let (st', set) := mergeAnchors ctx groups st [] (anchorsOf groups)
  set.map (fun e => ((e.areq.arrs.map (getArr st')), e.areq.maps))

end Placement.Merge
