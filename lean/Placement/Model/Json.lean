/-
  JSON values as `jsonutils.loads` (CPython `json`) produces them, seen through the eyes of the
  `jsonschema` library.

  * integers are unbounded (`int`), floats are IEEE doubles.  A finite double is represented *exactly*
    as the fraction `num / den` (`float.as_integer_ratio()`, `den > 0`); the three non-finite values the
    CPython parser accepts (`NaN`, `Infinity`, `-Infinity`, also produced by literals such as `1e400`)
    are separate constructors.
  * strings are sequences of code points (`String`), objects are association lists in document
    order with distinct keys (a Python `dict`; the harness serialises the parsed value).

  Import-free; everything is executable and reduces in the kernel (`decide`).
-/
namespace Placement

inductive Json where
  | null
  | bool (b : Bool)
  | int (n : Int)
  | flt (num : Int) (den : Nat)
  | nan
  | inf
  | ninf
  | str (s : String)
  | arr (xs : List Json)
  | obj (kvs : List (String × Json))
deriving Repr, Inhabited

/-- Extended numbers: what Python compares when a schema says `minimum` / `maximum`.
`fin num den` is the exact rational `num / den` (`den > 0`). -/
inductive Num where
  | fin (num : Int) (den : Nat)
  | nan
  | inf
  | ninf
deriving Repr, DecidableEq, Inhabited

namespace Num

/-- Python's `a < b` on int/float operands (exact for finite values, `False` whenever a NaN is involved). -/
def lt : Num → Num → Bool
  | .fin a b, .fin c d => a * (d : Int) < c * (b : Int)
  | .fin _ _, .inf => true
  | .ninf, .fin _ _ => true
  | .ninf, .inf => true
  | _, _ => false

/-- Python's `a == b` on int/float operands. -/
def eq : Num → Num → Bool
  | .fin a b, .fin c d => a * (d : Int) == c * (b : Int)
  | .inf, .inf => true
  | .ninf, .ninf => true
  | _, _ => false

def ofInt (n : Int) : Num := .fin n 1

end Num

def lookup {α : Type} (k : String) : List (String × α) → Option α
  | [] => none
  | (k', v) :: rest => if k = k' then some v else lookup k rest

theorem lookup_mem {α : Type} {k : String} {kvs : List (String × α)} {v : α}
    (h : lookup k kvs = some v) : (k, v) ∈ kvs := by
  induction kvs with
  | nil => simp [lookup] at h
  | cons kv rest ih =>
    obtain ⟨k', v'⟩ := kv
    unfold lookup at h
    split at h
    · rename_i hk; cases h; subst hk; exact List.mem_cons_self
    · exact List.mem_cons_of_mem _ (ih h)

theorem lookup_isSome_of_mem {α : Type} {k : String} {kvs : List (String × α)} {v : α}
    (h : (k, v) ∈ kvs) : (lookup k kvs).isSome = true := by
  induction kvs with
  | nil => cases h
  | cons kv rest ih =>
    obtain ⟨k', v'⟩ := kv
    unfold lookup
    split
    · rfl
    · rename_i hk
      rcases List.mem_cons.mp h with heq | hm
      · cases heq; exact absurd rfl hk
      · exact ih hm

namespace Json

/-- the number a JSON value denotes, if it is one (`bool` is not a number for jsonschema) -/
def num? : Json → Option Num
  | .int n => some (.fin n 1)
  | .flt a b => some (.fin a b)
  | .nan => some .nan
  | .inf => some .inf
  | .ninf => some .ninf
  | _ => none

/-- integral value: an `int`, or a float with zero fractional part (`float.is_integer()`), the
reading of `"type": "integer"` from Draft 6 on. -/
def intVal? : Json → Option Int
  | .int n => some n
  | .flt a b => if b ≠ 0 ∧ a % (b : Int) = 0 then some (a / (b : Int)) else none
  | _ => none

/-- no `NaN` / `±Infinity` anywhere in the value -/
def finite : Json → Bool
  | .nan => false
  | .inf => false
  | .ninf => false
  | .arr xs => finiteList xs
  | .obj kvs => finiteFields kvs
  | _ => true
where
  finiteList : List Json → Bool
    | [] => true
    | x :: xs => finite x && finiteList xs
  finiteFields : List (String × Json) → Bool
    | [] => true
    | (_, v) :: rest => finite v && finiteFields rest

/-- `jsonschema._utils.equal`: Python `==` with `True`/`1` and `False`/`0` kept apart
(used by `enum` and `uniqueItems`). -/
def eq : Json → Json → Bool
  | .null, .null => true
  | .bool a, .bool b => a == b
  | .str a, .str b => a == b
  | .arr a, .arr b => eqList a b
  | .obj a, .obj b => a.length == b.length && eqFields a b
  | a, b =>
    match a.num?, b.num? with
    | some x, some y => Num.eq x y
    | _, _ => false
where
  eqList : List Json → List Json → Bool
    | [], [] => true
    | x :: xs, y :: ys => eq x y && eqList xs ys
    | _, _ => false
  eqFields : List (String × Json) → List (String × Json) → Bool
    | [], _ => true
    | (k, v) :: rest, b =>
      (match lookup k b with
       | some w => eq v w
       | none => false) && eqFields rest b

/-- `jsonschema._utils.uniq` (pairwise, the brute-force branch; the sorted fast path agrees with it
except for arrays that contain NaN, which no schema in the tree lets through anyway). -/
def uniq : List Json → Bool
  | [] => true
  | x :: xs => !(xs.any (fun y => eq x y)) && uniq xs

end Json

end Placement
