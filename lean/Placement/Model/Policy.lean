/-
  Authentication and authorisation of the placement API (property C16).

  * `Check`            – abstract syntax of an oslo.policy check string
                         (`@`, `!`, `role:x`, `rule:x`, `kind:match`, `and`, `or`, `not`).
  * `evalWith`/`ruleVal`/`evalRule`
                       – semantics of `oslo_policy._checks` (RoleCheck is case-insensitive, RuleCheck
                         looks the referenced rule up and fails closed, GenericCheck compares
                         `match % target` with `str(creds[kind])`), with a fuel argument for `rule:` references.
  * `effectiveRules`   – `Enforcer.load_rules`: rules of the policy file replace registered defaults,
                         a default with a deprecated rule is OR-ed with it unless `enforce_new_defaults`.
  * `authorise`        – `Enforcer.authorize`: scope check of the *registered* rule, then the check.
  * `noauthCreds`      – `placement.auth.NoAuthMiddleware` + `oslo_context.RequestContext.from_environ`.
  * `respond`          – middleware + first `context.can` of the routed handler: 401 / 403 / handler body runs.

  This file has no data: the rule table, the routing table and the handler -> rule map are generated
  from the source tree into `Placement/Gen/Policies.lean`, which imports the types defined here.
-/
namespace Placement.Policy

/-! ## Names

Rule names, role names, paths, handler names ... are compared thousands of times when the finite tables are
checked by kernel evaluation, and `String` operations are very slow there.  A `Name` is the UTF-8 bytes of
the string read as one base-256 number behind a leading 1 — an injective code, so equality of names *is*
equality of strings, and it is a single `Nat` comparison.  `n!"text"` is the literal notation (the number is
computed when the file is elaborated); the generated tables are written with it and stay readable. -/

structure Name where
  code : Nat
deriving DecidableEq, Inhabited, Hashable

def Name.ofString (s : String) : Name :=
  ⟨s.toUTF8.foldl (fun acc b => acc * 256 + b.toNat) 1⟩

def Name.bytesAux : Nat → Nat → List UInt8 → List UInt8
  | 0, _, acc => acc
  | fuel + 1, n, acc => if n ≤ 1 then acc else Name.bytesAux fuel (n / 256) (UInt8.ofNat (n % 256) :: acc)

/-- The string a name stands for (used for printing and for comparing with request data). -/
def Name.str (n : Name) : String :=
  String.fromUTF8! ⟨(Name.bytesAux (n.code.log2 + 1) n.code []).toArray⟩

instance : ToString Name := ⟨Name.str⟩
instance : Repr Name := ⟨fun n _ => "n!" ++ repr n.str⟩

open Lean in
macro:max "n!" s:str : term =>
  `(Name.mk $(Syntax.mkNumLit (toString (Name.ofString s.getString).code)))

/-! ## Syntax -/

/-- Right-hand side of a `kind:match` check: a literal, or exactly `%(key)s` (substituted from the target). -/
inductive Match
  | lit (s : String)
  | target (key : Name)
deriving DecidableEq, Repr, Inhabited

inductive Check
  | tt                                 -- `@`
  | ff                                 -- `!`
  | role (r : Name)                    -- `role:r`
  | rule (name : Name)                 -- `rule:name`
  | generic (kind : Name) (m : Match)  -- `kind:match`, e.g. `project_id:%(project_id)s`, `system_scope:all`
  | and (a b : Check)
  | or (a b : Check)
  | not (a : Check)
deriving DecidableEq, Repr, Inhabited

/-! ## Credentials and target (request data: ordinary strings) -/

/-- What `RequestContext.to_policy_values()` hands to oslo.policy (the attributes check strings can name). -/
structure Creds where
  userId : Option String := none
  projectId : Option String := none
  roles : List String := []
  systemScope : Option String := none
  domainId : Option String := none
deriving DecidableEq, Repr, Inhabited

/-- The target dictionary passed to `context.can`; a value may be Python `None`. -/
abbrev Target := List (Name × Option String)

/-- Query string of the request as far as handlers use it for the target. -/
abbrev Query := List (Name × String)

/-- Python `str()` of an optional string. -/
def pyStr : Option String → String
  | none => "None"
  | some s => s

/-- Python truthiness of an optional string. -/
def truthy : Option String → Bool
  | none => false
  | some s => s != ""

/-- `RoleCheck`: `match.lower() in [x.lower() for x in creds['roles']]` (ASCII case folding). -/
def hasRole (c : Creds) (r : Name) : Bool := c.roles.any (fun x => x.toLower == r.str.toLower)

/-- The credential attributes a `kind:` check may name in this model (the translator fails closed on
any other kind).  `none` = the key is not in the credentials dictionary. -/
def Creds.attr (c : Creds) (kind : Name) : Option (Option String) :=
  if kind = n!"project_id" then some c.projectId
  else if kind = n!"user_id" then some c.userId
  else if kind = n!"system_scope" then some c.systemScope
  else if kind = n!"domain_id" then some c.domainId
  else none

/-- `match % target`; `none` = KeyError (the check fails closed). -/
def Match.subst (t : Target) : Match → Option String
  | .lit s => some s
  | .target key => (t.lookup key).map pyStr

/-- `GenericCheck.__call__` for a kind that is a key of the credentials. -/
def genericCheck (c : Creds) (t : Target) (kind : Name) (m : Match) : Bool :=
  match m.subst t, c.attr kind with
  | some s, some v => s == pyStr v
  | _, _ => false

/-! ## Semantics of checks -/

abbrev Rules := List (Name × Check)

/-- A check evaluated with a given valuation of `rule:` references. -/
def evalWith (ruleVal : Name → Bool) (c : Creds) (t : Target) : Check → Bool
  | .tt => true
  | .ff => false
  | .role r => hasRole c r
  | .rule n => ruleVal n
  | .generic k m => genericCheck c t k m
  | .and a b => evalWith ruleVal c t a && evalWith ruleVal c t b
  | .or a b => evalWith ruleVal c t a || evalWith ruleVal c t b
  | .not a => !evalWith ruleVal c t a

/-- Value of the rule called `name` with `fuel` levels of `rule:` references; an unknown rule fails
closed (`RuleCheck` catches `KeyError`), exhausted fuel fails closed as well (see `fuelSufficient`). -/
def ruleVal (rules : Rules) (c : Creds) (t : Target) : Nat → Name → Bool
  | 0, _ => false
  | fuel + 1, name =>
    match rules.lookup name with
    | none => false
    | some chk => evalWith (ruleVal rules c t fuel) c t chk

/-- Enough for any acyclic table: a chain of references visits each rule at most once. -/
def fuelFor (rules : Rules) : Nat := rules.length + 1

def evalRule (rules : Rules) (name : Name) (c : Creds) (t : Target) : Bool :=
  ruleVal rules c t (fuelFor rules) name

def eval (rules : Rules) (chk : Check) (c : Creds) (t : Target) : Bool :=
  evalWith (ruleVal rules c t (fuelFor rules)) c t chk

/-- Does evaluating the check stay within `fuel` levels of references (never hits the fuel floor)? -/
def withinFuelCheck (ruleOk : Name → Bool) : Check → Bool
  | .rule n => ruleOk n
  | .and a b => withinFuelCheck ruleOk a && withinFuelCheck ruleOk b
  | .or a b => withinFuelCheck ruleOk a && withinFuelCheck ruleOk b
  | .not a => withinFuelCheck ruleOk a
  | _ => true

def withinFuel (rules : Rules) : Nat → Name → Bool
  | 0, _ => false
  | fuel + 1, name =>
    match rules.lookup name with
    | none => true
    | some chk => withinFuelCheck (withinFuel rules fuel) chk

/-- Every rule of the table is evaluated without running out of fuel (no cyclic references). -/
def fuelSufficient (rules : Rules) : Bool :=
  rules.all (fun r => withinFuel rules (fuelFor rules) r.1)

/-! ## Registered defaults, policy file, enforcer -/

structure RuleDef where
  name : Name
  check : Check
  /-- `scope_types` of the registered default (empty = none given). -/
  scopeTypes : List Name := []
  /-- `deprecated_rule` (its name and parsed check string), if any. -/
  deprecated : Option (Name × Check) := none
  /-- `deprecated_rule.check_str != check_str` (string comparison done by oslo.policy). -/
  deprecatedDiffers : Bool := false
  /-- Documented operations `(method, path)` (`DocumentedRuleDefault.operations`). -/
  ops : List (Name × Name) := []
deriving Repr, Inhabited

/-- The defaults registered by `policy.init` together with the configuration flag that decides
whether deprecated defaults are OR-ed in. -/
structure Table where
  enforceNewDefaults : Bool
  defs : List RuleDef
deriving Repr, Inhabited

/-- `Enforcer._handle_deprecated_rule` for a default that the policy file does not override
(assumption: the policy file does not define a rule under the *deprecated* name). -/
def RuleDef.effective (enforceNew : Bool) (d : RuleDef) : Check :=
  match d.deprecated with
  | some (_, old) => if !enforceNew && d.deprecatedDiffers then .or d.check old else d.check
  | none => d.check

/-- `Enforcer.load_rules`: file rules first (`lookup` takes the first hit), then every registered default. -/
def Table.effectiveRules (tb : Table) (file : Rules) : Rules :=
  file ++ tb.defs.map (fun d => (d.name, d.effective tb.enforceNewDefaults))

def Table.find (tb : Table) (name : Name) : Option RuleDef := tb.defs.find? (·.name == name)

/-- `Enforcer._enforce_scope` (the installed oslo.policy enforces scope unconditionally). -/
def tokenScope (c : Creds) : Name :=
  if truthy c.systemScope then n!"system" else if truthy c.domainId then n!"domain" else n!"project"

def scopeOk (scopeTypes : List Name) (c : Creds) : Bool :=
  scopeTypes.isEmpty || scopeTypes.contains (tokenScope c)

/-- `Enforcer.authorize(rule, target, creds)` as used by `placement.policy.authorize`:
an unregistered rule is refused, then the scope of the registered default, then the effective check. -/
def authorise (tb : Table) (file : Rules) (ruleName : Name) (c : Creds) (t : Target) : Bool :=
  match tb.find ruleName with
  | none => false
  | some d => scopeOk d.scopeTypes c && evalRule (tb.effectiveRules file) ruleName c t

/-! ## Routing table, handlers -/

structure Route where
  path : Name
  method : Name
  handler : Name
deriving DecidableEq, Repr, Inhabited

/-- How the handler builds the `target` argument of its first `context.can`. -/
inductive TargetSpec
  | default                    -- `{'project_id': ctx.project_id, 'user_id': ctx.user_id}`
  | queryParam (key : Name)    -- `{key: req.GET.get(key)}`
deriving DecidableEq, Repr, Inhabited

/-- Something a handler evaluates before its first `context.can`.  Names are dotted paths; the first
component of an imported alias is replaced by the module it stands for. -/
inductive Pre
  | call (f : Name)                  -- `f(...)`
  | index (v : Name)                 -- `v[...]`
  | attr (base : Name) (member : Name)   -- load of `base.member` (neither called nor subscripted)
  | delegate (f : Name)              -- `return f(req, ...)`: the listing continues with the body of `f`
  | stmt (kind : Name)               -- a statement other than assignment to local names / expression
  | expr (kind : Name)               -- an expression form other than call / subscript / attribute / literal
deriving DecidableEq, Repr, Inhabited

structure Deco where
  fn : Name
  args : List Name := []
deriving DecidableEq, Repr, Inhabited

/-- One `def` of a handler function (version-dispatched handlers have several). -/
structure HandlerDef where
  name : Name
  ordinal : Nat := 0
  decorators : List Deco := []
  /-- Everything evaluated in the body before the first `context.can`, including helper functions
  it delegates to. -/
  pre : List Pre := []
  /-- Rule name passed to the first `context.can`, `none` when the body has no such call. -/
  rule : Option Name := none
  target : TargetSpec := .default
deriving DecidableEq, Repr, Inhabited

/-! ## Requests: NoAuthMiddleware, context middleware, authorisation -/

/-- The identity headers of a request (`auth_strategy = noauth2`). -/
structure AuthHeaders where
  token : Option String := none           -- X-Auth-Token
  xRoles : Option String := none          -- X-Roles
  systemScope : Option String := none     -- OpenStack-System-Scope
  domainId : Option String := none        -- X-Domain-Id
deriving DecidableEq, Repr, Inhabited

/-- `str.partition(':')`: text before the first colon, text after it. -/
def partitionColon (s : String) : String × String :=
  let cs := s.toList
  let pre := cs.takeWhile (· != ':')
  let post := (cs.dropWhile (· != ':')).drop 1
  (String.ofList pre, String.ofList post)

def stripSpaces (s : String) : String :=
  let isWs := fun (ch : Char) => ch == ' ' || ch == '\t' || ch == '\n' || ch == '\r'
  String.ofList ((s.toList.dropWhile isWs).reverse.dropWhile isWs).reverse

/-- `RequestContext.from_environ`: `[r.strip() for r in v.split(',')] if v else []`. -/
def parseRoles (v : String) : List String :=
  if v == "" then [] else (v.splitOn ",").map stripSpaces

/-- The context built from the client's own headers when `NoAuthMiddleware` passes a request through
untouched (exempt path): no user, no project; roles and scope as sent. -/
def rawCreds (h : AuthHeaders) : Creds :=
  { userId := none, projectId := none, roles := parseRoles (h.xRoles.getD ""),
    systemScope := h.systemScope, domainId := h.domainId }

/-- `NoAuthMiddleware.__call__` for a path that is not exempt, followed by
`RequestContext.from_environ`.  `none` = 401 (no `X-Auth-Token`). -/
def noauthCreds (h : AuthHeaders) : Option Creds :=
  match h.token with
  | none => none
  | some tok =>
    let (user, proj) := partitionColon tok
    let proj := if proj == "" then user else proj
    -- the middleware stores `','.join(roles)`; oslo.context reads it back
    let joined : String :=
      match h.xRoles with
      | some r => r
      | none => if user == "admin" then "admin" else ""
    some { userId := some user
           projectId := if truthy h.systemScope then none else some proj
           roles := parseRoles joined
           systemScope := h.systemScope
           domainId := h.domainId }

inductive Verdict
  | unauthenticated   -- 401
  | forbidden         -- 403
  | pass              -- the handler body after the authorisation point runs
deriving DecidableEq, Repr, Inhabited

def Verdict.code : Verdict → String
  | .unauthenticated => "401"
  | .forbidden => "403"
  | .pass => "pass"

/-- The authentication / authorisation part of the WSGI pipeline. -/
structure Pipeline where
  table : Table
  routes : List Route
  handlers : List HandlerDef
  /-- `PATH_INFO` values `NoAuthMiddleware` lets through without looking at the token. -/
  noauthExempt : List Name
  /-- `PATH_INFO` values for which `PlacementKeystoneContext` accepts a request without user. -/
  contextExempt : List Name
deriving Inhabited

def Pipeline.handlerDef (p : Pipeline) (handler : Name) : Option HandlerDef :=
  p.handlers.find? (·.name == handler)

def targetOf (spec : TargetSpec) (c : Creds) (query : Query) : Target :=
  match spec with
  | .default => [(n!"project_id", c.projectId), (n!"user_id", c.userId)]
  | .queryParam key => [(key, query.lookup key)]

/-- Rule and target construction of the routed handler's first `context.can`; `none` = the handler
makes no authorisation call. -/
def Pipeline.opInfo (p : Pipeline) (r : Route) : Option (Name × TargetSpec) :=
  (p.handlerDef r.handler).bind (fun hd => hd.rule.map (fun rule => (rule, hd.target)))

/-- Does the handler's authorisation call let the caller through? -/
def Pipeline.authorisedOp (p : Pipeline) (file : Rules) (r : Route) (c : Creds) (query : Query) : Bool :=
  match p.opInfo r with
  | none => true
  | some (rule, tgt) => authorise p.table file rule c (targetOf tgt c query)

/-- Outcome of the request up to and including the first `context.can` of the routed handler.
`pathInfo` is what the middlewares compare with their exemption lists, `r` the matched route. -/
def Pipeline.respond (p : Pipeline) (file : Rules) (r : Route) (pathInfo : Name) (h : AuthHeaders)
    (query : Query) : Verdict :=
  if p.noauthExempt.contains pathInfo then
    -- passed through untouched: no user in the environment
    if p.contextExempt.contains pathInfo then
      if p.authorisedOp file r (rawCreds h) query then .pass else .forbidden
    else .unauthenticated
  else
    match noauthCreds h with
    | none => .unauthenticated
    | some c => if p.authorisedOp file r c query then .pass else .forbidden

end Placement.Policy
