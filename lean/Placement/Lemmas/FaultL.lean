import Placement.Model.Fault
import Placement.Model.Sync
import Placement.Lemmas.WfBase
/-
  Helper lemmas for C17 (`Props/C17.lean`), part 1: the generic statement runner of `Model/Fault.lean`
  (`runBody`, `runOutermost`, `runNested`) and the statement-list models of the functions that carry
  the retry decorator as the OUTERMOST transaction:

    * `runBody_none_*`, `runBody_append`, `runBody_map_ok`: running without a fault;
    * `runBody_some_done` / `runBody_some_exc`: a fault position that is never reached changes nothing;
    * `runBody_fault_inv`: a property preserved by the statements before position `k` holds of the
      state the fault fires in;
    * `runOutermost_deadlock`, `runOutermost_other`, `runNested_other`, `runNested_not_reached`;
    * `setAggStmts` (`_set_aggregates` / `_ensure_aggregate` statement by statement) with
      `runBody_setAggStmts` (= `setAggregates` of `Model/Objects.lean`);
    * `syncTraitsStmts`, `syncRcsStmts` (SELECT, bulk INSERT).
-/
namespace Placement.FaultL
open Placement Placement.Fault
set_option linter.unusedSectionVars false

variable {σ : Type}

/-! ### running without a fault -/

@[simp] theorem runBody_nil (s : σ) (k : Option Nat) : runBody ([] : List (Stmt σ)) s k = .done s := by
  cases k with
  | none => rfl
  | some k => cases k <;> rfl

theorem runBody_cons_none (st : Stmt σ) (rest : List (Stmt σ)) (s : σ) :
    runBody (st :: rest) s none =
      match st s with
      | .error e => .exc s e
      | .ok s' => runBody rest s' none := by
  rw [runBody]
  · rfl
  · intro h; cases h

theorem runBody_cons_zero (st : Stmt σ) (rest : List (Stmt σ)) (s : σ) :
    runBody (st :: rest) s (some 0) = .fault s := by
  rw [runBody]

theorem runBody_cons_succ (st : Stmt σ) (rest : List (Stmt σ)) (s : σ) (k : Nat) :
    runBody (st :: rest) s (some (k + 1)) =
      match st s with
      | .error e => .exc s e
      | .ok s' => runBody rest s' (some k) := by
  rw [runBody]
  · rfl
  · intro h; cases h

/-- without a fault position the injected fault never fires -/
theorem runBody_none_ne_fault : ∀ (body : List (Stmt σ)) (s sk : σ), runBody body s none ≠ .fault sk
  | [], s, sk => by simp
  | st :: rest, s, sk => by
    rw [runBody_cons_none]
    cases h : st s with
    | error e => simp
    | ok s' => exact runBody_none_ne_fault rest s' sk

/-- sequencing of statement lists (no fault) -/
theorem runBody_append : ∀ (a b : List (Stmt σ)) (s : σ),
    runBody (a ++ b) s none =
      match runBody a s none with
      | .done s' => runBody b s' none
      | o => o
  | [], b, s => by simp
  | st :: rest, b, s => by
    rw [List.cons_append, runBody_cons_none, runBody_cons_none]
    cases h : st s with
    | error e => rfl
    | ok s' => exact runBody_append rest b s'

theorem runBody_append_done {a b : List (Stmt σ)} {s s' : σ} (h : runBody a s none = .done s') :
    runBody (a ++ b) s none = runBody b s' none := by
  rw [runBody_append, h]

theorem runBody_append_exc {a b : List (Stmt σ)} {s s' : σ} {e : Exc} (h : runBody a s none = .exc s' e) :
    runBody (a ++ b) s none = .exc s' e := by
  rw [runBody_append, h]

/-- a list of statements that cannot fail is a fold -/
theorem runBody_map_ok {α : Type} (f : α → σ → σ) : ∀ (l : List α) (s : σ),
    runBody (l.map (fun a s => (.ok (f a s) : Except Exc σ))) s none = .done (l.foldl (fun s a => f a s) s)
  | [], s => by simp
  | a :: l, s => by
    rw [List.map_cons, runBody_cons_none]
    exact runBody_map_ok f l (f a s)

/-! ### a fault position that is not reached -/

theorem runBody_some_done : ∀ (body : List (Stmt σ)) (s s' : σ) (k : Nat),
    runBody body s (some k) = .done s' → runBody body s none = .done s'
  | [], s, s', k, h => by simpa using h
  | st :: rest, s, s', 0, h => by rw [runBody_cons_zero] at h; cases h
  | st :: rest, s, s', k + 1, h => by
    rw [runBody_cons_succ] at h
    rw [runBody_cons_none]
    cases hs : st s with
    | error e => rw [hs] at h; cases h
    | ok s1 => rw [hs] at h; exact runBody_some_done rest s1 s' k h

theorem runBody_some_exc : ∀ (body : List (Stmt σ)) (s s' : σ) (e : Exc) (k : Nat),
    runBody body s (some k) = .exc s' e → runBody body s none = .exc s' e
  | [], s, s', e, k, h => by simp at h
  | st :: rest, s, s', e, 0, h => by rw [runBody_cons_zero] at h; cases h
  | st :: rest, s, s', e, k + 1, h => by
    rw [runBody_cons_succ] at h
    rw [runBody_cons_none]
    cases hs : st s with
    | error e1 => rw [hs] at h; exact h
    | ok s1 => rw [hs] at h; exact runBody_some_exc rest s1 s' e k h

/-- when the fault position is not reached the run is the fault-free run -/
theorem runBody_not_reached (body : List (Stmt σ)) (s : σ) (k : Nat)
    (h : ∀ sk, runBody body s (some k) ≠ .fault sk) : runBody body s (some k) = runBody body s none := by
  cases hr : runBody body s (some k) with
  | done s' => exact (runBody_some_done body s s' k hr).symm
  | exc s' e => exact (runBody_some_exc body s s' e k hr).symm
  | fault sk => exact absurd hr (h sk)

/-- a fault position beyond the last statement is never reached -/
theorem runBody_beyond : ∀ (body : List (Stmt σ)) (s : σ) (k : Nat), body.length ≤ k →
    ∀ sk, runBody body s (some k) ≠ .fault sk
  | [], s, k, _, sk => by simp
  | st :: rest, s, 0, h, sk => by simp at h
  | st :: rest, s, k + 1, h, sk => by
    rw [runBody_cons_succ]
    cases hs : st s with
    | error e => simp
    | ok s1 => exact runBody_beyond rest s1 k (by simp at h; omega) sk

/-- **invariant at the fault position**: if every statement of `pre` preserves `P` and the fault
position lies within (or right after) `pre`, the state in which the fault fires satisfies `P` -/
theorem runBody_fault_inv (P : σ → Prop) : ∀ (pre post : List (Stmt σ)) (s sk : σ) (k : Nat),
    (∀ st ∈ pre, ∀ s s', P s → st s = .ok s' → P s') → k ≤ pre.length → P s →
    runBody (pre ++ post) s (some k) = .fault sk → P sk
  | [], post, s, sk, k, _, hk, hs, h => by
    have : k = 0 := by simpa using hk
    subst this
    cases post with
    | nil => simp at h
    | cons st rest =>
      rw [List.nil_append, runBody_cons_zero] at h
      cases h; exact hs
  | st :: pre, post, s, sk, 0, _, _, hs, h => by
    rw [List.cons_append, runBody_cons_zero] at h
    cases h; exact hs
  | st :: pre, post, s, sk, k + 1, hp, hk, hs, h => by
    rw [List.cons_append, runBody_cons_succ] at h
    cases hst : st s with
    | error e => rw [hst] at h; cases h
    | ok s1 =>
      rw [hst] at h
      exact runBody_fault_inv P pre post s1 sk k (fun st' hm => hp st' (List.mem_cons_of_mem _ hm))
        (by simp at hk; omega) (hp st List.mem_cons_self s s1 hs hst) h

/-! ### (A) the decorated function is the outermost transaction -/

/-- the fault-free outcome, as a function of `runBody` -/
def finishOuter (s0 : σ) : Out σ → Res σ
  | .done s => { state := s, error := none }
  | .exc _ e => { state := s0, error := some e }
  | .fault _ => { state := s0, error := none }

theorem runOutermost_none (body : List (Stmt σ)) (s0 : σ) :
    runOutermost body s0 none = finishOuter s0 (runBody body s0 none) := by
  unfold runOutermost finishOuter
  cases runBody body s0 none <;> rfl

/-- a retryable fault (either kind of deadlock; the duplicate-key race of `_ensure_aggregate`) at any
statement of any body: the answer and the committed state are those of the fault-free run -/
theorem runOutermost_deadlock (body : List (Stmt σ)) (s0 : σ) (k : Nat) (b : Bool) :
    runOutermost body s0 (some (k, .deadlock b)) = runOutermost body s0 none := by
  rw [runOutermost_none]
  unfold runOutermost
  dsimp only
  cases hr : runBody body s0 (some k) with
  | done s => rw [runBody_some_done body s0 s k hr]; rfl
  | exc s e => rw [runBody_some_exc body s0 s e k hr]; rfl
  | fault sk =>
    dsimp only
    unfold finishOuter
    cases runBody body s0 none <;> rfl

/-- a non-retryable fault: reached => nothing is committed and the fault is answered; not reached =>
the fault-free run -/
theorem runOutermost_other (body : List (Stmt σ)) (s0 : σ) (k : Nat) :
    (∀ sk, runBody body s0 (some k) = .fault sk →
      runOutermost body s0 (some (k, .other)) = { state := s0, error := none, faulted := true }) ∧
    ((∀ sk, runBody body s0 (some k) ≠ .fault sk) →
      runOutermost body s0 (some (k, .other)) = runOutermost body s0 none) := by
  constructor
  · intro sk h
    unfold runOutermost
    dsimp only
    rw [h]
  · intro h
    rw [runOutermost_none]
    unfold runOutermost
    dsimp only
    cases hr : runBody body s0 (some k) with
    | done s => rw [runBody_some_done body s0 s k hr]; rfl
    | exc s e => rw [runBody_some_exc body s0 s e k hr]; rfl
    | fault sk => exact absurd hr (h sk)

/-! ### (B) the retried body inside an outer transaction -/

theorem runNested_none (rollback : σ → σ → σ) (pre : σ → σ) (body : List (Stmt σ)) (s0 : σ) :
    runNested rollback pre body s0 none = finishOuter s0 (runBody body (pre s0) none) := by
  unfold runNested finishOuter
  dsimp only
  cases runBody body (pre s0) none <;> rfl

theorem runNested_other (rollback : σ → σ → σ) (pre : σ → σ) (body : List (Stmt σ)) (s0 sk : σ) (k : Nat)
    (h : runBody body (pre s0) (some k) = .fault sk) :
    runNested rollback pre body s0 (some (k, .other)) = { state := s0, error := none, faulted := true } := by
  unfold runNested
  dsimp only
  rw [h]

theorem runNested_not_reached (rollback : σ → σ → σ) (pre : σ → σ) (body : List (Stmt σ)) (s0 : σ) (k : Nat)
    (kind : Kind) (h : ∀ sk, runBody body (pre s0) (some k) ≠ .fault sk) :
    runNested rollback pre body s0 (some (k, kind)) = runNested rollback pre body s0 none := by
  rw [runNested_none]
  unfold runNested
  dsimp only
  cases hr : runBody body (pre s0) (some k) with
  | done s => rw [runBody_some_done _ _ s k hr]; rfl
  | exc s e => rw [runBody_some_exc _ _ s e k hr]; rfl
  | fault sk => exact absurd hr (h sk)

/-! ### `_set_aggregates` statement by statement

`resource_provider._set_aggregates` (decorated `wrap_db_retry(exception_checker = DBDuplicateEntry)`
around `writer`, called outside any transaction) executes, in this order:

  0. the SELECT of `_get_aggregates_by_provider_id` (from its result the sets `agg_uuids_to_add`,
     `aggs_to_disassociate` are computed: `aggToAdd`, `aggToDel` of the state `db` the SELECT saw);
  1. per uuid to add: `_ensure_aggregate` (select-or-insert into `placement_aggregates`; this INSERT is
     where the duplicate-key race fires);
  2. per uuid to add: INSERT of the association row;
  3. per uuid to disassociate: DELETE of the association row;
  4. optionally the compare-and-swap of the provider generation.

The statement list takes the state seen by the SELECT as a parameter (`List (Stmt σ)` is fixed before
the run); `runOutermost (setAggStmts db ..) db` runs it from that state. -/

variable {R : Type}

def aggToAdd (db : DB R) (rp : Nat) (aggs : List Nat) : List Nat :=
  (aggs.filter (fun a => !(db.aggsOf rp).contains a)).eraseDups

def aggToDel (db : DB R) (rp : Nat) (aggs : List Nat) : List Nat :=
  ((db.aggsOf rp).filter (fun a => !aggs.contains a)).eraseDups

/-- `_ensure_aggregate`: select, insert when absent -/
def ensureAgg (a : Nat) (d : DB R) : DB R :=
  { d with aggs := if d.aggs.contains a then d.aggs else d.aggs ++ [a] }

def assocAgg (rp a : Nat) (d : DB R) : DB R := { d with rpAggs := d.rpAggs ++ [(rp, a)] }

def dissocAgg (rp a : Nat) (d : DB R) : DB R :=
  { d with rpAggs := d.rpAggs.filter (fun p => !(p.1 == rp && p.2 == a)) }

def setAggStmts (db : DB R) (rp gen : Nat) (aggs : List Nat) (incGen : Bool) : List (Stmt (DB R)) :=
  [fun d => .ok d]
  ++ (aggToAdd db rp aggs).map (fun a d => .ok (ensureAgg a d))
  ++ (aggToAdd db rp aggs).map (fun a d => .ok (assocAgg rp a d))
  ++ (aggToDel db rp aggs).map (fun a d => .ok (dissocAgg rp a d))
  ++ (if incGen then [fun d => incRpGen d rp gen] else [])

theorem foldl_aggs {α : Type} (f : α → List Nat → List Nat) : ∀ (l : List α) (d : DB R),
    l.foldl (fun d a => ({ d with aggs := f a d.aggs } : DB R)) d =
      { d with aggs := l.foldl (fun x a => f a x) d.aggs }
  | [], d => rfl
  | a :: l, d => by rw [List.foldl_cons, foldl_aggs f l]; rfl

theorem foldl_rpAggs {α : Type} (f : α → List (Nat × Nat) → List (Nat × Nat)) : ∀ (l : List α) (d : DB R),
    l.foldl (fun d a => ({ d with rpAggs := f a d.rpAggs } : DB R)) d =
      { d with rpAggs := l.foldl (fun x a => f a x) d.rpAggs }
  | [], d => rfl
  | a :: l, d => by rw [List.foldl_cons, foldl_rpAggs f l]; rfl

theorem foldl_ensure : ∀ (l x : List Nat), l.Nodup →
    l.foldl (fun x a => if x.contains a then x else x ++ [a]) x = x ++ l.filter (fun a => !x.contains a)
  | [], x, _ => by simp
  | a :: l, x, h => by
    rw [List.nodup_cons] at h
    rw [List.foldl_cons]
    by_cases hc : a ∈ x
    · have hc' : x.contains a = true := List.contains_iff_mem.2 hc
      rw [if_pos hc', foldl_ensure l x h.2, List.filter_cons]
      simp [hc]
    · have hc' : ¬ x.contains a = true := fun e => hc (List.contains_iff_mem.1 e)
      rw [if_neg hc', foldl_ensure l _ h.2, List.filter_cons]
      simp only [Bool.not_eq_true] at hc'
      simp only [hc', Bool.not_false, ↓reduceIte, List.append_assoc, List.singleton_append]
      congr 2
      apply List.filter_congr
      intro b hb
      have : b ≠ a := fun e => h.1 (e ▸ hb)
      simp [this]

theorem foldl_assoc (rp : Nat) : ∀ (l : List Nat) (x : List (Nat × Nat)),
    l.foldl (fun x a => x ++ [(rp, a)]) x = x ++ l.map (fun a => (rp, a))
  | [], x => by simp
  | a :: l, x => by rw [List.foldl_cons, foldl_assoc rp l]; simp

theorem foldl_dissoc (rp : Nat) : ∀ (l : List Nat) (x : List (Nat × Nat)),
    l.foldl (fun x a => x.filter (fun p => !(p.1 == rp && p.2 == a))) x =
      x.filter (fun p => !(p.1 == rp && l.contains p.2))
  | [], x => by
    simp only [List.foldl_nil, List.contains_nil, Bool.and_false, Bool.not_false]
    exact (List.filter_eq_self.2 (fun _ _ => rfl)).symm
  | a :: l, x => by
    rw [List.foldl_cons, foldl_dissoc rp l, List.filter_filter]
    apply List.filter_congr
    intro p _
    by_cases h1 : p.1 = rp <;> by_cases h2 : p.2 = a <;> simp [h1, h2]

/-- the state after the association statements (before the optional generation bump) -/
def aggWritten (db : DB R) (rp : Nat) (aggs : List Nat) : DB R :=
  { db with
    aggs := db.aggs ++ (aggToAdd db rp aggs).filter (fun a => !db.aggs.contains a),
    rpAggs := db.rpAggs.filter (fun p => !(p.1 == rp && !aggs.contains p.2))
              ++ (aggToAdd db rp aggs).map (fun a => (rp, a)) }

theorem setAggregates_eq (db : DB R) (rp gen : Nat) (aggs : List Nat) (incGen : Bool) :
    setAggregates db rp gen aggs incGen =
      if incGen then incRpGen (aggWritten db rp aggs) rp gen else .ok (aggWritten db rp aggs) := rfl

theorem mem_aggToAdd {db : DB R} {rp : Nat} {aggs : List Nat} {a : Nat} (h : a ∈ aggToAdd db rp aggs) :
    a ∈ aggs := by
  unfold aggToAdd at h
  rw [List.mem_eraseDups, List.mem_filter] at h
  exact h.1

theorem dissoc_result (db : DB R) (rp : Nat) (aggs : List Nat) :
    (db.rpAggs ++ (aggToAdd db rp aggs).map (fun a => (rp, a))).filter
        (fun p => !(p.1 == rp && (aggToDel db rp aggs).contains p.2)) =
      db.rpAggs.filter (fun p => !(p.1 == rp && !aggs.contains p.2))
        ++ (aggToAdd db rp aggs).map (fun a => (rp, a)) := by
  rw [List.filter_append]
  congr 1
  · apply List.filter_congr
    intro p hp
    by_cases h1 : p.1 = rp
    · have hex : p.2 ∈ db.aggsOf rp := by
        unfold DB.aggsOf
        exact List.mem_map.2 ⟨p, List.mem_filter.2 ⟨hp, by simp [h1]⟩, rfl⟩
      have : p.2 ∈ aggToDel db rp aggs ↔ ¬ p.2 ∈ aggs := by
        unfold aggToDel
        simp [List.mem_eraseDups, hex]
      by_cases h2 : p.2 ∈ aggs <;> simp [h1, this, h2]
    · have : (p.1 == rp) = false := by simpa using h1
      simp [this]
  · rw [List.filter_eq_self]
    intro p hp
    obtain ⟨a, ha, rfl⟩ := List.mem_map.1 hp
    have h2 : a ∈ aggs := mem_aggToAdd ha
    have : ¬ a ∈ aggToDel db rp aggs := by
      unfold aggToDel
      simp [List.mem_eraseDups, h2]
    simp [this]

/-- the statements up to the generation bump write exactly what `setAggregates` writes -/
theorem runBody_setAgg_prefix (db : DB R) (rp : Nat) (aggs : List Nat) :
    runBody ([fun d => .ok d]
      ++ (aggToAdd db rp aggs).map (fun a d => (.ok (ensureAgg a d) : Except Exc (DB R)))
      ++ (aggToAdd db rp aggs).map (fun a d => (.ok (assocAgg rp a d) : Except Exc (DB R)))
      ++ (aggToDel db rp aggs).map (fun a d => (.ok (dissocAgg rp a d) : Except Exc (DB R)))) db none =
      .done (aggWritten db rp aggs) := by
  have h0 : runBody [fun d => (.ok d : Except Exc (DB R))] db none = .done db := by
    rw [runBody_cons_none]; simp
  rw [runBody_append, runBody_append, runBody_append, h0]
  dsimp only
  rw [runBody_map_ok (fun a d => ensureAgg a d)]
  dsimp only
  rw [runBody_map_ok (fun a d => assocAgg rp a d)]
  dsimp only
  rw [runBody_map_ok (fun a d => dissocAgg rp a d)]
  congr 1
  unfold ensureAgg assocAgg dissocAgg
  rw [foldl_aggs (fun a x => if x.contains a then x else x ++ [a]),
    foldl_rpAggs (fun a x => x ++ [(rp, a)]),
    foldl_rpAggs (fun a x => x.filter (fun p => !(p.1 == rp && p.2 == a)))]
  dsimp only
  have hnd : (aggToAdd db rp aggs).Nodup := by unfold aggToAdd; exact Wf.L.nodup_eraseDups _
  rw [foldl_ensure _ _ hnd, foldl_assoc, foldl_dissoc, dissoc_result]
  rfl

/-- **the statement list is `setAggregates`** (success) -/
theorem runBody_setAggStmts_ok {db db' : DB R} {rp gen : Nat} {aggs : List Nat} {incGen : Bool}
    (h : setAggregates db rp gen aggs incGen = .ok db') :
    runBody (setAggStmts db rp gen aggs incGen) db none = .done db' := by
  rw [setAggregates_eq] at h
  unfold setAggStmts
  rw [runBody_append_done (runBody_setAgg_prefix db rp aggs)]
  cases incGen with
  | false =>
    simp only [Bool.false_eq_true, ↓reduceIte, Except.ok.injEq] at h
    subst h
    simp
  | true =>
    simp only [↓reduceIte] at h ⊢
    rw [runBody_cons_none, h]
    simp

/-- ... and failure: the only exception is the generation conflict of the last statement -/
theorem runBody_setAggStmts_error {db : DB R} {rp gen : Nat} {aggs : List Nat} {incGen : Bool} {e : Exc}
    (h : setAggregates db rp gen aggs incGen = .error e) :
    runBody (setAggStmts db rp gen aggs incGen) db none = .exc (aggWritten db rp aggs) e := by
  rw [setAggregates_eq] at h
  unfold setAggStmts
  rw [runBody_append_done (runBody_setAgg_prefix db rp aggs)]
  cases incGen with
  | false => simp at h
  | true =>
    simp only [↓reduceIte] at h ⊢
    rw [runBody_cons_none, h]

/-! ### start-up synchronisation: SELECT of the names, bulk INSERT of the missing ones -/

def syncTraitsStmts (std : List Nat) : List (Stmt (DB R)) :=
  [fun d => .ok d, fun d => .ok (syncTraits std d)]

def syncRcsStmts (std : List Nat) : List (Stmt (DB R)) :=
  [fun d => .ok d, fun d => .ok (syncRcs std d)]

theorem runBody_syncTraitsStmts (std : List Nat) (db : DB R) :
    runBody (syncTraitsStmts std) db none = .done (syncTraits std db) := by
  unfold syncTraitsStmts
  rw [runBody_cons_none]; dsimp only
  rw [runBody_cons_none]; dsimp only
  simp

theorem runBody_syncRcsStmts (std : List Nat) (db : DB R) :
    runBody (syncRcsStmts std) db none = .done (syncRcs std db) := by
  unfold syncRcsStmts
  rw [runBody_cons_none]; dsimp only
  rw [runBody_cons_none]; dsimp only
  simp

end Placement.FaultL
