import Placement.Lemmas.SyncL
/-
  C19, part 2: the start-up synchronisation `sync` (`Model/Sync.lean`) and the harness-only deletion `dropStd`.

  Invariants of the two tables:
  * `StdRcsOk stdRcs db`   every class row with a non-custom name is `(index, name)` of the library list
  * `StdTraitsOk stdTraits db`  every non-custom trait is a library trait
  * `CustomIdsOk db`       every class row with a custom name has id >= 10000
  * `StdIdsLow db`         every class row with a non-custom name has id < 10000 (follows from `StdRcsOk` when
                           the library has at most 10000 classes)
  * `RcT db`               ids unique, class names unique, trait names unique (the three `Uniq` fields)
  Parameters: `AllStd l` = no name of the library list `l` has the prefix `CUSTOM_` (is interned to an even number).
-/
set_option linter.unusedSectionVars false
namespace Placement.SyncL
open Placement Placement.Wf
variable {R : Type}

/-! ### definitions -/

def StdRcsOk (stdRcs : List Nat) (db : DB R) : Prop :=
  ∀ p ∈ db.rcs, isCustom p.2 = false → (p.2, p.1) ∈ stdRcs.zipIdx

def StdTraitsOk (stdTraits : List Nat) (db : DB R) : Prop :=
  ∀ t ∈ db.traits, isCustom t = false → t ∈ stdTraits

/-- the rows with non-custom names are library rows: classes at id = index -/
def StdOk (stdRcs stdTraits : List Nat) (db : DB R) : Prop := StdRcsOk stdRcs db ∧ StdTraitsOk stdTraits db

/-- custom classes have identifiers >= 10000 -/
def CustomIdsOk (db : DB R) : Prop := ∀ p ∈ db.rcs, isCustom p.2 = true → minCustomRcId ≤ p.1

/-- classes with a non-custom name have identifiers < 10000 -/
def StdIdsLow (db : DB R) : Prop := ∀ p ∈ db.rcs, isCustom p.2 = false → p.1 < minCustomRcId

/-- no library name is a `CUSTOM_` name -/
def AllStd (l : List Nat) : Prop := ∀ n ∈ l, isCustom n = false

/-- uniqueness constraints of the two tables (three fields of `Uniq`) -/
structure RcT (db : DB R) : Prop where
  rcId : (db.rcs.map (·.1)).Nodup
  rcName : (db.rcs.map (·.2)).Nodup
  traits : db.traits.Nodup

theorem RcT.of_uniq {db : DB R} (h : Uniq db) : RcT db := ⟨h.rcId, h.rcName, h.traits⟩

theorem RcT.of_symEq {db db' : DB R} (h : RcT db) (e : SymEq db db') : RcT db' := by
  obtain ⟨e1, e2⟩ := e
  exact ⟨by rw [e1]; exact h.rcId, by rw [e1]; exact h.rcName, by rw [e2]; exact h.traits⟩

theorem stdIdsLow_of_stdRcsOk {stdRcs : List Nat} {db : DB R} (hL : stdRcs.length ≤ minCustomRcId)
    (h : StdRcsOk stdRcs db) : StdIdsLow db := by
  intro p hp hc
  have := List.snd_lt_of_mem_zipIdx (h p hp hc)
  simp at this
  omega

/-! ### list helpers -/

theorem zipIdx_idx_inj {l : List Nat} (hN : l.Nodup) {n i j : Nat} (hi : (n, i) ∈ l.zipIdx) (hj : (n, j) ∈ l.zipIdx) :
    i = j := by
  rw [List.mk_mem_zipIdx_iff_getElem?] at hi hj
  have hlt : i < l.length := by
    obtain ⟨h, _⟩ := List.getElem?_eq_some_iff.1 hi
    exact h
  exact (List.getElem?_inj hlt hN).1 (hi.trans hj.symm)

theorem zipIdx_name_inj {l : List Nat} {n m i : Nat} (hi : (n, i) ∈ l.zipIdx) (hj : (m, i) ∈ l.zipIdx) : n = m := by
  rw [List.mk_mem_zipIdx_iff_getElem?] at hi hj
  rw [hi] at hj
  exact Option.some.inj hj

theorem filter_map_eq_filter {α : Type} {l : List α} {g : α → α} {q : α → Bool}
    (h : ∀ a ∈ l, (q a = true → g a = a) ∧ (q a = false → q (g a) = false)) :
    (l.map g).filter q = l.filter q := by
  induction l with
  | nil => rfl
  | cons a l ih =>
    have ha := h a (List.mem_cons_self ..)
    have ih' := ih (fun b hb => h b (List.mem_cons_of_mem _ hb))
    rw [List.map_cons]
    cases hq : q a with
    | true => rw [ha.1 hq, List.filter_cons_of_pos hq, List.filter_cons_of_pos hq, ih']
    | false =>
      rw [List.filter_cons_of_neg (by rw [ha.2 hq]; simp), List.filter_cons_of_neg (by rw [hq]; simp), ih']

/-! ### what `sync` appends -/

/-- the library traits `_trait_sync` inserts -/
def needTraits (stdTraits : List Nat) (db : DB R) : List Nat :=
  (stdTraits.filter (fun t => !(db.traits.filter (fun t => !isCustom t)).contains t)).eraseDups

/-- the rows `_resource_classes_sync` inserts -/
def needRcs (stdRcs : List Nat) (db : DB R) : List (Nat × Nat) :=
  (stdRcs.zipIdx.filter (fun p => !((db.rcs.map (·.2)).filter (fun n => !isCustom n)).contains p.1)).map
    (fun p => (p.2, p.1))

theorem syncTraits_eq (stdTraits : List Nat) (db : DB R) :
    syncTraits stdTraits db = { db with traits := db.traits ++ needTraits stdTraits db } := rfl

theorem syncRcs_eq (stdRcs : List Nat) (db : DB R) :
    syncRcs stdRcs db = { db with rcs := db.rcs ++ needRcs stdRcs db } := rfl

theorem sync_eq (stdRcs stdTraits : List Nat) (db : DB R) :
    sync stdRcs stdTraits db =
      { db with rcs := db.rcs ++ needRcs stdRcs db, traits := db.traits ++ needTraits stdTraits db } := rfl

theorem sync_rcs (stdRcs stdTraits : List Nat) (db : DB R) :
    (sync stdRcs stdTraits db).rcs = db.rcs ++ needRcs stdRcs db := rfl

theorem sync_traits (stdRcs stdTraits : List Nat) (db : DB R) :
    (sync stdRcs stdTraits db).traits = db.traits ++ needTraits stdTraits db := rfl

theorem syncTraits_syncRcs_comm (stdRcs stdTraits : List Nat) (db : DB R) :
    syncTraits stdTraits (syncRcs stdRcs db) = syncRcs stdRcs (syncTraits stdTraits db) := rfl

theorem mem_needTraits {stdTraits : List Nat} {db : DB R} {t : Nat} :
    t ∈ needTraits stdTraits db ↔ t ∈ stdTraits ∧ ¬ (t ∈ db.traits ∧ isCustom t = false) := by
  unfold needTraits
  rw [List.mem_eraseDups, List.mem_filter]
  apply and_congr_right
  intro _
  cases hc : isCustom t <;> simp [List.mem_filter, hc]

theorem mem_needRcs {stdRcs : List Nat} {db : DB R} {q : Nat × Nat} :
    q ∈ needRcs stdRcs db ↔
      (q.2, q.1) ∈ stdRcs.zipIdx ∧ ¬ ((∃ p ∈ db.rcs, p.2 = q.2) ∧ isCustom q.2 = false) := by
  unfold needRcs
  rw [List.mem_map]
  constructor
  · rintro ⟨p, hp, rfl⟩
    rw [List.mem_filter] at hp
    refine ⟨hp.1, ?_⟩
    rintro ⟨⟨r, hr, e⟩, hc⟩
    have : ((db.rcs.map (·.2)).filter (fun n => !isCustom n)).contains p.1 = true := by
      rw [List.contains_iff_mem, List.mem_filter]
      exact ⟨List.mem_map.2 ⟨r, hr, e⟩, by simpa using hc⟩
    have h2 := hp.2
    rw [this] at h2
    simp at h2
  · rintro ⟨h1, h2⟩
    refine ⟨(q.2, q.1), List.mem_filter.2 ⟨h1, ?_⟩, rfl⟩
    cases hc : ((db.rcs.map (·.2)).filter (fun n => !isCustom n)).contains q.2 with
    | false => rfl
    | true =>
      exfalso
      apply h2
      rw [List.contains_iff_mem, List.mem_filter] at hc
      obtain ⟨r, hr, e⟩ := List.mem_map.1 hc.1
      exact ⟨⟨r, hr, e⟩, by simpa using hc.2⟩

/-! ### `sync_complete` -/

/-- after `sync` every library trait and every library class (at id = index) is present -/
theorem synced_sync {stdRcs stdTraits : List Nat} {db : DB R} (hN : stdRcs.Nodup) (hS : StdRcsOk stdRcs db) :
    Synced stdRcs stdTraits (sync stdRcs stdTraits db) := by
  constructor
  · intro t ht
    rw [sync_traits, List.mem_append]
    by_cases h : t ∈ db.traits ∧ isCustom t = false
    · exact .inl h.1
    · exact .inr (mem_needTraits.2 ⟨ht, h⟩)
  · intro p hp
    rw [sync_rcs, List.mem_append]
    by_cases h : (∃ q ∈ db.rcs, q.2 = p.1) ∧ isCustom p.1 = false
    · obtain ⟨⟨q, hq, e⟩, hc⟩ := h
      left
      have h1 := hS q hq (by rw [e]; exact hc)
      rw [e] at h1
      have h2 : q.1 = p.2 := zipIdx_idx_inj hN h1 hp
      have : q = (p.2, p.1) := by rw [← h2, ← e]
      rw [← this]; exact hq
    · exact .inr (mem_needRcs.2 ⟨hp, h⟩)

/-! ### `sync_idempotent` -/

theorem needTraits_nil_of {stdTraits : List Nat} {db : DB R}
    (h : ∀ t ∈ stdTraits, t ∈ db.traits ∧ isCustom t = false) : needTraits stdTraits db = [] := by
  have : ∀ t, t ∉ needTraits stdTraits db := by
    intro t ht
    obtain ⟨h1, h2⟩ := mem_needTraits.1 ht
    exact h2 (h t h1)
  exact List.eq_nil_iff_forall_not_mem.2 this

theorem needRcs_nil_of {stdRcs : List Nat} {db : DB R}
    (h : ∀ n ∈ stdRcs, (∃ p ∈ db.rcs, p.2 = n) ∧ isCustom n = false) : needRcs stdRcs db = [] := by
  have : ∀ q, q ∉ needRcs stdRcs db := by
    intro q hq
    obtain ⟨h1, h2⟩ := mem_needRcs.1 hq
    exact h2 (h q.2 (List.fst_mem_of_mem_zipIdx h1))
  exact List.eq_nil_iff_forall_not_mem.2 this

theorem syncTraits_idem {stdTraits : List Nat} (hE : AllStd stdTraits) (db : DB R) :
    syncTraits stdTraits (syncTraits stdTraits db) = syncTraits stdTraits db := by
  have : needTraits stdTraits (syncTraits stdTraits db) = [] := by
    apply needTraits_nil_of
    intro t ht
    refine ⟨?_, hE t ht⟩
    show t ∈ db.traits ++ needTraits stdTraits db
    rw [List.mem_append]
    by_cases h : t ∈ db.traits ∧ isCustom t = false
    · exact .inl h.1
    · exact .inr (mem_needTraits.2 ⟨ht, h⟩)
  rw [syncTraits_eq stdTraits (syncTraits stdTraits db), this, List.append_nil]

theorem syncRcs_idem {stdRcs : List Nat} (hE : AllStd stdRcs) (db : DB R) :
    syncRcs stdRcs (syncRcs stdRcs db) = syncRcs stdRcs db := by
  have : needRcs stdRcs (syncRcs stdRcs db) = [] := by
    apply needRcs_nil_of
    intro n hn
    refine ⟨?_, hE n hn⟩
    obtain ⟨i, hi⟩ : ∃ i, (n, i) ∈ stdRcs.zipIdx := by
      obtain ⟨i, hi⟩ := List.mem_iff_getElem?.1 hn
      exact ⟨i, List.mk_mem_zipIdx_iff_getElem?.2 hi⟩
    show ∃ p ∈ db.rcs ++ needRcs stdRcs db, p.2 = n
    by_cases h : (∃ q ∈ db.rcs, q.2 = n) ∧ isCustom n = false
    · obtain ⟨⟨q, hq, e⟩, -⟩ := h
      exact ⟨q, List.mem_append_left _ hq, e⟩
    · exact ⟨(i, n), List.mem_append_right _ (mem_needRcs.2 ⟨hi, h⟩), rfl⟩
  rw [syncRcs_eq stdRcs (syncRcs stdRcs db), this, List.append_nil]

theorem sync_idem {stdRcs stdTraits : List Nat} (hR : AllStd stdRcs) (hT : AllStd stdTraits) (db : DB R) :
    sync stdRcs stdTraits (sync stdRcs stdTraits db) = sync stdRcs stdTraits db := by
  unfold sync
  rw [syncTraits_syncRcs_comm, syncRcs_idem hR, syncTraits_idem hT]

/-- a synchronised database is a fixed point of `sync` -/
theorem sync_eq_self_of_synced {stdRcs stdTraits : List Nat} (hR : AllStd stdRcs) (hT : AllStd stdTraits)
    {db : DB R} (h : Synced stdRcs stdTraits db) : sync stdRcs stdTraits db = db := by
  have h1 : needTraits stdTraits db = [] := needTraits_nil_of (fun t ht => ⟨h.1 t ht, hT t ht⟩)
  have h2 : needRcs stdRcs db = [] := by
    apply needRcs_nil_of
    intro n hn
    obtain ⟨i, hi⟩ := List.mem_iff_getElem?.1 hn
    exact ⟨⟨(i, n), h.2 (n, i) (List.mk_mem_zipIdx_iff_getElem?.2 hi), rfl⟩, hR n hn⟩
  rw [sync_eq, h1, h2, List.append_nil, List.append_nil]

/-! ### `sync_preserves_custom` -/

theorem needRcs_noncustom {stdRcs : List Nat} (hE : AllStd stdRcs) {db : DB R} :
    ∀ q ∈ needRcs stdRcs db, isCustom q.2 = false := fun q hq =>
  hE q.2 (List.fst_mem_of_mem_zipIdx (mem_needRcs.1 hq).1)

theorem needTraits_noncustom {stdTraits : List Nat} (hE : AllStd stdTraits) {db : DB R} :
    ∀ t ∈ needTraits stdTraits db, isCustom t = false := fun t ht => hE t (mem_needTraits.1 ht).1

theorem sync_custom_rcs {stdRcs stdTraits : List Nat} (hE : AllStd stdRcs) (db : DB R) :
    (sync stdRcs stdTraits db).rcs.filter (fun p => isCustom p.2) = db.rcs.filter (fun p => isCustom p.2) := by
  rw [sync_rcs, List.filter_append]
  have : (needRcs stdRcs db).filter (fun p => isCustom p.2) = [] := by
    rw [List.filter_eq_nil_iff]
    intro q hq
    simp [needRcs_noncustom hE q hq]
  rw [this, List.append_nil]

theorem sync_custom_traits {stdRcs stdTraits : List Nat} (hE : AllStd stdTraits) (db : DB R) :
    (sync stdRcs stdTraits db).traits.filter isCustom = db.traits.filter isCustom := by
  rw [sync_traits, List.filter_append]
  have : (needTraits stdTraits db).filter isCustom = [] := by
    rw [List.filter_eq_nil_iff]
    intro q hq
    simp [needTraits_noncustom hE q hq]
  rw [this, List.append_nil]

/-! ### invariants under `sync` -/

theorem stdRcsOk_sync {stdRcs stdTraits : List Nat} {db : DB R} (h : StdRcsOk stdRcs db) :
    StdRcsOk stdRcs (sync stdRcs stdTraits db) := by
  intro p hp hc
  rw [sync_rcs, List.mem_append] at hp
  rcases hp with hp | hp
  · exact h p hp hc
  · exact (mem_needRcs.1 hp).1

theorem stdTraitsOk_sync {stdRcs stdTraits : List Nat} {db : DB R} (h : StdTraitsOk stdTraits db) :
    StdTraitsOk stdTraits (sync stdRcs stdTraits db) := by
  intro t ht hc
  rw [sync_traits, List.mem_append] at ht
  rcases ht with ht | ht
  · exact h t ht hc
  · exact (mem_needTraits.1 ht).1

theorem stdOk_sync {stdRcs stdTraits : List Nat} {db : DB R} (h : StdOk stdRcs stdTraits db) :
    StdOk stdRcs stdTraits (sync stdRcs stdTraits db) := ⟨stdRcsOk_sync h.1, stdTraitsOk_sync h.2⟩

theorem customIdsOk_sync {stdRcs stdTraits : List Nat} (hE : AllStd stdRcs) {db : DB R} (h : CustomIdsOk db) :
    CustomIdsOk (sync stdRcs stdTraits db) := by
  intro p hp hc
  rw [sync_rcs, List.mem_append] at hp
  rcases hp with hp | hp
  · exact h p hp hc
  · rw [needRcs_noncustom hE p hp] at hc; cases hc

theorem needRcs_ids_nodup (stdRcs : List Nat) (db : DB R) : ((needRcs stdRcs db).map (·.1)).Nodup := by
  unfold needRcs
  rw [List.map_map]
  have : ((fun p : Nat × Nat => p.1) ∘ fun p : Nat × Nat => (p.2, p.1)) = (·.2) := rfl
  rw [this]
  apply L.nodup_map_filter
  rw [List.zipIdx_map_snd 0 stdRcs]
  exact List.nodup_range'

theorem needRcs_names_nodup {stdRcs : List Nat} (hN : stdRcs.Nodup) (db : DB R) :
    ((needRcs stdRcs db).map (·.2)).Nodup := by
  unfold needRcs
  rw [List.map_map]
  have : ((fun p : Nat × Nat => p.2) ∘ fun p : Nat × Nat => (p.2, p.1)) = (·.1) := rfl
  rw [this]
  apply L.nodup_map_filter
  rw [List.zipIdx_map_fst 0 stdRcs]
  exact hN

theorem rcT_sync {stdRcs stdTraits : List Nat} (hR : AllStd stdRcs) (hT : AllStd stdTraits) (hN : stdRcs.Nodup)
    (hL : stdRcs.length ≤ minCustomRcId) {db : DB R} (hS : StdRcsOk stdRcs db) (hC : CustomIdsOk db)
    (h : RcT db) : RcT (sync stdRcs stdTraits db) := by
  refine ⟨?_, ?_, ?_⟩
  · rw [sync_rcs, L.nodup_map_append]
    refine ⟨h.rcId, needRcs_ids_nodup stdRcs db, ?_⟩
    intro p hp q hq e
    obtain ⟨hq1, hq2⟩ := mem_needRcs.1 hq
    cases hc : isCustom p.2 with
    | true =>
      have h1 := hC p hp hc
      have h2 := List.snd_lt_of_mem_zipIdx hq1
      simp at h2
      omega
    | false =>
      have h1 := hS p hp hc
      rw [e] at h1
      have e2 : p.2 = q.2 := zipIdx_name_inj h1 hq1
      exact hq2 ⟨⟨p, hp, e2⟩, by rw [← e2]; exact hc⟩
  · rw [sync_rcs, L.nodup_map_append]
    refine ⟨h.rcName, needRcs_names_nodup hN db, ?_⟩
    intro p hp q hq e
    obtain ⟨hq1, hq2⟩ := mem_needRcs.1 hq
    exact hq2 ⟨⟨p, hp, e⟩, needRcs_noncustom hR q hq⟩
  · rw [sync_traits, List.nodup_append]
    refine ⟨h.traits, L.nodup_eraseDups _, ?_⟩
    intro a ha b hb e
    subst e
    exact (mem_needTraits.1 hb).2 ⟨ha, needTraits_noncustom hT a hb⟩

theorem uniq_sync {stdRcs stdTraits : List Nat} (hR : AllStd stdRcs) (hT : AllStd stdTraits) (hN : stdRcs.Nodup)
    (hL : stdRcs.length ≤ minCustomRcId) {db : DB R} (hS : StdRcsOk stdRcs db) (hC : CustomIdsOk db)
    (h : Uniq db) : Uniq (sync stdRcs stdTraits db) := by
  have t := rcT_sync (stdTraits := stdTraits) hR hT hN hL hS hC (RcT.of_uniq h)
  exact { h with rcId := t.rcId, rcName := t.rcName, traits := t.traits }

/-! ### `dropStd` -/

theorem dropStd_rcs (rcNames traitNames : List Nat) (db : DB R) :
    (dropStd rcNames traitNames db).rcs =
      db.rcs.filter (fun p => !(rcNames.contains p.2 && p.1 < minCustomRcId)) := rfl

theorem dropStd_traits (rcNames traitNames : List Nat) (db : DB R) :
    (dropStd rcNames traitNames db).traits =
      db.traits.filter (fun t => !(traitNames.contains t && !isCustom t)) := rfl

theorem stdOk_dropStd {stdRcs stdTraits : List Nat} {db : DB R} (rcNames traitNames : List Nat)
    (h : StdOk stdRcs stdTraits db) : StdOk stdRcs stdTraits (dropStd rcNames traitNames db) :=
  ⟨fun p hp hc => h.1 p (List.mem_filter.1 hp).1 hc, fun t ht hc => h.2 t (List.mem_filter.1 ht).1 hc⟩

theorem customIdsOk_dropStd {db : DB R} (rcNames traitNames : List Nat) (h : CustomIdsOk db) :
    CustomIdsOk (dropStd rcNames traitNames db) := fun p hp hc => h p (List.mem_filter.1 hp).1 hc

theorem rcT_dropStd {db : DB R} (rcNames traitNames : List Nat) (h : RcT db) :
    RcT (dropStd rcNames traitNames db) :=
  ⟨L.nodup_map_filter _ h.rcId, L.nodup_map_filter _ h.rcName, h.traits.filter _⟩

/-- `dropStd` removes no custom row (given that custom classes have ids >= 10000) -/
theorem dropStd_custom_rcs {db : DB R} (rcNames traitNames : List Nat) (h : CustomIdsOk db) :
    (dropStd rcNames traitNames db).rcs.filter (fun p => isCustom p.2) = db.rcs.filter (fun p => isCustom p.2) := by
  rw [dropStd_rcs, List.filter_filter]
  apply List.filter_congr
  intro p hp
  cases hc : isCustom p.2 with
  | false => rfl
  | true =>
    have := h p hp hc
    have : ¬ p.1 < minCustomRcId := by omega
    simp [this]

theorem dropStd_custom_traits {db : DB R} (rcNames traitNames : List Nat) :
    (dropStd rcNames traitNames db).traits.filter isCustom = db.traits.filter isCustom := by
  rw [dropStd_traits, List.filter_filter]
  apply List.filter_congr
  intro t _
  cases hc : isCustom t <;> simp

/-! ### the synchronised empty database -/

theorem mem_initDb_rcs {stdRcs stdTraits : List Nat} {p : Nat × Nat} :
    p ∈ (initDb stdRcs stdTraits : DB R).rcs ↔ (p.2, p.1) ∈ stdRcs.zipIdx := by
  show p ∈ stdRcs.zipIdx.map (fun (n, i) => (i, n)) ↔ _
  rw [List.mem_map]
  constructor
  · rintro ⟨q, hq, rfl⟩; exact hq
  · intro h; exact ⟨(p.2, p.1), h, rfl⟩

theorem stdOk_init (stdRcs stdTraits : List Nat) : StdOk stdRcs stdTraits (initDb stdRcs stdTraits : DB R) :=
  ⟨fun _ hp _ => mem_initDb_rcs.1 hp, fun _ ht _ => ht⟩

theorem customIdsOk_init {stdRcs : List Nat} (hE : AllStd stdRcs) (stdTraits : List Nat) :
    CustomIdsOk (initDb stdRcs stdTraits : DB R) := by
  intro p hp hc
  rw [hE p.2 (List.fst_mem_of_mem_zipIdx (mem_initDb_rcs.1 hp))] at hc
  cases hc

theorem synced_init (stdRcs stdTraits : List Nat) : Synced stdRcs stdTraits (initDb stdRcs stdTraits : DB R) :=
  ⟨fun _ ht => ht, fun _ hp => mem_initDb_rcs.2 hp⟩

theorem rcT_init {stdRcs stdTraits : List Nat} (h1 : stdRcs.Nodup) (h2 : stdTraits.Nodup) :
    RcT (initDb stdRcs stdTraits : DB R) := RcT.of_uniq (Wf.uniq_init h1 h2)

/-- the empty database (nothing synchronised yet) -/
theorem stdOk_empty (stdRcs stdTraits : List Nat) : StdOk stdRcs stdTraits ({} : DB R) :=
  ⟨fun _ hp _ => (List.not_mem_nil hp).elim, fun _ ht _ => (List.not_mem_nil ht).elim⟩
theorem customIdsOk_empty : CustomIdsOk ({} : DB R) := fun _ hp _ => (List.not_mem_nil hp).elim
theorem rcT_empty : RcT ({} : DB R) := ⟨List.nodup_nil, List.nodup_nil, List.nodup_nil⟩

end Placement.SyncL
