import Placement.Lemmas.SchedAlloc
import Placement.Lemmas.Wf
/-
  C18, object layer: `replace_all` (with the partial effects of its failed attempts, which stay
  inside the open transaction) and the reshape transaction built on it keep the bundled invariants
  `WFI` (`UniqC`, `RI`, `AllocKeys`, `AllocPos`).

  Key observation: `_set_allocations` first deletes every allocation of the consumers it writes, so
  what a failed earlier attempt inserted for those consumers is irrelevant to the final, successful
  attempt (`setAllocations_congr`); all that remains of the failed attempts are raised provider
  generations (`Part`).
-/
namespace Placement.Crash
open Placement Placement.Wf Placement.Sched
variable {R : Type}
set_option linter.unusedSectionVars false

/-- a row-wise provider update that keeps everything except (possibly) the generation -/
def KeepsRp (g : RpRow → RpRow) : Prop :=
  ∀ r, (g r).id = r.id ∧ (g r).uuid = r.uuid ∧ (g r).name = r.name ∧ (g r).parent = r.parent ∧ (g r).root = r.root

theorem KeepsRp.id : KeepsRp (fun r => r) := fun _ => ⟨rfl, rfl, rfl, rfl, rfl⟩

theorem KeepsRp.comp {g g' : RpRow → RpRow} (h : KeepsRp g) (h' : KeepsRp g') : KeepsRp (g' ∘ g) := by
  intro r
  obtain ⟨a1, a2, a3, a4, a5⟩ := h r
  obtain ⟨b1, b2, b3, b4, b5⟩ := h' (g r)
  exact ⟨b1.trans a1, b2.trans a2, b3.trans a3, b4.trans a4, b5.trans a5⟩

theorem keepsRp_bumpRow (id gen : Nat) : KeepsRp (bumpRow id gen) := fun r => by simp

/-- the filter `_set_allocations` starts with: rows of other consumers -/
def others (us : List Nat) (a : AllocRow) : Bool := !us.contains a.consumer

/-- `d` is `db` inside the main transaction after failed attempts to write the consumers `us`:
provider generations raised, allocations of the consumers `us` replaced by something -/
def Part (us : List Nat) (db d : DB R) : Prop :=
  ∃ g : RpRow → RpRow, KeepsRp g ∧ ∃ al : List AllocRow,
    d = { db with rps := db.rps.map g, allocs := al } ∧ al.filter (others us) = db.allocs.filter (others us)

theorem Part.refl (us : List Nat) (db : DB R) : Part us db db :=
  ⟨fun r => r, KeepsRp.id, db.allocs, by simp, rfl⟩

/-! ### partial generation bumps -/

theorem incRpGensP_shape : ∀ (l : List (Nat × Nat)) (db : DB R),
    ∃ g : RpRow → RpRow, KeepsRp g ∧ (incRpGensP db l).1 = { db with rps := db.rps.map g }
  | [], db => ⟨fun r => r, KeepsRp.id, by simp [incRpGensP]⟩
  | (id, gen) :: rest, db => by
    unfold incRpGensP
    split
    · next db1 h1 =>
      obtain ⟨g, hg, e⟩ := incRpGensP_shape rest db1
      rw [e, (incRpGen_ok h1).1]
      refine ⟨g ∘ bumpRow id gen, (keepsRp_bumpRow id gen).comp hg, ?_⟩
      simp [DB.setRp, bumpRow, List.map_map]
    · exact ⟨fun r => r, KeepsRp.id, by simp⟩

theorem incConsGensP_err : ∀ (l : List (Nat × Nat)) (db : DB R) (e : Exc),
    (incConsGensP db l).2 = some e → e = .concurrentUpdate
  | [], db, e, h => by simp [incConsGensP] at h
  | (id, gen) :: rest, db, e, h => by
    unfold incConsGensP at h
    split at h
    · next db1 h1 => exact incConsGensP_err rest db1 e h
    · next e' h1 =>
      unfold incConsGen at h1
      split at h1
      · cases h1
      · simp only [Option.some.injEq] at h
        injection h1 with h1
        rw [← h, ← h1]

variable [CapOps R]

/-! ### one attempt -/

/-- `_set_allocations` does not look at the allocations of the consumers it writes -/
theorem setAllocations_congr (db : DB R) (al : List AllocRow) (objs : List AllocReq)
    (h : al.filter (others (objs.map (·.consUuid))) = db.allocs.filter (others (objs.map (·.consUuid)))) :
    setAllocations { db with allocs := al } objs = setAllocations db objs := by
  unfold others at h
  unfold setAllocations
  dsimp only
  rw [h]

/-- every inserted row belongs to one of the consumers written -/
theorem rows_filter_others (objs : List AllocReq) (res : List (Nat × Nat × Int)) :
    ((objs.zip res).filterMap (fun (a, r) =>
      if a.used == 0 then none
      else some ({ rp := a.rpId, rc := r.2.1, consumer := a.consUuid, used := a.used } : AllocRow))).filter
        (others (objs.map (·.consUuid))) = [] := by
  rw [List.filter_eq_nil_iff]
  intro x hx
  obtain ⟨p, hp, hf⟩ := List.mem_filterMap.1 hx
  obtain ⟨a, r⟩ := p
  dsimp only at hf
  split at hf
  · cases hf
  · injection hf with hf
    subst hf
    have ha : a ∈ objs := (List.of_mem_zip hp).1
    simp only [others, List.contains_eq_mem, List.mem_map, Bool.not_eq_eq_eq_not, Bool.not_true,
      decide_eq_false_iff_not, not_exists, not_and]
    exact fun hn => hn a ha rfl

/-- an attempt that fails on a provider generation leaves raised provider generations and changed
allocations of the written consumers, nothing else -/
theorem setAllocationsP_part (db : DB R) (objs : List AllocReq)
    (h : (setAllocationsP db objs).2 = some .rpConcurrentUpdate) :
    Part (objs.map (·.consUuid)) db (setAllocationsP db objs).1 := by
  have hclear : Part (objs.map (·.consUuid)) db
      { db with allocs := db.allocs.filter (fun a => !(objs.map (·.consUuid)).contains a.consumer) } :=
    ⟨fun r => r, KeepsRp.id, db.allocs.filter (fun a => !(objs.map (·.consUuid)).contains a.consumer),
      by simp, by unfold others; rw [List.filter_filter]; simp⟩
  unfold setAllocationsP at h ⊢
  dsimp only at h ⊢
  split
  · exact hclear
  · exact hclear
  · next u res hcap hres =>
    rw [hcap, hres] at h
    dsimp only at h
    generalize hdb2 : ({ db with allocs := _ } : DB R) = db2 at h ⊢
    obtain ⟨g, hg, e3⟩ := incRpGensP_shape (firstByKey (objs.map (fun a => (a.rpId, a.rpGen)))) db2
    have hpart : Part (objs.map (·.consUuid)) db
        (incRpGensP db2 (firstByKey (objs.map (fun a => (a.rpId, a.rpGen))))).1 := by
      rw [e3, ← hdb2]
      refine ⟨g, hg, _, rfl, ?_⟩
      dsimp only
      rw [List.filter_append, rows_filter_others, List.append_nil]
      unfold others; rw [List.filter_filter]; simp
    split
    · next db3 e he => rw [he] at hpart; exact hpart
    · next db3 he =>
      rw [he] at h
      dsimp only at h
      split
      · next db4 e he4 =>
        rw [he4] at h
        dsimp only at h
        have := incConsGensP_err _ _ e (by rw [he4])
        rw [this] at h
        cases h
      · next db4 he4 =>
        rw [he4] at h
        cases h

theorem Part.trans {us : List Nat} {a b c : DB R} (h1 : Part us a b) (h2 : Part us b c) : Part us a c := by
  obtain ⟨g, hg, al, rfl, e1⟩ := h1
  obtain ⟨g', hg', al', rfl, e2⟩ := h2
  refine ⟨g' ∘ g, hg.comp hg', al', ?_, ?_⟩
  · simp [List.map_map]
  · exact e2.trans e1

theorem consUuid_of_objCore {objs objs' : List AllocReq} (h : objs'.map objCore = objs.map objCore) :
    objs'.map (·.consUuid) = objs.map (·.consUuid) := by
  have : ∀ l : List AllocReq, l.map (·.consUuid) = (l.map objCore).map (fun t => t.2.2.2.1) := by
    intro l; rw [List.map_map]; rfl
  rw [this, this, h]

/-! ### `replace_all` -/

/-- a successful `replace_all` is a successful `_set_allocations` of the same objects (up to the
refreshed provider generations) on the state it started from with some provider generations raised -/
theorem replaceAll_ok_part (committed : DB R) (objs0 : List AllocReq) (db0 : DB R) :
    ∀ (n : Nat) (db : DB R) (objs : List AllocReq) {db' : DB R},
    replaceAll committed n db objs = .ok db' → objs.map objCore = objs0.map objCore →
    Part (objs0.map (·.consUuid)) db0 db →
    ∃ dbk objsk, setAllocations dbk objsk = .ok db' ∧ Part (objs0.map (·.consUuid)) db0 dbk ∧
      objsk.map objCore = objs0.map objCore
  | 0, _, _, _, h, _, _ => by simp [replaceAll] at h
  | n + 1, db, objs, db', h, hc, hp => by
    unfold replaceAll at h
    split at h
    · next db1 h1 =>
      simp only [Except.ok.injEq] at h
      subst h
      have := setAllocationsP_ok_eq db objs (by rw [h1])
      rw [h1] at this
      exact ⟨db, objs, this, hp, hc⟩
    · next db1 h1 =>
      split at h
      · cases h
      · next objs' hr =>
        have hp1 := setAllocationsP_part db objs (by rw [h1])
        rw [h1, consUuid_of_objCore hc] at hp1
        exact replaceAll_ok_part committed objs0 db0 n db1 objs' h ((refreshRps_core hr).trans hc)
          (hp.trans hp1)
    · cases h

omit [CapOps R] in
/-- raised provider generations keep the bundled invariants -/
theorem wfi_map_rps {db : DB R} (h : WFI db) {g : RpRow → RpRow} (hg : KeepsRp g) :
    WFI { db with rps := db.rps.map g } :=
  h.of_allocs_eq (h.uniq.map_rps g (fun r => (hg r).1) (fun r => (hg r).2.1) (fun r => (hg r).2.2.1))
    (h.ri.map_rps g (fun r => (hg r).1)) rfl

/-- the pairwise condition on allocation objects, on the parts a refresh leaves alone -/
def KeysDistinct (objs : List AllocReq) : Prop :=
  objs.Pairwise (fun a b => a.used ≠ 0 → b.used ≠ 0 →
    (a.rpId, a.rcName, a.consUuid) ≠ (b.rpId, b.rcName, b.consUuid))

theorem keysDistinct_of_objCore {objs objs' : List AllocReq} (h : objs'.map objCore = objs.map objCore)
    (hd : KeysDistinct objs) : KeysDistinct objs' := by
  have key : ∀ l : List AllocReq, KeysDistinct l ↔
      (l.map objCore).Pairwise (fun x y => x.2.2.2.2.2 ≠ 0 → y.2.2.2.2.2 ≠ 0 →
        (x.1, x.2.1, x.2.2.2.1) ≠ (y.1, y.2.1, y.2.2.2.1)) := by
    intro l; unfold KeysDistinct; rw [List.pairwise_map]; rfl
  rw [key, h, ← key]; exact hd

theorem mem_of_objCore {objs objs' : List AllocReq} (h : objs'.map objCore = objs.map objCore)
    {a : AllocReq} (ha : a ∈ objs') : ∃ b ∈ objs, objCore b = objCore a := by
  have : objCore a ∈ objs.map objCore := by rw [← h]; exact List.mem_map.2 ⟨a, ha, rfl⟩
  obtain ⟨b, hb, e⟩ := List.mem_map.1 this
  exact ⟨b, hb, e⟩

/-- **`replace_all` keeps the bundled invariants**, whatever its failed attempts left behind -/
theorem replaceAll_wfi {committed db db' : DB R} {n : Nat} {objs : List AllocReq} (h : WFI db)
    (hC : ∀ a ∈ objs, ∃ c ∈ db.consumers, c.uuid = a.consUuid) (hd : KeysDistinct objs)
    (hpos : ∀ a ∈ objs, 0 ≤ a.used) (e : replaceAll committed n db objs = .ok db') : WFI db' := by
  obtain ⟨dbk, objsk, hs, ⟨g, hg, al, rfl, hal⟩, hc⟩ :=
    replaceAll_ok_part committed objs db n db objs e rfl (Part.refl _ db)
  have hs' : setAllocations { db with rps := db.rps.map g } objsk = .ok db' := by
    rw [← hs]
    exact (setAllocations_congr { db with rps := db.rps.map g } al objsk
      (by rw [consUuid_of_objCore hc]; exact hal)).symm
  have w := wfi_map_rps h hg
  have hC' : ∀ a ∈ objsk, ∃ c ∈ ({ db with rps := db.rps.map g } : DB R).consumers, c.uuid = a.consUuid := by
    intro a ha
    obtain ⟨b, hb, eb⟩ := mem_of_objCore hc ha
    obtain ⟨c, hc1, hc2⟩ := hC b hb
    simp only [objCore, Prod.mk.injEq] at eb
    exact ⟨c, hc1, hc2.trans eb.2.2.2.1⟩
  have hpos' : ∀ a ∈ objsk, 0 ≤ a.used := by
    intro a ha
    obtain ⟨b, hb, eb⟩ := mem_of_objCore hc ha
    simp only [objCore, Prod.mk.injEq] at eb
    rw [← eb.2.2.2.2.2]; exact hpos b hb
  exact ⟨uniqC_setAllocations w.uniq hs', ri_setAllocations w.ri hC' hs',
    allocKeys_setAllocations w.uniq w.keys (keysDistinct_of_objCore hc hd) hs',
    allocPos_setAllocations w.pos hpos' hs'⟩

/-- what `replace_all` does to the consumer table and the classes: rows keep id, uuid, project, user and
type, rows may disappear -/
theorem replaceAll_consSub {committed db db' : DB R} {n : Nat} {objs : List AllocReq}
    (e : replaceAll committed n db objs = .ok db') :
    ∀ c' ∈ db'.consumers, ∃ c ∈ db.consumers, c.id = c'.id ∧ c.uuid = c'.uuid := by
  obtain ⟨dbk, objsk, hs, ⟨g, hg, al, rfl, hal⟩, hc⟩ :=
    replaceAll_ok_part committed objs db n db objs e rfl (Part.refl _ db)
  intro c' hc'
  obtain ⟨c, hc1, h1, h2, -⟩ := (allocTxn_setAllocations hs).consSub c' hc'
  exact ⟨c, hc1, h1, h2⟩

/-! ### the reshape transaction with `replace_all` -/

theorem reshapeTxnR_wfi {db db' : DB R} {invs : List (Nat × Nat × List (InvSpec R))} {objs : List AllocReq}
    (h : WFI db) (hC : ∀ a ∈ objs, ∃ c ∈ db.consumers, c.uuid = a.consUuid) (hd : KeysDistinct objs)
    (hpos : ∀ a ∈ objs, 0 ≤ a.used) (e : reshapeTxnR db invs objs = .ok db') : WFI db' := by
  unfold reshapeTxnR at e
  simp only [bind, Except.bind] at e
  split at e
  · cases e
  · next v hv =>
    obtain ⟨db1, gens1⟩ := v
    dsimp only at e
    split at e
    · cases e
    · next db2 h2 =>
      have w1 : WFI db1 ∧ db1.consumers = db.consumers :=
        reshapeInterim_pres (fun d => WFI d ∧ d.consumers = db.consumers)
          (fun d d' rp gen is hp hs => ⟨wfi_setInventory hp.1 hs, (setInventory_frame hs).2.1.trans hp.2⟩)
          _ _ _ _ _ hv ⟨h, rfl⟩
      have hC' : ∀ a ∈ objs.map (fun a => { a with rpGen := knownGen gens1 a.rpId a.rpGen }),
          ∃ c ∈ db1.consumers, c.uuid = a.consUuid := by
        intro a ha
        obtain ⟨a0, ha0, rfl⟩ := List.mem_map.1 ha
        rw [w1.2]; exact hC a0 ha0
      have hd' : KeysDistinct (objs.map (fun a => { a with rpGen := knownGen gens1 a.rpId a.rpGen })) := by
        unfold KeysDistinct; rw [List.pairwise_map]; exact hd
      have hpos' : ∀ a ∈ objs.map (fun a => { a with rpGen := knownGen gens1 a.rpId a.rpGen }), 0 ≤ a.used := by
        intro a ha
        obtain ⟨a0, ha0, rfl⟩ := List.mem_map.1 ha
        exact hpos a0 ha0
      have w2 := replaceAll_wfi w1.1 hC' hd' hpos' h2
      exact reshapeFinal_pres (fun d => WFI d) (fun d d' rp gen is hp hs => wfi_setInventory hp hs)
        _ _ _ _ e w2

end Placement.Crash
