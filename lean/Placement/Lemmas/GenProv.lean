import Placement.Lemmas.GenErr
/-
  C10, part 5: per handler, the provider generation after a success (inventories, traits, aggregates).
-/
namespace Placement.Gens
open Placement.Hier
variable {R : Type} [CapOps R]
set_option linter.unusedSectionVars false
set_option linter.unusedSimpArgs false

/-- "exactly this provider's generation went up by one": the whole provider table is the old one
with `gen + 1` in the rows of that provider (ids are unique), consumers untouched -/
def BumpedOnce (db db' : DB R) (uuid : Nat) : Prop :=
  ∃ rp, db.rpByUuid uuid = some rp ∧ db'.rpByUuid uuid = some { rp with gen := rp.gen + 1 } ∧
    db'.rps = bumpRps db.rps rp.id rp.gen ∧ db'.consumers = db.consumers

theorem bumpedOnce_of_cas {db db0 db' : DB R} {uuid : Nat} {rp : RpRow} (hrp : db.rpByUuid uuid = some rp)
    (hg : db0.gcore = db.gcore) (h : incRpGen db0 rp.id rp.gen = .ok db') : BumpedOnce db db' uuid := by
  obtain ⟨h1, h2, h3⟩ := bump_of_cas hrp hg h
  exact ⟨rp, hrp, h3, h1, h2⟩

theorem ok_false_of_400 {P : Prop} {r : Resp} (h : r.ok = true) (hs : 400 ≤ r.status) : P := by
  rw [not_ok_of_400 hs] at h; cases h

theorem hInvSet_bump {db : DB R} {mv uuid gen : Nat} {invs : List (InvSpec R)}
    (h : (hInvSet db mv uuid gen invs).2.ok = true) : BumpedOnce db (hInvSet db mv uuid gen invs).1 uuid := by
  rcases hInvSet_cases db mv uuid gen invs with ⟨rp, db', hrp, -, hset, hres⟩ | ⟨-, hst⟩
  · obtain ⟨db0, hg, hc⟩ := setInventory_ok hset
    rw [hres]; exact bumpedOnce_of_cas hrp hg hc
  · exact ok_false_of_400 h hst

theorem hInvAdd_bump {db : DB R} {mv uuid : Nat} {inv : InvSpec R}
    (h : (hInvAdd db mv uuid inv).2.ok = true) : BumpedOnce db (hInvAdd db mv uuid inv).1 uuid := by
  rcases hInvAdd_cases db mv uuid inv with ⟨rp, db', hrp, hset, hres⟩ | ⟨-, hst⟩
  · obtain ⟨db0, hg, hc⟩ := addInventory_ok hset
    rw [hres]; exact bumpedOnce_of_cas hrp hg hc
  · exact ok_false_of_400 h hst

theorem hInvUpdate_bump {db : DB R} {mv uuid gen : Nat} {inv : InvSpec R}
    (h : (hInvUpdate db mv uuid gen inv).2.ok = true) : BumpedOnce db (hInvUpdate db mv uuid gen inv).1 uuid := by
  rcases hInvUpdate_cases db mv uuid gen inv with ⟨rp, db', hrp, -, hset, hres⟩ | ⟨-, hst⟩
  · obtain ⟨db0, hg, hc⟩ := updateInventory_ok hset
    rw [hres]; exact bumpedOnce_of_cas hrp hg hc
  · exact ok_false_of_400 h hst

theorem hInvDelete_bump {db : DB R} {uuid rc : Nat}
    (h : (hInvDelete db uuid rc).2.ok = true) : BumpedOnce db (hInvDelete db uuid rc).1 uuid := by
  rcases hInvDelete_cases db uuid rc with ⟨rp, db', hrp, hset, hres⟩ | ⟨-, hst⟩
  · obtain ⟨db0, hg, hc⟩ := deleteInventory_ok hset
    rw [hres]; exact bumpedOnce_of_cas hrp hg hc
  · exact ok_false_of_400 h hst

theorem hInvDeleteAll_bump {db : DB R} {mv uuid : Nat}
    (h : (hInvDeleteAll db mv uuid).2.ok = true) : BumpedOnce db (hInvDeleteAll db mv uuid).1 uuid := by
  rcases hInvDeleteAll_cases db mv uuid with ⟨rp, db', hrp, hset, hres⟩ | ⟨-, hst⟩
  · obtain ⟨db0, hg, hc⟩ := setInventory_ok hset
    rw [hres]; exact bumpedOnce_of_cas hrp hg hc
  · exact ok_false_of_400 h hst

/-- `PUT /resource_providers/{u}/traits`: a changed set raises the generation by one, the same set
leaves the state alone -/
theorem hRpTraitsSet_bump {db : DB R} {uuid gen : Nat} {ts : List Nat}
    (h : (hRpTraitsSet db uuid gen ts).2.ok = true) :
    ∃ rp, db.rpByUuid uuid = some rp ∧
      ((∀ t, t ∈ ts ↔ t ∈ db.traitsOf rp.id) → (hRpTraitsSet db uuid gen ts).1 = db) ∧
      (¬ (∀ t, t ∈ ts ↔ t ∈ db.traitsOf rp.id) → BumpedOnce db (hRpTraitsSet db uuid gen ts).1 uuid) := by
  rcases hRpTraitsSet_cases db uuid gen ts with ⟨rp, db', hrp, -, hset, hres⟩ | ⟨-, hst⟩
  · refine ⟨rp, hrp, ?_, ?_⟩
    · intro hsame
      rcases setTraits_ok hset with ⟨-, rfl⟩ | ⟨hch, -⟩
      · rw [hres]
      · rw [(traitsUnchanged_iff db rp.id ts).mpr hsame] at hch; cases hch
    · intro hdiff
      rcases setTraits_ok hset with ⟨hun, -⟩ | ⟨-, db0, hg, hc⟩
      · exact absurd ((traitsUnchanged_iff db rp.id ts).mp hun) hdiff
      · rw [hres]; exact bumpedOnce_of_cas hrp hg hc
  · exact ok_false_of_400 h hst

theorem hRpTraitsDelete_bump {db : DB R} {uuid : Nat}
    (h : (hRpTraitsDelete db uuid).2.ok = true) :
    ∃ rp, db.rpByUuid uuid = some rp ∧
      (db.traitsOf rp.id = [] → (hRpTraitsDelete db uuid).1 = db) ∧
      (db.traitsOf rp.id ≠ [] → BumpedOnce db (hRpTraitsDelete db uuid).1 uuid) := by
  rcases hRpTraitsDelete_cases db uuid with ⟨rp, db', hrp, hset, hres⟩ | ⟨-, hst⟩
  · have hiff : (∀ t, t ∈ ([] : List Nat) ↔ t ∈ db.traitsOf rp.id) ↔ db.traitsOf rp.id = [] := by
      constructor
      · intro h; exact List.eq_nil_iff_forall_not_mem.mpr (fun t ht => by have := (h t).mpr ht; cases this)
      · intro h t; rw [h]
    refine ⟨rp, hrp, ?_, ?_⟩
    · intro hsame
      rcases setTraits_ok hset with ⟨-, rfl⟩ | ⟨hch, -⟩
      · rw [hres]
      · rw [(traitsUnchanged_iff db rp.id []).mpr (hiff.mpr hsame)] at hch; cases hch
    · intro hdiff
      rcases setTraits_ok hset with ⟨hun, -⟩ | ⟨-, db0, hg, hc⟩
      · exact absurd (hiff.mp ((traitsUnchanged_iff db rp.id []).mp hun)) hdiff
      · rw [hres]; exact bumpedOnce_of_cas hrp hg hc
  · exact ok_false_of_400 h hst

/-- `PUT /resource_providers/{u}/aggregates`: from 1.19 the generation goes up by one, below 1.19
providers and consumers are untouched -/
theorem hAggsSet_bump {db : DB R} {mv uuid : Nat} {gen : Option Nat} {aggs : List Nat}
    (h : (hAggsSet db mv uuid gen aggs).2.ok = true) :
    (19 ≤ mv → BumpedOnce db (hAggsSet db mv uuid gen aggs).1 uuid) ∧
    (mv < 19 → (hAggsSet db mv uuid gen aggs).1.rps = db.rps ∧
       (hAggsSet db mv uuid gen aggs).1.consumers = db.consumers) := by
  rcases hAggsSet_cases db mv uuid gen aggs with ⟨rp, db', hrp, -, hset, hres⟩ | ⟨-, hst⟩
  · constructor
    · intro hmv
      rcases setAggregates_ok hset with ⟨hf, -⟩ | ⟨-, db0, hg, hc⟩
      · simp at hf; omega
      · rw [hres]; exact bumpedOnce_of_cas hrp hg hc
    · intro hmv
      rcases setAggregates_ok hset with ⟨-, hg⟩ | ⟨ht, -⟩
      · rw [hres]; exact eq_of_gcore hg
      · simp at ht; omega
  · exact ok_false_of_400 h hst

end Placement.Gens
