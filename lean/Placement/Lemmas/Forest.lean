import Placement.Spec.Inv
/-
  C09, table level: the parent/root columns of the provider table.

  * `UniqId`, `ForestT`, `RootsT`: the invariants of `Spec/Inv.lean` as predicates of the row list
    (`Forest db ↔ ForestT db.rps` by unfolding).
  * `Desc t x y`: `y` is `x` or below `x`.  `subtree_eq_desc`: what `get_subtree` computes (model:
    `subtreeIds` with fuel = number of providers) is exactly the set of descendants.
  * preservation of `ForestT ∧ RootsT` by the three shapes of row update the code performs
    (`forest_reparent`/`roots_reparent`, `forest_unparent`/`roots_unparent`, append of a fresh row,
    removal of a childless row).
-/
namespace Placement.Hier
variable {R : Type}

/-- Capacity operations over `Nat` ratios (exact arithmetic); used by the `example`s that show the
hypotheses of the property theorems are satisfiable. -/
@[instance_reducible] def natCapOps : CapOps Nat where
  capLt a r n := decide (a * (r : Int) < n)
  capTrunc a r := a * (r : Int)

abbrev Tbl := List RpRow

def UniqId (t : Tbl) : Prop := ∀ a ∈ t, ∀ b ∈ t, a.id = b.id → a = b

theorem uniqId_of_nodup {t : Tbl} (h : (t.map (·.id)).Nodup) : UniqId t := by
  induction t with
  | nil => intro a ha; cases ha
  | cons c t ih =>
    rw [List.map_cons, List.nodup_cons] at h
    intro a ha b hb hab
    have hc : ∀ z ∈ t, z.id ≠ c.id := fun z hz he => h.1 (List.mem_map.mpr ⟨z, hz, he⟩)
    rcases List.mem_cons.mp ha with ha1 | ha1 <;> rcases List.mem_cons.mp hb with hb1 | hb1
    · rw [ha1, hb1]
    · rw [ha1] at hab; exact absurd hab.symm (hc b hb1)
    · rw [hb1] at hab; exact absurd hab (hc a ha1)
    · exact ih h.2 a ha1 b hb1 hab

def ForestT (t : Tbl) : Prop :=
  (∀ r ∈ t, ∀ p, r.parent = some p → ∃ q ∈ t, q.id = p) ∧
  ∃ rank : Nat → Nat, ∀ r ∈ t, ∀ p, r.parent = some p → rank p < rank r.id

def RootsT (t : Tbl) : Prop :=
  ∀ r ∈ t, (r.parent = none → r.root = r.id) ∧
           (∀ p, r.parent = some p → ∀ q ∈ t, q.id = p → r.root = q.root)

theorem forest_iff (db : DB R) : Forest db ↔ ForestT db.rps := Iff.rfl
theorem roots_iff (db : DB R) : Roots db ↔ RootsT db.rps := Iff.rfl

/-- `Desc t x y`: `y` is `x` itself or is reached from `x` by child links. -/
inductive Desc (t : Tbl) (x : Nat) : Nat → Prop
  | self : Desc t x x
  | child (r : RpRow) (p : Nat) : r ∈ t → r.parent = some p → Desc t x p → Desc t x r.id

/-- the same with the number of links -/
inductive DescN (t : Tbl) (x : Nat) : Nat → Nat → Prop
  | self : DescN t x 0 x
  | child (r : RpRow) (p n : Nat) : r ∈ t → r.parent = some p → DescN t x n p → DescN t x (n + 1) r.id

theorem DescN.desc {t : Tbl} {x n y} (h : DescN t x n y) : Desc t x y := by
  induction h with
  | self => exact .self
  | child r p n hm hp _ ih => exact .child r p hm hp ih

theorem Desc.descN {t : Tbl} {x y} (h : Desc t x y) : ∃ n, DescN t x n y := by
  induction h with
  | self => exact ⟨0, .self⟩
  | child r p hm hp _ ih => obtain ⟨n, hn⟩ := ih; exact ⟨n + 1, .child r p n hm hp hn⟩

theorem Desc.trans {t : Tbl} {x y z} (h1 : Desc t x y) (h2 : Desc t y z) : Desc t x z := by
  induction h2 with
  | self => exact h1
  | child r p hm hp _ ih => exact .child r p hm hp ih

theorem rank_desc {t : Tbl} {rank : Nat → Nat}
    (hr : ∀ r ∈ t, ∀ p, r.parent = some p → rank p < rank r.id) {x y} (h : Desc t x y) :
    rank x ≤ rank y := by
  induction h with
  | self => exact Nat.le_refl _
  | child r p hm hp _ ih => have := hr r hm p hp; omega

/-- a proper descendant's parent is again a descendant -/
theorem desc_parent {t : Tbl} (hu : UniqId t) {x : Nat} {r : RpRow} (hr : r ∈ t) (hx : r.id ≠ x)
    (hd : Desc t x r.id) {p} (hp : r.parent = some p) : Desc t x p := by
  generalize hy : r.id = y at hd
  cases hd with
  | self => exact absurd hy hx
  | child r2 p2 hm2 hp2 hd2 =>
    have : r2 = r := hu r2 hm2 r hr hy.symm
    subst this
    rw [hp] at hp2; cases hp2; exact hd2

/-- a descendant without parent is the top itself -/
theorem desc_noparent {t : Tbl} (hu : UniqId t) {x : Nat} {r : RpRow} (hr : r ∈ t)
    (hd : Desc t x r.id) (hp : r.parent = none) : r.id = x := by
  generalize hy : r.id = y at hd
  cases hd with
  | self => rfl
  | child r2 p2 hm2 hp2 _ =>
    have : r2 = r := hu r2 hm2 r hr hy.symm
    subst this; rw [hp] at hp2; cases hp2

/-- all rows below `me` carry `me`'s root -/
theorem desc_root {t : Tbl} (hu : UniqId t) (hF : ForestT t) (hR : RootsT t) {me : RpRow} (hme : me ∈ t)
    {y} (hd : Desc t me.id y) : ∀ r ∈ t, r.id = y → r.root = me.root := by
  induction hd with
  | self => intro r hr hid; rw [hu r hr me hme hid]
  | child r0 p hm hp _ ih =>
    intro r hr hid
    have : r = r0 := hu r hr r0 hm hid
    subst this
    obtain ⟨q, hq, hqid⟩ := hF.1 r hm p hp
    rw [(hR r hm).2 p hp q hq hqid]; exact ih q hq hqid

/-! ### `get_subtree` -/

theorem subtree_self (db : DB R) (root x : Nat) : ∀ fuel, x ∈ subtreeIds db root fuel x
  | 0 => by simp [subtreeIds]
  | _ + 1 => by simp [subtreeIds]

theorem subtree_sound (db : DB R) (root : Nat) : ∀ fuel x y, y ∈ subtreeIds db root fuel x → Desc db.rps x y
  | 0, x, y, h => by
    simp [subtreeIds] at h; subst h; exact .self
  | fuel + 1, x, y, h => by
    simp only [subtreeIds, List.mem_cons, List.mem_flatMap, List.mem_map, List.mem_filter] at h
    rcases h with rfl | ⟨cid, ⟨c, ⟨hc, hcond⟩, rfl⟩, hy⟩
    · exact .self
    · have hpar : c.parent = some x := by
        simp only [Bool.and_eq_true, beq_iff_eq] at hcond; exact hcond.2
      exact (Desc.child c x hc hpar .self).trans (subtree_sound db root fuel c.id y hy)

theorem subtree_mono (db : DB R) (root : Nat) : ∀ fuel x y, y ∈ subtreeIds db root fuel x →
    y ∈ subtreeIds db root (fuel + 1) x
  | 0, x, y, h => by
    simp [subtreeIds] at h; subst h; exact subtree_self db root y 1
  | fuel + 1, x, y, h => by
    rw [subtreeIds, List.mem_cons, List.mem_flatMap] at h
    rw [subtreeIds, List.mem_cons, List.mem_flatMap]
    rcases h with h | ⟨c, hc, hy⟩
    · exact .inl h
    · exact .inr ⟨c, hc, subtree_mono db root fuel c y hy⟩

theorem subtree_mono_le (db : DB R) (root : Nat) {n fuel x y} (hle : n ≤ fuel)
    (h : y ∈ subtreeIds db root n x) : y ∈ subtreeIds db root fuel x := by
  induction hle with
  | refl => exact h
  | step _ ih => exact subtree_mono db root _ x y ih

theorem subtree_step (db : DB R) (root : Nat) {r : RpRow} (hr : r ∈ db.rps) (hroot : r.root = root) :
    ∀ fuel x p, p ∈ subtreeIds db root fuel x → r.parent = some p →
      r.id ∈ subtreeIds db root (fuel + 1) x
  | 0, x, p, h, hp => by
    simp [subtreeIds] at h; subst h
    simp only [subtreeIds, List.mem_cons, List.mem_flatMap, List.mem_map, List.mem_filter]
    exact .inr ⟨r.id, ⟨r, ⟨hr, by simp [hroot, hp]⟩, rfl⟩, by simp⟩
  | fuel + 1, x, p, h, hp => by
    rw [subtreeIds, List.mem_cons, List.mem_flatMap] at h
    rw [subtreeIds, List.mem_cons, List.mem_flatMap]
    rcases h with h | ⟨c, hc, hy⟩
    · subst h
      refine .inr ⟨r.id, ?_, subtree_self db root r.id _⟩
      simp only [List.mem_map, List.mem_filter]
      exact ⟨r, ⟨hr, by simp [hroot, hp]⟩, rfl⟩
    · exact .inr ⟨c, hc, subtree_step db root hr hroot fuel c p hy hp⟩

theorem subtree_complete_n (db : DB R) (root x : Nat)
    (hroot : ∀ r ∈ db.rps, Desc db.rps x r.id → r.root = root) {n y} (h : DescN db.rps x n y) :
    y ∈ subtreeIds db root n x := by
  induction h with
  | self => exact subtree_self db root x 0
  | child r p n hm hp hd ih =>
    exact subtree_step db root hm (hroot r hm (.child r p hm hp hd.desc)) n x p ih hp

/-- a chain of `n` links visits `n + 1` different providers -/
theorem descN_chain {t : Tbl} {rank : Nat → Nat}
    (hr : ∀ r ∈ t, ∀ p, r.parent = some p → rank p < rank r.id) {x : Nat} (hx : x ∈ t.map (·.id))
    {n y} (h : DescN t x n y) :
    ∃ l : List Nat, l.length = n + 1 ∧ l.Nodup ∧ ∀ z ∈ l, z ∈ t.map (·.id) ∧ rank z ≤ rank y := by
  induction h with
  | self => exact ⟨[x], rfl, by simp, fun z hz => by rw [List.mem_singleton.mp hz]; exact ⟨hx, Nat.le_refl _⟩⟩
  | child r p n hm hp _ ih =>
    obtain ⟨l, hlen, hnd, hall⟩ := ih
    have hlt := hr r hm p hp
    refine ⟨r.id :: l, by simp [hlen], ?_, ?_⟩
    · rw [List.nodup_cons]
      refine ⟨fun hmem => ?_, hnd⟩
      have := (hall _ hmem).2; omega
    · intro z hz
      rcases List.mem_cons.mp hz with rfl | hz
      · exact ⟨List.mem_map.mpr ⟨r, hm, rfl⟩, Nat.le_refl _⟩
      · exact ⟨(hall z hz).1, by have := (hall z hz).2; omega⟩

theorem descN_bound {t : Tbl} (hF : ForestT t) {x : Nat} (hx : x ∈ t.map (·.id)) {n y}
    (h : DescN t x n y) : n + 1 ≤ t.length := by
  obtain ⟨_, rank, hr⟩ := hF
  obtain ⟨l, hlen, hnd, hall⟩ := descN_chain hr hx h
  have := hnd.length_le_of_subset (l₂ := t.map (·.id)) (fun z hz => (hall z hz).1)
  simp only [List.length_map] at this
  omega

/-- `get_subtree` of a provider = the provider and everything below it. -/
theorem subtree_eq_desc (db : DB R) (hu : UniqId db.rps) (hF : ForestT db.rps) (hR : RootsT db.rps)
    {me : RpRow} (hme : me ∈ db.rps) (y : Nat) :
    y ∈ subtreeIds db me.root db.rps.length me.id ↔ Desc db.rps me.id y := by
  constructor
  · exact subtree_sound db me.root _ _ _
  · intro hd
    obtain ⟨n, hn⟩ := hd.descN
    have hb := descN_bound hF (List.mem_map.mpr ⟨me, hme, rfl⟩) hn
    refine subtree_mono_le db me.root (by omega) (subtree_complete_n db me.root me.id ?_ hn)
    intro r hr hdr
    exact desc_root hu hF hR hme hdr r hr rfl

/-! ### the row update of `_update_in_db` -/

/-- the provider `x` gets name, parent and root; every other row listed by `inSub` gets the root -/
def upd (x name : Nat) (np : Option Nat) (nr : Nat) (inSub : Nat → Bool) (r : RpRow) : RpRow :=
  if r.id = x then { r with name := name, parent := np, root := nr }
  else if inSub r.id then { r with root := nr } else r

@[simp] theorem upd_id (x name np nr inSub r) : (upd x name np nr inSub r).id = r.id := by
  unfold upd; split
  · rfl
  · split <;> rfl

@[simp] theorem upd_gen (x name np nr inSub r) : (upd x name np nr inSub r).gen = r.gen := by
  unfold upd; split
  · rfl
  · split <;> rfl

@[simp] theorem upd_uuid (x name np nr inSub r) : (upd x name np nr inSub r).uuid = r.uuid := by
  unfold upd; split
  · rfl
  · split <;> rfl

theorem upd_parent_x {x name np nr inSub} {r : RpRow} (h : r.id = x) :
    (upd x name np nr inSub r).parent = np := by
  unfold upd; simp [h]

theorem upd_parent_ne {x name np nr inSub} {r : RpRow} (h : r.id ≠ x) :
    (upd x name np nr inSub r).parent = r.parent := by
  unfold upd; simp only [h, ↓reduceIte]; split <;> rfl

theorem upd_root_sub {x name np nr inSub} {r : RpRow} (h : r.id = x ∨ inSub r.id = true) :
    (upd x name np nr inSub r).root = nr := by
  unfold upd; by_cases hx : r.id = x
  · simp [hx]
  · rcases h with h | h
    · exact absurd h hx
    · simp [hx, h]

theorem upd_root_out {x name np nr inSub} {r : RpRow} (hx : r.id ≠ x) (h : inSub r.id = false) :
    (upd x name np nr inSub r).root = r.root := by
  unfold upd; simp [hx, h]

theorem mem_map_upd {t : Tbl} {x name np nr inSub} {r' : RpRow} (h : r' ∈ t.map (upd x name np nr inSub)) :
    ∃ r ∈ t, r' = upd x name np nr inSub r := by
  obtain ⟨r, hr, rfl⟩ := List.mem_map.mp h
  exact ⟨r, hr, rfl⟩

theorem map_upd_mem {t : Tbl} {x name np nr inSub} {r : RpRow} (h : r ∈ t) :
    upd x name np nr inSub r ∈ t.map (upd x name np nr inSub) :=
  List.mem_map.mpr ⟨r, h, rfl⟩

private theorem notin_of_not {inSub : Nat → Bool} {P : Nat → Prop} (hsub : ∀ y, inSub y = true ↔ P y)
    {q} (h : ¬ P q) : inSub q = false := by
  cases hq : inSub q with
  | false => rfl
  | true => exact absurd ((hsub q).mp hq) h

/-- Moving `x` (with everything below it) under `q`, which is not below `x`, keeps a forest. -/
theorem forest_reparent (t : Tbl) (x name q nr : Nat) (inSub : Nat → Bool)
    (hu : UniqId t) (hsub : ∀ y, inSub y = true ↔ Desc t x y)
    (hF : ForestT t) (hq : ∃ r ∈ t, r.id = q) (hnot : ¬ Desc t x q) :
    ForestT (t.map (upd x name (some q) nr inSub)) := by
  obtain ⟨hpar, rank, hrank⟩ := hF
  have hqn : inSub q = false := notin_of_not hsub hnot
  constructor
  · intro r' hr' p hp
    obtain ⟨r, hr, rfl⟩ := mem_map_upd hr'
    by_cases hx : r.id = x
    · rw [upd_parent_x hx] at hp; cases hp
      obtain ⟨rq, hrq, hrqid⟩ := hq
      exact ⟨_, map_upd_mem hrq, by simpa using hrqid⟩
    · rw [upd_parent_ne hx] at hp
      obtain ⟨rp, hrp, hrpid⟩ := hpar r hr p hp
      exact ⟨_, map_upd_mem hrp, by simpa using hrpid⟩
  · refine ⟨fun y => if inSub y then rank q + 1 + (rank y - rank x) else rank y, ?_⟩
    intro r' hr' p hp
    obtain ⟨r, hr, rfl⟩ := mem_map_upd hr'
    simp only [upd_id]
    by_cases hx : r.id = x
    · rw [upd_parent_x hx] at hp; cases hp
      have hxin : inSub r.id = true := by rw [hx]; exact (hsub x).mpr .self
      simp only [hqn, hxin, ↓reduceIte, Bool.false_eq_true]; omega
    · rw [upd_parent_ne hx] at hp
      have hlt := hrank r hr p hp
      cases hin : inSub r.id with
      | true =>
        have hpin : inSub p = true := (hsub p).mpr (desc_parent hu hr hx ((hsub r.id).mp hin) hp)
        simp only [hpin, ↓reduceIte]
        have h1 := rank_desc hrank ((hsub p).mp hpin)
        omega
      | false =>
        have hpout : inSub p = false := by
          cases h : inSub p with
          | false => rfl
          | true =>
            have := (hsub r.id).mpr (Desc.child r p hr hp ((hsub p).mp h))
            rw [hin] at this; cases this
        simp only [hpout, Bool.false_eq_true, ↓reduceIte]; exact hlt

/-- ... and every row of the moved subtree gets the new parent's root. -/
theorem roots_reparent (t : Tbl) (x name q : Nat) (inSub : Nat → Bool) (rq : RpRow)
    (hu : UniqId t) (hsub : ∀ y, inSub y = true ↔ Desc t x y)
    (hR : RootsT t) (hrq : rq ∈ t) (hrqid : rq.id = q) (hnot : ¬ Desc t x q) :
    RootsT (t.map (upd x name (some q) rq.root inSub)) := by
  have hqn : inSub q = false := notin_of_not hsub hnot
  have hqx : q ≠ x := fun h => hnot (h ▸ .self)
  intro r' hr'
  obtain ⟨r, hr, rfl⟩ := mem_map_upd hr'
  constructor
  · intro hnone
    by_cases hx : r.id = x
    · rw [upd_parent_x hx] at hnone; cases hnone
    · rw [upd_parent_ne hx] at hnone
      have hout : inSub r.id = false := by
        cases h : inSub r.id with
        | false => rfl
        | true => exact absurd (desc_noparent hu hr ((hsub r.id).mp h) hnone) hx
      rw [upd_root_out hx hout]; simpa using (hR r hr).1 hnone
  · intro p hp q' hq' hq'id
    obtain ⟨rp, hrp, rfl⟩ := mem_map_upd hq'
    simp only [upd_id] at hq'id
    by_cases hx : r.id = x
    · rw [upd_parent_x hx] at hp; cases hp
      have : rp = rq := hu rp hrp rq hrq (by rw [hq'id, hrqid])
      subst this
      rw [upd_root_sub (Or.inl hx), upd_root_out (by rw [hrqid]; exact hqx) (by rw [hrqid]; exact hqn)]
    · rw [upd_parent_ne hx] at hp
      cases hin : inSub r.id with
      | true =>
        have hpd := desc_parent hu hr hx ((hsub r.id).mp hin) hp
        have hpin : rp.id = x ∨ inSub rp.id = true := Or.inr (by rw [hq'id]; exact (hsub p).mpr hpd)
        rw [upd_root_sub (Or.inr hin), upd_root_sub hpin]
      | false =>
        have hpout : inSub p = false := by
          cases h : inSub p with
          | false => rfl
          | true =>
            have := (hsub r.id).mpr (Desc.child r p hr hp ((hsub p).mp h))
            rw [hin] at this; cases this
        have hpx : rp.id ≠ x := by
          intro h; rw [hq'id] at h
          have := (hsub p).mpr (h ▸ Desc.self); rw [hpout] at this; cases this
        rw [upd_root_out hx hin, upd_root_out hpx (by rw [hq'id]; exact hpout)]
        exact (hR r hr).2 p hp rp hrp hq'id

/-- Detaching `x` (1.37): it becomes a root, the parent links below it stay. -/
theorem forest_unparent (t : Tbl) (x name nr : Nat) (inSub : Nat → Bool) (hF : ForestT t) :
    ForestT (t.map (upd x name none nr inSub)) := by
  obtain ⟨hpar, rank, hrank⟩ := hF
  constructor
  · intro r' hr' p hp
    obtain ⟨r, hr, rfl⟩ := mem_map_upd hr'
    by_cases hx : r.id = x
    · rw [upd_parent_x hx] at hp; cases hp
    · rw [upd_parent_ne hx] at hp
      obtain ⟨rp, hrp, hrpid⟩ := hpar r hr p hp
      exact ⟨_, map_upd_mem hrp, by simpa using hrpid⟩
  · refine ⟨rank, ?_⟩
    intro r' hr' p hp
    obtain ⟨r, hr, rfl⟩ := mem_map_upd hr'
    simp only [upd_id]
    by_cases hx : r.id = x
    · rw [upd_parent_x hx] at hp; cases hp
    · rw [upd_parent_ne hx] at hp; exact hrank r hr p hp

/-- ... and `x` is the root of everything below it. -/
theorem roots_unparent (t : Tbl) (x name : Nat) (inSub : Nat → Bool)
    (hu : UniqId t) (hsub : ∀ y, inSub y = true ↔ Desc t x y) (hR : RootsT t) :
    RootsT (t.map (upd x name none x inSub)) := by
  intro r' hr'
  obtain ⟨r, hr, rfl⟩ := mem_map_upd hr'
  constructor
  · intro hnone
    by_cases hx : r.id = x
    · rw [upd_root_sub (Or.inl hx)]; simp [hx]
    · rw [upd_parent_ne hx] at hnone
      have hout : inSub r.id = false := by
        cases h : inSub r.id with
        | false => rfl
        | true => exact absurd (desc_noparent hu hr ((hsub r.id).mp h) hnone) hx
      rw [upd_root_out hx hout]; simpa using (hR r hr).1 hnone
  · intro p hp q' hq' hq'id
    obtain ⟨rp, hrp, rfl⟩ := mem_map_upd hq'
    simp only [upd_id] at hq'id
    by_cases hx : r.id = x
    · rw [upd_parent_x hx] at hp; cases hp
    · rw [upd_parent_ne hx] at hp
      cases hin : inSub r.id with
      | true =>
        have hpd := desc_parent hu hr hx ((hsub r.id).mp hin) hp
        have hpin : rp.id = x ∨ inSub rp.id = true := Or.inr (by rw [hq'id]; exact (hsub p).mpr hpd)
        rw [upd_root_sub (Or.inr hin), upd_root_sub hpin]
      | false =>
        have hpout : inSub p = false := by
          cases h : inSub p with
          | false => rfl
          | true =>
            have := (hsub r.id).mpr (Desc.child r p hr hp ((hsub p).mp h))
            rw [hin] at this; cases this
        have hpx : rp.id ≠ x := by
          intro h; rw [hq'id] at h
          have := (hsub p).mpr (h ▸ Desc.self); rw [hpout] at this; cases this
        rw [upd_root_out hx hin, upd_root_out hpx (by rw [hq'id]; exact hpout)]
        exact (hR r hr).2 p hp rp hrp hq'id

/-! ### rows that differ only in columns the invariants do not read -/

/-- the columns `Forest`, `Roots` and id-uniqueness read -/
def shape (r : RpRow) : Nat × Option Nat × Nat := (r.id, r.parent, r.root)

theorem shape_mem {t t' : Tbl} (h : t'.map shape = t.map shape) {r' : RpRow} (hr' : r' ∈ t') :
    ∃ r ∈ t, r.id = r'.id ∧ r.parent = r'.parent ∧ r.root = r'.root := by
  have : shape r' ∈ t.map shape := h ▸ List.mem_map.mpr ⟨r', hr', rfl⟩
  obtain ⟨r, hr, hs⟩ := List.mem_map.mp this
  simp only [shape, Prod.mk.injEq] at hs
  exact ⟨r, hr, hs⟩

theorem forest_of_shape {t t' : Tbl} (h : t'.map shape = t.map shape) (hF : ForestT t) :
    ForestT t' := by
  obtain ⟨hpar, rank, hrank⟩ := hF
  constructor
  · intro r' hr' p hp
    obtain ⟨r, hr, hid, hpa, _⟩ := shape_mem h hr'
    obtain ⟨q, hq, hqid⟩ := hpar r hr p (hpa ▸ hp)
    obtain ⟨q', hq', hid', _⟩ := shape_mem h.symm hq
    exact ⟨q', hq', by rw [hid', hqid]⟩
  · refine ⟨rank, ?_⟩
    intro r' hr' p hp
    obtain ⟨r, hr, hid, hpa, _⟩ := shape_mem h hr'
    rw [← hid]; exact hrank r hr p (hpa ▸ hp)

theorem roots_of_shape {t t' : Tbl} (h : t'.map shape = t.map shape) (hR : RootsT t) :
    RootsT t' := by
  intro r' hr'
  obtain ⟨r, hr, hid, hpa, hro⟩ := shape_mem h hr'
  constructor
  · intro hn; rw [← hro, ← hid]; exact (hR r hr).1 (hpa ▸ hn)
  · intro p hp q' hq' hq'id
    obtain ⟨q, hq, hqid, _, hqro⟩ := shape_mem h hq'
    rw [← hro, ← hqro]
    exact (hR r hr).2 p (hpa ▸ hp) q hq (by rw [hqid, hq'id])

/-! ### a new row with a fresh id; removal of a childless row -/

theorem forest_append (t : Tbl) (row : RpRow) (hfresh : ∀ r ∈ t, r.id ≠ row.id) (hF : ForestT t)
    (hp : ∀ p, row.parent = some p → ∃ q ∈ t, q.id = p) : ForestT (t ++ [row]) := by
  obtain ⟨hpar, rank, hrank⟩ := hF
  constructor
  · intro r hr0 p hrp
    rcases List.mem_append.mp hr0 with hr | hr
    · obtain ⟨q, hq, hqid⟩ := hpar r hr p hrp
      exact ⟨q, List.mem_append_left _ hq, hqid⟩
    · rw [List.mem_singleton.mp hr] at hrp
      obtain ⟨q, hq, hqid⟩ := hp p hrp
      exact ⟨q, List.mem_append_left _ hq, hqid⟩
  · refine ⟨fun y => if y = row.id then (match row.parent with | some p => rank p + 1 | none => 0) else rank y, ?_⟩
    intro r hr0 p hrp
    rcases List.mem_append.mp hr0 with hr | hr
    · obtain ⟨q, hq, hqid⟩ := hpar r hr p hrp
      have h1 : r.id ≠ row.id := hfresh r hr
      have h2 : p ≠ row.id := hqid ▸ hfresh q hq
      simp only [h1, h2, ↓reduceIte]; exact hrank r hr p hrp
    · rw [List.mem_singleton.mp hr] at hrp ⊢
      obtain ⟨q, hq, hqid⟩ := hp p hrp
      have h2 : p ≠ row.id := hqid ▸ hfresh q hq
      simp only [h2, ↓reduceIte, hrp]; omega

theorem roots_append (t : Tbl) (row : RpRow) (hfresh : ∀ r ∈ t, r.id ≠ row.id) (hF : ForestT t)
    (hR : RootsT t) (hu : UniqId t)
    (hn : row.parent = none → row.root = row.id)
    (hp : ∀ p, row.parent = some p → ∃ q ∈ t, q.id = p ∧ row.root = q.root) : RootsT (t ++ [row]) := by
  intro r hr0
  rcases List.mem_append.mp hr0 with hr | hr
  · refine ⟨(hR r hr).1, ?_⟩
    intro p hrp q hq0 hqid
    rcases List.mem_append.mp hq0 with hq | hq
    · exact (hR r hr).2 p hrp q hq hqid
    · rw [List.mem_singleton.mp hq] at hqid
      obtain ⟨q', hq', hq'id⟩ := hF.1 r hr p hrp
      exact absurd (hq'id.trans hqid.symm) (hfresh q' hq')
  · rw [List.mem_singleton.mp hr]
    refine ⟨hn, ?_⟩
    intro p hrp q hq0 hqid
    obtain ⟨q0, hq0m, hq0id, hroot⟩ := hp p hrp
    rcases List.mem_append.mp hq0 with hq | hq
    · rw [hu q hq q0 hq0m (hqid.trans hq0id.symm)]; exact hroot
    · rw [List.mem_singleton.mp hq] at hqid
      exact absurd (hq0id.trans hqid.symm) (hfresh q0 hq0m)

theorem forest_remove (t : Tbl) (x : Nat) (hnc : ∀ r ∈ t, r.parent ≠ some x) (hF : ForestT t) :
    ForestT (t.filter (·.id != x)) := by
  obtain ⟨hpar, rank, hrank⟩ := hF
  constructor
  · intro r hr p hp
    have hr := (List.mem_filter.mp hr).1
    obtain ⟨q, hq, hqid⟩ := hpar r hr p hp
    refine ⟨q, List.mem_filter.mpr ⟨hq, ?_⟩, hqid⟩
    have : p ≠ x := fun h => hnc r hr (h ▸ hp)
    simp [hqid, this]
  · exact ⟨rank, fun r hr p hp => hrank r (List.mem_filter.mp hr).1 p hp⟩

theorem roots_remove (t : Tbl) (x : Nat) (hR : RootsT t) : RootsT (t.filter (·.id != x)) := by
  intro r hr
  have hr := (List.mem_filter.mp hr).1
  exact ⟨(hR r hr).1, fun p hp q hq hqid => (hR r hr).2 p hp q (List.mem_filter.mp hq).1 hqid⟩

end Placement.Hier
