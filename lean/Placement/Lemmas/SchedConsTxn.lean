import Placement.Lemmas.SchedCons
import Placement.Lemmas.WfBase
/-
  Commit structure of the allocation-writing requests (PUT /allocations/{c}, POST /allocations,
  POST /reshaper) with respect to ONE consumer `cu` that exists (internal id `c0`) and for which the
  request carries generation `g` with a non-empty allocations entry:

  every path to a 2xx answer runs the main write transaction on a state in which consumer `c0` has
  generation `g` (compare-and-swap of `Consumer.increment_generation`), and leaves the consumer gone
  or beyond `g`  (`allocProg_commits`).

  The environment condition `WCons`: ids are unique, the uuid `cu` belongs to the row with id `c0`
  and to no other, for good (`WCons.evo`: no request of the pool may create consumer `cu`).
-/
namespace Placement.Sched
open Placement Placement.Gens Placement.Hier
variable {R : Type} [CapOps R]
set_option linter.unusedSectionVars false

/-- ids are unique; `c0` has been handed out; the consumer rows with uuid `cu` are those with id `c0` -/
def WCons (cu c0 : Nat) (s : DB R) : Prop :=
  Ids s.gcore ∧ c0 < s.nextCons ∧ ∀ r ∈ s.consumers, (r.uuid = cu ↔ r.id = c0)

theorem WCons.evo {N : Nat → Prop} {cu c0 : Nat} (hN : ¬ N cu) {s s' : DB R} (q : QEvo N s s')
    (h : WCons cu c0 s) : WCons cu c0 s' := by
  obtain ⟨hI, hc, hu⟩ := h
  have e := q hI
  refine ⟨e.ids, nextCons_evoG e hc, ?_⟩
  intro r' hr'
  rcases e.consU r' hr' with ⟨hge, hn⟩ | ⟨r, hr, hid, huu⟩
  · have h1 : r'.uuid ≠ cu := fun e => hN (e ▸ hn)
    have h2 : r'.id ≠ c0 := by
      have : s.nextCons ≤ r'.id := hge
      omega
    exact ⟨fun e => absurd e h1, fun e => absurd e h2⟩
  · rw [← hid, ← huu]; exact hu r hr

theorem WCons.find {cu c0 : Nat} {s : DB R} (h : WCons cu c0 s) {u : Nat} {cons : ConsRow}
    (hf : s.consByUuid u = some cons) :
    cons.uuid = u ∧ (u = cu → cons.id = c0) ∧ (u ≠ cu → cons.id ≠ c0) := by
  have hm : cons ∈ s.consumers := List.mem_of_find?_eq_some hf
  have hu : cons.uuid = u := by simpa using List.find?_some hf
  have := h.2.2 cons hm
  refine ⟨hu, fun e => this.mp (hu.trans e), fun e hid => e (hu.symm.trans (this.mpr hid))⟩

section fixed
variable {cu c0 g : Nat}

/-- the commit notion of this file -/
abbrev CM (cu c0 g : Nat) (p : P R) : Prop :=
  Commits (WCons cu c0) okR (ConsAt (R := R) c0 g) (fun _ s' => ConsPast c0 g s') p

/-- the consumer record a request holds for entry `c` -/
def ConsOk (cu c0 g : Nat) (c : ConsumerReq) (cons : ConsRow) : Prop :=
  cons.uuid = c.uuid ∧ (c.uuid = cu → cons.id = c0 ∧ cons.gen = g) ∧ (c.uuid ≠ cu → cons.id ≠ c0)

/-- an entry of the request's `done` list -/
def EntryOk (cu c0 g : Nat) (t : ConsumerReq × ConsRow × ReqAttr) : Prop :=
  ConsOk cu c0 g t.1 t.2.1 ∧ (t.1.uuid = cu → t.1.allocs.isEmpty = false)

/-- what the request says about consumer `cu`: generation `g`, a non-empty entry -/
def ReqOk (cu g : Nat) (c : ConsumerReq) : Prop := c.uuid = cu → c.gen = some g ∧ c.allocs.isEmpty = false

/-! ### answers after a failure -/

theorem aCleanup_cm (r : Resp) (hr : ¬ okR r) : ∀ ids : List Nat, CM cu c0 g (.txn .cleanup (aCleanup (R := R) r ids))
  | [] => Commits.txn' _ _ (fun _ _ => .inl (.done r hr))
  | [_] => Commits.txn' _ _ (fun _ _ => .inl (.done r hr))
  | _ :: id' :: rest => Commits.txn' _ _ (fun _ _ => .inl (aCleanup_cm r hr (id' :: rest)))

theorem cleanupThen_cm (ids : List Nat) (r : Resp) (hr : ¬ okR r) : CM cu c0 g (cleanupThen (R := R) ids r) := by
  unfold cleanupThen
  split
  · exact .done r hr
  · exact aCleanup_cm r hr ids

theorem allocErr_not_ok (e : Exc) : ¬ okR (allocErr e) := by cases e <;> decide
theorem reshapeErr_not_ok (e : Exc) : ¬ okR (reshapeErr e) := by cases e <;> decide

theorem aErr_not_ok (ctx : ACtx R) (e : Exc) : ¬ okR (aErr ctx e) := by
  unfold aErr
  split
  · exact reshapeErr_not_ok e
  · exact allocErr_not_ok e

/-! ### the main transaction -/

theorem aMain_cm (ctx : ACtx R) (objs : List AllocReq) (hobjs : ObjsFor c0 g objs) :
    CM cu c0 g (.txn .main (aMain ctx objs)) :=
  Commits.txn' _ _ (fun s hw => by
    obtain ⟨hI, hc, -⟩ := hw
    unfold aMain
    dsimp only
    have f1 := updateConsumers_evo (N := fun _ => True) ctx.done s hI
    have s1 := updateConsumers_sameCG ctx.done s
    have hc1 := nextCons_evoG f1 hc
    split
    · rename_i db3 h
      refine .inr ?_
      have key : ConsAt c0 g (updateConsumers s ctx.done) ∧ ConsPast c0 g db3 ∧ c0 < db3.nextCons := by
        split at h
        · obtain ⟨h1, h2⟩ := reshapeTxnR_cons h f1.ids hc1 hobjs
          exact ⟨h1, h2, nextCons_evoG (reshapeTxnR_evo (N := fun _ => True) h f1.ids) hc1⟩
        · obtain ⟨h1, h2⟩ := replaceAll_cons _ _ _ _ h f1.ids hc1 hobjs
          exact ⟨h1, h2, nextCons_evoG (replaceAll_evo (N := fun _ => True) _ _ _ _ h f1.ids) hc1⟩
      obtain ⟨k1, k2, k3⟩ := key
      refine ⟨(s1 c0 g).mpr k1, ?_⟩
      intro r' hr' hid
      exact k2 r' (List.mem_filter.mp hr').1 hid
    · exact .inl (cleanupThen_cm _ _ (aErr_not_ok ctx _)))

/-! ### building the allocation objects -/

theorem aGetRps_cm (created : List Nat) (k : List RpRow → P R) (us0 : List Nat)
    (hk : ∀ rows, (∀ u ∈ us0, ∃ r ∈ rows, r.uuid = u) → CM cu c0 g (k rows)) :
    ∀ (us : List Nat) (rows : List RpRow), (∀ u ∈ us0, u ∈ us ∨ ∃ r ∈ rows, r.uuid = u) →
      CM cu c0 g (.txn .getRp (aGetRps created k us rows))
  | [], rows, h => Commits.txn' _ _ (fun s _ => .inl (by
      simp only [aGetRps]
      exact hk rows (fun u hu => (h u hu).resolve_left (by simp))))
  | [u], rows, h => Commits.txn' _ _ (fun s _ => .inl (by
      simp only [aGetRps]
      split
      · exact cleanupThen_cm _ _ (by decide)
      · rename_i rp hrp
        have hu : rp.uuid = u := by simpa using List.find?_some hrp
        refine hk _ (fun u' hu' => ?_)
        rcases h u' hu' with h1 | ⟨r, hr, e⟩
        · rw [List.mem_singleton.mp h1]; exact ⟨rp, by simp, hu⟩
        · exact ⟨r, List.mem_append_left _ hr, e⟩))
  | u :: u' :: us, rows, h => Commits.txn' _ _ (fun s _ => .inl (by
      simp only [aGetRps]
      split
      · exact cleanupThen_cm _ _ (by decide)
      · rename_i rp hrp
        have hu : rp.uuid = u := by simpa using List.find?_some hrp
        refine aGetRps_cm created k us0 hk (u' :: us) _ (fun x hx => ?_)
        rcases h x hx with h1 | ⟨r, hr, e⟩
        · rcases List.mem_cons.mp h1 with e | h2
          · exact .inr ⟨rp, by simp, hu.trans e.symm⟩
          · exact .inl h2
        · exact .inr ⟨r, List.mem_append_left _ hr, e⟩))

/-- the objects built for one non-empty entry carry the consumer record the request holds -/
theorem allocReqsOf_cons (c : ConsumerReq) (cons : ConsRow) (rows : List RpRow) :
    ∀ o ∈ allocReqsOf c cons rows, o.consId = cons.id ∧ o.consGen = cons.gen := by
  intro o ho
  unfold allocReqsOf at ho
  obtain ⟨a, -, ha⟩ := List.mem_filterMap.mp ho
  cases hf : rows.find? (·.uuid == a.1) with
  | none => rw [hf] at ha; cases ha
  | some rp => rw [hf] at ha; cases ha; exact ⟨rfl, rfl⟩

theorem allocReqsOf_ne (c : ConsumerReq) (cons : ConsRow) (rows : List RpRow) (hne : c.allocs.isEmpty = false)
    (hcov : ∀ u ∈ (c.allocs.map (·.1)).eraseDups, ∃ r ∈ rows, r.uuid = u) : ∃ o, o ∈ allocReqsOf c cons rows := by
  cases hl : c.allocs with
  | nil => rw [hl] at hne; cases hne
  | cons a as =>
    obtain ⟨r, hr, hu⟩ := hcov a.1 (List.mem_eraseDups.mpr (by rw [hl]; simp))
    cases hf : rows.find? (·.uuid == a.1) with
    | none =>
      have := List.find?_eq_none.mp hf r hr
      simp [hu] at this
    | some rp =>
      exact ⟨_, by
        unfold allocReqsOf
        rw [hl]
        exact List.mem_filterMap.mpr ⟨a, List.mem_cons_self, by rw [hf]; rfl⟩⟩

theorem clearReqsOf_cons (s : DB R) (cons : ConsRow) :
    ∀ o ∈ clearReqsOf s cons, o.consId = cons.id ∧ o.consGen = cons.gen := by
  intro o ho
  unfold clearReqsOf at ho
  split at ho
  · cases ho
  · obtain ⟨a, -, ha⟩ := List.mem_filterMap.mp ho
    split at ha
    · cases ha; exact ⟨rfl, rfl⟩
    · cases ha

theorem aBuildNext_cm (ctx : ACtx R) : ∀ (l : List (ConsumerReq × ConsRow × ReqAttr)) (objs : List AllocReq),
    (∀ t ∈ l, EntryOk cu c0 g t) → (∀ o ∈ objs, o.consId = c0 → o.consGen = g) →
    ((∃ o ∈ objs, o.consId = c0) ∨ (∃ t ∈ l, t.1.uuid = cu)) → CM cu c0 g (aBuildNext ctx l objs)
  | [], objs, _, ho, hex => by
    unfold aBuildNext
    exact aMain_cm ctx objs ⟨hex.resolve_right (by simp), ho⟩
  | (c, cons, attr) :: rest, objs, hl, ho, hex => by
    have hhead := hl (c, cons, attr) List.mem_cons_self
    have hrest : ∀ t ∈ rest, EntryOk cu c0 g t := fun t ht => hl t (List.mem_cons_of_mem _ ht)
    unfold aBuildNext
    split
    · rename_i hemp
      have hne : c.uuid ≠ cu := fun e => by
        have := hhead.2 e
        simp only at this
        rw [hemp] at this; cases this
      refine Commits.txn' _ _ (fun s hw => .inl ?_)
      unfold aGetAllocs
      refine aBuildNext_cm ctx rest _ hrest ?_ ?_
      · intro o hmem hid
        rcases List.mem_append.mp hmem with h1 | h1
        · exact ho o h1 hid
        · exact absurd ((clearReqsOf_cons s cons o h1).1.symm.trans hid) (hhead.1.2.2 hne)
      · rcases hex with ⟨o, hmem, hid⟩ | ⟨t, ht, hu⟩
        · exact .inl ⟨o, List.mem_append_left _ hmem, hid⟩
        · rcases List.mem_cons.mp ht with e | ht'
          · subst e; exact absurd hu hne
          · exact .inr ⟨t, ht', hu⟩
    · rename_i hemp
      have hemp' : c.allocs.isEmpty = false := by simpa using hemp
      refine aGetRps_cm _ _ ((c.allocs.map (·.1)).eraseDups) (fun rows hcov => ?_) _ _ (fun u hu => .inl hu)
      refine aBuildNext_cm ctx rest _ hrest ?_ ?_
      · intro o hmem hid
        rcases List.mem_append.mp hmem with h1 | h1
        · exact ho o h1 hid
        · obtain ⟨e1, e2⟩ := allocReqsOf_cons c cons rows o h1
          by_cases hc : c.uuid = cu
          · rw [e2]; exact (hhead.1.2.1 hc).2
          · exact absurd (e1.symm.trans hid) (hhead.1.2.2 hc)
      · by_cases hc : c.uuid = cu
        · obtain ⟨o, hmem⟩ := allocReqsOf_ne c cons rows hemp' hcov
          exact .inl ⟨o, List.mem_append_right _ hmem,
            (allocReqsOf_cons c cons rows o hmem).1.trans (hhead.1.2.1 hc).1⟩
        · rcases hex with ⟨o, hmem, hid⟩ | ⟨t, ht, hu⟩
          · exact .inl ⟨o, List.mem_append_left _ hmem, hid⟩
          · rcases List.mem_cons.mp ht with e | ht'
            · subst e; exact absurd hu hc
            · exact .inr ⟨t, ht', hu⟩

/-! ### `ensure_consumer` -/

/-- `ctx'` is `ctx` after entry `c` has been recorded with a consumer record that fits -/
def Ext (cu c0 g : Nat) (ctx : ACtx R) (c : ConsumerReq) (ctx' : ACtx R) : Prop :=
  ctx'.mv = ctx.mv ∧ ∃ cons attr, ctx'.done = ctx.done ++ [(c, cons, attr)] ∧ ConsOk cu c0 g c cons

section ensure
variable (ctx : ACtx R) (c : ConsumerReq) (k : ACtx R → P R)
  (hk : ∀ ctx' : ACtx R, Ext cu c0 g ctx c ctx' → CM cu c0 g (k ctx'))
include hk

theorem aAdoptUpdate_cm (cons : ConsRow) (t : Option Nat) (hcons : ConsOk cu c0 g c cons) :
    CM cu c0 g (.txn .updateConsumer (aAdoptUpdate ctx c cons t k)) :=
  Commits.txn' _ _ (fun _ _ => .inl (hk _ ⟨rfl, _, _, rfl, hcons⟩))

theorem aAdopt_cm (t : Option Nat) (hne : c.uuid ≠ cu) : CM cu c0 g (.txn .getConsumer (aAdopt ctx c t k)) :=
  Commits.txn' _ _ (fun s hw => .inl (by
    unfold aAdopt
    dsimp only
    split
    · exact cleanupThen_cm _ _ (by decide)
    · rename_i cons hf
      have hc : ConsOk cu c0 g c cons :=
        ⟨(hw.find hf).1, fun e => absurd e hne, fun e => (hw.find hf).2.2 e⟩
      split
      · exact aAdoptUpdate_cm ctx c k hk cons t hc
      · exact hk _ ⟨rfl, _, _, rfl, hc⟩))

theorem aCreateConsumer_cm (t : Option Nat) (hne : c.uuid ≠ cu) :
    CM cu c0 g (.txn .createConsumer (aCreateConsumer ctx c t k)) :=
  Commits.txn' _ _ (fun s hw => .inl (by
    unfold aCreateConsumer
    dsimp only
    split
    · exact aAdopt_cm ctx c k hk t hne
    · refine hk _ ⟨rfl, _, _, rfl, rfl, fun e => absurd e hne, fun _ => ?_⟩
      have := hw.2.1
      show s.nextCons ≠ c0
      omega))

theorem aAfterType_cm (found : Option ConsRow) (t : Option Nat)
    (hf : ∀ cons, found = some cons → ConsOk cu c0 g c cons) (hn : found = none → c.uuid ≠ cu) :
    CM cu c0 g (aAfterType ctx c found t k) := by
  unfold aAfterType
  split
  · rename_i cons
    exact hk _ ⟨rfl, _, _, rfl, hf cons rfl⟩
  · exact aCreateConsumer_cm ctx c k hk t (hn rfl)

end ensure

section ensure2
variable (ctx : ACtx R) (c : ConsumerReq) (k : ACtx R → P R)
  (hk : ∀ ctx' : ACtx R, Ext cu c0 g ctx c ctx' → CM cu c0 g (k ctx'))
include hk

theorem aCreateCtype_cm (found : Option ConsRow) (t : Nat)
    (hf : ∀ cons, found = some cons → ConsOk cu c0 g c cons) (hn : found = none → c.uuid ≠ cu) :
    CM cu c0 g (.txn .createCtype (aCreateCtype ctx c found t k)) :=
  Commits.txn' _ _ (fun s _ => .inl (by
    unfold aCreateCtype
    split
    · exact Commits.txn' _ _ (fun s' _ => .inl
        (aAfterType_cm { ctx with ctCache := some s'.ctypes } c k (fun ctx' h => hk ctx' h) found (some t) hf hn))
    · exact aAfterType_cm { ctx with ctCache := none } c k (fun ctx' h => hk ctx' h) found (some t) hf hn))

theorem aGetCtype_cm (found : Option ConsRow) (t : Nat)
    (hf : ∀ cons, found = some cons → ConsOk cu c0 g c cons) (hn : found = none → c.uuid ≠ cu) :
    CM cu c0 g (.txn .getCtype (aGetCtype ctx c found t k)) :=
  Commits.txn' _ _ (fun s _ => .inl (by
    unfold aGetCtype
    dsimp only
    split
    · exact aAfterType_cm { ctx with ctCache := some s.ctypes } c k (fun ctx' h => hk ctx' h) found (some t) hf hn
    · exact aCreateCtype_cm { ctx with ctCache := some s.ctypes } c k (fun ctx' h => hk ctx' h) found t hf hn))

theorem aType_cm (found : Option ConsRow)
    (hf : ∀ cons, found = some cons → ConsOk cu c0 g c cons) (hn : found = none → c.uuid ≠ cu) :
    CM cu c0 g (aType ctx c found k) := by
  unfold aType
  split
  · split
    · exact aAfterType_cm ctx c k hk found none hf hn
    · split
      · split
        · exact aAfterType_cm ctx c k hk found _ hf hn
        · exact aGetCtype_cm ctx c k hk found _ hf hn
      · exact aGetCtype_cm ctx c k hk found _ hf hn
  · exact aAfterType_cm ctx c k hk found none hf hn

theorem aGetConsumer_cm (hmv : ctx.mv ≥ 28) (hreq : ReqOk cu g c) :
    CM cu c0 g (.txn .getConsumer (aGetConsumer ctx c k)) :=
  Commits.txn' _ _ (fun s hw => .inl (by
    unfold aGetConsumer
    split
    · rename_i cons hf
      split
      · exact cleanupThen_cm _ _ (by decide)
      · rename_i hchk
        refine aType_cm ctx c k hk _ (fun cons' e => ?_) (fun e => by cases e)
        cases e
        obtain ⟨h1, h2, h3⟩ := hw.find hf
        refine ⟨h1, fun e => ⟨h2 e, ?_⟩, h3⟩
        have hg := (hreq e).1
        simp only [Bool.and_eq_true, decide_eq_true_eq, not_and, Bool.not_eq_true] at hchk
        have := hchk hmv
        rw [hg] at this
        simpa using this
    · split
      · exact cleanupThen_cm _ _ (by decide)
      · rename_i hchk
        refine aType_cm ctx c k hk _ (fun cons' e => by cases e) (fun _ e => ?_)
        simp only [Bool.and_eq_true, decide_eq_true_eq, not_and, Bool.not_eq_true] at hchk
        have := hchk hmv
        rw [(hreq e).1] at this
        cases this))

theorem aCreateUser_cm (hmv : ctx.mv ≥ 28) (hreq : ReqOk cu g c) :
    CM cu c0 g (.txn .createUser (aCreateUser ctx c k)) :=
  Commits.txn' _ _ (fun s _ => .inl (by
    unfold aCreateUser
    split
    · exact Commits.txn' _ _ (fun _ _ => .inl (aGetConsumer_cm ctx c k hk hmv hreq))
    · exact aGetConsumer_cm ctx c k hk hmv hreq))

theorem aGetUser_cm (hmv : ctx.mv ≥ 28) (hreq : ReqOk cu g c) :
    CM cu c0 g (.txn .getUser (aGetUser ctx c k)) :=
  Commits.txn' _ _ (fun s _ => .inl (by
    unfold aGetUser
    split
    · exact aGetConsumer_cm ctx c k hk hmv hreq
    · exact aCreateUser_cm ctx c k hk hmv hreq))

theorem aCreateProject_cm (hmv : ctx.mv ≥ 28) (hreq : ReqOk cu g c) :
    CM cu c0 g (.txn .createProject (aCreateProject ctx c k)) :=
  Commits.txn' _ _ (fun s _ => .inl (by
    unfold aCreateProject
    split
    · exact Commits.txn' _ _ (fun _ _ => .inl (aGetUser_cm ctx c k hk hmv hreq))
    · exact aGetUser_cm ctx c k hk hmv hreq))

theorem aGetProject_cm (hmv : ctx.mv ≥ 28) (hreq : ReqOk cu g c) :
    CM cu c0 g (.txn .getProject (aGetProject ctx c k)) :=
  Commits.txn' _ _ (fun s _ => .inl (by
    unfold aGetProject
    split
    · exact aGetUser_cm ctx c k hk hmv hreq
    · exact aCreateProject_cm ctx c k hk hmv hreq))

end ensure2

theorem aNext_cm : ∀ (cs : List ConsumerReq) (ctx : ACtx R), ctx.mv ≥ 28 → (∀ t ∈ ctx.done, EntryOk cu c0 g t) →
    (∀ c ∈ cs, ReqOk cu g c) → ((∃ t ∈ ctx.done, t.1.uuid = cu) ∨ (∃ c ∈ cs, c.uuid = cu)) →
    CM cu c0 g (aNext ctx cs)
  | [], ctx, _, hd, _, hex => by
    unfold aNext
    exact aBuildNext_cm ctx ctx.done [] hd (fun _ h => by cases h) (.inr (hex.resolve_right (by simp)))
  | c :: rest, ctx, hmv, hd, hreq, hex => by
    unfold aNext
    refine aGetProject_cm ctx c _ (fun ctx' hext => ?_) hmv (hreq c List.mem_cons_self)
    obtain ⟨hmv', cons, attr, hdone, hcons⟩ := hext
    refine aNext_cm rest ctx' (by rw [hmv']; exact hmv) ?_ (fun c' hc' => hreq c' (List.mem_cons_of_mem _ hc')) ?_
    · intro t ht
      rw [hdone] at ht
      rcases List.mem_append.mp ht with h1 | h1
      · exact hd t h1
      · rw [List.mem_singleton.mp h1]
        exact ⟨hcons, fun e => (hreq c List.mem_cons_self e).2⟩
    · rcases hex with ⟨t, ht, hu⟩ | ⟨c', hc', hu⟩
      · exact .inl ⟨t, by rw [hdone]; exact List.mem_append_left _ ht, hu⟩
      · rcases List.mem_cons.mp hc' with e | h2
        · subst e
          exact .inl ⟨(c', cons, attr), by rw [hdone]; simp, hu⟩
        · exact .inr ⟨c', h2, hu⟩

theorem aReshapeRps_cm (cfg : Config) (mv : Nat) (hmv : mv ≥ 28) (cs : List ConsumerReq)
    (hreq : ∀ c ∈ cs, ReqOk cu g c) (hex : ∃ c ∈ cs, c.uuid = cu) :
    ∀ (todo : List (RpInvReq R)) (acc : List (Nat × Nat × List (InvSpec R))),
      CM cu c0 g (.txn .getRp (aReshapeRps cfg mv todo acc cs))
  | [], acc => Commits.txn' _ _ (fun _ _ => .inl (.done _ (by decide)))
  | r :: rest, acc => Commits.txn' _ _ (fun s _ => .inl (by
      unfold aReshapeRps
      dsimp only
      split
      · exact .done _ (by decide)
      · split
        · exact .done _ (by decide)
        · split
          · exact aReshapeRps_cm cfg mv hmv cs hreq hex _ _
          · exact aNext_cm cs _ hmv (fun _ h => by cases h) hreq (.inr hex)))

end fixed

/-! ### the requests -/

/-- the request names consumer `cu`, carries generation `g` for it in every entry for `cu`, with
non-empty allocations, at a microversion with consumer generations -/
def carriesCons (cu g : Nat) : Op R → Bool
  | .allocPut mv c => decide (mv ≥ 28) && c.uuid == cu && c.gen == some g && !c.allocs.isEmpty
  | .allocPost mv cs => decide (mv ≥ 28) && cs.any (·.uuid == cu) &&
      cs.all (fun c => !(c.uuid == cu) || (c.gen == some g && !c.allocs.isEmpty))
  | .reshape mv _ cs => decide (mv ≥ 30) && cs.any (·.uuid == cu) &&
      cs.all (fun c => !(c.uuid == cu) || (c.gen == some g && !c.allocs.isEmpty))
  | _ => false

theorem reqOk_of_all {cu g : Nat} {cs : List ConsumerReq}
    (h : cs.all (fun c => !(c.uuid == cu) || (c.gen == some g && !c.allocs.isEmpty)) = true) :
    ∀ c ∈ cs, ReqOk cu g c := by
  intro c hc e
  have := List.all_eq_true.mp h c hc
  simp only [e, beq_self_eq_true, Bool.not_true, Bool.false_or, Bool.and_eq_true, beq_iff_eq,
    Bool.not_eq_true'] at this
  exact this

theorem allocProg_commits (cfg : Config) {cu c0 g : Nat} {op : Op R} (h : carriesCons cu g op = true) :
    CM cu c0 g (prog cfg op) := by
  cases op <;> simp only [carriesCons, Bool.false_eq_true] at h
  case allocPut mv c =>
    simp only [Bool.and_eq_true, decide_eq_true_eq, beq_iff_eq, Bool.not_eq_true'] at h
    obtain ⟨⟨⟨hmv, hu⟩, hg⟩, hne⟩ := h
    show CM cu c0 g (pAllocPut cfg mv c)
    unfold pAllocPut
    rw [if_neg (by simp; omega)]
    exact aNext_cm [c] _ hmv (fun _ h => by cases h)
      (fun c' hc' _ => by rw [List.mem_singleton.mp hc']; exact ⟨hg, hne⟩) (.inr ⟨c, by simp, hu⟩)
  case allocPost mv cs =>
    simp only [Bool.and_eq_true, decide_eq_true_eq] at h
    obtain ⟨⟨hmv, hany⟩, hall⟩ := h
    obtain ⟨c, hc, hu⟩ := List.any_eq_true.mp hany
    show CM cu c0 g (pAllocPost cfg mv cs)
    unfold pAllocPost
    rw [if_neg (by omega)]
    exact aNext_cm cs _ hmv (fun _ h => by cases h) (reqOk_of_all hall) (.inr ⟨c, hc, by simpa using hu⟩)
  case reshape mv invs cs =>
    simp only [Bool.and_eq_true, decide_eq_true_eq] at h
    obtain ⟨⟨hmv, hany⟩, hall⟩ := h
    obtain ⟨c, hc, hu⟩ := List.any_eq_true.mp hany
    have hex : ∃ c ∈ cs, c.uuid = cu := ⟨c, hc, by simpa using hu⟩
    show CM cu c0 g (pReshape cfg mv invs cs)
    unfold pReshape
    rw [if_neg (by omega)]
    split
    · exact aNext_cm cs _ (by show mv ≥ 28; omega) (fun _ h => by cases h) (reqOk_of_all hall) (.inr hex)
    · exact aReshapeRps_cm cfg mv (by omega) cs (reqOk_of_all hall) hex _ _

/-- the pool: no request creates, updates or deletes providers; no request may create consumer `cu` -/
theorem pool_evo_cons (cfg : Config) (ops : List (Op R)) (hops : ∀ op ∈ ops, isProviderOp op = false) (cu : Nat)
    (hnc : ∀ op ∈ ops, cu ∉ opCreates op) :
    PoolAll (QEvo (R := R) (fun u => u ≠ cu)) (ops.map (prog cfg)) := by
  intro p hp
  obtain ⟨op, hop, rfl⟩ := List.mem_map.mp hp
  exact prog_evo cfg op (hops op hop) (fun u hu e => hnc op hop (e ▸ hu))

theorem wcons_start {db : DB R} (hU : Uniq db) {cu c0 : Nat} (hex : ∃ r ∈ db.consumers, r.uuid = cu ∧ r.id = c0) :
    WCons cu c0 db := by
  obtain ⟨r0, hr0, hu0, hid0⟩ := hex
  refine ⟨ids_of_uniq hU, hid0 ▸ hU.freshCons r0 hr0, ?_⟩
  intro r hr
  constructor
  · intro hu
    have : r = r0 := Wf.L.eq_of_key_eq hU.consUuid hr hr0 (hu.trans hu0.symm)
    rw [this, hid0]
  · intro hid
    have : r = r0 := Wf.L.eq_of_key_eq hU.consId hr hr0 (hid.trans hid0.symm)
    rw [this, hu0]

theorem prefix_of_lt {α : Type} {p1 p2 q1 q2 : List α} {x y : α} (h : p1 ++ x :: q1 = p2 ++ y :: q2)
    (hl : p1.length < p2.length) : ∃ mid, p2 = p1 ++ x :: mid := by
  induction p1 generalizing p2 with
  | nil =>
    cases p2 with
    | nil => simp at hl
    | cons z zs => simp only [List.nil_append, List.cons_append, List.cons.injEq] at h; exact ⟨zs, by rw [h.1]; rfl⟩
  | cons a as ih =>
    cases p2 with
    | nil => simp at hl
    | cons z zs =>
      simp only [List.cons_append, List.cons.injEq] at h
      obtain ⟨mid, hm⟩ := ih h.2 (by simpa using hl)
      exact ⟨mid, by rw [h.1, hm]; rfl⟩

end Placement.Sched
