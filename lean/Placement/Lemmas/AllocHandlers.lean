import Placement.Lemmas.Alloc
set_option linter.unusedSectionVars false
namespace Placement
variable {R : Type} [CapOps R]

/-- only the consumer-side tables (consumers, projects, users, consumer types) differ -/
def ConsOnly (db d : DB R) : Prop :=
  d.rps = db.rps ∧ d.invs = db.invs ∧ d.allocs = db.allocs ∧ d.rcs = db.rcs ∧ d.nextRp = db.nextRp

theorem ConsOnly.refl (db : DB R) : ConsOnly db db := ⟨rfl, rfl, rfl, rfl, rfl⟩
theorem ConsOnly.trans {a b c : DB R} (h1 : ConsOnly a b) (h2 : ConsOnly b c) : ConsOnly a c :=
  ⟨h2.1.trans h1.1, h2.2.1.trans h1.2.1, h2.2.2.1.trans h1.2.2.1, h2.2.2.2.1.trans h1.2.2.2.1,
    h2.2.2.2.2.trans h1.2.2.2.2⟩

theorem ensureConsumer_frame (cfg : Config) (db : DB R) (mv : Nat) (c : ConsumerReq) :
    ConsOnly db (ensureConsumer cfg db mv c).1 := by
  unfold ensureConsumer
  dsimp only
  repeat' split
  all_goals exact ⟨rfl, rfl, rfl, rfl, rfl⟩

theorem ensureConsumer_err {cfg : Config} {db db1 : DB R} {mv : Nat} {c : ConsumerReq} {r : Resp}
    (h : ensureConsumer cfg db mv c = (db1, .error r)) : r.ok = false := by
  unfold ensureConsumer at h
  dsimp only at h
  repeat' split at h
  all_goals (first | (cases h; rfl) | (cases h))

theorem updateConsumer_frame (db : DB R) (cons : ConsRow) (a : ReqAttr) :
    ConsOnly db (updateConsumer db cons a) := by
  unfold updateConsumer
  dsimp only
  repeat' split
  all_goals exact ⟨rfl, rfl, rfl, rfl, rfl⟩

theorem deleteConsumerRows_frame (db : DB R) (ids : List Nat) :
    ConsOnly db (deleteConsumerRows db ids) := ⟨rfl, rfl, rfl, rfl, rfl⟩

theorem updateConsumers_frame (db : DB R) (l : List (ConsumerReq × ConsRow × ReqAttr)) :
    ConsOnly db (updateConsumers db l) := by
  induction l generalizing db with
  | nil => exact ConsOnly.refl _
  | cons x l ih =>
    obtain ⟨c, cons, attr⟩ := x
    unfold updateConsumers
    exact (updateConsumer_frame db cons attr).trans (ih _)

theorem inspectConsumers_frame (cfg : Config) (mv : Nat) (db : DB R) (cs : List ConsumerReq)
    (acc : List (ConsumerReq × ConsRow × ReqAttr)) (created : List Nat) :
    ConsOnly db (inspectConsumers cfg mv db cs acc created).1 := by
  induction cs generalizing db acc created with
  | nil => exact ConsOnly.refl _
  | cons c cs ih =>
    unfold inspectConsumers
    have hf := ensureConsumer_frame cfg db mv c
    split
    · rename_i db1 r he
      rw [he] at hf
      exact hf.trans (deleteConsumerRows_frame _ _)
    · rename_i db1 cons isNew attr he
      rw [he] at hf
      exact hf.trans (ih _ _ _)

theorem inspectConsumers_err {cfg : Config} {mv : Nat} {db db1 : DB R} {cs : List ConsumerReq}
    {acc : List (ConsumerReq × ConsRow × ReqAttr)} {created : List Nat} {r : Resp}
    (h : inspectConsumers cfg mv db cs acc created = (db1, .error r)) : r.ok = false := by
  induction cs generalizing db acc created with
  | nil => cases h
  | cons c cs ih =>
    unfold inspectConsumers at h
    split at h
    · rename_i d r' he
      cases h
      exact ensureConsumer_err he
    · exact ih h

/-- the request entries of the triples that `inspect_consumers` returns are the request's -/
theorem inspectConsumers_ok {cfg : Config} {mv : Nat} {db db1 : DB R} {cs : List ConsumerReq}
    {acc triples : List (ConsumerReq × ConsRow × ReqAttr)} {created created' : List Nat}
    (h : inspectConsumers cfg mv db cs acc created = (db1, .ok (triples, created'))) :
    triples.map (·.1) = acc.map (·.1) ++ cs := by
  induction cs generalizing db acc created with
  | nil => cases h; simp
  | cons c cs ih =>
    unfold inspectConsumers at h
    split at h
    · cases h
    · have := ih h
      simpa using this
theorem allocObjects_ok {db : DB R} {cons : ConsRow} {c : ConsumerReq} {objs : List AllocReq}
    (h : allocObjects db cons c = .ok objs) :
    (∀ x ∈ c.allocs, ∃ rp, db.rpByUuid x.1 = some rp ∧
        ∃ a ∈ objs, a.rpId = rp.id ∧ a.rcName = x.2.1 ∧ a.used = x.2.2) ∧
    (∀ a ∈ objs, a.used = 0 ∨ ∃ x ∈ c.allocs, a.used = x.2.2) := by
  unfold allocObjects at h
  split at h
  · rename_i hemp
    have he : c.allocs = [] := by simpa using hemp
    constructor
    · intro x hx; rw [he] at hx; cases hx
    · intro a ha
      left
      split at h
      · cases h; cases ha
      · cases h
        obtain ⟨row, _, hrow⟩ := List.mem_filterMap.mp ha
        split at hrow
        · cases hrow; rfl
        · cases hrow
  · split at h
    · cases h
    · rename_i hall
      cases h
      constructor
      · intro x hx
        cases hrp : db.rpByUuid x.1 with
        | none =>
          exfalso; apply hall
          exact List.any_eq_true.mpr ⟨x, hx, by simp [hrp]⟩
        | some rp =>
          refine ⟨rp, rfl, _, List.mem_filterMap.mpr ⟨x, hx, by rw [hrp]; rfl⟩, rfl, rfl, rfl⟩
      · intro a ha
        right
        obtain ⟨x, hx, hxa⟩ := List.mem_filterMap.mp ha
        cases hrp : db.rpByUuid x.1 with
        | none => rw [hrp] at hxa; cases hxa
        | some rp => rw [hrp] at hxa; cases hxa; exact ⟨x, hx, rfl⟩

theorem allocObjectsAll_ok {db : DB R} {l : List (ConsumerReq × ConsRow × ReqAttr)} {objs : List AllocReq}
    (h : allocObjectsAll db l = .ok objs) :
    (∀ t ∈ l, ∀ x ∈ t.1.allocs, ∃ rp, db.rpByUuid x.1 = some rp ∧
        ∃ a ∈ objs, a.rpId = rp.id ∧ a.rcName = x.2.1 ∧ a.used = x.2.2) ∧
    (∀ a ∈ objs, a.used = 0 ∨ ∃ t ∈ l, ∃ x ∈ t.1.allocs, a.used = x.2.2) := by
  induction l generalizing objs with
  | nil => cases h; simp
  | cons t l ih =>
    obtain ⟨c, cons, attr⟩ := t
    unfold allocObjectsAll at h
    obtain ⟨a, h1, h⟩ := bind_ok h
    obtain ⟨b, h2, h⟩ := bind_ok h
    cases h
    obtain ⟨p1, p2⟩ := allocObjects_ok h1
    obtain ⟨q1, q2⟩ := ih h2
    constructor
    · intro t ht x hx
      rcases List.mem_cons.mp ht with rfl | ht
      · obtain ⟨rp, hrp, o, ho, hh⟩ := p1 x hx
        exact ⟨rp, hrp, o, List.mem_append_left _ ho, hh⟩
      · obtain ⟨rp, hrp, o, ho, hh⟩ := q1 t ht x hx
        exact ⟨rp, hrp, o, List.mem_append_right _ ho, hh⟩
    · intro o ho
      rcases List.mem_append.mp ho with ho | ho
      · rcases p2 o ho with h0 | ⟨x, hx, e⟩
        · exact Or.inl h0
        · exact Or.inr ⟨_, List.mem_cons_self, x, hx, e⟩
      · rcases q2 o ho with h0 | ⟨t, ht, x, hx, e⟩
        · exact Or.inl h0
        · exact Or.inr ⟨t, List.mem_cons_of_mem _ ht, x, hx, e⟩

theorem allocObjects_err {db : DB R} {cons : ConsRow} {c : ConsumerReq} {r : Resp}
    (h : allocObjects db cons c = .error r) : r.ok = false := by
  unfold allocObjects at h
  repeat' split at h
  all_goals (first | (cases h; rfl) | cases h)

theorem allocObjectsAll_err {db : DB R} {l : List (ConsumerReq × ConsRow × ReqAttr)} {r : Resp}
    (h : allocObjectsAll db l = .error r) : r.ok = false := by
  induction l with
  | nil => cases h
  | cons t l ih =>
    obtain ⟨c, cons, attr⟩ := t
    unfold allocObjectsAll at h
    cases h1 : allocObjects db cons c with
    | error e => rw [h1] at h; cases h; exact allocObjects_err h1
    | ok a =>
      cases h2 : allocObjectsAll db l with
      | error e => rw [h1, h2] at h; cases h; exact ih h2
      | ok b => rw [h1, h2] at h; cases h

theorem allocErr_not_ok (e : Exc) : (allocErr e).ok = false := by
  unfold allocErr; repeat' split
  all_goals rfl

/-- `PUT /allocations/{consumer}`: either rejected, with only consumer-side tables touched, or
accepted, and then the new state is the result of one `_set_allocations` on a state that differs
from the old one in consumer-side tables only. -/
theorem hAllocPut_cases (cfg : Config) (db : DB R) (mv : Nat) (c : ConsumerReq) :
    (ConsOnly db (hAllocPut cfg db mv c).1 ∧ (hAllocPut cfg db mv c).2.ok = false) ∨
    (∃ d1 d2 d3 cons objs, ConsOnly db d1 ∧ ConsOnly db d2 ∧ allocObjects d1 cons c = .ok objs ∧
      setAllocations d2 objs = .ok d3 ∧ ConsOnly d3 (hAllocPut cfg db mv c).1) := by
  unfold hAllocPut
  split
  · exact Or.inl ⟨ConsOnly.refl _, rfl⟩
  · have hf := ensureConsumer_frame cfg db mv c
    split
    · rename_i db1 r he
      rw [he] at hf
      exact Or.inl ⟨hf, ensureConsumer_err he⟩
    · rename_i db1 cons created attr he
      rw [he] at hf
      split
      · rename_i r ho
        refine Or.inl ⟨?_, allocObjects_err ho⟩
        split
        · exact hf.trans (deleteConsumerRows_frame _ _)
        · exact hf
      · rename_i objs ho
        dsimp only
        split
        · rename_i db3 hs
          refine Or.inr ⟨db1, _, db3, cons, objs, hf, hf.trans (updateConsumer_frame _ _ _), ho, hs, ?_⟩
          split
          · exact deleteConsumerRows_frame _ _
          · exact ConsOnly.refl _
        · refine Or.inl ⟨?_, allocErr_not_ok _⟩
          split
          · exact hf.trans (deleteConsumerRows_frame _ _)
          · exact hf

theorem hAllocPost_cases (cfg : Config) (db : DB R) (mv : Nat) (cs : List ConsumerReq) :
    (ConsOnly db (hAllocPost cfg db mv cs).1 ∧ (hAllocPost cfg db mv cs).2.ok = false) ∨
    (∃ d1 d2 d3 triples objs, ConsOnly db d1 ∧ ConsOnly db d2 ∧ triples.map (·.1) = cs ∧
      allocObjectsAll d1 triples = .ok objs ∧
      setAllocations d2 objs = .ok d3 ∧ ConsOnly d3 (hAllocPost cfg db mv cs).1) := by
  unfold hAllocPost
  split
  · exact Or.inl ⟨ConsOnly.refl _, rfl⟩
  · have hf := inspectConsumers_frame cfg mv db cs [] []
    split
    · rename_i db1 r he
      rw [he] at hf
      exact Or.inl ⟨hf, inspectConsumers_err he⟩
    · rename_i db1 triples created he
      rw [he] at hf
      split
      · rename_i r ho
        exact Or.inl ⟨hf.trans (deleteConsumerRows_frame _ _), allocObjectsAll_err ho⟩
      · rename_i objs ho
        dsimp only
        split
        · rename_i db3 hs
          exact Or.inr ⟨db1, _, db3, triples, objs, hf, hf.trans (updateConsumers_frame _ _),
            by simpa using inspectConsumers_ok he, ho, hs, deleteConsumerRows_frame _ _⟩
        · exact Or.inl ⟨hf.trans (deleteConsumerRows_frame _ _), allocErr_not_ok _⟩

/-! ### accepted PUT / POST place safely -/

/-- The guarantee of C01 for one entry `(provider uuid, class name, amount)` of an accepted write:
`db` is the state before the request, `db'` the state after. -/
def PlacedSafe (db db' : DB R) (x : Nat × Nat × Int) : Prop :=
  ∃ rp rc i, db.rpByUuid x.1 = some rp ∧ db.rcId x.2.1 = some rc ∧
    i ∈ db'.invs ∧ i.rp = rp.id ∧ i.rc = rc ∧
    i.minUnit ≤ x.2.2 ∧ x.2.2 ≤ i.maxUnit ∧ x.2.2 % i.stepSize = 0 ∧
    CapOps.capLt (i.total - i.reserved) i.ratio (db'.usage rp.id rc) = false ∧
    ¬ OverCommitted db' rp.id rc

theorem ConsOnly.invKeys {db d : DB R} (h : ConsOnly db d) (hu : InvKeysNodup db) : InvKeysNodup d := by
  simp only [InvKeysNodup, h.2.1]; exact hu

theorem write_safe {db d1 d2 db' : DB R} (h1 : ConsOnly db d1) (h2 : ConsOnly db d2)
    (hu : InvKeysNodup db) {objs : List AllocReq} (hs : setAllocations d2 objs = .ok db')
    (hnn : ∀ a ∈ objs, 0 ≤ a.used) {x : Nat × Nat × Int} (hx : 0 < x.2.2)
    (hobj : ∃ rp, d1.rpByUuid x.1 = some rp ∧
      ∃ a ∈ objs, a.rpId = rp.id ∧ a.rcName = x.2.1 ∧ a.used = x.2.2) :
    PlacedSafe db db' x := by
  obtain ⟨rp, hrp, a, ha, e1, e2, e3⟩ := hobj
  have hrc := (setAllocations_ok hs).2.1 a ha
  have hrp' : db.rpByUuid x.1 = some rp := by
    simpa only [DB.rpByUuid, h1.1] using hrp
  have hrc' : db.rcId x.2.1 = some (rcOf d2 a) := by
    rw [← e2]; simpa only [DB.rcId, h2.2.2.2.1] using hrc
  obtain ⟨⟨i, hi, hi1, hi2⟩, hall⟩ :=
    setAllocations_safe_all hs hnn (h2.invKeys hu) a ha (by omega) _ hrc
  have hfit := hall i hi hi1 hi2
  rw [e1] at hi1 hall hfit
  rw [e3] at hfit
  refine ⟨rp, _, i, hrp', hrc', hi, hi1, hi2, hfit.1, hfit.2.1, hfit.2.2.1, hfit.2.2.2, ?_⟩
  apply not_overCommitted_of_fits
  intro j hj j1 j2
  exact (hall j hj j1 j2).2.2.2

theorem PlacedSafe.congr {db d3 db' : DB R} {x : Nat × Nat × Int} (h : ConsOnly d3 db')
    (hp : PlacedSafe db d3 x) : PlacedSafe db db' x := by
  obtain ⟨rp, rc, i, h1, h2, h3, h4, h5, h6, h7, h8, h9, h10⟩ := hp
  have hu : db'.usage rp.id rc = d3.usage rp.id rc := by simp only [DB.usage, h.2.2.1]
  refine ⟨rp, rc, i, h1, h2, h.2.1 ▸ h3, h4, h5, h6, h7, h8, hu ▸ h9, ?_⟩
  rintro ⟨j, hj, j1, j2, j3⟩
  exact h10 ⟨j, h.2.1 ▸ hj, j1, j2, hu ▸ j3⟩

theorem hAllocPut_safe {cfg : Config} {db : DB R} {mv : Nat} {c : ConsumerReq}
    (hu : InvKeysNodup db) (hnn : ∀ x ∈ c.allocs, 0 ≤ x.2.2)
    (hok : (hAllocPut cfg db mv c).2.ok = true) :
    ∀ x ∈ c.allocs, 0 < x.2.2 → PlacedSafe db (hAllocPut cfg db mv c).1 x := by
  intro x hx hpos
  rcases hAllocPut_cases cfg db mv c with ⟨_, hbad⟩ | ⟨d1, d2, d3, cons, objs, h1, h2, ho, hs, h3⟩
  · rw [hbad] at hok; cases hok
  · obtain ⟨p1, p2⟩ := allocObjects_ok ho
    refine PlacedSafe.congr h3 (write_safe h1 h2 hu hs ?_ hpos (p1 x hx))
    intro a ha
    rcases p2 a ha with h0 | ⟨y, hy, e⟩
    · omega
    · rw [e]; exact hnn y hy

theorem hAllocPost_safe {cfg : Config} {db : DB R} {mv : Nat} {cs : List ConsumerReq}
    (hu : InvKeysNodup db) (hnn : ∀ c ∈ cs, ∀ x ∈ c.allocs, 0 ≤ x.2.2)
    (hok : (hAllocPost cfg db mv cs).2.ok = true) :
    ∀ c ∈ cs, ∀ x ∈ c.allocs, 0 < x.2.2 → PlacedSafe db (hAllocPost cfg db mv cs).1 x := by
  intro c hc x hx hpos
  rcases hAllocPost_cases cfg db mv cs with
    ⟨_, hbad⟩ | ⟨d1, d2, d3, triples, objs, h1, h2, ht, ho, hs, h3⟩
  · rw [hbad] at hok; cases hok
  · obtain ⟨p1, p2⟩ := allocObjectsAll_ok ho
    have hc' : ∃ t ∈ triples, t.1 = c := by
      rw [← ht] at hc; simpa using hc
    obtain ⟨t, htm, rfl⟩ := hc'
    refine PlacedSafe.congr h3 (write_safe h1 h2 hu hs ?_ hpos (p1 t htm x hx))
    intro a ha
    rcases p2 a ha with h0 | ⟨t', ht', y, hy, e⟩
    · omega
    · rw [e]
      exact hnn t'.1 (by rw [← ht]; exact List.mem_map_of_mem ht') y hy

end Placement
