import Placement.Lemmas.FaultL4
/-
  Helper lemmas for C17, part 5: a deadlock WITH server-side rollback that fires after a CONSUMER
  generation was incremented (positions `k > firstIncPos + #providers`), for a request whose
  `update_consumers` writes nothing and whose fault-free write succeeds, on a database with unique
  provider and consumer ids.

  After the rollback the provider and consumer OBJECTS carry `g + 1`.  The re-run fails its first
  provider compare-and-swap, `replace_all` re-reads the PROVIDERS from the committed state; the next
  attempt passes the provider increments and fails the consumer compare-and-swap (nothing re-reads the
  consumer): `ConcurrentUpdateDetected` is answered (409) and the outer transaction is rolled back -
  a clean failure (`mainTxn_rollback_late`).
-/
namespace Placement.FaultL
open Placement Placement.Fault
set_option linter.unusedSectionVars false

variable {R : Type}

theorem incConsGen_row {db db' : DB R} {id gen : Nat} (h : incConsGen db id gen = .ok db') :
    ∃ c ∈ db.consumers, c.id = id ∧ c.gen = gen := by
  unfold incConsGen at h
  split at h
  · next c hc =>
    have h1 := List.mem_of_find?_eq_some hc
    have h2 := List.find?_some hc
    simp at h2
    exact ⟨c, h1, h2.1, h2.2⟩
  · cases h

theorem incConsGen_stale {db : DB R} (hU : (db.consumers.map (·.id)).Nodup) {c : ConsRow} (hc : c ∈ db.consumers) :
    incConsGen db c.id (c.gen + 1) = .error .concurrentUpdate := by
  unfold incConsGen
  have : db.consumers.find? (fun x => x.id == c.id && x.gen == c.gen + 1) = none := by
    rw [List.find?_eq_none]
    intro x hx
    simp only [Bool.and_eq_true, beq_iff_eq, not_and]
    intro e1 e2
    have := Wf.L.eq_of_key_eq (f := fun x : ConsRow => x.id) hU hx hc e1
    subst this
    omega
  rw [this]

theorem incRpGens_consumers : ∀ (l : List (Nat × Nat)) (db db' : DB R), incRpGens db l = .ok db' →
    db'.consumers = db.consumers
  | [], db, db', h => by simp only [incRpGens, Except.ok.injEq] at h; subst h; rfl
  | (id, gen) :: l, db, db', h => by
    unfold incRpGens at h
    obtain ⟨db1, h1, h2⟩ := bind_ok h
    rw [incRpGens_consumers l db1 db' h2, (Wf.incRpGen_ok h1).1]
    rfl

variable [CapOps R]

theorem consIncStmt_ok {p : Nat × Nat} {s s' : FS R} (h : consIncStmt p s = .ok s') :
    s'.rpGen = s.rpGen ∧ s'.consGen = setGen s.consGen p.1 (getGen s.consGen p.1 + 1) := by
  unfold consIncStmt at h
  dsimp only at h
  split at h
  · cases h; exact ⟨rfl, rfl⟩
  · cases h

/-- the provider-generation phase of a successful attempt: afterwards the first provider's object
carries `g + 1` and the object list has the same providers -/
theorem rpPhase (id gen : Nat) (rest : List (Nat × Nat)) (s : FS R) (d3 : DB R)
    (hn : (((id, gen) :: rest).map (·.1)).Nodup) (hs : s.rpGen = (id, gen) :: rest)
    (h : incRpGens s.db ((id, gen) :: rest) = .ok d3) :
    ∃ m, runBody (((id, gen) :: rest).map rpIncStmt) s none = .done { s with db := d3, rpGen := m } ∧
      m.map (·.1) = ((id, gen) :: rest).map (·.1) ∧ getGen m id = gen + 1 := by
  have hg : ∀ p ∈ (id, gen) :: rest, getGen s.rpGen p.1 = p.2 := by
    intro p hp; rw [hs]; exact getGen_of_mem hn hp
  obtain ⟨m, hm⟩ := runBody_rpIncs ((id, gen) :: rest) s d3 hn hg h
  refine ⟨m, hm, ?_⟩
  -- the first statement, then an invariant of the others
  unfold incRpGens at h
  obtain ⟨d1, e1, -⟩ := bind_ok h
  have hst1 : rpIncStmt (id, gen) s = .ok { s with db := d1, rpGen := setGen s.rpGen id (gen + 1) } := by
    unfold rpIncStmt
    dsimp only
    rw [hg (id, gen) List.mem_cons_self, e1]
  rw [List.map_cons, runBody_cons_none, hst1] at hm
  dsimp only at hm
  have hP := runBody_done_inv
    (fun t : FS R => t.rpGen.map (·.1) = ((id, gen) :: rest).map (·.1) ∧ getGen t.rpGen id = gen + 1)
    (rest.map rpIncStmt) _ _
    (by
      intro st hst t t' ht e
      obtain ⟨q, hq, rfl⟩ := List.mem_map.1 hst
      obtain ⟨-, a2⟩ := rpIncStmt_ok e
      have hne : id ≠ q.1 := by
        rw [List.map_cons, List.nodup_cons] at hn
        exact fun e => hn.1 (List.mem_map.2 ⟨q, hq, e.symm⟩)
      refine ⟨?_, ?_⟩
      · rw [a2, setGen_keys]; exact ht.1
      · rw [a2, getGen_setGen_ne q.1 _ id hne]; exact ht.2)
    ⟨by show (setGen s.rpGen id (gen + 1)).map (·.1) = _; rw [setGen_keys, hs],
      by show getGen (setGen s.rpGen id (gen + 1)) id = _; rw [hs]; exact getGen_setGen_head (id, gen) rest (gen + 1)⟩
    hm
  exact hP

/-- **rolled-back deadlock after a consumer generation was incremented**: `ConcurrentUpdateDetected`
is answered and nothing is stored -/
theorem mainTxn_rollback_late (db : DB R) (cons : ConsRow) (attr : ReqAttr) (allocs : List AllocReq) (k : Nat)
    (sk : FS R) (db' : DB R) (hpre : updateConsumer db cons attr = db) (hU : (db.rps.map (·.id)).Nodup)
    (hUc : (db.consumers.map (·.id)).Nodup) (hok : setAllocations db allocs = .ok db')
    (hk1 : firstIncPos allocs + (rpPairs allocs).length < k)
    (h0 : runBody (setAllocStmts allocs) (preState db cons attr allocs) (some k) = .fault sk) :
    mainTxnWithFault db cons attr allocs (some (k, .deadlock true)) =
      { state := FS.ofRequest db allocs, error := some .concurrentUpdate } := by
  have hs1 : preState db cons attr allocs = FS.ofRequest db allocs := by
    unfold preState; rw [hpre]; rfl
  have h := h0
  rw [hs1] at h
  obtain ⟨res, d3, d4, c1, c2, c3, c4⟩ := setAllocations_inv hok
  have hW := runBody_writeStmts_ok allocs (FS.ofRequest db allocs) res c1 c2
  generalize hs2 : setAllocsFS (FS.ofRequest db allocs) (writtenRows (FS.ofRequest db allocs).db allocs res) = s2 at hW
  have hs2db : s2.db = { db with allocs := writtenRows db allocs res } := by subst hs2; rfl
  have hs2rp : s2.rpGen = rpPairs allocs := by subst hs2; rfl
  have hs2c : s2.consGen = consPairs allocs := by subst hs2; rfl
  have hEarly : Early (allocs.map (·.consUuid)).eraseDups (FS.ofRequest db allocs) s2 :=
    runBody_done_inv _ _ _ _ (early_writeStmts allocs _) (Early.refl _ _) hW
  rw [setAllocStmts_eq, runBody_append_some _ _ _ _ (by rw [writeStmts_length]; omega), hW] at h
  dsimp only at h
  rw [writeStmts_length] at h
  have hnd := firstByKey_keys_nodup (allocs.map (fun a => (a.rpId, a.rpGen)))
  have hndc := firstByKey_keys_nodup (allocs.map (fun a => (a.consId, a.consGen)))
  have hrows := incRpGens_rows (rpPairs allocs) _ d3 hnd c3
  have hd3c : d3.consumers = db.consumers := incRpGens_consumers _ ({ db with allocs := writtenRows db allocs res } : DB R) d3 c3
  -- the provider list is not empty: otherwise there is no statement after position `firstIncPos`
  cases hp : rpPairs allocs with
  | nil =>
    exfalso
    have hc : consPairs allocs = [] := by
      unfold rpPairs at hp
      unfold consPairs
      cases allocs with
      | nil => rfl
      | cons a as => simp [firstByKey] at hp
    unfold genStmts at h
    rw [hp, hc] at h
    rw [hp] at hk1
    obtain ⟨j, hj⟩ : ∃ j, k - firstIncPos allocs = j + 1 := ⟨k - firstIncPos allocs - 1, by simp at hk1; omega⟩
    rw [hj] at h
    simp only [List.map_nil, List.nil_append] at h
    rw [runBody_cons_succ] at h
    unfold cleanupStmt at h
    dsimp only at h
    rw [runBody_nil] at h
    cases h
  | cons p1 rest =>
    obtain ⟨id, gen⟩ := p1
    have hnd' : (((id, gen) :: rest).map (·.1)).Nodup := by rw [← hp]; exact hnd
    have hlen : (rpPairs allocs).length = rest.length + 1 := by rw [hp]; rfl
    rw [hp] at c3 hrows hs2rp
    obtain ⟨r1, hr1, hr1id, hr1gen⟩ := hrows (id, gen) List.mem_cons_self
    have hr1id' : r1.id = id := hr1id
    have hr1gen' : r1.gen = gen := hr1gen
    -- provider phase of the first attempt
    have c3' : incRpGens s2.db ((id, gen) :: rest) = .ok d3 := by rw [hs2db]; exact c3
    obtain ⟨m, hm, hmk, hmg⟩ := rpPhase id gen rest s2 d3 hnd' hs2rp c3'
    unfold genStmts at h
    rw [hp, List.append_assoc,
      runBody_append_some _ _ _ _ (by simp only [List.length_map]; rw [hlen] at hk1; simp; omega), hm] at h
    dsimp only at h
    simp only [List.length_map, List.length_cons] at h
    obtain ⟨j, hj⟩ : ∃ j, k - firstIncPos allocs - (rest.length + 1) = j + 1 :=
      ⟨k - firstIncPos allocs - (rest.length + 1) - 1, by rw [hlen] at hk1; omega⟩
    rw [hj] at h
    -- the consumer list is not empty either
    cases hcp : consPairs allocs with
    | nil =>
      exfalso
      rw [hcp] at h
      simp only [List.map_nil, List.nil_append] at h
      rw [runBody_cons_succ] at h
      unfold cleanupStmt at h
      dsimp only at h
      rw [runBody_nil] at h
      cases h
    | cons q1 crest =>
      obtain ⟨cid, cgen⟩ := q1
      have hndc' : (((cid, cgen) :: crest).map (·.1)).Nodup := by rw [← hcp]; exact hndc
      rw [hcp] at h c4 hs2c
      unfold incConsGens at c4
      obtain ⟨d4a, f1, -⟩ := bind_ok c4
      obtain ⟨c0, hc0, hc0id, hc0gen⟩ := incConsGen_row f1
      have hgc : getGen s2.consGen cid = cgen := by
        rw [hs2c]; exact getGen_of_mem hndc' (p := (cid, cgen)) List.mem_cons_self
      have hstc : consIncStmt (cid, cgen) ({ s2 with db := d3, rpGen := m } : FS R) =
          .ok { db := d4a, rpGen := m, consGen := setGen s2.consGen cid (cgen + 1) } := by
        unfold consIncStmt
        dsimp only
        rw [hgc, f1]
      rw [List.map_cons, List.cons_append, runBody_cons_succ, hstc] at h
      dsimp only at h
      have hjle : j ≤ (crest.map (consIncStmt (R := R))).length := by
        apply Classical.byContradiction
        intro hlt
        exact runBody_beyond _ _ j (by simp at hlt ⊢; omega) sk h
      have hQ := runBody_fault_inv
        (fun t : FS R => t.rpGen = m ∧ getGen t.consGen cid = cgen + 1)
        (crest.map consIncStmt) [cleanupStmt allocs]
        ({ db := d4a, rpGen := m, consGen := setGen s2.consGen cid (cgen + 1) } : FS R) sk j
        (by
          intro st hst t t' ht e
          obtain ⟨q, hq, rfl⟩ := List.mem_map.1 hst
          obtain ⟨a1, a2⟩ := consIncStmt_ok e
          have hne : cid ≠ q.1 := by
            rw [List.map_cons, List.nodup_cons] at hndc'
            exact fun e => hndc'.1 (List.mem_map.2 ⟨q, hq, e.symm⟩)
          refine ⟨a1.trans ht.1, ?_⟩
          rw [a2, getGen_setGen_ne q.1 _ cid hne]; exact ht.2)
        hjle
        ⟨rfl, by show getGen (setGen s2.consGen cid (cgen + 1)) cid = _; rw [hs2c]; exact getGen_setGen_head (cid, cgen) crest (cgen + 1)⟩
        h
      obtain ⟨hQr, hQc⟩ := hQ
      -- the attempt after the rollback fails its first provider compare-and-swap
      have hWb := runBody_writeStmts_ok allocs (FS.rollback (FS.ofRequest db allocs) sk) res c1 c2
      generalize hs2b : setAllocsFS (FS.rollback (FS.ofRequest db allocs) sk)
        (writtenRows (FS.rollback (FS.ofRequest db allocs) sk).db allocs res) = s2b at hWb
      have hs2bdb : s2b.db = { db with allocs := writtenRows db allocs res } := by subst hs2b; rfl
      have hs2brp : s2b.rpGen = sk.rpGen := by subst hs2b; rfl
      have hs2bc : s2b.consGen = sk.consGen := by subst hs2b; rfl
      have hstb : rpIncStmt (id, gen) s2b = .error .rpConcurrentUpdate := by
        unfold rpIncStmt
        dsimp only
        have hst := incRpGen_stale (db := ({ db with allocs := writtenRows db allocs res } : DB R)) hU hr1
        rw [hr1id', hr1gen'] at hst
        rw [hs2brp, hQr, hmg, hs2bdb, hst]
      have hB : runBody (setAllocStmts allocs) (FS.rollback (FS.ofRequest db allocs) sk) none =
          .exc s2b .rpConcurrentUpdate := by
        rw [setAllocStmts_eq, runBody_append_done hWb]
        unfold genStmts
        rw [hp, List.map_cons, List.cons_append, List.cons_append, runBody_cons_none, hstb]
      have hfresh : s2b.rpGen.map (fun p => (p.1, ((db.rpById p.1).map (·.gen)).getD p.2)) = (id, gen) :: rest := by
        rw [hs2brp, hQr]
        exact freshGens_eq hU _ _ hmk hrows
      -- the third attempt: provider objects re-read, consumer object still at `g + 1`
      generalize hs3r' : ({ db := db, rpGen := (id, gen) :: rest, consGen := sk.consGen } : FS R) = s3r'
      have hs3 : ({ s2b with rpGen := s2b.rpGen.map (fun p => (p.1, ((db.rpById p.1).map (·.gen)).getD p.2)) } : FS R) =
          setAllocsFS s3r' (writtenRows db allocs res) := by
        rw [hfresh]
        subst hs3r'
        exact FS.ext_fields _ _ hs2bdb rfl hs2bc
      obtain ⟨l, hl, hfl⟩ := hEarly
      have hl' : l = writtenRows db allocs res := by
        have := congrArg (fun t : FS R => t.db.allocs) hl
        simp only [hs2db] at this
        exact this.symm
      subst hl'
      have hE3 : Early (allocs.map (·.consUuid)).eraseDups s3r' (setAllocsFS s3r' (writtenRows db allocs res)) := by
        refine ⟨_, rfl, ?_⟩
        subst hs3r'
        exact hfl
      have hWc := runBody_writeStmts_ok allocs s3r' res (by subst hs3r'; exact c1) (by subst hs3r'; exact c2)
      generalize hs2c' : setAllocsFS s3r' (writtenRows s3r'.db allocs res) = s2c at hWc
      have hs2cdb : s2c.db = { db with allocs := writtenRows db allocs res } := by subst hs2c'; subst hs3r'; rfl
      have hs2crp : s2c.rpGen = (id, gen) :: rest := by subst hs2c'; subst hs3r'; rfl
      have hs2cc : s2c.consGen = sk.consGen := by subst hs2c'; subst hs3r'; rfl
      obtain ⟨m', hm', -, -⟩ := rpPhase id gen rest s2c d3 hnd' hs2crp (by rw [hs2cdb]; exact c3)
      have hd3U : (d3.consumers.map (·.id)).Nodup := by rw [hd3c]; exact hUc
      have hstc3 : consIncStmt (cid, cgen) ({ s2c with db := d3, rpGen := m' } : FS R) = .error .concurrentUpdate := by
        unfold consIncStmt
        dsimp only
        have hst := incConsGen_stale hd3U hc0
        rw [hc0id, hc0gen] at hst
        rw [hs2cc, hQc, hst]
      have hC : runBody (setAllocStmts allocs) s3r' none =
          .exc ({ s2c with db := d3, rpGen := m' } : FS R) .concurrentUpdate := by
        rw [setAllocStmts_eq, runBody_append_done hWc]
        unfold genStmts
        rw [hp, hcp, List.append_assoc, runBody_append_done hm', List.map_cons, List.cons_append,
          runBody_cons_none, hstc3]
      rw [mainTxn_some, h0]
      unfold faultStep
      dsimp only
      rw [show retryCount = 9 + 1 from rfl, reloadLoop_exc_rp hB, hs3,
        show (9 : Nat) = 8 + 1 from rfl,
        reloadLoop_exc_other ((runBody_early allocs _ _ hE3).trans hC) (by decide)]
      rfl

end Placement.FaultL
