import Placement.Lemmas.GenPost
import Placement.Lemmas.WfExample
/-
  C04 / C11, part 1: the projection `core` of the state that carries API-visible meaning, the relation
  `Residue db db'` ("`db'` is `db` plus newly recorded project / user / consumer-type names and a larger
  fresh consumer id"), and what `ensure_consumer` / `inspect_consumers` do to the state in those terms.
-/
namespace Placement.Core
variable {R : Type}
set_option linter.unusedSectionVars false
set_option linter.unusedSimpArgs false

deriving instance DecidableEq for InvRow

/-- The part of the state with API-visible meaning: providers (name, parent, root, generation),
inventories, allocations, consumers (project, user, type, generation), provider traits and
aggregates, resource classes, traits.  Left out: the name registries `projects`, `users`, `ctypes`,
the registry `aggs` of aggregate uuids (an aggregate without association is not visible through the
API) and the fresh-id counters `nextRp`, `nextCons`. -/
structure CoreState (R : Type) where
  rps : List RpRow
  invs : List (InvRow R)
  allocs : List AllocRow
  consumers : List ConsRow
  rpTraits : List (Nat × Nat)
  rpAggs : List (Nat × Nat)
  rcs : List (Nat × Nat)
  traits : List Nat
deriving DecidableEq

def core (db : DB R) : CoreState R :=
  ⟨db.rps, db.invs, db.allocs, db.consumers, db.rpTraits, db.rpAggs, db.rcs, db.traits⟩

/-- every column that neither `ensure_consumer` nor the removal of consumer rows can touch -/
structure RestState (R : Type) where
  rps : List RpRow
  invs : List (InvRow R)
  allocs : List AllocRow
  rpTraits : List (Nat × Nat)
  rpAggs : List (Nat × Nat)
  rcs : List (Nat × Nat)
  traits : List Nat
  aggs : List Nat
  nextRp : Nat

def rest (db : DB R) : RestState R :=
  ⟨db.rps, db.invs, db.allocs, db.rpTraits, db.rpAggs, db.rcs, db.traits, db.aggs, db.nextRp⟩

/-- `db'` differs from `db` at most in the three name registries (which only grow, at the end) and in
the fresh consumer id (which only grows). -/
structure Residue (db db' : DB R) : Prop where
  rest : rest db' = rest db
  consumers : db'.consumers = db.consumers
  projects : db.projects <+: db'.projects
  users : db.users <+: db'.users
  ctypes : db.ctypes <+: db'.ctypes
  nextCons : db.nextCons ≤ db'.nextCons

theorem Residue.refl (db : DB R) : Residue db db :=
  ⟨rfl, rfl, List.prefix_refl _, List.prefix_refl _, List.prefix_refl _, Nat.le_refl _⟩

theorem Residue.of_eq {db db' : DB R} (h : db' = db) : Residue db db' := h ▸ Residue.refl db

theorem Residue.trans {a b c : DB R} (h1 : Residue a b) (h2 : Residue b c) : Residue a c :=
  ⟨h2.rest.trans h1.rest, h2.consumers.trans h1.consumers, h1.projects.trans h2.projects,
   h1.users.trans h2.users, h1.ctypes.trans h2.ctypes, Nat.le_trans h1.nextCons h2.nextCons⟩

theorem Residue.core {db db' : DB R} (h : Residue db db') : core db' = core db := by
  have h1 := h.rest
  have h2 := h.consumers
  simp only [Core.rest, RestState.mk.injEq] at h1
  obtain ⟨e1, e2, e3, e4, e5, e6, e7, -, -⟩ := h1
  simp only [Core.core, e1, e2, e3, e4, e5, e6, e7, h2]

/-- the explicit form: `db'` is `db` with four fields replaced -/
theorem Residue.eq {db db' : DB R} (h : Residue db db') :
    db' = { db with projects := db'.projects, users := db'.users, ctypes := db'.ctypes,
                    nextCons := db'.nextCons } := by
  have h1 := h.rest
  have h2 := h.consumers
  simp only [Core.rest, RestState.mk.injEq] at h1
  obtain ⟨e1, e2, e3, e4, e5, e6, e7, e8, e9⟩ := h1
  cases db'; cases db
  simp only at e1 e2 e3 e4 e5 e6 e7 e8 e9 h2
  simp only [e1, e2, e3, e4, e5, e6, e7, e8, e9, h2]

theorem prefix_addIfMissing (l : List Nat) (x : Nat) : l <+: addIfMissing l x := by
  unfold addIfMissing
  split
  · exact List.prefix_refl _
  · exact List.prefix_append _ _

/-! ### `ensure_consumer` -/

/-- the state while consumers are being ensured: `db0` plus names plus the rows created so far
(`created` lists their ids), all with fresh ids -/
structure Ext (db0 db : DB R) (created : List Nat) : Prop where
  rest : rest db = rest db0
  projects : db0.projects <+: db.projects
  users : db0.users <+: db.users
  ctypes : db0.ctypes <+: db.ctypes
  nextCons : db0.nextCons ≤ db.nextCons
  cons : ∃ extra, db.consumers = db0.consumers ++ extra ∧ created = extra.map (·.id) ∧
    ∀ e ∈ extra, db0.nextCons ≤ e.id

theorem Ext.refl (db : DB R) : Ext db db [] :=
  ⟨rfl, List.prefix_refl _, List.prefix_refl _, List.prefix_refl _, Nat.le_refl _, [], by simp, rfl, by simp⟩

/-- removing the rows created by this request gives back the table the request started with -/
theorem Ext.delete {db0 db : DB R} {created : List Nat} (h : Ext db0 db created)
    (hf : ∀ b ∈ db0.consumers, b.id < db0.nextCons) : Residue db0 (deleteConsumerRows db created) := by
  obtain ⟨extra, hc, rfl, he⟩ := h.cons
  refine ⟨h.rest, ?_, h.projects, h.users, h.ctypes, h.nextCons⟩
  simp only [deleteConsumerRows, hc]
  exact Gens.filter_created hf he

/-- nothing was created: the state is the original plus names -/
theorem Ext.nil {db0 db : DB R} (h : Ext db0 db []) : Residue db0 db := by
  obtain ⟨extra, hc, hcr, -⟩ := h.cons
  have : extra = [] := by simpa using hcr.symm
  subst this
  exact ⟨h.rest, by simpa using hc, h.projects, h.users, h.ctypes, h.nextCons⟩

/-- `ensure_consumer` changes the name registries, and either nothing else, or it appends one
consumer row carrying the next fresh id -/
theorem ensureConsumer_shape (cfg : Config) (db : DB R) (mv : Nat) (c : ConsumerReq) :
    rest (ensureConsumer cfg db mv c).1 = rest db ∧
    db.projects <+: (ensureConsumer cfg db mv c).1.projects ∧
    db.users <+: (ensureConsumer cfg db mv c).1.users ∧
    db.ctypes <+: (ensureConsumer cfg db mv c).1.ctypes ∧
    (((ensureConsumer cfg db mv c).1.consumers = db.consumers ∧
      (ensureConsumer cfg db mv c).1.nextCons = db.nextCons ∧
      ∀ cons isNew attr, (ensureConsumer cfg db mv c).2 = .ok (cons, isNew, attr) → isNew = false) ∨
     (∃ row attr, (ensureConsumer cfg db mv c).2 = .ok (row, true, attr) ∧ row.id = db.nextCons ∧
      (ensureConsumer cfg db mv c).1.consumers = db.consumers ++ [row] ∧
      (ensureConsumer cfg db mv c).1.nextCons = db.nextCons + 1)) := by
  unfold ensureConsumer
  dsimp only
  split
  · split
    · exact ⟨rfl, prefix_addIfMissing _ _, prefix_addIfMissing _ _, List.prefix_refl _,
        .inl ⟨rfl, rfl, fun _ _ _ h => by cases h⟩⟩
    · refine ⟨?_, ?_, ?_, ?_, .inl ⟨?_, ?_, ?_⟩⟩
      · split
        · split <;> rfl
        · rfl
      · split
        · split <;> exact prefix_addIfMissing _ _
        · exact prefix_addIfMissing _ _
      · split
        · split <;> exact prefix_addIfMissing _ _
        · exact prefix_addIfMissing _ _
      · split
        · split
          · exact prefix_addIfMissing _ _
          · exact List.prefix_refl _
        · exact List.prefix_refl _
      · split
        · split <;> rfl
        · rfl
      · split
        · split <;> rfl
        · rfl
      · intro cons' isNew attr h
        simp only [Except.ok.injEq, Prod.mk.injEq] at h
        exact h.2.1.symm
  · split
    · exact ⟨rfl, prefix_addIfMissing _ _, prefix_addIfMissing _ _, List.prefix_refl _,
        .inl ⟨rfl, rfl, fun _ _ _ h => by cases h⟩⟩
    · refine ⟨?_, ?_, ?_, ?_, .inr ⟨_, _, rfl, ?_, ?_, ?_⟩⟩
      · split
        · split <;> rfl
        · rfl
      · split
        · split <;> exact prefix_addIfMissing _ _
        · exact prefix_addIfMissing _ _
      · split
        · split <;> exact prefix_addIfMissing _ _
        · exact prefix_addIfMissing _ _
      · split
        · split
          · exact prefix_addIfMissing _ _
          · exact List.prefix_refl _
        · exact List.prefix_refl _
      · split
        · split <;> rfl
        · rfl
      · split
        · split <;> rfl
        · rfl
      · split
        · split <;> rfl
        · rfl

theorem Ext.ensure {db0 db : DB R} {created : List Nat} (h : Ext db0 db created) (cfg : Config) (mv : Nat)
    (c : ConsumerReq) :
    match (ensureConsumer cfg db mv c).2 with
    | .error _ => Ext db0 (ensureConsumer cfg db mv c).1 created
    | .ok (cons, isNew, _) =>
      Ext db0 (ensureConsumer cfg db mv c).1 (if isNew then created ++ [cons.id] else created) := by
  obtain ⟨hr, hp, hu, ht, hcase⟩ := ensureConsumer_shape cfg db mv c
  obtain ⟨extra, hc, hcr, he⟩ := h.cons
  rcases hcase with ⟨hcons, hn, hnew⟩ | ⟨row, attr, hok, hid, hcons, hn⟩
  · have hE : Ext db0 (ensureConsumer cfg db mv c).1 created :=
      ⟨hr.trans h.rest, h.projects.trans hp, h.users.trans hu, h.ctypes.trans ht, hn ▸ h.nextCons,
       extra, hcons.trans hc, hcr, he⟩
    split
    · exact hE
    · rename_i cons isNew attr heq
      rw [hnew cons isNew attr heq]
      exact hE
  · rw [hok]
    dsimp only
    refine ⟨hr.trans h.rest, h.projects.trans hp, h.users.trans hu, h.ctypes.trans ht, ?_,
      extra ++ [row], ?_, ?_, ?_⟩
    · rw [hn]; exact Nat.le_succ_of_le h.nextCons
    · rw [hcons, hc, List.append_assoc]
    · simp [hcr]
    · intro e hem
      rcases List.mem_append.mp hem with h2 | h2
      · exact he e h2
      · rw [List.mem_singleton.mp h2, hid]; exact h.nextCons

/-- `inspect_consumers`: on failure nothing but names remains; on success the state is the original
plus names plus the created rows -/
theorem inspectConsumers_ext (cfg : Config) (mv : Nat) {db0 : DB R}
    (hf : ∀ b ∈ db0.consumers, b.id < db0.nextCons) :
    ∀ (cs : List ConsumerReq) (db : DB R) acc created, Ext db0 db created →
      match (inspectConsumers cfg mv db cs acc created).2 with
      | .error _ => Residue db0 (inspectConsumers cfg mv db cs acc created).1
      | .ok (_, created') => Ext db0 (inspectConsumers cfg mv db cs acc created).1 created'
  | [], db, acc, created, h => by unfold inspectConsumers; exact h
  | c :: cs, db, acc, created, h => by
    have hE := h.ensure cfg mv c
    rcases heq : ensureConsumer cfg db mv c with ⟨db1, r | ⟨cons, isNew, attr⟩⟩
    · rw [heq] at hE
      simp only [inspectConsumers, heq]
      exact hE.delete hf
    · rw [heq] at hE
      simp only [inspectConsumers, heq]
      exact inspectConsumers_ext cfg mv hf cs db1 _ _ hE

end Placement.Core
