import Placement.Lemmas.CoreRenEns
/-
  C11, history theorem, part 6: the allocation-writing handlers on two `Sim`-related states give the
  same response, and on success `Sim`-related states (for a possibly extended renaming).
-/
namespace Placement.Core
variable {R : Type} [CapOps R]
set_option linter.unusedSimpArgs false
set_option linter.unusedSectionVars false
set_option linter.unusedVariables false

/-- what a handler does on two related states -/
def HRel (x y : DB R × Resp) : Prop :=
  x.2 = y.2 ∧ (x.2.ok = true → ∃ ρ' dom', Sim ρ' dom' x.1 y.1 ∧ InjOn ρ' dom')

theorem HRel.err {a' b' : DB R} {r : Resp} (h : 400 ≤ r.status) : HRel (a', r) (b', r) :=
  ⟨rfl, fun hok => by rw [Gens.not_ok_of_400 h] at hok; cases hok⟩

theorem Sim.resolveReshapeRps {ρ : Nat → Nat} {dom : List Nat} {a b : DB R} (h : Sim ρ dom a b)
    (invs : List (RpInvReq R)) : resolveReshapeRps b invs = resolveReshapeRps a invs := by
  rw [eq_putSide_of_rest h.rest, resolveReshapeRps_side]

theorem Sim.setAllocs {ρ : Nat → Nat} {dom : List Nat} {a b : DB R} (h : Sim ρ dom a b) (X : List AllocRow) :
    Sim ρ dom { a with allocs := X } { b with allocs := X } := by
  refine ⟨?_, h.cons, h.ids⟩
  have h1 := h.rest
  simp only [Core.rest, RestState.mk.injEq] at h1 ⊢
  obtain ⟨e1, e2, e3, e4, e5, e6, e7, e8, e9⟩ := h1
  exact ⟨e1, e2, trivial, e4, e5, e6, e7, e8, e9⟩

theorem objs_ids {ρ : Nat → Nat} {dom : List Nat} {a1 b1 : DB R} (h : Sim ρ dom a1 b1)
    {triples : List (ConsumerReq × ConsRow × ReqAttr)} (ht : ∀ t ∈ triples, t.2.1.id ∈ dom)
    {objs : List AllocReq} (ho : allocObjectsAll a1 triples = .ok objs) : ∀ o ∈ objs, o.consId ∈ dom := by
  intro o hom
  rcases allocObjectsAll_ids ho o hom with ⟨t, htm, e⟩ | ⟨cur, hc, e⟩
  · rw [e]; exact ht t htm
  · rw [e]; exact h.ids cur hc

/-! ### POST /allocations -/

theorem hAllocPost_sim {ρ : Nat → Nat} {dom : List Nat} {a b : DB R} (h : ISim ρ dom a b) (cfg : Config)
    (mv : Nat) (cs : List ConsumerReq) : HRel (hAllocPost cfg a mv cs) (hAllocPost cfg b mv cs) := by
  have hI := inspectConsumers_sim cfg mv cs ρ dom a b [] [] h (by simp) (by simp)
  simp only [List.map_nil] at hI
  unfold hAllocPost
  by_cases hmv : mv < 13
  · simp only [hmv, ↓reduceIte]
    exact HRel.err (by simp [r404])
  · simp only [hmv, ↓reduceIte]
    rcases hia : inspectConsumers cfg mv a cs [] [] with ⟨a1, ra | ⟨triples, created⟩⟩ <;>
    rcases hib : inspectConsumers cfg mv b cs [] [] with ⟨b1, rb | ⟨triples', created'⟩⟩ <;>
    rw [hia, hib] at hI
    · simp only []
      have : ra = rb := hI
      subst this
      rw [Gens.inspectConsumers_err_status cfg mv _ _ _ _ _ _ hia]
      exact HRel.err (by simp [r409])
    · exact hI.elim
    · exact hI.elim
    · obtain ⟨ρ', dom', h', e1, e2, ht, hc⟩ := hI
      subst e1; subst e2
      simp only []
      rw [allocObjectsAll_sim h'.sim]
      cases hoa : allocObjectsAll a1 triples with
      | error r =>
        simp only [map_error]
        rw [Gens.allocObjectsAll_err _ _ hoa]
        exact HRel.err (by simp [r400])
      | ok objs =>
        simp only [map_ok]
        have h2 := updateConsumers_sim h'.inj triples h'.sim ht
        have h3 := setAllocations_sim h2 h'.inj (objs := objs) (objs_ids h'.sim ht hoa)
        cases hsa : setAllocations (updateConsumers a1 triples) objs with
        | error e =>
          rw [hsa] at h3
          cases hsb : setAllocations (updateConsumers b1 (triples.map (renT ρ'))) (objs.map (renO ρ')) with
          | error e' =>
            rw [hsb] at h3
            have : e = e' := h3
            subst this
            exact HRel.err (Gens.allocErr_status e)
          | ok b3 => rw [hsb] at h3; exact h3.elim
        | ok a3 =>
          rw [hsa] at h3
          cases hsb : setAllocations (updateConsumers b1 (triples.map (renT ρ'))) (objs.map (renO ρ')) with
          | error e' => rw [hsb] at h3; exact h3.elim
          | ok b3 =>
            rw [hsb] at h3
            refine ⟨rfl, fun _ => ⟨ρ', dom', ?_, h'.inj⟩⟩
            simp only []
            rw [createdEmpty_ren h'.inj triples created ht hc]
            exact deleteConsumerRows_sim h3 h'.inj
              (fun i hi => hc i (createdEmpty_subset triples created i hi))

/-! ### POST /reshaper -/

theorem hReshape_sim {ρ : Nat → Nat} {dom : List Nat} {a b : DB R} (h : ISim ρ dom a b) (cfg : Config)
    (mv : Nat) (invs : List (RpInvReq R)) (cs : List ConsumerReq) :
    HRel (hReshape cfg a mv invs cs) (hReshape cfg b mv invs cs) := by
  have hI := inspectConsumers_sim cfg mv cs ρ dom a b [] [] h (by simp) (by simp)
  simp only [List.map_nil] at hI
  unfold hReshape
  by_cases hmv : mv < 30
  · simp only [hmv, ↓reduceIte]
    exact HRel.err (by simp [r404])
  · simp only [hmv, ↓reduceIte]
    rw [h.sim.resolveReshapeRps]
    cases hres : resolveReshapeRps a invs with
    | error r =>
      simp only []
      exact HRel.err (Gens.resolveReshapeRps_err hres)
    | ok rinvs =>
      simp only []
      rcases hia : inspectConsumers cfg mv a cs [] [] with ⟨a1, ra | ⟨triples, created⟩⟩ <;>
      rcases hib : inspectConsumers cfg mv b cs [] [] with ⟨b1, rb | ⟨triples', created'⟩⟩ <;>
      rw [hia, hib] at hI
      · simp only []
        have : ra = rb := hI
        subst this
        rw [Gens.inspectConsumers_err_status cfg mv _ _ _ _ _ _ hia]
        exact HRel.err (by simp [r409])
      · exact hI.elim
      · exact hI.elim
      · obtain ⟨ρ', dom', h', e1, e2, ht, hc⟩ := hI
        subst e1; subst e2
        simp only []
        rw [allocObjectsAll_sim h'.sim]
        cases hoa : allocObjectsAll a1 triples with
        | error r =>
          simp only [map_error]
          rw [Gens.allocObjectsAll_err _ _ hoa]
          exact HRel.err (by simp [r400])
        | ok objs =>
          simp only [map_ok]
          have h2 := updateConsumers_sim h'.inj triples h'.sim ht
          have h3 := reshapeTxn_sim h2 h'.inj rinvs (objs := objs) (objs_ids h'.sim ht hoa)
          cases hsa : reshapeTxn (updateConsumers a1 triples) rinvs objs with
          | error e =>
            rw [hsa] at h3
            cases hsb : reshapeTxn (updateConsumers b1 (triples.map (renT ρ'))) rinvs (objs.map (renO ρ')) with
            | error e' =>
              rw [hsb] at h3
              have : e = e' := h3
              subst this
              exact HRel.err (by
                unfold reshapeErr; repeat' split
                all_goals simp [r400, r409, r500])
            | ok b3 => rw [hsb] at h3; exact h3.elim
          | ok a3 =>
            rw [hsa] at h3
            cases hsb : reshapeTxn (updateConsumers b1 (triples.map (renT ρ'))) rinvs (objs.map (renO ρ')) with
            | error e' => rw [hsb] at h3; exact h3.elim
            | ok b3 =>
              rw [hsb] at h3
              refine ⟨rfl, fun _ => ⟨ρ', dom', ?_, h'.inj⟩⟩
              simp only []
              rw [createdEmpty_ren h'.inj triples created ht hc]
              exact deleteConsumerRows_sim h3 h'.inj
                (fun i hi => hc i (createdEmpty_subset triples created i hi))

/-! ### PUT /allocations/{consumer} -/

theorem hAllocPut_sim {ρ : Nat → Nat} {dom : List Nat} {a b : DB R} (h : ISim ρ dom a b) (cfg : Config)
    (mv : Nat) (c : ConsumerReq) : HRel (hAllocPut cfg a mv c) (hAllocPut cfg b mv c) := by
  obtain ⟨ρ', dom', h', hag, hrel⟩ := ensureConsumer_sim h cfg mv c
  unfold hAllocPut
  by_cases hmv : (decide (mv < 28) && c.allocs.isEmpty) = true
  · simp only [hmv, ↓reduceIte]
    exact HRel.err (by simp [r400])
  · simp only [hmv, Bool.false_eq_true, ↓reduceIte]
    rcases hea : ensureConsumer cfg a mv c with ⟨a1, ra | ⟨cons, created, attr⟩⟩ <;>
    rcases heb : ensureConsumer cfg b mv c with ⟨b1, rb | ⟨cons', created', attr'⟩⟩ <;>
    rw [hea, heb] at hrel h'
    · simp only []
      have : ra = rb := hrel
      subst this
      rw [(Gens.ensureConsumer_err (by rw [hea] : (ensureConsumer cfg a mv c).2 = .error ra)).1]
      exact HRel.err (by simp [r409])
    · exact hrel.elim
    · exact hrel.elim
    · obtain ⟨e1, e2, e3, hid⟩ := hrel
      subst e1; subst e2; subst e3
      simp only []
      rw [allocObjects_sim h'.sim]
      have hone : ([cons.id] : List Nat).map ρ' = [(renC ρ' cons).id] := rfl
      have hcid : ∀ i ∈ [cons.id], i ∈ dom' := fun i hi => by rw [List.mem_singleton.mp hi]; exact hid
      cases hoa : allocObjects a1 cons c with
      | error r =>
        simp only [map_error]
        rw [Gens.allocObjects_err hoa]
        exact HRel.err (by simp [r400])
      | ok objs =>
        simp only [map_ok]
        have hids : ∀ o ∈ objs, o.consId ∈ dom' := by
          intro o ho
          rcases allocObjects_ids hoa o ho with e | ⟨cur, hc, e⟩
          · rw [e]; exact hid
          · rw [e]; exact h'.sim.ids cur hc
        have h2 := updateConsumer_sim h'.sim h'.inj hid attr'
        have h3 := setAllocations_sim h2 h'.inj (objs := objs) hids
        cases hsa : setAllocations (updateConsumer a1 cons attr') objs with
        | error e =>
          rw [hsa] at h3
          cases hsb : setAllocations (updateConsumer b1 (renC ρ' cons) attr') (objs.map (renO ρ')) with
          | error e' =>
            rw [hsb] at h3
            have : e = e' := h3
            subst this
            exact HRel.err (Gens.allocErr_status e)
          | ok b3 => rw [hsb] at h3; exact h3.elim
        | ok a3 =>
          rw [hsa] at h3
          cases hsb : setAllocations (updateConsumer b1 (renC ρ' cons) attr') (objs.map (renO ρ')) with
          | error e' => rw [hsb] at h3; exact h3.elim
          | ok b3 =>
            rw [hsb] at h3
            refine ⟨rfl, fun _ => ⟨ρ', dom', ?_, h'.inj⟩⟩
            simp only []
            have hemp : (objs.map (renO ρ')).isEmpty = objs.isEmpty := by cases objs <;> rfl
            rw [hemp]
            split
            · rw [← hone]; exact deleteConsumerRows_sim h3 h'.inj hcid
            · exact h3

/-! ### DELETE /allocations/{consumer} -/

theorem hAllocDelete_sim {ρ : Nat → Nat} {dom : List Nat} {a b : DB R} (h : Sim ρ dom a b) (hinj : InjOn ρ dom)
    (c : Nat) : HRel (hAllocDelete a c) (hAllocDelete b c) := by
  unfold hAllocDelete
  rw [h.allocs]
  split
  · refine ⟨rfl, fun _ => ⟨ρ, dom, ?_, hinj⟩⟩
    unfold deleteAllocations
    rw [h.allocs]
    exact deleteConsumersIfNoAllocs_sim (h.setAllocs _) [c]
  · exact HRel.err (by simp [r404])

end Placement.Core
