import Placement.Model.Txn
import Placement.Gen.Guards
/-
  Tie #1 (translator): the guards the hand-written model evaluates ARE the guards translated from
  the Python source on this run (`Gen/Guards.lean` is regenerated from /repo by
  harness/extractors/guards.py before every build).  A changed comparison, a dropped conjunct or a
  changed constant in the source changes the generated definition and these equations stop checking.
  The property theorem files import this module.
-/
namespace Placement.GuardTie
open Placement
variable {R : Type} [CapOps R]

theorem unitViolated_tie (i : InvRow R) (amount : Int) :
    unitViolated i amount = Gen.unitViolated i amount := by
  unfold unitViolated Gen.unitViolated
  by_cases h : amount % i.stepSize = 0 <;> simp [h]

theorem capacityExceeded_tie (i : InvRow R) (used amount running : Int) :
    capacityExceeded i used amount running = Gen.capacityExceeded i used amount running := rfl

/-- the loop skips exactly the zero amounts -/
theorem skipEntry_tie (amount : Int) : (amount == 0) = Gen.skipEntry amount := by
  unfold Gen.skipEntry
  by_cases h : amount = 0 <;> simp [h]

theorem invCapacityInvalid_tie (mv : Nat) (i : InvSpec R) :
    invCapacityInvalid mv i = Gen.inventoryCapacityInvalid mv (Gen.inventoryCapacity i.total i.reserved i.ratio) := by
  unfold invCapacityInvalid Gen.inventoryCapacityInvalid Gen.inventoryCapacity
  by_cases h : mv < 26 <;> simp [h]

theorem incRpGen_tie (db : DB R) (id gen : Nat) :
    incRpGen db id gen =
      match db.rps.find? (Gen.rpCasWhere id gen) with
      | some _ => .ok (db.setRp id (fun r => { r with gen := Gen.rpCasNew gen }))
      | none => .error .rpConcurrentUpdate := rfl

theorem incConsGen_tie (db : DB R) (id gen : Nat) :
    incConsGen db id gen =
      match db.consumers.find? (Gen.consCasWhere id gen) with
      | some _ =>
        let cs := db.consumers.map (fun c => if c.id == id then { c with gen := Gen.consCasNew gen } else c)
        .ok { db with consumers := cs }
      | none => .error .concurrentUpdate := rfl

/-- compare-and-swap succeeds iff exactly the rows matching the WHERE clause were updated (ids are unique) -/
theorem cas_failed_tie : Gen.rpCasFailed 1 = false ∧ Gen.rpCasFailed 0 = true ∧
    Gen.consCasFailed 1 = false ∧ Gen.consCasFailed 0 = true := by decide

theorem constants_tie : minCustomRcId = Gen.minCustomRcId ∧ retryCount = Gen.allocationConflictRetryCount := by decide

theorem consumer_generation_gates_tie (mv : Nat) :
    (decide (mv ≥ 28) = Gen.requiresConsumerGeneration mv) ∧ (decide (mv ≥ 38) = Gen.requiresConsumerType mv) := by
  simp [Gen.requiresConsumerGeneration, Gen.requiresConsumerType]

/-- `ensure_consumer`'s two generation tests as the model's `aGetConsumer` / `ensureConsumer` write them -/
theorem consumer_generation_tests_tie (stored : Nat) (given : Option Nat) :
    ((some stored != given) = Gen.consumerGenMismatch stored given) ∧ (given.isSome = Gen.consumerGenUnexpected given) :=
  ⟨rfl, rfl⟩

end Placement.GuardTie
