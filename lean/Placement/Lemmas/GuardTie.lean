import Placement.Model.Txn
import Placement.Gen.Guards
/-
  Tie #1 (translator): the guards the hand-written model evaluates ARE the guards translated from
  the Python source on this run (`Gen/Guards.lean` is regenerated from /repo by
  harness/extractors/guards.py before every build).  A changed comparison, a dropped conjunct or a
  changed constant in the source changes the generated definition and these equations stop checking.
  The property theorem files import this module.
-/
namespace Placement.GuardTie
open Placement
variable {R : Type} [CapOps R]

theorem unitViolated_tie (i : InvRow R) (amount : Int) :
    unitViolated i amount = Gen.unitViolated i amount := by
  unfold unitViolated Gen.unitViolated
  by_cases h : amount % i.stepSize = 0 <;> simp [h]

theorem capacityExceeded_tie (i : InvRow R) (used amount running : Int) :
    capacityExceeded i used amount running = Gen.capacityExceeded i used amount running := rfl

/-- the loop skips exactly the zero amounts -/
theorem skipEntry_tie (amount : Int) : (amount == 0) = Gen.skipEntry amount := by
  unfold Gen.skipEntry
  by_cases h : amount = 0 <;> simp [h]

theorem invCapacityInvalid_tie (mv : Nat) (i : InvSpec R) :
    invCapacityInvalid mv i = Gen.inventoryCapacityInvalid mv (Gen.inventoryCapacity i.total i.reserved i.ratio) := by
  unfold invCapacityInvalid Gen.inventoryCapacityInvalid Gen.inventoryCapacity
  by_cases h : mv < 26 <;> simp [h]

theorem incRpGen_tie (db : DB R) (id gen : Nat) :
    incRpGen db id gen =
      match db.rps.find? (Gen.rpCasWhere id gen) with
      | some _ => .ok (db.setRp id (fun r => { r with gen := Gen.rpCasNew gen }))
      | none => .error .rpConcurrentUpdate := rfl

theorem incConsGen_tie (db : DB R) (id gen : Nat) :
    incConsGen db id gen =
      match db.consumers.find? (Gen.consCasWhere id gen) with
      | some _ =>
        let cs := db.consumers.map (fun c => if c.id == id then { c with gen := Gen.consCasNew gen } else c)
        .ok { db with consumers := cs }
      | none => .error .concurrentUpdate := rfl

/-- compare-and-swap succeeds iff exactly the rows matching the WHERE clause were updated (ids are unique) -/
theorem cas_failed_tie : Gen.rpCasFailed 1 = false ∧ Gen.rpCasFailed 0 = true ∧
    Gen.consCasFailed 1 = false ∧ Gen.consCasFailed 0 = true := by decide

theorem constants_tie : minCustomRcId = Gen.minCustomRcId ∧ retryCount = Gen.allocationConflictRetryCount := by decide

theorem consumer_generation_gates_tie (mv : Nat) :
    (decide (mv ≥ 28) = Gen.requiresConsumerGeneration mv) ∧ (decide (mv ≥ 38) = Gen.requiresConsumerType mv) := by
  simp [Gen.requiresConsumerGeneration, Gen.requiresConsumerType]

/-- `ensure_consumer`'s two generation tests as the model's `aGetConsumer` / `ensureConsumer` write them -/
theorem consumer_generation_tests_tie (stored : Nat) (given : Option Nat) :
    ((some stored != given) = Gen.consumerGenMismatch stored given) ∧ (given.isSome = Gen.consumerGenUnexpected given) :=
  ⟨rfl, rfl⟩

/-! ### the retry loop of `replace_all` (generated control flow, `Gen.replaceAllLoop`)

The model's `replaceAll` is written with exactly this flow (an attempt that succeeds ends the loop, a provider generation
conflict starts the next attempt while any is left, running out of attempts raises the conflict).  The three statements
below are what C05 / C07 / C10 need of it; they are proved of the GENERATED function, so a `break` / `return` smuggled
into the conflict handler, or a dropped `else: raise`, changes the definition and the proofs no longer check. -/

/-- the function never returns normally without a successful attempt, and raises nothing but the conflict -/
theorem retry_loop_never_silent (attempt : Nat → Bool) :
    ∀ r i, Gen.replaceAllLoop attempt r i ≠ .leftWithoutSuccess ∧ Gen.replaceAllLoop attempt r i ≠ .raisedOther
  | 0, i => by simp [Gen.replaceAllLoop]
  | r + 1, i => by
    simp only [Gen.replaceAllLoop]
    split
    · simp
    · exact retry_loop_never_silent attempt r (i + 1)

/-- it ends with the first attempt that succeeds -/
theorem retry_loop_succeeded (attempt : Nat → Bool) :
    ∀ r i k, Gen.replaceAllLoop attempt r i = .succeeded k →
      attempt k = true ∧ i ≤ k ∧ k < i + r ∧ ∀ j, i ≤ j → j < k → attempt j = false
  | 0, i, k, h => by simp [Gen.replaceAllLoop] at h
  | r + 1, i, k, h => by
    simp only [Gen.replaceAllLoop] at h
    split at h
    · rename_i ha
      cases h
      exact ⟨ha, Nat.le_refl _, by omega, fun j h1 h2 => by omega⟩
    · rename_i ha
      obtain ⟨h1, h2, h3, h4⟩ := retry_loop_succeeded attempt r (i + 1) k h
      refine ⟨h1, by omega, by omega, fun j hj1 hj2 => ?_⟩
      by_cases hji : j = i
      · subst hji; simpa using ha
      · exact h4 j (by omega) hj2

/-- it raises the conflict exactly when every permitted attempt lost -/
theorem retry_loop_raises_iff (attempt : Nat → Bool) :
    ∀ r i, Gen.replaceAllLoop attempt r i = .raisedConflict ↔ ∀ j, i ≤ j → j < i + r → attempt j = false
  | 0, i => by simp [Gen.replaceAllLoop]; intro j h1 h2; omega
  | r + 1, i => by
    simp only [Gen.replaceAllLoop]
    split
    · rename_i ha
      constructor
      · intro h; cases h
      · intro h; have := h i (Nat.le_refl _) (by omega); rw [ha] at this; cases this
    · rename_i ha
      rw [retry_loop_raises_iff attempt r (i + 1)]
      constructor
      · intro h j h1 h2
        by_cases hji : j = i
        · subst hji; simpa using ha
        · exact h j (by omega) (by omega)
      · intro h j h1 h2
        exact h j (by omega) (by omega)

/-- with the configured number of attempts: ten conflicts in a row are needed for the request to fail -/
example : Gen.replaceAllLoop (fun i => i == 9) Gen.allocationConflictRetryCount 0 = .succeeded 9 := by decide
example : Gen.replaceAllLoop (fun _ => false) Gen.allocationConflictRetryCount 0 = .raisedConflict := by decide

end Placement.GuardTie
