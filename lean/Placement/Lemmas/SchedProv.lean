import Placement.Lemmas.CrashOther
/-
  Provider update / delete as transaction programs (`pRpUpdate`, `pRpDelete` of Model/Txn.lean: the
  look-up of `get_by_uuid`, then the write transaction of `save()` / `destroy()`).

  * run alone they are the handlers of Model/Handlers.lean (`pRpUpdate_runSeq`, `pRpDelete_runSeq`);
  * every pool of request programs, under EVERY schedule, keeps the hierarchy invariant `HInv`
    (`pool_hinv`), because every transaction of every program keeps it on any state (`prog_hinv_all`).
-/
namespace Placement.Sched
open Placement Placement.Hier Placement.Crash
variable {R : Type} [CapOps R]

theorem pRpUpdate_runSeq (s : DB R) (mv u n : Nat) (p : Option (Option Nat)) :
    Prog.runSeq 2 (pRpUpdate mv u n p) s = ((hRpUpdate s mv u n p).1, some (hRpUpdate s mv u n p).2) := by
  unfold hRpUpdate pRpUpdate
  simp only [Prog.runSeq, tRpUpdateR]
  repeat' split
  all_goals simp_all [Prog.runSeq, tRpUpdateW, errRpUpdate]

theorem pRpDelete_runSeq (s : DB R) (u : Nat) :
    Prog.runSeq 2 (pRpDelete u) s = ((hRpDelete s u).1, some (hRpDelete s u).2) := by
  unfold hRpDelete pRpDelete
  simp only [Prog.runSeq, tRpDeleteR]
  repeat' split
  all_goals simp_all [Prog.runSeq, tRpDeleteW, errRpDelete]

/-- every pool of requests, every schedule: unique provider ids, forest, root pointers -/
theorem pool_hinv (cfg : Config) (ops : List (Op R)) (sched : List Nat) {db : DB R} (h : HInv db) :
    HInv (Prog.runSched sched db (ops.map (prog cfg))).1 := by
  have hpool : PoolAll (fun s s' : DB R => HInv s → HInv s') (ops.map (prog cfg)) := by
    intro p hp
    obtain ⟨op, -, rfl⟩ := List.mem_map.mp hp
    exact prog_hinv_all cfg op
  exact (PoolAll.runSched (Q := fun s s' : DB R => HInv s → HInv s') (fun s => HInv s) (fun _ _ q hs => q hs)
    sched db _ hpool h).2

end Placement.Sched
