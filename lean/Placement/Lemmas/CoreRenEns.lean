import Placement.Lemmas.CoreRenTxn
import Placement.Lemmas.CoreStatus
/-
  C11, history theorem, part 5: `ensure_consumer` and `inspect_consumers` on two `Sim`-related states.
  A consumer row created on both sides gets the next fresh id of each side; the renaming is extended
  by that pair.
-/
namespace Placement.Core
variable {R : Type} [CapOps R]
set_option linter.unusedSimpArgs false
set_option linter.unusedSectionVars false
set_option linter.unusedVariables false

/-- project, user and consumer type `ensure_consumer` passes on -/
def reqAttr (cfg : Config) (mv : Nat) (c : ConsumerReq) : ReqAttr :=
  { project := c.project.getD cfg.incompleteProject,
    user := if c.project.isNone then cfg.incompleteUser else c.user.getD cfg.incompleteUser,
    ctype := if mv ≥ 38 then c.ctype else none }

/-- the row `ensure_consumer` creates -/
def newRow (cfg : Config) (mv : Nat) (c : ConsumerReq) (id : Nat) : ConsRow :=
  { id := id, uuid := c.uuid, project := (reqAttr cfg mv c).project, user := (reqAttr cfg mv c).user,
    ctype := (reqAttr cfg mv c).ctype, gen := 0 }

/-- `ensure_consumer`, by cases on the consumer record and the generation check -/
theorem ensureConsumer_cases (cfg : Config) (db : DB R) (mv : Nat) (c : ConsumerReq) :
    rest (ensureConsumer cfg db mv c).1 = rest db ∧
    match db.consByUuid c.uuid with
    | some cons =>
      if (decide (mv ≥ 28) && (some cons.gen != c.gen)) = true then
        (ensureConsumer cfg db mv c).2 = .error (r409 .concurrentUpdate) ∧
        (ensureConsumer cfg db mv c).1.consumers = db.consumers ∧
        (ensureConsumer cfg db mv c).1.nextCons = db.nextCons
      else
        (ensureConsumer cfg db mv c).2 = .ok (cons, false, reqAttr cfg mv c) ∧
        (ensureConsumer cfg db mv c).1.consumers = db.consumers ∧
        (ensureConsumer cfg db mv c).1.nextCons = db.nextCons
    | none =>
      if (decide (mv ≥ 28) && c.gen.isSome) = true then
        (ensureConsumer cfg db mv c).2 = .error (r409 .concurrentUpdate) ∧
        (ensureConsumer cfg db mv c).1.consumers = db.consumers ∧
        (ensureConsumer cfg db mv c).1.nextCons = db.nextCons
      else
        (ensureConsumer cfg db mv c).2 = .ok (newRow cfg mv c db.nextCons, true, reqAttr cfg mv c) ∧
        (ensureConsumer cfg db mv c).1.consumers = db.consumers ++ [newRow cfg mv c db.nextCons] ∧
        (ensureConsumer cfg db mv c).1.nextCons = db.nextCons + 1 := by
  refine ⟨(ensureConsumer_shape cfg db mv c).1, ?_⟩
  unfold ensureConsumer
  dsimp only
  rw [ensureConsumer_consByUuid]
  cases db.consByUuid c.uuid with
  | some cons =>
    dsimp only
    split
    · (refine ⟨?_, ?_, ?_⟩ <;> first | rfl | trivial)
    · unfold reqAttr
      by_cases h38 : mv ≥ 38
      · simp only [h38, ↓reduceIte]
        cases c.ctype <;> (refine ⟨?_, ?_, ?_⟩ <;> first | rfl | trivial)
      · simp only [h38, ↓reduceIte]
        (refine ⟨?_, ?_, ?_⟩ <;> first | rfl | trivial)
  | none =>
    dsimp only
    split
    · (refine ⟨?_, ?_, ?_⟩ <;> first | rfl | trivial)
    · unfold newRow reqAttr
      by_cases h38 : mv ≥ 38
      · simp only [h38, ↓reduceIte]
        cases c.ctype <;> (refine ⟨?_, ?_, ?_⟩ <;> first | rfl | trivial)
      · simp only [h38, ↓reduceIte]
        (refine ⟨?_, ?_, ?_⟩ <;> first | rfl | trivial)

/-- `Sim` together with what is needed to extend the renaming by a pair of fresh ids -/
structure ISim (ρ : Nat → Nat) (dom : List Nat) (a b : DB R) : Prop where
  sim : Sim ρ dom a b
  inj : InjOn ρ dom
  lo : ∀ i ∈ dom, i < a.nextCons
  hi : ∀ i ∈ dom, ρ i < b.nextCons

/-- how the two results of `ensure_consumer` correspond -/
def EnsRel (ρ : Nat → Nat) (dom : List Nat) :
    Except Resp (ConsRow × Bool × ReqAttr) → Except Resp (ConsRow × Bool × ReqAttr) → Prop
  | .error r, .error r' => r = r'
  | .ok (cons, new, attr), .ok (cons', new', attr') =>
    cons' = renC ρ cons ∧ new' = new ∧ attr' = attr ∧ cons.id ∈ dom
  | _, _ => False

theorem ensureConsumer_sim {ρ : Nat → Nat} {dom : List Nat} {a b : DB R} (h : ISim ρ dom a b) (cfg : Config)
    (mv : Nat) (c : ConsumerReq) :
    ∃ ρ' dom', ISim ρ' dom' (ensureConsumer cfg a mv c).1 (ensureConsumer cfg b mv c).1 ∧
      (∀ i ∈ dom, i ∈ dom' ∧ ρ' i = ρ i) ∧
      EnsRel ρ' dom' (ensureConsumer cfg a mv c).2 (ensureConsumer cfg b mv c).2 := by
  obtain ⟨hra, hca⟩ := ensureConsumer_cases cfg a mv c
  obtain ⟨hrb, hcb⟩ := ensureConsumer_cases cfg b mv c
  rw [h.sim.consByUuid] at hcb
  have hrest : rest (ensureConsumer cfg b mv c).1 = rest (ensureConsumer cfg a mv c).1 :=
    hrb.trans (h.sim.rest.trans hra.symm)
  -- the unchanged case, used three times
  have same : (ensureConsumer cfg a mv c).1.consumers = a.consumers →
      (ensureConsumer cfg a mv c).1.nextCons = a.nextCons →
      (ensureConsumer cfg b mv c).1.consumers = b.consumers →
      (ensureConsumer cfg b mv c).1.nextCons = b.nextCons →
      ISim ρ dom (ensureConsumer cfg a mv c).1 (ensureConsumer cfg b mv c).1 := by
    intro e1 e2 e3 e4
    exact ⟨⟨hrest, by rw [e3, e1]; exact h.sim.cons, by rw [e1]; exact h.sim.ids⟩, h.inj,
      by rw [e2]; exact h.lo, by rw [e4]; exact h.hi⟩
  cases hfa : a.consByUuid c.uuid with
  | some cons =>
    rw [hfa] at hca hcb
    simp only [Option.map_some] at hcb
    dsimp only at hca
    have hg : (renC ρ cons).gen = cons.gen := rfl
    rw [hg] at hcb
    have hmem : cons ∈ a.consumers := List.mem_of_find?_eq_some hfa
    by_cases hgen : (decide (mv ≥ 28) && (some cons.gen != c.gen)) = true
    · rw [if_pos hgen] at hca hcb
      refine ⟨ρ, dom, same hca.2.1 hca.2.2 hcb.2.1 hcb.2.2, fun i hi => ⟨hi, rfl⟩, ?_⟩
      rw [hca.1, hcb.1]; exact rfl
    · rw [if_neg hgen] at hca hcb
      refine ⟨ρ, dom, same hca.2.1 hca.2.2 hcb.2.1 hcb.2.2, fun i hi => ⟨hi, rfl⟩, ?_⟩
      rw [hca.1, hcb.1]; exact ⟨rfl, rfl, rfl, h.sim.ids cons hmem⟩
  | none =>
    rw [hfa] at hca hcb
    simp only [Option.map_none] at hcb
    dsimp only at hca
    by_cases hgen : (decide (mv ≥ 28) && c.gen.isSome) = true
    · rw [if_pos hgen] at hca hcb
      refine ⟨ρ, dom, same hca.2.1 hca.2.2 hcb.2.1 hcb.2.2, fun i hi => ⟨hi, rfl⟩, ?_⟩
      rw [hca.1, hcb.1]; exact rfl
    · rw [if_neg hgen] at hca hcb
      -- a row is created on both sides: extend the renaming
      let ρ' : Nat → Nat := fun i => if i = a.nextCons then b.nextCons else ρ i
      have hagree : ∀ i ∈ dom, ρ' i = ρ i := by
        intro i hi
        have := h.lo i hi
        show (if i = a.nextCons then b.nextCons else ρ i) = ρ i
        rw [if_neg (by omega)]
      have hnew : ρ' a.nextCons = b.nextCons := by
        show (if a.nextCons = a.nextCons then b.nextCons else ρ a.nextCons) = b.nextCons
        rw [if_pos rfl]
      refine ⟨ρ', a.nextCons :: dom, ⟨⟨hrest, ?_, ?_⟩, ?_, ?_, ?_⟩,
        fun i hi => ⟨List.mem_cons_of_mem _ hi, hagree i hi⟩, ?_⟩
      · rw [hcb.2.1, hca.2.1, List.map_append, h.sim.cons]
        congr 1
        · apply List.map_congr_left
          intro x hx
          show ({ x with id := ρ x.id } : ConsRow) = { x with id := ρ' x.id }
          rw [hagree x.id (h.sim.ids x hx)]
        · show [newRow cfg mv c b.nextCons] = [renC ρ' (newRow cfg mv c a.nextCons)]
          unfold renC newRow
          simp only [hnew]
      · intro x hx
        rw [hca.2.1] at hx
        rcases List.mem_append.mp hx with hx | hx
        · exact List.mem_cons_of_mem _ (h.sim.ids x hx)
        · rw [List.mem_singleton.mp hx]; exact List.mem_cons_self ..
      · intro i hi j hj e
        rcases List.mem_cons.mp hi with rfl | hi <;> rcases List.mem_cons.mp hj with rfl | hj
        · rfl
        · rw [hnew, hagree j hj] at e
          have := h.hi j hj; omega
        · rw [hnew, hagree i hi] at e
          have := h.hi i hi; omega
        · rw [hagree i hi, hagree j hj] at e
          exact h.inj i hi j hj e
      · intro i hi
        rw [hca.2.2]
        rcases List.mem_cons.mp hi with rfl | hi
        · omega
        · have := h.lo i hi; omega
      · intro i hi
        rw [hcb.2.2]
        rcases List.mem_cons.mp hi with rfl | hi
        · rw [hnew]; omega
        · rw [hagree i hi]; have := h.hi i hi; omega
      · rw [hca.1, hcb.1]
        refine ⟨?_, rfl, rfl, List.mem_cons_self ..⟩
        unfold renC newRow
        simp only [hnew]

/-! ### `inspect_consumers` -/

/-- how the two results of `inspect_consumers` correspond -/
def InsRel (a1 b1 : DB R) :
    Except Resp (List (ConsumerReq × ConsRow × ReqAttr) × List Nat) →
    Except Resp (List (ConsumerReq × ConsRow × ReqAttr) × List Nat) → Prop
  | .error r, .error r' => r = r'
  | .ok (triples, created), .ok (triples', created') =>
    ∃ ρ' dom', ISim ρ' dom' a1 b1 ∧ triples' = triples.map (renT ρ') ∧ created' = created.map ρ' ∧
      (∀ t ∈ triples, t.2.1.id ∈ dom') ∧ (∀ i ∈ created, i ∈ dom')
  | _, _ => False

theorem map_renT_agree {ρ ρ' : Nat → Nat} {dom : List Nat} (hag : ∀ i ∈ dom, ρ' i = ρ i)
    {acc : List (ConsumerReq × ConsRow × ReqAttr)} (hacc : ∀ t ∈ acc, t.2.1.id ∈ dom) :
    acc.map (renT ρ) = acc.map (renT ρ') := by
  apply List.map_congr_left
  intro t ht
  unfold renT renC
  rw [hag _ (hacc t ht)]

theorem inspectConsumers_sim (cfg : Config) (mv : Nat) :
    ∀ (cs : List ConsumerReq) (ρ : Nat → Nat) (dom : List Nat) (a b : DB R)
      (acc : List (ConsumerReq × ConsRow × ReqAttr)) (created : List Nat),
      ISim ρ dom a b → (∀ t ∈ acc, t.2.1.id ∈ dom) → (∀ i ∈ created, i ∈ dom) →
      InsRel (inspectConsumers cfg mv a cs acc created).1
        (inspectConsumers cfg mv b cs (acc.map (renT ρ)) (created.map ρ)).1
        (inspectConsumers cfg mv a cs acc created).2
        (inspectConsumers cfg mv b cs (acc.map (renT ρ)) (created.map ρ)).2
  | [], ρ, dom, a, b, acc, created, h, hacc, hcr => by
    simp only [inspectConsumers]
    exact ⟨ρ, dom, h, rfl, rfl, hacc, hcr⟩
  | c :: cs, ρ, dom, a, b, acc, created, h, hacc, hcr => by
    obtain ⟨ρ', dom', h', hag, hrel⟩ := ensureConsumer_sim h cfg mv c
    rcases hea : ensureConsumer cfg a mv c with ⟨a1, ra | ⟨cons, isNew, attr⟩⟩ <;>
    rcases heb : ensureConsumer cfg b mv c with ⟨b1, rb | ⟨cons', isNew', attr'⟩⟩ <;>
    rw [hea, heb] at hrel h'
    · simp only [inspectConsumers, hea, heb]
      exact hrel
    · exact hrel.elim
    · exact hrel.elim
    · obtain ⟨e1, e2, e3, hid⟩ := hrel
      subst e1; subst e2; subst e3
      simp only [inspectConsumers, hea, heb]
      have hacc' : ∀ t ∈ acc ++ [(c, cons, attr')], t.2.1.id ∈ dom' := by
        intro t ht
        rcases List.mem_append.mp ht with ht | ht
        · exact (hag _ (hacc t ht)).1
        · rw [List.mem_singleton.mp ht]; exact hid
      have hcr' : ∀ i ∈ (if isNew' = true then created ++ [cons.id] else created), i ∈ dom' := by
        intro i hi
        split at hi
        · rcases List.mem_append.mp hi with hi | hi
          · exact (hag _ (hcr i hi)).1
          · rw [List.mem_singleton.mp hi]; exact hid
        · exact (hag _ (hcr i hi)).1
      have e1 : acc.map (renT ρ) ++ [(c, renC ρ' cons, attr')] = (acc ++ [(c, cons, attr')]).map (renT ρ') := by
        rw [List.map_append, map_renT_agree (fun i hi => (hag i hi).2) hacc]
        rfl
      have e2 : (if isNew' = true then created.map ρ ++ [(renC ρ' cons).id] else created.map ρ) =
          (if isNew' = true then created ++ [cons.id] else created).map ρ' := by
        have : created.map ρ = created.map ρ' :=
          List.map_congr_left (fun i hi => ((hag i (hcr i hi)).2).symm)
        rw [this]
        split
        · rw [List.map_append]; rfl
        · rfl
      rw [e1, e2]
      exact inspectConsumers_sim cfg mv cs ρ' dom' a1 b1 _ _ h' hacc' hcr'

end Placement.Core
