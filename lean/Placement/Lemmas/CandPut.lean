import Placement.Lemmas.CandFits
/-
  `PUT /allocations/{consumer}` of an allocation request for a consumer that does not exist yet: the model of the
  handler (`hAllocPut`, microversion >= 1.28) answers 204 (used by `candidate_accepted`, Props/C02.lean).
-/
namespace Placement.Spec

open Placement.Accept

variable {R : Type}

/-- the allocation request as the body of `PUT /allocations/{u}` (dict form, `consumer_generation: null`): providers by
uuid, classes by name, amounts unchanged -/
def putOf (db : DB R) (u pj us : Nat) (ct : Option Nat) (c : Candidate) : ConsumerReq :=
  { uuid := u, project := some pj, user := some us, ctype := ct, gen := none,
    allocs := c.alloc.filterMap (fun x =>
      match db.rpById x.1.1, db.rcName x.1.2 with
      | some p, some n => some (p.uuid, n, x.2)
      | _, _ => none) }

theorem filterMap_eq_map {α β : Type} (f : α → Option β) (g : α → β) : ∀ (l : List α),
    (∀ x ∈ l, f x = some (g x)) → l.filterMap f = l.map g
  | [], _ => rfl
  | x :: xs, h => by
    rw [List.filterMap_cons, h x List.mem_cons_self]
    simp only [List.map_cons]
    rw [filterMap_eq_map f g xs (fun y hy => h y (List.mem_cons_of_mem _ hy))]

theorem ensureConsumer_new (cfg : Config) (db : DB R) (mv : Nat) (c : ConsumerReq) (pj us : Nat)
    (hp : c.project = some pj) (hu : c.user = some us) (hg : c.gen = none) (hfresh : db.consByUuid c.uuid = none) :
    ∃ dbE row attr, ensureConsumer cfg db mv c = (dbE, .ok (row, true, attr)) ∧
      dbE.rps = db.rps ∧ dbE.invs = db.invs ∧ dbE.allocs = db.allocs ∧ dbE.rcs = db.rcs ∧
      dbE.consumers = db.consumers ++ [row] ∧ row.uuid = c.uuid ∧ updateConsumer dbE row attr = dbE := by
  unfold ensureConsumer
  simp only [hp, hu, hg, Option.getD_some, Option.isNone_some, Bool.false_eq_true, if_false, Option.isSome_none,
    Bool.and_false]
  have hf : DB.consByUuid ({ db with projects := addIfMissing db.projects pj, users := addIfMissing db.users us } : DB R)
      c.uuid = none := hfresh
  rw [hf]
  simp only
  by_cases h38 : mv ≥ 38
  · cases hct : c.ctype with
    | none =>
      simp only [h38, if_true]
      refine ⟨_, _, _, rfl, rfl, rfl, rfl, rfl, rfl, rfl, ?_⟩
      simp [updateConsumer]
    | some t =>
      simp only [h38, if_true]
      refine ⟨_, _, _, rfl, rfl, rfl, rfl, rfl, rfl, rfl, ?_⟩
      simp [updateConsumer]
  · simp only [h38, if_false]
    refine ⟨_, _, _, rfl, rfl, rfl, rfl, rfl, rfl, rfl, ?_⟩
    simp [updateConsumer]

theorem allocObjects_ok (db : DB R) (cons : ConsRow) (c : ConsumerReq) (hne : c.allocs ≠ [])
    (g : Nat × Nat × Int → RpRow) (hres : ∀ a ∈ c.allocs, db.rpByUuid a.1 = some (g a)) :
    allocObjects db cons c = .ok (c.allocs.map (fun a =>
      { rpId := (g a).id, rpGen := (g a).gen, rcName := a.2.1, consId := cons.id, consUuid := cons.uuid,
        consGen := cons.gen, used := a.2.2 })) := by
  unfold allocObjects
  have h1 : c.allocs.isEmpty = false := by
    cases hc : c.allocs with
    | nil => exact absurd hc hne
    | cons _ _ => rfl
  simp only [h1, Bool.false_eq_true, if_false]
  have h2 : c.allocs.any (fun a => (db.rpByUuid a.1).isNone) = false := by
    rw [← Bool.not_eq_true, List.any_eq_true]
    rintro ⟨a, ha, hn⟩
    rw [hres a ha] at hn
    simp at hn
  simp only [h2, Bool.false_eq_true, if_false]
  congr 1
  apply filterMap_eq_map
  intro a ha
  rw [hres a ha]
  rfl

variable [CapOps R]

theorem Fits_congr {db db' : DB R} (hi : db'.invs = db.invs) (ha : db'.allocs = db.allocs) {t : Nat × Nat × Int}
    (h : Fits db t) : Fits db' t := by
  obtain ⟨i, h1, h2, h3, h4⟩ := h
  refine ⟨i, ?_, h2, h3, ?_⟩
  · unfold DB.invOf at *; rw [hi]; exact h1
  · unfold DB.usage at *; rw [ha]; exact h4

/-- the model of `PUT /allocations/{u}` (>= 1.28, generation null) accepts every allocation request satisfying
`IsCandidate` for a consumer `u` that does not exist -/
theorem put_candidate_204 (cfg : Config) (db : DB R) (hU : Uniq db) (hRI : RI db) (q : Query)
    (hq : ∀ e ∈ q.allRes, 1 ≤ e.2) (c : Candidate) (hc : IsCandidate db q c) (hne : c.alloc ≠ [])
    (u pj us : Nat) (ct : Option Nat) (hfresh : ∀ cons ∈ db.consumers, cons.uuid ≠ u) (mv : Nat) (hmv : 28 ≤ mv) :
    (hAllocPut cfg db mv (putOf db u pj us ct c)).2 = r204 := by
  -- facts about the entries of the request
  have hfit := candidate_entry_fits db hU.inv q hq c hc
  have hprov := alloc_providers_exist db q c hc
  have hkeys : (c.alloc.map (·.1)).Nodup := alloc_keys_nodup db q c hc
  -- every entry resolves: provider row by id, class name by id and back
  have hP : ∀ x ∈ c.alloc, ∃ p ∈ db.rps, p.id = x.1.1 ∧ db.rpById x.1.1 = some p := by
    intro x hx
    obtain ⟨p, hp, hid⟩ := hprov x hx
    exact ⟨p, hp, hid, by rw [← hid]; exact rpById_of_mem hU.rpId hp⟩
  have hN : ∀ x ∈ c.alloc, ∃ n, db.rcName x.1.2 = some n ∧ db.rcId n = some x.1.2 := by
    intro x hx
    obtain ⟨i, hinv, _⟩ := hfit x hx
    obtain ⟨him, _, hirc⟩ := invOf_mem hinv
    obtain ⟨pr, hpr, hpr1⟩ := hRI.invRc i him
    refine ⟨pr.2, ?_, ?_⟩
    · have := rcName_of_mem hU.rcId hpr
      rw [hpr1, hirc] at this; exact this
    · have := rcId_of_mem hU.rcName hpr
      rw [hpr1, hirc] at this; exact this
  let P : (Nat × Nat) × Int → RpRow := fun x => (db.rpById x.1.1).getD default
  let N : (Nat × Nat) × Int → Nat := fun x => (db.rcName x.1.2).getD 0
  have hPx : ∀ x ∈ c.alloc, P x ∈ db.rps ∧ (P x).id = x.1.1 ∧ db.rpById x.1.1 = some (P x) := by
    intro x hx
    obtain ⟨p, hp, hid, hby⟩ := hP x hx
    have : P x = p := by simp [P, hby]
    rw [this]; exact ⟨hp, hid, hby⟩
  have hNx : ∀ x ∈ c.alloc, db.rcName x.1.2 = some (N x) ∧ db.rcId (N x) = some x.1.2 := by
    intro x hx
    obtain ⟨n, h1, h2⟩ := hN x hx
    have : N x = n := by simp [N, h1]
    rw [this]; exact ⟨h1, h2⟩
  have hallocs : (putOf db u pj us ct c).allocs = c.alloc.map (fun x => ((P x).uuid, N x, x.2)) := by
    unfold putOf
    simp only
    apply filterMap_eq_map
    intro x hx
    rw [(hPx x hx).2.2, (hNx x hx).1]
  have hcreq_ne : (putOf db u pj us ct c).allocs ≠ [] := by
    rw [hallocs]
    cases hca : c.alloc with
    | nil => exact absurd hca hne
    | cons _ _ => simp
  -- the consumer is new
  have hnone : db.consByUuid (putOf db u pj us ct c).uuid = none := by
    unfold DB.consByUuid
    rw [List.find?_eq_none]
    intro cons hcons
    simpa [putOf] using hfresh cons hcons
  obtain ⟨dbE, row, attr, hens, hrps, hinvs, hallocsE, hrcs, hconsE, hrowu, hupd⟩ :=
    ensureConsumer_new cfg db mv (putOf db u pj us ct c) pj us rfl rfl rfl hnone
  -- the allocation objects
  have hres : ∀ a ∈ (putOf db u pj us ct c).allocs, dbE.rpByUuid a.1 = some ((dbE.rpByUuid a.1).getD default) := by
    intro a ha
    rw [hallocs] at ha
    obtain ⟨x, hx, rfl⟩ := List.mem_map.mp ha
    have : dbE.rpByUuid (P x).uuid = some (P x) := by
      unfold DB.rpByUuid; rw [hrps]
      exact rpByUuid_of_mem hU.rpUuid (hPx x hx).1
    simp [this]
  have hobjs0 := allocObjects_ok dbE row (putOf db u pj us ct c) hcreq_ne _ hres
  have hgx : ∀ x ∈ c.alloc, (dbE.rpByUuid (P x).uuid).getD default = P x := by
    intro x hx
    have : dbE.rpByUuid (P x).uuid = some (P x) := by
      unfold DB.rpByUuid; rw [hrps]
      exact rpByUuid_of_mem hU.rpUuid (hPx x hx).1
    simp [this]
  let objs : List AllocReq := c.alloc.map (fun x =>
    { rpId := x.1.1, rpGen := (P x).gen, rcName := N x, consId := row.id, consUuid := row.uuid, consGen := row.gen,
      used := x.2 })
  have hobjs : allocObjects dbE row (putOf db u pj us ct c) = .ok objs := by
    rw [hobjs0, hallocs, List.map_map]
    congr 1
    apply List.map_congr_left
    intro x hx
    simp only [Function.comp_apply, hgx x hx, (hPx x hx).2.1]
  have hrcE : ∀ x ∈ c.alloc, dbE.rcId (N x) = some x.1.2 := by
    intro x hx
    unfold DB.rcId; rw [hrcs]; exact (hNx x hx).2
  -- `_set_allocations` accepts them
  obtain ⟨db3, hset⟩ := setAllocations_accepts dbE objs (fun a => (dbE.rcId a.rcName).getD 0)
    (by
      intro a ha
      obtain ⟨x, hx, rfl⟩ := List.mem_map.mp ha
      simp [hrcE x hx])
    (by
      intro al hal o ho
      obtain ⟨x, hx, rfl⟩ := List.mem_map.mp ho
      rw [hallocsE] at hal
      obtain ⟨cons, hcons, hcu⟩ := hRI.allocCons al hal
      show al.consumer ≠ row.uuid
      rw [hrowu, ← hcu]
      simpa [putOf] using hfresh cons hcons)
    (by
      have : objs.map (fun a => (a.rpId, (dbE.rcId a.rcName).getD 0)) = c.alloc.map (·.1) := by
        simp only [objs, List.map_map]
        apply List.map_congr_left
        intro x hx
        simp [hrcE x hx]
      rw [this]; exact hkeys)
    (by
      intro a ha
      obtain ⟨x, hx, rfl⟩ := List.mem_map.mp ha
      simp only [hrcE x hx, Option.getD_some]
      exact Fits_congr hinvs hallocsE (hfit x hx))
    (by
      intro a ha
      obtain ⟨x, hx, rfl⟩ := List.mem_map.mp ha
      exact ⟨P x, by rw [hrps]; exact (hPx x hx).1, (hPx x hx).2.1, rfl⟩)
    (by
      intro a ha
      obtain ⟨x, hx, rfl⟩ := List.mem_map.mp ha
      exact ⟨row, by rw [hconsE]; simp, rfl, rfl⟩)
  -- assemble the handler
  unfold hAllocPut
  have h28 : (decide (mv < 28) && (putOf db u pj us ct c).allocs.isEmpty) = false := by
    have : ¬ mv < 28 := by omega
    simp [this]
  rw [h28]
  simp only [Bool.false_eq_true, if_false]
  rw [hens]
  simp only
  rw [hobjs]
  simp only [hupd]
  rw [hset]

end Placement.Spec
