import Placement.Lemmas.FrameStep
/-
  C09, request level: every request keeps `Ids ∧ Forest ∧ Roots`; reachable states satisfy them;
  the rejections named by the property.
-/
namespace Placement.Hier
open Placement.Gens
variable {R : Type} [CapOps R]
set_option linter.unusedSectionVars false

/-- what `step` keeps for C09 -/
structure HInv (db : DB R) : Prop where
  ids : Ids db.gcore
  forest : Forest db
  roots : Roots db

theorem ids_of_rpIds {db db' : DB R} (h : RpIds db') (hI : Ids db.gcore)
    (hc : db'.consumers = db.consumers) (hn : db'.nextCons = db.nextCons) : Ids db'.gcore :=
  ⟨h.nodup, h.fresh, by show (db'.consumers.map _).Nodup; rw [hc]; exact hI.consNodup,
   by intro x hx; have hx' : x ∈ db.consumers := hc ▸ hx
      show x.id < db'.nextCons; rw [hn]; exact hI.consFresh x hx'⟩

theorem hRpCreate_inv {db : DB R} (h : HInv db) (mv uuid name : Nat) (parent : Option Nat) :
    HInv (hRpCreate db mv uuid name parent).1 := by
  unfold hRpCreate
  split
  · exact h
  · split
    · rename_i db' row heq
      obtain ⟨hi, hf, hr⟩ := createProvider_inv heq h.ids.rpIds h.forest h.roots
      obtain ⟨rfl, -⟩ := createProvider_ok heq
      exact ⟨ids_of_rpIds hi h.ids rfl rfl, hf, hr⟩
    all_goals exact h

theorem hRpUpdate_inv {db : DB R} (h : HInv db) (mv uuid name : Nat) (parent : Option (Option Nat)) :
    HInv (hRpUpdate db mv uuid name parent).1 := by
  unfold hRpUpdate
  dsimp only
  repeat' split
  all_goals first | exact h | skip
  all_goals
    rename_i db' heq
    obtain ⟨hi, hf, hr⟩ := updateProvider_inv heq h.ids.rpIds h.forest h.roots
    obtain ⟨me, -, hc⟩ := updateProvider_ok heq
    rcases hc with ⟨_, _, -, -, -, -, rfl⟩ | ⟨-, -, -, rfl⟩ | ⟨-, -, rfl⟩ <;>
      exact ⟨ids_of_rpIds hi h.ids rfl rfl, hf, hr⟩

theorem hRpDelete_inv {db : DB R} (h : HInv db) (uuid : Nat) : HInv (hRpDelete db uuid).1 := by
  unfold hRpDelete
  repeat' split
  all_goals first | exact h | skip
  all_goals
    rename_i db' heq
    obtain ⟨hi, hf, hr⟩ := deleteProvider_inv heq h.ids.rpIds h.forest h.roots
    obtain ⟨-, -, rfl⟩ := deleteProvider_ok heq
    exact ⟨ids_of_rpIds hi h.ids rfl rfl, hf, hr⟩

/-- Every request other than a provider create / update / delete leaves the id, parent and root
columns of the provider table exactly as they were (generation bumps through `setRp` keep them). -/
theorem rps_shape_unchanged (cfg : Config) {db : DB R} (hI : Ids db.gcore) (op : Op R)
    (h1 : ∀ mv u n p, op ≠ .rpCreate mv u n p) (h2 : ∀ mv u n p, op ≠ .rpUpdate mv u n p)
    (h3 : ∀ u, op ≠ .rpDelete u) :
    (step cfg db op).1.rps.map shape = db.rps.map shape ∧ (step cfg db op).1.nextRp = db.nextRp :=
  ⟨(step_frame cfg hI op h1 h2 h3).rps.shape, (step_frame cfg hI op h1 h2 h3).nextRp⟩

theorem hinv_of_frame {db db' : DB R} (h : HInv db) (f : Frame db.gcore db'.gcore) : HInv db' :=
  ⟨f.ids, forest_of_shape f.rps.shape h.forest, roots_of_shape f.rps.shape h.roots⟩

theorem step_hinv (cfg : Config) {db : DB R} (h : HInv db) (op : Op R) : HInv (step cfg db op).1 := by
  cases op with
  | rpCreate mv u n p => exact hRpCreate_inv h mv u n p
  | rpUpdate mv u n p => exact hRpUpdate_inv h mv u n p
  | rpDelete u => exact hRpDelete_inv h u
  | _ => exact hinv_of_frame h (step_frame cfg h.ids _ (by intros; simp) (by intros; simp) (by intros; simp))

theorem reach_hinv {cfg : Config} {stdRcs stdTraits : List Nat} {db : DB R}
    (h : Reach cfg stdRcs stdTraits db) : HInv db := by
  induction h with
  | init =>
    refine ⟨⟨?_, ?_, ?_, ?_⟩, ⟨?_, ⟨fun _ => 0, ?_⟩⟩, ?_⟩ <;> simp [initDb, DB.gcore, Roots]
  | step db op _ ih => exact step_hinv cfg ih op

/-! ### rejections -/

theorem rpById_of_mem {db : DB R} (hu : UniqId db.rps) {me : RpRow} (hm : me ∈ db.rps) :
    db.rpById me.id = some me := by
  cases h : db.rpById me.id with
  | none =>
    have := List.find?_eq_none.mp h me hm
    simp at this
  | some r =>
    obtain ⟨hr, hid⟩ := rpById_some h
    rw [hu r hr me hm hid]

/-- `_update_in_db` refuses a new parent inside the provider's own subtree -/
theorem updateProvider_loop {db : DB R} {id name pu : Nat} {allow : Bool} {me p : RpRow}
    (hme : db.rpById id = some me) (hp : db.rpByUuid pu = some p) (hin : subOf db me p.id = true) :
    updateProvider db id name (some pu) allow = .error .objectAction := by
  unfold updateProvider
  rw [hme]; dsimp only; rw [hp]; dsimp only
  simp only [subOf] at hin
  split <;> rfl

theorem updateProvider_missing {db : DB R} {id name pu : Nat} {allow : Bool} {me : RpRow}
    (hme : db.rpById id = some me) (hp : db.rpByUuid pu = none) :
    updateProvider db id name (some pu) allow = .error .objectAction := by
  unfold updateProvider
  rw [hme]; dsimp only; rw [hp]

theorem updateProvider_move_forbidden {db : DB R} {id name pu q : Nat} {me p : RpRow}
    (hme : db.rpById id = some me) (hp : db.rpByUuid pu = some p) (hq : me.parent = some q) (hne : q ≠ p.id) :
    updateProvider db id name (some pu) false = .error .objectAction := by
  unfold updateProvider
  rw [hme]; dsimp only; rw [hp]; dsimp only
  rw [if_pos]
  simp [hq, hne]

theorem updateProvider_detach_forbidden {db : DB R} {id name q : Nat} {me : RpRow}
    (hme : db.rpById id = some me) (hq : me.parent = some q) :
    updateProvider db id name none false = .error .objectAction := by
  unfold updateProvider
  rw [hme]; dsimp only
  simp [hq]

/-! ### ancestors as a relation on rows -/

/-- `Anc db r t`: following parent links from row `r` zero or more times reaches row `t`. -/
inductive Anc (db : DB R) : RpRow → RpRow → Prop
  | refl (r : RpRow) : r ∈ db.rps → Anc db r r
  | step (r q t : RpRow) : r ∈ db.rps → q ∈ db.rps → r.parent = some q.id → Anc db q t → Anc db r t

theorem anc_mem {db : DB R} {r t : RpRow} (h : Anc db r t) : r ∈ db.rps ∧ t ∈ db.rps := by
  induction h with
  | refl r hr => exact ⟨hr, hr⟩
  | step r q t hr _ _ _ ih => exact ⟨hr, ih.2⟩

theorem desc_of_anc {db : DB R} {r t : RpRow} (h : Anc db r t) : Desc db.rps t.id r.id := by
  induction h with
  | refl r _ => exact .self
  | step r q t hr _ hp _ ih => exact .child r q.id hr hp ih

theorem anc_of_desc {db : DB R} (hU : Uniq db) (hF : Forest db) {x y : Nat} (h : Desc db.rps x y) :
    ∀ rx ∈ db.rps, rx.id = x → ∀ ry ∈ db.rps, ry.id = y → Anc db ry rx := by
  have hu := (rpIds_of_uniq hU).uniq
  induction h with
  | self => intro rx hrx hx ry hry hy; rw [hu ry hry rx hrx (hy.trans hx.symm)]; exact .refl rx hrx
  | child r p hm hp _ ih =>
    intro rx hrx hx ry hry hy
    rw [hu ry hry r hm hy]
    obtain ⟨q, hq, hqid⟩ := hF.1 r hm p hp
    exact .step r q rx hm hq (hqid ▸ hp) (ih rx hrx hx q hq hqid)

theorem rpById_of_uuid {db : DB R} (hU : Uniq db) {uuid : Nat} {me : RpRow} (hme : db.rpByUuid uuid = some me) :
    db.rpById me.id = some me :=
  rpById_of_mem (rpIds_of_uniq hU).uniq (rpByUuid_some hme).1


end Placement.Hier
