import Placement.Lemmas.SchedSer
import Placement.Lemmas.SchedRp
/-
  The validation lemma (`Ser`) of the generation-guarded inventory and aggregate updates: a
  successful write transaction ran the compare-and-swap on the generation the request carries, on
  the provider its uuid names, so the whole request run alone on the state of its write transaction
  passes its read-time comparison and performs the same write.
-/
namespace Placement.Sched
open Placement Placement.Gens Placement.Hier
variable {R : Type} [CapOps R]
set_option linter.unusedSectionVars false

/-- ids are unique and every uuid names the provider id it named at the start (or nobody) -/
def WAll (o : Nat → Option Nat) (s : DB R) : Prop := Ids s.gcore ∧ ∀ u, rpIdOf s u = o u

theorem WAll.evo {N : Nat → Prop} {o : Nat → Option Nat} {s s' : DB R} (q : QEvo N s s') (h : WAll o s) :
    WAll o s' :=
  ⟨(q h.1).ids, fun u => (rpIdOf_evo (q h.1) u).trans (h.2 u)⟩

/-- a program all of whose transactions are `Q`-steps, run alone, preserves every `Q`-stable predicate -/
theorem All.runSeq_inv {σ α : Type} {Q : σ → σ → Prop} (I : σ → Prop) (hI : ∀ s s', Q s s' → I s → I s') :
    ∀ (n : Nat) {p : Prog σ α}, All Q p → ∀ s, I s → I (Prog.runSeq n p s).1
  | n, .done _, _, _, hs => by cases n <;> exact hs
  | 0, .txn _ _, _, _, hs => hs
  | n + 1, .txn _ f, hp, s, hs => by
    have := hp.step s
    show I (Prog.runSeq n (f s).2 (f s).1).1
    exact All.runSeq_inv I hI n this.2 _ (hI _ _ this.1 hs)

theorem runSeq_two {σ α : Type} {l1 l2 : Lbl} {f1 f2 : σ → σ × Prog σ α} {s s' : σ} {a : α} (n : Nat)
    (h1 : f1 s = (s, .txn l2 f2)) (h2 : f2 s = (s', .done a)) :
    Prog.runSeq (n + 2) (.txn l1 f1) s = (s', some a) := by
  show Prog.runSeq (n + 1) (f1 s).2 (f1 s).1 = _
  rw [h1]
  show Prog.runSeq n (f2 s).2 (f2 s).1 = _
  rw [h2]
  cases n <;> rfl

/-- serial runs use this much fuel (two transactions suffice for the guarded updates) -/
def serFuel : Nat := 2

/-- under `WAll`, a successful compare-and-swap on `(p, g)` identifies the row that `u` names -/
theorem row_of_cas {o : Nat → Option Nat} {s : DB R} (hw : WAll o s) {u p g : Nat} (ho : o u = some p)
    (hat : RpAt p g s) : ∃ rp, s.rpByUuid u = some rp ∧ rp.id = p ∧ rp.gen = g := by
  have h1 : rpIdOf s u = some p := (hw.2 u).trans ho
  unfold rpIdOf at h1
  cases hf : s.rpByUuid u with
  | none => rw [hf] at h1; cases h1
  | some rp =>
    rw [hf] at h1
    have hid : rp.id = p := by simpa using h1
    obtain ⟨r0, hr0, hid0, hg0⟩ := hat
    have hm : rp ∈ s.rps := List.mem_of_find?_eq_some hf
    have : rp = r0 := uniqId_of_nodup hw.1.rpNodup rp hm r0 hr0 (hid.trans hid0.symm)
    exact ⟨rp, rfl, hid, this ▸ hg0⟩

section ser
variable {o : Nat → Option Nat}

theorem tInvSetW_ser (mv u g : Nat) (invs : List (InvSpec R)) (p : Nat) (ho : o u = some p)
    (hval : invs.any (invCapacityInvalid mv) = false) :
    Ser (WAll (R := R) o) Resp.ok serFuel (pInvSet mv u g invs) (.txn .main (tInvSetW p g invs)) :=
  Ser.txn' _ _ (fun s hw => by
    cases hset : setInventory s p g invs with
    | error e =>
      refine .inl ⟨by simp [tInvSetW, hset], by simp only [tInvSetW, hset]; exact .done _, ?_⟩
      intro a ha
      simp only [tInvSetW, hset, Prog.done.injEq] at ha
      subst ha
      have := errInvSet_not_ok e
      simpa [okR] using this
    | ok db' =>
      refine .inr ⟨r200, by simp [tInvSetW, hset], rfl, ?_⟩
      obtain ⟨db0, hg, hc⟩ := setInventory_ok hset
      obtain ⟨rp, hrp, hid, hgen⟩ := row_of_cas hw ho (cas_commit hg hc).1
      have h1 : tInvSetR mv u g invs s = (s, .txn .main (tInvSetW p g invs)) := by
        simp [tInvSetR, hrp, hgen, hval, hid]
      have h2 : tInvSetW p g invs s = (db', .done r200) := by simp [tInvSetW, hset]
      simp only [tInvSetW, hset]
      exact runSeq_two 0 h1 h2)

theorem pInvSet_ser (mv u g : Nat) (invs : List (InvSpec R)) :
    Ser (WAll (R := R) o) Resp.ok serFuel (pInvSet mv u g invs) (pInvSet mv u g invs) :=
  Ser.txn' _ _ (fun s hw => .inl (by
    unfold tInvSetR
    split
    · exact ⟨rfl, .done _, fun a h => by cases h; rfl⟩
    · rename_i rp hrp
      have ho : o u = some rp.id := by rw [← hw.2 u]; simp [rpIdOf, hrp]
      split
      · exact ⟨rfl, .done _, fun a h => by cases h; rfl⟩
      · rename_i hg
        split
        · exact ⟨rfl, .done _, fun a h => by cases h; rfl⟩
        · rename_i hval
          have hgen : rp.gen = g := Eq.symm (by simpa using hg)
          refine ⟨rfl, ?_, fun a h => by cases h⟩
          rw [hgen]
          exact tInvSetW_ser mv u g invs rp.id ho (by simpa using hval)))

theorem tInvUpdateW_ser (mv u g : Nat) (inv : InvSpec R) (p : Nat) (ho : o u = some p)
    (hval : invCapacityInvalid mv inv = false) :
    Ser (WAll (R := R) o) Resp.ok serFuel (pInvUpdate mv u g inv) (.txn .main (tInvUpdateW p g inv)) :=
  Ser.txn' _ _ (fun s hw => by
    cases hset : updateInventory s p g inv with
    | error e =>
      refine .inl ⟨by simp [tInvUpdateW, hset], by simp only [tInvUpdateW, hset]; exact .done _, ?_⟩
      intro a ha
      simp only [tInvUpdateW, hset, Prog.done.injEq] at ha
      subst ha
      have := errInvUpdate_not_ok e
      simpa [okR] using this
    | ok db' =>
      refine .inr ⟨r200, by simp [tInvUpdateW, hset], rfl, ?_⟩
      obtain ⟨db0, hg, hc⟩ := updateInventory_ok hset
      obtain ⟨rp, hrp, hid, hgen⟩ := row_of_cas hw ho (cas_commit hg hc).1
      have h1 : tInvUpdateR mv u g inv s = (s, .txn .main (tInvUpdateW p g inv)) := by
        simp [tInvUpdateR, hrp, hgen, hval, hid]
      have h2 : tInvUpdateW p g inv s = (db', .done r200) := by simp [tInvUpdateW, hset]
      simp only [tInvUpdateW, hset]
      exact runSeq_two 0 h1 h2)

theorem pInvUpdate_ser (mv u g : Nat) (inv : InvSpec R) :
    Ser (WAll (R := R) o) Resp.ok serFuel (pInvUpdate mv u g inv) (pInvUpdate mv u g inv) :=
  Ser.txn' _ _ (fun s hw => .inl (by
    unfold tInvUpdateR
    split
    · exact ⟨rfl, .done _, fun a h => by cases h; rfl⟩
    · rename_i rp hrp
      have ho : o u = some rp.id := by rw [← hw.2 u]; simp [rpIdOf, hrp]
      split
      · exact ⟨rfl, .done _, fun a h => by cases h; rfl⟩
      · rename_i hg
        split
        · exact ⟨rfl, .done _, fun a h => by cases h; rfl⟩
        · rename_i hval
          have hgen : rp.gen = g := Eq.symm (by simpa using hg)
          refine ⟨rfl, ?_, fun a h => by cases h⟩
          rw [hgen]
          exact tInvUpdateW_ser mv u g inv rp.id ho (by simpa using hval)))

theorem tAggsSetW_ser (mv u g : Nat) (hmv : mv ≥ 19) (aggs : List Nat) (p : Nat) (ho : o u = some p) :
    Ser (WAll (R := R) o) Resp.ok serFuel (pAggsSet mv u (some g) aggs) (.txn .main (tAggsSetW p g aggs true)) :=
  Ser.txn' _ _ (fun s hw => by
    cases hset : setAggregates s p g aggs true with
    | error e =>
      refine .inl ⟨by simp [tAggsSetW, hset], by simp only [tAggsSetW, hset]; exact .done _, ?_⟩
      intro a ha
      simp only [tAggsSetW, hset, Prog.done.injEq] at ha
      subst ha
      have := errAggs_not_ok e
      simpa [okR] using this
    | ok db' =>
      refine .inr ⟨r200, by simp [tAggsSetW, hset], rfl, ?_⟩
      rcases setAggregates_ok hset with ⟨hf, -⟩ | ⟨-, db0, hg, hc⟩
      · cases hf
      obtain ⟨rp, hrp, hid, hgen⟩ := row_of_cas hw ho (cas_commit hg hc).1
      have hd : decide (mv ≥ 19) = true := by simpa using hmv
      have h1 : tAggsSetR mv u (some g) aggs s = (s, .txn .main (tAggsSetW p g aggs true)) := by
        simp [tAggsSetR, hrp, hgen, hid, hd]
      have h2 : tAggsSetW p g aggs true s = (db', .done r200) := by simp [tAggsSetW, hset]
      simp only [tAggsSetW, hset]
      have hp : pAggsSet (R := R) mv u (some g) aggs = .txn .getRp (tAggsSetR mv u (some g) aggs) := by
        unfold pAggsSet; rw [if_neg (by omega)]
      rw [hp]
      exact runSeq_two 0 h1 h2)

theorem pAggsSet_ser (mv u g : Nat) (hmv : mv ≥ 19) (aggs : List Nat) :
    Ser (WAll (R := R) o) Resp.ok serFuel (pAggsSet mv u (some g) aggs) (pAggsSet mv u (some g) aggs) := by
  have hp : pAggsSet (R := R) mv u (some g) aggs = .txn .getRp (tAggsSetR mv u (some g) aggs) := by
    unfold pAggsSet; rw [if_neg (by omega)]
  rw [hp, ← hp]
  conv => rhs; rw [hp]
  exact Ser.txn' _ _ (fun s hw => .inl (by
    unfold tAggsSetR
    split
    · exact ⟨rfl, .done _, fun a h => by cases h; rfl⟩
    · rename_i rp hrp
      have ho : o u = some rp.id := by rw [← hw.2 u]; simp [rpIdOf, hrp]
      dsimp only
      have hd : decide (mv ≥ 19) = true := by simpa using hmv
      rw [hd]
      split
      · exact ⟨rfl, .done _, fun a h => by cases h; rfl⟩
      · rename_i hg
        have hgen : rp.gen = g := Eq.symm (by simpa using hg)
        refine ⟨rfl, ?_, fun a h => by cases h⟩
        rw [hgen]
        exact tAggsSetW_ser mv u g hmv aggs rp.id ho))

end ser

/-- the generation-guarded updates of C07: PUT inventories, PUT one inventory, PUT aggregates from 1.19 -/
def guardedUpdate : Op R → Bool
  | .invSet .. => true
  | .invUpdate .. => true
  | .aggsSet mv _ g _ => decide (mv ≥ 19) && g.isSome
  | _ => false

theorem guardedUpdate_ser (cfg : Config) {op : Op R} (h : guardedUpdate op = true) (o : Nat → Option Nat) :
    Ser (WAll (R := R) o) Resp.ok serFuel (prog cfg op) (prog cfg op) := by
  cases op <;> simp only [guardedUpdate, Bool.false_eq_true, Bool.and_eq_true, decide_eq_true_eq] at h
  · exact pInvSet_ser _ _ _ _
  · exact pInvUpdate_ser _ _ _ _
  · rename_i mv u g aggs
    obtain ⟨hmv, hg⟩ := h
    cases g with
    | none => cases hg
    | some g => exact pAggsSet_ser mv u g hmv aggs

theorem guardedUpdate_not_provider {op : Op R} (h : guardedUpdate op = true) : isProviderOp op = false := by
  cases op <;> first | rfl | simp [guardedUpdate] at h

/-- run alone, a guarded update is the handler of `Model/Handlers.lean` -/
theorem guardedUpdate_runSeq (cfg : Config) {op : Op R} (h : guardedUpdate op = true) (s : DB R) :
    Prog.runSeq serFuel (prog cfg op) s = ((step cfg s op).1, some (step cfg s op).2) := by
  cases op <;> simp only [guardedUpdate, Bool.false_eq_true, Bool.and_eq_true, decide_eq_true_eq] at h
  · rename_i mv u g invs
    show Prog.runSeq 2 (.txn .getRp (tInvSetR mv u g invs)) s = ((hInvSet s mv u g invs).1, some (hInvSet s mv u g invs).2)
    unfold hInvSet
    simp only [Prog.runSeq, tInvSetR]
    repeat' split
    all_goals simp_all [Prog.runSeq, tInvSetW, errInvSet]
  · rename_i mv u g inv
    show Prog.runSeq 2 (.txn .getRp (tInvUpdateR mv u g inv)) s = ((hInvUpdate s mv u g inv).1, some (hInvUpdate s mv u g inv).2)
    unfold hInvUpdate
    simp only [Prog.runSeq, tInvUpdateR]
    repeat' split
    all_goals simp_all [Prog.runSeq, tInvUpdateW, errInvUpdate]
  · rename_i mv u g aggs
    have hmv : ¬ mv < 1 := by omega
    show Prog.runSeq 2 (pAggsSet mv u g aggs) s = ((hAggsSet s mv u g aggs).1, some (hAggsSet s mv u g aggs).2)
    unfold hAggsSet pAggsSet
    simp only [hmv, if_false, Prog.runSeq, tAggsSetR]
    repeat' split
    all_goals simp_all [Prog.runSeq, tAggsSetW]

/-- the requests of the pool listed in `order`, as handler-level requests -/
def opsAt (ops : List (Op R)) (order : List Nat) : List (Op R) := order.filterMap (fun i => ops[i]?)

/-- the request programs of the pool by index -/
def progAt (cfg : Config) (ops : List (Op R)) (i : Nat) : P R := (((ops.map (prog cfg))[i]?).getD (.done r500))

theorem serial_eq_run (cfg : Config) (ops : List (Op R)) (hops : ∀ op ∈ ops, guardedUpdate op = true) :
    ∀ (order : List Nat) (s : DB R), (∀ i ∈ order, i < ops.length) →
      serial serFuel (progAt cfg ops) order s = (run cfg s (opsAt ops order)).1 ∧
      (SerialOk serFuel (progAt cfg ops) Resp.ok order s → ∀ r ∈ (run cfg s (opsAt ops order)).2, r.ok = true)
  | [], s, _ => ⟨rfl, fun _ r hr => by cases hr⟩
  | i :: is, s, h => by
    have hi : i < ops.length := h i List.mem_cons_self
    have hget : ops[i]? = some ops[i] := List.getElem?_eq_getElem hi
    have hp : progAt cfg ops i = prog cfg ops[i] := by
      unfold progAt; rw [List.getElem?_map, hget]; rfl
    have hrun := guardedUpdate_runSeq cfg (hops _ (List.getElem_mem hi)) s
    have ih := serial_eq_run cfg ops hops is (step cfg s ops[i]).1 (fun j hj => h j (List.mem_cons_of_mem _ hj))
    have hops' : opsAt ops (i :: is) = ops[i] :: opsAt ops is := by
      unfold opsAt; rw [List.filterMap_cons, hget]
    rw [hops']
    constructor
    · show serial serFuel (progAt cfg ops) is (Prog.runSeq serFuel (progAt cfg ops i) s).1 = _
      rw [hp, hrun, ih.1]
      simp only [run]
    · intro hok r hr
      obtain ⟨⟨a, ha, hoka⟩, hrest⟩ := hok
      rw [hp, hrun] at ha hrest
      simp only [run] at hr
      rcases List.mem_cons.mp hr with e | hr'
      · rw [e]
        simp only [Option.some.injEq] at ha
        rw [ha]; exact hoka
      · exact ih.2 hrest r hr'

theorem pending_pool (cfg : Config) (ops : List (Op R)) (hops : ∀ op ∈ ops, guardedUpdate op = true) {i : Nat}
    (hi : i < ops.length) : pending (ops.map (prog cfg)) i = true := by
  unfold pending
  rw [List.getElem?_map, List.getElem?_eq_getElem hi]
  have h := hops _ (List.getElem_mem hi)
  generalize ops[i] = op at h
  cases op <;> simp only [guardedUpdate, Bool.false_eq_true, Bool.and_eq_true, decide_eq_true_eq] at h
  · rfl
  · rfl
  · rename_i mv u g aggs
    show ((some (pAggsSet mv u g aggs)).bind Prog.next?).isSome = true
    unfold pAggsSet
    rw [if_neg (by omega)]; rfl

end Placement.Sched
