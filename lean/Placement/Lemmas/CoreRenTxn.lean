import Placement.Lemmas.CoreRen
/-
  C11, history theorem, part 4: `_set_allocations` and the reshaper transaction respect `Sim`.
-/
namespace Placement.Core
variable {R : Type} [CapOps R]
set_option linter.unusedSimpArgs false
set_option linter.unusedSectionVars false
set_option linter.unusedVariables false

/-- `_set_allocations` up to and including the provider generations: does not look at the consumer
table nor at the internal consumer ids of the allocation objects -/
def dropAllocs (db : DB R) (allocs : List AllocReq) : DB R :=
  { db with allocs := db.allocs.filter (fun a => !(allocs.map (·.consUuid)).contains a.consumer) }

def setAllocPre (db : DB R) (allocs : List AllocReq) : Except Exc (DB R) := do
  let db1 := dropAllocs db allocs
  checkCapacity db1 allocs
  let res ← resolveAllocRcs db1 allocs
  let rows := (allocs.zip res).filterMap (fun (a, r) =>
    if a.used == 0 then none
    else some ({ rp := a.rpId, rc := r.2.1, consumer := a.consUuid, used := a.used } : AllocRow))
  let db2 := { db1 with allocs := db1.allocs ++ rows }
  incRpGens db2 (firstByKey (allocs.map (fun a => (a.rpId, a.rpGen))))

/-- the consumers whose record `_set_allocations` re-examines at the end -/
def toCheck (allocs : List AllocReq) : List Nat :=
  (allocs.map (·.consUuid)).filter (fun u => !((allocs.filter (fun a => a.used > 0)).map (·.consUuid)).contains u)

theorem setAllocations_eq (db : DB R) (allocs : List AllocReq) :
    setAllocations db allocs =
      (setAllocPre db allocs >>= fun db3 =>
        incConsGens db3 (firstByKey (allocs.map (fun a => (a.consId, a.consGen)))) >>= fun db4 =>
          pure (deleteConsumersIfNoAllocs db4 (toCheck allocs))) := by
  unfold setAllocations setAllocPre toCheck dropAllocs
  simp only [bind_assoc]

theorem setAllocPre_side (s : Side) (db : DB R) (allocs : List AllocReq) :
    setAllocPre (putSide s db) allocs = (setAllocPre db allocs).map (putSide s) := by
  unfold setAllocPre
  have e0 : dropAllocs (putSide s db) allocs = putSide s (dropAllocs db allocs) := rfl
  simp only [e0, checkCapacity_side, resolveAllocRcs_side, putSide_allocs, map_bind]
  simp only [bind, Except.bind]
  cases checkCapacity (dropAllocs db allocs) allocs with
  | error e => rfl
  | ok u =>
    simp only []
    cases resolveAllocRcs (dropAllocs db allocs) allocs with
    | error e => rfl
    | ok res => exact incRpGens_side s _ { dropAllocs db allocs with allocs := _ }

omit [CapOps R] in
theorem resolveAllocRcs_ren (ρ : Nat → Nat) (db : DB R) : ∀ (as : List AllocReq),
    resolveAllocRcs db (as.map (renO ρ)) = resolveAllocRcs db as
  | [] => rfl
  | a :: as => by
    simp only [List.map_cons, resolveAllocRcs, resolveAllocRcs_ren ρ db as]
    rfl

theorem checkCapacity_ren (ρ : Nat → Nat) (db : DB R) (as : List AllocReq) :
    checkCapacity db (as.map (renO ρ)) = checkCapacity db as := by
  unfold checkCapacity
  rw [resolveAllocRcs_ren]

theorem setAllocPre_ren (ρ : Nat → Nat) (db : DB R) (as : List AllocReq) :
    setAllocPre db (as.map (renO ρ)) = setAllocPre db as := by
  unfold setAllocPre dropAllocs
  simp only [checkCapacity_ren, resolveAllocRcs_ren, List.map_map, List.zip_map_left, List.filterMap_map]
  rfl

omit [CapOps R] in
theorem toCheck_ren (ρ : Nat → Nat) (as : List AllocReq) : toCheck (as.map (renO ρ)) = toCheck as := by
  unfold toCheck
  simp only [List.map_map, List.filter_map]
  rfl

theorem setAllocations_sim {ρ : Nat → Nat} {dom : List Nat} {a b : DB R} (h : Sim ρ dom a b) (hinj : InjOn ρ dom)
    {objs : List AllocReq} (hids : ∀ o ∈ objs, o.consId ∈ dom) :
    RelE (Sim ρ dom) (setAllocations a objs) (setAllocations b (objs.map (renO ρ))) := by
  rw [setAllocations_eq, setAllocations_eq, setAllocPre_ren, toCheck_ren]
  have hkeys : firstByKey ((objs.map (renO ρ)).map (fun a => (a.consId, a.consGen))) =
      (firstByKey (objs.map (fun a => (a.consId, a.consGen)))).map (renK ρ) := by
    rw [← firstByKey_ren hinj _ (by
      intro p hp
      obtain ⟨o, ho, rfl⟩ := List.mem_map.mp hp
      exact hids o ho), List.map_map, List.map_map]
    rfl
  rw [hkeys]
  have h1 := h.side_fn (fun d => setAllocPre d objs) (fun s d => setAllocPre_side s d objs)
  simp only [bind, Except.bind]
  cases ha : setAllocPre a objs with
  | error e =>
    rw [ha] at h1
    cases hb : setAllocPre b objs with
    | error e' => rw [hb] at h1; exact h1
    | ok b' => rw [hb] at h1; exact h1.elim
  | ok a3 =>
    rw [ha] at h1
    cases hb : setAllocPre b objs with
    | error e' => rw [hb] at h1; exact h1.elim
    | ok b3 =>
      rw [hb] at h1
      have h2 := incConsGens_sim hinj (firstByKey (objs.map (fun a => (a.consId, a.consGen)))) h1 (by
        intro p hp
        obtain ⟨o, ho, rfl⟩ := List.mem_map.mp (firstByKey_sub _ p hp)
        exact hids o ho)
      simp only []
      cases ha4 : incConsGens a3 _ with
      | error e =>
        rw [ha4] at h2
        cases hb4 : incConsGens b3 _ with
        | error e' => rw [hb4] at h2; exact h2
        | ok b' => rw [hb4] at h2; exact h2.elim
      | ok a4 =>
        rw [ha4] at h2
        cases hb4 : incConsGens b3 _ with
        | error e' => rw [hb4] at h2; exact h2.elim
        | ok b4 =>
          rw [hb4] at h2
          exact deleteConsumersIfNoAllocs_sim h2 _

/-! ### reshaper -/

theorem reshapeTxn_sim {ρ : Nat → Nat} {dom : List Nat} {a b : DB R} (h : Sim ρ dom a b) (hinj : InjOn ρ dom)
    (rinvs : List (Nat × Nat × List (InvSpec R))) {objs : List AllocReq} (hids : ∀ o ∈ objs, o.consId ∈ dom) :
    RelE (Sim ρ dom) (reshapeTxn a rinvs objs) (reshapeTxn b rinvs (objs.map (renO ρ))) := by
  unfold reshapeTxn
  simp only [bind, Except.bind]
  -- interim inventories
  have hb := eq_putSide_of_rest h.rest
  have hI := reshapeInterim_side (side b) (rinvs.map (fun t => (t.1, t.2.2))) a (rinvs.map (fun t => (t.1, t.2.1)))
  rw [← hb] at hI
  have hIa := reshapeInterim_side (side a) (rinvs.map (fun t => (t.1, t.2.2))) a (rinvs.map (fun t => (t.1, t.2.1)))
  rw [putSide_self] at hIa
  rw [hI]
  cases hra : reshapeInterim a (rinvs.map (fun t => (t.1, t.2.2))) (rinvs.map (fun t => (t.1, t.2.1))) with
  | error e => exact rfl
  | ok x =>
    obtain ⟨a1, gens1⟩ := x
    rw [hra] at hIa
    simp only [map_ok, Except.ok.injEq, Prod.mk.injEq, and_true] at hIa
    have hc : a1.consumers = a.consumers := by rw [hIa]; rfl
    have h1 : Sim ρ dom a1 (putSide (side b) a1) :=
      ⟨rfl, by show b.consumers = _; rw [hc]; exact h.cons, by rw [hc]; exact h.ids⟩
    simp only [map_ok]
    -- allocations
    have hobjs : (objs.map (renO ρ)).map (fun a => { a with rpGen := knownGen gens1 a.rpId a.rpGen }) =
        (objs.map (fun a => { a with rpGen := knownGen gens1 a.rpId a.rpGen })).map (renO ρ) := by
      rw [List.map_map, List.map_map]; rfl
    rw [hobjs]
    have h2 := setAllocations_sim h1 hinj
      (objs := objs.map (fun a => { a with rpGen := knownGen gens1 a.rpId a.rpGen })) (by
        intro o ho
        obtain ⟨o', ho', rfl⟩ := List.mem_map.mp ho
        exact hids o' ho')
    have ht : (((objs.map (fun a => { a with rpGen := knownGen gens1 a.rpId a.rpGen })).map (renO ρ)).map
        (·.rpId)) = ((objs.map (fun a => { a with rpGen := knownGen gens1 a.rpId a.rpGen })).map (·.rpId)) := by
      rw [List.map_map]; rfl
    rw [ht]
    cases ha2 : setAllocations a1 (objs.map (fun a => { a with rpGen := knownGen gens1 a.rpId a.rpGen })) with
    | error e =>
      rw [ha2] at h2
      cases hb2 : setAllocations (putSide (side b) a1) _ with
      | error e' => rw [hb2] at h2; exact h2
      | ok b' => rw [hb2] at h2; exact h2.elim
    | ok a2 =>
      rw [ha2] at h2
      cases hb2 : setAllocations (putSide (side b) a1) _ with
      | error e' => rw [hb2] at h2; exact h2.elim
      | ok b2 =>
        rw [hb2] at h2
        exact h2.side_fn (fun d => reshapeFinal d _ _) (fun s d => reshapeFinal_side s _ d _)

/-! ### consumers created for entries without allocations -/

omit [CapOps R] in
theorem createdEmpty_ren {ρ : Nat → Nat} {dom : List Nat} (hinj : InjOn ρ dom)
    (triples : List (ConsumerReq × ConsRow × ReqAttr)) (created : List Nat)
    (ht : ∀ t ∈ triples, t.2.1.id ∈ dom) (hc : ∀ i ∈ created, i ∈ dom) :
    createdEmpty (triples.map (renT ρ)) (created.map ρ) = (createdEmpty triples created).map ρ := by
  unfold createdEmpty
  rw [List.filter_map, List.map_map, List.map_map]
  have : (triples.filter ((fun t => (created.map ρ).contains t.2.1.id && t.1.allocs.isEmpty) ∘ renT ρ)) =
      triples.filter (fun t => created.contains t.2.1.id && t.1.allocs.isEmpty) := by
    apply List.filter_congr
    intro t htm
    show ((created.map ρ).contains (ρ t.2.1.id) && t.1.allocs.isEmpty) = _
    rw [hinj.contains (ht t htm) hc]
  rw [this]
  rfl

end Placement.Core
