import Placement.Lemmas.AllocHandlers
/-
  Helper lemmas for C01, part 3: what every other request does to `inventories` and `allocations`
  (frame lemmas), and the monotonicity law used by "only an inventory change can over-commit".
-/
set_option linter.unusedSectionVars false
set_option linter.unusedSimpArgs false
namespace Placement
variable {R : Type} [CapOps R]

/-- The one law C01's second sentence needs: `capacity < n` is monotone in the integer `n`
(Python compares a float with an int exactly; a NaN capacity makes every comparison false). -/
class MonoCapOps (R : Type) [CapOps R] : Prop where
  capLt_mono : ∀ (a : Int) (r : R) (n m : Int), n ≤ m →
    CapOps.capLt a r n = true → CapOps.capLt a r m = true

/-- stored amounts are not negative (implied by `AllocPos`) -/
def AllocNonneg (db : DB R) : Prop := ∀ a ∈ db.allocs, 0 ≤ a.used

theorem AllocPos.nonneg {db : DB R} (h : AllocPos db) : AllocNonneg db :=
  fun a ha => Int.le_of_lt (h a ha)

/-- inventories and allocations untouched -/
def NoIA (db db' : DB R) : Prop := db'.invs = db.invs ∧ db'.allocs = db.allocs

theorem NoIA.refl (db : DB R) : NoIA db db := ⟨rfl, rfl⟩
theorem NoIA.trans {a b c : DB R} (h1 : NoIA a b) (h2 : NoIA b c) : NoIA a c :=
  ⟨h2.1.trans h1.1, h2.2.trans h1.2⟩
theorem ConsOnly.noIA {db d : DB R} (h : ConsOnly db d) : NoIA db d := ⟨h.2.1, h.2.2.1⟩
theorem SameIA.noIA {db d : DB R} (h : SameIA db d) : NoIA db d := ⟨h.1, h.2.1⟩

theorem usage_congr {db db' : DB R} (h : db'.allocs = db.allocs) (rp rc : Nat) :
    db'.usage rp rc = db.usage rp rc := by simp only [DB.usage, h]

/-- allocations untouched, and every inventory row of provider `rp` after was there before -/
theorem oc_of_sub {db db' : DB R} {rp rc : Nat} (ha : db'.allocs = db.allocs)
    (hi : ∀ i ∈ db'.invs, i.rp = rp → i ∈ db.invs) (h : OverCommitted db' rp rc) :
    OverCommitted db rp rc := by
  obtain ⟨i, hi', h1, h2, h3⟩ := h
  exact ⟨i, hi i hi' h1, h1, h2, by rw [← usage_congr ha]; exact h3⟩

theorem NoIA.oc {db db' : DB R} (h : NoIA db db') {rp rc : Nat} (ho : OverCommitted db' rp rc) :
    OverCommitted db rp rc :=
  oc_of_sub h.2 (fun _ hi _ => h.1 ▸ hi) ho

/-! ### object layer -/

theorem createProvider_noIA {db : DB R} {u n : Nat} {p : Option Nat} {r : DB R × RpRow}
    (h : createProvider db u n p = .ok r) : NoIA db r.1 := by
  unfold createProvider at h
  dsimp only at h
  repeat' split at h
  all_goals (first | (cases h; exact ⟨rfl, rfl⟩) | cases h)

theorem updateProvider_noIA {db db' : DB R} {id n : Nat} {p : Option Nat} {b : Bool}
    (h : updateProvider db id n p b = .ok db') : NoIA db db' := by
  unfold updateProvider at h
  dsimp only at h
  repeat' split at h
  all_goals (first | (cases h; exact ⟨rfl, rfl⟩) | cases h)

theorem deleteProvider_frame {db db' : DB R} {id : Nat} (h : deleteProvider db id = .ok db') :
    db'.allocs = db.allocs ∧ ∀ i ∈ db'.invs, i ∈ db.invs := by
  unfold deleteProvider at h
  repeat' split at h
  all_goals (first | cases h)
  exact ⟨rfl, fun i hi => (List.mem_filter.mp hi).1⟩

theorem setTraits_noIA {db db' : DB R} {rp gen : Nat} {ts : List Nat}
    (h : setTraits db rp gen ts = .ok db') : NoIA db db' := by
  unfold setTraits at h
  dsimp only at h
  split at h
  · cases h; exact NoIA.refl _
  · exact (incRpGen_same h).noIA

theorem setAggregates_noIA {db db' : DB R} {rp gen : Nat} {as : List Nat} {b : Bool}
    (h : setAggregates db rp gen as b = .ok db') : NoIA db db' := by
  unfold setAggregates at h
  dsimp only at h
  split at h
  · exact (incRpGen_same h).noIA
  · cases h; exact ⟨rfl, rfl⟩

theorem createTrait_noIA {db db' : DB R} {n : Nat} (h : createTrait db n = .ok db') : NoIA db db' := by
  unfold createTrait at h
  split at h
  · cases h
  · cases h; exact ⟨rfl, rfl⟩

theorem deleteTrait_noIA {db db' : DB R} {n : Nat} (h : deleteTrait db n = .ok db') : NoIA db db' := by
  unfold deleteTrait at h
  repeat' split at h
  all_goals (first | (cases h; exact ⟨rfl, rfl⟩) | cases h)

theorem createRc_noIA {db db' : DB R} {n : Nat} (h : createRc db n = .ok db') : NoIA db db' := by
  unfold createRc at h
  repeat' split at h
  all_goals (first | (cases h; exact ⟨rfl, rfl⟩) | cases h)

theorem deleteRc_noIA {db db' : DB R} {n : Nat} (h : deleteRc db n = .ok db') : NoIA db db' := by
  unfold deleteRc at h
  repeat' split at h
  all_goals (first | (cases h; exact ⟨rfl, rfl⟩) | cases h)

theorem renameRc_noIA {db db' : DB R} {i n : Nat} (h : renameRc db i n = .ok db') : NoIA db db' := by
  unfold renameRc at h
  repeat' split at h
  all_goals (first | (cases h; exact ⟨rfl, rfl⟩) | cases h)

/-! ### inventory writes: allocations untouched, other providers' rows untouched -/

/-- rows of providers other than `rp` are kept, allocations untouched -/
def InvFrame (db db' : DB R) (rp : Nat) : Prop :=
  db'.allocs = db.allocs ∧ ∀ i ∈ db'.invs, i.rp ≠ rp → i ∈ db.invs

theorem setInventory_frame {db db' : DB R} {rp gen : Nat} {invs : List (InvSpec R)}
    (h : setInventory db rp gen invs = .ok db') : InvFrame db db' rp := by
  unfold setInventory at h
  obtain ⟨these, h1, h⟩ := bind_ok h
  dsimp only at h
  split at h
  · cases h
  · have hs := incRpGen_same h
    refine ⟨hs.2.1, ?_⟩
    intro i hi hne
    rw [hs.1] at hi
    rcases List.mem_append.mp hi with hi | hi
    · obtain ⟨j, hj, rfl⟩ := List.mem_map.mp hi
      have hj' := (List.mem_filter.mp hj).1
      by_cases hjr : j.rp = rp
      · exfalso
        have : (j.rp == rp) = true := by simpa using hjr
        simp only [this, ↓reduceIte] at hne
        split at hne <;> simp_all [InvSpec.toRow]
      · have : (j.rp == rp) = false := by simpa using hjr
        simp only [this, Bool.false_eq_true, ↓reduceIte]
        exact hj'
    · obtain ⟨rc, _, hrow⟩ := List.mem_filterMap.mp hi
      exfalso
      cases hf : List.find? (fun x => x.1 == rc) these with
      | none => rw [hf] at hrow; cases hrow
      | some p => rw [hf] at hrow; cases hrow; exact hne rfl

theorem addInventory_frame {db db' : DB R} {rp gen : Nat} {inv : InvSpec R}
    (h : addInventory db rp gen inv = .ok db') : InvFrame db db' rp := by
  unfold addInventory at h
  repeat' split at h
  all_goals (first | cases h | skip)
  have hs := incRpGen_same h
  refine ⟨hs.2.1, ?_⟩
  intro i hi hne
  rw [hs.1] at hi
  rcases List.mem_append.mp hi with hi | hi
  · exact hi
  · simp only [List.mem_singleton] at hi
    subst hi; exact absurd rfl hne

theorem updateInventory_frame {db db' : DB R} {rp gen : Nat} {inv : InvSpec R}
    (h : updateInventory db rp gen inv = .ok db') : InvFrame db db' rp := by
  unfold updateInventory at h
  repeat' split at h
  all_goals (first | cases h | skip)
  have hs := incRpGen_same h
  refine ⟨hs.2.1, ?_⟩
  intro i hi hne
  rw [hs.1] at hi
  obtain ⟨j, hj, rfl⟩ := List.mem_map.mp hi
  split at hne
  · exact absurd rfl hne
  · rename_i hc; simp only [hc, ↓reduceIte, Bool.false_eq_true]; exact hj

theorem deleteInventory_frame {db db' : DB R} {rp gen rcn : Nat}
    (h : deleteInventory db rp gen rcn = .ok db') :
    db'.allocs = db.allocs ∧ ∀ i ∈ db'.invs, i ∈ db.invs := by
  unfold deleteInventory at h
  repeat' split at h
  all_goals (first | cases h | skip)
  have hs := incRpGen_same h
  refine ⟨hs.2.1, ?_⟩
  intro i hi
  rw [hs.1] at hi
  exact (List.mem_filter.mp hi).1

/-- replacing the inventory by the empty list only removes rows -/
theorem setInventory_nil_frame {db db' : DB R} {rp gen : Nat}
    (h : setInventory db rp gen [] = .ok db') :
    db'.allocs = db.allocs ∧ ∀ i ∈ db'.invs, i ∈ db.invs := by
  unfold setInventory at h
  obtain ⟨these, h1, h⟩ := bind_ok h
  have : these = [] := by simp [resolveRcs] at h1; exact h1
  subst this
  dsimp only at h
  split at h
  · cases h
  · have hs := incRpGen_same h
    refine ⟨hs.2.1, ?_⟩
    intro i hi
    rw [hs.1] at hi
    simp only [List.map_nil, List.find?_nil, List.filter_nil, List.eraseDups_nil,
      List.filterMap_nil, List.append_nil] at hi
    obtain ⟨j, hj, rfl⟩ := List.mem_map.mp hi
    have hj' := (List.mem_filter.mp hj).1
    split <;> exact hj'

/-! ### handlers that do not write allocations -/

theorem hRpCreate_noIA (db : DB R) (mv u n : Nat) (p : Option Nat) :
    NoIA db (hRpCreate db mv u n p).1 := by
  unfold hRpCreate
  repeat' split
  all_goals first | exact NoIA.refl _ | (rename_i h _; exact createProvider_noIA h)

theorem hRpUpdate_noIA (db : DB R) (mv u n : Nat) (p : Option (Option Nat)) :
    NoIA db (hRpUpdate db mv u n p).1 := by
  unfold hRpUpdate
  dsimp only
  repeat' split
  all_goals first | exact NoIA.refl _ | (rename_i h; exact updateProvider_noIA h)

theorem hTraitPut_noIA (db : DB R) (n : Nat) : NoIA db (hTraitPut db n).1 := by
  unfold hTraitPut
  repeat' split
  all_goals first | exact NoIA.refl _ | (rename_i h; exact createTrait_noIA h)

theorem hTraitDelete_noIA (db : DB R) (n : Nat) : NoIA db (hTraitDelete db n).1 := by
  unfold hTraitDelete
  repeat' split
  all_goals first | exact NoIA.refl _ | (rename_i h; exact deleteTrait_noIA h)

theorem hRpTraitsSet_noIA (db : DB R) (u g : Nat) (ts : List Nat) :
    NoIA db (hRpTraitsSet db u g ts).1 := by
  unfold hRpTraitsSet
  repeat' split
  all_goals first | exact NoIA.refl _ | (rename_i h; exact setTraits_noIA h)

theorem hRpTraitsDelete_noIA (db : DB R) (u : Nat) : NoIA db (hRpTraitsDelete db u).1 := by
  unfold hRpTraitsDelete
  repeat' split
  all_goals first | exact NoIA.refl _ | (rename_i h; exact setTraits_noIA h)

theorem hRcPost_noIA (db : DB R) (n : Nat) : NoIA db (hRcPost db n).1 := by
  unfold hRcPost
  repeat' split
  all_goals first | exact NoIA.refl _ | (rename_i h; exact createRc_noIA h)

theorem hRcPut_noIA (db : DB R) (n : Nat) : NoIA db (hRcPut db n).1 := by
  unfold hRcPut
  repeat' split
  all_goals first | exact NoIA.refl _ | (rename_i h; exact createRc_noIA h)

theorem hRcRename_noIA (db : DB R) (o n : Nat) : NoIA db (hRcRename db o n).1 := by
  unfold hRcRename
  repeat' split
  all_goals first | exact NoIA.refl _ | (rename_i h; exact renameRc_noIA h)

theorem hRcDelete_noIA (db : DB R) (n : Nat) : NoIA db (hRcDelete db n).1 := by
  unfold hRcDelete
  repeat' split
  all_goals first | exact NoIA.refl _ | (rename_i h; exact deleteRc_noIA h)

theorem hAggsSet_noIA (db : DB R) (mv u : Nat) (g : Option Nat) (as : List Nat) :
    NoIA db (hAggsSet db mv u g as).1 := by
  unfold hAggsSet
  dsimp only
  repeat' split
  all_goals first | exact NoIA.refl _ | (rename_i h; exact setAggregates_noIA h)

/-- allocations untouched and inventory rows only removed -/
def InvShrink (db db' : DB R) : Prop := db'.allocs = db.allocs ∧ ∀ i ∈ db'.invs, i ∈ db.invs

theorem InvShrink.refl (db : DB R) : InvShrink db db := ⟨rfl, fun _ h => h⟩

theorem hRpDelete_frame (db : DB R) (u : Nat) : InvShrink db (hRpDelete db u).1 := by
  unfold hRpDelete
  repeat' split
  all_goals first | exact InvShrink.refl _ | (rename_i h; exact deleteProvider_frame h)

theorem hInvDelete_frame (db : DB R) (u rc : Nat) : InvShrink db (hInvDelete db u rc).1 := by
  unfold hInvDelete
  repeat' split
  all_goals first | exact InvShrink.refl _ | (rename_i h; exact deleteInventory_frame h)

theorem hInvDeleteAll_frame (db : DB R) (mv u : Nat) : InvShrink db (hInvDeleteAll db mv u).1 := by
  unfold hInvDeleteAll
  repeat' split
  all_goals first | exact InvShrink.refl _ | (rename_i h; exact setInventory_nil_frame h)

/-- an inventory write through provider uuid `u`: nothing changed, or `u` names provider `r` and
only rows of `r` changed -/
def InvWrite (db db' : DB R) (u : Nat) : Prop :=
  NoIA db db' ∨ ∃ r, db.rpByUuid u = some r ∧ InvFrame db db' r.id

theorem hInvSet_frame (db : DB R) (mv u g : Nat) (is : List (InvSpec R)) :
    InvWrite db (hInvSet db mv u g is).1 u := by
  unfold hInvSet
  split
  · exact Or.inl (NoIA.refl _)
  · rename_i rp hrp
    repeat' split
    all_goals first | exact Or.inl (NoIA.refl _) | (rename_i h; exact Or.inr ⟨rp, hrp, setInventory_frame h⟩)

theorem hInvAdd_frame (db : DB R) (mv u : Nat) (i : InvSpec R) :
    InvWrite db (hInvAdd db mv u i).1 u := by
  unfold hInvAdd
  split
  · exact Or.inl (NoIA.refl _)
  · rename_i rp hrp
    repeat' split
    all_goals first | exact Or.inl (NoIA.refl _) | (rename_i h; exact Or.inr ⟨rp, hrp, addInventory_frame h⟩)

theorem hInvUpdate_frame (db : DB R) (mv u g : Nat) (i : InvSpec R) :
    InvWrite db (hInvUpdate db mv u g i).1 u := by
  unfold hInvUpdate
  split
  · exact Or.inl (NoIA.refl _)
  · rename_i rp hrp
    repeat' split
    all_goals first | exact Or.inl (NoIA.refl _) | (rename_i h; exact Or.inr ⟨rp, hrp, updateInventory_frame h⟩)


/-! ### allocation writes and over-commitment -/

theorem sum_filter_le (l : List AllocRow) (p k : AllocRow → Bool) (h : ∀ a ∈ l, 0 ≤ a.used) :
    (((l.filter p).filter k).map (·.used)).sum ≤ ((l.filter k).map (·.used)).sum := by
  induction l with
  | nil => simp
  | cons a l ih =>
    have ih' := ih (fun x hx => h x (List.mem_cons_of_mem _ hx))
    have ha := h a List.mem_cons_self
    by_cases hp : p a = true <;> by_cases hk : k a = true <;>
      simp only [List.filter_cons, hp, hk, ↓reduceIte, List.map_cons, List.sum_cons, Bool.false_eq_true] <;> omega

theorem usage_filter_le (db : DB R) (p : AllocRow → Bool) (h : AllocNonneg db) (rp rc : Nat) :
    ({ db with allocs := db.allocs.filter p } : DB R).usage rp rc ≤ db.usage rp rc :=
  sum_filter_le db.allocs p _ h

/-- An accepted `_set_allocations` and a pair that is over-committed afterwards: the call placed
nothing positive there, so the pair's usage did not grow. -/
theorem setAllocations_oc_usage {db db' : DB R} {allocs : List AllocReq}
    (h : setAllocations db allocs = .ok db') (hnn : ∀ a ∈ allocs, 0 ≤ a.used)
    (hu : InvKeysNodup db) (hpos : AllocNonneg db) {rp rc : Nat}
    (hoc : OverCommitted db' rp rc) : db'.usage rp rc ≤ db.usage rp rc := by
  by_cases hex : ∃ a ∈ allocs, 0 < a.used ∧ a.rpId = rp ∧ rcOf db a = rc
  · exfalso
    obtain ⟨a, ha, hp, rfl, rfl⟩ := hex
    have hrc := (setAllocations_ok h).2.1 a ha
    obtain ⟨_, hall⟩ := setAllocations_safe_all h hnn hu a ha hp _ hrc
    exact not_overCommitted_of_fits (fun i hi h1 h2 => (hall i hi h1 h2).2.2.2) hoc
  · have hz : sumKey rp rc (resolved db allocs) = 0 := by
      apply sumKey_zero
      intro c hc h1 h2
      obtain ⟨a, ha, rfl⟩ := List.mem_map.mp hc
      have := hnn a ha
      by_cases h0 : a.used = 0
      · exact h0
      · exact absurd ⟨a, ha, by omega, h1, h2⟩ hex
    rw [setAllocations_usage h, hz, Int.add_zero]
    exact usage_filter_le db _ hpos rp rc

theorem oc_mono [MonoCapOps R] {db db' : DB R} {rp rc : Nat} (hi : db'.invs = db.invs)
    (hle : db'.usage rp rc ≤ db.usage rp rc) (h : OverCommitted db' rp rc) :
    OverCommitted db rp rc := by
  obtain ⟨i, hi', h1, h2, h3⟩ := h
  exact ⟨i, hi ▸ hi', h1, h2, MonoCapOps.capLt_mono _ _ _ _ hle h3⟩

theorem hAllocDelete_frame (db : DB R) (c : Nat) :
    (hAllocDelete db c).1.invs = db.invs ∧
    ∃ p, (hAllocDelete db c).1.allocs = db.allocs.filter p := by
  unfold hAllocDelete
  split
  · exact ⟨rfl, _, rfl⟩
  · exact ⟨rfl, fun _ => true, (List.filter_eq_self.mpr (fun _ _ => rfl)).symm⟩

/-- the three facts about a request that theorems 4 and 5 of C01 use -/
structure WriteFrame (db db' : DB R) (rp rc : Nat) : Prop where
  invs : db'.invs = db.invs
  usage : OverCommitted db' rp rc → db'.usage rp rc ≤ db.usage rp rc

theorem WriteFrame.of_noIA {db db' : DB R} (h : NoIA db db') (rp rc : Nat) : WriteFrame db db' rp rc :=
  ⟨h.1, fun _ => Int.le_of_eq (usage_congr h.2 rp rc)⟩

theorem hAllocDelete_wf (db : DB R) (c : Nat) (hpos : AllocNonneg db) (rp rc : Nat) :
    WriteFrame db (hAllocDelete db c).1 rp rc := by
  obtain ⟨h1, p, h2⟩ := hAllocDelete_frame db c
  refine ⟨h1, fun _ => ?_⟩
  have := usage_filter_le db p hpos rp rc
  simpa only [DB.usage, h2] using this

theorem setAllocations_wf {db d db' : DB R} (hd : ConsOnly db d) {objs : List AllocReq}
    (hs : setAllocations d objs = .ok db') (hnn : ∀ a ∈ objs, 0 ≤ a.used)
    (hu : InvKeysNodup db) (hpos : AllocNonneg db) (rp rc : Nat) : WriteFrame db db' rp rc := by
  refine ⟨(setAllocations_ok hs).2.2.1.trans hd.2.1, fun hoc => ?_⟩
  have hpos' : AllocNonneg d := by simp only [AllocNonneg, hd.2.2.1]; exact hpos
  have := setAllocations_oc_usage hs hnn (hd.invKeys hu) hpos' hoc
  rwa [usage_congr hd.2.2.1] at this

theorem WriteFrame.congr {db d3 db' : DB R} {rp rc : Nat} (h : ConsOnly d3 db')
    (w : WriteFrame db d3 rp rc) : WriteFrame db db' rp rc := by
  have hu : db'.usage rp rc = d3.usage rp rc := usage_congr h.2.2.1 rp rc
  refine ⟨h.2.1.trans w.invs, fun ho => ?_⟩
  rw [hu]
  exact w.usage (h.noIA.oc ho)

theorem hAllocPut_wf (cfg : Config) (db : DB R) (mv : Nat) (c : ConsumerReq)
    (hu : InvKeysNodup db) (hpos : AllocNonneg db) (hnn : ∀ x ∈ c.allocs, 0 ≤ x.2.2) (rp rc : Nat) :
    WriteFrame db (hAllocPut cfg db mv c).1 rp rc := by
  rcases hAllocPut_cases cfg db mv c with ⟨hf, _⟩ | ⟨d1, d2, d3, cons, objs, h1, h2, ho, hs, h3⟩
  · exact WriteFrame.of_noIA hf.noIA rp rc
  · refine WriteFrame.congr h3 (setAllocations_wf h2 hs ?_ hu hpos rp rc)
    intro a ha
    rcases (allocObjects_ok ho).2 a ha with h0 | ⟨y, hy, e⟩
    · omega
    · rw [e]; exact hnn y hy

theorem hAllocPost_wf (cfg : Config) (db : DB R) (mv : Nat) (cs : List ConsumerReq)
    (hu : InvKeysNodup db) (hpos : AllocNonneg db) (hnn : ∀ c ∈ cs, ∀ x ∈ c.allocs, 0 ≤ x.2.2)
    (rp rc : Nat) : WriteFrame db (hAllocPost cfg db mv cs).1 rp rc := by
  rcases hAllocPost_cases cfg db mv cs with
    ⟨hf, _⟩ | ⟨d1, d2, d3, triples, objs, h1, h2, ht, ho, hs, h3⟩
  · exact WriteFrame.of_noIA hf.noIA rp rc
  · refine WriteFrame.congr h3 (setAllocations_wf h2 hs ?_ hu hpos rp rc)
    intro a ha
    rcases (allocObjectsAll_ok ho).2 a ha with h0 | ⟨t', ht', y, hy, e⟩
    · omega
    · rw [e]
      exact hnn t'.1 (by rw [← ht]; exact List.mem_map_of_mem ht') y hy

end Placement
