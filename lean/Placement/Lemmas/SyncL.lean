import Placement.Model.Sync
import Placement.Lemmas.Wf
import Placement.Lemmas.Alloc
/-
  C19, part 1: frame lemmas.  Only six requests can touch the tables `rcs` (resource classes) and `traits`:
  PUT/DELETE /traits/{name}, POST /resource_classes, PUT/DELETE /resource_classes/{name} (PUT = create from
  1.7, rename below).  Every other request, whatever it answers, leaves both tables as they are
  (`step_sym`).  Object layer first, then the handlers, then `step`.  No hypothesis on the state or the
  request (no `OpWF`).
-/
set_option linter.unusedSectionVars false
namespace Placement.SyncL
open Placement Placement.Wf
variable {R : Type}

/-- the two tables C19 talks about are unchanged -/
def SymEq (db db' : DB R) : Prop := db'.rcs = db.rcs ∧ db'.traits = db.traits

theorem SymEq.refl (db : DB R) : SymEq db db := ⟨rfl, rfl⟩
theorem SymEq.trans {a b c : DB R} (h1 : SymEq a b) (h2 : SymEq b c) : SymEq a c :=
  ⟨h2.1.trans h1.1, h2.2.trans h1.2⟩
theorem SymEq.of_eq {a b : DB R} (h : b = a) : SymEq a b := h ▸ SymEq.refl a

/-! ### object layer -/

theorem incRpGen_sym {db db' : DB R} {id gen : Nat} (h : incRpGen db id gen = .ok db') : SymEq db db' := by
  rw [(incRpGen_ok h).1]; exact ⟨rfl, rfl⟩

theorem incConsGen_sym {db db' : DB R} {id gen : Nat} (h : incConsGen db id gen = .ok db') : SymEq db db' := by
  rw [incConsGen_ok h]; exact ⟨rfl, rfl⟩

theorem incRpGens_sym {db db' : DB R} {l : List (Nat × Nat)} (h : incRpGens db l = .ok db') : SymEq db db' := by
  induction l generalizing db with
  | nil => cases h; exact SymEq.refl _
  | cons p l ih =>
    obtain ⟨id, gen⟩ := p
    unfold incRpGens at h
    obtain ⟨d, h1, h2⟩ := bind_ok h
    exact (incRpGen_sym h1).trans (ih h2)

theorem incConsGens_sym {db db' : DB R} {l : List (Nat × Nat)} (h : incConsGens db l = .ok db') :
    SymEq db db' := by
  induction l generalizing db with
  | nil => cases h; exact SymEq.refl _
  | cons p l ih =>
    obtain ⟨id, gen⟩ := p
    unfold incConsGens at h
    obtain ⟨d, h1, h2⟩ := bind_ok h
    exact (incConsGen_sym h1).trans (ih h2)

theorem createProvider_sym {db db' : DB R} {u n : Nat} {p : Option Nat} {row : RpRow}
    (h : createProvider db u n p = .ok (db', row)) : SymEq db db' := by
  unfold createProvider at h
  dsimp only at h
  repeat' split at h
  all_goals first
    | (cases h; exact ⟨rfl, rfl⟩)
    | cases h

theorem updateProvider_sym {db db' : DB R} {id n : Nat} {p : Option Nat} {b : Bool}
    (h : updateProvider db id n p b = .ok db') : SymEq db db' := by
  unfold updateProvider at h
  dsimp only at h
  repeat' split at h
  all_goals first
    | (cases h; exact ⟨rfl, rfl⟩)
    | cases h

theorem deleteProvider_sym {db db' : DB R} {id : Nat} (h : deleteProvider db id = .ok db') : SymEq db db' := by
  unfold deleteProvider at h
  repeat' split at h
  all_goals first
    | (cases h; exact ⟨rfl, rfl⟩)
    | cases h

theorem setInventory_sym {db db' : DB R} {rp gen : Nat} {L : List (InvSpec R)}
    (h : setInventory db rp gen L = .ok db') : SymEq db db' := by
  unfold setInventory at h
  obtain ⟨T, _, h⟩ := bind_ok h
  dsimp only at h
  split at h
  · cases h
  · have := incRpGen_sym h; exact this

theorem addInventory_sym {db db' : DB R} {rp gen : Nat} {inv : InvSpec R}
    (h : addInventory db rp gen inv = .ok db') : SymEq db db' := by
  unfold addInventory at h
  repeat' split at h
  all_goals (first | cases h | skip)
  have := incRpGen_sym h; exact this

theorem updateInventory_sym {db db' : DB R} {rp gen : Nat} {inv : InvSpec R}
    (h : updateInventory db rp gen inv = .ok db') : SymEq db db' := by
  unfold updateInventory at h
  repeat' split at h
  all_goals (first | cases h | skip)
  have := incRpGen_sym h; exact this

theorem deleteInventory_sym {db db' : DB R} {rp gen rcn : Nat}
    (h : deleteInventory db rp gen rcn = .ok db') : SymEq db db' := by
  unfold deleteInventory at h
  repeat' split at h
  all_goals (first | cases h | skip)
  have := incRpGen_sym h; exact this

theorem setTraits_sym {db db' : DB R} {rp gen : Nat} {ts : List Nat}
    (h : setTraits db rp gen ts = .ok db') : SymEq db db' := by
  unfold setTraits at h
  dsimp only at h
  split at h
  · cases h; exact SymEq.refl _
  · have := incRpGen_sym h; exact this

theorem setAggregates_sym {db db' : DB R} {rp gen : Nat} {as : List Nat} {b : Bool}
    (h : setAggregates db rp gen as b = .ok db') : SymEq db db' := by
  unfold setAggregates at h
  dsimp only at h
  split at h
  · have := incRpGen_sym h; exact this
  · cases h; exact ⟨rfl, rfl⟩

theorem setAllocations_sym [CapOps R] {db db' : DB R} {allocs : List AllocReq}
    (h : setAllocations db allocs = .ok db') : SymEq db db' := by
  unfold setAllocations at h
  obtain ⟨_, _, h⟩ := bind_ok h
  obtain ⟨res, _, h⟩ := bind_ok h
  obtain ⟨d3, h3, h⟩ := bind_ok h
  obtain ⟨d4, h4, h⟩ := bind_ok h
  cases h
  have s3 := incRpGens_sym h3
  have s4 := incConsGens_sym h4
  have s : SymEq db d4 := SymEq.trans (by exact s3) s4
  exact s.trans ⟨rfl, rfl⟩

/-! ### handlers that never touch the two tables -/

theorem hRpCreate_sym (db : DB R) (mv u n : Nat) (p : Option Nat) : SymEq db (hRpCreate db mv u n p).1 := by
  rcases hRpCreate_cases db mv u n p with h | ⟨db', row, h1, h2⟩
  · rw [h]; exact SymEq.refl _
  · rw [h2]; exact createProvider_sym h1

theorem hRpUpdate_sym (db : DB R) (mv u n : Nat) (p : Option (Option Nat)) :
    SymEq db (hRpUpdate db mv u n p).1 := by
  rcases hRpUpdate_cases db mv u n p with h | ⟨id, p', a, db', h1, h2⟩
  · rw [h]; exact SymEq.refl _
  · rw [h2]; exact updateProvider_sym h1

theorem hRpDelete_sym (db : DB R) (u : Nat) : SymEq db (hRpDelete db u).1 := by
  rcases hRpDelete_cases db u with h | ⟨me, db', _, h1, h2⟩
  · rw [h]; exact SymEq.refl _
  · rw [h2]; exact deleteProvider_sym h1

theorem hRpTraitsSet_sym (db : DB R) (u g : Nat) (ts : List Nat) : SymEq db (hRpTraitsSet db u g ts).1 := by
  rcases hRpTraitsSet_cases db u g ts with h | ⟨rp, db', _, _, h1, h2⟩
  · rw [h]; exact SymEq.refl _
  · rw [h2]; exact setTraits_sym h1

theorem hRpTraitsDelete_sym (db : DB R) (u : Nat) : SymEq db (hRpTraitsDelete db u).1 := by
  rcases hRpTraitsDelete_cases db u with h | ⟨rp, db', _, h1, h2⟩
  · rw [h]; exact SymEq.refl _
  · rw [h2]; exact setTraits_sym h1

theorem hInvDelete_sym (db : DB R) (u rc : Nat) : SymEq db (hInvDelete db u rc).1 := by
  rcases hInvDelete_cases db u rc with h | ⟨rp, db', _, h1, h2⟩
  · rw [h]; exact SymEq.refl _
  · rw [h2]; exact deleteInventory_sym h1

theorem hInvDeleteAll_sym (db : DB R) (mv u : Nat) : SymEq db (hInvDeleteAll db mv u).1 := by
  rcases hInvDeleteAll_cases db mv u with h | ⟨rp, db', _, h1, h2⟩
  · rw [h]; exact SymEq.refl _
  · rw [h2]; exact setInventory_sym h1

theorem hAggsSet_sym (db : DB R) (mv u : Nat) (g : Option Nat) (as : List Nat) :
    SymEq db (hAggsSet db mv u g as).1 := by
  rcases hAggsSet_cases db mv u g as with h | ⟨rp, b, db', _, h1, h2⟩
  · rw [h]; exact SymEq.refl _
  · rw [h2]; exact setAggregates_sym h1

section
variable [CapOps R]

theorem hInvSet_sym (db : DB R) (mv u g : Nat) (is : List (InvSpec R)) : SymEq db (hInvSet db mv u g is).1 := by
  rcases hInvSet_cases db mv u g is with h | ⟨rp, db', _, h1, h2⟩
  · rw [h]; exact SymEq.refl _
  · rw [h2]; exact setInventory_sym h1

theorem hInvAdd_sym (db : DB R) (mv u : Nat) (i : InvSpec R) : SymEq db (hInvAdd db mv u i).1 := by
  rcases hInvAdd_cases db mv u i with h | ⟨rp, db', _, h1, h2⟩
  · rw [h]; exact SymEq.refl _
  · rw [h2]; exact addInventory_sym h1

theorem hInvUpdate_sym (db : DB R) (mv u g : Nat) (i : InvSpec R) : SymEq db (hInvUpdate db mv u g i).1 := by
  rcases hInvUpdate_cases db mv u g i with h | ⟨rp, db', _, h1, h2⟩
  · rw [h]; exact SymEq.refl _
  · rw [h2]; exact updateInventory_sym h1

end

/-! ### consumers, allocations, reshaper -/

theorem ensureConsumer_sym (cfg : Config) (db : DB R) (mv : Nat) (c : ConsumerReq) :
    SymEq db (ensureConsumer cfg db mv c).1 := by
  unfold ensureConsumer
  dsimp only
  repeat' split
  all_goals exact ⟨rfl, rfl⟩

theorem updateConsumer_sym (db : DB R) (cons : ConsRow) (a : ReqAttr) : SymEq db (updateConsumer db cons a) := by
  unfold updateConsumer
  dsimp only
  repeat' split
  all_goals exact ⟨rfl, rfl⟩

theorem deleteConsumerRows_sym (db : DB R) (ids : List Nat) : SymEq db (deleteConsumerRows db ids) := ⟨rfl, rfl⟩

theorem updateConsumers_sym (db : DB R) (l : List (ConsumerReq × ConsRow × ReqAttr)) :
    SymEq db (updateConsumers db l) := by
  induction l generalizing db with
  | nil => exact SymEq.refl _
  | cons x l ih =>
    obtain ⟨c, cons, attr⟩ := x
    unfold updateConsumers
    exact (updateConsumer_sym db cons attr).trans (ih _)

theorem inspectConsumers_sym (cfg : Config) (mv : Nat) (db : DB R) (cs : List ConsumerReq)
    (acc : List (ConsumerReq × ConsRow × ReqAttr)) (created : List Nat) :
    SymEq db (inspectConsumers cfg mv db cs acc created).1 := by
  induction cs generalizing db acc created with
  | nil => exact SymEq.refl _
  | cons c cs ih =>
    unfold inspectConsumers
    have hf := ensureConsumer_sym cfg db mv c
    split
    · rename_i db1 r he
      rw [he] at hf
      exact hf.trans (deleteConsumerRows_sym _ _)
    · rename_i db1 cons isNew attr he
      rw [he] at hf
      exact hf.trans (ih _ _ _)

theorem hAllocDelete_sym (db : DB R) (c : Nat) : SymEq db (hAllocDelete db c).1 := by
  unfold hAllocDelete
  split
  · exact ⟨rfl, rfl⟩
  · exact SymEq.refl _

section
variable [CapOps R]

theorem hAllocPut_sym (cfg : Config) (db : DB R) (mv : Nat) (c : ConsumerReq) :
    SymEq db (hAllocPut cfg db mv c).1 := by
  unfold hAllocPut
  split
  · exact SymEq.refl _
  · have hf := ensureConsumer_sym cfg db mv c
    split
    · rename_i db1 r he
      rw [he] at hf; exact hf
    · rename_i db1 cons created attr he
      rw [he] at hf
      split
      · dsimp only
        split
        · exact hf.trans (deleteConsumerRows_sym _ _)
        · exact hf
      · rename_i objs ho
        dsimp only
        split
        · rename_i db3 hs
          have h3 := (hf.trans (updateConsumer_sym db1 cons attr)).trans (setAllocations_sym hs)
          dsimp only
          split
          · exact h3.trans (deleteConsumerRows_sym _ _)
          · exact h3
        · dsimp only
          split
          · exact hf.trans (deleteConsumerRows_sym _ _)
          · exact hf

theorem hAllocPost_sym (cfg : Config) (db : DB R) (mv : Nat) (cs : List ConsumerReq) :
    SymEq db (hAllocPost cfg db mv cs).1 := by
  unfold hAllocPost
  split
  · exact SymEq.refl _
  · have hf := inspectConsumers_sym cfg mv db cs [] []
    split
    · rename_i db1 r he
      rw [he] at hf; exact hf
    · rename_i db1 triples created he
      rw [he] at hf
      split
      · exact hf.trans (deleteConsumerRows_sym _ _)
      · rename_i objs ho
        dsimp only
        split
        · rename_i db3 hs
          exact ((hf.trans (updateConsumers_sym db1 triples)).trans (setAllocations_sym hs)).trans
            (deleteConsumerRows_sym _ _)
        · exact hf.trans (deleteConsumerRows_sym _ _)

theorem reshapeInterim_sym {db db1 : DB R} {byRp : List (Nat × List (InvSpec R))}
    {gens gens1 : List (Nat × Nat)} (h : reshapeInterim db byRp gens = .ok (db1, gens1)) : SymEq db db1 := by
  induction byRp generalizing db gens with
  | nil => cases h; exact SymEq.refl _
  | cons p rest ih =>
    obtain ⟨rp, L⟩ := p
    unfold reshapeInterim at h
    split at h
    · exact ih h
    · dsimp only at h
      split at h
      · cases h
      · rename_i db' hset
        exact (setInventory_sym hset).trans (ih h)

theorem reshapeFinal_sym {db db3 : DB R} {byRp : List (Nat × List (InvSpec R))}
    {gens : List (Nat × Nat)} (h : reshapeFinal db byRp gens = .ok db3) : SymEq db db3 := by
  induction byRp generalizing db gens with
  | nil => cases h; exact SymEq.refl _
  | cons p rest ih =>
    obtain ⟨rp, L⟩ := p
    unfold reshapeFinal at h
    split at h
    · cases h
    · rename_i db' hset
      exact (setInventory_sym hset).trans (ih h)

theorem reshapeTxn_sym {d db3 : DB R} {rinvs : List (Nat × Nat × List (InvSpec R))} {objs : List AllocReq}
    (h : reshapeTxn d rinvs objs = .ok db3) : SymEq d db3 := by
  unfold reshapeTxn at h
  obtain ⟨x, h1, h⟩ := bind_ok h
  obtain ⟨db1, gens1⟩ := x
  dsimp only at h
  obtain ⟨db2, h2, h⟩ := bind_ok h
  exact ((reshapeInterim_sym h1).trans (setAllocations_sym h2)).trans (reshapeFinal_sym h)

theorem hReshape_sym (cfg : Config) (db : DB R) (mv : Nat) (invs : List (RpInvReq R)) (cs : List ConsumerReq) :
    SymEq db (hReshape cfg db mv invs cs).1 := by
  unfold hReshape
  split
  · exact SymEq.refl _
  · split
    · exact SymEq.refl _
    · have hf := inspectConsumers_sym cfg mv db cs [] []
      split
      · rename_i db1 r he
        rw [he] at hf; exact hf
      · rename_i db1 triples created he
        rw [he] at hf
        split
        · exact hf.trans (deleteConsumerRows_sym _ _)
        · rename_i objs ho
          dsimp only
          split
          · rename_i db3 hs
            exact ((hf.trans (updateConsumers_sym db1 triples)).trans (reshapeTxn_sym hs)).trans
              (deleteConsumerRows_sym _ _)
          · exact hf.trans (deleteConsumerRows_sym _ _)

/-! ### `step` -/

/-- the six requests that can write the tables `rcs` / `traits` -/
def touchesSym : Op R → Bool
  | .traitPut _ | .traitDelete _ | .rcPost _ | .rcPut _ | .rcRename _ _ | .rcDelete _ => true
  | _ => false

/-- every other request leaves both tables unchanged, whatever it answers -/
theorem step_sym (cfg : Config) (db : DB R) (op : Op R) (h : touchesSym op = false) :
    SymEq db (step cfg db op).1 := by
  cases op with
  | rpCreate mv u n p => exact hRpCreate_sym db mv u n p
  | rpUpdate mv u n p => exact hRpUpdate_sym db mv u n p
  | rpDelete u => exact hRpDelete_sym db u
  | invSet mv u g is => exact hInvSet_sym db mv u g is
  | invAdd mv u i => exact hInvAdd_sym db mv u i
  | invUpdate mv u g i => exact hInvUpdate_sym db mv u g i
  | invDelete u rc => exact hInvDelete_sym db u rc
  | invDeleteAll mv u => exact hInvDeleteAll_sym db mv u
  | rpTraitsSet u g ts => exact hRpTraitsSet_sym db u g ts
  | rpTraitsDelete u => exact hRpTraitsDelete_sym db u
  | aggsSet mv u g as => exact hAggsSet_sym db mv u g as
  | allocPut mv c => exact hAllocPut_sym cfg db mv c
  | allocPost mv cs => exact hAllocPost_sym cfg db mv cs
  | allocDelete c => exact hAllocDelete_sym db c
  | reshape mv invs cs => exact hReshape_sym cfg db mv invs cs
  | traitPut n => cases h
  | traitDelete n => cases h
  | rcPost n => cases h
  | rcPut n => cases h
  | rcRename o n => cases h
  | rcDelete n => cases h

end

end Placement.SyncL
