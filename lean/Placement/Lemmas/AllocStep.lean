import Placement.Lemmas.AllocFrame
/-
  Helper lemmas for C01, part 4: the step function, request by request.
-/
set_option linter.unusedSectionVars false
namespace Placement
variable {R : Type} [CapOps R]

/-- the entries `(provider uuid, class name, amount)` a request asks to place -/
def Op.placed : Op R → List (Nat × Nat × Int)
  | .allocPut _ c => c.allocs
  | .allocPost _ cs => cs.flatMap (·.allocs)
  | .reshape _ _ cs => cs.flatMap (·.allocs)
  | _ => []

/-- JSON-schema fact about allocation bodies (`"minimum": 1`; the model only needs `0 ≤`) -/
def Op.AmountsNonneg (op : Op R) : Prop := ∀ x ∈ op.placed, 0 ≤ x.2.2

instance (op : Op R) : Decidable op.AmountsNonneg := by unfold Op.AmountsNonneg; infer_instance

def Op.isReshape : Op R → Bool
  | .reshape .. => true
  | _ => false

/-- the requests that can change the inventory rows of provider `rp` (internal id) in a way that
adds or alters a row: `PUT inventories`, `POST inventories`, `PUT inventories/{rc}`, `POST /reshaper`
naming that provider.  (`DELETE` of inventories or of the provider only removes rows.) -/
def Op.changesInventoryOf (db : DB R) (rp : Nat) : Op R → Prop
  | .invSet _ u _ _ | .invAdd _ u _ | .invUpdate _ u _ _ => ∃ r, db.rpByUuid u = some r ∧ r.id = rp
  | .reshape _ invs _ => ∃ q ∈ invs, ∃ r, db.rpByUuid q.uuid = some r ∧ r.id = rp
  | _ => False

theorem InvShrink.wf {db db' : DB R} (h : InvShrink db db') {rp rc : Nat}
    (ho : OverCommitted db' rp rc) : OverCommitted db rp rc :=
  oc_of_sub h.1 (fun i hi _ => h.2 i hi) ho

theorem InvWrite.oc {db db' : DB R} {u rp rc : Nat} (h : InvWrite db db' u)
    (hn : ¬ ∃ r, db.rpByUuid u = some r ∧ r.id = rp) (ho : OverCommitted db' rp rc) :
    OverCommitted db rp rc := by
  rcases h with h | ⟨r, hr, hf⟩
  · exact h.oc ho
  · refine oc_of_sub hf.1 (fun i hi h1 => hf.2 i hi ?_) ho
    intro e; exact hn ⟨r, hr, e.symm ▸ h1 ▸ rfl⟩

theorem InvWrite.allocs {db db' : DB R} {u : Nat} (h : InvWrite db db' u) : db'.allocs = db.allocs := by
  rcases h with h | ⟨r, _, hf⟩
  · exact h.2
  · exact hf.1

/-- every request except `POST /reshaper`: a pair over-committed afterwards did not gain usage -/
theorem step_usage_le (cfg : Config) (db : DB R) (op : Op R) (hr : op.isReshape = false)
    (hu : InvKeysNodup db) (hpos : AllocNonneg db) (hnn : op.AmountsNonneg) {rp rc : Nat}
    (ho : OverCommitted (step cfg db op).1 rp rc) :
    (step cfg db op).1.usage rp rc ≤ db.usage rp rc := by
  cases op with
  | rpCreate mv u n p => exact Int.le_of_eq (usage_congr (hRpCreate_noIA db mv u n p).2 _ _)
  | rpUpdate mv u n p => exact Int.le_of_eq (usage_congr (hRpUpdate_noIA db mv u n p).2 _ _)
  | rpDelete u => exact Int.le_of_eq (usage_congr (hRpDelete_frame db u).1 _ _)
  | invSet mv u g is => exact Int.le_of_eq (usage_congr (hInvSet_frame db mv u g is).allocs _ _)
  | invAdd mv u i => exact Int.le_of_eq (usage_congr (hInvAdd_frame db mv u i).allocs _ _)
  | invUpdate mv u g i => exact Int.le_of_eq (usage_congr (hInvUpdate_frame db mv u g i).allocs _ _)
  | invDelete u rc' => exact Int.le_of_eq (usage_congr (hInvDelete_frame db u rc').1 _ _)
  | invDeleteAll mv u => exact Int.le_of_eq (usage_congr (hInvDeleteAll_frame db mv u).1 _ _)
  | traitPut n => exact Int.le_of_eq (usage_congr (hTraitPut_noIA db n).2 _ _)
  | traitDelete n => exact Int.le_of_eq (usage_congr (hTraitDelete_noIA db n).2 _ _)
  | rpTraitsSet u g ts => exact Int.le_of_eq (usage_congr (hRpTraitsSet_noIA db u g ts).2 _ _)
  | rpTraitsDelete u => exact Int.le_of_eq (usage_congr (hRpTraitsDelete_noIA db u).2 _ _)
  | rcPost n => exact Int.le_of_eq (usage_congr (hRcPost_noIA db n).2 _ _)
  | rcPut n => exact Int.le_of_eq (usage_congr (hRcPut_noIA db n).2 _ _)
  | rcRename o n => exact Int.le_of_eq (usage_congr (hRcRename_noIA db o n).2 _ _)
  | rcDelete n => exact Int.le_of_eq (usage_congr (hRcDelete_noIA db n).2 _ _)
  | aggsSet mv u g as => exact Int.le_of_eq (usage_congr (hAggsSet_noIA db mv u g as).2 _ _)
  | allocPut mv c => exact (hAllocPut_wf cfg db mv c hu hpos hnn rp rc).usage ho
  | allocPost mv cs =>
    refine (hAllocPost_wf cfg db mv cs hu hpos ?_ rp rc).usage ho
    intro c hc x hx
    exact hnn x (List.mem_flatMap.mpr ⟨c, hc, hx⟩)
  | allocDelete c => exact (hAllocDelete_wf db c hpos rp rc).usage ho
  | reshape mv invs cs => cases hr

theorem step_oc_back [MonoCapOps R] (cfg : Config) (db : DB R) (op : Op R) (hr : op.isReshape = false)
    (hu : InvKeysNodup db) (hpos : AllocNonneg db) (hnn : op.AmountsNonneg) {rp rc : Nat}
    (ho : OverCommitted (step cfg db op).1 rp rc) (hn : ¬ op.changesInventoryOf db rp) :
    OverCommitted db rp rc := by
  cases op with
  | rpCreate mv u n p => exact (hRpCreate_noIA db mv u n p).oc ho
  | rpUpdate mv u n p => exact (hRpUpdate_noIA db mv u n p).oc ho
  | rpDelete u => exact (hRpDelete_frame db u).wf ho
  | invSet mv u g is => exact (hInvSet_frame db mv u g is).oc hn ho
  | invAdd mv u i => exact (hInvAdd_frame db mv u i).oc hn ho
  | invUpdate mv u g i => exact (hInvUpdate_frame db mv u g i).oc hn ho
  | invDelete u rc' => exact (hInvDelete_frame db u rc').wf ho
  | invDeleteAll mv u => exact (hInvDeleteAll_frame db mv u).wf ho
  | traitPut n => exact (hTraitPut_noIA db n).oc ho
  | traitDelete n => exact (hTraitDelete_noIA db n).oc ho
  | rpTraitsSet u g ts => exact (hRpTraitsSet_noIA db u g ts).oc ho
  | rpTraitsDelete u => exact (hRpTraitsDelete_noIA db u).oc ho
  | rcPost n => exact (hRcPost_noIA db n).oc ho
  | rcPut n => exact (hRcPut_noIA db n).oc ho
  | rcRename o n => exact (hRcRename_noIA db o n).oc ho
  | rcDelete n => exact (hRcDelete_noIA db n).oc ho
  | aggsSet mv u g as => exact (hAggsSet_noIA db mv u g as).oc ho
  | allocPut mv c =>
    have w := hAllocPut_wf cfg db mv c hu hpos hnn rp rc
    exact oc_mono w.invs (w.usage ho) ho
  | allocPost mv cs =>
    have w := hAllocPost_wf cfg db mv cs hu hpos
      (fun c hc x hx => hnn x (List.mem_flatMap.mpr ⟨c, hc, hx⟩)) rp rc
    exact oc_mono w.invs (w.usage ho) ho
  | allocDelete c =>
    have w := hAllocDelete_wf db c hpos rp rc
    exact oc_mono w.invs (w.usage ho) ho
  | reshape mv invs cs => cases hr
end Placement
