import Placement.Lemmas.AllocReshape
/-
  Helper lemmas for C01, part 4: the step function, request by request.
-/
set_option linter.unusedSectionVars false
namespace Placement
variable {R : Type} [CapOps R]

/-- the entries `(provider uuid, class name, amount)` a request asks to place -/
def Op.placed : Op R → List (Nat × Nat × Int)
  | .allocPut _ c => c.allocs
  | .allocPost _ cs => cs.flatMap (·.allocs)
  | .reshape _ _ cs => cs.flatMap (·.allocs)
  | _ => []

/-- JSON-schema fact about allocation bodies (`"minimum": 1`; the model only needs `0 ≤`) -/
def Op.AmountsNonneg (op : Op R) : Prop := ∀ x ∈ op.placed, 0 ≤ x.2.2

instance (op : Op R) : Decidable op.AmountsNonneg := by unfold Op.AmountsNonneg; infer_instance


/-- the requests that can change the inventory rows of provider `rp` (internal id) in a way that
adds or alters a row: `PUT inventories`, `POST inventories`, `PUT inventories/{rc}`, `POST /reshaper`
naming that provider.  (`DELETE` of inventories or of the provider only removes rows.) -/
def Op.changesInventoryOf (db : DB R) (rp : Nat) : Op R → Prop
  | .invSet _ u _ _ | .invAdd _ u _ | .invUpdate _ u _ _ => ∃ r, db.rpByUuid u = some r ∧ r.id = rp
  | .reshape _ invs _ => ∃ q ∈ invs, ∃ r, db.rpByUuid q.uuid = some r ∧ r.id = rp
  | _ => False

theorem InvShrink.wf {db db' : DB R} (h : InvShrink db db') {rp rc : Nat}
    (ho : OverCommitted db' rp rc) : OverCommitted db rp rc :=
  oc_of_sub h.1 (fun i hi _ => h.2 i hi) ho

theorem InvWrite.oc {db db' : DB R} {u rp rc : Nat} (h : InvWrite db db' u)
    (hn : ¬ ∃ r, db.rpByUuid u = some r ∧ r.id = rp) (ho : OverCommitted db' rp rc) :
    OverCommitted db rp rc := by
  rcases h with h | ⟨r, hr, hf⟩
  · exact h.oc ho
  · refine oc_of_sub hf.1 (fun i hi h1 => hf.2 i hi ?_) ho
    intro e; exact hn ⟨r, hr, e.symm ▸ h1 ▸ rfl⟩

theorem InvWrite.allocs {db db' : DB R} {u : Nat} (h : InvWrite db db' u) : db'.allocs = db.allocs := by
  rcases h with h | ⟨r, _, hf⟩
  · exact h.2
  · exact hf.1


/-! ### `POST /reshaper` -/

theorem hReshape_safe {cfg : Config} {db : DB R} {mv : Nat} {invs : List (RpInvReq R)}
    {cs : List ConsumerReq} (hu : InvKeysNodup db) (hrc : RcIdsNodup db) (hid : RpIdsNodup db)
    (hwf : ReshapeWF invs) (hnn : ∀ c ∈ cs, ∀ x ∈ c.allocs, 0 ≤ x.2.2)
    (hok : (hReshape cfg db mv invs cs).2.ok = true) :
    ∀ c ∈ cs, ∀ x ∈ c.allocs, 0 < x.2.2 → PlacedSafe db (hReshape cfg db mv invs cs).1 x := by
  intro c hc x hx hpos
  rcases hReshape_facts (cfg := cfg) (mv := mv) (cs := cs) hu hrc hid hwf with
    ⟨_, hbad⟩ | ⟨d2, d3, targets, triples, objs, h2, h3, facts, _, ht, p1, p2⟩
  · rw [hbad] at hok; cases hok
  · have hc' : ∃ t ∈ triples, t.1 = c := by rw [← ht] at hc; simpa using hc
    obtain ⟨t, htm, rfl⟩ := hc'
    obtain ⟨rp, hrp, a, ha, e1, e2, e3⟩ := p1 t htm x hx
    have hnn' : ∀ a ∈ objs, 0 ≤ a.used := by
      intro a ha
      rcases p2 a ha with h0 | ⟨t', ht', y, hy, e⟩
      · omega
      · rw [e]; exact hnn t'.1 (by rw [← ht]; exact List.mem_map_of_mem ht') y hy
    obtain ⟨rc, hrcid, ⟨i, hi, hi1, hi2⟩, hall⟩ := facts.placed hnn' a ha (by omega)
    have hfit := hall i hi hi1 hi2
    rw [e1] at hi1 hall hfit
    rw [e3] at hfit
    rw [e2] at hrcid
    refine PlacedSafe.congr h3 ⟨rp, rc, i, hrp, ?_, hi, hi1, hi2, hfit.1, hfit.2.1, hfit.2.2.1,
      hfit.2.2.2, ?_⟩
    · simpa only [DB.rcId, h2.2.2.2.1] using hrcid
    · apply not_overCommitted_of_fits
      intro j hj j1 j2
      exact (hall j hj j1 j2).2.2.2

/-- usage of a pair that is over-committed after a reshape did not grow -/
theorem hReshape_usage {cfg : Config} {db : DB R} {mv : Nat} {invs : List (RpInvReq R)}
    {cs : List ConsumerReq} (hu : InvKeysNodup db) (hrc : RcIdsNodup db) (hid : RpIdsNodup db)
    (hwf : ReshapeWF invs) (hpos : AllocNonneg db) (hnn : ∀ c ∈ cs, ∀ x ∈ c.allocs, 0 ≤ x.2.2)
    {rp rc : Nat} (ho : OverCommitted (hReshape cfg db mv invs cs).1 rp rc) :
    (hReshape cfg db mv invs cs).1.usage rp rc ≤ db.usage rp rc := by
  rcases hReshape_facts (cfg := cfg) (mv := mv) (cs := cs) hu hrc hid hwf with
    ⟨hf, _⟩ | ⟨d2, d3, targets, triples, objs, h2, h3, facts, _, ht, p1, p2⟩
  · exact Int.le_of_eq (usage_congr hf.2 _ _)
  · have hnn' : ∀ a ∈ objs, 0 ≤ a.used := by
      intro a ha
      rcases p2 a ha with h0 | ⟨t', ht', y, hy, e⟩
      · omega
      · rw [e]; exact hnn t'.1 (by rw [← ht]; exact List.mem_map_of_mem ht') y hy
    have hpos2 : AllocNonneg d2 := by simp only [AllocNonneg, h2.2.2.1]; exact hpos
    have ho3 : OverCommitted d3 rp rc := h3.noIA.oc ho
    rw [usage_congr h3.2.2.1, ← usage_congr h2.2.2.1]
    rcases facts.dich hpos2 hnn' rp rc with hle | ⟨_, hall⟩
    · exact hle
    · exact absurd ho3 (not_overCommitted_of_fits hall)

theorem hReshape_oc_back [MonoCapOps R] {cfg : Config} {db : DB R} {mv : Nat}
    {invs : List (RpInvReq R)} {cs : List ConsumerReq} (hu : InvKeysNodup db) (hrc : RcIdsNodup db)
    (hid : RpIdsNodup db) (hwf : ReshapeWF invs) (hpos : AllocNonneg db)
    (hnn : ∀ c ∈ cs, ∀ x ∈ c.allocs, 0 ≤ x.2.2) {rp rc : Nat}
    (ho : OverCommitted (hReshape cfg db mv invs cs).1 rp rc)
    (hn : ¬ ∃ q ∈ invs, ∃ r, db.rpByUuid q.uuid = some r ∧ r.id = rp) :
    OverCommitted db rp rc := by
  have hle := hReshape_usage (cfg := cfg) (mv := mv) hu hrc hid hwf hpos hnn ho
  rcases hReshape_facts (cfg := cfg) (mv := mv) (cs := cs) hu hrc hid hwf with
    ⟨hf, _⟩ | ⟨d2, d3, targets, triples, objs, h2, h3, facts, htg, _, _, _⟩
  · exact hf.oc ho
  · obtain ⟨i, hi, h1, h2', h3'⟩ := ho
    rw [h3.2.1] at hi
    have hnt : i.rp ∉ targets := fun hm => hn (h1 ▸ htg _ hm)
    have hi2 : i ∈ db.invs := by rw [← h2.2.1]; exact (facts.others i hnt).mp hi
    exact ⟨i, hi2, h1, h2', MonoCapOps.capLt_mono _ _ _ _ hle h3'⟩

/-! ### the step function -/

/-- request well-formedness (JSON-schema facts): amounts are not negative (`"minimum": 1`), and
the `inventories` object of a reshape has one entry per provider uuid -/
def Op.WF : Op R → Prop
  | .reshape _ invs cs => ReshapeWF invs ∧ (Op.reshape 0 invs cs).AmountsNonneg
  | op => op.AmountsNonneg

instance (invs : List (RpInvReq R)) : Decidable (ReshapeWF invs) := by
  unfold ReshapeWF; infer_instance
instance (op : Op R) : Decidable op.WF := by
  cases op <;> (unfold Op.WF; infer_instance)

theorem Op.WF.nonneg {op : Op R} (h : op.WF) : op.AmountsNonneg := by
  cases op <;> first | exact h | exact h.2

/-- the parts of the uniqueness constraints (`Uniq`) and of `AllocPos` that C01 uses -/
structure StateOK (db : DB R) : Prop where
  invKeys : InvKeysNodup db
  rcIds : RcIdsNodup db
  rpIds : RpIdsNodup db
  allocNonneg : AllocNonneg db

theorem StateOK.of_uniq {db : DB R} (hu : Uniq db) (hp : AllocPos db) : StateOK db :=
  ⟨hu.inv, hu.rcId, hu.rpId, hp.nonneg⟩

/-- a pair over-committed after a request did not gain usage -/
theorem step_usage_le (cfg : Config) (db : DB R) (op : Op R) (hs : StateOK db) (hwf : op.WF)
    {rp rc : Nat}
    (ho : OverCommitted (step cfg db op).1 rp rc) :
    (step cfg db op).1.usage rp rc ≤ db.usage rp rc := by
  have hu := hs.invKeys
  have hpos := hs.allocNonneg
  have hnn := hwf.nonneg
  cases op with
  | rpCreate mv u n p => exact Int.le_of_eq (usage_congr (hRpCreate_noIA db mv u n p).2 _ _)
  | rpUpdate mv u n p => exact Int.le_of_eq (usage_congr (hRpUpdate_noIA db mv u n p).2 _ _)
  | rpDelete u => exact Int.le_of_eq (usage_congr (hRpDelete_frame db u).1 _ _)
  | invSet mv u g is => exact Int.le_of_eq (usage_congr (hInvSet_frame db mv u g is).allocs _ _)
  | invAdd mv u i => exact Int.le_of_eq (usage_congr (hInvAdd_frame db mv u i).allocs _ _)
  | invUpdate mv u g i => exact Int.le_of_eq (usage_congr (hInvUpdate_frame db mv u g i).allocs _ _)
  | invDelete u rc' => exact Int.le_of_eq (usage_congr (hInvDelete_frame db u rc').1 _ _)
  | invDeleteAll mv u => exact Int.le_of_eq (usage_congr (hInvDeleteAll_frame db mv u).1 _ _)
  | traitPut n => exact Int.le_of_eq (usage_congr (hTraitPut_noIA db n).2 _ _)
  | traitDelete n => exact Int.le_of_eq (usage_congr (hTraitDelete_noIA db n).2 _ _)
  | rpTraitsSet u g ts => exact Int.le_of_eq (usage_congr (hRpTraitsSet_noIA db u g ts).2 _ _)
  | rpTraitsDelete u => exact Int.le_of_eq (usage_congr (hRpTraitsDelete_noIA db u).2 _ _)
  | rcPost n => exact Int.le_of_eq (usage_congr (hRcPost_noIA db n).2 _ _)
  | rcPut n => exact Int.le_of_eq (usage_congr (hRcPut_noIA db n).2 _ _)
  | rcRename o n => exact Int.le_of_eq (usage_congr (hRcRename_noIA db o n).2 _ _)
  | rcDelete n => exact Int.le_of_eq (usage_congr (hRcDelete_noIA db n).2 _ _)
  | aggsSet mv u g as => exact Int.le_of_eq (usage_congr (hAggsSet_noIA db mv u g as).2 _ _)
  | allocPut mv c => exact (hAllocPut_wf cfg db mv c hu hpos hnn rp rc).usage ho
  | allocPost mv cs =>
    refine (hAllocPost_wf cfg db mv cs hu hpos ?_ rp rc).usage ho
    intro c hc x hx
    exact hnn x (List.mem_flatMap.mpr ⟨c, hc, hx⟩)
  | allocDelete c => exact (hAllocDelete_wf db c hpos rp rc).usage ho
  | reshape mv invs cs =>
    exact hReshape_usage hu hs.rcIds hs.rpIds hwf.1 hpos
      (fun c hc x hx => hnn x (List.mem_flatMap.mpr ⟨c, hc, hx⟩)) ho

theorem step_oc_back [MonoCapOps R] (cfg : Config) (db : DB R) (op : Op R) (hs : StateOK db)
    (hwf : op.WF) {rp rc : Nat}
    (ho : OverCommitted (step cfg db op).1 rp rc) (hn : ¬ op.changesInventoryOf db rp) :
    OverCommitted db rp rc := by
  have hu := hs.invKeys
  have hpos := hs.allocNonneg
  have hnn := hwf.nonneg
  cases op with
  | rpCreate mv u n p => exact (hRpCreate_noIA db mv u n p).oc ho
  | rpUpdate mv u n p => exact (hRpUpdate_noIA db mv u n p).oc ho
  | rpDelete u => exact (hRpDelete_frame db u).wf ho
  | invSet mv u g is => exact (hInvSet_frame db mv u g is).oc hn ho
  | invAdd mv u i => exact (hInvAdd_frame db mv u i).oc hn ho
  | invUpdate mv u g i => exact (hInvUpdate_frame db mv u g i).oc hn ho
  | invDelete u rc' => exact (hInvDelete_frame db u rc').wf ho
  | invDeleteAll mv u => exact (hInvDeleteAll_frame db mv u).wf ho
  | traitPut n => exact (hTraitPut_noIA db n).oc ho
  | traitDelete n => exact (hTraitDelete_noIA db n).oc ho
  | rpTraitsSet u g ts => exact (hRpTraitsSet_noIA db u g ts).oc ho
  | rpTraitsDelete u => exact (hRpTraitsDelete_noIA db u).oc ho
  | rcPost n => exact (hRcPost_noIA db n).oc ho
  | rcPut n => exact (hRcPut_noIA db n).oc ho
  | rcRename o n => exact (hRcRename_noIA db o n).oc ho
  | rcDelete n => exact (hRcDelete_noIA db n).oc ho
  | aggsSet mv u g as => exact (hAggsSet_noIA db mv u g as).oc ho
  | allocPut mv c =>
    have w := hAllocPut_wf cfg db mv c hu hpos hnn rp rc
    exact oc_mono w.invs (w.usage ho) ho
  | allocPost mv cs =>
    have w := hAllocPost_wf cfg db mv cs hu hpos
      (fun c hc x hx => hnn x (List.mem_flatMap.mpr ⟨c, hc, hx⟩)) rp rc
    exact oc_mono w.invs (w.usage ho) ho
  | allocDelete c =>
    have w := hAllocDelete_wf db c hpos rp rc
    exact oc_mono w.invs (w.usage ho) ho
  | reshape mv invs cs =>
    exact hReshape_oc_back hu hs.rcIds hs.rpIds hwf.1 hpos
      (fun c hc x hx => hnn x (List.mem_flatMap.mpr ⟨c, hc, hx⟩)) ho hn
/-- C01, first sentence, for the step function -/
theorem step_placed_safe (cfg : Config) (db : DB R) (op : Op R) (hk : InvKeysNodup db)
    (hrc : RcIdsNodup db) (hrp : RpIdsNodup db) (hwf : op.WF)
    (hok : (step cfg db op).2.ok = true) :
    ∀ x ∈ op.placed, 0 < x.2.2 → PlacedSafe db (step cfg db op).1 x := by
  have hnn := hwf.nonneg
  cases op with
  | allocPut mv c => exact hAllocPut_safe hk hnn hok
  | allocPost mv cs =>
    intro x hx hp
    obtain ⟨c, hc, hxc⟩ := List.mem_flatMap.mp hx
    exact hAllocPost_safe hk (fun c hc x hx => hnn x (List.mem_flatMap.mpr ⟨c, hc, hx⟩))
      hok c hc x hxc hp
  | reshape mv invs cs =>
    intro x hx hp
    obtain ⟨c, hc, hxc⟩ := List.mem_flatMap.mp hx
    exact hReshape_safe hk hrc hrp hwf.1
      (fun c hc x hx => hnn x (List.mem_flatMap.mpr ⟨c, hc, hx⟩)) hok c hc x hxc hp
  | _ => intro x hx; cases hx

end Placement
