import Placement.Lemmas.AllocFrame
/-
  Helper lemmas for C01, part 5: `_set_inventory` in detail (what `POST /reshaper` needs):
  rows of other providers are untouched, the unique index on (provider, class) is preserved,
  after the call every row of the provider carries the values of the request, and a class in use
  cannot lose its row.
-/
set_option linter.unusedSectionVars false
set_option linter.unusedSimpArgs false
namespace Placement
variable {R : Type} [CapOps R]

/-! ### `eraseDups` -/

theorem eraseDups_nodup : ∀ (l : List Nat), l.eraseDups.Nodup := by
  intro l
  generalize hn : l.length = n
  induction n using Nat.strongRecOn generalizing l with
  | _ n ih =>
    cases l with
    | nil => simp
    | cons a as =>
      rw [List.eraseDups_cons, List.nodup_cons]
      constructor
      · rw [List.mem_eraseDups]; simp
      · have hl : (as.filter (fun b => !b == a)).length < n := by
          have := List.length_filter_le (fun b => !b == a) as
          simp at hn; omega
        exact ih _ hl _ rfl

/-! ### resolving class names -/

theorem resolveRcs_ok {db : DB R} {L : List (InvSpec R)} {T : List (Nat × InvSpec R)}
    (h : resolveRcs db L = .ok T) :
    T.map (·.2) = L ∧ ∀ p ∈ T, db.rcId p.2.rcName = some p.1 := by
  induction L generalizing T with
  | nil => simp [resolveRcs] at h; subst h; simp
  | cons s L ih =>
    unfold resolveRcs at h
    split at h
    · cases h
    · rename_i id hid
      cases hr : resolveRcs db L with
      | error e => rw [hr] at h; cases h
      | ok T' =>
        rw [hr] at h; simp only [Except.map] at h; cases h
        obtain ⟨e1, e2⟩ := ih hr
        refine ⟨by simp [e1], ?_⟩
        intro p hp
        rcases List.mem_cons.mp hp with rfl | hp
        · exact hid
        · exact e2 p hp

theorem resolveRcs_append {db : DB R} {A B : List (InvSpec R)} {T : List (Nat × InvSpec R)}
    (h : resolveRcs db (A ++ B) = .ok T) :
    ∃ TA TB, resolveRcs db A = .ok TA ∧ resolveRcs db B = .ok TB ∧ T = TA ++ TB := by
  induction A generalizing T with
  | nil => exact ⟨[], T, rfl, h, rfl⟩
  | cons s A ih =>
    rw [List.cons_append] at h
    unfold resolveRcs at h
    split at h
    · cases h
    · rename_i id hid
      cases hr : resolveRcs db (A ++ B) with
      | error e => rw [hr] at h; cases h
      | ok T' =>
        rw [hr] at h; simp only [Except.map] at h; cases h
        obtain ⟨TA, TB, h1, h2, rfl⟩ := ih hr
        refine ⟨(id, s) :: TA, TB, ?_, h2, rfl⟩
        unfold resolveRcs
        rw [hid, h1]; rfl

theorem resolveRcs_congr {db db' : DB R} (h : db'.rcs = db.rcs) (L : List (InvSpec R)) :
    resolveRcs db' L = resolveRcs db L := by
  induction L with
  | nil => rfl
  | cons s L ih =>
    unfold resolveRcs
    rw [ih]
    simp only [DB.rcId, h]

/-! ### the pieces of `_set_inventory` -/

def siExisting (db : DB R) (rp : Nat) : List Nat := (db.invs.filter (·.rp == rp)).map (·.rc)

def siToDelete (db : DB R) (rp : Nat) (T : List (Nat × InvSpec R)) : List Nat :=
  (siExisting db rp).filter (fun rc => !(T.map (·.1)).contains rc)

def siKept (db : DB R) (rp : Nat) (T : List (Nat × InvSpec R)) : List (InvRow R) :=
  db.invs.filter (fun i => !(i.rp == rp && (siToDelete db rp T).contains i.rc))

def siUpd (rp : Nat) (T : List (Nat × InvSpec R)) (i : InvRow R) : InvRow R :=
  if i.rp == rp then
    match T.find? (·.1 == i.rc) with
    | some (_, s) => s.toRow rp i.rc
    | none => i
  else i

def siAdded (db : DB R) (rp : Nat) (T : List (Nat × InvSpec R)) : List (InvRow R) :=
  (((T.map (·.1)).filter (fun rc => !(siExisting db rp).contains rc)).eraseDups).filterMap
    (fun rc => (T.find? (·.1 == rc)).map (fun p => p.2.toRow rp rc))

theorem setInventory_ok {db db' : DB R} {rp gen : Nat} {L : List (InvSpec R)}
    (h : setInventory db rp gen L = .ok db') :
    ∃ T, resolveRcs db L = .ok T ∧
      (db.allocs.any (fun a => a.rp == rp && (siToDelete db rp T).contains a.rc)) = false ∧
      db'.invs = (siKept db rp T).map (siUpd rp T) ++ siAdded db rp T ∧
      db'.allocs = db.allocs ∧ db'.rcs = db.rcs := by
  unfold setInventory at h
  obtain ⟨T, h1, h⟩ := bind_ok h
  dsimp only at h
  split at h
  · cases h
  · rename_i hany
    have hs := incRpGen_same h
    exact ⟨T, h1, Bool.eq_false_iff.mpr hany, hs.1, hs.2.1, hs.2.2⟩

theorem siUpd_rp (rp : Nat) (T : List (Nat × InvSpec R)) (i : InvRow R) : (siUpd rp T i).rp = i.rp := by
  unfold siUpd
  split
  · rename_i h
    have : i.rp = rp := by simpa using h
    split <;> simp [InvSpec.toRow, this]
  · rfl

theorem siUpd_rc (rp : Nat) (T : List (Nat × InvSpec R)) (i : InvRow R) : (siUpd rp T i).rc = i.rc := by
  unfold siUpd
  split
  · split <;> simp [InvSpec.toRow]
  · rfl

theorem siUpd_other {rp : Nat} (T : List (Nat × InvSpec R)) {i : InvRow R} (h : i.rp ≠ rp) :
    siUpd rp T i = i := by
  unfold siUpd
  have : (i.rp == rp) = false := by simpa using h
  simp [this]

theorem mem_siExisting {db : DB R} {rp rc : Nat} :
    rc ∈ siExisting db rp ↔ ∃ i ∈ db.invs, i.rp = rp ∧ i.rc = rc := by
  simp [siExisting, List.mem_map, List.mem_filter, and_assoc]

theorem mem_siKept {db : DB R} {rp : Nat} {T : List (Nat × InvSpec R)} {i : InvRow R} :
    i ∈ siKept db rp T ↔ i ∈ db.invs ∧ (i.rp = rp → i.rc ∈ T.map (·.1)) := by
  unfold siKept
  rw [List.mem_filter]
  constructor
  · rintro ⟨hi, hc⟩
    refine ⟨hi, fun hr => ?_⟩
    simp only [siToDelete, Bool.not_and, Bool.or_eq_true, Bool.not_eq_true', beq_eq_false_iff_ne,
      List.contains_eq_mem, List.mem_filter, decide_eq_false_iff_not, not_and,
      Bool.not_eq_true, Decidable.not_not, ne_eq, decide_eq_true_eq] at hc
    rcases hc with hc | hc
    · exact absurd hr hc
    · exact hc (mem_siExisting.mpr ⟨i, hi, hr, rfl⟩)
  · rintro ⟨hi, hc⟩
    refine ⟨hi, ?_⟩
    simp only [siToDelete, Bool.not_and, Bool.or_eq_true, Bool.not_eq_true', beq_eq_false_iff_ne,
      List.contains_eq_mem, List.mem_filter, decide_eq_false_iff_not, not_and,
      Bool.not_eq_true, Decidable.not_not, ne_eq, decide_eq_true_eq]
    by_cases hr : i.rp = rp
    · right; intro _; exact hc hr
    · left; exact hr

theorem mem_siAdded {db : DB R} {rp : Nat} {T : List (Nat × InvSpec R)} {i : InvRow R}
    (h : i ∈ siAdded db rp T) :
    i.rp = rp ∧ i.rc ∉ siExisting db rp ∧
      ∃ s, T.find? (·.1 == i.rc) = some s ∧ i = s.2.toRow rp i.rc := by
  unfold siAdded at h
  obtain ⟨rc, hrc, hrow⟩ := List.mem_filterMap.mp h
  rw [List.mem_eraseDups, List.mem_filter] at hrc
  cases hf : T.find? (·.1 == rc) with
  | none => rw [hf] at hrow; cases hrow
  | some s =>
    rw [hf] at hrow
    simp only [Option.map_some, Option.some.injEq] at hrow
    subst hrow
    refine ⟨rfl, ?_, s, hf, rfl⟩
    have := hrc.2
    simpa [InvSpec.toRow] using this

/-! ### consequences -/

theorem find_isSome_of_mem {T : List (Nat × InvSpec R)} {rc : Nat} (h : rc ∈ T.map (·.1)) :
    ∃ s, T.find? (·.1 == rc) = some s := by
  obtain ⟨p, hp, rfl⟩ := List.mem_map.mp h
  cases hf : T.find? (·.1 == p.1) with
  | some s => exact ⟨s, rfl⟩
  | none =>
    have := List.find?_eq_none.mp hf p hp
    simp at this

theorem find_fst {T : List (Nat × InvSpec R)} {rc : Nat} {s : Nat × InvSpec R}
    (h : T.find? (·.1 == rc) = some s) : s.1 = rc ∧ s ∈ T := by
  have := List.find?_some h
  exact ⟨by simpa using this, List.mem_of_find?_eq_some h⟩

theorem siUpd_of_find {rp : Nat} {T : List (Nat × InvSpec R)} {i : InvRow R} (hr : i.rp = rp)
    {s : Nat × InvSpec R} (h : T.find? (·.1 == i.rc) = some s) :
    siUpd rp T i = s.2.toRow rp i.rc := by
  unfold siUpd
  have : (i.rp == rp) = true := by simpa using hr
  simp only [this, ↓reduceIte, h]

/-- rows of other providers are untouched -/
theorem setInventory_other {db db' : DB R} {rp gen : Nat} {L : List (InvSpec R)}
    (h : setInventory db rp gen L = .ok db') {i : InvRow R} (hne : i.rp ≠ rp) :
    i ∈ db'.invs ↔ i ∈ db.invs := by
  obtain ⟨T, _, _, hinv, _, _⟩ := setInventory_ok h
  rw [hinv, List.mem_append]
  constructor
  · rintro (hi | hi)
    · obtain ⟨j, hj, rfl⟩ := List.mem_map.mp hi
      have hjr : j.rp ≠ rp := by rw [siUpd_rp] at hne; exact hne
      rw [siUpd_other T hjr]
      exact (mem_siKept.mp hj).1
    · exact absurd (mem_siAdded hi).1 hne
  · intro hi
    left
    exact List.mem_map.mpr ⟨i, mem_siKept.mpr ⟨hi, fun e => absurd e hne⟩, siUpd_other T hne⟩

/-- after the call every row of the provider carries the values the request gives for its class -/
theorem setInventory_rows {db db' : DB R} {rp gen : Nat} {L : List (InvSpec R)}
    (h : setInventory db rp gen L = .ok db') :
    ∃ T, resolveRcs db L = .ok T ∧ ∀ i ∈ db'.invs, i.rp = rp →
      ∃ s, T.find? (·.1 == i.rc) = some s ∧ i = s.2.toRow rp i.rc := by
  obtain ⟨T, hT, _, hinv, _, _⟩ := setInventory_ok h
  refine ⟨T, hT, ?_⟩
  intro i hi hr
  rw [hinv, List.mem_append] at hi
  rcases hi with hi | hi
  · obtain ⟨j, hj, rfl⟩ := List.mem_map.mp hi
    rw [siUpd_rp] at hr
    obtain ⟨s, hs⟩ := find_isSome_of_mem ((mem_siKept.mp hj).2 hr)
    refine ⟨s, by rw [siUpd_rc]; exact hs, ?_⟩
    rw [siUpd_rc, siUpd_of_find hr hs]
  · exact (mem_siAdded hi).2.2

theorem setInventory_invKeys {db db' : DB R} {rp gen : Nat} {L : List (InvSpec R)}
    (h : setInventory db rp gen L = .ok db') (hu : InvKeysNodup db) : InvKeysNodup db' := by
  obtain ⟨T, _, _, hinv, _, _⟩ := setInventory_ok h
  unfold InvKeysNodup
  rw [hinv, List.map_append, List.nodup_append]
  refine ⟨?_, ?_, ?_⟩
  · -- updated rows keep their keys
    have : ((siKept db rp T).map (siUpd rp T)).map (fun i => (i.rp, i.rc))
        = (siKept db rp T).map (fun i => (i.rp, i.rc)) := by
      rw [List.map_map]; apply List.map_congr_left
      intro i _; simp [siUpd_rp, siUpd_rc]
    rw [this]
    exact List.Nodup.sublist (List.Sublist.map _ List.filter_sublist) hu
  · -- added rows: one per class of `toAdd`
    unfold siAdded
    generalize ((T.map (·.1)).filter (fun rc => !(siExisting db rp).contains rc)) = l
    have hnd := eraseDups_nodup l
    generalize l.eraseDups = m at hnd
    induction m with
    | nil => simp
    | cons rc m ih =>
      rw [List.nodup_cons] at hnd
      rw [List.filterMap_cons]
      split
      · exact ih hnd.2
      · rename_i row hrow
        rw [List.map_cons, List.nodup_cons]
        refine ⟨?_, ih hnd.2⟩
        intro hmem
        obtain ⟨r2, hr2, hk⟩ := List.mem_map.mp hmem
        obtain ⟨rc2, hrc2, hrow2⟩ := List.mem_filterMap.mp hr2
        cases hf : T.find? (·.1 == rc) with
        | none => rw [hf] at hrow; cases hrow
        | some s =>
          cases hf2 : T.find? (·.1 == rc2) with
          | none => rw [hf2] at hrow2; cases hrow2
          | some s2 =>
            rw [hf] at hrow; rw [hf2] at hrow2
            simp only [Option.map_some, Option.some.injEq] at hrow hrow2
            subst hrow; subst hrow2
            simp only [InvSpec.toRow, Prod.mk.injEq, true_and] at hk
            subst hk; exact hnd.1 hrc2
  · intro a ha b hb hab
    obtain ⟨i, hi, rfl⟩ := List.mem_map.mp ha
    obtain ⟨j, hj, rfl⟩ := List.mem_map.mp hb
    obtain ⟨i0, hi0, rfl⟩ := List.mem_map.mp hi
    obtain ⟨j1, j2, _⟩ := mem_siAdded hj
    simp only [siUpd_rp, siUpd_rc, Prod.mk.injEq] at hab
    apply j2
    exact mem_siExisting.mpr ⟨i0, (mem_siKept.mp hi0).1, hab.1.trans j1, hab.2⟩

/-- `T` settles provider `rp` in `invs`: every row of `rp` whose class `T` names already carries
the values `T` gives (so replacing the inventory by `T` again changes no row that survives) -/
def SettledOn (invs : List (InvRow R)) (rp : Nat) (T : List (Nat × InvSpec R)) : Prop :=
  ∀ i ∈ invs, i.rp = rp → ∀ s, T.find? (·.1 == i.rc) = some s → i = s.2.toRow rp i.rc

/-- the final replacement of `reshape`: a class in use keeps its row, and keeps it unchanged when
the provider was settled by the interim replacement -/
theorem setInventory_inuse {db db' : DB R} {rp gen : Nat} {L : List (InvSpec R)}
    (h : setInventory db rp gen L = .ok db') {T : List (Nat × InvSpec R)}
    (hT : resolveRcs db L = .ok T) (hs : SettledOn db.invs rp T) {rc : Nat}
    (huse : ∃ a ∈ db.allocs, a.rp = rp ∧ a.rc = rc)
    (hrow : ∃ i ∈ db.invs, i.rp = rp ∧ i.rc = rc) :
    (∃ i ∈ db'.invs, i.rp = rp ∧ i.rc = rc) ∧
    ∀ i ∈ db'.invs, i.rp = rp → i.rc = rc → i ∈ db.invs := by
  obtain ⟨T', hT', hany, hinv, _, _⟩ := setInventory_ok h
  rw [hT] at hT'; cases hT'
  obtain ⟨a, ha, ha1, ha2⟩ := huse
  obtain ⟨i0, hi0, hi01, hi02⟩ := hrow
  have hex : rc ∈ siExisting db rp := mem_siExisting.mpr ⟨i0, hi0, hi01, hi02⟩
  -- the class is named by the request, otherwise `InventoryInUse`
  have hin : rc ∈ T.map (·.1) := by
    false_or_by_contra
    rename_i hnot
    have := List.any_eq_false.mp hany a ha
    apply this
    simp only [Bool.and_eq_true, beq_iff_eq, List.contains_eq_mem, decide_eq_true_eq]
    refine ⟨ha1, ?_⟩
    rw [ha2]
    unfold siToDelete
    rw [List.mem_filter]
    exact ⟨hex, by simpa using hnot⟩
  have hkeep : ∀ j ∈ db.invs, j.rp = rp → j.rc = rc → j ∈ siKept db rp T ∧ siUpd rp T j = j := by
    intro j hj j1 j2
    refine ⟨mem_siKept.mpr ⟨hj, fun _ => j2 ▸ hin⟩, ?_⟩
    obtain ⟨s, hs'⟩ := find_isSome_of_mem (j2 ▸ hin : j.rc ∈ T.map (·.1))
    rw [siUpd_of_find j1 hs']
    exact (hs j hj j1 s hs').symm
  constructor
  · obtain ⟨k1, k2⟩ := hkeep i0 hi0 hi01 hi02
    refine ⟨i0, ?_, hi01, hi02⟩
    rw [hinv]; exact List.mem_append_left _ (List.mem_map.mpr ⟨i0, k1, k2⟩)
  · intro i hi h1 h2
    rw [hinv, List.mem_append] at hi
    rcases hi with hi | hi
    · obtain ⟨j, hj, rfl⟩ := List.mem_map.mp hi
      rw [siUpd_rp] at h1; rw [siUpd_rc] at h2
      have hj' := (mem_siKept.mp hj).1
      rw [(hkeep j hj' h1 h2).2]; exact hj'
    · exact absurd (h2 ▸ hex) (mem_siAdded hi).2.1

end Placement
