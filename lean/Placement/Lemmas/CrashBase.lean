import Placement.Lemmas.SchedBase
/-
  C18, generic part: a request that dies between two transactions.

  `Prog.runPrefix k p s` runs the first `k` transactions of `p` from `s` and stops.  A crash INSIDE a
  transaction is rolled back by the database, so the surviving state is the state before that
  transaction: again a `runPrefix` state.  `Prog.runWrites fuel j p s` ("`j` writer transactions have
  committed, the next writer has not") is a `runPrefix` state too (`runWrites_eq_runPrefix`).

  Two ways to show that every prefix state satisfies something:

  * `Sched.All Q p` (Lemmas/SchedBase.lean): every transaction of `p`, run on ANY state, is a `Q`-step.
    Good for properties that each transaction keeps by itself (`All.runPrefix_inv`).
  * `Path G K p`: Hoare-style, along the sequential path.  `K` is what is known about the state
    when `p` starts; every transaction run on a state satisfying its `K` establishes `G` for the
    configuration (state, rest of the program) it leaves and the knowledge `K'` for the rest.
    Needed for the allocation writes, whose later transactions rely on what the earlier ones of
    the same request did (the project exists, the consumers created hold no allocations, ...).
-/
namespace Placement.Crash
open Placement Placement.Sched
variable {σ α : Type}

/-! ### `runPrefix` -/

theorem runPrefix_zero (p : Prog σ α) (s : σ) : Prog.runPrefix 0 p s = (s, p) := by
  cases p <;> rfl

theorem runPrefix_done (k : Nat) (a : α) (s : σ) : Prog.runPrefix k (.done a) s = (s, .done a) := by
  cases k <;> rfl

theorem runPrefix_succ (k : Nat) (l : Lbl) (f : σ → σ × Prog σ α) (s : σ) :
    Prog.runPrefix (k + 1) (.txn l f) s = Prog.runPrefix k (f s).2 (f s).1 := rfl

/-- every prefix of a program all of whose transactions are `Q`-steps keeps every `Q`-stable predicate -/
theorem All.runPrefix_inv {Q : σ → σ → Prop} (I : σ → Prop) (hI : ∀ s s', Q s s' → I s → I s') :
    ∀ (k : Nat) {p : Prog σ α}, All Q p → ∀ s, I s → I (Prog.runPrefix k p s).1
  | 0, p, _, s, hs => by rw [runPrefix_zero]; exact hs
  | k + 1, .done a, _, s, hs => hs
  | k + 1, .txn l f, hp, s, hs => by
    rw [runPrefix_succ]
    exact All.runPrefix_inv I hI k (hp.step s).2 _ (hI _ _ (hp.step s).1 hs)

/-- the rest of the program after a prefix is again a program of `Q`-steps -/
theorem All.runPrefix_all {Q : σ → σ → Prop} :
    ∀ (k : Nat) {p : Prog σ α}, All Q p → ∀ s, All Q (Prog.runPrefix k p s).2
  | 0, p, hp, s => by rw [runPrefix_zero]; exact hp
  | k + 1, .done a, hp, s => hp
  | k + 1, .txn l f, hp, s => by
    rw [runPrefix_succ]
    exact All.runPrefix_all k (hp.step s).2 _

/-! ### `runWrites` states are `runPrefix` states -/

theorem runWrites_eq_runPrefix : ∀ (fuel j : Nat) (p : Prog σ α) (s : σ),
    ∃ k, Prog.runWrites fuel j p s = Prog.runPrefix k p s
  | 0, j, p, s => ⟨0, by rw [runPrefix_zero]; rfl⟩
  | fuel + 1, j, .done a, s => ⟨0, rfl⟩
  | fuel + 1, j, .txn l f, s => by
    unfold Prog.runWrites
    split
    · cases j with
      | zero => exact ⟨0, rfl⟩
      | succ j' =>
        obtain ⟨k, hk⟩ := runWrites_eq_runPrefix fuel j' (f s).2 (f s).1
        exact ⟨k + 1, hk⟩
    · obtain ⟨k, hk⟩ := runWrites_eq_runPrefix fuel j (f s).2 (f s).1
      exact ⟨k + 1, hk⟩

/-! ### a finished prefix is the completed request -/

/-- if the request has finished after `k` transactions, the sequential run (with any fuel that lets it
finish) ends in the same state with the same answer -/
theorem runPrefix_done_runSeq : ∀ (k : Nat) (p : Prog σ α) (s s' : σ) (a : α),
    Prog.runPrefix k p s = (s', .done a) → ∀ (fuel : Nat) (r : α) (s'' : σ),
    Prog.runSeq fuel p s = (s'', some r) → s' = s'' ∧ a = r
  | 0, p, s, s', a, h, fuel, r, s'', h2 => by
    rw [runPrefix_zero] at h
    cases h
    cases fuel <;> (simp only [Prog.runSeq, Prod.mk.injEq, Option.some.injEq] at h2; exact h2)
  | k + 1, .done b, s, s', a, h, fuel, r, s'', h2 => by
    simp only [Prog.runPrefix, Prod.mk.injEq, Prog.done.injEq] at h
    cases fuel <;> (simp only [Prog.runSeq, Prod.mk.injEq, Option.some.injEq] at h2
                    exact ⟨h.1.symm.trans h2.1, h.2.symm.trans h2.2⟩)
  | k + 1, .txn l f, s, s', a, h, fuel, r, s'', h2 => by
    rw [runPrefix_succ] at h
    cases fuel with
    | zero => simp [Prog.runSeq] at h2
    | succ n => exact runPrefix_done_runSeq k (f s).2 (f s).1 s' a h n r s'' h2

/-- the sequential run is a prefix run that has finished -/
theorem runSeq_some_runPrefix : ∀ (fuel : Nat) (p : Prog σ α) (s s' : σ) (r : α),
    Prog.runSeq fuel p s = (s', some r) → ∃ k, Prog.runPrefix k p s = (s', .done r)
  | fuel, .done b, s, s', r, h => by
    have : s = s' ∧ b = r := by
      cases fuel <;> (simp only [Prog.runSeq, Prod.mk.injEq, Option.some.injEq] at h; exact h)
    exact ⟨0, by rw [runPrefix_zero, this.1, this.2]⟩
  | 0, .txn l f, s, s', r, h => by simp [Prog.runSeq] at h
  | fuel + 1, .txn l f, s, s', r, h => by
    obtain ⟨k, hk⟩ := runSeq_some_runPrefix fuel (f s).2 (f s).1 s' r h
    exact ⟨k + 1, hk⟩

/-! ### Hoare-style reasoning along the sequential path -/

/-- `Path G K p`: started on a state satisfying `K`, every transaction of `p` leaves a configuration
(state, rest of the program) satisfying `G`, and knowledge `K' s` for the rest -/
inductive Path (G : σ → Prog σ α → Prop) : (σ → Prop) → Prog σ α → Prop
  | done (K : σ → Prop) (a : α) : Path G K (.done a)
  | txn (K : σ → Prop) (l : Lbl) (f : σ → σ × Prog σ α) (K' : σ → σ → Prop) :
      (∀ s, K s → G (f s).1 (f s).2 ∧ K' s (f s).1) →
      (∀ s, K s → Path G (K' s) (f s).2) → Path G K (.txn l f)

/-- less knowledge is needed than is available -/
theorem Path.weaken {G : σ → Prog σ α → Prop} {K K0 : σ → Prop} {p : Prog σ α}
    (h : Path G K p) (hk : ∀ s, K0 s → K s) : Path G K0 p := by
  cases h with
  | done _ a => exact .done _ a
  | txn _ l f K' h1 h2 => exact .txn _ l f K' (fun s hs => h1 s (hk s hs)) (fun s hs => h2 s (hk s hs))

/-- knowledge that no state satisfies -/
theorem Path.absurd {G : σ → Prog σ α → Prop} {K : σ → Prop} (p : Prog σ α) (h : ∀ s, ¬ K s) :
    Path G K p := by
  cases p with
  | done a => exact .done _ a
  | txn l f => exact .txn _ l f (fun _ _ => True) (fun s hs => (h s hs).elim) (fun s hs => (h s hs).elim)

/-- `Path.txn` with the two obligations given together -/
theorem Path.txn' {G : σ → Prog σ α → Prop} {K : σ → Prop} (l : Lbl) (f : σ → σ × Prog σ α)
    (K' : σ → σ → Prop)
    (h : ∀ s, K s → G (f s).1 (f s).2 ∧ K' s (f s).1 ∧ Path G (K' s) (f s).2) : Path G K (.txn l f) :=
  .txn K l f K' (fun s hs => ⟨(h s hs).1, (h s hs).2.1⟩) (fun s hs => (h s hs).2.2)

/-- a read transaction: the state stays, the knowledge stays (plus what the read found out) -/
theorem Path.read {G : σ → Prog σ α → Prop} {K : σ → Prop} (l : Lbl) (f : σ → σ × Prog σ α)
    (h : ∀ s, K s → (f s).1 = s ∧ G s (f s).2 ∧ Path G (fun s' => s' = s) (f s).2) : Path G K (.txn l f) :=
  .txn K l f (fun s s' => s' = s)
    (fun s hs => by obtain ⟨e, g, -⟩ := h s hs; rw [e]; exact ⟨g, rfl⟩)
    (fun s hs => (h s hs).2.2)

/-- knowledge about exactly one state -/
theorem Path.at {G : σ → Prog σ α → Prop} {K : σ → Prop} {p : Prog σ α} {s : σ}
    (h : Path G K p) (hs : K s) : Path G (fun s' => s' = s) p :=
  h.weaken (fun _ e => e ▸ hs)

/-- **every prefix** of a `Path` program started on a state satisfying `K` leaves a `G` configuration -/
theorem Path.runPrefix {G : σ → Prog σ α → Prop} :
    ∀ (k : Nat) {K : σ → Prop} {p : Prog σ α}, Path G K p → ∀ s, K s → G s p →
      G (Prog.runPrefix k p s).1 (Prog.runPrefix k p s).2
  | 0, K, p, _, s, _, hg => by rw [runPrefix_zero]; exact hg
  | k + 1, K, .done a, _, s, _, hg => hg
  | k + 1, K, .txn l f, hp, s, hs, _ => by
    rw [runPrefix_succ]
    cases hp with
    | txn _ _ _ K' h1 h2 => exact Path.runPrefix k (h2 s hs) _ (h1 s hs).2 (h1 s hs).1

/-- a program of `Q`-steps is a `Path` program for every `Q`-stable predicate -/
theorem All.path {Q : σ → σ → Prop} {I : σ → Prop} (hI : ∀ s s', Q s s' → I s → I s') {p : Prog σ α}
    (h : All Q p) : Path (fun s _ => I s) I p := by
  induction h with
  | done a => exact .done _ a
  | txn l f h1 _ ih =>
    exact .txn _ l f (fun _ s' => I s') (fun s hs => ⟨hI _ _ (h1 s) hs, hI _ _ (h1 s) hs⟩) (fun s _ => ih s)

end Placement.Crash

namespace Placement.Crash
open Placement
variable {σ α : Type}

/-- to show `Path G K p` one may assume that some state satisfies `K` -/
theorem Path.of_inhabited {G : σ → Prog σ α → Prop} {K : σ → Prop} {p : Prog σ α}
    (h : ∀ s, K s → Path G K p) : Path G K p := by
  by_cases he : ∃ s, K s
  · obtain ⟨s, hs⟩ := he; exact h s hs
  · exact Path.absurd p (fun s hs => he ⟨s, hs⟩)

end Placement.Crash

namespace Placement.Crash
open Placement Placement.Sched
variable {σ α : Type}

/-- a `Path` program all of whose transactions are moreover `Q`-steps carries every `Q`-stable
predicate along -/
theorem Path.and_all {G : σ → Prog σ α → Prop} {Q : σ → σ → Prop} {I : σ → Prop}
    (hI : ∀ s s', Q s s' → I s → I s') {K : σ → Prop} {p : Prog σ α} (hp : Path G K p) (ha : All Q p) :
    Path (fun s q => G s q ∧ I s) (fun s => K s ∧ I s) p := by
  induction hp with
  | done K a => exact .done _ a
  | txn K l f K' h1 h2 ih =>
    refine .txn _ l f (fun s s' => K' s s' ∧ I s') ?_ ?_
    · rintro s ⟨hk, hi⟩
      have hi' := hI _ _ (ha.step s).1 hi
      exact ⟨⟨(h1 s hk).1, hi'⟩, (h1 s hk).2, hi'⟩
    · rintro s ⟨hk, hi⟩
      exact ih s hk (ha.step s).2

/-- the configuration predicate may be weakened -/
theorem Path.mono {G G' : σ → Prog σ α → Prop} (hG : ∀ s q, G s q → G' s q) {K : σ → Prop} {p : Prog σ α}
    (hp : Path G K p) : Path G' K p := by
  induction hp with
  | done K a => exact .done _ a
  | txn K l f K' h1 h2 ih =>
    exact .txn _ l f K' (fun s hk => ⟨hG _ _ (h1 s hk).1, (h1 s hk).2⟩) ih

end Placement.Crash

namespace Placement.Crash
open Placement Placement.Sched
variable {σ α : Type}

/-- the state the next transaction of `p` leaves when it is run on `s` (any state, not necessarily the
one the request has reached) -/
def nextOn (p : Prog σ α) (s : σ) : σ :=
  match p with
  | .done _ => s
  | .txn _ f => (f s).1

theorem All.nextOn {Q : σ → σ → Prop} (hr : ∀ s, Q s s) {p : Prog σ α} (h : All Q p) (s : σ) :
    Q s (nextOn p s) := by
  cases h with
  | done a => exact hr s
  | txn l f h1 _ => exact h1 s

end Placement.Crash
