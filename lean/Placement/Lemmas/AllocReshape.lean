import Placement.Lemmas.AllocInv
/-
  Helper lemmas for C01, part 6: `POST /reshaper` (interim union inventory, allocation replacement,
  final inventory replacement).
-/
set_option linter.unusedSectionVars false
set_option linter.unusedSimpArgs false
namespace Placement
variable {R : Type} [CapOps R]

/-- primary key of `resource_classes` -/
def RcIdsNodup (db : DB R) : Prop := (db.rcs.map (·.1)).Nodup
/-- primary key of `resource_providers` -/
def RpIdsNodup (db : DB R) : Prop := (db.rps.map (·.id)).Nodup

theorem rcId_some {db : DB R} {n x : Nat} (h : db.rcId n = some x) : (x, n) ∈ db.rcs := by
  unfold DB.rcId at h
  cases hf : db.rcs.find? (·.2 == n) with
  | none => rw [hf] at h; cases h
  | some p =>
    rw [hf] at h; simp only [Option.map_some, Option.some.injEq] at h
    have h1 := List.mem_of_find?_eq_some hf
    have h2 := List.find?_some hf
    have : p.2 = n := by simpa using h2
    obtain ⟨a, b⟩ := p
    simp only at h this
    subst h; subst this; exact h1

theorem rcId_inj {db : DB R} (hrc : RcIdsNodup db) {n1 n2 x : Nat}
    (h1 : db.rcId n1 = some x) (h2 : db.rcId n2 = some x) : n1 = n2 := by
  have := eq_of_nodup_map hrc (rcId_some h1) (rcId_some h2) rfl
  exact (Prod.mk.inj this).2

theorem SettledOn.mono {invs invs' : List (InvRow R)} {rp : Nat} {T : List (Nat × InvSpec R)}
    (hsub : ∀ i ∈ invs', i.rp = rp → i ∈ invs) (h : SettledOn invs rp T) : SettledOn invs' rp T :=
  fun i hi hr s hs => h i (hsub i hi hr) hr s hs

/-- the interim replacement settles the provider with respect to the NEW inventory list -/
theorem interim_settles {db db' : DB R} {rp gen : Nat} {E L : List (InvSpec R)}
    (hrc : RcIdsNodup db)
    (hE : ∀ e ∈ E, (L.any (·.rcName == e.rcName)) = false)
    (h : setInventory db rp gen (E ++ L) = .ok db') {T : List (Nat × InvSpec R)}
    (hT : resolveRcs db L = .ok T) : SettledOn db'.invs rp T := by
  obtain ⟨TM, hTM, hrows⟩ := setInventory_rows h
  obtain ⟨TE, TL, h1, h2, rfl⟩ := resolveRcs_append hTM
  rw [hT] at h2; cases h2
  intro i hi hr s hs
  obtain ⟨s', hs', hi'⟩ := hrows i hi hr
  rw [List.find?_append] at hs'
  cases hfe : TE.find? (·.1 == i.rc) with
  | none => rw [hfe, hs] at hs'; simp at hs'; subst hs'; exact hi'
  | some e =>
    exfalso
    obtain ⟨e1, e2⟩ := find_fst hfe
    obtain ⟨s1, s2⟩ := find_fst hs
    have re := (resolveRcs_ok h1).2 e e2
    have rs := (resolveRcs_ok hT).2 s s2
    rw [e1] at re; rw [s1] at rs
    have hname := rcId_inj hrc re rs
    have heE : e.2 ∈ E := by rw [← (resolveRcs_ok h1).1]; exact List.mem_map_of_mem e2
    have hsL : s.2 ∈ L := by rw [← (resolveRcs_ok hT).1]; exact List.mem_map_of_mem s2
    have := List.any_eq_false.mp (hE e.2 heE) s.2 hsL
    simp [hname] at this

theorem reshapeInterim_ok {db db1 : DB R} {byRp : List (Nat × List (InvSpec R))}
    {gens gens1 : List (Nat × Nat)} (h : reshapeInterim db byRp gens = .ok (db1, gens1))
    (hn : (byRp.map (·.1)).Nodup) (hu : InvKeysNodup db) (hrc : RcIdsNodup db) :
    db1.allocs = db.allocs ∧ db1.rcs = db.rcs ∧ InvKeysNodup db1 ∧
    (∀ i : InvRow R, i.rp ∉ byRp.map (·.1) → (i ∈ db1.invs ↔ i ∈ db.invs)) ∧
    (∀ p ∈ byRp, ∀ T, resolveRcs db p.2 = .ok T → SettledOn db1.invs p.1 T) := by
  induction byRp generalizing db gens with
  | nil => cases h; exact ⟨rfl, rfl, hu, fun _ _ => Iff.rfl, fun p hp => by cases hp⟩
  | cons p rest ih =>
    obtain ⟨rp, L⟩ := p
    rw [List.map_cons, List.nodup_cons] at hn
    unfold reshapeInterim at h
    split at h
    · rename_i hemp
      have hL : L = [] := by simpa using hemp
      obtain ⟨a1, a2, a3, a4, a5⟩ := ih h hn.2 hu hrc
      refine ⟨a1, a2, a3, fun i hi => a4 i (fun hm => hi (List.mem_cons_of_mem _ hm)), ?_⟩
      intro p hp T hT
      rcases List.mem_cons.mp hp with rfl | hp
      · subst hL
        simp [resolveRcs] at hT; subst hT
        intro i _ _ s hs; simp at hs
      · exact a5 p hp T hT
    · dsimp only at h
      split at h
      · cases h
      · rename_i db' hset
        obtain ⟨_, _, _, _, hallocs, hrcs⟩ := setInventory_ok hset
        have hrc' : RcIdsNodup db' := by simp only [RcIdsNodup, hrcs]; exact hrc
        obtain ⟨a1, a2, a3, a4, a5⟩ := ih h hn.2 (setInventory_invKeys hset hu) hrc'
        refine ⟨a1.trans hallocs, a2.trans hrcs, a3, ?_, ?_⟩
        · intro i hi
          have h1 : i.rp ≠ rp := fun e => hi (e ▸ List.mem_cons_self)
          have h2 : i.rp ∉ rest.map (·.1) := fun hm => hi (List.mem_cons_of_mem _ hm)
          exact (a4 i h2).trans (setInventory_other hset h1)
        · intro p hp T hT
          rcases List.mem_cons.mp hp with rfl | hp
          · have hs : SettledOn db'.invs rp T := by
              refine interim_settles hrc ?_ hset hT
              intro e he
              have := (List.mem_filter.mp he).2
              simpa using this
            exact hs.mono (fun i hi hr => (a4 i (hr ▸ hn.1)).mp hi)
          · exact a5 p hp T (by rw [resolveRcs_congr hrcs]; exact hT)

theorem reshapeFinal_ok {db db3 : DB R} {byRp : List (Nat × List (InvSpec R))}
    {gens : List (Nat × Nat)} (h : reshapeFinal db byRp gens = .ok db3)
    (hn : (byRp.map (·.1)).Nodup) (hu : InvKeysNodup db)
    (hset : ∀ p ∈ byRp, ∀ T, resolveRcs db p.2 = .ok T → SettledOn db.invs p.1 T) :
    db3.allocs = db.allocs ∧ db3.rcs = db.rcs ∧ InvKeysNodup db3 ∧
    (∀ i : InvRow R, i.rp ∉ byRp.map (·.1) → (i ∈ db3.invs ↔ i ∈ db.invs)) ∧
    (∀ rp rc, (∃ a ∈ db.allocs, a.rp = rp ∧ a.rc = rc) → (∃ i ∈ db.invs, i.rp = rp ∧ i.rc = rc) →
      (∃ i ∈ db3.invs, i.rp = rp ∧ i.rc = rc) ∧
      ∀ i ∈ db3.invs, i.rp = rp → i.rc = rc → i ∈ db.invs) := by
  induction byRp generalizing db gens with
  | nil => cases h; exact ⟨rfl, rfl, hu, fun _ _ => Iff.rfl, fun _ _ _ hr => ⟨hr, fun _ hi _ _ => hi⟩⟩
  | cons p rest ih =>
    obtain ⟨p, L⟩ := p
    rw [List.map_cons, List.nodup_cons] at hn
    unfold reshapeFinal at h
    split at h
    · cases h
    · rename_i db' hs
      obtain ⟨T, hT, _, _, hallocs, hrcs⟩ := setInventory_ok hs
      have hset' : ∀ q ∈ rest, ∀ T', resolveRcs db' q.2 = .ok T' → SettledOn db'.invs q.1 T' := by
        intro q hq T' hT'
        rw [resolveRcs_congr hrcs] at hT'
        refine (hset q (List.mem_cons_of_mem _ hq) T' hT').mono ?_
        intro i hi hr
        have : i.rp ≠ p := fun e => hn.1 (by rw [← e, hr]; exact List.mem_map_of_mem (f := (·.1)) hq)
        exact (setInventory_other hs this).mp hi
      obtain ⟨a1, a2, a3, a4, a5⟩ := ih h hn.2 (setInventory_invKeys hs hu) hset'
      refine ⟨a1.trans hallocs, a2.trans hrcs, a3, ?_, ?_⟩
      · intro i hi
        have h1 : i.rp ≠ p := fun e => hi (e ▸ List.mem_cons_self)
        have h2 : i.rp ∉ rest.map (·.1) := fun hm => hi (List.mem_cons_of_mem _ hm)
        exact (a4 i h2).trans (setInventory_other hs h1)
      · intro rp rc huse hrow
        have huse' : ∃ a ∈ db'.allocs, a.rp = rp ∧ a.rc = rc := by rw [hallocs]; exact huse
        by_cases hp : rp = p
        · subst hp
          obtain ⟨b1, b2⟩ := setInventory_inuse hs hT (hset _ List.mem_cons_self T hT) huse hrow
          obtain ⟨c1, c2⟩ := a5 rp rc huse' b1
          exact ⟨c1, fun i hi h1 h2 => b2 i (c2 i hi h1 h2) h1 h2⟩
        · have hrow' : ∃ i ∈ db'.invs, i.rp = rp ∧ i.rc = rc := by
            obtain ⟨i, hi, h1, h2⟩ := hrow
            exact ⟨i, (setInventory_other hs (h1 ▸ hp)).mpr hi, h1, h2⟩
          obtain ⟨c1, c2⟩ := a5 rp rc huse' hrow'
          exact ⟨c1, fun i hi h1 h2 => (setInventory_other hs (h1 ▸ hp)).mp (c2 i hi h1 h2)⟩

/-! ### the allocation replacement in the middle -/

/-- An accepted `_set_allocations`, for one (provider, class): either usage did not grow, or a
positive amount was placed and then a row exists, the pair is in use, and every row fits. -/
theorem setAllocations_dichotomy {db db' : DB R} {allocs : List AllocReq}
    (h : setAllocations db allocs = .ok db') (hnn : ∀ a ∈ allocs, 0 ≤ a.used)
    (hu : InvKeysNodup db) (hpos : AllocNonneg db) (rp rc : Nat) :
    db'.usage rp rc ≤ db.usage rp rc ∨
    ((∃ a ∈ db'.allocs, a.rp = rp ∧ a.rc = rc) ∧ (∃ i ∈ db'.invs, i.rp = rp ∧ i.rc = rc) ∧
      ∀ i ∈ db'.invs, i.rp = rp → i.rc = rc →
        CapOps.capLt (i.total - i.reserved) i.ratio (db'.usage rp rc) = false) := by
  by_cases hex : ∃ a ∈ allocs, 0 < a.used ∧ a.rpId = rp ∧ rcOf db a = rc
  · right
    obtain ⟨a, ha, hp, rfl, rfl⟩ := hex
    have hok := setAllocations_ok h
    have hrc := hok.2.1 a ha
    obtain ⟨hrow, hall⟩ := setAllocations_safe_all h hnn hu a ha hp _ hrc
    refine ⟨?_, hrow, fun i hi h1 h2 => (hall i hi h1 h2).2.2.2⟩
    refine ⟨{ rp := a.rpId, rc := rcOf db a, consumer := a.consUuid, used := a.used }, ?_, rfl, rfl⟩
    rw [hok.2.2.2.2]
    apply List.mem_append_right
    unfold rowsOf
    refine List.mem_filterMap.mpr ⟨a, ha, ?_⟩
    have : (a.used == 0) = false := by simp; omega
    simp [this]
  · left
    have hz : sumKey rp rc (resolved db allocs) = 0 := by
      apply sumKey_zero
      intro c hc h1 h2
      obtain ⟨a, ha, rfl⟩ := List.mem_map.mp hc
      have := hnn a ha
      by_cases h0 : a.used = 0
      · exact h0
      · exact absurd ⟨a, ha, by omega, h1, h2⟩ hex
    rw [setAllocations_usage h, hz, Int.add_zero]
    exact usage_filter_le db _ hpos rp rc

/-! ### `reshape` as a whole -/

/-- what the three phases of an accepted `reshape` do, as far as C01 is concerned -/
structure ReshapeFacts (d db3 : DB R) (targets : List Nat) (objs : List AllocReq) : Prop where
  rcs : db3.rcs = d.rcs
  keys : InvKeysNodup db3
  /-- providers the request does not name keep their rows -/
  others : ∀ i : InvRow R, i.rp ∉ targets → (i ∈ db3.invs ↔ i ∈ d.invs)
  /-- every (provider, class): usage did not grow, or a positive amount was placed there and every
  row of the pair in the final state fits the final usage -/
  dich : AllocNonneg d → (∀ a ∈ objs, 0 ≤ a.used) → ∀ rp rc,
    db3.usage rp rc ≤ d.usage rp rc ∨
    ((∃ i ∈ db3.invs, i.rp = rp ∧ i.rc = rc) ∧
      ∀ i ∈ db3.invs, i.rp = rp → i.rc = rc →
        CapOps.capLt (i.total - i.reserved) i.ratio (db3.usage rp rc) = false)
  /-- every positive entry of the request ends on a row it fits -/
  placed : (∀ a ∈ objs, 0 ≤ a.used) → ∀ a ∈ objs, 0 < a.used → ∃ rc, d.rcId a.rcName = some rc ∧
    (∃ i ∈ db3.invs, i.rp = a.rpId ∧ i.rc = rc) ∧
    ∀ i ∈ db3.invs, i.rp = a.rpId → i.rc = rc → FitsRow i a.used (db3.usage a.rpId rc)

theorem reshapeTxn_ok {d db3 : DB R} {rinvs : List (Nat × Nat × List (InvSpec R))}
    {objs : List AllocReq} (h : reshapeTxn d rinvs objs = .ok db3)
    (hn : (rinvs.map (·.1)).Nodup) (hu : InvKeysNodup d) (hrc : RcIdsNodup d) :
    ReshapeFacts d db3 (rinvs.map (·.1)) objs := by
  unfold reshapeTxn at h
  obtain ⟨x, h1, h⟩ := bind_ok h
  obtain ⟨db1, gens1⟩ := x
  dsimp only at h
  obtain ⟨db2, h2, h⟩ := bind_ok h
  have hids : (rinvs.map (fun t => (t.1, t.2.2))).map (·.1) = rinvs.map (·.1) := by
    rw [List.map_map]; rfl
  obtain ⟨i1, i2, i3, i4, i5⟩ := reshapeInterim_ok h1 (by rw [hids]; exact hn) hu hrc
  have hok2 := setAllocations_ok h2
  have hset2 : ∀ p ∈ rinvs.map (fun t => (t.1, t.2.2)), ∀ T, resolveRcs db2 p.2 = .ok T →
      SettledOn db2.invs p.1 T := by
    intro p hp T hT
    rw [resolveRcs_congr (hok2.2.2.2.1.trans i2)] at hT
    rw [hok2.2.2.1]
    exact i5 p hp T hT
  have hu2 : InvKeysNodup db2 := by simp only [InvKeysNodup, hok2.2.2.1]; exact i3
  obtain ⟨f1, f2, f3, f4, f5⟩ := reshapeFinal_ok h (by rw [hids]; exact hn) hu2 hset2
  rw [hids] at i4 f4
  have husage3 : ∀ rp rc, db3.usage rp rc = db2.usage rp rc := fun rp rc => usage_congr f1 rp rc
  have husage1 : ∀ rp rc, db1.usage rp rc = d.usage rp rc := fun rp rc => usage_congr i1 rp rc
  -- transfer of "every row fits" from after the allocation replacement to the final state
  have transfer : ∀ rp rc (P : InvRow R → Prop),
      (∃ a ∈ db2.allocs, a.rp = rp ∧ a.rc = rc) → (∃ i ∈ db2.invs, i.rp = rp ∧ i.rc = rc) →
      (∀ i ∈ db2.invs, i.rp = rp → i.rc = rc → P i) →
      (∃ i ∈ db3.invs, i.rp = rp ∧ i.rc = rc) ∧ ∀ i ∈ db3.invs, i.rp = rp → i.rc = rc → P i := by
    intro rp rc P huse hrow hall
    obtain ⟨g1, g2⟩ := f5 rp rc huse hrow
    exact ⟨g1, fun i hi h1 h2 => hall i (g2 i hi h1 h2) h1 h2⟩
  have hnn' : (∀ a ∈ objs, 0 ≤ a.used) → ∀ a' ∈ objs.map (fun a => ({ a with rpGen := knownGen gens1 a.rpId a.rpGen } : AllocReq)), 0 ≤ a'.used := by
    intro hnn a' ha'
    obtain ⟨a, ha, rfl⟩ := List.mem_map.mp ha'
    exact hnn a ha
  refine ⟨(f2.trans hok2.2.2.2.1).trans i2, f3, ?_, ?_, ?_⟩
  · intro i hi
    rw [f4 i hi, hok2.2.2.1]; exact i4 i hi
  · intro hpos hnn rp rc
    have hpos1 : AllocNonneg db1 := by simp only [AllocNonneg, i1]; exact hpos
    rcases setAllocations_dichotomy h2 (hnn' hnn) i3 hpos1 rp rc with hle | ⟨huse, hrow, hall⟩
    · left; rw [husage3, ← husage1]; exact hle
    · right
      have := transfer rp rc _ huse hrow hall
      rw [husage3]; exact this
  · intro hnn a ha hp
    have ha' : ({ a with rpGen := knownGen gens1 a.rpId a.rpGen } : AllocReq) ∈
        objs.map (fun a => ({ a with rpGen := knownGen gens1 a.rpId a.rpGen } : AllocReq)) :=
      List.mem_map_of_mem ha
    have hrcid1 := hok2.2.1 _ ha'
    generalize rcOf db1 { a with rpGen := knownGen gens1 a.rpId a.rpGen } = rc at hrcid1
    change db1.rcId a.rcName = some rc at hrcid1
    refine ⟨rc, by simpa only [DB.rcId, i2] using hrcid1, ?_⟩
    obtain ⟨hrow, hall⟩ := setAllocations_safe_all h2 (hnn' hnn) i3 _ ha' hp rc hrcid1
    have huse : ∃ r ∈ db2.allocs, r.rp = a.rpId ∧ r.rc = rc := by
      refine ⟨{ rp := a.rpId, rc := rc, consumer := a.consUuid, used := a.used }, ?_, rfl, rfl⟩
      rw [hok2.2.2.2.2]
      apply List.mem_append_right
      unfold rowsOf
      refine List.mem_filterMap.mpr ⟨_, ha', ?_⟩
      have h0 : (a.used == 0) = false := by simp; omega
      have hr : rcOf db1 { a with rpGen := knownGen gens1 a.rpId a.rpGen } = rc := by
        simp [rcOf, hrcid1]
      simp [h0, hr]
    have := transfer a.rpId rc _ huse hrow hall
    rw [husage3]; exact this

/-! ### the handler -/

theorem rpByUuid_some {db : DB R} {u : Nat} {r : RpRow} (h : db.rpByUuid u = some r) :
    r ∈ db.rps ∧ r.uuid = u := by
  unfold DB.rpByUuid at h
  exact ⟨List.mem_of_find?_eq_some h, by simpa using List.find?_some h⟩

theorem resolveReshapeRps_ok {db : DB R} {invs : List (RpInvReq R)}
    {rinvs : List (Nat × Nat × List (InvSpec R))} (h : resolveReshapeRps db invs = .ok rinvs)
    (hid : RpIdsNodup db) (hn : (invs.map (·.uuid)).Nodup) :
    (rinvs.map (·.1)).Nodup ∧
    ∀ t ∈ rinvs.map (·.1), ∃ q ∈ invs, ∃ r, db.rpByUuid q.uuid = some r ∧ r.id = t := by
  induction invs generalizing rinvs with
  | nil => simp [resolveReshapeRps] at h; subst h; simp
  | cons q invs ih =>
    rw [List.map_cons, List.nodup_cons] at hn
    unfold resolveReshapeRps at h
    split at h
    · cases h
    · rename_i rp hrp
      split at h
      · cases h
      · cases hr : resolveReshapeRps db invs with
        | error e => rw [hr] at h; cases h
        | ok rest =>
          rw [hr] at h; simp only [Except.map] at h; cases h
          obtain ⟨a1, a2⟩ := ih hr hn.2
          rw [List.map_cons, List.nodup_cons]
          refine ⟨⟨?_, a1⟩, ?_⟩
          · intro hmem
            obtain ⟨q', hq', r', hr', e⟩ := a2 _ hmem
            obtain ⟨m1, u1⟩ := rpByUuid_some hrp
            obtain ⟨m2, u2⟩ := rpByUuid_some hr'
            have : r' = rp := eq_of_nodup_map hid m2 m1 e
            subst this
            exact hn.1 (by rw [← u1, u2]; exact List.mem_map_of_mem hq')
          · intro t ht
            rcases List.mem_cons.mp ht with rfl | ht
            · exact ⟨q, List.mem_cons_self, rp, hrp, rfl⟩
            · obtain ⟨q', hq', r', hr', e⟩ := a2 t ht
              exact ⟨q', List.mem_cons_of_mem _ hq', r', hr', e⟩

theorem resolveReshapeRps_err {db : DB R} {invs : List (RpInvReq R)} {r : Resp}
    (h : resolveReshapeRps db invs = .error r) : r.ok = false := by
  induction invs with
  | nil => cases h
  | cons q invs ih =>
    unfold resolveReshapeRps at h
    split at h
    · cases h; rfl
    · split at h
      · cases h; rfl
      · cases hr : resolveReshapeRps db invs with
        | error e => rw [hr] at h; simp only [Except.map] at h; cases h; exact ih hr
        | ok rest => rw [hr] at h; cases h

theorem reshapeErr_not_ok (e : Exc) : (reshapeErr e).ok = false := by
  unfold reshapeErr; repeat' split
  all_goals rfl

theorem hReshape_cases (cfg : Config) (db : DB R) (mv : Nat) (invs : List (RpInvReq R))
    (cs : List ConsumerReq) :
    (ConsOnly db (hReshape cfg db mv invs cs).1 ∧ (hReshape cfg db mv invs cs).2.ok = false) ∨
    (∃ rinvs d1 d2 d3 triples objs, resolveReshapeRps db invs = .ok rinvs ∧
      ConsOnly db d1 ∧ ConsOnly db d2 ∧ triples.map (·.1) = cs ∧
      allocObjectsAll d1 triples = .ok objs ∧ reshapeTxn d2 rinvs objs = .ok d3 ∧
      ConsOnly d3 (hReshape cfg db mv invs cs).1) := by
  unfold hReshape
  split
  · exact Or.inl ⟨ConsOnly.refl _, rfl⟩
  · split
    · rename_i r hr
      exact Or.inl ⟨ConsOnly.refl _, resolveReshapeRps_err hr⟩
    · rename_i rinvs hr
      have hf := inspectConsumers_frame cfg mv db cs [] []
      split
      · rename_i db1 r he
        rw [he] at hf
        exact Or.inl ⟨hf, inspectConsumers_err he⟩
      · rename_i db1 triples created he
        rw [he] at hf
        split
        · rename_i r ho
          exact Or.inl ⟨hf.trans (deleteConsumerRows_frame _ _), allocObjectsAll_err ho⟩
        · rename_i objs ho
          dsimp only
          split
          · rename_i db3 hs
            exact Or.inr ⟨rinvs, db1, _, db3, triples, objs, hr, hf,
              hf.trans (updateConsumers_frame _ _), by simpa using inspectConsumers_ok he, ho, hs,
              deleteConsumerRows_frame _ _⟩
          · exact Or.inl ⟨hf.trans (deleteConsumerRows_frame _ _), reshapeErr_not_ok _⟩

/-- request well-formedness that mirrors JSON object semantics: `inventories` of `POST /reshaper`
is an object keyed by provider uuid -/
def ReshapeWF (invs : List (RpInvReq R)) : Prop := (invs.map (·.uuid)).Nodup

/-- an accepted reshape, seen from the state before the request -/
theorem hReshape_facts {cfg : Config} {db : DB R} {mv : Nat} {invs : List (RpInvReq R)}
    {cs : List ConsumerReq} (hu : InvKeysNodup db) (hrc : RcIdsNodup db) (hid : RpIdsNodup db)
    (hwf : ReshapeWF invs) :
    (NoIA db (hReshape cfg db mv invs cs).1 ∧ (hReshape cfg db mv invs cs).2.ok = false) ∨
    ∃ (d2 d3 : DB R) (targets : List Nat) (triples : List (ConsumerReq × ConsRow × ReqAttr))
      (objs : List AllocReq), ConsOnly db d2 ∧ ConsOnly d3 (hReshape cfg db mv invs cs).1 ∧
      ReshapeFacts d2 d3 targets objs ∧
      (∀ t ∈ targets, ∃ q ∈ invs, ∃ r, db.rpByUuid q.uuid = some r ∧ r.id = t) ∧
      triples.map (·.1) = cs ∧
      (∀ t ∈ triples, ∀ x ∈ t.1.allocs, ∃ rp, db.rpByUuid x.1 = some rp ∧
        ∃ a ∈ objs, a.rpId = rp.id ∧ a.rcName = x.2.1 ∧ a.used = x.2.2) ∧
      (∀ a ∈ objs, a.used = 0 ∨ ∃ t ∈ triples, ∃ x ∈ t.1.allocs, a.used = x.2.2) := by
  rcases hReshape_cases cfg db mv invs cs with
    ⟨hf, hbad⟩ | ⟨rinvs, d1, d2, d3, triples, objs, hr, h1, h2, ht, ho, hs, h3⟩
  · exact Or.inl ⟨hf.noIA, hbad⟩
  · right
    obtain ⟨n1, n2⟩ := resolveReshapeRps_ok hr hid hwf
    have hrc2 : RcIdsNodup d2 := by simp only [RcIdsNodup, h2.2.2.2.1]; exact hrc
    have facts := reshapeTxn_ok hs n1 (h2.invKeys hu) hrc2
    obtain ⟨p1, p2⟩ := allocObjectsAll_ok ho
    refine ⟨d2, d3, _, triples, objs, h2, h3, facts, n2, ht, ?_, p2⟩
    intro t ht' x hx
    obtain ⟨rp, hrp, rest⟩ := p1 t ht' x hx
    exact ⟨rp, by simpa only [DB.rpByUuid, h1.1] using hrp, rest⟩

end Placement
