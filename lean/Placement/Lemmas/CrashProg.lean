import Placement.Lemmas.CrashMain
/-
  C18, allocation writes, part 4: the read transactions that build the allocation objects, and the
  three request programs `pAllocPut`, `pAllocPost`, `pReshape` as `Path` programs: started on a state
  `db0` satisfying the bundled invariants, every transaction leaves a `G db0` configuration.
-/
namespace Placement.Crash
open Placement Placement.Wf Placement.Sched Placement.Core
variable {R : Type} [CapOps R] {db0 : DB R}
set_option linter.unusedSectionVars false
set_option linter.unusedVariables false

/-- knowledge while the providers of one entry are read -/
def Krows (db0 : DB R) (ctx : ACtx R) (rows : List RpRow) (s : DB R) : Prop :=
  Ph db0 ctx s ∧ ∀ r ∈ rows, r ∈ s.rps

theorem aGetRps_path (h0 : WFI db0) (ctx : ACtx R) (k : List RpRow → P R)
    (hk : ∀ rows, Path (G db0) (Krows db0 ctx rows) (k rows)) :
    ∀ (us : List Nat) (rows : List RpRow),
      Path (G db0) (Krows db0 ctx rows) (.txn .getRp (aGetRps ctx.created k us rows))
  | [], rows => by
    refine Path.read _ _ ?_
    rintro s ⟨hp, hr⟩
    exact ⟨rfl, hp.g h0 _, (hk rows).weaken (by rintro s' rfl; exact ⟨hp, hr⟩)⟩
  | [u], rows => by
    refine Path.read _ _ ?_
    rintro s ⟨hp, hr⟩
    unfold aGetRps
    split
    · exact ⟨rfl, hp.g h0 _, cleanupThen_at h0 hp _⟩
    · next rp hrp =>
      refine ⟨rfl, hp.g h0 _, (hk (rows ++ [rp])).weaken ?_⟩
      rintro s' rfl
      refine ⟨hp, fun r hr' => ?_⟩
      rcases List.mem_append.1 hr' with h | h
      · exact hr r h
      · simp at h; subst h; exact (hasRp_of_rpByUuid hrp).1
  | u :: u' :: us, rows => by
    refine Path.read _ _ ?_
    rintro s ⟨hp, hr⟩
    unfold aGetRps
    split
    · exact ⟨rfl, hp.g h0 _, cleanupThen_at h0 hp _⟩
    · next rp hrp =>
      refine ⟨rfl, hp.g h0 _, (aGetRps_path h0 ctx k hk (u' :: us) (rows ++ [rp])).weaken ?_⟩
      rintro s' rfl
      refine ⟨hp, fun r hr' => ?_⟩
      rcases List.mem_append.1 hr' with h | h
      · exact hr r h
      · simp at h; subst h; exact (hasRp_of_rpByUuid hrp).1

theorem aBuildNext_path (h0 : WFI db0) (ctx : ACtx R) (hwf : ∀ t ∈ ctx.done, ConsumerReqWF t.1)
    (hnd : (ctx.done.map (·.1.uuid)).Nodup) :
    ∀ (l pre : List Triple) (objs : List AllocReq), ctx.done = pre ++ l → ObjsOK pre objs →
      Path (G db0) (Ph db0 ctx) (aBuildNext ctx l objs)
  | [], pre, objs, e, hO => by
    rw [List.append_nil] at e
    exact aMain_path h0 ctx objs (e ▸ hO)
  | (c, cons, attr) :: rest, pre, objs, e, hO => by
    have e' : ctx.done = (pre ++ [(c, cons, attr)]) ++ rest := by rw [e]; simp
    have hmem : (c, cons, attr) ∈ ctx.done := by rw [e]; simp
    unfold aBuildNext
    split
    · refine Path.read _ _ (fun s hp => ⟨rfl, hp.g h0 _, ?_⟩)
      exact (aBuildNext_path h0 ctx hwf hnd rest _ _ e' (hO.clear s (c, cons, attr))).weaken
        (by rintro s' rfl; exact hp)
    · refine (aGetRps_path h0 ctx _ ?_ _ []).weaken (fun s hp => ⟨hp, fun _ h => by cases h⟩)
      intro rows
      refine Path.of_inhabited ?_
      rintro s ⟨hp, hr⟩
      have hnew : ∀ x ∈ pre, x.2.1.uuid ≠ cons.uuid := by
        intro x hx
        have hx' : x ∈ ctx.done := by rw [e]; exact List.mem_append_left _ hx
        rw [(hp.acc x hx').2.1, (hp.acc _ hmem).2.1]
        rw [e, List.map_append, List.nodup_append] at hnd
        exact hnd.2.2 _ (List.mem_map.2 ⟨x, hx, rfl⟩) _ (List.mem_map.2 ⟨_, List.mem_cons_self .., rfl⟩)
      exact (aBuildNext_path h0 ctx hwf hnd rest _ _ e'
        (hO.entry hp.wfi.uniq (c, cons, attr) (hwf _ hmem) rows hr hnew)).weaken (fun s h => h.1)

/-- `inspect_consumers` and everything after it -/
theorem aNext_path (h0 : WFI db0) : ∀ (rest : List ConsumerReq) (ctx : ACtx R),
    Static (ctx.done.map (·.1) ++ rest) → Path (G db0) (Ph db0 ctx) (aNext ctx rest)
  | [], ctx, hst => by
    rw [List.append_nil] at hst
    unfold aNext
    refine aBuildNext_path h0 ctx ?_ ?_ ctx.done [] [] rfl ObjsOK.nil
    · intro t ht; exact hst.2 _ (List.mem_map.2 ⟨t, ht, rfl⟩)
    · have := hst.1; rwa [List.map_map] at this
  | c :: rest, ctx, hst => by
    unfold aNext
    refine aGetProject_path h0 ?_
    intro ctx' e
    refine aNext_path h0 rest ctx' ?_
    rw [e, List.append_assoc]
    exact hst

/-! ### the three programs -/

theorem pAllocPut_path (h0 : WFI db0) (cfg : Config) (mv : Nat) (c : ConsumerReq) (hwf : ConsumerReqWF c) :
    Path (G db0) (fun s => s = db0) (pAllocPut cfg mv c) := by
  unfold pAllocPut
  split
  · exact .done _ _
  · refine (aNext_path h0 [c] _ ?_).weaken ?_
    · exact ⟨by simp, fun x hx => by simp at hx; subst hx; exact hwf⟩
    · rintro s rfl; exact Ph.init h0 _ rfl rfl rfl

theorem pAllocPost_path (h0 : WFI db0) (cfg : Config) (mv : Nat) (cs : List ConsumerReq)
    (hwf : (cs.map (·.uuid)).Nodup ∧ ∀ c ∈ cs, ConsumerReqWF c) :
    Path (G db0) (fun s => s = db0) (pAllocPost cfg mv cs) := by
  unfold pAllocPost
  split
  · exact .done _ _
  · refine (aNext_path h0 cs _ ?_).weaken ?_
    · exact hwf
    · rintro s rfl; exact Ph.init h0 _ rfl rfl rfl

theorem aReshapeRps_path (h0 : WFI db0) (cfg : Config) (mv : Nat) (cs : List ConsumerReq)
    (hwf : (cs.map (·.uuid)).Nodup ∧ ∀ c ∈ cs, ConsumerReqWF c) :
    ∀ (todo : List (RpInvReq R)) (acc : List (Nat × Nat × List (InvSpec R))),
      Path (G db0) (fun s => s = db0) (.txn .getRp (aReshapeRps cfg mv todo acc cs))
  | [], acc => by
    refine Path.read _ _ ?_
    rintro s rfl
    exact ⟨rfl, ⟨h0, .inl (AuxOnly.refl _)⟩, .done _ _⟩
  | [r], acc => by
    refine Path.read _ _ ?_
    rintro s rfl
    have g0 : ∀ p : P R, G s s p := fun p => ⟨h0, .inl (AuxOnly.refl _)⟩
    unfold aReshapeRps
    split
    · exact ⟨rfl, g0 _, .done _ _⟩
    · split
      · exact ⟨rfl, g0 _, .done _ _⟩
      · dsimp only
        refine ⟨rfl, g0 _, (aNext_path h0 cs _ ?_).weaken ?_⟩
        · exact hwf
        · rintro s' rfl; exact Ph.init h0 _ rfl rfl rfl
  | r :: r' :: rest', acc => by
    have ih := aReshapeRps_path h0 cfg mv cs hwf (r' :: rest')
    refine Path.read _ _ ?_
    rintro s rfl
    have g0 : ∀ p : P R, G s s p := fun p => ⟨h0, .inl (AuxOnly.refl _)⟩
    unfold aReshapeRps
    split
    · exact ⟨rfl, g0 _, .done _ _⟩
    · split
      · exact ⟨rfl, g0 _, .done _ _⟩
      · dsimp only
        exact ⟨rfl, g0 _, ih _⟩

theorem pReshape_path (h0 : WFI db0) (cfg : Config) (mv : Nat) (invs : List (RpInvReq R))
    (cs : List ConsumerReq) (hwf : (cs.map (·.uuid)).Nodup ∧ ∀ c ∈ cs, ConsumerReqWF c) :
    Path (G db0) (fun s => s = db0) (pReshape cfg mv invs cs) := by
  unfold pReshape
  split
  · exact .done _ _
  · split
    · refine (aNext_path h0 cs _ ?_).weaken ?_
      · exact hwf
      · rintro s rfl; exact Ph.init h0 _ rfl rfl rfl
    · exact aReshapeRps_path h0 cfg mv cs hwf _ _

end Placement.Crash
