import Placement.Model.Prog
/-
  Generic facts about scheduled runs of pools of transaction programs (`Prog.runSched`), used by the
  all-schedules theorems of C05, C06, C07.

  `Prog.All Q p`: every transaction that `p` can ever perform, from whatever state it is run on,
  relates the state before and after by `Q`.  A pool whose programs all satisfy `All Q` preserves
  every state invariant that `Q`-steps preserve, under every schedule.
-/
namespace Placement.Sched
open Placement
variable {σ α : Type}

/-- every transaction of the program, on every state, is a `Q`-step -/
inductive All (Q : σ → σ → Prop) : Prog σ α → Prop
  | done (a : α) : All Q (.done a)
  | txn (l : Lbl) (f : σ → σ × Prog σ α) : (∀ s, Q s (f s).1) → (∀ s, All Q (f s).2) → All Q (.txn l f)

theorem All.mono {Q Q' : σ → σ → Prop} (h : ∀ s s', Q s s' → Q' s s') {p : Prog σ α} (hp : All Q p) :
    All Q' p := by
  induction hp with
  | done a => exact .done a
  | txn l f h1 _ ih => exact .txn l f (fun s => h _ _ (h1 s)) ih

theorem All.step {Q : σ → σ → Prop} {l : Lbl} {f : σ → σ × Prog σ α} (h : All Q (.txn l f)) (s : σ) :
    Q s (f s).1 ∧ All Q (f s).2 := by
  cases h with
  | txn _ _ h1 h2 => exact ⟨h1 s, h2 s⟩

/-- `All` for a transaction given as "state unchanged or `Q`" -/
theorem All.txn' {Q : σ → σ → Prop} (l : Lbl) (f : σ → σ × Prog σ α)
    (h : ∀ s, Q s (f s).1 ∧ All Q (f s).2) : All Q (.txn l f) :=
  .txn l f (fun s => (h s).1) (fun s => (h s).2)

/-! ### one scheduling step -/

/-- a scheduling step either does nothing or runs the next transaction of request `i` -/
theorem stepAt_cases (ps : List (Prog σ α)) (i : Nat) (s : σ) :
    (Prog.stepAt ps i s = (s, ps) ∧ ∀ l f, ps[i]? ≠ some (.txn l f)) ∨
    ∃ l f, ps[i]? = some (.txn l f) ∧ Prog.stepAt ps i s = ((f s).1, ps.set i (f s).2) := by
  unfold Prog.stepAt
  cases h : ps[i]? with
  | none => exact .inl ⟨rfl, by simp⟩
  | some p =>
    cases p with
    | done a => exact .inl ⟨rfl, by simp⟩
    | txn l f => exact .inr ⟨l, f, rfl, rfl⟩

theorem stepAt_length (ps : List (Prog σ α)) (i : Nat) (s : σ) : (Prog.stepAt ps i s).2.length = ps.length := by
  rcases stepAt_cases ps i s with ⟨h, -⟩ | ⟨l, f, -, h⟩ <;> rw [h] <;> simp

theorem runSched_length : ∀ (sched : List Nat) (s : σ) (ps : List (Prog σ α)),
    (Prog.runSched sched s ps).2.length = ps.length
  | [], _, _ => rfl
  | i :: is, s, ps => by
    show (Prog.runSched is (Prog.stepAt ps i s).1 (Prog.stepAt ps i s).2).2.length = _
    rw [runSched_length, stepAt_length]

theorem runSched_cons (i : Nat) (is : List Nat) (s : σ) (ps : List (Prog σ α)) :
    Prog.runSched (i :: is) s ps = Prog.runSched is (Prog.stepAt ps i s).1 (Prog.stepAt ps i s).2 := rfl

theorem runSched_append : ∀ (a b : List Nat) (s : σ) (ps : List (Prog σ α)),
    Prog.runSched (a ++ b) s ps = Prog.runSched b (Prog.runSched a s ps).1 (Prog.runSched a s ps).2
  | [], _, _, _ => rfl
  | i :: is, b, s, ps => by
    show Prog.runSched (is ++ b) _ _ = _
    rw [runSched_append is b]; rfl

/-- the induction principle of all the schedule theorems: an invariant over (state, pool) that
every scheduling step preserves holds after every schedule -/
theorem runSched_inv (Inv : σ → List (Prog σ α) → Prop)
    (hstep : ∀ s ps i, Inv s ps → Inv (Prog.stepAt ps i s).1 (Prog.stepAt ps i s).2) :
    ∀ (sched : List Nat) (s : σ) (ps : List (Prog σ α)), Inv s ps →
      Inv (Prog.runSched sched s ps).1 (Prog.runSched sched s ps).2
  | [], _, _, h => h
  | i :: is, s, ps, h => runSched_inv Inv hstep is _ _ (hstep s ps i h)

/-- a finished request stays finished with the same answer -/
theorem stepAt_done {ps : List (Prog σ α)} {j : Nat} {a : α} (i : Nat) (s : σ) (h : ps[j]? = some (.done a)) :
    (Prog.stepAt ps i s).2[j]? = some (.done a) := by
  rcases stepAt_cases ps i s with ⟨e, -⟩ | ⟨l, f, hi, e⟩
  · rw [e]; exact h
  · rw [e]
    show (ps.set i (f s).2)[j]? = _
    by_cases hij : i = j
    · subst hij; rw [hi] at h; cases h
    · rw [List.getElem?_set_ne hij]; exact h

theorem runSched_done : ∀ (sched : List Nat) (s : σ) {ps : List (Prog σ α)} {j : Nat} {a : α},
    ps[j]? = some (.done a) → (Prog.runSched sched s ps).2[j]? = some (.done a)
  | [], _, _, _, _, h => h
  | i :: is, s, _, _, _, h => runSched_done is _ (stepAt_done i s h)

/-! ### pools of `All Q` programs -/

/-- every program of the pool satisfies `All Q` -/
def PoolAll (Q : σ → σ → Prop) (ps : List (Prog σ α)) : Prop := ∀ p ∈ ps, All Q p

theorem PoolAll.set {Q : σ → σ → Prop} {ps : List (Prog σ α)} (h : PoolAll Q ps) (i : Nat) {q : Prog σ α}
    (hq : All Q q) : PoolAll Q (ps.set i q) := by
  intro p hp
  rcases List.mem_or_eq_of_mem_set hp with h1 | h1
  · exact h p h1
  · exact h1 ▸ hq

/-- one step of a pool of `All Q` programs: the pool stays `All Q`, the state is unchanged or makes
a `Q`-step -/
theorem PoolAll.stepAt {Q : σ → σ → Prop} {ps : List (Prog σ α)} (h : PoolAll Q ps) (i : Nat) (s : σ) :
    PoolAll Q (Prog.stepAt ps i s).2 ∧ ((Prog.stepAt ps i s).1 = s ∨ Q s (Prog.stepAt ps i s).1) := by
  rcases stepAt_cases ps i s with ⟨e, -⟩ | ⟨l, f, hi, e⟩
  · rw [e]; exact ⟨h, .inl rfl⟩
  · rw [e]
    have hp := (h _ (List.mem_of_getElem? hi)).step s
    exact ⟨h.set i hp.2, .inr hp.1⟩

/-- under every schedule a pool of `All Q` programs preserves every `Q`-stable state predicate -/
theorem PoolAll.runSched {Q : σ → σ → Prop} (I : σ → Prop) (hI : ∀ s s', Q s s' → I s → I s') :
    ∀ (sched : List Nat) (s : σ) (ps : List (Prog σ α)), PoolAll Q ps → I s →
      PoolAll Q (Prog.runSched sched s ps).2 ∧ I (Prog.runSched sched s ps).1 := by
  intro sched s ps hp hs
  refine runSched_inv (fun s ps => PoolAll Q ps ∧ I s) ?_ sched s ps ⟨hp, hs⟩
  intro s ps i ⟨hp, hs⟩
  obtain ⟨h1, h2⟩ := hp.stepAt i s
  refine ⟨h1, ?_⟩
  rcases h2 with e | q
  · rw [e]; exact hs
  · exact hI _ _ q hs

/-- the state after a schedule is related to the start state by the reflexive-transitive closure
of `Q`, given as any reflexive transitive `T ⊇ Q` (relative to an invariant `I` that `Q` preserves) -/
theorem PoolAll.runSched_rel {Q T : σ → σ → Prop} (I : σ → Prop)
    (hQI : ∀ s s', I s → Q s s' → I s')
    (htrans : ∀ a b c, T a b → I b → Q b c → T a c) (s0 : σ) :
    ∀ (sched : List Nat) (s : σ) (ps : List (Prog σ α)), PoolAll Q ps → I s → T s0 s →
      T s0 (Prog.runSched sched s ps).1 ∧ I (Prog.runSched sched s ps).1 := by
  intro sched s ps hp hs ht
  have := runSched_inv (fun s ps => PoolAll Q ps ∧ I s ∧ T s0 s) ?_ sched s ps ⟨hp, hs, ht⟩
  · exact ⟨this.2.2, this.2.1⟩
  intro s ps i ⟨hp, hs, ht⟩
  obtain ⟨h1, h2⟩ := hp.stepAt i s
  refine ⟨h1, ?_⟩
  rcases h2 with e | q
  · rw [e]; exact ⟨hs, ht⟩
  · exact ⟨hQI _ _ hs q, htrans _ _ _ ht hs q⟩

/-! ### answers -/

/-- request `j` of the pool has answered `a` -/
def Answered (ps : List (Prog σ α)) (j : Nat) (a : α) : Prop := ps[j]? = some (.done a)

theorem getElem?_map_prog {β : Type} (f : β → Prog σ α) (l : List β) (i : Nat) :
    (l.map f)[i]? = (l[i]?).map f := by simp

end Placement.Sched
