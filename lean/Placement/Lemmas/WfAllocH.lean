import Placement.Lemmas.WfHandlers
/-
  The three allocation-writing handlers (PUT /allocations/{c}, POST /allocations, POST /reshaper):
  preservation of the bundled invariants `WFI`, including the clean-up of consumers created by the
  request (failure paths, and on success the consumers created for an empty entry).
-/
namespace Placement.Wf
variable {R : Type}

section
variable {cfg : Config} {mv : Nat} {db0 db1 : DB R} {triples : List (ConsumerReq × ConsRow × ReqAttr)}
  {created : List Nat}

theorem Insp.wfi (h0 : WFI db0) (I : Insp cfg mv db0 db1 triples created) : WFI db1 :=
  h0.of_allocs_eq I.uniq I.ri I.allocs

theorem Insp.createdOK (h0 : RI db0) (I : Insp cfg mv db0 db1 triples created) : CreatedOK db1 created := by
  intro c hc hi a ha e
  rcases I.split c hc with ⟨-, h2⟩ | ⟨-, h2⟩
  · exact h2 hi
  · rw [I.allocs] at ha
    obtain ⟨c0, hc0, e0⟩ := h0.allocCons a ha
    exact h2 c0 hc0 (e0.trans e)

theorem Insp.wfi_cleanup (h0 : WFI db0) (I : Insp cfg mv db0 db1 triples created) :
    WFI (deleteConsumerRows db1 created) :=
  h0.of_allocs_eq (uniqC_deleteConsumerRows I.uniq _) (ri_deleteConsumerRows I.ri (I.createdOK h0.ri)) I.allocs

theorem Insp.uuids_nodup (I : Insp cfg mv db0 db1 triples created) {cs : List ConsumerReq}
    (hm : triples.map (·.1) = cs) (hn : (cs.map (·.uuid)).Nodup) :
    (triples.map (fun t => t.2.1.uuid)).Nodup := by
  have : triples.map (fun t => t.2.1.uuid) = (triples.map (·.1)).map (·.uuid) := by
    rw [List.map_map]
    exact List.map_congr_left (fun t ht => (I.acc t ht).2.1)
  rw [this, hm]; exact hn

theorem Insp.attrs (I : Insp cfg mv db0 db1 triples created) : ∀ t ∈ triples, AttrOK db1 t.2.1 t.2.2 :=
  fun t ht => (I.acc t ht).2.2.1

/-- the consumers named by the allocation objects exist (also after `update_consumers`) -/
theorem Insp.objs_cons (I : Insp cfg mv db0 db1 triples created) {objs : List AllocReq} {db2 : DB R}
    (hO : allocObjectsAll db1 triples = .ok objs) (hM : ConsMap db1 db2) :
    ∀ a ∈ objs, ∃ c ∈ db2.consumers, c.uuid = a.consUuid := by
  intro a ha
  obtain ⟨t, ht, os, h1, h2⟩ := (allocObjectsAll_ok hO).1 a ha
  obtain ⟨g, rfl, hg⟩ := hM
  exact ⟨g t.2.1, List.mem_map.2 ⟨_, (I.acc t ht).1, rfl⟩,
    ((hg _).2.1).trans (allocObjects_consUuid h1 a h2).symm⟩

theorem Insp.wfi_updated (h0 : WFI db0) (I : Insp cfg mv db0 db1 triples created) :
    WFI (updateConsumers db1 triples) := by
  have hM := consMap_updateConsumers db1 triples
  refine (I.wfi h0).of_allocs_eq (hM.uniqC I.uniq) (ri_updateConsumers _ I.ri I.attrs) ?_
  obtain ⟨g, e, -⟩ := hM
  rw [e]

/-- consumers created by this request for an empty entry hold no allocations after the write -/
theorem Insp.createdOK_final (h0 : RI db0) (I : Insp cfg mv db0 db1 triples created)
    (hn : (triples.map (fun t => t.2.1.uuid)).Nodup) {objs : List AllocReq} {db2 db3 : DB R}
    (hM : ConsMap db1 db2) (hO : allocObjectsAll db1 triples = .ok objs) (hT : AllocTxn db2 db3 objs) :
    CreatedOK db3 (createdEmpty triples created) := by
  intro c' hc' hi a ha e
  unfold createdEmpty at hi
  obtain ⟨t, ht, eid⟩ := List.mem_map.1 hi
  obtain ⟨ht, hf⟩ := List.mem_filter.1 ht
  simp only [Bool.and_eq_true, List.contains_eq_mem, decide_eq_true_eq] at hf
  obtain ⟨hcr, hemp⟩ := hf
  obtain ⟨tm, tu, -, -⟩ := I.acc t ht
  -- the row is the one of the triple
  obtain ⟨c2, hc2, i2, u2, -⟩ := hT.consSub c' hc'
  obtain ⟨g, rfl, hg⟩ := hM
  obtain ⟨c1, hc1, rfl⟩ := List.mem_map.1 hc2
  have e1 : c1 = t.2.1 := L.eq_of_key_eq I.uniq.consId hc1 tm (by rw [← (hg c1).1, i2, eid])
  have eu : c'.uuid = t.2.1.uuid := by rw [← u2, (hg c1).2.1, e1]
  rcases hT.origin a ha with ⟨hold, -⟩ | ⟨o, ho, h0', eo⟩
  · -- an allocation that existed before the request
    have hold : a ∈ db0.allocs := by rw [← I.allocs]; exact hold
    rcases I.split _ tm with ⟨-, h2⟩ | ⟨-, h2⟩
    · exact h2 hcr
    · obtain ⟨c0, hc0, e0⟩ := h0.allocCons a hold
      exact h2 c0 hc0 (by rw [e0, e, eu])
  · -- an allocation written by this request
    obtain ⟨t', ht', os, h1, h2⟩ := (allocObjectsAll_ok hO).1 o ho
    have e' : t'.2.1.uuid = t.2.1.uuid := by
      rw [← allocObjects_consUuid h1 o h2, ← eo, e, eu]
    have : t' = t := L.eq_of_key_eq hn ht' ht e'
    subst this
    exact h0' (allocObjects_empty h1 hemp o h2).1

end

variable [CapOps R]

/-! ### POST /allocations -/

theorem wfi_hAllocPost {cfg : Config} {db : DB R} (h : WFI db) (mv : Nat) (cs : List ConsumerReq)
    (hwf : OpWF (.allocPost mv cs : Op R)) : WFI (hAllocPost cfg db mv cs).1 := by
  obtain ⟨hn, hwf⟩ := hwf
  unfold hAllocPost
  split
  · exact h
  · generalize hI : inspectConsumers cfg mv db cs [] [] = p
    obtain ⟨db1, res⟩ := p
    have hs := inspectConsumers_spec cs (Insp.init h.uniq h.ri) hI
    cases res with
    | error r =>
      obtain ⟨d, acc', created', I, rfl⟩ := hs
      exact I.wfi_cleanup h
    | ok v =>
      obtain ⟨triples, created⟩ := v
      obtain ⟨I, hm⟩ := hs
      simp only [List.map_nil, List.nil_append] at hm
      dsimp only
      split
      · exact I.wfi_cleanup h
      · next objs hO =>
        have hM := consMap_updateConsumers db1 triples
        have h2 := I.wfi_updated h
        have hnd := I.uuids_nodup hm hn
        have hwf' : ∀ t ∈ triples, ConsumerReqWF t.1 := fun t ht =>
          hwf t.1 (by rw [← hm]; exact List.mem_map.2 ⟨t, ht, rfl⟩)
        split
        · next db3 h3 =>
          have hT := allocTxn_setAllocations h3
          have hC := I.objs_cons hO hM
          have hd := allocObjectsAll_distinct I.uniq hwf' (L.nodup_map_iff_pairwise.1 hnd) hO
          have w3 : WFI db3 := ⟨uniqC_setAllocations h2.uniq h3, ri_setAllocations h2.ri hC h3,
            allocKeys_setAllocations h2.uniq h2.keys hd h3,
            allocPos_setAllocations h2.pos (allocObjectsAll_nonneg hwf' hO) h3⟩
          exact w3.of_allocs_eq (uniqC_deleteConsumerRows w3.uniq _)
            (ri_deleteConsumerRows w3.ri (I.createdOK_final h.ri hnd hM hO hT)) rfl
        · exact I.wfi_cleanup h

/-! ### POST /reshaper -/

theorem wfi_hReshape {cfg : Config} {db : DB R} (h : WFI db) (mv : Nat) (invs : List (RpInvReq R))
    (cs : List ConsumerReq) (hwf : OpWF (.reshape mv invs cs : Op R)) : WFI (hReshape cfg db mv invs cs).1 := by
  obtain ⟨hn, hwf⟩ := hwf
  unfold hReshape
  split
  · exact h
  · split
    · exact h
    · next rinvs _ =>
      generalize hI : inspectConsumers cfg mv db cs [] [] = p
      obtain ⟨db1, res⟩ := p
      have hs := inspectConsumers_spec cs (Insp.init h.uniq h.ri) hI
      cases res with
      | error r =>
        obtain ⟨d, acc', created', I, rfl⟩ := hs
        exact I.wfi_cleanup h
      | ok v =>
        obtain ⟨triples, created⟩ := v
        obtain ⟨I, hm⟩ := hs
        simp only [List.map_nil, List.nil_append] at hm
        dsimp only
        split
        · exact I.wfi_cleanup h
        · next objs hO =>
          have hM := consMap_updateConsumers db1 triples
          have h2 := I.wfi_updated h
          have hnd := I.uuids_nodup hm hn
          have hwf' : ∀ t ∈ triples, ConsumerReqWF t.1 := fun t ht =>
            hwf t.1 (by rw [← hm]; exact List.mem_map.2 ⟨t, ht, rfl⟩)
          split
          · next db3 h3 =>
            have hC := I.objs_cons hO hM
            obtain ⟨u3, r3, hT, k3, p3⟩ := reshapeTxn_ok h2.uniq h2.ri hC h3
            have hd := allocObjectsAll_distinct I.uniq hwf' (L.nodup_map_iff_pairwise.1 hnd) hO
            have w3 : WFI db3 := ⟨u3, r3, k3 h2.keys hd, p3 h2.pos (allocObjectsAll_nonneg hwf' hO)⟩
            exact w3.of_allocs_eq (uniqC_deleteConsumerRows w3.uniq _)
              (ri_deleteConsumerRows w3.ri (I.createdOK_final h.ri hnd hM hO hT)) rfl
          · exact I.wfi_cleanup h


/-! ### PUT /allocations/{consumer} -/

omit [CapOps R] in
theorem allocObjectsAll_single {db : DB R} {c : ConsumerReq} {cons : ConsRow} {attr : ReqAttr}
    {objs : List AllocReq} (h : allocObjects db cons c = .ok objs) :
    allocObjectsAll db [(c, cons, attr)] = .ok objs := by
  unfold allocObjectsAll
  unfold allocObjectsAll
  simp [bind, Except.bind, h, pure, Except.pure]

omit [CapOps R] in
theorem createdEmpty_single (c : ConsumerReq) (cons : ConsRow) (attr : ReqAttr) (he : c.allocs.isEmpty = true) :
    createdEmpty [(c, cons, attr)] [cons.id] = [cons.id] := by
  simp [createdEmpty, he]

theorem wfi_hAllocPut {cfg : Config} {db : DB R} (h : WFI db) (mv : Nat) (c : ConsumerReq)
    (hwf : OpWF (.allocPut mv c : Op R)) : WFI (hAllocPut cfg db mv c).1 := by
  have hwf : ConsumerReqWF c := hwf
  unfold hAllocPut
  split
  · exact h
  · generalize hE : ensureConsumer cfg db mv c = p
    obtain ⟨db1, res⟩ := p
    have hs := (Insp.init (cfg := cfg) (mv := mv) h.uniq h.ri).step hE
    cases res with
    | error r => exact hs.wfi h
    | ok v =>
      obtain ⟨cons, isNew, attr⟩ := v
      dsimp only at hs ⊢
      simp only [List.nil_append] at hs
      have hclean : WFI (if isNew = true then deleteConsumerRows db1 [cons.id] else db1) := by
        cases isNew with
        | true => exact hs.wfi_cleanup h
        | false => exact hs.wfi h
      split
      · exact hclean
      · next objs hO =>
        have hOA := allocObjectsAll_single (attr := attr) hO
        have hM : ConsMap db1 (updateConsumer db1 cons attr) := consMap_updateConsumer db1 cons attr
        have h2 : WFI (updateConsumer db1 cons attr) := hs.wfi_updated h
        have hnd : (([(c, cons, attr)] : List (ConsumerReq × ConsRow × ReqAttr)).map (fun t => t.2.1.uuid)).Nodup := by
          simp
        split
        · next db3 h3 =>
          have hT := allocTxn_setAllocations h3
          have hC := hs.objs_cons hOA hM
          have hd := allocObjects_distinct hs.uniq hwf hO
          have w3 : WFI db3 := ⟨uniqC_setAllocations h2.uniq h3, ri_setAllocations h2.ri hC h3,
            allocKeys_setAllocations h2.uniq h2.keys hd h3,
            allocPos_setAllocations h2.pos (allocObjects_nonneg hwf hO) h3⟩
          show WFI (if (isNew && objs.isEmpty) = true then deleteConsumerRows db3 [cons.id] else db3)
          split
          · next hc =>
            simp only [Bool.and_eq_true] at hc
            obtain ⟨hnew, hemp⟩ := hc
            subst hnew
            have hce : c.allocs.isEmpty = true := by
              cases he : c.allocs.isEmpty with
              | true => rfl
              | false =>
                have := (allocObjects_nonempty hO he).2.2
                simp at hemp
                exact absurd hemp this
            have hco := hs.createdOK_final h.ri hnd hM hOA hT
            simp only [if_true] at hco
            rw [createdEmpty_single c cons attr hce] at hco
            exact w3.of_allocs_eq (uniqC_deleteConsumerRows w3.uniq _) (ri_deleteConsumerRows w3.ri hco) rfl
          · exact w3
        · exact hclean

end Placement.Wf
