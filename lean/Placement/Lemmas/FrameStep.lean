import Placement.Lemmas.Frame
/-
  `Frame` for every handler that is not a provider create/update/delete (used by C09 and C10).
-/
namespace Placement.Gens
open Placement.Hier
variable {R : Type}

/-! ### consumers -/

/-- `ensure_consumer`: nothing but a possibly appended consumer row with the next fresh id and
generation 0 (projects, users, consumer types aside) -/
theorem ensureConsumer_spec (cfg : Config) (db : DB R) (mv : Nat) (c : ConsumerReq) :
    ((ensureConsumer cfg db mv c).1.gcore = db.gcore ∧
       ∀ cons created attr, (ensureConsumer cfg db mv c).2 = .ok (cons, created, attr) →
         created = false ∧ db.consByUuid c.uuid = some cons) ∨
    (db.consByUuid c.uuid = none ∧ ∃ row attr, (ensureConsumer cfg db mv c).2 = .ok (row, true, attr) ∧
       row.id = db.nextCons ∧ row.uuid = c.uuid ∧ row.gen = 0 ∧
       (ensureConsumer cfg db mv c).1.gcore = ⟨db.rps, db.nextRp, db.consumers ++ [row], db.nextCons + 1⟩) := by
  unfold ensureConsumer
  dsimp only
  split
  · rename_i cons hc
    split
    · exact .inl ⟨rfl, fun _ _ _ h => by cases h⟩
    · refine .inl ⟨?_, ?_⟩
      · split
        · split <;> rfl
        · rfl
      · intro cons' created attr h
        simp only [Except.ok.injEq, Prod.mk.injEq] at h
        exact ⟨h.2.1.symm, h.1 ▸ hc⟩
  · rename_i hc
    split
    · exact .inl ⟨rfl, fun _ _ _ h => by cases h⟩
    · refine .inr ⟨hc, _, _, rfl, ?_, rfl, rfl, ?_⟩
      · split
        · split <;> rfl
        · rfl
      · split
        · split <;> rfl
        · rfl

theorem ensureConsumer_frame (cfg : Config) (db : DB R) (mv : Nat) (c : ConsumerReq) (hI : Ids db.gcore) :
    Frame db.gcore (ensureConsumer cfg db mv c).1.gcore := by
  rcases ensureConsumer_spec cfg db mv c with ⟨hg, -⟩ | ⟨-, row, attr, -, hid, -, -, hg⟩
  · rw [hg]; exact Frame.refl hI
  · rw [hg]; exact Frame.consAppend hI row hid

/-- the one UPDATE statement of `update_consumers` -/
def updCons (cons : ConsRow) (p u : Nat) (t : Option Nat) (d : DB R) : DB R :=
  { d with consumers := d.consumers.map (fun c =>
      if c.id == cons.id && c.gen == cons.gen then { c with project := p, user := u, ctype := t } else c) }

/-- the consumer table of `d` is that of `db` with project, user and type changed in some rows -/
def ConsAttrOnly (db d : DB R) : Prop :=
  ∃ f : ConsRow → ConsRow, (∀ c, (f c).id = c.id ∧ (f c).gen = c.gen ∧ (f c).uuid = c.uuid) ∧
    d.gcore = ⟨db.rps, db.nextRp, db.consumers.map f, db.nextCons⟩

theorem ConsAttrOnly.refl (db : DB R) : ConsAttrOnly db db :=
  ⟨id, fun _ => ⟨rfl, rfl, rfl⟩, by simp [DB.gcore]⟩

theorem ConsAttrOnly.upd {db d : DB R} (h : ConsAttrOnly db d) (cons : ConsRow) (p u : Nat) (t : Option Nat) :
    ConsAttrOnly db (updCons cons p u t d) := by
  obtain ⟨f, hf, hg⟩ := h
  simp only [DB.gcore, GCore.mk.injEq] at hg
  obtain ⟨h1, h2, h3, h4⟩ := hg
  refine ⟨(fun c => if c.id == cons.id && c.gen == cons.gen then { c with project := p, user := u, ctype := t } else c) ∘ f,
    ?_, ?_⟩
  · intro c
    simp only [Function.comp]
    split <;> exact hf c
  · simp only [DB.gcore, updCons, h1, h2, h3, h4, List.map_map]

/-- `update_consumers` touches project, user and type only -/
theorem updateConsumer_spec (db : DB R) (cons : ConsRow) (a : ReqAttr) :
    ConsAttrOnly db (updateConsumer db cons a) := by
  have h0 := ConsAttrOnly.refl db
  unfold updateConsumer
  dsimp only
  repeat' split
  all_goals first
    | exact h0
    | exact h0.upd cons _ _ _
    | exact (h0.upd cons _ _ _).upd cons _ _ _

theorem updateConsumer_frame (db : DB R) (cons : ConsRow) (a : ReqAttr) (hI : Ids db.gcore) :
    Frame db.gcore (updateConsumer db cons a).gcore := by
  obtain ⟨f, hf, hg⟩ := updateConsumer_spec db cons a
  rw [hg]
  exact Frame.consMap hI f (fun c => (hf c).1) (fun c _ => by rw [(hf c).2.1]; exact Nat.le_refl _)

theorem updateConsumers_frame : ∀ (l : List (ConsumerReq × ConsRow × ReqAttr)) (db : DB R), Ids db.gcore →
    Frame db.gcore (updateConsumers db l).gcore
  | [], db, hI => Frame.refl hI
  | (_, cons, attr) :: rest, db, hI => by
    have f1 := updateConsumer_frame db cons attr hI
    exact f1.trans (updateConsumers_frame rest _ f1.ids)

theorem inspectConsumers_frame (cfg : Config) (mv : Nat) : ∀ (cs : List ConsumerReq) (db : DB R) acc created,
    Ids db.gcore → Frame db.gcore (inspectConsumers cfg mv db cs acc created).1.gcore
  | [], db, acc, created, hI => Frame.refl hI
  | c :: cs, db, acc, created, hI => by
    have f1 := ensureConsumer_frame cfg db mv c hI
    unfold inspectConsumers
    split
    · rename_i db1 r heq
      rw [heq] at f1
      exact f1.trans (deleteConsumerRows_frame db1 created f1.ids)
    · rename_i db1 cons isNew attr heq
      rw [heq] at f1
      exact f1.trans (inspectConsumers_frame cfg mv cs db1 _ _ f1.ids)

/-! ### reshaper -/

theorem reshapeInterim_frame : ∀ (l : List (Nat × List (InvSpec R))) (gens : List (Nat × Nat))
    {db db' : DB R} {gens' : List (Nat × Nat)},
    reshapeInterim db l gens = .ok (db', gens') → Ids db.gcore → Frame db.gcore db'.gcore
  | [], gens, db, db', gens', h, hI => by
    simp only [reshapeInterim, Except.ok.injEq, Prod.mk.injEq] at h
    rw [← h.1]; exact Frame.refl hI
  | (rp, newInvs) :: rest, gens, db, db', gens', h, hI => by
    rw [reshapeInterim] at h
    split at h
    · exact reshapeInterim_frame rest gens h hI
    · dsimp only at h
      split at h
      · cases h
      · rename_i db1 h1
        have f1 := setInventory_frame h1 hI
        exact f1.trans (reshapeInterim_frame rest _ h f1.ids)

theorem reshapeFinal_frame : ∀ (l : List (Nat × List (InvSpec R))) (gens : List (Nat × Nat))
    {db db' : DB R}, reshapeFinal db l gens = .ok db' → Ids db.gcore → Frame db.gcore db'.gcore
  | [], gens, db, db', h, hI => by
    simp only [reshapeFinal, Except.ok.injEq] at h
    rw [← h]; exact Frame.refl hI
  | (rp, newInvs) :: rest, gens, db, db', h, hI => by
    rw [reshapeFinal] at h
    split at h
    · cases h
    · rename_i db1 h1
      have f1 := setInventory_frame h1 hI
      exact f1.trans (reshapeFinal_frame rest _ h f1.ids)

variable [CapOps R]

theorem reshapeTxn_frame {db db' : DB R} {invs : List (Nat × Nat × List (InvSpec R))} {objs : List AllocReq}
    (h : reshapeTxn db invs objs = .ok db') (hI : Ids db.gcore) : Frame db.gcore db'.gcore := by
  unfold reshapeTxn at h
  simp only [bind, Except.bind] at h
  split at h
  · cases h
  · rename_i v h1
    obtain ⟨db1, gens1⟩ := v
    dsimp only at h
    split at h
    · cases h
    · rename_i db2 h2
      have f1 := reshapeInterim_frame _ _ h1 hI
      have f2 := setAllocations_frame h2 f1.ids
      have f3 := reshapeFinal_frame _ _ h f2.ids
      exact (f1.trans f2).trans f3

/-! ### handlers -/

set_option linter.unusedSectionVars false

theorem Frame.of_gcore_eq {a b : GCore} (hI : Ids a) (h : b = a) : Frame a b := by subst h; exact Frame.refl hI

section handlers
variable {db : DB R} (hI : Ids db.gcore)
include hI

theorem hInvSet_frame (mv uuid gen : Nat) (invs : List (InvSpec R)) :
    Frame db.gcore (hInvSet db mv uuid gen invs).1.gcore := by
  unfold hInvSet
  repeat' split
  all_goals first | exact Frame.refl hI | exact setInventory_frame (by assumption) hI

theorem hInvAdd_frame (mv uuid : Nat) (inv : InvSpec R) : Frame db.gcore (hInvAdd db mv uuid inv).1.gcore := by
  unfold hInvAdd
  repeat' split
  all_goals first | exact Frame.refl hI | exact addInventory_frame (by assumption) hI

theorem hInvUpdate_frame (mv uuid gen : Nat) (inv : InvSpec R) :
    Frame db.gcore (hInvUpdate db mv uuid gen inv).1.gcore := by
  unfold hInvUpdate
  repeat' split
  all_goals first | exact Frame.refl hI | exact updateInventory_frame (by assumption) hI

theorem hInvDelete_frame (uuid rc : Nat) : Frame db.gcore (hInvDelete db uuid rc).1.gcore := by
  unfold hInvDelete
  repeat' split
  all_goals first | exact Frame.refl hI | exact deleteInventory_frame (by assumption) hI

theorem hInvDeleteAll_frame (mv uuid : Nat) : Frame db.gcore (hInvDeleteAll db mv uuid).1.gcore := by
  unfold hInvDeleteAll
  repeat' split
  all_goals first | exact Frame.refl hI | exact setInventory_frame (by assumption) hI

theorem hTraitPut_frame (n : Nat) : Frame db.gcore (hTraitPut db n).1.gcore := by
  unfold hTraitPut
  repeat' split
  all_goals first
    | exact Frame.refl hI
    | exact Frame.of_gcore_eq hI (createTrait_gcore (by assumption))

theorem hTraitDelete_frame (n : Nat) : Frame db.gcore (hTraitDelete db n).1.gcore := by
  unfold hTraitDelete
  repeat' split
  all_goals first
    | exact Frame.refl hI
    | exact Frame.of_gcore_eq hI (deleteTrait_gcore (by assumption))

theorem hRpTraitsSet_frame (uuid gen : Nat) (ts : List Nat) : Frame db.gcore (hRpTraitsSet db uuid gen ts).1.gcore := by
  unfold hRpTraitsSet
  repeat' split
  all_goals first | exact Frame.refl hI | exact setTraits_frame (by assumption) hI

theorem hRpTraitsDelete_frame (uuid : Nat) : Frame db.gcore (hRpTraitsDelete db uuid).1.gcore := by
  unfold hRpTraitsDelete
  repeat' split
  all_goals first | exact Frame.refl hI | exact setTraits_frame (by assumption) hI

theorem hRcPost_frame (n : Nat) : Frame db.gcore (hRcPost db n).1.gcore := by
  unfold hRcPost
  repeat' split
  all_goals first
    | exact Frame.refl hI
    | exact Frame.of_gcore_eq hI (createRc_gcore (by assumption))

theorem hRcPut_frame (n : Nat) : Frame db.gcore (hRcPut db n).1.gcore := by
  unfold hRcPut
  repeat' split
  all_goals first
    | exact Frame.refl hI
    | exact Frame.of_gcore_eq hI (createRc_gcore (by assumption))

theorem hRcRename_frame (o n : Nat) : Frame db.gcore (hRcRename db o n).1.gcore := by
  unfold hRcRename
  repeat' split
  all_goals first
    | exact Frame.refl hI
    | exact Frame.of_gcore_eq hI (renameRc_gcore (by assumption))

theorem hRcDelete_frame (n : Nat) : Frame db.gcore (hRcDelete db n).1.gcore := by
  unfold hRcDelete
  repeat' split
  all_goals first
    | exact Frame.refl hI
    | exact Frame.of_gcore_eq hI (deleteRc_gcore (by assumption))

theorem hAggsSet_frame (mv uuid : Nat) (gen : Option Nat) (aggs : List Nat) :
    Frame db.gcore (hAggsSet db mv uuid gen aggs).1.gcore := by
  unfold hAggsSet
  dsimp only
  repeat' split
  all_goals first | exact Frame.refl hI | exact setAggregates_frame (by assumption) hI

theorem hAllocDelete_frame (c : Nat) : Frame db.gcore (hAllocDelete db c).1.gcore := by
  unfold hAllocDelete
  split
  · exact deleteAllocations_frame db c hI
  · exact Frame.refl hI

theorem hAllocPut_frame (cfg : Config) (mv : Nat) (c : ConsumerReq) :
    Frame db.gcore (hAllocPut cfg db mv c).1.gcore := by
  have f1 := ensureConsumer_frame cfg db mv c hI
  unfold hAllocPut
  split
  · exact Frame.refl hI
  · split
    · rename_i db1 r heq
      rw [heq] at f1; exact f1
    · rename_i db1 cons created attr heq
      rw [heq] at f1
      have fdel : Frame db.gcore (if created = true then deleteConsumerRows db1 [cons.id] else db1).gcore := by
        split
        · exact f1.trans (deleteConsumerRows_frame db1 _ f1.ids)
        · exact f1
      split
      · exact fdel
      · dsimp only
        split
        · rename_i db3 h3
          have f2 := updateConsumer_frame db1 cons attr f1.ids
          have f3 := (f1.trans f2).trans (setAllocations_frame h3 f2.ids)
          dsimp only
          split
          · exact f3.trans (deleteConsumerRows_frame db3 _ f3.ids)
          · exact f3
        · exact fdel

theorem hAllocPost_frame (cfg : Config) (mv : Nat) (cs : List ConsumerReq) :
    Frame db.gcore (hAllocPost cfg db mv cs).1.gcore := by
  have f1 := inspectConsumers_frame cfg mv cs db [] [] hI
  unfold hAllocPost
  split
  · exact Frame.refl hI
  · split
    · rename_i db1 r heq
      rw [heq] at f1; exact f1
    · rename_i db1 triples created heq
      rw [heq] at f1
      split
      · exact f1.trans (deleteConsumerRows_frame db1 _ f1.ids)
      · dsimp only
        split
        · rename_i db3 h3
          have f2 := updateConsumers_frame triples db1 f1.ids
          have f3 := (f1.trans f2).trans (setAllocations_frame h3 f2.ids)
          exact f3.trans (deleteConsumerRows_frame db3 _ f3.ids)
        · exact f1.trans (deleteConsumerRows_frame db1 _ f1.ids)

theorem hReshape_frame (cfg : Config) (mv : Nat) (invs : List (RpInvReq R)) (cs : List ConsumerReq) :
    Frame db.gcore (hReshape cfg db mv invs cs).1.gcore := by
  have f1 := inspectConsumers_frame cfg mv cs db [] [] hI
  unfold hReshape
  split
  · exact Frame.refl hI
  · split
    · exact Frame.refl hI
    · split
      · rename_i db1 r heq
        rw [heq] at f1; exact f1
      · rename_i db1 triples created heq
        rw [heq] at f1
        split
        · exact f1.trans (deleteConsumerRows_frame db1 _ f1.ids)
        · dsimp only
          split
          · rename_i db3 h3
            have f2 := updateConsumers_frame triples db1 f1.ids
            have f3 := (f1.trans f2).trans (reshapeTxn_frame h3 f2.ids)
            exact f3.trans (deleteConsumerRows_frame db3 _ f3.ids)
          · exact f1.trans (deleteConsumerRows_frame db1 _ f1.ids)

end handlers

/-- Every request other than a provider create / update / delete leaves the provider table as it
was up to raised generations, and the consumer table up to raised generations, fresh rows and
removed rows. -/
theorem step_frame (cfg : Config) {db : DB R} (hI : Ids db.gcore) (op : Op R)
    (hop : ∀ mv u n p, op ≠ .rpCreate mv u n p) (hop2 : ∀ mv u n p, op ≠ .rpUpdate mv u n p)
    (hop3 : ∀ u, op ≠ .rpDelete u) : Frame db.gcore (step cfg db op).1.gcore := by
  cases op with
  | rpCreate mv u n p => exact absurd rfl (hop mv u n p)
  | rpUpdate mv u n p => exact absurd rfl (hop2 mv u n p)
  | rpDelete u => exact absurd rfl (hop3 u)
  | invSet mv u g is => exact hInvSet_frame hI mv u g is
  | invAdd mv u i => exact hInvAdd_frame hI mv u i
  | invUpdate mv u g i => exact hInvUpdate_frame hI mv u g i
  | invDelete u rc => exact hInvDelete_frame hI u rc
  | invDeleteAll mv u => exact hInvDeleteAll_frame hI mv u
  | traitPut n => exact hTraitPut_frame hI n
  | traitDelete n => exact hTraitDelete_frame hI n
  | rpTraitsSet u g ts => exact hRpTraitsSet_frame hI u g ts
  | rpTraitsDelete u => exact hRpTraitsDelete_frame hI u
  | rcPost n => exact hRcPost_frame hI n
  | rcPut n => exact hRcPut_frame hI n
  | rcRename o n => exact hRcRename_frame hI o n
  | rcDelete n => exact hRcDelete_frame hI n
  | aggsSet mv u g as => exact hAggsSet_frame hI mv u g as
  | allocPut mv c => exact hAllocPut_frame hI cfg mv c
  | allocPost mv cs => exact hAllocPost_frame hI cfg mv cs
  | allocDelete c => exact hAllocDelete_frame hI c
  | reshape mv invs cs => exact hReshape_frame hI cfg mv invs cs

end Placement.Gens
