import Placement.Model.Handlers
/-
  Acceptance direction of `_set_allocations`: sufficient conditions under which the model of
  `PUT /allocations/{consumer}` answers 204 (used by `Props/C02.lean`, `candidate_accepted`).
  (`Lemmas/Alloc.lean` has the converse direction: what an accepted write implies.)
-/
namespace Placement.Accept

variable {R : Type}

/-! ### class names -/

theorem resolveAllocRcs_eq_ok (db : DB R) (f : AllocReq → Nat) : ∀ (objs : List AllocReq),
    (∀ a ∈ objs, db.rcId a.rcName = some (f a)) →
    resolveAllocRcs db objs = .ok (objs.map (fun a => (a.rpId, f a, a.used)))
  | [], _ => rfl
  | a :: as, h => by
    unfold resolveAllocRcs
    rw [h a List.mem_cons_self]
    simp only
    rw [resolveAllocRcs_eq_ok db f as (fun x hx => h x (List.mem_cons_of_mem _ hx))]
    rfl

/-! ### generations -/

theorem firstByKey_subset : ∀ (l : List (Nat × Nat)) (p : Nat × Nat), p ∈ firstByKey l → p ∈ l
  | [], p, h => by cases h
  | (k, v) :: rest, p, h => by
    simp only [firstByKey, List.mem_cons, List.mem_filter] at h
    rcases h with h | h
    · exact List.mem_cons.mpr (Or.inl h)
    · exact List.mem_cons_of_mem _ (firstByKey_subset rest p h.1)

theorem firstByKey_nodup : ∀ l : List (Nat × Nat), ((firstByKey l).map (·.1)).Nodup
  | [] => by simp [firstByKey]
  | (k, v) :: rest => by
    simp only [firstByKey, List.map_cons, List.nodup_cons, List.mem_map, List.mem_filter]
    constructor
    · rintro ⟨p, ⟨_, hp⟩, hk⟩
      simp [hk] at hp
    · have := firstByKey_nodup rest
      exact (List.filter_sublist.map _).nodup this

theorem mem_setRp {db : DB R} {id : Nat} {f : RpRow → RpRow} {r : RpRow} (hr : r ∈ db.rps) (hne : r.id ≠ id) :
    r ∈ (db.setRp id f).rps := by
  simp only [DB.setRp, List.mem_map]
  refine ⟨r, hr, ?_⟩
  have : (r.id == id) = false := by simpa using hne
  simp [this]

theorem incRpGens_ok : ∀ (l : List (Nat × Nat)) (db : DB R), (l.map (·.1)).Nodup →
    (∀ p ∈ l, ∃ r ∈ db.rps, r.id = p.1 ∧ r.gen = p.2) →
    ∃ db', incRpGens db l = .ok db' ∧ db'.consumers = db.consumers
  | [], db, _, _ => ⟨db, rfl, rfl⟩
  | (id, gen) :: rest, db, hn, h => by
    rw [List.map_cons, List.nodup_cons] at hn
    obtain ⟨r, hr, hid, hgen⟩ := h (id, gen) List.mem_cons_self
    have hfind : ∃ x, db.rps.find? (fun r => r.id == id && r.gen == gen) = some x := by
      cases hf : db.rps.find? (fun r => r.id == id && r.gen == gen) with
      | some x => exact ⟨x, rfl⟩
      | none =>
        have := List.find?_eq_none.mp hf r hr
        simp at hid hgen
        simp [hid, hgen] at this
    obtain ⟨x, hx⟩ := hfind
    have h1 : incRpGen db id gen = .ok (db.setRp id (fun r => { r with gen := gen + 1 })) := by
      unfold incRpGen; rw [hx]
    have hrest : ∀ p ∈ rest, ∃ r ∈ (db.setRp id (fun r => { r with gen := gen + 1 })).rps, r.id = p.1 ∧ r.gen = p.2 := by
      intro p hp
      obtain ⟨r', hr', hid', hgen'⟩ := h p (List.mem_cons_of_mem _ hp)
      have hne : r'.id ≠ id := by
        intro e
        apply hn.1
        simp only [List.mem_map]
        exact ⟨p, hp, by rw [← hid', e]⟩
      exact ⟨r', mem_setRp hr' hne, hid', hgen'⟩
    obtain ⟨db', h2, hc⟩ := incRpGens_ok rest _ hn.2 hrest
    refine ⟨db', ?_, by rw [hc]; rfl⟩
    unfold incRpGens
    rw [h1]
    exact h2

theorem incConsGens_ok : ∀ (l : List (Nat × Nat)) (db : DB R), (l.map (·.1)).Nodup →
    (∀ p ∈ l, ∃ c ∈ db.consumers, c.id = p.1 ∧ c.gen = p.2) →
    ∃ db', incConsGens db l = .ok db'
  | [], db, _, _ => ⟨db, rfl⟩
  | (id, gen) :: rest, db, hn, h => by
    rw [List.map_cons, List.nodup_cons] at hn
    obtain ⟨c, hc, hid, hgen⟩ := h (id, gen) List.mem_cons_self
    have hfind : ∃ x, db.consumers.find? (fun c => c.id == id && c.gen == gen) = some x := by
      cases hf : db.consumers.find? (fun c => c.id == id && c.gen == gen) with
      | some x => exact ⟨x, rfl⟩
      | none =>
        have := List.find?_eq_none.mp hf c hc
        simp at hid hgen
        simp [hid, hgen] at this
    obtain ⟨x, hx⟩ := hfind
    let db1 : DB R := { db with consumers := db.consumers.map (fun c => if c.id == id then { c with gen := gen + 1 } else c) }
    have h1 : incConsGen db id gen = .ok db1 := by
      unfold incConsGen; rw [hx]
    have hrest : ∀ p ∈ rest, ∃ c ∈ db1.consumers, c.id = p.1 ∧ c.gen = p.2 := by
      intro p hp
      obtain ⟨c', hc', hid', hgen'⟩ := h p (List.mem_cons_of_mem _ hp)
      have hne : (c'.id == id) = false := by
        rw [beq_eq_false_iff_ne]
        intro e
        apply hn.1
        simp only [List.mem_map]
        exact ⟨p, hp, by rw [← hid', e]⟩
      refine ⟨c', ?_, hid', hgen'⟩
      simp only [db1, List.mem_map]
      exact ⟨c', hc', by simp [hne]⟩
    obtain ⟨db', h2⟩ := incConsGens_ok rest db1 hn.2 hrest
    refine ⟨db', ?_⟩
    unfold incConsGens
    rw [h1]
    exact h2

/-! ### the capacity loop -/

variable [CapOps R]

/-- one resolved allocation fits: its inventory exists, unit constraints hold, capacity is not exceeded -/
def Fits (db : DB R) (t : Nat × Nat × Int) : Prop :=
  ∃ i, db.invOf t.1 t.2.1 = some i ∧ t.2.2 ≠ 0 ∧ unitViolated i t.2.2 = false ∧
    CapOps.capLt (i.total - i.reserved) i.ratio (db.usage t.1 t.2.1 + t.2.2) = false

theorem checkLoop_ok (db : DB R) : ∀ (rest seen : List (Nat × Nat × Int)),
    ((seen ++ rest).map (fun t => (t.1, t.2.1))).Nodup → (∀ t ∈ rest, Fits db t) → checkLoop db seen rest = .ok ()
  | [], _, _, _ => rfl
  | (rp, rc, amount) :: rest, seen, hn, h => by
    obtain ⟨i, hinv, hne, hunit, hcap⟩ := h (rp, rc, amount) List.mem_cons_self
    have hnext : checkLoop db (seen ++ [(rp, rc, amount)]) rest = .ok () := by
      apply checkLoop_ok db rest
      · simpa [List.append_assoc] using hn
      · intro t ht; exact h t (List.mem_cons_of_mem _ ht)
    unfold checkLoop
    have h0 : (amount == 0) = false := by simpa using hne
    simp only [h0, Bool.false_eq_true, if_false]
    simp only at hinv
    rw [hinv]
    simp only
    have hseen : seen.filter (fun s => s.1 == rp && s.2.1 == rc) = [] := by
      rw [List.filter_eq_nil_iff]
      intro s hs hk
      simp only [Bool.and_eq_true, beq_iff_eq] at hk
      rw [List.map_append, List.nodup_append] at hn
      have h1 : (s.1, s.2.1) ∈ seen.map (fun t => (t.1, t.2.1)) := List.mem_map_of_mem hs
      have h2 : (rp, rc) ∈ ((rp, rc, amount) :: rest).map (fun t => (t.1, t.2.1)) := by simp
      exact hn.2.2 _ h1 _ h2 (by rw [hk.1, hk.2])
    rw [hseen]
    simp only [List.map_nil, List.sum_nil, Int.zero_add]
    rw [hunit]
    simp only [Bool.false_eq_true, if_false]
    have : capacityExceeded i (db.usage rp rc) amount amount = false := by
      simp only [capacityExceeded, Bool.or_eq_false_iff]
      exact ⟨hcap, hcap⟩
    rw [this]
    simp only [Bool.false_eq_true, if_false]
    exact hnext

omit [CapOps R] in
theorem invOf_mem {db : DB R} {rp rc : Nat} {i : InvRow R} (h : db.invOf rp rc = some i) :
    i ∈ db.invs ∧ i.rp = rp ∧ i.rc = rc := by
  unfold DB.invOf at h
  have h1 := List.find?_some h
  simp only [Bool.and_eq_true, beq_iff_eq] at h1
  exact ⟨List.mem_of_find?_eq_some h, h1.1, h1.2⟩

theorem checkCapacity_accepts (db : DB R) (objs : List AllocReq) (f : AllocReq → Nat)
    (hrc : ∀ a ∈ objs, db.rcId a.rcName = some (f a))
    (hkeys : (objs.map (fun a => (a.rpId, f a))).Nodup)
    (hfit : ∀ a ∈ objs, Fits db (a.rpId, f a, a.used))
    (hrp : ∀ a ∈ objs, ∃ r ∈ db.rps, r.id = a.rpId) :
    checkCapacity db objs = .ok () := by
  unfold checkCapacity
  rw [resolveAllocRcs_eq_ok db f objs hrc]
  simp only [bind, Except.bind]
  have hpre : (objs.map (fun a => (a.rpId, f a, a.used))).any (fun a =>
      !(db.invs.any (fun i => i.rp == a.1 && ((objs.map (fun a => (a.rpId, f a, a.used))).map (·.2.1)).contains i.rc)
        && db.rps.any (·.id == a.1))) = false := by
    rw [← Bool.not_eq_true, List.any_eq_true]
    rintro ⟨t, ht, hbad⟩
    obtain ⟨a, ha, rfl⟩ := List.mem_map.mp ht
    obtain ⟨i, hinv, _, _, _⟩ := hfit a ha
    obtain ⟨him, hirp, hirc⟩ := invOf_mem hinv
    obtain ⟨r, hr, hrid⟩ := hrp a ha
    have h1 : db.invs.any (fun i => i.rp == a.rpId &&
        ((objs.map (fun a => (a.rpId, f a, a.used))).map (·.2.1)).contains i.rc) = true := by
      rw [List.any_eq_true]
      refine ⟨i, him, ?_⟩
      simp only [Bool.and_eq_true, beq_iff_eq, List.contains_iff_mem, List.mem_map]
      exact ⟨hirp, ⟨(a.rpId, f a, a.used), ⟨a, ha, rfl⟩, hirc.symm⟩⟩
    have h2 : db.rps.any (·.id == a.rpId) = true := by
      rw [List.any_eq_true]; exact ⟨r, hr, by simpa using hrid⟩
    simp only at hbad
    rw [h1, h2] at hbad
    simp at hbad
  rw [hpre]
  simp only [Bool.false_eq_true, if_false]
  apply checkLoop_ok
  · simpa [List.map_map, Function.comp_def] using hkeys
  · intro t ht
    obtain ⟨a, ha, rfl⟩ := List.mem_map.mp ht
    exact hfit a ha

/-- `_set_allocations` accepts a request none of whose consumers holds allocations yet, whose (provider, class)
keys are distinct and fit, and whose provider / consumer generations are the stored ones -/
theorem setAllocations_accepts (db : DB R) (objs : List AllocReq) (f : AllocReq → Nat)
    (hrc : ∀ a ∈ objs, db.rcId a.rcName = some (f a))
    (hcons : ∀ a ∈ db.allocs, ∀ o ∈ objs, a.consumer ≠ o.consUuid)
    (hkeys : (objs.map (fun a => (a.rpId, f a))).Nodup)
    (hfit : ∀ a ∈ objs, Fits db (a.rpId, f a, a.used))
    (hrp : ∀ a ∈ objs, ∃ r ∈ db.rps, r.id = a.rpId ∧ r.gen = a.rpGen)
    (hcs : ∀ a ∈ objs, ∃ c ∈ db.consumers, c.id = a.consId ∧ c.gen = a.consGen) :
    ∃ db', setAllocations db objs = .ok db' := by
  have hfil : db.allocs.filter (fun a => !(objs.map (·.consUuid)).contains a.consumer) = db.allocs := by
    rw [List.filter_eq_self]
    intro a ha
    rw [Bool.not_eq_true', ← Bool.not_eq_true, List.contains_iff_mem, List.mem_map]
    rintro ⟨o, ho, he⟩
    exact hcons a ha o ho he.symm
  unfold setAllocations
  simp only [hfil]
  rw [checkCapacity_accepts db objs f hrc hkeys hfit (fun a ha => by
    obtain ⟨r, hr, hid, _⟩ := hrp a ha; exact ⟨r, hr, hid⟩)]
  rw [resolveAllocRcs_eq_ok db f objs hrc]
  simp only [bind, Except.bind, pure, Except.pure]
  generalize hrows : List.filterMap _ (objs.zip _) = rows
  obtain ⟨db3, h3, hc3⟩ := incRpGens_ok (firstByKey (objs.map (fun a => (a.rpId, a.rpGen))))
    ({ db with allocs := db.allocs ++ rows } : DB R) (firstByKey_nodup _) (by
      intro p hp
      obtain ⟨a, ha, rfl⟩ := List.mem_map.mp (firstByKey_subset _ _ hp)
      exact hrp a ha)
  rw [h3]
  simp only
  obtain ⟨db4, h4⟩ := incConsGens_ok (firstByKey (objs.map (fun a => (a.consId, a.consGen)))) db3
    (firstByKey_nodup _) (by
      intro p hp
      obtain ⟨a, ha, rfl⟩ := List.mem_map.mp (firstByKey_subset _ _ hp)
      rw [hc3]
      exact hcs a ha)
  rw [h4]
  exact ⟨_, rfl⟩

end Placement.Accept
