import Placement.Lemmas.CoreSide
/-
  C11, history theorem, part 2: the handlers that do not touch the consumer-side columns commute with
  replacing those columns.
-/
namespace Placement.Core
variable {R : Type} [CapOps R]
set_option linter.unusedSimpArgs false
set_option linter.unusedSectionVars false

/-- the result of a handler with the consumer-side columns replaced -/
def sideRes (s : Side) (x : DB R × Resp) : DB R × Resp := (putSide s x.1, x.2)

theorem hRpCreate_side (s : Side) (db : DB R) (mv u n : Nat) (p : Option Nat) :
    hRpCreate (putSide s db) mv u n p = sideRes s (hRpCreate db mv u n p) := by
  unfold hRpCreate
  simp only [createProvider_side]
  split
  · rfl
  · cases createProvider db u n p with
    | ok x => rfl
    | error e => cases e <;> rfl

theorem hRpUpdate_side (s : Side) (db : DB R) (mv u n : Nat) (p : Option (Option Nat)) :
    hRpUpdate (putSide s db) mv u n p = sideRes s (hRpUpdate db mv u n p) := by
  unfold hRpUpdate
  simp only [putSide_rpByUuid, putSide_rpById, updateProvider_side]
  cases db.rpByUuid u with
  | none => rfl
  | some me =>
    simp only []
    split
    · rfl
    · cases updateProvider db me.id n _ _ with
      | ok x => rfl
      | error e => cases e <;> rfl

theorem hRpDelete_side (s : Side) (db : DB R) (u : Nat) :
    hRpDelete (putSide s db) u = sideRes s (hRpDelete db u) := by
  unfold hRpDelete
  simp only [putSide_rpByUuid, deleteProvider_side]
  cases db.rpByUuid u with
  | none => rfl
  | some me =>
    simp only []
    cases deleteProvider db me.id with
    | ok x => rfl
    | error e => cases e <;> rfl

theorem hInvSet_side (s : Side) (db : DB R) (mv u g : Nat) (is : List (InvSpec R)) :
    hInvSet (putSide s db) mv u g is = sideRes s (hInvSet db mv u g is) := by
  unfold hInvSet
  simp only [putSide_rpByUuid, setInventory_side]
  cases db.rpByUuid u with
  | none => rfl
  | some rp =>
    simp only []
    split
    · rfl
    · split
      · rfl
      · cases setInventory db rp.id rp.gen is with
        | ok x => rfl
        | error e => cases e <;> rfl

theorem hInvAdd_side (s : Side) (db : DB R) (mv u : Nat) (i : InvSpec R) :
    hInvAdd (putSide s db) mv u i = sideRes s (hInvAdd db mv u i) := by
  unfold hInvAdd
  simp only [putSide_rpByUuid, addInventory_side]
  cases db.rpByUuid u with
  | none => rfl
  | some rp =>
    simp only []
    split
    · rfl
    · cases addInventory db rp.id rp.gen i with
      | ok x => rfl
      | error e => cases e <;> rfl

theorem hInvUpdate_side (s : Side) (db : DB R) (mv u g : Nat) (i : InvSpec R) :
    hInvUpdate (putSide s db) mv u g i = sideRes s (hInvUpdate db mv u g i) := by
  unfold hInvUpdate
  simp only [putSide_rpByUuid, updateInventory_side]
  cases db.rpByUuid u with
  | none => rfl
  | some rp =>
    simp only []
    split
    · rfl
    · split
      · rfl
      · cases updateInventory db rp.id rp.gen i with
        | ok x => rfl
        | error e => cases e <;> rfl

theorem hInvDelete_side (s : Side) (db : DB R) (u rc : Nat) :
    hInvDelete (putSide s db) u rc = sideRes s (hInvDelete db u rc) := by
  unfold hInvDelete
  simp only [putSide_rpByUuid, deleteInventory_side]
  cases db.rpByUuid u with
  | none => rfl
  | some rp =>
    simp only []
    cases deleteInventory db rp.id rp.gen rc with
    | ok x => rfl
    | error e => cases e <;> rfl

theorem hInvDeleteAll_side (s : Side) (db : DB R) (mv u : Nat) :
    hInvDeleteAll (putSide s db) mv u = sideRes s (hInvDeleteAll db mv u) := by
  unfold hInvDeleteAll
  simp only [putSide_rpByUuid, setInventory_side]
  split
  · rfl
  · cases db.rpByUuid u with
    | none => rfl
    | some rp =>
      simp only []
      cases setInventory db rp.id rp.gen [] with
      | ok x => rfl
      | error e => cases e <;> rfl

theorem hTraitPut_side (s : Side) (db : DB R) (n : Nat) :
    hTraitPut (putSide s db) n = sideRes s (hTraitPut db n) := by
  unfold hTraitPut
  simp only [putSide_traits, createTrait_side]
  split
  · rfl
  · split
    · rfl
    · cases createTrait db n with
      | ok x => rfl
      | error e => rfl

theorem hTraitDelete_side (s : Side) (db : DB R) (n : Nat) :
    hTraitDelete (putSide s db) n = sideRes s (hTraitDelete db n) := by
  unfold hTraitDelete
  simp only [putSide_traits, deleteTrait_side]
  split
  · rfl
  · cases deleteTrait db n with
    | ok x => rfl
    | error e => cases e <;> rfl

theorem hRpTraitsSet_side (s : Side) (db : DB R) (u g : Nat) (ts : List Nat) :
    hRpTraitsSet (putSide s db) u g ts = sideRes s (hRpTraitsSet db u g ts) := by
  unfold hRpTraitsSet
  simp only [putSide_rpByUuid, putSide_traits, setTraits_side]
  cases db.rpByUuid u with
  | none => rfl
  | some rp =>
    simp only []
    split
    · rfl
    · split
      · rfl
      · cases setTraits db rp.id rp.gen ts with
        | ok x => rfl
        | error e => cases e <;> rfl

theorem hRpTraitsDelete_side (s : Side) (db : DB R) (u : Nat) :
    hRpTraitsDelete (putSide s db) u = sideRes s (hRpTraitsDelete db u) := by
  unfold hRpTraitsDelete
  simp only [putSide_rpByUuid, setTraits_side]
  cases db.rpByUuid u with
  | none => rfl
  | some rp =>
    simp only []
    cases setTraits db rp.id rp.gen [] with
    | ok x => rfl
    | error e => cases e <;> rfl

theorem hRcPost_side (s : Side) (db : DB R) (n : Nat) :
    hRcPost (putSide s db) n = sideRes s (hRcPost db n) := by
  unfold hRcPost
  simp only [createRc_side]
  split
  · rfl
  · cases createRc db n with
    | ok x => rfl
    | error e => cases e <;> rfl

theorem hRcPut_side (s : Side) (db : DB R) (n : Nat) :
    hRcPut (putSide s db) n = sideRes s (hRcPut db n) := by
  unfold hRcPut
  simp only [putSide_rcId, createRc_side]
  split
  · rfl
  · split
    · rfl
    · cases createRc db n with
      | ok x => rfl
      | error e => cases e <;> rfl

theorem hRcRename_side (s : Side) (db : DB R) (o n : Nat) :
    hRcRename (putSide s db) o n = sideRes s (hRcRename db o n) := by
  unfold hRcRename
  simp only [putSide_rcId, renameRc_side]
  split
  · rfl
  · cases db.rcId o with
    | none => rfl
    | some id =>
      simp only []
      cases renameRc db id n with
      | ok x => rfl
      | error e => cases e <;> rfl

theorem hRcDelete_side (s : Side) (db : DB R) (n : Nat) :
    hRcDelete (putSide s db) n = sideRes s (hRcDelete db n) := by
  unfold hRcDelete
  simp only [putSide_rcId, deleteRc_side]
  cases db.rcId n with
  | none => rfl
  | some id =>
    simp only []
    cases deleteRc db id with
    | ok x => rfl
    | error e => cases e <;> rfl

theorem hAggsSet_side (s : Side) (db : DB R) (mv u : Nat) (g : Option Nat) (as : List Nat) :
    hAggsSet (putSide s db) mv u g as = sideRes s (hAggsSet db mv u g as) := by
  unfold hAggsSet
  simp only [putSide_rpByUuid, setAggregates_side]
  split
  · rfl
  · cases db.rpByUuid u with
    | none => rfl
    | some rp =>
      simp only []
      split
      · rfl
      · cases setAggregates db rp.id rp.gen as _ with
        | ok x => rfl
        | error e => cases e <;> rfl

end Placement.Core
