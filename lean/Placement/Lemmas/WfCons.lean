import Placement.Lemmas.WfAlloc
/-
  The consumer helpers of the allocation handlers: `ensure_consumer`, `update_consumers`,
  `inspect_consumers`, the allocation objects built from a request.
-/
namespace Placement.Wf
variable {R : Type}

/-! ### `ensure_consumer` in closed form -/

def reqProject (cfg : Config) (c : ConsumerReq) : Nat := c.project.getD cfg.incompleteProject
def reqUser (cfg : Config) (c : ConsumerReq) : Nat :=
  if c.project.isNone then cfg.incompleteUser else c.user.getD cfg.incompleteUser
def reqType (mv : Nat) (c : ConsumerReq) : Option Nat := if mv ≥ 38 then c.ctype else none

def reqAttr (cfg : Config) (mv : Nat) (c : ConsumerReq) : ReqAttr :=
  { project := reqProject cfg c, user := reqUser cfg c, ctype := reqType mv c }

/-- the state after the project / user get-or-create transactions -/
def withPU (cfg : Config) (db : DB R) (c : ConsumerReq) : DB R :=
  { db with projects := addIfMissing db.projects (reqProject cfg c),
            users := addIfMissing db.users (reqUser cfg c) }

/-- ... and after the consumer-type get-or-create -/
def withPUT (cfg : Config) (db : DB R) (mv : Nat) (c : ConsumerReq) : DB R :=
  { withPU cfg db c with
    ctypes := match reqType mv c with
      | some t => addIfMissing db.ctypes t
      | none => db.ctypes }

def newConsRow (cfg : Config) (db : DB R) (mv : Nat) (c : ConsumerReq) : ConsRow :=
  { id := db.nextCons, uuid := c.uuid, project := reqProject cfg c, user := reqUser cfg c,
    ctype := reqType mv c, gen := 0 }

theorem ensureConsumer_eq (cfg : Config) (db : DB R) (mv : Nat) (c : ConsumerReq) :
    ensureConsumer cfg db mv c =
      match db.consByUuid c.uuid with
      | some cons =>
        if mv ≥ 28 && some cons.gen != c.gen then (withPU cfg db c, .error (r409 .concurrentUpdate))
        else (withPUT cfg db mv c, .ok (cons, false, reqAttr cfg mv c))
      | none =>
        if mv ≥ 28 && c.gen.isSome then (withPU cfg db c, .error (r409 .concurrentUpdate))
        else ({ withPUT cfg db mv c with
                  consumers := db.consumers ++ [newConsRow cfg db mv c], nextCons := db.nextCons + 1 },
              .ok (newConsRow cfg db mv c, true, reqAttr cfg mv c)) := by
  unfold ensureConsumer
  dsimp only
  have hc : ∀ (p u : List Nat), ({ db with projects := p, users := u } : DB R).consByUuid c.uuid
            = db.consByUuid c.uuid := fun _ _ => rfl
  rw [hc]
  cases hcons : db.consByUuid c.uuid with
  | some cons =>
    dsimp only
    split
    · rfl
    · by_cases h38 : mv ≥ 38
      · cases ht : c.ctype <;> simp [h38, ht, withPUT, withPU, reqAttr, reqType, reqProject, reqUser]
      · simp [h38, withPUT, withPU, reqAttr, reqType, reqProject, reqUser]
  | none =>
    dsimp only
    split
    · rfl
    · by_cases h38 : mv ≥ 38
      · cases ht : c.ctype <;>
          simp [h38, ht, withPUT, withPU, reqAttr, reqType, reqProject, reqUser, newConsRow]
      · simp [h38, withPUT, withPU, reqAttr, reqType, reqProject, reqUser, newConsRow]

theorem mem_addIfMissing_of_mem {l : List Nat} {x y : Nat} (h : y ∈ l) : y ∈ addIfMissing l x := by
  unfold addIfMissing; split
  · exact h
  · exact List.mem_append_left _ h

theorem mem_addIfMissing_self (l : List Nat) (x : Nat) : x ∈ addIfMissing l x := by
  unfold addIfMissing; split
  · next h => simpa using h
  · simp

theorem uniqC_withPU {cfg : Config} {db : DB R} {c : ConsumerReq} (h : UniqC db) : UniqC (withPU cfg db c) :=
  { h with }

theorem uniqC_withPUT {cfg : Config} {db : DB R} {mv : Nat} {c : ConsumerReq} (h : UniqC db) :
    UniqC (withPUT cfg db mv c) := { h with }

theorem ri_withPU {cfg : Config} {db : DB R} {c : ConsumerReq} (h : RI db) : RI (withPU cfg db c) :=
  { h with
    consProject := fun x hx => mem_addIfMissing_of_mem (h.consProject x hx)
    consUser := fun x hx => mem_addIfMissing_of_mem (h.consUser x hx) }

theorem ctypes_withPUT_mono {cfg : Config} {db : DB R} {mv : Nat} {c : ConsumerReq} {t : Nat}
    (h : t ∈ db.ctypes) : t ∈ (withPUT cfg db mv c).ctypes := by
  show t ∈ (match reqType mv c with | some t => addIfMissing db.ctypes t | none => db.ctypes)
  split
  · exact mem_addIfMissing_of_mem h
  · exact h

theorem reqType_mem_withPUT {cfg : Config} {db : DB R} {mv : Nat} {c : ConsumerReq} {t : Nat}
    (h : reqType mv c = some t) : t ∈ (withPUT cfg db mv c).ctypes := by
  show t ∈ (match reqType mv c with | some t => addIfMissing db.ctypes t | none => db.ctypes)
  rw [h]
  exact mem_addIfMissing_self _ _

theorem ri_withPUT {cfg : Config} {db : DB R} {mv : Nat} {c : ConsumerReq} (h : RI db) :
    RI (withPUT cfg db mv c) :=
  { h with
    consProject := fun x hx => mem_addIfMissing_of_mem (h.consProject x hx)
    consUser := fun x hx => mem_addIfMissing_of_mem (h.consUser x hx)
    consType := fun x hx t ht => ctypes_withPUT_mono (h.consType x hx t ht) }

/-- the three outcomes of `ensure_consumer` -/
inductive EnsureCase (cfg : Config) (db : DB R) (mv : Nat) (c : ConsumerReq) :
    DB R → Except Resp (ConsRow × Bool × ReqAttr) → Prop
  | rejected : EnsureCase cfg db mv c (withPU cfg db c) (.error (r409 .concurrentUpdate))
  | found (cons : ConsRow) (h : db.consByUuid c.uuid = some cons) :
      EnsureCase cfg db mv c (withPUT cfg db mv c) (.ok (cons, false, reqAttr cfg mv c))
  | created (h : db.consByUuid c.uuid = none) (hg : ¬ (mv ≥ 28 ∧ c.gen.isSome)) :
      EnsureCase cfg db mv c
        { withPUT cfg db mv c with
            consumers := db.consumers ++ [newConsRow cfg db mv c], nextCons := db.nextCons + 1 }
        (.ok (newConsRow cfg db mv c, true, reqAttr cfg mv c))

theorem ensureConsumer_cases {cfg : Config} {db : DB R} {mv : Nat} {c : ConsumerReq} {d : DB R}
    {res : Except Resp (ConsRow × Bool × ReqAttr)} (hE : ensureConsumer cfg db mv c = (d, res)) :
    EnsureCase cfg db mv c d res := by
  rw [ensureConsumer_eq] at hE
  have e1 : d = (d, res).1 := rfl
  have e2 : res = (d, res).2 := rfl
  rw [e1, e2, ← hE]
  clear e1 e2 hE
  cases hc : db.consByUuid c.uuid with
  | some cons =>
    dsimp only
    split
    · exact .rejected
    · exact .found cons hc
  | none =>
    dsimp only
    split
    · exact .rejected
    · next hg => exact .created hc (by simpa using hg)

/-- the state with a freshly created consumer row -/
theorem uniqC_newCons {cfg : Config} {db : DB R} {mv : Nat} {c : ConsumerReq} (h : UniqC db)
    (hn : db.consByUuid c.uuid = none) :
    UniqC { withPUT cfg db mv c with
            consumers := db.consumers ++ [newConsRow cfg db mv c], nextCons := db.nextCons + 1 } :=
  { h with
    consId := by
      show ((db.consumers ++ [newConsRow cfg db mv c]).map (·.id)).Nodup
      rw [L.nodup_map_snoc]
      exact ⟨h.consId, fun a ha => by have := h.freshCons a ha; simp [newConsRow]; omega⟩
    consUuid := by
      show ((db.consumers ++ [newConsRow cfg db mv c]).map (·.uuid)).Nodup
      rw [L.nodup_map_snoc]
      exact ⟨h.consUuid, fun a ha => consByUuid_none hn a ha⟩
    freshCons := by
      intro x hx
      show x.id < db.nextCons + 1
      rcases List.mem_append.1 hx with hx | hx
      · have := h.freshCons x hx; omega
      · simp at hx; subst hx; simp [newConsRow] }

theorem ri_newCons {cfg : Config} {db : DB R} {mv : Nat} {c : ConsumerReq} (h : RI db) :
    RI { withPUT cfg db mv c with
            consumers := db.consumers ++ [newConsRow cfg db mv c], nextCons := db.nextCons + 1 } := by
  have h' : RI (withPUT cfg db mv c) := ri_withPUT h
  exact { h' with
    allocCons := by
      intro a ha
      obtain ⟨x, hx, e⟩ := h.allocCons a ha
      exact ⟨x, List.mem_append_left _ hx, e⟩
    consProject := by
      intro x hx
      rcases List.mem_append.1 hx with hx | hx
      · exact h'.consProject x hx
      · simp at hx; subst hx; exact mem_addIfMissing_self _ _
    consUser := by
      intro x hx
      rcases List.mem_append.1 hx with hx | hx
      · exact h'.consUser x hx
      · simp at hx; subst hx; exact mem_addIfMissing_self _ _
    consType := by
      intro x hx t ht
      rcases List.mem_append.1 hx with hx | hx
      · exact h'.consType x hx t ht
      · simp at hx; subst hx; exact reqType_mem_withPUT (cfg := cfg) ht }

theorem uniqC_ensureConsumer {cfg : Config} {db : DB R} {mv : Nat} {c : ConsumerReq} (h : UniqC db) :
    UniqC (ensureConsumer cfg db mv c).1 := by
  generalize hE : ensureConsumer cfg db mv c = p
  obtain ⟨d, res⟩ := p
  cases ensureConsumer_cases hE with
  | rejected => exact uniqC_withPU h
  | found cons hc => exact uniqC_withPUT h
  | created hn _ => exact uniqC_newCons h hn

theorem ri_ensureConsumer {cfg : Config} {db : DB R} {mv : Nat} {c : ConsumerReq} (h : RI db) :
    RI (ensureConsumer cfg db mv c).1 := by
  generalize hE : ensureConsumer cfg db mv c = p
  obtain ⟨d, res⟩ := p
  cases ensureConsumer_cases hE with
  | rejected => exact ri_withPU h
  | found cons hc => exact ri_withPUT h
  | created hn _ => exact ri_newCons h


/-! ### `update_consumers` -/

def updRow (cons : ConsRow) (p u : Nat) (t : Option Nat) (c : ConsRow) : ConsRow :=
  if c.id == cons.id && c.gen == cons.gen then { c with project := p, user := u, ctype := t } else c

def updCons (db : DB R) (cons : ConsRow) (p u : Nat) (t : Option Nat) : DB R :=
  { db with consumers := db.consumers.map (updRow cons p u t) }

theorem updateConsumer_eq (db : DB R) (cons : ConsRow) (a : ReqAttr) :
    updateConsumer db cons a =
      (match a.ctype with
       | some t =>
         if some t != cons.ctype then
           updCons (if a.project != cons.project || a.user != cons.user
                    then updCons db cons a.project a.user cons.ctype else db) cons a.project a.user (some t)
         else (if a.project != cons.project || a.user != cons.user
               then updCons db cons a.project a.user cons.ctype else db)
       | none => (if a.project != cons.project || a.user != cons.user
                  then updCons db cons a.project a.user cons.ctype else db)) := rfl

@[simp] theorem updRow_id (cons : ConsRow) (p u : Nat) (t : Option Nat) (c : ConsRow) :
    (updRow cons p u t c).id = c.id := by unfold updRow; split <;> rfl
@[simp] theorem updRow_uuid (cons : ConsRow) (p u : Nat) (t : Option Nat) (c : ConsRow) :
    (updRow cons p u t c).uuid = c.uuid := by unfold updRow; split <;> rfl
@[simp] theorem updRow_gen (cons : ConsRow) (p u : Nat) (t : Option Nat) (c : ConsRow) :
    (updRow cons p u t c).gen = c.gen := by unfold updRow; split <;> rfl

/-- a consumers-only change that keeps id, uuid and generation of every row -/
def ConsMap (db db' : DB R) : Prop :=
  ∃ g : ConsRow → ConsRow, db' = { db with consumers := db.consumers.map g } ∧
    ∀ c, (g c).id = c.id ∧ (g c).uuid = c.uuid ∧ (g c).gen = c.gen

theorem ConsMap.refl (db : DB R) : ConsMap db db := ⟨id, by simp, fun _ => ⟨rfl, rfl, rfl⟩⟩

theorem ConsMap.trans {a b c : DB R} (h1 : ConsMap a b) (h2 : ConsMap b c) : ConsMap a c := by
  obtain ⟨g1, rfl, hg1⟩ := h1
  obtain ⟨g2, rfl, hg2⟩ := h2
  refine ⟨g2 ∘ g1, by simp [List.map_map], ?_⟩
  intro x
  have := hg2 (g1 x); have := hg1 x
  simp only [Function.comp]; simp_all

theorem consMap_updCons (db : DB R) (cons : ConsRow) (p u : Nat) (t : Option Nat) :
    ConsMap db (updCons db cons p u t) := ⟨updRow cons p u t, rfl, fun c => by simp⟩

theorem consMap_updateConsumer (db : DB R) (cons : ConsRow) (a : ReqAttr) :
    ConsMap db (updateConsumer db cons a) := by
  rw [updateConsumer_eq]
  have h1 : ConsMap db (if a.project != cons.project || a.user != cons.user
               then updCons db cons a.project a.user cons.ctype else db) := by
    split
    · exact consMap_updCons _ _ _ _ _
    · exact ConsMap.refl db
  split
  · split
    · exact h1.trans (consMap_updCons _ _ _ _ _)
    · exact h1
  · exact h1

theorem consMap_updateConsumers : ∀ (db : DB R) (l : List (ConsumerReq × ConsRow × ReqAttr)),
    ConsMap db (updateConsumers db l)
  | db, [] => ConsMap.refl db
  | db, (_, cons, attr) :: rest => by
    unfold updateConsumers
    exact (consMap_updateConsumer db cons attr).trans (consMap_updateConsumers _ rest)

theorem ConsMap.uniqC {db db' : DB R} (h : ConsMap db db') (hU : UniqC db) : UniqC db' := by
  obtain ⟨g, rfl, hg⟩ := h
  exact hU.map_consumers g (fun c => (hg c).1) (fun c => (hg c).2.1)

theorem ri_updCons {db : DB R} (hR : RI db) (cons : ConsRow) {p u : Nat} {t : Option Nat}
    (hp : p ∈ db.projects) (hu : u ∈ db.users) (ht : ∀ x, t = some x → x ∈ db.ctypes) :
    RI (updCons db cons p u t) := by
  refine hR.map_consumers _ (fun c => by simp) ?_ ?_ ?_
  · intro c hc; unfold updRow; split
    · exact hp
    · exact hR.consProject c hc
  · intro c hc; unfold updRow; split
    · exact hu
    · exact hR.consUser c hc
  · intro c hc; unfold updRow; split
    · exact ht
    · exact hR.consType c hc

/-- what `update_consumers` needs of one (consumer row, requested attributes) pair -/
def AttrOK (db : DB R) (cons : ConsRow) (a : ReqAttr) : Prop :=
  a.project ∈ db.projects ∧ a.user ∈ db.users ∧ (∀ x, a.ctype = some x → x ∈ db.ctypes) ∧
    (∀ x, cons.ctype = some x → x ∈ db.ctypes)

theorem ConsMap.attrOK {db db' : DB R} (h : ConsMap db db') {cons : ConsRow} {a : ReqAttr}
    (ha : AttrOK db cons a) : AttrOK db' cons a := by
  obtain ⟨g, rfl, -⟩ := h; exact ha

theorem ri_updateConsumer {db : DB R} (hR : RI db) {cons : ConsRow} {a : ReqAttr} (ha : AttrOK db cons a) :
    RI (updateConsumer db cons a) := by
  obtain ⟨hp, hu, ht, hc⟩ := ha
  rw [updateConsumer_eq]
  have h1 : RI (if a.project != cons.project || a.user != cons.user
               then updCons db cons a.project a.user cons.ctype else db) := by
    split
    · exact ri_updCons hR cons hp hu hc
    · exact hR
  have hf : ∀ d : DB R, (if a.project != cons.project || a.user != cons.user
               then updCons db cons a.project a.user cons.ctype else db) = d →
      d.projects = db.projects ∧ d.users = db.users ∧ d.ctypes = db.ctypes := by
    intro d hd; subst hd; split <;> exact ⟨rfl, rfl, rfl⟩
  split
  · next t hta =>
    split
    · obtain ⟨e1, e2, e3⟩ := hf _ rfl
      refine ri_updCons h1 cons (by rw [e1]; exact hp) (by rw [e2]; exact hu) ?_
      intro x hx; rw [e3]; exact ht x (by rw [hta]; exact hx)
    · exact h1
  · exact h1

theorem ri_updateConsumers : ∀ {db : DB R} (l : List (ConsumerReq × ConsRow × ReqAttr)),
    RI db → (∀ t ∈ l, AttrOK db t.2.1 t.2.2) → RI (updateConsumers db l)
  | db, [], hR, _ => hR
  | db, (c, cons, attr) :: rest, hR, hl => by
    unfold updateConsumers
    refine ri_updateConsumers rest (ri_updateConsumer hR (hl _ (List.mem_cons_self))) ?_
    intro t ht
    exact (consMap_updateConsumer db cons attr).attrOK (hl t (List.mem_cons_of_mem _ ht))


/-! ### `inspect_consumers` -/

theorem AttrOK.mono {db db' : DB R} {cons : ConsRow} {a : ReqAttr} (h : AttrOK db cons a)
    (hp : ∀ x ∈ db.projects, x ∈ db'.projects) (hu : ∀ x ∈ db.users, x ∈ db'.users)
    (ht : ∀ x ∈ db.ctypes, x ∈ db'.ctypes) : AttrOK db' cons a :=
  ⟨hp _ h.1, hu _ h.2.1, fun x hx => ht _ (h.2.2.1 x hx), fun x hx => ht _ (h.2.2.2 x hx)⟩

/-- invariant of the `inspect_consumers` loop, relative to the state `db0` before the request:
`acc` are the (entry, consumer row, requested attributes) triples so far, `created` the ids of rows
created by this request -/
structure Insp (cfg : Config) (mv : Nat) (db0 db : DB R) (acc : List (ConsumerReq × ConsRow × ReqAttr))
    (created : List Nat) : Prop where
  uniq : UniqC db
  ri : RI db
  rps : db.rps = db0.rps
  invs : db.invs = db0.invs
  allocs : db.allocs = db0.allocs
  rcs : db.rcs = db0.rcs
  traits : db.traits = db0.traits
  rpTraits : db.rpTraits = db0.rpTraits
  aggs : db.aggs = db0.aggs
  rpAggs : db.rpAggs = db0.rpAggs
  nextRp : db.nextRp = db0.nextRp
  old : ∀ c ∈ db0.consumers, c ∈ db.consumers
  split : ∀ c ∈ db.consumers, (c ∈ db0.consumers ∧ c.id ∉ created) ∨
            (c.id ∈ created ∧ ∀ c0 ∈ db0.consumers, c0.uuid ≠ c.uuid)
  fromAcc : ∀ c ∈ db.consumers, c.id ∈ created → ∃ t ∈ acc, t.2.1 = c ∧
              c.project = t.2.2.project ∧ c.user = t.2.2.user ∧ c.ctype = t.2.2.ctype
  acc : ∀ t ∈ acc, t.2.1 ∈ db.consumers ∧ t.2.1.uuid = t.1.uuid ∧ AttrOK db t.2.1 t.2.2 ∧
          t.2.2 = reqAttr cfg mv t.1

theorem Insp.init {cfg : Config} {mv : Nat} {db : DB R} (hU : UniqC db) (hR : RI db) :
    Insp cfg mv db db [] [] :=
  { uniq := hU, ri := hR, rps := rfl, invs := rfl, allocs := rfl, rcs := rfl, traits := rfl, rpTraits := rfl,
    aggs := rfl, rpAggs := rfl, nextRp := rfl, old := fun _ h => h,
    split := fun c hc => Or.inl ⟨hc, by simp⟩, fromAcc := fun _ _ h => by simp at h,
    acc := fun _ h => by simp at h }

theorem attrOK_req {cfg : Config} {db : DB R} {mv : Nat} {c : ConsumerReq} {cons : ConsRow} (hR : RI db)
    (hc : cons ∈ db.consumers) : AttrOK (withPUT cfg db mv c) cons (reqAttr cfg mv c) :=
  ⟨mem_addIfMissing_self _ _, mem_addIfMissing_self _ _, fun _ hx => reqType_mem_withPUT hx,
   fun x hx => ctypes_withPUT_mono (hR.consType cons hc x hx)⟩

theorem Insp.step {cfg : Config} {mv : Nat} {db0 db db1 : DB R} {acc : List (ConsumerReq × ConsRow × ReqAttr)}
    {created : List Nat} {c : ConsumerReq} {res : Except Resp (ConsRow × Bool × ReqAttr)}
    (h : Insp cfg mv db0 db acc created) (hE : ensureConsumer cfg db mv c = (db1, res)) :
    match res with
    | .error _ => Insp cfg mv db0 db1 acc created
    | .ok (cons, isNew, attr) =>
        Insp cfg mv db0 db1 (acc ++ [(c, cons, attr)]) (if isNew then created ++ [cons.id] else created) := by
  cases ensureConsumer_cases hE with
  | rejected =>
    exact { h with
      uniq := uniqC_withPU h.uniq, ri := ri_withPU h.ri
      acc := fun t ht => by
        obtain ⟨h1, h2, h3, h4⟩ := h.acc t ht
        exact ⟨h1, h2, h3.mono (fun _ hx => mem_addIfMissing_of_mem hx) (fun _ hx => mem_addIfMissing_of_mem hx)
                 (fun _ hx => hx), h4⟩ }
  | found cons hc =>
    have hmem := (mem_of_consByUuid hc)
    exact { h with
      uniq := uniqC_withPUT h.uniq, ri := ri_withPUT h.ri
      fromAcc := fun x hx hi => by
        obtain ⟨t, ht, e⟩ := h.fromAcc x hx hi
        exact ⟨t, List.mem_append_left _ ht, e⟩
      acc := fun t ht => by
        rcases List.mem_append.1 ht with ht | ht
        · obtain ⟨h1, h2, h3, h4⟩ := h.acc t ht
          exact ⟨h1, h2, h3.mono (fun _ hx => mem_addIfMissing_of_mem hx) (fun _ hx => mem_addIfMissing_of_mem hx)
                 (fun _ hx => ctypes_withPUT_mono hx), h4⟩
        · simp at ht; subst ht
          exact ⟨hmem.1, hmem.2, attrOK_req h.ri hmem.1, rfl⟩ }
  | created hn _ =>
    have hid : (newConsRow cfg db mv c).id = db.nextCons := rfl
    exact { h with
      uniq := uniqC_newCons h.uniq hn, ri := ri_newCons h.ri
      old := fun x hx => List.mem_append_left _ (h.old x hx)
      split := fun x hx => by
        rcases List.mem_append.1 hx with hx | hx
        · have hlt := h.uniq.freshCons x hx
          rcases h.split x hx with ⟨h1, h2⟩ | ⟨h1, h2⟩
          · refine Or.inl ⟨h1, ?_⟩
            simp only [if_true, List.mem_append, List.mem_singleton, not_or]
            exact ⟨h2, by rw [hid]; omega⟩
          · exact Or.inr ⟨by simp [h1], h2⟩
        · simp at hx; subst hx
          refine Or.inr ⟨by simp, ?_⟩
          intro c0 hc0
          exact consByUuid_none hn c0 (h.old c0 hc0)
      fromAcc := fun x hx hi => by
        rcases List.mem_append.1 hx with hx | hx
        · have hlt := h.uniq.freshCons x hx
          simp only [if_true, List.mem_append, List.mem_singleton] at hi
          rcases hi with hi | hi
          · obtain ⟨t, ht, e⟩ := h.fromAcc x hx hi
            exact ⟨t, List.mem_append_left _ ht, e⟩
          · rw [hid] at hi; omega
        · simp at hx; subst hx
          exact ⟨_, List.mem_append_right _ (List.mem_singleton.2 rfl), rfl, rfl, rfl, rfl⟩
      acc := fun t ht => by
        rcases List.mem_append.1 ht with ht | ht
        · obtain ⟨h1, h2, h3, h4⟩ := h.acc t ht
          exact ⟨List.mem_append_left _ h1, h2,
            h3.mono (fun _ hx => mem_addIfMissing_of_mem hx) (fun _ hx => mem_addIfMissing_of_mem hx)
                 (fun _ hx => ctypes_withPUT_mono (cfg := cfg) (mv := mv) (c := c) hx), h4⟩
        · simp at ht; subst ht
          exact ⟨List.mem_append_right _ (List.mem_singleton.2 rfl), rfl,
            ⟨mem_addIfMissing_self _ _, mem_addIfMissing_self _ _,
             fun _ hx => reqType_mem_withPUT (cfg := cfg) (db := db) hx,
             fun _ hx => reqType_mem_withPUT (cfg := cfg) (db := db) hx⟩, rfl⟩ }

theorem inspectConsumers_spec {cfg : Config} {mv : Nat} {db0 : DB R} :
    ∀ (cs : List ConsumerReq) {db db' : DB R} {acc : List (ConsumerReq × ConsRow × ReqAttr)} {created : List Nat}
      {res : Except Resp (List (ConsumerReq × ConsRow × ReqAttr) × List Nat)},
      Insp cfg mv db0 db acc created → inspectConsumers cfg mv db cs acc created = (db', res) →
      match res with
      | .ok (triples, created') => Insp cfg mv db0 db' triples created' ∧ triples.map (·.1) = acc.map (·.1) ++ cs
      | .error _ => ∃ d acc' created', Insp cfg mv db0 d acc' created' ∧ db' = deleteConsumerRows d created'
  | [], db, db', acc, created, res, h, hI => by
    simp only [inspectConsumers, Prod.mk.injEq] at hI
    obtain ⟨rfl, rfl⟩ := hI
    exact ⟨h, by simp⟩
  | c :: cs, db, db', acc, created, res, h, hI => by
    unfold inspectConsumers at hI
    generalize hE : ensureConsumer cfg db mv c = p at hI
    obtain ⟨db1, r1⟩ := p
    have hs := h.step hE
    cases r1 with
    | error r =>
      simp only [Prod.mk.injEq] at hI
      obtain ⟨rfl, rfl⟩ := hI
      exact ⟨db1, acc, created, hs, rfl⟩
    | ok v =>
      obtain ⟨cons, isNew, attr⟩ := v
      have := inspectConsumers_spec cs hs hI
      cases res with
      | error r => exact this
      | ok v' =>
        obtain ⟨triples, created'⟩ := v'
        exact ⟨this.1, by rw [this.2]; simp⟩

end Placement.Wf
