import Placement.Lemmas.ConsIff
/-
  C12, remaining clauses: the attributes of the consumer record after a successful PUT /allocations
  (creation with the given / placeholder project and user and the type; update on a later write), and
  re-creation with `consumer_generation: null` after removal or a rejected first write.
-/
namespace Placement.Wf
variable {R : Type}

/-! ### `update_consumers` on the row the request read -/

theorem updRow_self (cons : ConsRow) (p u : Nat) (t : Option Nat) :
    updRow cons p u t cons = { cons with project := p, user := u, ctype := t } := by
  simp [updRow]

/-- the consumer type after a write: the requested one, else the one the record had -/
def typeAfter (a : ReqAttr) (cons : ConsRow) : Option Nat :=
  match a.ctype with
  | some t => some t
  | none => cons.ctype

theorem updateConsumer_row {db : DB R} (hU : UniqC db) {cons : ConsRow} (hc : cons ∈ db.consumers) (a : ReqAttr) :
    ∀ c2 ∈ (updateConsumer db cons a).consumers, c2.id = cons.id →
      c2.project = a.project ∧ c2.user = a.user ∧ c2.ctype = typeAfter a cons := by
  -- every row with the id of `cons` is the image of `cons`
  have key : ∀ (g : ConsRow → ConsRow), (∀ c, (g c).id = c.id) →
      ∀ c2 ∈ db.consumers.map g, c2.id = cons.id → c2 = g cons := by
    intro g hg c2 h2 e
    obtain ⟨c1, h1, rfl⟩ := List.mem_map.1 h2
    rw [L.eq_of_key_eq hU.consId h1 hc (by rw [← hg c1]; exact e)]
  rw [updateConsumer_eq]
  unfold typeAfter
  by_cases hpu : (a.project != cons.project || a.user != cons.user) = true
  · simp only [hpu, if_true]
    cases hta : a.ctype with
    | none =>
      dsimp only
      intro c2 h2 e
      rw [key (updRow cons a.project a.user cons.ctype) (by simp) c2 h2 e, updRow_self]
      exact ⟨rfl, rfl, rfl⟩
    | some t =>
      dsimp only
      split
      · intro c2 h2 e
        have h2' : c2 ∈ db.consumers.map (updRow cons a.project a.user (some t) ∘ updRow cons a.project a.user cons.ctype) := by
          simpa [updCons, List.map_map] using h2
        rw [key _ (by simp) c2 h2' e]
        simp only [Function.comp, updRow_self]
        simp [updRow]
      · next hne =>
        intro c2 h2 e
        rw [key (updRow cons a.project a.user cons.ctype) (by simp) c2 h2 e, updRow_self]
        simp only [bne_iff_ne, ne_eq, Classical.not_not] at hne
        exact ⟨rfl, rfl, hne.symm⟩
  · have hpu' : a.project = cons.project ∧ a.user = cons.user := by
      simp only [Bool.or_eq_true, bne_iff_ne, ne_eq, not_or, Classical.not_not] at hpu
      exact hpu
    simp only [hpu]
    cases hta : a.ctype with
    | none =>
      dsimp only
      intro c2 h2 e
      have := key id (fun _ => rfl) c2 (by simpa using h2) e
      subst this
      exact ⟨hpu'.1.symm, hpu'.2.symm, rfl⟩
    | some t =>
      dsimp only
      split
      · intro c2 h2 e
        rw [key (updRow cons a.project a.user (some t)) (by simp) c2 h2 e, updRow_self]
        exact ⟨rfl, rfl, rfl⟩
      · next hne =>
        intro c2 h2 e
        have := key id (fun _ => rfl) c2 (by simpa using h2) e
        subst this
        simp only [bne_iff_ne, ne_eq, Classical.not_not] at hne
        exact ⟨hpu'.1.symm, hpu'.2.symm, hne.symm⟩


/-! ### PUT /allocations/{consumer}: success or a failure that leaves the allocations alone -/

variable [CapOps R]

omit [CapOps R] in
theorem allocErr_status (e : Exc) : (allocErr e).status ≠ 204 := by
  unfold allocErr
  repeat' split
  all_goals simp [r400, r409, r500]

/-- decomposition of a successful PUT -/
structure PutOk (cfg : Config) (db : DB R) (mv : Nat) (c : ConsumerReq) (db1 : DB R) (cons : ConsRow)
    (isNew : Bool) (objs : List AllocReq) (db3 : DB R) : Prop where
  insp : Insp cfg mv db db1 [(c, cons, reqAttr cfg mv c)] (if isNew = true then [cons.id] else [])
  found : if isNew = true then db.consByUuid c.uuid = none ∧ cons = newConsRow cfg db mv c
          else db.consByUuid c.uuid = some cons
  hobjs : allocObjects db1 cons c = .ok objs
  txn : setAllocations (updateConsumer db1 cons (reqAttr cfg mv c)) objs = .ok db3
  result : hAllocPut cfg db mv c =
    ((if (isNew && objs.isEmpty) = true then deleteConsumerRows db3 [cons.id] else db3), r204)

theorem hAllocPut_cases {cfg : Config} {db : DB R} (hW : WFI db) (mv : Nat) (c : ConsumerReq) :
    ((hAllocPut cfg db mv c).2.status ≠ 204 ∧ (hAllocPut cfg db mv c).1.allocs = db.allocs) ∨
    ∃ db1 cons isNew objs db3, PutOk cfg db mv c db1 cons isNew objs db3 := by
  unfold hAllocPut
  split
  · exact Or.inl ⟨by simp [r400], rfl⟩
  · rename_i hcond
    generalize hE : ensureConsumer cfg db mv c = p
    obtain ⟨db1, res⟩ := p
    have hs := (Insp.init (cfg := cfg) (mv := mv) hW.uniq hW.ri).step hE
    have hcase := ensureConsumer_cases hE
    cases res with
    | error r =>
      refine Or.inl ⟨?_, hs.allocs⟩
      cases hcase
      simp [r409]
    | ok v =>
      obtain ⟨cons, isNew, attr⟩ := v
      dsimp only at hs ⊢
      simp only [List.nil_append] at hs
      have hattr : attr = reqAttr cfg mv c := (hs.acc _ (List.mem_singleton.2 rfl)).2.2.2
      subst hattr
      have hclean : (if isNew = true then deleteConsumerRows db1 [cons.id] else db1).allocs = db.allocs := by
        cases isNew with
        | true => exact hs.allocs
        | false => exact hs.allocs
      split
      · next r hr =>
        refine Or.inl ⟨?_, hclean⟩
        -- `allocObjects` only fails with 400
        unfold allocObjects at hr
        split at hr
        · split at hr <;> cases hr
        · split at hr
          · injection hr with hr; subst hr; simp [r400]
          · cases hr
      · next objs hO =>
        split
        · next db3 h3 =>
          refine Or.inr ⟨db1, cons, isNew, objs, db3, ⟨hs, ?_, hO, h3, ?_⟩⟩
          · cases hcase with
            | found cons' hc => simpa using hc
            | created hn _ => exact ⟨hn, rfl⟩
          · unfold hAllocPut
            rw [if_neg hcond]
            simp only [hE, hO, h3]
        · exact Or.inl ⟨allocErr_status _, hclean⟩


/-- the type a consumer record carries after a successful write: the requested one (from 1.38),
else the one it had before -/
def typeAfterPut (db : DB R) (mv : Nat) (c : ConsumerReq) : Option Nat :=
  match reqType mv c with
  | some t => some t
  | none => (db.consByUuid c.uuid).bind (·.ctype)

theorem PutOk.attrs {cfg : Config} {db db1 db3 : DB R} {mv : Nat} {c : ConsumerReq} {cons : ConsRow} {isNew : Bool}
    {objs : List AllocReq} (h : PutOk cfg db mv c db1 cons isNew objs db3) :
    ∀ row ∈ db3.consumers, row.uuid = c.uuid →
      row.project = reqProject cfg c ∧ row.user = reqUser cfg c ∧ row.ctype = typeAfterPut db mv c := by
  intro row hrow eu
  obtain ⟨hcm, hcu, -, -⟩ := h.insp.acc _ (List.mem_singleton.2 rfl)
  have hcm : cons ∈ db1.consumers := hcm
  have hcu : cons.uuid = c.uuid := hcu
  obtain ⟨c2, hc2, i2, u2, p2, us2, t2⟩ := (allocTxn_setAllocations h.txn).consSub row hrow
  have hid : c2.id = cons.id := by
    obtain ⟨g, e, hg⟩ := consMap_updateConsumer db1 cons (reqAttr cfg mv c)
    rw [e] at hc2
    obtain ⟨c1, hc1, rfl⟩ := List.mem_map.1 hc2
    have : c1 = cons :=
      L.eq_of_key_eq h.insp.uniq.consUuid hc1 hcm (by rw [← (hg c1).2.1, u2, eu, hcu])
    rw [(hg c1).1, this]
  obtain ⟨e1, e2, e3⟩ := updateConsumer_row h.insp.uniq hcm (reqAttr cfg mv c) c2 hc2 hid
  refine ⟨p2.symm.trans e1, us2.symm.trans e2, t2.symm.trans (e3.trans ?_)⟩
  unfold typeAfter typeAfterPut
  show (match reqType mv c with | some t => some t | none => cons.ctype) = _
  cases hrt : reqType mv c with
  | some t => rfl
  | none =>
    dsimp only
    have hf := h.found
    cases isNew with
    | true =>
      simp only [if_true] at hf
      rw [hf.1, hf.2]
      simp [newConsRow, hrt]
    | false =>
      simp only [Bool.false_eq_true, if_false] at hf
      rw [hf]; rfl

/-- **C12, creation and update**: after a successful PUT the record of the consumer carries the project
and user of the request (the configured placeholders when the request names none, i.e. below 1.8) and the
requested consumer type (from 1.38; otherwise the type is what it was). -/
theorem put_attrs {cfg : Config} {db db' : DB R} (hW : WFI db) {mv : Nat} {c : ConsumerReq} {r : Resp}
    (h : step cfg db (.allocPut mv c) = (db', r)) (hs : r.status = 204) :
    ∀ row ∈ db'.consumers, row.uuid = c.uuid →
      row.project = reqProject cfg c ∧ row.user = reqUser cfg c ∧ row.ctype = typeAfterPut db mv c := by
  have h : hAllocPut cfg db mv c = (db', r) := h
  rcases hAllocPut_cases (cfg := cfg) hW mv c with ⟨hne, -⟩ | ⟨db1, cons, isNew, objs, db3, hok⟩
  · rw [h] at hne; exact absurd hs hne
  · rw [hok.result] at h
    simp only [Prod.mk.injEq] at h
    obtain ⟨rfl, -⟩ := h
    intro row hrow
    refine hok.attrs row ?_
    split at hrow
    · exact (List.mem_filter.1 hrow).1
    · exact hrow

/-- ... and the record exists when the request carries allocations -/
theorem put_creates {cfg : Config} {db db' : DB R} (hW : WFI db) {mv : Nat} {c : ConsumerReq} {r : Resp}
    (hwf : ConsumerReqWF c) (hne : c.allocs.isEmpty = false)
    (h : step cfg db (.allocPut mv c) = (db', r)) (hs : r.status = 204) :
    ∃ row ∈ db'.consumers, row.uuid = c.uuid := by
  have hW' : WFI db' := by
    have := wfi_step (cfg := cfg) hW (.allocPut mv c) hwf
    rw [h] at this; exact this
  have h : hAllocPut cfg db mv c = (db', r) := h
  rcases hAllocPut_cases (cfg := cfg) hW mv c with ⟨hn, -⟩ | ⟨db1, cons, isNew, objs, db3, hok⟩
  · rw [h] at hn; exact absurd hs hn
  · rw [hok.result] at h
    simp only [Prod.mk.injEq] at h
    obtain ⟨rfl, -⟩ := h
    obtain ⟨e, hall, hnil⟩ := allocObjects_nonempty hok.hobjs hne
    have hcu : cons.uuid = c.uuid := (hok.insp.acc _ (List.mem_singleton.2 rfl)).2.1
    cases objs with
    | nil => exact absurd rfl hnil
    | cons o rest =>
      have hpos : o.used ≠ 0 := by
        have ho : o ∈ c.allocs.filterMap (objOf db1 cons) := by rw [← e]; exact List.mem_cons_self
        obtain ⟨a, ha, hf⟩ := List.mem_filterMap.1 ho
        unfold objOf at hf
        cases hh : db1.rpByUuid a.1 <;> simp [hh] at hf
        subst hf
        have := hwf.2 a ha
        show a.2.2 ≠ 0
        omega
      obtain ⟨a, ha, ea⟩ := (allocTxn_setAllocations hok.txn).fresh o List.mem_cons_self hpos
      have ha' : a ∈ (if (isNew && (o :: rest).isEmpty) = true then deleteConsumerRows db3 [cons.id] else db3).allocs := by
        simp only [List.isEmpty_cons, Bool.and_false, Bool.false_eq_true, if_false]
        exact ha
      obtain ⟨row, hrow, er⟩ := hW'.ri.allocCons a ha'
      exact ⟨row, hrow, by rw [er, ea, allocObjects_consUuid hok.hobjs o List.mem_cons_self, hcu]⟩

/-! ### re-creation with `consumer_generation: null` -/

omit [CapOps R] in
/-- a consumer without allocations has no record (given `ConsIff`) -/
theorem no_allocs_no_consumer {db : DB R} (h : ConsIff db) {u : Nat} (hn : ∀ a ∈ db.allocs, a.consumer ≠ u) :
    db.consByUuid u = none := by
  cases hc : db.consByUuid u with
  | none => rfl
  | some c =>
    obtain ⟨hm, e⟩ := mem_of_consByUuid hc
    obtain ⟨a, ha, ea⟩ := (h u).1 ⟨c, hm, e⟩
    exact absurd ea (hn a ha)

omit [CapOps R] in
/-- a write with generation null for a consumer without record passes the consumer-generation check:
`ensure_consumer` creates the record -/
theorem gen_null_accepted {cfg : Config} {db : DB R} {mv : Nat} {c : ConsumerReq}
    (hn : db.consByUuid c.uuid = none) (hg : c.gen = none) :
    ∃ d, ensureConsumer cfg db mv c = (d, .ok (newConsRow cfg db mv c, true, reqAttr cfg mv c)) := by
  rw [ensureConsumer_eq, hn]
  simp [hg]

/-- DELETE /allocations/{u} leaves no allocation of `u` -/
theorem delete_no_allocs {cfg : Config} (db : DB R) (u : Nat) :
    ∀ a ∈ (step cfg db (.allocDelete u)).1.allocs, a.consumer ≠ u := by
  show ∀ a ∈ (hAllocDelete db u).1.allocs, a.consumer ≠ u
  unfold hAllocDelete
  split
  · intro a ha
    have : a ∈ db.allocs.filter (·.consumer != u) := ha
    simpa using (List.mem_filter.1 this).2
  · next hn =>
    intro a ha e
    exact hn (List.any_eq_true.2 ⟨a, ha, by simpa using e⟩)

/-- a successful PUT with an empty `allocations` object leaves no allocation of the consumer -/
theorem empty_put_no_allocs {cfg : Config} {db db' : DB R} (hW : WFI db) {mv : Nat} {c : ConsumerReq} {r : Resp}
    (he : c.allocs.isEmpty = true) (h : step cfg db (.allocPut mv c) = (db', r)) (hs : r.status = 204) :
    ∀ a ∈ db'.allocs, a.consumer ≠ c.uuid := by
  have h : hAllocPut cfg db mv c = (db', r) := h
  rcases hAllocPut_cases (cfg := cfg) hW mv c with ⟨hn, -⟩ | ⟨db1, cons, isNew, objs, db3, hok⟩
  · rw [h] at hn; exact absurd hs hn
  · rw [hok.result] at h
    simp only [Prod.mk.injEq] at h
    obtain ⟨rfl, -⟩ := h
    have hcm : cons ∈ db1.consumers := (hok.insp.acc _ (List.mem_singleton.2 rfl)).1
    have hcu : cons.uuid = c.uuid := (hok.insp.acc _ (List.mem_singleton.2 rfl)).2.1
    have hT := allocTxn_setAllocations hok.txn
    have key : ∀ a ∈ db3.allocs, a.consumer ≠ c.uuid := by
      intro a ha e
      rcases hT.origin a ha with ⟨hold, hnone⟩ | ⟨o, ho, h0, -⟩
      · -- an old allocation of the consumer would have produced an object naming it
        have hold1 : a ∈ db1.allocs := by
          obtain ⟨g, eg, -⟩ := consMap_updateConsumer db1 cons (reqAttr cfg mv c)
          rw [eg] at hold; exact hold
        have hne := allocObjects_empty_ne hok.insp.ri hok.hobjs he ⟨cons, hcm, rfl⟩
          ⟨a, hold1, by rw [e, hcu]⟩
        cases objs with
        | nil => exact hne rfl
        | cons o rest =>
          exact hnone o List.mem_cons_self
            (by rw [allocObjects_consUuid hok.hobjs o List.mem_cons_self, hcu, e])
      · exact h0 (allocObjects_empty hok.hobjs he o ho).1
    intro a ha
    refine key a ?_
    split at ha
    · exact ha
    · exact ha

/-- a PUT that is not answered 204 leaves the allocations alone -/
theorem rejected_put_allocs {cfg : Config} {db : DB R} (hW : WFI db) {mv : Nat} {c : ConsumerReq}
    (hs : (step cfg db (.allocPut mv c)).2.status ≠ 204) :
    (step cfg db (.allocPut mv c)).1.allocs = db.allocs := by
  rcases hAllocPut_cases (cfg := cfg) hW mv c with ⟨-, h⟩ | ⟨db1, cons, isNew, objs, db3, hok⟩
  · exact h
  · exfalso
    apply hs
    show (hAllocPut cfg db mv c).2.status = 204
    rw [hok.result]; rfl

end Placement.Wf
