import Placement.Lemmas.SchedRp
/-
  More on provider generations under schedules:
  * a generation-guarded request started after the provider moved beyond the generation it carries
    is answered 409 `placement.concurrent_update` and changes nothing (`Inert`);
  * the requests that derive the generation themselves (POST / DELETE inventory, DELETE inventories,
    DELETE traits) succeed only if the provider still has, at their write transaction, the generation
    they read (two observed states, `chain_two_stage`).
-/
namespace Placement.Sched
open Placement Placement.Gens Placement.Hier
variable {R : Type} [CapOps R]
set_option linter.unusedSectionVars false

/-- `u` names provider `p`, which is beyond generation `g`: stable under `EvoG` steps -/
def DPast (u p g : Nat) (s : DB R) : Prop := WRp u (some p) s ∧ RpPast p g s

theorem DPast.evo {N : Nat → Prop} {u p g : Nat} {s s' : DB R} (q : QEvo N s s') (h : DPast u p g s) :
    DPast u p g s' := ⟨h.1.evo q, h.2.evo q h.1.1⟩

theorem DPast.row {u p g : Nat} {s : DB R} (h : DPast u p g s) :
    ∃ rp, s.rpByUuid u = some rp ∧ rp.id = p ∧ g < rp.gen := by
  have h1 : rpIdOf s u = some p := h.1.2
  unfold rpIdOf at h1
  cases hf : s.rpByUuid u with
  | none => rw [hf] at h1; cases h1
  | some rp =>
    rw [hf] at h1
    have hid : rp.id = p := by simpa using h1
    exact ⟨rp, rfl, hid, h.2 rp (List.mem_of_find?_eq_some hf) hid⟩

/-- the answer of a stale guarded request -/
def Is409 (r : Resp) : Prop := r = r409 .concurrentUpdate

theorem pInvSet_inert (mv u g : Nat) (invs : List (InvSpec R)) (p : Nat) :
    Inert (DPast (R := R) u p g) Is409 (pInvSet mv u g invs) :=
  .txn _ _
    (fun s hd => by
      obtain ⟨rp, hrp, -, hlt⟩ := hd.row
      have : (g != rp.gen) = true := by simp; omega
      simp [tInvSetR, hrp, this])
    (fun s hd => by
      obtain ⟨rp, hrp, -, hlt⟩ := hd.row
      have : (g != rp.gen) = true := by simp; omega
      simp only [tInvSetR, hrp, this, if_true]
      exact .done _ rfl)

theorem pInvUpdate_inert (mv u g : Nat) (inv : InvSpec R) (p : Nat) :
    Inert (DPast (R := R) u p g) Is409 (pInvUpdate mv u g inv) :=
  .txn _ _
    (fun s hd => by
      obtain ⟨rp, hrp, -, hlt⟩ := hd.row
      have : (g != rp.gen) = true := by simp; omega
      simp [tInvUpdateR, hrp, this])
    (fun s hd => by
      obtain ⟨rp, hrp, -, hlt⟩ := hd.row
      have : (g != rp.gen) = true := by simp; omega
      simp only [tInvUpdateR, hrp, this, if_true]
      exact .done _ rfl)

theorem pAggsSet_inert (mv u g : Nat) (hmv : mv ≥ 19) (aggs : List Nat) (p : Nat) :
    Inert (DPast (R := R) u p g) Is409 (pAggsSet mv u (some g) aggs) := by
  unfold pAggsSet
  rw [if_neg (by omega)]
  have hd' : decide (mv ≥ 19) = true := by simpa using hmv
  exact .txn _ _
    (fun s hd => by
      obtain ⟨rp, hrp, -, hlt⟩ := hd.row
      have : (some g != some rp.gen) = true := by simp; omega
      simp [tAggsSetR, hrp, this, hd'])
    (fun s hd => by
      obtain ⟨rp, hrp, -, hlt⟩ := hd.row
      have : (some g != some rp.gen) = true := by simp; omega
      simp only [tAggsSetR, hrp, this, hd', Bool.and_self, if_true]
      exact .done _ rfl)

/-- the write transaction of a guarded request whose generation is no longer the provider's: the
state is unchanged and the answer is not 2xx -/
theorem guarded_write_stale (p g : Nat) (s : DB R) (hst : ¬ RpAt p g s) :
    (∀ invs, (tInvSetW p g invs s).1 = s ∧ ∃ e, (tInvSetW p g invs s).2 = .done (errInvSet e)) ∧
    (∀ inv, (tInvUpdateW p g inv s).1 = s ∧ ∃ e, (tInvUpdateW p g inv s).2 = .done (errInvUpdate e)) ∧
    (∀ aggs, (tAggsSetW p g aggs true s).1 = s ∧ ∃ r, (tAggsSetW p g aggs true s).2 = .done r ∧ ¬ okR r) := by
  refine ⟨fun invs => ?_, fun inv => ?_, fun aggs => ?_⟩
  · unfold tInvSetW
    split
    · rename_i db' h
      obtain ⟨db0, hg, hc⟩ := setInventory_ok h
      exact absurd (cas_commit hg hc).1 hst
    · exact ⟨rfl, _, rfl⟩
  · unfold tInvUpdateW
    split
    · rename_i db' h
      obtain ⟨db0, hg, hc⟩ := updateInventory_ok h
      exact absurd (cas_commit hg hc).1 hst
    · exact ⟨rfl, _, rfl⟩
  · unfold tAggsSetW
    split
    · rename_i db' h
      rcases setAggregates_ok h with ⟨hf, -⟩ | ⟨-, db0, hg, hc⟩
      · cases hf
      · exact absurd (cas_commit hg hc).1 hst
    · exact ⟨rfl, _, rfl, errAggs_not_ok _⟩

/-! ### commit or quiet: the guarded requests including PUT traits -/

section coq
variable {u : Nat} {o : Option Nat}

/-- a write transaction that answers at once: success is a commit on `(p, g)` or changes nothing,
failure changes nothing -/
theorem write_coq {p g : Nat} {f : DB R → DB R × P R} (ho : o = some p)
    (h : ∀ s, Ids s.gcore → (∃ r, (f s).2 = .done r) ∧ ((f s).1 = s ∨ (RpAt p g s ∧ BRp p g s (f s).1))) :
    CoQ (WRp u o) (CRp (R := R) u p g) (BRp p g) (.txn .main f) :=
  .txn _ _
    (fun s hw hn => (h s hw.1).2.resolve_right (fun hc => hn ⟨⟨hw.2.trans ho, hc.1⟩, hc.2⟩))
    (fun s hw => by obtain ⟨r, hr⟩ := (h s hw.1).1; rw [hr]; exact .done r)

theorem tInvSetW_coq (p g : Nat) (invs : List (InvSpec R)) (ho : o = some p) :
    CoQ (WRp u o) (CRp (R := R) u p g) (BRp p g) (.txn .main (tInvSetW p g invs)) :=
  write_coq ho (fun s _ => by
    unfold tInvSetW
    split
    · rename_i db' h
      obtain ⟨db0, hg, hc⟩ := setInventory_ok h
      obtain ⟨h1, h2, h3⟩ := cas_commit hg hc
      exact ⟨⟨_, rfl⟩, .inr ⟨h1, h2, h3⟩⟩
    · exact ⟨⟨_, rfl⟩, .inl rfl⟩)

theorem tInvUpdateW_coq (p g : Nat) (inv : InvSpec R) (ho : o = some p) :
    CoQ (WRp u o) (CRp (R := R) u p g) (BRp p g) (.txn .main (tInvUpdateW p g inv)) :=
  write_coq ho (fun s _ => by
    unfold tInvUpdateW
    split
    · rename_i db' h
      obtain ⟨db0, hg, hc⟩ := updateInventory_ok h
      obtain ⟨h1, h2, h3⟩ := cas_commit hg hc
      exact ⟨⟨_, rfl⟩, .inr ⟨h1, h2, h3⟩⟩
    · exact ⟨⟨_, rfl⟩, .inl rfl⟩)

theorem tAggsSetW_coq (p g : Nat) (aggs : List Nat) (ho : o = some p) :
    CoQ (WRp u o) (CRp (R := R) u p g) (BRp p g) (.txn .main (tAggsSetW p g aggs true)) :=
  write_coq ho (fun s _ => by
    unfold tAggsSetW
    split
    · rename_i db' h
      rcases setAggregates_ok h with ⟨hf, -⟩ | ⟨-, db0, hg, hc⟩
      · cases hf
      · obtain ⟨h1, h2, h3⟩ := cas_commit hg hc
        exact ⟨⟨_, rfl⟩, .inr ⟨h1, h2, h3⟩⟩
    · exact ⟨⟨_, rfl⟩, .inl rfl⟩)

theorem tRpTraitsSetW_coq (p g : Nat) (ts : List Nat) (ho : o = some p) :
    CoQ (WRp u o) (CRp (R := R) u p g) (BRp p g) (.txn .main (tRpTraitsSetW p g ts)) :=
  write_coq ho (fun s _ => by
    unfold tRpTraitsSetW
    split
    · rename_i db' h
      rcases setTraits_ok h with ⟨-, rfl⟩ | ⟨-, db0, hg, hc⟩
      · exact ⟨⟨_, rfl⟩, .inl rfl⟩
      · obtain ⟨h1, h2, h3⟩ := cas_commit hg hc
        exact ⟨⟨_, rfl⟩, .inr ⟨h1, h2, h3⟩⟩
    · exact ⟨⟨_, rfl⟩, .inl rfl⟩)

/-- a read transaction: the state is unchanged -/
theorem read_coq {p g : Nat} {l : Lbl} {f : DB R → DB R × P R}
    (h : ∀ s, WRp u o s → (f s).1 = s ∧ CoQ (WRp u o) (CRp (R := R) u p g) (BRp p g) (f s).2) :
    CoQ (WRp u o) (CRp (R := R) u p g) (BRp p g) (.txn l f) :=
  .txn _ _ (fun s hw _ => (h s hw).1) (fun s hw => (h s hw).2)

theorem pInvSet_coq (mv g : Nat) (invs : List (InvSpec R)) (p : Nat) (ho : ∀ p', o = some p' → p' = p) :
    CoQ (WRp u o) (CRp (R := R) u p g) (BRp p g) (pInvSet mv u g invs) :=
  read_coq (fun s hw => by
    unfold tInvSetR
    split
    · exact ⟨rfl, .done _⟩
    · rename_i rp hrp
      have ho' : o = some rp.id := by rw [← hw.2]; simp [rpIdOf, hrp]
      have hid : rp.id = p := ho rp.id ho'
      rw [hid] at ho'
      split
      · exact ⟨rfl, .done _⟩
      · rename_i hg
        split
        · exact ⟨rfl, .done _⟩
        · have : rp.gen = g := Eq.symm (by simpa using hg)
          rw [hid, this]; exact ⟨rfl, tInvSetW_coq p g invs ho'⟩)

theorem pInvUpdate_coq (mv g : Nat) (inv : InvSpec R) (p : Nat) (ho : ∀ p', o = some p' → p' = p) :
    CoQ (WRp u o) (CRp (R := R) u p g) (BRp p g) (pInvUpdate mv u g inv) :=
  read_coq (fun s hw => by
    unfold tInvUpdateR
    split
    · exact ⟨rfl, .done _⟩
    · rename_i rp hrp
      have ho' : o = some rp.id := by rw [← hw.2]; simp [rpIdOf, hrp]
      have hid : rp.id = p := ho rp.id ho'
      rw [hid] at ho'
      split
      · exact ⟨rfl, .done _⟩
      · rename_i hg
        split
        · exact ⟨rfl, .done _⟩
        · have : rp.gen = g := Eq.symm (by simpa using hg)
          rw [hid, this]; exact ⟨rfl, tInvUpdateW_coq p g inv ho'⟩)

theorem pAggsSet_coq (mv g : Nat) (hmv : mv ≥ 19) (aggs : List Nat) (p : Nat) (ho : ∀ p', o = some p' → p' = p) :
    CoQ (WRp u o) (CRp (R := R) u p g) (BRp p g) (pAggsSet mv u (some g) aggs) := by
  unfold pAggsSet
  rw [if_neg (by omega)]
  exact read_coq (fun s hw => by
    unfold tAggsSetR
    split
    · exact ⟨rfl, .done _⟩
    · rename_i rp hrp
      have ho' : o = some rp.id := by rw [← hw.2]; simp [rpIdOf, hrp]
      have hid : rp.id = p := ho rp.id ho'
      rw [hid] at ho'
      dsimp only
      have hd : decide (mv ≥ 19) = true := by simpa using hmv
      rw [hd]
      split
      · exact ⟨rfl, .done _⟩
      · rename_i hg
        have : rp.gen = g := Eq.symm (by simpa using hg)
        rw [hid, this]; exact ⟨rfl, tAggsSetW_coq p g aggs ho'⟩)

theorem pRpTraitsSet_coq (g : Nat) (ts : List Nat) (p : Nat) (ho : ∀ p', o = some p' → p' = p) :
    CoQ (WRp u o) (CRp (R := R) u p g) (BRp p g) (pRpTraitsSet u g ts) :=
  read_coq (fun s hw => by
    unfold tRpTraitsSetR
    split
    · exact ⟨rfl, .done _⟩
    · rename_i rp hrp
      have ho' : o = some rp.id := by rw [← hw.2]; simp [rpIdOf, hrp]
      have hid : rp.id = p := ho rp.id ho'
      rw [hid] at ho'
      split
      · exact ⟨rfl, .done _⟩
      · rename_i hg
        have : rp.gen = g := by simpa using hg
        rw [hid, this]
        refine ⟨rfl, read_coq (fun s2 _ => ?_)⟩
        unfold tRpTraitsSetT
        split
        · exact ⟨rfl, .done _⟩
        · exact ⟨rfl, tRpTraitsSetW_coq p g ts ho'⟩)

end coq

/-! ### the requests of the C05 statements -/

/-- the request carries generation `g` for the provider with uuid `u`
(PUT inventories, PUT one inventory, PUT aggregates from 1.19) -/
def carries (u g : Nat) : Op R → Bool
  | .invSet _ u' g' _ => u' == u && g' == g
  | .invUpdate _ u' g' _ => u' == u && g' == g
  | .aggsSet mv u' g' _ => u' == u && g' == some g && decide (mv ≥ 19)
  | _ => false

/-- a request carrying `(u, g)`: on every path to a 2xx answer, its write transaction runs the
compare-and-swap on `(p, g)`, `p` the provider `u` names -/
theorem carries_commits (cfg : Config) {u g : Nat} {op : Op R} (h : carries u g op = true) (o : Option Nat)
    (p : Nat) (ho : ∀ p', o = some p' → p' = p) :
    Commits (WRp u o) okR (CRp (R := R) u p g) (BRp p g) (prog cfg op) := by
  cases op <;> simp only [carries, Bool.and_eq_true, beq_iff_eq, decide_eq_true_eq, Bool.false_eq_true] at h
  · obtain ⟨rfl, rfl⟩ := h; exact pInvSet_commits _ _ _ p ho
  · obtain ⟨rfl, rfl⟩ := h; exact pInvUpdate_commits _ _ _ p ho
  · obtain ⟨⟨rfl, rfl⟩, hmv⟩ := h; exact pAggsSet_commits _ _ hmv _ p ho

/-- the pool: no request creates, updates or deletes providers -/
theorem pool_evo (cfg : Config) (ops : List (Op R)) (hops : ∀ op ∈ ops, isProviderOp op = false) :
    PoolAll (QEvo (R := R) (fun _ => True)) (ops.map (prog cfg)) := by
  intro p hp
  obtain ⟨op, hop, rfl⟩ := List.mem_map.mp hp
  exact prog_evo cfg op (hops op hop) (fun _ _ => trivial)

/-- the request carries generation `g` for provider `u`, PUT traits included -/
def carriesT (u g : Nat) (op : Op R) : Bool :=
  carries u g op || (match op with
    | .rpTraitsSet u' g' _ => u' == u && g' == g
    | _ => false)

theorem carriesT_coq (cfg : Config) {u g : Nat} {op : Op R} (h : carriesT u g op = true) (o : Option Nat)
    (p : Nat) (ho : ∀ p', o = some p' → p' = p) :
    CoQ (WRp u o) (CRp (R := R) u p g) (BRp p g) (prog cfg op) := by
  cases op <;> simp only [carriesT, carries, Bool.and_eq_true, Bool.or_eq_true, beq_iff_eq, decide_eq_true_eq,
    Bool.false_eq_true, or_false, false_or, or_self] at h
  · obtain ⟨rfl, rfl⟩ := h; exact pInvSet_coq _ _ _ p ho
  · obtain ⟨rfl, rfl⟩ := h; exact pInvUpdate_coq _ _ _ p ho
  · obtain ⟨rfl, rfl⟩ := h; exact pRpTraitsSet_coq _ _ p ho
  · obtain ⟨⟨rfl, rfl⟩, hmv⟩ := h; exact pAggsSet_coq _ _ hmv _ p ho

/-! ### requests that derive the generation -/

/-- the write of a deriving request succeeded against the provider row read before: the provider
still had the generation read, or (DELETE traits of a provider without traits) nothing was written -/
def DerivedOk (rp : RpRow) (s2 s2' : DB R) : Prop :=
  RpAt rp.id rp.gen s2 ∨ (s2' = s2 ∧ traitsUnchanged s2 rp.id [] = true)

/-- requests that read the provider and use ITS generation for the write -/
def derives (u : Nat) : Op R → Bool
  | .invAdd _ u' _ => u' == u
  | .invDelete u' _ => u' == u
  | .invDeleteAll mv u' => u' == u && decide (mv ≥ 5)
  | .rpTraitsDelete u' => u' == u
  | _ => false

/-- the shape `chain_two_stage` needs, with what the write transaction says about the row read -/
theorem derives_two_stage (cfg : Config) {u : Nat} {op : Op R} (h : derives u op = true) :
    ∃ l1 f1, prog cfg op = .txn l1 f1 ∧
      (∀ s, (f1 s).1 = s ∧ ((∃ r, (f1 s).2 = .done r ∧ ¬ okR r) ∨
          ∃ l2 f2, (f1 s).2 = .txn l2 f2 ∧ ∀ s2, ∃ r, (f2 s2).2 = .done r)) ∧
      (∀ s l2 f2, (f1 s).2 = .txn l2 f2 → ∃ rp, s.rpByUuid u = some rp ∧
          ∀ s2 a, (f2 s2).2 = .done a → okR a → DerivedOk rp s2 (f2 s2).1) := by
  cases op <;> simp only [derives, Bool.false_eq_true, Bool.and_eq_true, beq_iff_eq, decide_eq_true_eq] at h
  case invAdd mv u' inv =>
    subst h
    refine ⟨_, _, rfl, fun s => ?_, fun s l2 f2 hq => ?_⟩
    · unfold tInvAddR
      split
      · exact ⟨rfl, .inl ⟨_, rfl, by decide⟩⟩
      · split
        · exact ⟨rfl, .inl ⟨_, rfl, by decide⟩⟩
        · refine ⟨rfl, .inr ⟨_, _, rfl, fun s2 => ?_⟩⟩
          unfold tInvAddW; split <;> exact ⟨_, rfl⟩
    · unfold tInvAddR at hq
      split at hq
      · cases hq
      · rename_i rp hrp
        split at hq
        · cases hq
        · cases hq
          refine ⟨rp, hrp, fun s2 a ha hok => ?_⟩
          unfold tInvAddW at ha ⊢
          split at ha
          · rename_i db' hadd
            obtain ⟨db0, hg, hc⟩ := addInventory_ok hadd
            exact .inl (cas_commit hg hc).1
          · cases ha; exact absurd hok (errInvAdd_not_ok _)
  case invDelete u' rc =>
    subst h
    refine ⟨_, _, rfl, fun s => ?_, fun s l2 f2 hq => ?_⟩
    · unfold tInvDeleteR
      split
      · exact ⟨rfl, .inl ⟨_, rfl, by decide⟩⟩
      · refine ⟨rfl, .inr ⟨_, _, rfl, fun s2 => ?_⟩⟩
        unfold tInvDeleteW; split <;> exact ⟨_, rfl⟩
    · unfold tInvDeleteR at hq
      split at hq
      · cases hq
      · rename_i rp hrp
        cases hq
        refine ⟨rp, hrp, fun s2 a ha hok => ?_⟩
        unfold tInvDeleteW at ha ⊢
        split at ha
        · rename_i db' hdel
          obtain ⟨db0, hg, hc⟩ := deleteInventory_ok hdel
          exact .inl (cas_commit hg hc).1
        · cases ha; exact absurd hok (errInvDelete_not_ok _)
  case invDeleteAll mv u' =>
    obtain ⟨h, hmv⟩ := h
    subst h
    have hp : pInvDeleteAll (R := R) mv u' = .txn .getRp (tInvDeleteAllR u') := by
      unfold pInvDeleteAll; rw [if_neg (by omega)]
    refine ⟨_, _, hp, fun s => ?_, fun s l2 f2 hq => ?_⟩
    · unfold tInvDeleteAllR
      split
      · exact ⟨rfl, .inl ⟨_, rfl, by decide⟩⟩
      · refine ⟨rfl, .inr ⟨_, _, rfl, fun s2 => ?_⟩⟩
        unfold tInvDeleteAllW; split <;> exact ⟨_, rfl⟩
    · unfold tInvDeleteAllR at hq
      split at hq
      · cases hq
      · rename_i rp hrp
        cases hq
        refine ⟨rp, hrp, fun s2 a ha hok => ?_⟩
        unfold tInvDeleteAllW at ha ⊢
        split at ha
        · rename_i db' hset
          obtain ⟨db0, hg, hc⟩ := setInventory_ok hset
          exact .inl (cas_commit hg hc).1
        · cases ha; exact absurd hok (errInvDeleteAll_not_ok _)
  case rpTraitsDelete u' =>
    subst h
    refine ⟨_, _, rfl, fun s => ?_, fun s l2 f2 hq => ?_⟩
    · unfold tRpTraitsDeleteR
      split
      · exact ⟨rfl, .inl ⟨_, rfl, by decide⟩⟩
      · refine ⟨rfl, .inr ⟨_, _, rfl, fun s2 => ?_⟩⟩
        unfold tRpTraitsDeleteW; split <;> exact ⟨_, rfl⟩
    · unfold tRpTraitsDeleteR at hq
      split at hq
      · cases hq
      · rename_i rp hrp
        cases hq
        refine ⟨rp, hrp, fun s2 a ha hok => ?_⟩
        unfold tRpTraitsDeleteW at ha ⊢
        split at ha
        · rename_i db' hset
          rcases setTraits_ok hset with ⟨hu, rfl⟩ | ⟨-, db0, hg, hc⟩
          · exact .inr ⟨rfl, hu⟩
          · exact .inl (cas_commit hg hc).1
        · cases ha; exact absurd hok (errTraits_not_ok _)

end Placement.Sched
