import Placement.Lemmas.CrashEnsure
/-
  C18, allocation writes, part 3: the transactions that build the allocation objects (reads), the
  main write transaction, and the three request programs.

  `ObjsOK pre objs`: what is known of the allocation objects built so far from the triples `pre`:
  amounts are not negative, every object names the consumer of one of the triples, and objects with
  a non-zero amount have pairwise distinct (provider id, class, consumer) keys.
-/
namespace Placement.Crash
open Placement Placement.Wf Placement.Sched Placement.Core
variable {R : Type} [CapOps R] {db0 : DB R}
set_option linter.unusedSectionVars false
set_option linter.unusedVariables false

abbrev Triple := ConsumerReq × ConsRow × ReqAttr

structure ObjsOK (pre : List Triple) (objs : List AllocReq) : Prop where
  nonneg : ∀ a ∈ objs, 0 ≤ a.used
  cons : ∀ a ∈ objs, ∃ t ∈ pre, t.2.1.uuid = a.consUuid
  distinct : KeysDistinct objs

theorem ObjsOK.nil : ObjsOK ([] : List Triple) [] :=
  ⟨fun _ h => (by cases h), fun _ h => (by cases h), List.Pairwise.nil⟩

/-- the well-formedness of the entries of a request that the invariants need -/
def Static (cs : List ConsumerReq) : Prop := (cs.map (·.uuid)).Nodup ∧ ∀ c ∈ cs, ConsumerReqWF c

/-! ### allocation objects of one entry -/

/-- an empty entry: the consumer's rows with amount 0 -/
theorem ObjsOK.clear {pre : List Triple} {objs : List AllocReq} (h : ObjsOK pre objs) (s : DB R)
    (t : Triple) : ObjsOK (pre ++ [t]) (objs ++ clearReqsOf s t.2.1) := by
  have hz : ∀ a ∈ clearReqsOf s t.2.1, a.used = 0 ∧ a.consUuid = t.2.1.uuid := by
    intro a ha
    unfold clearReqsOf at ha
    split at ha
    · cases ha
    · obtain ⟨x, -, hf⟩ := List.mem_filterMap.1 ha
      split at hf
      · injection hf with hf; subst hf; exact ⟨rfl, rfl⟩
      · cases hf
  refine ⟨?_, ?_, ?_⟩
  · intro a ha
    rcases List.mem_append.1 ha with ha | ha
    · exact h.nonneg a ha
    · rw [(hz a ha).1]; exact Int.le_refl 0
  · intro a ha
    rcases List.mem_append.1 ha with ha | ha
    · obtain ⟨x, hx, e⟩ := h.cons a ha
      exact ⟨x, List.mem_append_left _ hx, e⟩
    · exact ⟨t, List.mem_append_right _ (List.mem_singleton_self _), (hz a ha).2.symm⟩
  · unfold KeysDistinct
    rw [List.pairwise_append]
    refine ⟨h.distinct, ?_, ?_⟩
    · exact List.Pairwise.imp_of_mem (R := fun _ _ => True)
        (fun ha _ _ ha0 _ => absurd (hz _ ha).1 ha0) (List.pairwise_of_forall (fun _ _ => trivial))
    · intro a _ b hb _ hb0
      exact absurd (hz b hb).1 hb0

/-- a non-empty entry: one object per body entry, on the provider rows read for it -/
theorem ObjsOK.entry {pre : List Triple} {objs : List AllocReq} (h : ObjsOK pre objs) {s : DB R}
    (hU : UniqC s) (t : Triple) (hwf : ConsumerReqWF t.1) (rows : List RpRow) (hrows : ∀ r ∈ rows, r ∈ s.rps)
    (hnew : ∀ x ∈ pre, x.2.1.uuid ≠ t.2.1.uuid) :
    ObjsOK (pre ++ [t]) (objs ++ allocReqsOf t.1 t.2.1 rows) := by
  have hm : ∀ a ∈ allocReqsOf t.1 t.2.1 rows, ∃ e ∈ t.1.allocs, ∃ rp ∈ rows, rp.uuid = e.1 ∧
      a.rpId = rp.id ∧ a.rcName = e.2.1 ∧ a.consUuid = t.2.1.uuid ∧ a.used = e.2.2 := by
    intro a ha
    unfold allocReqsOf at ha
    obtain ⟨e, he, hf⟩ := List.mem_filterMap.1 ha
    cases hfind : rows.find? (·.uuid == e.1) with
    | none => rw [hfind] at hf; cases hf
    | some rp =>
      rw [hfind] at hf
      simp only [Option.map_some, Option.some.injEq] at hf
      subst hf
      exact ⟨e, he, rp, List.mem_of_find?_eq_some hfind, by simpa using List.find?_some hfind,
        rfl, rfl, rfl, rfl⟩
  refine ⟨?_, ?_, ?_⟩
  · intro a ha
    rcases List.mem_append.1 ha with ha | ha
    · exact h.nonneg a ha
    · obtain ⟨e, he, -, -, -, -, -, -, hu⟩ := hm a ha
      have := hwf.2 e he
      omega
  · intro a ha
    rcases List.mem_append.1 ha with ha | ha
    · obtain ⟨x, hx, e⟩ := h.cons a ha
      exact ⟨x, List.mem_append_left _ hx, e⟩
    · obtain ⟨e, he, -, -, -, -, -, hc, -⟩ := hm a ha
      exact ⟨t, List.mem_append_right _ (List.mem_singleton_self _), hc.symm⟩
  · unfold KeysDistinct
    rw [List.pairwise_append]
    refine ⟨h.distinct, ?_, ?_⟩
    · unfold allocReqsOf
      refine List.Pairwise.filterMap _ ?_ (L.nodup_map_iff_pairwise.1 hwf.1)
      intro e e' hee a ha a' ha' _ _ hk
      cases hfind : rows.find? (·.uuid == e.1) with
      | none => rw [hfind] at ha; cases ha
      | some rp =>
        cases hfind' : rows.find? (·.uuid == e'.1) with
        | none => rw [hfind'] at ha'; cases ha'
        | some rp' =>
          rw [hfind] at ha; rw [hfind'] at ha'
          simp only [Option.map_some, Option.some.injEq] at ha ha'
          subst ha; subst ha'
          simp only [Prod.mk.injEq] at hk
          have h1 : rp ∈ s.rps := hrows _ (List.mem_of_find?_eq_some hfind)
          have h2 : rp' ∈ s.rps := hrows _ (List.mem_of_find?_eq_some hfind')
          have : rp = rp' := L.eq_of_key_eq hU.rpId h1 h2 hk.1
          subst this
          have u1 : rp.uuid = e.1 := by simpa using List.find?_some hfind
          have u2 : rp.uuid = e'.1 := by simpa using List.find?_some hfind'
          exact hee (by rw [Prod.mk.injEq]; exact ⟨u1.symm.trans u2, hk.2.1⟩)
    · intro a ha b hb _ _ hk
      obtain ⟨x, hx, ex⟩ := h.cons a ha
      obtain ⟨e, he, -, -, -, -, -, hc, -⟩ := hm b hb
      simp only [Prod.mk.injEq] at hk
      exact hnew x hx (by rw [ex, hk.2.2, hc])

/-! ### the main write transaction -/

theorem updateConsumers_allocs (db : DB R) (l : List Triple) : (updateConsumers db l).allocs = db.allocs := by
  obtain ⟨g, e, -⟩ := consMap_updateConsumers db l
  rw [e]

/-- the write of the main transaction -/
def mainRes (ctx : ACtx R) (objs : List AllocReq) (s : DB R) : Except Exc (DB R) :=
  match ctx.kind with
  | .reshape => reshapeTxnR (updateConsumers s ctx.done) ctx.rinvs objs
  | _ => replaceAll s retryCount (updateConsumers s ctx.done) objs

theorem aMain_eq (ctx : ACtx R) (objs : List AllocReq) (s : DB R) :
    aMain ctx objs s =
      match mainRes ctx objs s with
      | .ok db3 => (deleteConsumersIfNoAllocs db3
          ((ctx.done.filter (fun t => ctx.created.contains t.2.1.id)).map (·.2.1.uuid)), .done r204)
      | .error e => (s, cleanupThen ctx.created (aErr ctx e)) := rfl

theorem aMain_path (h0 : WFI db0) (ctx : ACtx R) (objs : List AllocReq) (hO : ObjsOK ctx.done objs) :
    Path (G db0) (Ph db0 ctx) (.txn .main (aMain ctx objs)) := by
  refine Path.txn' _ _ (fun s s' => (∃ e, mainRes ctx objs s = .error e) → Kc db0 ctx.created s') ?_
  intro s hp
  have hM := consMap_updateConsumers s ctx.done
  have w2 : WFI (updateConsumers s ctx.done) :=
    hp.wfi.of_allocs_eq (hM.uniqC hp.wfi.uniq)
      (ri_updateConsumers _ hp.wfi.ri (fun t ht => (hp.acc t ht).2.2)) (updateConsumers_allocs s ctx.done)
  have hC : ∀ a ∈ objs, ∃ c ∈ (updateConsumers s ctx.done).consumers, c.uuid = a.consUuid := by
    intro a ha
    obtain ⟨t, ht, e⟩ := hO.cons a ha
    obtain ⟨g, eg, hg⟩ := hM
    rw [eg]
    exact ⟨g t.2.1, List.mem_map.2 ⟨_, (hp.acc t ht).1, rfl⟩, ((hg _).2.1).trans e⟩
  rw [aMain_eq]
  cases hres : mainRes ctx objs s with
  | ok db3 =>
    dsimp only
    have w3 : WFI db3 := by
      unfold mainRes at hres
      split at hres
      · exact reshapeTxnR_wfi w2 hC hO.distinct hO.nonneg hres
      · exact replaceAll_wfi w2 hC hO.distinct hO.nonneg hres
    have w4 : WFI (deleteConsumersIfNoAllocs db3
        ((ctx.done.filter (fun t => ctx.created.contains t.2.1.id)).map (·.2.1.uuid))) :=
      w3.of_allocs_eq (uniqC_deleteConsumersIfNoAllocs w3.uniq _) (ri_deleteConsumersIfNoAllocs w3.ri _) rfl
    exact ⟨⟨w4, .inr ⟨_, rfl⟩⟩, fun ⟨e, he⟩ => (by cases he), .done _ _⟩
  | error e =>
    dsimp only
    refine ⟨hp.g h0 _, fun _ => hp.kc h0, ?_⟩
    exact (cleanupThen_path h0 ctx.created _).weaken (fun s' hk => hk ⟨e, rfl⟩)

end Placement.Crash
