import Placement.Lemmas.GenCons
/-
  C10, part 8: PUT /allocations/{consumer} with an empty body (from 1.28: remove all allocations).
-/
namespace Placement.Gens
open Placement.Hier
variable {R : Type} [CapOps R]
set_option linter.unusedSectionVars false
set_option linter.unusedSimpArgs false

theorem ensureConsumer_other (cfg : Config) (db : DB R) (mv : Nat) (c : ConsumerReq) :
    (ensureConsumer cfg db mv c).1.allocs = db.allocs ∧ (ensureConsumer cfg db mv c).1.rcs = db.rcs := by
  unfold ensureConsumer
  dsimp only
  repeat' split
  all_goals exact ⟨rfl, rfl⟩

/-- from `_set_allocations` on: all objects belong to the one consumer `cons`, whose uuid is unique -/
theorem allocPut_cons_tail {db1 db3 : DB R} {cons : ConsRow} {attr : ReqAttr} {objs : List AllocReq} {u : Nat}
    (huniq : ∀ c1 ∈ db1.consumers, c1.uuid = u → c1 = cons)
    (h3 : setAllocations (updateConsumer db1 cons attr) objs = .ok db3) (hobjs : objs ≠ [])
    (hcons : ∀ o ∈ objs, o.consId = cons.id ∧ o.consGen = cons.gen) :
    db3.consByUuid u = none ∨ ∃ row, db3.consByUuid u = some row ∧ row.gen = cons.gen + 1 := by
  obtain ⟨f, hf, hg2⟩ := updateConsumer_spec db1 cons attr
  have hc2 : (updateConsumer db1 cons attr).consumers = db1.consumers.map f := congrArg GCore.consumers hg2
  obtain ⟨p, hc3⟩ := setAllocations_consumers (i := cons.id) (g := cons.gen) h3 hobjs hcons
  cases hfind : db3.consByUuid u with
  | none => exact .inl rfl
  | some row =>
    refine .inr ⟨row, rfl, ?_⟩
    obtain ⟨hm, hu⟩ := consByUuid_some hfind
    rw [hc3, hc2] at hm
    obtain ⟨c2, hc2m, rfl⟩ := List.mem_map.mp (List.mem_filter.mp hm).1
    obtain ⟨c1, hc1m, rfl⟩ := List.mem_map.mp hc2m
    have hu1 : c1.uuid = u := by
      rw [← (hf c1).2.2]
      have : (if (f c1).id == cons.id then { f c1 with gen := cons.gen + 1 } else f c1).uuid = (f c1).uuid := by
        split <;> rfl
      rw [← this]; exact hu
    have : c1 = cons := huniq c1 hc1m hu1
    subst this
    simp [(hf c1).1]

/-- `PUT /allocations/{consumer}` with an empty body (remove everything, from 1.28): a consumer that
did not exist is not left behind; a consumer holding allocations (on existing providers, of existing
classes) is one generation further or - the normal outcome - its record is gone. -/
theorem allocPut_clear_consumer (cfg : Config) {db : DB R} (hU : (db.consumers.map (·.uuid)).Nodup)
    {mv : Nat} {c : ConsumerReq} (h : (hAllocPut cfg db mv c).2.ok = true) (he : c.allocs = [])
    (hex : db.consByUuid c.uuid = none ∨
      ∃ a ∈ db.allocs, a.consumer = c.uuid ∧ (db.rpById a.rp).isSome ∧ (db.rcName a.rc).isSome) :
    (hAllocPut cfg db mv c).1.consByUuid c.uuid = none ∨
    ∃ row, (hAllocPut cfg db mv c).1.consByUuid c.uuid = some row ∧
      row.gen = (((db.consByUuid c.uuid).map (·.gen)).getD 0) + 1 := by
  rcases hAllocPut_cases cfg db mv c with ⟨db1, cons, created, attr, objs, db3, hens, hobj, h3, hres⟩ | ⟨hst, -⟩
  · -- the consumer the request works with
    have hkey : cons.gen = ((db.consByUuid c.uuid).map (·.gen)).getD 0 ∧ cons ∈ db1.consumers ∧ cons.uuid = c.uuid ∧
        (∀ c1 ∈ db1.consumers, c1.uuid = c.uuid → c1 = cons) ∧
        (created = false → db.consByUuid c.uuid = some cons) ∧ db1.rps = db.rps := by
      rcases ensureConsumer_spec cfg db mv c with ⟨hg, hok⟩ | ⟨hnone, row, attr', hok, -, huuid, hgen, hg⟩
      · rw [hens] at hg hok
        obtain ⟨-, hfound⟩ := hok cons created attr rfl
        have hc1 : db1.consumers = db.consumers := congrArg GCore.consumers hg
        obtain ⟨hm, hu⟩ := consByUuid_some hfound
        refine ⟨by rw [hfound]; rfl, by rw [hc1]; exact hm, hu, ?_, fun _ => hfound, congrArg GCore.rps hg⟩
        intro c1 hc1m hc1u
        rw [hc1] at hc1m
        exact eq_of_nodup_uuid hU c1 hc1m cons hm (hc1u.trans hu.symm)
      · rw [hens] at hg hok
        simp only [Except.ok.injEq, Prod.mk.injEq] at hok
        obtain ⟨rfl, rfl, -⟩ := hok
        have hc1 : db1.consumers = db.consumers ++ [cons] := congrArg GCore.consumers hg
        refine ⟨by rw [hnone, hgen]; rfl, by rw [hc1]; simp, huuid, ?_, (fun hf => by cases hf), congrArg GCore.rps hg⟩
        intro c1 hc1m hc1u
        rw [hc1] at hc1m
        rcases List.mem_append.mp hc1m with hm | hm
        · have := List.find?_eq_none.mp hnone c1 hm
          simp [hc1u] at this
        · exact List.mem_singleton.mp hm
    obtain ⟨hgen, hcm, hcu, huniq, hnotnew, hr1⟩ := hkey
    have hother : db1.allocs = db.allocs ∧ db1.rcs = db.rcs := by
      have := ensureConsumer_other cfg db mv c; rwa [hens] at this
    -- the allocation objects: the consumer's stored allocations with amount 0
    have hcur : db1.consByUuid cons.uuid = some cons := by
      cases hf : db1.consByUuid cons.uuid with
      | none => have := List.find?_eq_none.mp hf cons hcm; simp at this
      | some y =>
        obtain ⟨hy, hyu⟩ := consByUuid_some hf
        rw [huniq y hy (hyu.trans hcu)]
    unfold allocObjects at hobj
    rw [if_pos (by simp [he]), hcur] at hobj
    simp only [Except.ok.injEq] at hobj
    have hcons : ∀ o ∈ objs, o.consId = cons.id ∧ o.consGen = cons.gen := by
      intro o ho
      rw [← hobj] at ho
      obtain ⟨a, -, hao⟩ := List.mem_filterMap.mp ho
      split at hao
      · simp only [Option.some.injEq] at hao; subst hao; exact ⟨rfl, rfl⟩
      · cases hao
    by_cases hnil : objs = []
    · -- nothing to remove: only possible for a consumer created by this request, which is deleted again
      cases hcr : created with
      | false =>
        exfalso
        rcases hex with hnone | ⟨a, ha, hac, hrp, hrc⟩
        · rw [hnotnew hcr] at hnone; cases hnone
        · have hmem : a ∈ db1.allocs.filter (·.consumer == cons.uuid) := by
            rw [hother.1]; exact List.mem_filter.mpr ⟨ha, by simp [hac, hcu]⟩
          have hrp1 : (db1.rpById a.rp).isSome := by
            have : db1.rpById a.rp = db.rpById a.rp := by
              show db1.rps.find? _ = db.rps.find? _; rw [hr1]
            rw [this]; exact hrp
          have hrc1 : (db1.rcName a.rc).isSome := by
            have : db1.rcName a.rc = db.rcName a.rc := by
              show (db1.rcs.find? _).map _ = (db.rcs.find? _).map _; rw [hother.2]
            rw [this]; exact hrc
          obtain ⟨rp, hrp2⟩ := Option.isSome_iff_exists.mp hrp1
          obtain ⟨n, hn2⟩ := Option.isSome_iff_exists.mp hrc1
          have : ∃ o, o ∈ objs := by
            rw [← hobj]
            exact ⟨_, List.mem_filterMap.mpr ⟨a, hmem, by rw [hrp2, hn2]⟩⟩
          rw [hnil] at this
          obtain ⟨o, ho⟩ := this; cases ho
      | true =>
        left
        rw [hres, hcr, hnil]
        show (deleteConsumerRows db3 [cons.id]).consByUuid c.uuid = none
        obtain ⟨f, hf, hg2⟩ := updateConsumer_spec db1 cons attr
        have hc2 : (updateConsumer db1 cons attr).consumers = db1.consumers.map f := congrArg GCore.consumers hg2
        have hids2 : ((updateConsumer db1 cons attr).consumers.map (·.id)) = db1.consumers.map (·.id) := by
          rw [hc2, List.map_map]; apply List.map_congr_left; intro x _; exact (hf x).1
        rw [hnil] at h3
        obtain ⟨db2', db3', db4', hg', h3', h4', rfl⟩ := setAllocations_ok h3
        simp only [List.map_nil, firstByKey, incRpGens, incConsGens, Except.ok.injEq] at h3' h4'
        subst h3'; subst h4'
        have hcB : db2'.consumers = (updateConsumer db1 cons attr).consumers := congrArg GCore.consumers hg'
        apply List.find?_eq_none.mpr
        intro x hx
        simp only [deleteConsumerRows, deleteConsumersIfNoAllocs, List.mem_filter] at hx
        obtain ⟨⟨hx1, -⟩, hx2⟩ := hx
        rw [hcB, hc2] at hx1
        obtain ⟨c1, hc1m, rfl⟩ := List.mem_map.mp hx1
        intro hxu
        have hu1 : c1.uuid = c.uuid := by rw [← (hf c1).2.2]; simpa using hxu
        have : c1 = cons := huniq c1 hc1m hu1
        subst this
        simp [(hf c1).1] at hx2
    · have hres' : (hAllocPut cfg db mv c).1 = db3 := by
        rw [hres]; dsimp only
        have : objs.isEmpty = false := by cases objs with | nil => exact absurd rfl hnil | cons _ _ => rfl
        rw [this, Bool.and_false]; rfl
      rw [hres', ← hgen]
      exact allocPut_cons_tail huniq h3 hnil hcons
  · exact ok_false_of_400 h hst

/-- in a state without dangling records (C08) where consumers exist only with allocations (C12) the
side condition of `allocPut_clear_consumer` holds -/
theorem clear_side_condition {db : DB R} (hRI : RI db) (hCI : ConsIff db) (u : Nat) :
    db.consByUuid u = none ∨
      ∃ a ∈ db.allocs, a.consumer = u ∧ (db.rpById a.rp).isSome ∧ (db.rcName a.rc).isSome := by
  cases hf : db.consByUuid u with
  | none => exact .inl rfl
  | some x =>
    right
    obtain ⟨hx, hxu⟩ := consByUuid_some hf
    obtain ⟨a, ha, hac⟩ := (hCI u).mp ⟨x, hx, hxu⟩
    refine ⟨a, ha, hac, ?_, ?_⟩
    · obtain ⟨r, hr, hrid⟩ := hRI.allocRp a ha
      show (db.rps.find? _).isSome
      rw [List.find?_isSome]; exact ⟨r, hr, by simp [hrid]⟩
    · obtain ⟨i, hi, -, hirc⟩ := hRI.allocInv a ha
      obtain ⟨p, hp, hpid⟩ := hRI.invRc i hi
      show ((db.rcs.find? _).map _).isSome
      rw [Option.isSome_map, List.find?_isSome]; exact ⟨p, hp, by simp [hpid, hirc]⟩

end Placement.Gens
