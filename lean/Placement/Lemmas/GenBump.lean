import Placement.Lemmas.Gen
/-
  C10, part 2: which generation a successful write raises, and by how much.  For each handler a
  `_cases` lemma: either the request succeeded through the named object function, or the state is
  unchanged and the status is an error.
-/
namespace Placement.Gens
open Placement.Hier
variable {R : Type}
set_option linter.unusedSectionVars false
set_option linter.unusedSimpArgs false

/-- the provider table after one successful `increment_generation(id, gen)` -/
def bumpRps (t : List RpRow) (id gen : Nat) : List RpRow :=
  t.map (fun r => if r.id == id then { r with gen := gen + 1 } else r)

theorem cas_rps {db0 db db' : DB R} {id gen : Nat} (hg : db0.gcore = db.gcore)
    (h : incRpGen db0 id gen = .ok db') :
    db'.rps = bumpRps db.rps id gen ∧ db'.consumers = db.consumers ∧
    db'.nextRp = db.nextRp ∧ db'.nextCons = db.nextCons := by
  obtain ⟨-, rfl⟩ := incRpGen_ok h
  simp only [DB.gcore, GCore.mk.injEq] at hg
  obtain ⟨h1, h2, h3, h4⟩ := hg
  exact ⟨by simp only [DB.setRp, bumpRps, h1], h3, h2, h4⟩

theorem find_uuid_bump {t : List RpRow} {u id gen : Nat} {rp : RpRow}
    (h : t.find? (·.uuid == u) = some rp) (hid : rp.id = id) :
    (bumpRps t id gen).find? (·.uuid == u) = some { rp with gen := gen + 1 } := by
  unfold bumpRps
  rw [List.find?_map]
  have : ((fun r : RpRow => r.uuid == u) ∘ fun r => if r.id == id then { r with gen := gen + 1 } else r)
      = (fun r : RpRow => r.uuid == u) := by
    funext r; simp only [Function.comp]; split <;> rfl
  rw [this, h]; simp [hid]

theorem mem_bumpRps {t : List RpRow} {id gen : Nat} {r' : RpRow} (h : r' ∈ bumpRps t id gen) :
    ∃ r ∈ t, r'.id = r.id ∧ r'.uuid = r.uuid ∧ ((r.id = id ∧ r'.gen = gen + 1) ∨ (r.id ≠ id ∧ r' = r)) := by
  obtain ⟨r, hr, rfl⟩ := List.mem_map.mp h
  by_cases hid : r.id = id
  · exact ⟨r, hr, by simp [hid], by simp [hid], .inl ⟨hid, by simp [hid]⟩⟩
  · exact ⟨r, hr, by simp [hid], by simp [hid], .inr ⟨hid, by simp [hid]⟩⟩

/-! ### inventories -/

section
variable [CapOps R]

theorem hInvSet_cases (db : DB R) (mv uuid gen : Nat) (invs : List (InvSpec R)) :
    (∃ rp db', db.rpByUuid uuid = some rp ∧ gen = rp.gen ∧ setInventory db rp.id rp.gen invs = .ok db' ∧
        hInvSet db mv uuid gen invs = (db', r200)) ∨
    ((hInvSet db mv uuid gen invs).1 = db ∧ 400 ≤ (hInvSet db mv uuid gen invs).2.status) := by
  unfold hInvSet
  repeat' split
  all_goals first
    | exact .inr ⟨rfl, by simp [r400, r404, r409, r500]⟩
    | skip
  rename_i rp hrp hg _ _ db' heq
  exact .inl ⟨rp, db', hrp, by simpa using hg, heq, rfl⟩

theorem hInvAdd_cases (db : DB R) (mv uuid : Nat) (inv : InvSpec R) :
    (∃ rp db', db.rpByUuid uuid = some rp ∧ addInventory db rp.id rp.gen inv = .ok db' ∧
        hInvAdd db mv uuid inv = (db', r201)) ∨
    ((hInvAdd db mv uuid inv).1 = db ∧ 400 ≤ (hInvAdd db mv uuid inv).2.status) := by
  unfold hInvAdd
  repeat' split
  all_goals first
    | exact .inr ⟨rfl, by simp [r400, r404, r409, r500]⟩
    | skip
  rename_i rp hrp _ _ db' heq
  exact .inl ⟨rp, db', hrp, heq, rfl⟩

theorem hInvUpdate_cases (db : DB R) (mv uuid gen : Nat) (inv : InvSpec R) :
    (∃ rp db', db.rpByUuid uuid = some rp ∧ gen = rp.gen ∧ updateInventory db rp.id rp.gen inv = .ok db' ∧
        hInvUpdate db mv uuid gen inv = (db', r200)) ∨
    ((hInvUpdate db mv uuid gen inv).1 = db ∧ 400 ≤ (hInvUpdate db mv uuid gen inv).2.status) := by
  unfold hInvUpdate
  repeat' split
  all_goals first
    | exact .inr ⟨rfl, by simp [r400, r404, r409, r500]⟩
    | skip
  rename_i rp hrp hg _ _ db' heq
  exact .inl ⟨rp, db', hrp, by simpa using hg, heq, rfl⟩

theorem hInvDelete_cases (db : DB R) (uuid rc : Nat) :
    (∃ rp db', db.rpByUuid uuid = some rp ∧ deleteInventory db rp.id rp.gen rc = .ok db' ∧
        hInvDelete db uuid rc = (db', r204)) ∨
    ((hInvDelete db uuid rc).1 = db ∧ 400 ≤ (hInvDelete db uuid rc).2.status) := by
  unfold hInvDelete
  repeat' split
  all_goals first
    | exact .inr ⟨rfl, by simp [r400, r404, r409, r500]⟩
    | skip
  rename_i rp hrp _ db' heq
  exact .inl ⟨rp, db', hrp, heq, rfl⟩

theorem hInvDeleteAll_cases (db : DB R) (mv uuid : Nat) :
    (∃ rp db', db.rpByUuid uuid = some rp ∧ setInventory db rp.id rp.gen [] = .ok db' ∧
        hInvDeleteAll db mv uuid = (db', r204)) ∨
    ((hInvDeleteAll db mv uuid).1 = db ∧ 400 ≤ (hInvDeleteAll db mv uuid).2.status) := by
  unfold hInvDeleteAll
  repeat' split
  all_goals first
    | exact .inr ⟨rfl, by simp [r400, r404, r409, r500]⟩
    | skip
  rename_i rp hrp _ db' heq
  exact .inl ⟨rp, db', hrp, heq, rfl⟩

theorem hRpTraitsSet_cases (db : DB R) (uuid gen : Nat) (ts : List Nat) :
    (∃ rp db', db.rpByUuid uuid = some rp ∧ rp.gen = gen ∧ setTraits db rp.id rp.gen ts = .ok db' ∧
        hRpTraitsSet db uuid gen ts = (db', r200)) ∨
    ((hRpTraitsSet db uuid gen ts).1 = db ∧ 400 ≤ (hRpTraitsSet db uuid gen ts).2.status) := by
  unfold hRpTraitsSet
  repeat' split
  all_goals first
    | exact .inr ⟨rfl, by simp [r400, r404, r409, r500]⟩
    | skip
  rename_i rp hrp hg _ _ db' heq
  exact .inl ⟨rp, db', hrp, by simpa using hg, heq, rfl⟩

theorem hRpTraitsDelete_cases (db : DB R) (uuid : Nat) :
    (∃ rp db', db.rpByUuid uuid = some rp ∧ setTraits db rp.id rp.gen [] = .ok db' ∧
        hRpTraitsDelete db uuid = (db', r204)) ∨
    ((hRpTraitsDelete db uuid).1 = db ∧ 400 ≤ (hRpTraitsDelete db uuid).2.status) := by
  unfold hRpTraitsDelete
  repeat' split
  all_goals first
    | exact .inr ⟨rfl, by simp [r400, r404, r409, r500]⟩
    | skip
  rename_i rp hrp _ db' heq
  exact .inl ⟨rp, db', hrp, heq, rfl⟩

theorem hAggsSet_cases (db : DB R) (mv uuid : Nat) (gen : Option Nat) (aggs : List Nat) :
    (∃ rp db', db.rpByUuid uuid = some rp ∧ (19 ≤ mv → gen = some rp.gen) ∧
        setAggregates db rp.id rp.gen aggs (decide (mv ≥ 19)) = .ok db' ∧
        hAggsSet db mv uuid gen aggs = (db', r200)) ∨
    ((hAggsSet db mv uuid gen aggs).1 = db ∧ 400 ≤ (hAggsSet db mv uuid gen aggs).2.status) := by
  unfold hAggsSet
  dsimp only
  repeat' split
  all_goals first
    | exact .inr ⟨rfl, by simp [r400, r404, r409, r500]⟩
    | skip
  rename_i _ rp hrp hg _ db' heq
  refine .inl ⟨rp, db', hrp, ?_, heq, rfl⟩
  intro hmv
  simpa [hmv] using hg

end

/-- one successful CAS after a change that leaves providers and consumers alone: exactly the
provider's generation goes up by one -/
theorem bump_of_cas {db db0 db' : DB R} {uuid : Nat} {rp : RpRow} (hrp : db.rpByUuid uuid = some rp)
    (hg : db0.gcore = db.gcore) (h : incRpGen db0 rp.id rp.gen = .ok db') :
    db'.rps = bumpRps db.rps rp.id rp.gen ∧ db'.consumers = db.consumers ∧
    db'.rpByUuid uuid = some { rp with gen := rp.gen + 1 } := by
  obtain ⟨h1, h2, -, -⟩ := cas_rps hg h
  refine ⟨h1, h2, ?_⟩
  show db'.rps.find? (·.uuid == uuid) = _
  rw [h1]; exact find_uuid_bump hrp rfl

theorem isEmpty_eraseDups (l : List Nat) : l.eraseDups.isEmpty = l.isEmpty := by
  cases l with
  | nil => rfl
  | cons a l => simp [List.eraseDups_cons]

/-- `_set_traits` takes its early exit exactly when the requested set equals the stored one -/
theorem traitsUnchanged_iff (db : DB R) (rp : Nat) (ts : List Nat) :
    traitsUnchanged db rp ts = true ↔ ∀ t, t ∈ ts ↔ t ∈ db.traitsOf rp := by
  unfold traitsUnchanged
  rw [isEmpty_eraseDups]
  simp only [Bool.and_eq_true, List.isEmpty_iff, List.filter_eq_nil_iff, Bool.not_eq_true',
    Bool.not_eq_eq_eq_not, Bool.not_false, Bool.not_true, List.contains_iff_mem, decide_eq_true_eq]
  constructor
  · rintro ⟨h1, h2⟩ t
    exact ⟨fun h => by simpa using h1 t h, fun h => by simpa using h2 t h⟩
  · intro h
    exact ⟨fun t ht => by simpa using (h t).mp ht, fun t ht => by simpa using (h t).mpr ht⟩

/-! ### the CAS loops of `_set_allocations` -/

theorem firstByKey_keys (l : List (Nat × Nat)) : ∀ k, k ∈ (firstByKey l).map (·.1) ↔ k ∈ l.map (·.1) := by
  induction l with
  | nil => intro k; simp [firstByKey]
  | cons p l ih =>
    obtain ⟨k0, v0⟩ := p
    intro k
    simp only [firstByKey, List.map_cons, List.mem_cons, List.mem_map, List.mem_filter]
    constructor
    · rintro (h | ⟨q, ⟨hq, -⟩, rfl⟩)
      · exact .inl h
      · exact .inr ((ih q.1).mp (List.mem_map.mpr ⟨q, hq, rfl⟩) |> fun h => by simpa using h)
    · rintro (h | ⟨q, hq, rfl⟩)
      · exact .inl h
      · by_cases hk : q.1 = k0
        · exact .inl hk
        · obtain ⟨q', hq', hq'k⟩ := List.mem_map.mp ((ih q.1).mpr (List.mem_map.mpr ⟨q, hq, rfl⟩))
          exact .inr ⟨q', ⟨hq', by simp [hq'k, hk]⟩, hq'k⟩

theorem firstByKey_nodup (l : List (Nat × Nat)) : ((firstByKey l).map (·.1)).Nodup := by
  induction l with
  | nil => simp [firstByKey]
  | cons p l ih =>
    obtain ⟨k0, v0⟩ := p
    simp only [firstByKey, List.map_cons, List.nodup_cons]
    constructor
    · intro h
      obtain ⟨q, hq, hqk⟩ := List.mem_map.mp h
      have := (List.mem_filter.mp hq).2
      simp [hqk] at this
    · exact ih.sublist (List.filter_sublist.map _)

/-- the provider table after `incRpGens`: every listed provider one generation further -/
def bumpAll (t : List RpRow) (keys : List Nat) : List RpRow :=
  t.map (fun r => if keys.contains r.id then { r with gen := r.gen + 1 } else r)

theorem incRpGens_rps : ∀ {l : List (Nat × Nat)} {db db' : DB R}, incRpGens db l = .ok db' →
    (db.rps.map (·.id)).Nodup → (l.map (·.1)).Nodup →
    db'.rps = bumpAll db.rps (l.map (·.1)) ∧ db'.consumers = db.consumers
  | [], db, db', h, _, _ => by
    simp only [incRpGens, Except.ok.injEq] at h; subst h
    exact ⟨by simp [bumpAll], rfl⟩
  | (id, gen) :: rest, db, db', h, hn, hk => by
    simp only [incRpGens, bind, Except.bind] at h
    split at h
    · cases h
    · rename_i db1 h1
      obtain ⟨⟨r0, hr0, hid0, hgen0⟩, rfl⟩ := incRpGen_ok h1
      rw [List.map_cons, List.nodup_cons] at hk
      have hids : ((db.setRp id fun r => { r with gen := gen + 1 }).rps.map (·.id)) = db.rps.map (·.id) := by
        simp only [DB.setRp, List.map_map]; apply List.map_congr_left; intro r _
        simp only [Function.comp]; split <;> rfl
      obtain ⟨ih1, ih2⟩ := incRpGens_rps h (by rw [hids]; exact hn) hk.2
      refine ⟨?_, ih2⟩
      rw [ih1]
      simp only [bumpAll, DB.setRp, List.map_map, List.map_cons]
      generalize List.map (fun x : Nat × Nat => x.fst) rest = ks at hk ⊢
      apply List.map_congr_left
      intro r hr
      simp only [Function.comp]
      rw [List.contains_cons]
      by_cases hid : r.id = id
      · have : r = r0 := uniqId_of_nodup hn r hr r0 hr0 (hid.trans hid0.symm)
        subst this
        have hnot : ks.contains id = false := by
          cases hc : ks.contains id with
          | false => rfl
          | true => exact absurd (List.contains_iff_mem.mp hc) hk.1
        have h1 : (r.id == id) = true := by simp [hid]
        simp only [h1, ↓reduceIte, Bool.true_or]
        rw [hid, hnot, hgen0]
        simp
      · have h1 : (r.id == id) = false := by simp [hid]
        simp only [h1, Bool.false_or, Bool.false_eq_true, ↓reduceIte]

theorem incConsGens_rps : ∀ {l : List (Nat × Nat)} {db db' : DB R}, incConsGens db l = .ok db' →
    db'.rps = db.rps
  | [], db, db', h => by simp only [incConsGens, Except.ok.injEq] at h; subst h; rfl
  | (id, gen) :: rest, db, db', h => by
    simp only [incConsGens, bind, Except.bind] at h
    split at h
    · cases h
    · rename_i db1 h1
      obtain ⟨-, rfl⟩ := incConsGen_ok h1
      exact (incConsGens_rps h).trans rfl

section
variable [CapOps R]

/-- providers after a successful `_set_allocations`: every provider named by an allocation object
is one generation further, nothing else differs -/
theorem setAllocations_rps {db db' : DB R} {allocs : List AllocReq} (h : setAllocations db allocs = .ok db')
    (hn : (db.rps.map (·.id)).Nodup) :
    db'.rps = bumpAll db.rps ((firstByKey (allocs.map (fun a => (a.rpId, a.rpGen)))).map (·.1)) := by
  obtain ⟨db2, db3, db4, hg, h3, h4, rfl⟩ := setAllocations_ok h
  have h2 : db2.rps = db.rps := congrArg GCore.rps hg
  obtain ⟨h5, -⟩ := incRpGens_rps h3 (by rw [h2]; exact hn) (firstByKey_nodup _)
  show db4.rps = _
  rw [incConsGens_rps h4, h5, h2]

end

theorem mem_bumpAll_keys {t : List RpRow} {keys : List Nat} {u : Nat} {rp : RpRow}
    (h : t.find? (·.uuid == u) = some rp) (hk : rp.id ∈ keys) :
    (bumpAll t keys).find? (·.uuid == u) = some { rp with gen := rp.gen + 1 } := by
  unfold bumpAll
  rw [List.find?_map]
  have : ((fun r : RpRow => r.uuid == u) ∘ fun r => if keys.contains r.id then { r with gen := r.gen + 1 } else r)
      = (fun r : RpRow => r.uuid == u) := by
    funext r; simp only [Function.comp]; split <;> rfl
  rw [this, h]; simp [hk]

end Placement.Gens
