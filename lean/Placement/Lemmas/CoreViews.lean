import Placement.Lemmas.CoreBase
/-
  C11, view agreement on the stored rows: regrouping a table by a key is a permutation of the table;
  sums over the table are sums over the groups.
-/
namespace Placement.Core
variable {R : Type}
set_option linter.unusedSectionVars false
set_option linter.unusedSimpArgs false

theorem perm_sum_int {l₁ l₂ : List Int} (h : l₁.Perm l₂) : l₁.sum = l₂.sum := by
  induction h with
  | nil => rfl
  | cons x _ ih => simp only [List.sum_cons, ih]
  | swap x y l => simp only [List.sum_cons]; omega
  | trans _ _ ih1 ih2 => exact ih1.trans ih2

/-- regrouping a table by a key whose values all lie in a duplicate-free list of keys gives the
table back, up to the order of rows -/
theorem regroup_perm {α : Type} (key : α → Nat) : ∀ (ks : List Nat) (l : List α), ks.Nodup →
    (∀ a ∈ l, key a ∈ ks) → (ks.flatMap (fun k => l.filter (fun a => key a == k))).Perm l
  | [], l, _, h => by
    cases l with
    | nil => exact List.Perm.refl _
    | cons a l => exact absurd (h a (List.mem_cons_self ..)) (by simp)
  | k :: ks, l, hnd, h => by
    rw [List.flatMap_cons]
    have hk : k ∉ ks := (List.nodup_cons.mp hnd).1
    have e : ks.flatMap (fun k' => l.filter (fun a => key a == k')) =
        ks.flatMap (fun k' => (l.filter (fun a => !(key a == k))).filter (fun a => key a == k')) := by
      rw [List.flatMap_def, List.flatMap_def]
      congr 1
      apply List.map_congr_left
      intro k' hk'
      rw [List.filter_filter]
      apply List.filter_congr
      intro a _
      by_cases e : key a = k'
      · have : key a ≠ k := fun e2 => hk (e2 ▸ e ▸ hk')
        simp [e, this]
        exact fun e3 => this (e ▸ e3)
      · simp [e]
    have ih := regroup_perm key ks (l.filter (fun a => !(key a == k))) (List.nodup_cons.mp hnd).2 (by
      intro a ha
      obtain ⟨ha1, ha2⟩ := List.mem_filter.mp ha
      rcases List.mem_cons.mp (h a ha1) with e | e
      · simp [e] at ha2
      · exact e)
    rw [e]
    exact (List.Perm.append (List.Perm.refl _) ih).trans (List.filter_append_perm _ l)

/-- a sum over selected rows of the regrouped table is the sum of the groups' sums -/
theorem sum_flatMap_filter {α : Type} (g : Nat → List α) (p : α → Bool) (f : α → Int) : ∀ (ks : List Nat),
    (((ks.flatMap g).filter p).map f).sum = (ks.map (fun k => (((g k).filter p).map f).sum)).sum
  | [] => rfl
  | k :: ks => by
    rw [List.flatMap_cons, List.filter_append, List.map_append, List.sum_append_int, List.map_cons,
      List.sum_cons, sum_flatMap_filter g p f ks]

/-- a sum over selected rows is the sum, over the keys, of the selected rows with that key -/
theorem sum_by_key {α : Type} (key : α → Nat) (ks : List Nat) (l : List α) (hnd : ks.Nodup)
    (hall : ∀ a ∈ l, key a ∈ ks) (p : α → Bool) (f : α → Int) :
    ((l.filter p).map f).sum =
      (ks.map (fun k => (((l.filter (fun a => key a == k)).filter p).map f).sum)).sum := by
  rw [← sum_flatMap_filter (fun k => l.filter (fun a => key a == k)) p f ks]
  exact (perm_sum_int (((regroup_perm key ks l hnd hall).filter p).map f)).symm

theorem sum_map_ite_filter {β : Type} (sel : β → Bool) (X : β → Int) : ∀ (l : List β),
    (l.map (fun c => if sel c then X c else 0)).sum = ((l.filter sel).map X).sum
  | [] => rfl
  | c :: l => by
    rw [List.map_cons, List.sum_cons, sum_map_ite_filter sel X l, List.filter_cons]
    cases sel c <;> simp

/-- looking a consumer up by the uuid of a stored row returns that row -/
theorem consByUuid_self {db : DB R} (hU : (db.consumers.map (·.uuid)).Nodup) {c : ConsRow}
    (hc : c ∈ db.consumers) : db.consByUuid c.uuid = some c := by
  unfold DB.consByUuid
  cases h : db.consumers.find? (·.uuid == c.uuid) with
  | none =>
    have := List.find?_eq_none.mp h c hc
    simp at this
  | some c' =>
    have h1 := List.mem_of_find?_eq_some h
    have h2 : c'.uuid = c.uuid := by simpa using List.find?_some h
    rw [Gens.eq_of_nodup_uuid hU c' h1 c hc h2]

end Placement.Core
