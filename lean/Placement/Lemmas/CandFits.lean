import Placement.Lemmas.CandAmounts
import Placement.Lemmas.CandAccept
import Placement.Lemmas.FiltAlgo
import Placement.Spec.Inv
/-
  Every entry of an allocation request satisfying `IsCandidate` fits its inventory in the sense of
  `_check_capacity_exceeded` (`Accept.Fits`): used by `candidate_accepted` (Props/C02.lean).
-/
namespace Placement.Spec

open Placement.Accept

variable {R : Type}

/-! ### look-ups by a unique key -/

theorem find?_of_nodup_key {α κ : Type} [DecidableEq κ] (k : α → κ) : ∀ {l : List α}, (l.map k).Nodup →
    ∀ {x : α}, x ∈ l → l.find? (fun y => k y == k x) = some x
  | [], _, _, hx => by cases hx
  | y :: ys, hn, x, hx => by
    rw [List.map_cons, List.nodup_cons] at hn
    rw [List.find?_cons]
    rcases List.mem_cons.mp hx with rfl | hx'
    · simp
    · have hne : (k y == k x) = false := by
        rw [beq_eq_false_iff_ne]
        intro e
        exact hn.1 (e ▸ List.mem_map_of_mem hx')
      rw [hne]
      exact find?_of_nodup_key k hn.2 hx'

theorem rpById_of_mem {db : DB R} (hn : (db.rps.map (·.id)).Nodup) {p : RpRow} (hp : p ∈ db.rps) :
    db.rpById p.id = some p := by
  unfold DB.rpById
  exact find?_of_nodup_key (fun r : RpRow => r.id) hn hp

theorem rpByUuid_of_mem {db : DB R} (hn : (db.rps.map (·.uuid)).Nodup) {p : RpRow} (hp : p ∈ db.rps) :
    db.rpByUuid p.uuid = some p := by
  unfold DB.rpByUuid
  exact find?_of_nodup_key (fun r : RpRow => r.uuid) hn hp

theorem invOf_of_mem {db : DB R} (hn : (db.invs.map (fun i => (i.rp, i.rc))).Nodup) {i : InvRow R} (hi : i ∈ db.invs) :
    db.invOf i.rp i.rc = some i := by
  have := find?_of_nodup_key (fun i : InvRow R => (i.rp, i.rc)) hn hi
  unfold DB.invOf
  rw [← this]
  congr 1
  funext j
  cases h1 : (j.rp == i.rp) <;> cases h2 : (j.rc == i.rc) <;>
    simp only [beq_iff_eq, beq_eq_false_iff_ne, ne_eq] at h1 h2 <;> simp [h1, h2]

theorem rcName_of_mem {db : DB R} (hn : (db.rcs.map (·.1)).Nodup) {p : Nat × Nat} (hp : p ∈ db.rcs) :
    db.rcName p.1 = some p.2 := by
  unfold DB.rcName
  rw [find?_of_nodup_key (fun p : Nat × Nat => p.1) hn hp]; rfl

theorem rcId_of_mem {db : DB R} (hn : (db.rcs.map (·.2)).Nodup) {p : Nat × Nat} (hp : p ∈ db.rcs) :
    db.rcId p.2 = some p.1 := by
  unfold DB.rcId
  rw [find?_of_nodup_key (fun p : Nat × Nat => p.2) hn hp]; rfl

/-! ### sums of amounts that each respect the unit grid -/

theorem sum_filter_good (mi st : Int) (k : Nat × Nat) : ∀ (l : Amounts),
    (∀ y ∈ l, y.1 = k → 1 ≤ y.2 ∧ mi ≤ y.2 ∧ y.2 % st = 0) → (∃ y ∈ l, y.1 = k) →
    1 ≤ amountAt l k ∧ mi ≤ amountAt l k ∧ amountAt l k % st = 0
  | [], _, h => by obtain ⟨y, hy, _⟩ := h; cases hy
  | y :: ys, hall, _ => by
    unfold amountAt
    rw [sumBy_cons]
    by_cases hrest : ∃ z ∈ ys, z.1 = k
    · have ih := sum_filter_good mi st k ys (fun z hz => hall z (List.mem_cons_of_mem _ hz)) hrest
      unfold amountAt at ih
      by_cases hy : y.1 = k
      · have hg := hall y List.mem_cons_self hy
        simp only [hy, beq_self_eq_true, if_true]
        refine ⟨by omega, by omega, ?_⟩
        rw [Int.add_emod, hg.2.2, ih.2.2]; simp
      · have : (y.1 == k) = false := by simpa using hy
        simp only [this, Bool.false_eq_true, if_false, Int.zero_add]
        exact ih
    · have hzero : sumBy (fun k' => k' == k) ys = 0 := by
        unfold sumBy
        have : ys.filter (fun x => x.1 == k) = [] := by
          rw [List.filter_eq_nil_iff]
          intro z hz hzk
          exact hrest ⟨z, hz, by simpa using hzk⟩
        rw [this]; rfl
      rw [hzero]
      have hy : y.1 = k := by
        rename_i h
        obtain ⟨z, hz, hzk⟩ := h
        rcases List.mem_cons.mp hz with rfl | hz'
        · exact hzk
        · exact absurd ⟨z, hz', hzk⟩ hrest
      have hg := hall y List.mem_cons_self hy
      simp only [hy, beq_self_eq_true, if_true, Int.add_zero]
      exact hg

variable [CapOps R]

/-- every placement of a candidate has room on the inventory of its key -/
theorem placement_room {db : DB R} {q : Query} {r : RpRow} {ps us : List RpRow}
    (hps : Forall₂ (fun g p => p ∈ db.rps ∧ GroupSat db q r g p) q.groups ps)
    (hus : Forall₂ (fun e u => u ∈ db.rps ∧ EntrySat db q r q.g0 e u) q.unsuffRes us)
    {y : (Nat × Nat) × Int} (hy : y ∈ placements q ps us) : room db y.1.1 y.1.2 y.2 ∧ (y.1.2, y.2) ∈ q.allRes := by
  unfold placements at hy
  rcases List.mem_append.mp hy with hy | hy
  · obtain ⟨gp, hgp, hy⟩ := List.mem_flatMap.mp hy
    obtain ⟨e, he, rfl⟩ := List.mem_map.mp hy
    refine ⟨(hps.zip gp hgp).2.2.1 e he, ?_⟩
    unfold Query.allRes
    exact List.mem_append.mpr (Or.inl (List.mem_flatMap.mpr ⟨gp.1, (List.of_mem_zip hgp).1, he⟩))
  · obtain ⟨eu, heu, rfl⟩ := List.mem_map.mp hy
    refine ⟨(hus.zip eu heu).2.1, ?_⟩
    unfold Query.allRes
    exact List.mem_append.mpr (Or.inr (List.of_mem_zip heu).1)

theorem alloc_providers_exist (db : DB R) (q : Query) (c : Candidate) (hc : IsCandidate db q c) :
    ∀ x ∈ c.alloc, ∃ p ∈ db.rps, p.id = x.1.1 := by
  obtain ⟨r, _, _, ps, us, hps, hus, _, _, rfl⟩ := hc
  intro x hx
  have hk : x.1 ∈ (consolidate (placements q ps us)).map (·.1) := List.mem_map_of_mem hx
  rw [mem_consolidate_key] at hk
  obtain ⟨y, hy, hyk⟩ := List.mem_map.mp hk
  unfold placements at hy
  rcases List.mem_append.mp hy with hy | hy
  · obtain ⟨gp, hgp, hy⟩ := List.mem_flatMap.mp hy
    obtain ⟨e, _, rfl⟩ := List.mem_map.mp hy
    exact ⟨gp.2, (hps.zip gp hgp).1, by rw [← hyk]⟩
  · obtain ⟨eu, heu, rfl⟩ := List.mem_map.mp hy
    exact ⟨eu.2, (hus.zip eu heu).1, by rw [← hyk]⟩

theorem alloc_keys_nodup (db : DB R) (q : Query) (c : Candidate) (hc : IsCandidate db q c) :
    (c.alloc.map (·.1)).Nodup := by
  obtain ⟨r, _, _, ps, us, _, _, _, _, rfl⟩ := hc
  exact (consolidate_sorted _).nodup_keys

/-- every entry of a candidate passes the capacity loop of `_check_capacity_exceeded` -/
theorem candidate_entry_fits (db : DB R) (hinv : (db.invs.map (fun i => (i.rp, i.rc))).Nodup) (q : Query)
    (hq : ∀ e ∈ q.allRes, 1 ≤ e.2) (c : Candidate) (hc : IsCandidate db q c) :
    ∀ x ∈ c.alloc, Fits db (x.1.1, x.1.2, x.2) := by
  obtain ⟨r, _, _, ps, us, hps, hus, _, hj, rfl⟩ := hc
  intro x hx
  obtain ⟨i, hi, hirp, hirc, hcap, hmax⟩ := hj.2.2.1 x hx
  have hx2 : x.2 = amountAt (placements q ps us) x.1 := consolidate_entry hx
  have hkey : x.1 ∈ (placements q ps us).map (·.1) :=
    (mem_consolidate_key _ _).mp (List.mem_map_of_mem hx)
  obtain ⟨y0, hy0, hy0k⟩ := List.mem_map.mp hkey
  have hgood := sum_filter_good i.minUnit i.stepSize x.1 (placements q ps us) (by
    intro y hy hyk
    obtain ⟨hroom, hres⟩ := placement_room hps hus hy
    obtain ⟨i', hi', hrp', hrc', _, hmin', _, hstep'⟩ := hroom
    have : i' = i := by
      have e : (fun i : InvRow R => (i.rp, i.rc)) i' = (fun i : InvRow R => (i.rp, i.rc)) i := by
        simp only [hrp', hrc', hirp, hirc, hyk]
      exact eq_of_nodup_map _ hinv hi' hi e
    subst this
    exact ⟨hq _ hres, hmin', hstep'⟩) ⟨y0, hy0, hy0k⟩
  rw [← hx2] at hgood
  refine ⟨i, ?_, (by show x.2 ≠ 0; omega), ?_, hcap⟩
  · have := invOf_of_mem hinv hi
    rw [hirp, hirc] at this
    exact this
  · simp only [unitViolated, Bool.or_eq_false_iff, decide_eq_false_iff_not, Int.not_lt, bne_eq_false_iff_eq]
    exact ⟨⟨hgood.2.1, by omega⟩, hgood.2.2⟩

end Placement.Spec
