import Placement.Lemmas.FaultL3
/-
  Helper lemmas for C17, part 4: a deadlock WITH server-side rollback that fires after provider
  generations were already incremented (positions `firstIncPos < k ≤ firstIncPos + #providers`), for a
  request whose `update_consumers` writes nothing and whose fault-free write succeeds, on a database
  with unique provider ids.

  After the rollback the database is the start database but the provider OBJECTS carry `g + 1`: the
  re-run fails its first compare-and-swap (`ResourceProviderConcurrentUpdateDetected`), `replace_all`
  re-reads the providers from the committed state (`g` again) and the next attempt, on top of
  DELETE/INSERT partial effects only, is the fault-free attempt (`mainTxn_rollback_mid`).
-/
namespace Placement.FaultL
open Placement Placement.Fault
set_option linter.unusedSectionVars false

/-! ### generic: a fault position beyond a prefix; invariants of a completed run -/

theorem runBody_append_some {σ : Type} : ∀ (a b : List (Stmt σ)) (s : σ) (k : Nat), a.length ≤ k →
    runBody (a ++ b) s (some k) =
      match runBody a s none with
      | .done s' => runBody b s' (some (k - a.length))
      | o => o
  | [], b, s, k, _ => by simp
  | st :: rest, b, s, 0, h => by simp at h
  | st :: rest, b, s, k + 1, h => by
    rw [List.cons_append, runBody_cons_succ, runBody_cons_none]
    cases hs : st s with
    | error e => rfl
    | ok s' =>
      dsimp only
      rw [runBody_append_some rest b s' k (by simpa using h)]
      simp [Nat.add_sub_add_right]

theorem runBody_done_inv {σ : Type} (P : σ → Prop) : ∀ (l : List (Stmt σ)) (s s' : σ),
    (∀ st ∈ l, ∀ s s', P s → st s = .ok s' → P s') → P s → runBody l s none = .done s' → P s'
  | [], s, s', _, hs, h => by
    simp only [runBody_nil, Out.done.injEq] at h
    exact h ▸ hs
  | st :: l, s, s', hp, hs, h => by
    rw [runBody_cons_none] at h
    cases hst : st s with
    | error e => rw [hst] at h; cases h
    | ok s1 =>
      rw [hst] at h
      exact runBody_done_inv P l s1 s' (fun st' hm => hp st' (List.mem_cons_of_mem _ hm))
        (hp st List.mem_cons_self s s1 hs hst) h

variable {R : Type}

/-! ### the rows the compare-and-swaps of a successful run found -/

theorem incRpGen_row {db db' : DB R} {id gen : Nat} (h : incRpGen db id gen = .ok db') :
    ∃ r ∈ db.rps, r.id = id ∧ r.gen = gen := by
  unfold incRpGen at h
  split at h
  · next r hr =>
    have h1 := List.mem_of_find?_eq_some hr
    have h2 := List.find?_some hr
    simp at h2
    exact ⟨r, h1, h2.1, h2.2⟩
  · cases h

theorem incRpGens_rows : ∀ (l : List (Nat × Nat)) (db db' : DB R), (l.map (·.1)).Nodup →
    incRpGens db l = .ok db' → ∀ q ∈ l, ∃ r ∈ db.rps, r.id = q.1 ∧ r.gen = q.2
  | [], _, _, _, _, q, hq => by cases hq
  | (id, gen) :: l, db, db', hn, h, q, hq => by
    unfold incRpGens at h
    obtain ⟨db1, h1, h2⟩ := bind_ok h
    rw [List.map_cons, List.nodup_cons] at hn
    rcases List.mem_cons.1 hq with rfl | hq'
    · exact incRpGen_row h1
    · obtain ⟨r, hr, e1, e2⟩ := incRpGens_rows l db1 db' hn.2 h2 q hq'
      have hne : q.1 ≠ id := fun e => hn.1 (List.mem_map.2 ⟨q, hq', e⟩)
      rw [(Wf.incRpGen_ok h1).1, Wf.setRp_gen_rps] at hr
      obtain ⟨r0, hr0, rfl⟩ := List.mem_map.1 hr
      rw [Wf.bumpRow_id] at e1
      have hid : r0.id ≠ id := by rw [e1]; exact hne
      have hb : Wf.bumpRow id gen r0 = r0 := by unfold Wf.bumpRow; simp [hid]
      rw [hb] at e2
      exact ⟨r0, hr0, e1, e2⟩

theorem rpById_of_row {db : DB R} (hU : (db.rps.map (·.id)).Nodup) {r : RpRow} (hr : r ∈ db.rps) :
    db.rpById r.id = some r := by
  unfold DB.rpById
  exact Wf.L.find?_key_of_mem (f := fun x : RpRow => x.id) hU hr

/-- with unique provider ids, a compare-and-swap carrying `g + 1` against a row at `g` fails -/
theorem incRpGen_stale {db : DB R} (hU : (db.rps.map (·.id)).Nodup) {r : RpRow} (hr : r ∈ db.rps) :
    incRpGen db r.id (r.gen + 1) = .error .rpConcurrentUpdate := by
  unfold incRpGen
  have : db.rps.find? (fun x => x.id == r.id && x.gen == r.gen + 1) = none := by
    rw [List.find?_eq_none]
    intro x hx
    simp only [Bool.and_eq_true, beq_iff_eq, not_and]
    intro e1 e2
    have := Wf.L.eq_of_key_eq (f := fun x : RpRow => x.id) hU hx hr e1
    subst this
    omega
  rw [this]

/-! ### object generations -/

/-- `replace_all` re-reads the provider objects from the committed state -/
def freshGens (committed : DB R) (m : List (Nat × Nat)) : List (Nat × Nat) :=
  m.map (fun p => (p.1, ((committed.rpById p.1).map (·.gen)).getD p.2))

theorem freshGens_eq {db : DB R} (hU : (db.rps.map (·.id)).Nodup) : ∀ (l m : List (Nat × Nat)),
    m.map (·.1) = l.map (·.1) → (∀ q ∈ l, ∃ r ∈ db.rps, r.id = q.1 ∧ r.gen = q.2) → freshGens db m = l
  | [], [], _, _ => rfl
  | [], _ :: _, hk, _ => by simp at hk
  | _ :: _, [], hk, _ => by simp at hk
  | q :: l, p :: m, hk, hrows => by
    simp only [List.map_cons, List.cons.injEq] at hk
    obtain ⟨r, hr, e1, e2⟩ := hrows q List.mem_cons_self
    have ih := freshGens_eq hU l m hk.2 (fun q' hq' => hrows q' (List.mem_cons_of_mem _ hq'))
    unfold freshGens at ih ⊢
    rw [List.map_cons, ih, hk.1, ← e1, rpById_of_row hU hr]
    simp [e1, e2]

theorem setGen_keys (m : List (Nat × Nat)) (id g : Nat) : (setGen m id g).map (·.1) = m.map (·.1) := by
  unfold setGen
  rw [List.map_map]
  apply List.map_congr_left
  intro p _
  simp only [Function.comp]
  split
  · rename_i h; simp at h; exact h.symm
  · rfl

theorem getGen_setGen_head (p : Nat × Nat) (t : List (Nat × Nat)) (g : Nat) :
    getGen (setGen (p :: t) p.1 g) p.1 = g := by
  simp [getGen, setGen]

theorem FS.ext_fields (a b : FS R) (h1 : a.db = b.db) (h2 : a.rpGen = b.rpGen) (h3 : a.consGen = b.consGen) :
    a = b := by
  cases a; cases b
  simp only at h1 h2 h3
  subst h1; subst h2; subst h3
  rfl

variable [CapOps R]

theorem rpIncStmt_ok {p : Nat × Nat} {s s' : FS R} (h : rpIncStmt p s = .ok s') :
    s'.consGen = s.consGen ∧ s'.rpGen = setGen s.rpGen p.1 (getGen s.rpGen p.1 + 1) := by
  unfold rpIncStmt at h
  dsimp only at h
  split at h
  · cases h; exact ⟨rfl, rfl⟩
  · cases h

/-! ### the write phase from any state with the same database -/

/-- the state after the DELETEs (as `setAllocations` computes it) -/
def db1Of (db : DB R) (allocs : List AllocReq) : DB R :=
  { db with allocs := db.allocs.filter (fun a => !(allocs.map (·.consUuid)).contains a.consumer) }

def writtenRows (db : DB R) (allocs : List AllocReq) (res : List (Nat × Nat × Int)) : List AllocRow :=
  (db1Of db allocs).allocs ++ rowsOf allocs res

theorem runBody_writeStmts_ok (allocs : List AllocReq) (s : FS R) (res : List (Nat × Nat × Int))
    (h1 : checkCapacity (db1Of s.db allocs) allocs = .ok ())
    (h2 : resolveAllocRcs (db1Of s.db allocs) allocs = .ok res) :
    runBody (writeStmts allocs) s none = .done (setAllocsFS s (writtenRows s.db allocs res)) := by
  unfold writeStmts
  have e1 := runBody_dels (R := R) (allocs.map (·.consUuid)).eraseDups s
  have ef : (s.db.allocs.filter (fun a => !(allocs.map (·.consUuid)).eraseDups.contains a.consumer)) =
      s.db.allocs.filter (fun a => !(allocs.map (·.consUuid)).contains a.consumer) := by
    apply List.filter_congr
    intro a _
    rw [contains_eraseDups]
  rw [ef] at e1
  generalize hs1 : setAllocsFS s (s.db.allocs.filter (fun a => !(allocs.map (·.consUuid)).contains a.consumer)) = s1 at e1
  have hdb1 : s1.db = db1Of s.db allocs := by subst hs1; rfl
  rw [← hdb1] at h1 h2
  have e2 : runBody [checkStmt allocs] s1 none = .done s1 := by
    rw [runBody_cons_none]
    unfold checkStmt
    rw [h1]
    simp
  have e3 := runBody_inserts allocs res s1 h2
  rw [runBody_append_done (runBody_append_done e1 |>.trans e2), e3]
  subst hs1
  rfl

theorem setAllocations_inv {db db' : DB R} {allocs : List AllocReq} (h : setAllocations db allocs = .ok db') :
    ∃ res d3 d4, checkCapacity (db1Of db allocs) allocs = .ok () ∧
      resolveAllocRcs (db1Of db allocs) allocs = .ok res ∧
      incRpGens ({ db with allocs := writtenRows db allocs res } : DB R) (rpPairs allocs) = .ok d3 ∧
      incConsGens d3 (consPairs allocs) = .ok d4 := by
  unfold setAllocations at h
  obtain ⟨_, h1, h⟩ := bind_ok h
  obtain ⟨res, h2, h⟩ := bind_ok h
  obtain ⟨d3, h3, h⟩ := bind_ok h
  obtain ⟨d4, h4, h⟩ := bind_ok h
  exact ⟨res, d3, d4, h1, h2, h3, h4⟩

/-! ### the theorem -/

/-- **rolled-back deadlock after provider generations were incremented**: exactly once, when
`update_consumers` writes nothing, provider ids are unique and the fault-free write succeeds -/
theorem mainTxn_rollback_mid (db : DB R) (cons : ConsRow) (attr : ReqAttr) (allocs : List AllocReq) (k : Nat)
    (sk : FS R) (db' : DB R) (hpre : updateConsumer db cons attr = db) (hU : (db.rps.map (·.id)).Nodup)
    (hok : setAllocations db allocs = .ok db')
    (hk1 : firstIncPos allocs < k) (hk2 : k ≤ firstIncPos allocs + (rpPairs allocs).length)
    (h0 : runBody (setAllocStmts allocs) (preState db cons attr allocs) (some k) = .fault sk) :
    mainTxnWithFault db cons attr allocs (some (k, .deadlock true)) =
      mainTxnWithFault db cons attr allocs none := by
  have hs1 : preState db cons attr allocs = FS.ofRequest db allocs := by
    unfold preState; rw [hpre]; rfl
  have h := h0
  rw [hs1] at h
  obtain ⟨res, d3, d4, c1, c2, c3, c4⟩ := setAllocations_inv hok
  -- the fault-free attempt
  obtain ⟨mF, cF, hF⟩ := runBody_setAllocStmts_ok allocs (FS.ofRequest db allocs) db' rfl rfl hok
  -- write phase of the first attempt
  have hW := runBody_writeStmts_ok allocs (FS.ofRequest db allocs) res c1 c2
  generalize hs2 : setAllocsFS (FS.ofRequest db allocs) (writtenRows (FS.ofRequest db allocs).db allocs res) = s2 at hW
  have hs2db : s2.db = { db with allocs := writtenRows db allocs res } := by subst hs2; rfl
  have hs2rp : s2.rpGen = rpPairs allocs := by subst hs2; rfl
  have hs2c : s2.consGen = consPairs allocs := by subst hs2; rfl
  have hEarly : Early (allocs.map (·.consUuid)).eraseDups (FS.ofRequest db allocs) s2 :=
    runBody_done_inv _ _ _ _ (early_writeStmts allocs _) (Early.refl _ _) hW
  rw [setAllocStmts_eq, runBody_append_some _ _ _ _ (by rw [writeStmts_length]; omega), hW] at h
  dsimp only at h
  rw [writeStmts_length] at h
  obtain ⟨j, hj⟩ : ∃ j, k - firstIncPos allocs = j + 1 := ⟨k - firstIncPos allocs - 1, by omega⟩
  rw [hj] at h
  unfold genStmts at h
  have hnd := firstByKey_keys_nodup (allocs.map (fun a => (a.rpId, a.rpGen)))
  have hrows := incRpGens_rows (rpPairs allocs) _ d3 hnd c3
  cases hp : rpPairs allocs with
  | nil => rw [hp] at hk2; simp at hk2; omega
  | cons p1 rest =>
    obtain ⟨id, gen⟩ := p1
    have hnd' : (((id, gen) :: rest).map (·.1)).Nodup := by rw [← hp]; exact hnd
    rw [hp] at h c3 hk2 hrows hs2rp
    -- the first increment succeeded
    unfold incRpGens at c3
    obtain ⟨d1, e1, -⟩ := bind_ok c3
    obtain ⟨r1, hr1, hr1id, hr1gen⟩ := hrows (id, gen) List.mem_cons_self
    have hg1 : getGen s2.rpGen id = gen := by
      rw [hs2rp]; exact getGen_of_mem hnd' (p := (id, gen)) List.mem_cons_self
    have hst1 : rpIncStmt (id, gen) s2 = .ok { s2 with db := d1, rpGen := setGen s2.rpGen id (gen + 1) } := by
      unfold rpIncStmt
      dsimp only
      rw [hg1, hs2db, e1]
    rw [List.map_cons, List.cons_append, List.cons_append, runBody_cons_succ, hst1] at h
    dsimp only at h
    -- what holds of the state in which the fault fires
    have hP := runBody_fault_inv
      (fun s : FS R => s.consGen = consPairs allocs ∧ s.rpGen.map (·.1) = ((id, gen) :: rest).map (·.1) ∧
        getGen s.rpGen id = gen + 1)
      (rest.map rpIncStmt) ((consPairs allocs).map consIncStmt ++ [cleanupStmt allocs])
      ({ s2 with db := d1, rpGen := setGen s2.rpGen id (gen + 1) } : FS R) sk j
      (by
        intro st hst s s' hs e
        obtain ⟨q, hq, rfl⟩ := List.mem_map.1 hst
        obtain ⟨a1, a2⟩ := rpIncStmt_ok e
        have hne : id ≠ q.1 := by
          rw [List.map_cons, List.nodup_cons] at hnd'
          exact fun e => hnd'.1 (List.mem_map.2 ⟨q, hq, e.symm⟩)
        refine ⟨a1.trans hs.1, ?_, ?_⟩
        · rw [a2, setGen_keys]; exact hs.2.1
        · rw [a2, getGen_setGen_ne q.1 _ id hne]; exact hs.2.2)
      (by simp at hk2 ⊢; omega)
      ⟨hs2c, by show (setGen s2.rpGen id (gen + 1)).map (·.1) = _; rw [setGen_keys, hs2rp],
        by show getGen (setGen s2.rpGen id (gen + 1)) id = _; rw [hs2rp]; exact getGen_setGen_head (id, gen) rest (gen + 1)⟩
      (by rw [List.append_assoc] at h; exact h)
    obtain ⟨hPc, hPk, hPg⟩ := hP
    -- the attempt after the rollback
    have hWb := runBody_writeStmts_ok allocs (FS.rollback (FS.ofRequest db allocs) sk) res c1 c2
    generalize hs2b : setAllocsFS (FS.rollback (FS.ofRequest db allocs) sk)
      (writtenRows (FS.rollback (FS.ofRequest db allocs) sk).db allocs res) = s2b at hWb
    have hs2bdb : s2b.db = { db with allocs := writtenRows db allocs res } := by subst hs2b; rfl
    have hs2brp : s2b.rpGen = sk.rpGen := by subst hs2b; rfl
    have hs2bc : s2b.consGen = sk.consGen := by subst hs2b; rfl
    have hstb : rpIncStmt (id, gen) s2b = .error .rpConcurrentUpdate := by
      unfold rpIncStmt
      dsimp only
      have hst := incRpGen_stale (db := ({ db with allocs := writtenRows db allocs res } : DB R)) hU hr1
      have hr1id' : r1.id = id := hr1id
      have hr1gen' : r1.gen = gen := hr1gen
      rw [hr1id', hr1gen'] at hst
      rw [hs2brp, hPg, hs2bdb, hst]
    have hB : runBody (setAllocStmts allocs) (FS.rollback (FS.ofRequest db allocs) sk) none =
        .exc s2b .rpConcurrentUpdate := by
      rw [setAllocStmts_eq, runBody_append_done hWb]
      unfold genStmts
      rw [hp, List.map_cons, List.cons_append, List.cons_append, runBody_cons_none, hstb]
    -- the reloaded objects are those of the request
    have hfresh : s2b.rpGen.map (fun p => (p.1, ((db.rpById p.1).map (·.gen)).getD p.2)) = (id, gen) :: rest := by
      rw [hs2brp]
      exact freshGens_eq hU _ _ hPk hrows
    have hs3 : ({ s2b with rpGen := s2b.rpGen.map (fun p => (p.1, ((db.rpById p.1).map (·.gen)).getD p.2)) } : FS R) = s2 := by
      rw [hfresh]
      exact FS.ext_fields _ _ (hs2bdb.trans hs2db.symm) hs2rp.symm ((hs2bc.trans hPc).trans hs2c.symm)
    rw [mainTxn_none, mainTxn_some, h0, hs1]
    unfold faultStep
    dsimp only
    rw [show retryCount = 9 + 1 from rfl, reloadLoop_exc_rp hB, hs3,
      reloadLoop_congr (runBody_early allocs _ s2 hEarly) 8, reloadLoop_done hF, reloadLoop_done hF]

end Placement.FaultL
