import Placement.Lemmas.CoreBase
/-
  C04, part 2: every handler, answered with an error status, leaves `Residue` only.
-/
namespace Placement.Core
variable {R : Type} [CapOps R]
set_option linter.unusedSectionVars false
set_option linter.unusedSimpArgs false
set_option linter.unusedVariables false

/-! ### handlers that run one object-layer function: an error leaves the state itself -/

theorem hRpCreate_err {db : DB R} {mv uuid name : Nat} {parent : Option Nat}
    (h : 400 ≤ (hRpCreate db mv uuid name parent).2.status) : (hRpCreate db mv uuid name parent).1 = db := by
  revert h; unfold hRpCreate
  repeat' split
  all_goals first | (intro _; rfl) | (intro h; simp [r200, r201, r204] at h)

theorem hRpUpdate_err {db : DB R} {mv uuid name : Nat} {parent : Option (Option Nat)}
    (h : 400 ≤ (hRpUpdate db mv uuid name parent).2.status) : (hRpUpdate db mv uuid name parent).1 = db := by
  revert h; unfold hRpUpdate; dsimp only
  repeat' split
  all_goals first | (intro _; rfl) | (intro h; simp [r200, r201, r204] at h)

theorem hRpDelete_err {db : DB R} {uuid : Nat} (h : 400 ≤ (hRpDelete db uuid).2.status) :
    (hRpDelete db uuid).1 = db := by
  revert h; unfold hRpDelete
  repeat' split
  all_goals first | (intro _; rfl) | (intro h; simp [r200, r201, r204] at h)

theorem hInvSet_err {db : DB R} {mv uuid gen : Nat} {invs : List (InvSpec R)}
    (h : 400 ≤ (hInvSet db mv uuid gen invs).2.status) : (hInvSet db mv uuid gen invs).1 = db := by
  revert h; unfold hInvSet
  repeat' split
  all_goals first | (intro _; rfl) | (intro h; simp [r200, r201, r204] at h)

theorem hInvAdd_err {db : DB R} {mv uuid : Nat} {inv : InvSpec R}
    (h : 400 ≤ (hInvAdd db mv uuid inv).2.status) : (hInvAdd db mv uuid inv).1 = db := by
  revert h; unfold hInvAdd
  repeat' split
  all_goals first | (intro _; rfl) | (intro h; simp [r200, r201, r204] at h)

theorem hInvUpdate_err {db : DB R} {mv uuid gen : Nat} {inv : InvSpec R}
    (h : 400 ≤ (hInvUpdate db mv uuid gen inv).2.status) : (hInvUpdate db mv uuid gen inv).1 = db := by
  revert h; unfold hInvUpdate
  repeat' split
  all_goals first | (intro _; rfl) | (intro h; simp [r200, r201, r204] at h)

theorem hInvDelete_err {db : DB R} {uuid rc : Nat}
    (h : 400 ≤ (hInvDelete db uuid rc).2.status) : (hInvDelete db uuid rc).1 = db := by
  revert h; unfold hInvDelete
  repeat' split
  all_goals first | (intro _; rfl) | (intro h; simp [r200, r201, r204] at h)

theorem hInvDeleteAll_err {db : DB R} {mv uuid : Nat}
    (h : 400 ≤ (hInvDeleteAll db mv uuid).2.status) : (hInvDeleteAll db mv uuid).1 = db := by
  revert h; unfold hInvDeleteAll
  repeat' split
  all_goals first | (intro _; rfl) | (intro h; simp [r200, r201, r204] at h)

theorem hTraitPut_err {db : DB R} {n : Nat}
    (h : 400 ≤ (hTraitPut db n).2.status) : (hTraitPut db n).1 = db := by
  revert h; unfold hTraitPut
  repeat' split
  all_goals first | (intro _; rfl) | (intro h; simp [r200, r201, r204] at h)

theorem hTraitDelete_err {db : DB R} {n : Nat}
    (h : 400 ≤ (hTraitDelete db n).2.status) : (hTraitDelete db n).1 = db := by
  revert h; unfold hTraitDelete
  repeat' split
  all_goals first | (intro _; rfl) | (intro h; simp [r200, r201, r204] at h)

theorem hRpTraitsSet_err {db : DB R} {uuid gen : Nat} {ts : List Nat}
    (h : 400 ≤ (hRpTraitsSet db uuid gen ts).2.status) : (hRpTraitsSet db uuid gen ts).1 = db := by
  revert h; unfold hRpTraitsSet
  repeat' split
  all_goals first | (intro _; rfl) | (intro h; simp [r200, r201, r204] at h)

theorem hRpTraitsDelete_err {db : DB R} {uuid : Nat}
    (h : 400 ≤ (hRpTraitsDelete db uuid).2.status) : (hRpTraitsDelete db uuid).1 = db := by
  revert h; unfold hRpTraitsDelete
  repeat' split
  all_goals first | (intro _; rfl) | (intro h; simp [r200, r201, r204] at h)

theorem hRcPost_err {db : DB R} {n : Nat} (h : 400 ≤ (hRcPost db n).2.status) : (hRcPost db n).1 = db := by
  revert h; unfold hRcPost
  repeat' split
  all_goals first | (intro _; rfl) | (intro h; simp [r200, r201, r204] at h)

theorem hRcPut_err {db : DB R} {n : Nat} (h : 400 ≤ (hRcPut db n).2.status) : (hRcPut db n).1 = db := by
  revert h; unfold hRcPut
  repeat' split
  all_goals first | (intro _; rfl) | (intro h; simp [r200, r201, r204] at h)

theorem hRcRename_err {db : DB R} {o n : Nat} (h : 400 ≤ (hRcRename db o n).2.status) :
    (hRcRename db o n).1 = db := by
  revert h; unfold hRcRename
  repeat' split
  all_goals first | (intro _; rfl) | (intro h; simp [r200, r201, r204] at h)

theorem hRcDelete_err {db : DB R} {n : Nat} (h : 400 ≤ (hRcDelete db n).2.status) : (hRcDelete db n).1 = db := by
  revert h; unfold hRcDelete
  repeat' split
  all_goals first | (intro _; rfl) | (intro h; simp [r200, r201, r204] at h)

theorem hAggsSet_err {db : DB R} {mv uuid : Nat} {gen : Option Nat} {aggs : List Nat}
    (h : 400 ≤ (hAggsSet db mv uuid gen aggs).2.status) : (hAggsSet db mv uuid gen aggs).1 = db := by
  revert h; unfold hAggsSet; dsimp only
  repeat' split
  all_goals first | (intro _; rfl) | (intro h; simp [r200, r201, r204] at h)

theorem hAllocDelete_err {db : DB R} {c : Nat} (h : 400 ≤ (hAllocDelete db c).2.status) :
    (hAllocDelete db c).1 = db := by
  revert h; unfold hAllocDelete
  repeat' split
  all_goals first | (intro _; rfl) | (intro h; simp [r200, r201, r204] at h)

/-! ### the three handlers that create consumers before their main transaction -/

/-- the cleanup of `PUT /allocations/{c}` after a failure -/
theorem Ext.cleanup1 {db0 db1 : DB R} {created : Bool} {id : Nat}
    (h : Ext db0 db1 (if created then [] ++ [id] else []))
    (hf : ∀ b ∈ db0.consumers, b.id < db0.nextCons) :
    Residue db0 (if created then deleteConsumerRows db1 [id] else db1) := by
  cases created with
  | true => exact Ext.delete (created := [id]) (by simpa using h) hf
  | false => exact Ext.nil (by simpa using h)

theorem hAllocPut_err (cfg : Config) {db : DB R} (hf : ∀ b ∈ db.consumers, b.id < db.nextCons) {mv : Nat}
    {c : ConsumerReq} (h : 400 ≤ (hAllocPut cfg db mv c).2.status) :
    Residue db (hAllocPut cfg db mv c).1 := by
  have hE := (Ext.refl db).ensure cfg mv c
  revert h
  unfold hAllocPut
  split
  · intro _; exact Residue.refl db
  · split
    · rename_i db1 r heq
      rw [heq] at hE
      intro _; exact hE.nil
    · rename_i db1 cons created attr heq
      rw [heq] at hE
      dsimp only at hE
      split
      · intro _; exact hE.cleanup1 hf
      · dsimp only
        split
        · intro h; simp [r204] at h
        · intro _; exact hE.cleanup1 hf

theorem hAllocPost_err (cfg : Config) {db : DB R} (hf : ∀ b ∈ db.consumers, b.id < db.nextCons) {mv : Nat}
    {cs : List ConsumerReq} (h : 400 ≤ (hAllocPost cfg db mv cs).2.status) :
    Residue db (hAllocPost cfg db mv cs).1 := by
  have hE := inspectConsumers_ext cfg mv hf cs db [] [] (Ext.refl db)
  revert h
  unfold hAllocPost
  split
  · intro _; exact Residue.refl db
  · split
    · rename_i db1 r heq
      rw [heq] at hE
      intro _; exact hE
    · rename_i db1 triples created heq
      rw [heq] at hE
      dsimp only at hE
      split
      · intro _; exact hE.delete hf
      · dsimp only
        split
        · intro h; simp [r204] at h
        · intro _; exact hE.delete hf

theorem hReshape_err (cfg : Config) {db : DB R} (hf : ∀ b ∈ db.consumers, b.id < db.nextCons) {mv : Nat}
    {invs : List (RpInvReq R)} {cs : List ConsumerReq} (h : 400 ≤ (hReshape cfg db mv invs cs).2.status) :
    Residue db (hReshape cfg db mv invs cs).1 := by
  have hE := inspectConsumers_ext cfg mv hf cs db [] [] (Ext.refl db)
  revert h
  unfold hReshape
  split
  · intro _; exact Residue.refl db
  · split
    · intro _; exact Residue.refl db
    · split
      · rename_i db1 r heq
        rw [heq] at hE
        intro _; exact hE
      · rename_i db1 triples created heq
        rw [heq] at hE
        dsimp only at hE
        split
        · intro _; exact hE.delete hf
        · dsimp only
          split
          · intro h; simp [r204] at h
          · intro _; exact hE.delete hf

/-- every request answered with an error leaves at most names and a larger fresh consumer id -/
theorem step_err_residue (cfg : Config) {db : DB R} (hf : ∀ b ∈ db.consumers, b.id < db.nextCons) (op : Op R)
    (h : 400 ≤ (step cfg db op).2.status) : Residue db (step cfg db op).1 := by
  cases op with
  | rpCreate mv u n p => exact Residue.of_eq (hRpCreate_err h)
  | rpUpdate mv u n p => exact Residue.of_eq (hRpUpdate_err h)
  | rpDelete u => exact Residue.of_eq (hRpDelete_err h)
  | invSet mv u g is => exact Residue.of_eq (hInvSet_err h)
  | invAdd mv u i => exact Residue.of_eq (hInvAdd_err h)
  | invUpdate mv u g i => exact Residue.of_eq (hInvUpdate_err h)
  | invDelete u rc => exact Residue.of_eq (hInvDelete_err h)
  | invDeleteAll mv u => exact Residue.of_eq (hInvDeleteAll_err h)
  | traitPut n => exact Residue.of_eq (hTraitPut_err h)
  | traitDelete n => exact Residue.of_eq (hTraitDelete_err h)
  | rpTraitsSet u g ts => exact Residue.of_eq (hRpTraitsSet_err h)
  | rpTraitsDelete u => exact Residue.of_eq (hRpTraitsDelete_err h)
  | rcPost n => exact Residue.of_eq (hRcPost_err h)
  | rcPut n => exact Residue.of_eq (hRcPut_err h)
  | rcRename o n => exact Residue.of_eq (hRcRename_err h)
  | rcDelete n => exact Residue.of_eq (hRcDelete_err h)
  | aggsSet mv u g as => exact Residue.of_eq (hAggsSet_err h)
  | allocPut mv c => exact hAllocPut_err cfg hf h
  | allocPost mv cs => exact hAllocPost_err cfg hf h
  | allocDelete c => exact Residue.of_eq (hAllocDelete_err h)
  | reshape mv invs cs => exact hReshape_err cfg hf h

end Placement.Core
