import Placement.Lemmas.SchedOcc
import Placement.Lemmas.SchedEvoTxn
/-
  Provider generations under `EvoG` steps, and the commit structure (`Commits`) of the requests
  that carry a provider generation: PUT inventories, PUT one inventory, PUT aggregates (>= 1.19),
  PUT traits (with the no-op exception F1).
-/
namespace Placement.Sched
open Placement Placement.Gens Placement.Hier
variable {R : Type}
set_option linter.unusedSectionVars false

/-- internal id of the provider with uuid `u` -/
def rpIdOf (s : DB R) (u : Nat) : Option Nat := (s.rpByUuid u).map (·.id)

/-- provider `p` exists with generation `g` -/
def RpAt (p g : Nat) (s : DB R) : Prop := ∃ r ∈ s.rps, r.id = p ∧ r.gen = g

/-- provider `p` is gone or beyond generation `g` -/
def RpPast (p g : Nat) (s : DB R) : Prop := ∀ r ∈ s.rps, r.id = p → g < r.gen

/-- the environment condition of the provider theorems: ids are unique and `u` names the provider
with internal id `o` (or nobody) -/
def WRp (u : Nat) (o : Option Nat) (s : DB R) : Prop := Ids s.gcore ∧ rpIdOf s u = o

theorem rpAt_not_past {p g : Nat} {s : DB R} (h : RpAt p g s) : ¬ RpPast p g s := by
  obtain ⟨r, hr, hid, hg⟩ := h
  intro hp
  have := hp r hr hid
  omega

theorem genStep_rpByUuid {t t' : List RpRow} (h : GenStep t t') (u : Nat) :
    (t'.find? (·.uuid == u)).map (·.id) = (t.find? (·.uuid == u)).map (·.id) := by
  obtain ⟨g, -, rfl⟩ := h
  rw [List.find?_map]
  have : ((fun r : RpRow => r.uuid == u) ∘ fun r => { r with gen := g r }) = (fun r : RpRow => r.uuid == u) := rfl
  rw [this]
  cases t.find? (·.uuid == u) <;> rfl

theorem rpIdOf_evo {N : Nat → Prop} {s s' : DB R} (h : EvoG N s.gcore s'.gcore) (u : Nat) :
    rpIdOf s' u = rpIdOf s u := genStep_rpByUuid h.frame.rps u

theorem WRp.evo {N : Nat → Prop} {u : Nat} {o : Option Nat} {s s' : DB R} (q : QEvo N s s') (h : WRp u o s) :
    WRp u o s' :=
  ⟨(q h.1).ids, (rpIdOf_evo (q h.1) u).trans h.2⟩

theorem RpPast.evo {N : Nat → Prop} {p g : Nat} {s s' : DB R} (q : QEvo N s s') (hI : Ids s.gcore)
    (h : RpPast p g s) : RpPast p g s' := by
  intro r' hr' hid
  obtain ⟨r, hr, hid', -, hle⟩ := (q hI).frame.rps.mem hr'
  have := h r hr (hid'.trans hid)
  omega

/-- a successful compare-and-swap on `(p, g)` after a change that leaves the provider table alone -/
theorem cas_commit {db db0 db' : DB R} {p g : Nat} (hg : db0.gcore = db.gcore)
    (h : incRpGen db0 p g = .ok db') :
    RpAt p g db ∧ RpPast p g db' ∧ RpAt p (g + 1) db' := by
  obtain ⟨⟨r0, hr0, hid0, hgen0⟩, rfl⟩ := incRpGen_ok h
  have hrps : db0.rps = db.rps := congrArg GCore.rps hg
  refine ⟨⟨r0, hrps ▸ hr0, hid0, hgen0⟩, ?_, ?_⟩
  · intro r' hr' hid
    simp only [DB.setRp, List.mem_map] at hr'
    obtain ⟨r, -, rfl⟩ := hr'
    by_cases h : r.id = p
    · simp [h]
    · simp [h] at hid
  · refine ⟨{ r0 with gen := g + 1 }, ?_, hid0, rfl⟩
    simp only [DB.setRp, List.mem_map]
    exact ⟨r0, hr0, by simp [hid0]⟩

/-- the guard of a commit: `u` names provider `p`, which has generation `g` -/
def CRp (u p g : Nat) (s : DB R) : Prop := rpIdOf s u = some p ∧ RpAt p g s

/-- the commit relation: the provider moved from generation `g` to `g + 1` -/
def BRp (p g : Nat) (_ s' : DB R) : Prop := RpPast p g s' ∧ RpAt p (g + 1) s'

/-! ### error answers are not 2xx -/

theorem errInvSet_not_ok (e : Exc) : ¬ okR (errInvSet e) := by cases e <;> decide
theorem errInvUpdate_not_ok (e : Exc) : ¬ okR (errInvUpdate e) := by cases e <;> decide
theorem errInvAdd_not_ok (e : Exc) : ¬ okR (errInvAdd e) := by cases e <;> decide
theorem errInvDelete_not_ok (e : Exc) : ¬ okR (errInvDelete e) := by cases e <;> decide
theorem errInvDeleteAll_not_ok (e : Exc) : ¬ okR (errInvDeleteAll e) := by cases e <;> decide
theorem errAggs_not_ok (e : Exc) :
    ¬ okR (if e.isConcurrentUpdate then r409 .concurrentUpdate else if e == .dbDuplicate then r409 else r500) := by
  cases e <;> decide
theorem errTraits_not_ok (e : Exc) : ¬ okR (if e.isConcurrentUpdate then r409 .concurrentUpdate else r500) := by
  cases e <;> decide

variable [CapOps R]

/-! ### write transactions: a 2xx answer means the compare-and-swap on `(p, g)` succeeded -/

section commits
variable {u : Nat} {o : Option Nat}

theorem tInvSetW_commits (p g : Nat) (invs : List (InvSpec R)) (ho : o = some p) :
    Commits (WRp u o) okR (CRp (R := R) u p g) (BRp p g) (.txn .main (tInvSetW p g invs)) :=
  Commits.txn' _ _ (fun s hw => by
    unfold tInvSetW
    split
    · rename_i db' h
      obtain ⟨db0, hg, hc⟩ := setInventory_ok h
      obtain ⟨h1, h2, h3⟩ := cas_commit hg hc
      exact .inr ⟨⟨hw.2.trans ho, h1⟩, h2, h3⟩
    · exact .inl (.done _ (errInvSet_not_ok _)))

theorem tInvUpdateW_commits (p g : Nat) (inv : InvSpec R) (ho : o = some p) :
    Commits (WRp u o) okR (CRp (R := R) u p g) (BRp p g) (.txn .main (tInvUpdateW p g inv)) :=
  Commits.txn' _ _ (fun s hw => by
    unfold tInvUpdateW
    split
    · rename_i db' h
      obtain ⟨db0, hg, hc⟩ := updateInventory_ok h
      obtain ⟨h1, h2, h3⟩ := cas_commit hg hc
      exact .inr ⟨⟨hw.2.trans ho, h1⟩, h2, h3⟩
    · exact .inl (.done _ (errInvUpdate_not_ok _)))

theorem tAggsSetW_commits (p g : Nat) (aggs : List Nat) (ho : o = some p) :
    Commits (WRp u o) okR (CRp (R := R) u p g) (BRp p g) (.txn .main (tAggsSetW p g aggs true)) :=
  Commits.txn' _ _ (fun s hw => by
    unfold tAggsSetW
    split
    · rename_i db' h
      rcases setAggregates_ok h with ⟨hf, -⟩ | ⟨-, db0, hg, hc⟩
      · cases hf
      · obtain ⟨h1, h2, h3⟩ := cas_commit hg hc
        exact .inr ⟨⟨hw.2.trans ho, h1⟩, h2, h3⟩
    · exact .inl (.done _ (errAggs_not_ok _)))

/-! ### the whole request: the generation carried is compared when the provider is read; the
write transaction is reached only with the id then read and that generation -/

theorem pInvSet_commits (mv g : Nat) (invs : List (InvSpec R)) (p : Nat) (ho : ∀ p', o = some p' → p' = p) :
    Commits (WRp u o) okR (CRp (R := R) u p g) (BRp p g) (pInvSet mv u g invs) :=
  Commits.txn' _ _ (fun s hw => .inl (by
    unfold tInvSetR
    split
    · exact .done _ (by decide)
    · rename_i rp hrp
      have ho' : o = some rp.id := by rw [← hw.2]; simp [rpIdOf, hrp]
      have hid : rp.id = p := ho rp.id ho'
      rw [hid] at ho'
      split
      · exact .done _ (by decide)
      · rename_i hg
        split
        · exact .done _ (by decide)
        · have : rp.gen = g := Eq.symm (by simpa using hg)
          rw [hid, this]; exact tInvSetW_commits p g invs ho'))

theorem pInvUpdate_commits (mv g : Nat) (inv : InvSpec R) (p : Nat) (ho : ∀ p', o = some p' → p' = p) :
    Commits (WRp u o) okR (CRp (R := R) u p g) (BRp p g) (pInvUpdate mv u g inv) :=
  Commits.txn' _ _ (fun s hw => .inl (by
    unfold tInvUpdateR
    split
    · exact .done _ (by decide)
    · rename_i rp hrp
      have ho' : o = some rp.id := by rw [← hw.2]; simp [rpIdOf, hrp]
      have hid : rp.id = p := ho rp.id ho'
      rw [hid] at ho'
      split
      · exact .done _ (by decide)
      · rename_i hg
        split
        · exact .done _ (by decide)
        · have : rp.gen = g := Eq.symm (by simpa using hg)
          rw [hid, this]; exact tInvUpdateW_commits p g inv ho'))

theorem pAggsSet_commits (mv g : Nat) (hmv : mv ≥ 19) (aggs : List Nat) (p : Nat)
    (ho : ∀ p', o = some p' → p' = p) :
    Commits (WRp u o) okR (CRp (R := R) u p g) (BRp p g) (pAggsSet mv u (some g) aggs) := by
  unfold pAggsSet
  rw [if_neg (by omega)]
  exact Commits.txn' _ _ (fun s hw => .inl (by
    unfold tAggsSetR
    split
    · exact .done _ (by decide)
    · rename_i rp hrp
      have ho' : o = some rp.id := by rw [← hw.2]; simp [rpIdOf, hrp]
      have hid : rp.id = p := ho rp.id ho'
      rw [hid] at ho'
      dsimp only
      have hd : decide (mv ≥ 19) = true := by simpa using hmv
      rw [hd]
      split
      · exact .done _ (by decide)
      · rename_i hg
        have : rp.gen = g := Eq.symm (by simpa using hg)
        rw [hid, this]; exact tAggsSetW_commits p g aggs ho'))

end commits

end Placement.Sched
