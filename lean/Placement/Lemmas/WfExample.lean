import Placement.Lemmas.Wf
/-
  A small concrete state (ratios are natural numbers, `Wf.instCapOpsNat`) used by the `example`s of
  Props/C08 and Props/C12 to show that the hypotheses of the property theorems are satisfiable.

  Providers: 1 (uuid 100) is the parent of 2 (uuid 101); 3 (uuid 102) is a root without allocations.
  Provider 2 has inventory of class 0 with an allocation of consumer 500, trait 13, aggregate 900;
  provider 3 has inventory of the custom class 10000 (name 11), trait 13, aggregate 900.
  Traits: 4 (standard), 13 and 15 (custom).  Classes: 0, 2 (standard), 11 (custom, id 10000), 17 (custom, id 10001).
-/
namespace Placement.Wf

def exCfg : Config := { incompleteProject := 1, incompleteUser := 2 }

def exDb : DB Nat :=
  { rps := [{ id := 1, uuid := 100, name := 200, gen := 0, parent := none, root := 1 },
            { id := 2, uuid := 101, name := 201, gen := 3, parent := some 1, root := 1 },
            { id := 3, uuid := 102, name := 202, gen := 1, parent := none, root := 3 }],
    invs := [{ rp := 2, rc := 0, total := 8, reserved := 0, minUnit := 1, maxUnit := 8, stepSize := 1, ratio := 1 },
             { rp := 3, rc := 10000, total := 4, reserved := 0, minUnit := 1, maxUnit := 4, stepSize := 1, ratio := 1 }],
    allocs := [{ rp := 2, rc := 0, consumer := 500, used := 2 }],
    consumers := [{ id := 1, uuid := 500, project := 7, user := 8, ctype := none, gen := 1 }],
    projects := [7], users := [8], ctypes := [],
    rcs := [(0, 0), (1, 2), (10000, 11), (10001, 17)],
    traits := [4, 13, 15],
    rpTraits := [(2, 13), (3, 13)],
    aggs := [900], rpAggs := [(2, 900), (3, 900)],
    nextRp := 4, nextCons := 2 }

theorem wfi_exDb : WFI exDb := by
  refine ⟨?_, ?_, by unfold AllocKeys; decide, by unfold AllocPos; decide⟩
  · exact ⟨by decide, by decide, by decide, by decide, by decide, by decide, by decide, by decide, by decide,
      by decide, by decide, by decide, by decide, by decide⟩
  · exact ⟨by decide, by decide, by decide, by decide, by decide, by decide, by decide, by decide, by decide,
      by decide, by decide, by decide⟩

theorem uniq_exDb : Uniq exDb := wfi_exDb.toUniq
theorem ri_exDb : RI exDb := wfi_exDb.ri
theorem allocPos_exDb : AllocPos exDb := wfi_exDb.pos
theorem consIff_exDb : ConsIff exDb := by
  intro u
  constructor
  · rintro ⟨c, hc, rfl⟩
    simp [exDb] at hc
    subst hc
    exact ⟨_, List.mem_singleton.2 rfl, rfl⟩
  · rintro ⟨a, ha, rfl⟩
    simp [exDb] at ha
    subst ha
    exact ⟨_, List.mem_singleton.2 rfl, rfl⟩


/-! ### why `OpWF` is assumed

Two requests that the `Op` type can express but a JSON body cannot (first) or that only the list
format of microversions below 1.12 can express (second).  They show that `Reach` of `Spec/Inv.lean`
(arbitrary `Op`s) is too wide for `RI` and for the allocation key of `Uniq`. -/

/-- POST /allocations with the same consumer twice (not expressible: consumer uuids are the keys of a
JSON object): first entry empty, second with allocations -/
def exDup : List ConsumerReq :=
  [{ uuid := 501, project := some 7, user := some 8, ctype := none, gen := none, allocs := [] },
   { uuid := 501, project := some 7, user := some 8, ctype := none, gen := some 0, allocs := [(101, 0, 1)] }]

example : ¬ OpWF (.allocPost 28 exDup : Op Nat) := by decide

/-- the model answers 204, writes the allocation and deletes the consumer "created for an empty entry" -/
theorem opWF_needed_for_ri : ¬ RI (step exCfg exDb (.allocPost 28 exDup)).1 := by
  intro h
  have h1 : ({ rp := 2, rc := 0, consumer := 501, used := 1 } : AllocRow) ∈
      (step exCfg exDb (.allocPost 28 exDup)).1.allocs := by decide
  obtain ⟨c, hc, e⟩ := h.allocCons _ h1
  have h2 : ∀ c ∈ (step exCfg exDb (.allocPost 28 exDup)).1.consumers, c.uuid ≠ 501 := by decide
  exact h2 c hc e

/-- PUT /allocations below 1.12 (list format) naming provider 101 twice for class 0: both rows are stored;
(provider, class, consumer) is not a unique index of the `allocations` table -/
def exListDup : ConsumerReq :=
  { uuid := 501, project := none, user := none, ctype := none, gen := none, allocs := [(101, 0, 1), (101, 0, 2)] }

theorem opWF_needed_for_allocKeys : ¬ AllocKeys (step exCfg exDb (.allocPut 7 exListDup)).1 := by
  unfold AllocKeys; decide

end Placement.Wf
