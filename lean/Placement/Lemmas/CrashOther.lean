import Placement.Lemmas.CrashProg
import Placement.Lemmas.SchedEvoTxn
/-
  C18, the remaining requests: the generation-guarded two-transaction writes (inventories, provider
  traits, aggregates), DELETE /allocations/{c}, and the requests modelled as one transaction; then
  `prog_path`: EVERY request program is a `Path` program for `G db0`.

  Second half: `prog_hinv_all`: every transaction of every request, run on ANY state (so also between
  transactions of other requests), keeps the provider hierarchy a forest with correct roots (`HInv`).
-/
namespace Placement.Crash
open Placement Placement.Wf Placement.Sched Placement.Core Placement.Hier Placement.Gens
variable {R : Type} [CapOps R] {db0 : DB R}
set_option linter.unusedSectionVars false
set_option linter.unusedVariables false

theorem g0 (h0 : WFI db0) (p : P R) : G db0 db0 p := ⟨h0, .inl (AuxOnly.refl _)⟩

/-- a write transaction that finishes the request and keeps the bundled invariants -/
theorem write_path (l : Lbl) (f : DB R → DB R × P R)
    (hf : WFI (f db0).1 ∧ ∃ r, (f db0).2 = .done r) : Path (G db0) (fun s => s = db0) (.txn l f) := by
  refine Path.txn' _ _ (fun _ _ => True) ?_
  rintro s rfl
  obtain ⟨w, r, hr⟩ := hf
  refine ⟨⟨w, .inr ⟨r, hr⟩⟩, trivial, ?_⟩
  rw [hr]; exact .done _ _

/-- a read transaction on the known state -/
theorem read_path (h0 : WFI db0) (l : Lbl) (f : DB R → DB R × P R)
    (hf : (f db0).1 = db0 ∧ Path (G db0) (fun s => s = db0) (f db0).2) :
    Path (G db0) (fun s => s = db0) (.txn l f) := by
  refine Path.read _ _ ?_
  rintro s rfl
  exact ⟨hf.1, g0 h0 _, hf.2⟩

section guarded
variable (h0 : WFI db0)
include h0

theorem pInvSet_path (mv u g : Nat) (invs : List (InvSpec R)) :
    Path (G db0) (fun s => s = db0) (pInvSet mv u g invs) := by
  refine read_path h0 _ _ ?_
  unfold tInvSetR
  split
  · exact ⟨rfl, .done _ _⟩
  · split
    · exact ⟨rfl, .done _ _⟩
    · split
      · exact ⟨rfl, .done _ _⟩
      · refine ⟨rfl, write_path _ _ ?_⟩
        unfold tInvSetW
        split
        · next db' e => exact ⟨wfi_setInventory h0 e, _, rfl⟩
        · exact ⟨h0, _, rfl⟩

theorem pInvAdd_path (mv u : Nat) (inv : InvSpec R) :
    Path (G db0) (fun s => s = db0) (pInvAdd mv u inv) := by
  refine read_path h0 _ _ ?_
  unfold tInvAddR
  split
  · exact ⟨rfl, .done _ _⟩
  · split
    · exact ⟨rfl, .done _ _⟩
    · refine ⟨rfl, write_path _ _ ?_⟩
      unfold tInvAddW
      split
      · next db' e => exact ⟨wfi_addInventory h0 e, _, rfl⟩
      · exact ⟨h0, _, rfl⟩

theorem pInvUpdate_path (mv u g : Nat) (inv : InvSpec R) :
    Path (G db0) (fun s => s = db0) (pInvUpdate mv u g inv) := by
  refine read_path h0 _ _ ?_
  unfold tInvUpdateR
  split
  · exact ⟨rfl, .done _ _⟩
  · split
    · exact ⟨rfl, .done _ _⟩
    · split
      · exact ⟨rfl, .done _ _⟩
      · refine ⟨rfl, write_path _ _ ?_⟩
        unfold tInvUpdateW
        split
        · next db' e => exact ⟨wfi_updateInventory h0 e, _, rfl⟩
        · exact ⟨h0, _, rfl⟩

theorem pInvDelete_path (u rc : Nat) : Path (G db0) (fun s => s = db0) (pInvDelete u rc) := by
  refine read_path h0 _ _ ?_
  unfold tInvDeleteR
  split
  · exact ⟨rfl, .done _ _⟩
  · refine ⟨rfl, write_path _ _ ?_⟩
    unfold tInvDeleteW
    split
    · next db' e => exact ⟨wfi_deleteInventory h0 e, _, rfl⟩
    · exact ⟨h0, _, rfl⟩

theorem pInvDeleteAll_path (mv u : Nat) : Path (G db0) (fun s => s = db0) (pInvDeleteAll mv u) := by
  unfold pInvDeleteAll
  split
  · exact .done _ _
  · refine read_path h0 _ _ ?_
    unfold tInvDeleteAllR
    split
    · exact ⟨rfl, .done _ _⟩
    · refine ⟨rfl, write_path _ _ ?_⟩
      unfold tInvDeleteAllW
      split
      · next db' e => exact ⟨wfi_setInventory h0 e, _, rfl⟩
      · exact ⟨h0, _, rfl⟩

theorem pRpTraitsSet_path (u g : Nat) (ts : List Nat) :
    Path (G db0) (fun s => s = db0) (pRpTraitsSet u g ts) := by
  refine read_path h0 _ _ ?_
  unfold tRpTraitsSetR
  split
  · exact ⟨rfl, .done _ _⟩
  · split
    · exact ⟨rfl, .done _ _⟩
    · refine ⟨rfl, read_path h0 _ _ ?_⟩
      unfold tRpTraitsSetT
      split
      · exact ⟨rfl, .done _ _⟩
      · next hn =>
        refine ⟨rfl, write_path _ _ ?_⟩
        have hT : ∀ t ∈ ts, t ∈ db0.traits := by
          intro t ht
          simp only [List.any_eq_true, Bool.not_eq_eq_eq_not, Bool.not_true, List.contains_eq_mem,
            decide_eq_false_iff_not, not_exists, not_and, Classical.not_not] at hn
          exact hn t ht
        unfold tRpTraitsSetW
        split
        · next db' e => exact ⟨wfi_setTraits h0 hT e, _, rfl⟩
        · exact ⟨h0, _, rfl⟩

theorem pRpTraitsDelete_path (u : Nat) : Path (G db0) (fun s => s = db0) (pRpTraitsDelete u) := by
  refine read_path h0 _ _ ?_
  unfold tRpTraitsDeleteR
  split
  · exact ⟨rfl, .done _ _⟩
  · refine ⟨rfl, write_path _ _ ?_⟩
    unfold tRpTraitsDeleteW
    split
    · next db' e => exact ⟨wfi_setTraits h0 (fun _ h => by cases h) e, _, rfl⟩
    · exact ⟨h0, _, rfl⟩

theorem pAggsSet_path (mv u : Nat) (g : Option Nat) (aggs : List Nat) :
    Path (G db0) (fun s => s = db0) (pAggsSet mv u g aggs) := by
  unfold pAggsSet
  split
  · exact .done _ _
  · refine read_path h0 _ _ ?_
    unfold tAggsSetR
    split
    · exact ⟨rfl, .done _ _⟩
    · next rp hrp =>
      dsimp only
      split
      · exact ⟨rfl, .done _ _⟩
      · refine ⟨rfl, write_path _ _ ?_⟩
        unfold tAggsSetW
        split
        · next db' e =>
          exact ⟨wfi_setAggregates h0 ⟨rp, (hasRp_of_rpByUuid hrp).1, rfl⟩ e, _, rfl⟩
        · exact ⟨h0, _, rfl⟩

theorem pAllocDelete_path (c : Nat) : Path (G db0) (fun s => s = db0) (pAllocDelete c) := by
  refine read_path h0 _ _ ?_
  unfold tAllocDeleteR
  dsimp only
  split
  · exact ⟨rfl, .done _ _⟩
  · refine ⟨rfl, write_path _ _ ?_⟩
    unfold tAllocDeleteW
    refine ⟨?_, _, rfl⟩
    have hR : RI { db0 with allocs := db0.allocs.filter (fun a => !(db0.allocs.filter (fun a => a.consumer == c &&
        (db0.rpById a.rp).isSome && (db0.consByUuid c).isSome)).contains a) } :=
      { h0.ri with
        allocRp := fun a ha => h0.ri.allocRp a (List.mem_filter.1 ha).1
        allocInv := fun a ha => h0.ri.allocInv a (List.mem_filter.1 ha).1
        allocCons := fun a ha => h0.ri.allocCons a (List.mem_filter.1 ha).1 }
    have hU : UniqC { db0 with allocs := db0.allocs.filter (fun a => !(db0.allocs.filter (fun a => a.consumer == c &&
        (db0.rpById a.rp).isSome && (db0.consByUuid c).isSome)).contains a) } := { h0.uniq with }
    exact ⟨uniqC_deleteConsumersIfNoAllocs hU _, ri_deleteConsumersIfNoAllocs hR _,
      L.nodup_map_filter _ h0.keys, fun a ha => h0.pos a (List.mem_filter.1 ha).1⟩

/-- a request modelled as one transaction -/
theorem other_path (cfg : Config) (l : Lbl) (op : Op R) (hwf : OpWF op) :
    Path (G db0) (fun s => s = db0) (.txn l (stepTxn cfg op)) :=
  write_path _ _ ⟨wfi_step h0 op hwf, _, rfl⟩

/-- PUT /resource_providers/{u}: look-up, then one write transaction -/
theorem pRpUpdate_path (mv u n : Nat) (p : Option (Option Nat)) :
    Path (G db0) (fun s => s = db0) (pRpUpdate mv u n p) := by
  refine read_path h0 _ _ ?_
  unfold tRpUpdateR
  split
  · exact ⟨rfl, .done _ _⟩
  · split
    · exact ⟨rfl, .done _ _⟩
    · refine ⟨rfl, write_path _ _ ?_⟩
      unfold tRpUpdateW
      split
      · next db' e => exact ⟨wfi_updateProvider h0 e, _, rfl⟩
      · exact ⟨h0, _, rfl⟩

/-- DELETE /resource_providers/{u}: look-up, then one write transaction -/
theorem pRpDelete_path (u : Nat) : Path (G db0) (fun s => s = db0) (pRpDelete u) := by
  refine read_path h0 _ _ ?_
  unfold tRpDeleteR
  split
  · exact ⟨rfl, .done _ _⟩
  · refine ⟨rfl, write_path _ _ ?_⟩
    unfold tRpDeleteW
    split
    · next db' e => exact ⟨wfi_deleteProvider h0 e, _, rfl⟩
    · exact ⟨h0, _, rfl⟩

/-- **every request program**, started on a state with the bundled invariants, leaves after each of its
transactions a state with the bundled invariants that is the original one plus auxiliary records only,
unless the request has finished -/
theorem prog_path (cfg : Config) (op : Op R) (hwf : OpWF op) :
    Path (G db0) (fun s => s = db0) (prog cfg op) := by
  cases op with
  | invSet mv u g is => exact pInvSet_path h0 mv u g is
  | invAdd mv u i => exact pInvAdd_path h0 mv u i
  | invUpdate mv u g i => exact pInvUpdate_path h0 mv u g i
  | invDelete u rc => exact pInvDelete_path h0 u rc
  | invDeleteAll mv u => exact pInvDeleteAll_path h0 mv u
  | rpTraitsSet u g ts => exact pRpTraitsSet_path h0 u g ts
  | rpTraitsDelete u => exact pRpTraitsDelete_path h0 u
  | aggsSet mv u g as => exact pAggsSet_path h0 mv u g as
  | allocPut mv c => exact pAllocPut_path h0 cfg mv c hwf
  | allocPost mv cs => exact pAllocPost_path h0 cfg mv cs hwf
  | reshape mv invs cs => exact pReshape_path h0 cfg mv invs cs hwf
  | allocDelete c => exact pAllocDelete_path h0 c
  | rpCreate mv u n p => exact other_path h0 cfg _ _ hwf
  | rpUpdate mv u n p => exact pRpUpdate_path h0 mv u n p
  | rpDelete u => exact pRpDelete_path h0 u
  | traitPut n => exact other_path h0 cfg _ _ hwf
  | traitDelete n => exact other_path h0 cfg _ _ hwf
  | rcPost n => exact other_path h0 cfg _ _ hwf
  | rcPut n => exact other_path h0 cfg _ _ hwf
  | rcRename o n => exact other_path h0 cfg _ _ hwf
  | rcDelete n => exact other_path h0 cfg _ _ hwf

end guarded

/-! ### the hierarchy: every transaction, on any state -/

/-- the write transaction of PUT /resource_providers/{u} on ANY state (the look-up may be stale) -/
theorem pRpUpdate_hinv (mv u n : Nat) (p : Option (Option Nat)) :
    All (fun s s' : DB R => HInv s → HInv s') (pRpUpdate (R := R) mv u n p) := by
  refine All.txn' _ _ (fun db => ?_)
  unfold tRpUpdateR
  split
  · exact ⟨id, .done _⟩
  · split
    · exact ⟨id, .done _⟩
    · refine ⟨id, All.txn' _ _ (fun db' => ?_)⟩
      unfold tRpUpdateW
      split
      · next db'' heq =>
        refine ⟨fun h => ?_, .done _⟩
        obtain ⟨hi, hf, hr⟩ := updateProvider_inv heq h.ids.rpIds h.forest h.roots
        obtain ⟨me, -, hc⟩ := Hier.updateProvider_ok heq
        rcases hc with ⟨_, _, -, -, -, -, rfl⟩ | ⟨-, -, -, rfl⟩ | ⟨-, -, rfl⟩ <;>
          exact ⟨ids_of_rpIds hi h.ids rfl rfl, hf, hr⟩
      · exact ⟨id, .done _⟩

/-- the write transaction of DELETE /resource_providers/{u} on ANY state -/
theorem pRpDelete_hinv (u : Nat) : All (fun s s' : DB R => HInv s → HInv s') (pRpDelete (R := R) u) := by
  refine All.txn' _ _ (fun db => ?_)
  unfold tRpDeleteR
  split
  · exact ⟨id, .done _⟩
  · refine ⟨id, All.txn' _ _ (fun db' => ?_)⟩
    unfold tRpDeleteW
    split
    · next db'' heq =>
      refine ⟨fun h => ?_, .done _⟩
      obtain ⟨hi, hf, hr⟩ := deleteProvider_inv heq h.ids.rpIds h.forest h.roots
      obtain ⟨-, -, rfl⟩ := Hier.deleteProvider_ok heq
      exact ⟨ids_of_rpIds hi h.ids rfl rfl, hf, hr⟩
    · exact ⟨id, .done _⟩

/-- **every transaction of every request** keeps provider ids unique and the hierarchy a forest with
correct root pointers, whatever state it runs on -/
theorem prog_hinv_all (cfg : Config) (op : Op R) :
    All (fun s s' : DB R => HInv s → HInv s') (prog cfg op) := by
  by_cases hop : isProviderOp op = true
  · have : ∀ (l : Lbl) (op' : Op R), All (fun s s' : DB R => HInv s → HInv s') (.txn l (stepTxn cfg op')) := fun l op' =>
      All.txn' _ _ (fun db => ⟨fun h => step_hinv cfg h op', .done _⟩)
    cases op <;> first | exact this _ _ | exact pRpUpdate_hinv _ _ _ _ | exact pRpDelete_hinv _ | simp [isProviderOp] at hop
  · have := prog_evo (N := fun _ => True) cfg op (by simpa using hop) (fun _ _ => trivial)
    exact this.mono (fun s s' h hi => hinv_of_frame hi (h hi.ids).frame)

end Placement.Crash
