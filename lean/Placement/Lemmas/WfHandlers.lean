import Placement.Lemmas.WfTxn
/-
  Preservation of `UniqC`, `RI`, `AllocKeys`, `AllocPos` by every handler, hence by `step`, hence for
  every state reachable by well-formed requests (`ReachWF`).  C08, first half.
-/
namespace Placement.Wf
variable {R : Type}

/-- the invariants of the stored state proved here, bundled -/
structure WFI (db : DB R) : Prop where
  uniq : UniqC db
  ri : RI db
  keys : AllocKeys db
  pos : AllocPos db

theorem WFI.toUniq {db : DB R} (h : WFI db) : Uniq db := uniq_iff.2 ⟨h.uniq, h.keys⟩

theorem WFI.of_allocs_eq {db db' : DB R} (h : WFI db) (hU : UniqC db') (hR : RI db')
    (e : db'.allocs = db.allocs) : WFI db' :=
  ⟨hU, hR, by unfold AllocKeys; rw [e]; exact h.keys, by unfold AllocPos; rw [e]; exact h.pos⟩

/-! ### object layer, bundled (functions that do not touch allocations) -/

theorem wfi_createProvider {db db' : DB R} {uuid name : Nat} {parent : Option Nat} {row : RpRow}
    (h : WFI db) (e : createProvider db uuid name parent = .ok (db', row)) : WFI db' :=
  h.of_allocs_eq (uniqC_createProvider h.uniq e) (ri_createProvider h.ri e)
    (by rw [(createProvider_ok e).1])

theorem wfi_updateProvider {db db' : DB R} {id name : Nat} {parent : Option Nat} {allow : Bool}
    (h : WFI db) (e : updateProvider db id name parent allow = .ok db') : WFI db' :=
  h.of_allocs_eq (uniqC_updateProvider h.uniq e) (ri_updateProvider h.ri e)
    (by obtain ⟨g, rfl, -⟩ := updateProvider_ok e; rfl)

theorem wfi_deleteProvider {db db' : DB R} {id : Nat} (h : WFI db) (e : deleteProvider db id = .ok db') :
    WFI db' :=
  h.of_allocs_eq (uniqC_deleteProvider h.uniq e) (ri_deleteProvider h.ri e)
    (by rw [(deleteProvider_ok e).1])

theorem incRpGen_allocs {db db' : DB R} {id gen : Nat} (e : incRpGen db id gen = .ok db') :
    db'.allocs = db.allocs := by rw [(incRpGen_ok e).1]; rfl

theorem wfi_setInventory {db db' : DB R} {rp gen : Nat} {invs : List (InvSpec R)}
    (h : WFI db) (e : setInventory db rp gen invs = .ok db') : WFI db' :=
  h.of_allocs_eq (uniqC_setInventory h.uniq e) (ri_setInventory h.ri e) (setInventory_frame e).1

theorem wfi_addInventory {db db' : DB R} {rp gen : Nat} {inv : InvSpec R}
    (h : WFI db) (e : addInventory db rp gen inv = .ok db') : WFI db' := by
  refine h.of_allocs_eq (uniqC_addInventory h.uniq e) (ri_addInventory h.ri e) ?_
  unfold addInventory at e
  split at e
  · cases e
  · split at e
    · cases e
    · (have := incRpGen_allocs e; exact this)

theorem wfi_updateInventory {db db' : DB R} {rp gen : Nat} {inv : InvSpec R}
    (h : WFI db) (e : updateInventory db rp gen inv = .ok db') : WFI db' := by
  refine h.of_allocs_eq (uniqC_updateInventory h.uniq e) (ri_updateInventory h.ri e) ?_
  unfold updateInventory at e
  split at e
  · cases e
  · split at e
    · cases e
    · dsimp only at e
      (have := incRpGen_allocs e; exact this)

theorem wfi_deleteInventory {db db' : DB R} {rp gen rcName : Nat}
    (h : WFI db) (e : deleteInventory db rp gen rcName = .ok db') : WFI db' := by
  refine h.of_allocs_eq (uniqC_deleteInventory h.uniq e) (ri_deleteInventory h.ri e) ?_
  obtain ⟨rc, -, -, e⟩ := deleteInventory_ok e
  (have := incRpGen_allocs e; exact this)

theorem wfi_setTraits {db db' : DB R} {rp gen : Nat} {traits : List Nat}
    (h : WFI db) (hT : ∀ t ∈ traits, t ∈ db.traits) (e : setTraits db rp gen traits = .ok db') : WFI db' := by
  refine h.of_allocs_eq (uniqC_setTraits h.uniq e) (ri_setTraits h.ri hT e) ?_
  rcases setTraits_ok e with rfl | ⟨p, add, -, -, e⟩
  · rfl
  · (have := incRpGen_allocs e; exact this)

theorem wfi_createTrait {db db' : DB R} {name : Nat} (h : WFI db) (e : createTrait db name = .ok db') :
    WFI db' := by
  refine h.of_allocs_eq (uniqC_createTrait h.uniq e) (ri_createTrait h.ri e) ?_
  unfold createTrait at e
  split at e
  · cases e
  · injection e with e; subst e; rfl

theorem wfi_deleteTrait {db db' : DB R} {name : Nat} (h : WFI db) (e : deleteTrait db name = .ok db') :
    WFI db' :=
  h.of_allocs_eq (uniqC_deleteTrait h.uniq e) (ri_deleteTrait h.ri e) (by rw [(deleteTrait_ok e).1])

theorem wfi_setAggregates {db db' : DB R} {rp gen : Nat} {aggs : List Nat} {incGen : Bool}
    (h : WFI db) (hrp : HasRp db rp) (e : setAggregates db rp gen aggs incGen = .ok db') : WFI db' := by
  refine h.of_allocs_eq (uniqC_setAggregates h.uniq e) (ri_setAggregates h.ri hrp e) ?_
  unfold setAggregates at e
  dsimp only at e
  split at e
  · (have := incRpGen_allocs e; exact this)
  · injection e with e; subst e; rfl

theorem wfi_createRc {db db' : DB R} {name : Nat} (h : WFI db) (e : createRc db name = .ok db') : WFI db' :=
  h.of_allocs_eq (uniqC_createRc h.uniq e) (ri_createRc h.ri e) (by rw [(createRc_ok e).1])

theorem wfi_deleteRc {db db' : DB R} {id : Nat} (h : WFI db) (e : deleteRc db id = .ok db') : WFI db' :=
  h.of_allocs_eq (uniqC_deleteRc h.uniq e) (ri_deleteRc h.ri e) (by rw [(deleteRc_ok e).1])

theorem wfi_renameRc {db db' : DB R} {id n : Nat} (h : WFI db) (e : renameRc db id n = .ok db') : WFI db' :=
  h.of_allocs_eq (uniqC_renameRc h.uniq e) (ri_renameRc h.ri e) (by rw [(renameRc_ok e).1])

/-! ### handlers: what the resulting state is -/

variable [CapOps R]

omit [CapOps R] in
theorem hRpCreate_cases (db : DB R) (mv uuid name : Nat) (parent : Option Nat) :
    (hRpCreate db mv uuid name parent).1 = db ∨
    ∃ db' row, createProvider db uuid name parent = .ok (db', row) ∧ (hRpCreate db mv uuid name parent).1 = db' := by
  unfold hRpCreate
  repeat' split
  all_goals first | exact Or.inl rfl | exact Or.inr ⟨_, _, ‹_›, rfl⟩

omit [CapOps R] in
theorem hRpUpdate_cases (db : DB R) (mv uuid name : Nat) (parent : Option (Option Nat)) :
    (hRpUpdate db mv uuid name parent).1 = db ∨
    ∃ id p a db', updateProvider db id name p a = .ok db' ∧ (hRpUpdate db mv uuid name parent).1 = db' := by
  unfold hRpUpdate
  dsimp only
  repeat' split
  all_goals first | exact Or.inl rfl | exact Or.inr ⟨_, _, _, _, ‹_›, rfl⟩

omit [CapOps R] in
theorem hRpDelete_cases (db : DB R) (uuid : Nat) :
    (hRpDelete db uuid).1 = db ∨
    ∃ me db', db.rpByUuid uuid = some me ∧ deleteProvider db me.id = .ok db' ∧ (hRpDelete db uuid).1 = db' := by
  unfold hRpDelete
  repeat' split
  all_goals first | exact Or.inl rfl | exact Or.inr ⟨_, _, ‹_›, ‹_›, rfl⟩

theorem hInvSet_cases (db : DB R) (mv uuid gen : Nat) (invs : List (InvSpec R)) :
    (hInvSet db mv uuid gen invs).1 = db ∨
    ∃ rp db', db.rpByUuid uuid = some rp ∧ setInventory db rp.id rp.gen invs = .ok db' ∧
      (hInvSet db mv uuid gen invs).1 = db' := by
  unfold hInvSet
  repeat' split
  all_goals first | exact Or.inl rfl | exact Or.inr ⟨_, _, ‹_›, ‹_›, rfl⟩

theorem hInvAdd_cases (db : DB R) (mv uuid : Nat) (inv : InvSpec R) :
    (hInvAdd db mv uuid inv).1 = db ∨
    ∃ rp db', db.rpByUuid uuid = some rp ∧ addInventory db rp.id rp.gen inv = .ok db' ∧
      (hInvAdd db mv uuid inv).1 = db' := by
  unfold hInvAdd
  repeat' split
  all_goals first | exact Or.inl rfl | exact Or.inr ⟨_, _, ‹_›, ‹_›, rfl⟩

theorem hInvUpdate_cases (db : DB R) (mv uuid gen : Nat) (inv : InvSpec R) :
    (hInvUpdate db mv uuid gen inv).1 = db ∨
    ∃ rp db', db.rpByUuid uuid = some rp ∧ updateInventory db rp.id rp.gen inv = .ok db' ∧
      (hInvUpdate db mv uuid gen inv).1 = db' := by
  unfold hInvUpdate
  repeat' split
  all_goals first | exact Or.inl rfl | exact Or.inr ⟨_, _, ‹_›, ‹_›, rfl⟩

omit [CapOps R] in
theorem hInvDelete_cases (db : DB R) (uuid rcName : Nat) :
    (hInvDelete db uuid rcName).1 = db ∨
    ∃ rp db', db.rpByUuid uuid = some rp ∧ deleteInventory db rp.id rp.gen rcName = .ok db' ∧
      (hInvDelete db uuid rcName).1 = db' := by
  unfold hInvDelete
  repeat' split
  all_goals first | exact Or.inl rfl | exact Or.inr ⟨_, _, ‹_›, ‹_›, rfl⟩

omit [CapOps R] in
theorem hInvDeleteAll_cases (db : DB R) (mv uuid : Nat) :
    (hInvDeleteAll db mv uuid).1 = db ∨
    ∃ rp db', db.rpByUuid uuid = some rp ∧ setInventory db rp.id rp.gen [] = .ok db' ∧
      (hInvDeleteAll db mv uuid).1 = db' := by
  unfold hInvDeleteAll
  repeat' split
  all_goals first | exact Or.inl rfl | exact Or.inr ⟨_, _, ‹_›, ‹_›, rfl⟩

omit [CapOps R] in
theorem hTraitPut_cases (db : DB R) (name : Nat) :
    (hTraitPut db name).1 = db ∨
    ∃ db', createTrait db name = .ok db' ∧ (hTraitPut db name).1 = db' := by
  unfold hTraitPut
  repeat' split
  all_goals first | exact Or.inl rfl | exact Or.inr ⟨_, ‹_›, rfl⟩

omit [CapOps R] in
theorem hTraitDelete_cases (db : DB R) (name : Nat) :
    (hTraitDelete db name).1 = db ∨
    ∃ db', deleteTrait db name = .ok db' ∧ (hTraitDelete db name).1 = db' := by
  unfold hTraitDelete
  repeat' split
  all_goals first | exact Or.inl rfl | exact Or.inr ⟨_, ‹_›, rfl⟩

omit [CapOps R] in
theorem hRpTraitsSet_cases (db : DB R) (uuid gen : Nat) (traits : List Nat) :
    (hRpTraitsSet db uuid gen traits).1 = db ∨
    ∃ rp db', db.rpByUuid uuid = some rp ∧ (∀ t ∈ traits, t ∈ db.traits) ∧
      setTraits db rp.id rp.gen traits = .ok db' ∧ (hRpTraitsSet db uuid gen traits).1 = db' := by
  unfold hRpTraitsSet
  repeat' split
  all_goals first
    | exact Or.inl rfl
    | (refine Or.inr ⟨_, _, ‹_›, ?_, ‹_›, rfl⟩
       rename_i hn _ _ _
       intro t ht
       simp only [List.any_eq_true, not_exists, not_and, Bool.not_eq_true',
         List.contains_eq_mem] at hn
       simpa using hn t ht)

omit [CapOps R] in
theorem hRpTraitsDelete_cases (db : DB R) (uuid : Nat) :
    (hRpTraitsDelete db uuid).1 = db ∨
    ∃ rp db', db.rpByUuid uuid = some rp ∧ setTraits db rp.id rp.gen [] = .ok db' ∧
      (hRpTraitsDelete db uuid).1 = db' := by
  unfold hRpTraitsDelete
  repeat' split
  all_goals first | exact Or.inl rfl | exact Or.inr ⟨_, _, ‹_›, ‹_›, rfl⟩

omit [CapOps R] in
theorem hRcPost_cases (db : DB R) (name : Nat) :
    (hRcPost db name).1 = db ∨ ∃ db', createRc db name = .ok db' ∧ (hRcPost db name).1 = db' := by
  unfold hRcPost
  repeat' split
  all_goals first | exact Or.inl rfl | exact Or.inr ⟨_, ‹_›, rfl⟩

omit [CapOps R] in
theorem hRcPut_cases (db : DB R) (name : Nat) :
    (hRcPut db name).1 = db ∨ ∃ db', createRc db name = .ok db' ∧ (hRcPut db name).1 = db' := by
  unfold hRcPut
  repeat' split
  all_goals first | exact Or.inl rfl | exact Or.inr ⟨_, ‹_›, rfl⟩

omit [CapOps R] in
theorem hRcRename_cases (db : DB R) (old new : Nat) :
    (hRcRename db old new).1 = db ∨
    ∃ id db', db.rcId old = some id ∧ renameRc db id new = .ok db' ∧ (hRcRename db old new).1 = db' := by
  unfold hRcRename
  repeat' split
  all_goals first | exact Or.inl rfl | exact Or.inr ⟨_, _, ‹_›, ‹_›, rfl⟩

omit [CapOps R] in
theorem hRcDelete_cases (db : DB R) (name : Nat) :
    (hRcDelete db name).1 = db ∨
    ∃ id db', db.rcId name = some id ∧ deleteRc db id = .ok db' ∧ (hRcDelete db name).1 = db' := by
  unfold hRcDelete
  repeat' split
  all_goals first | exact Or.inl rfl | exact Or.inr ⟨_, _, ‹_›, ‹_›, rfl⟩

omit [CapOps R] in
theorem hAggsSet_cases (db : DB R) (mv uuid : Nat) (gen : Option Nat) (aggs : List Nat) :
    (hAggsSet db mv uuid gen aggs).1 = db ∨
    ∃ rp b db', db.rpByUuid uuid = some rp ∧ setAggregates db rp.id rp.gen aggs b = .ok db' ∧
      (hAggsSet db mv uuid gen aggs).1 = db' := by
  unfold hAggsSet
  dsimp only
  repeat' split
  all_goals first | exact Or.inl rfl | exact Or.inr ⟨_, _, _, ‹_›, ‹_›, rfl⟩


/-! ### handlers that do not write allocations -/

omit [CapOps R] in
theorem wfi_hRpCreate {db : DB R} (h : WFI db) (mv uuid name : Nat) (parent : Option Nat) :
    WFI (hRpCreate db mv uuid name parent).1 := by
  rcases hRpCreate_cases db mv uuid name parent with e | ⟨db', row, e1, e2⟩
  · rw [e]; exact h
  · rw [e2]; exact wfi_createProvider h e1

omit [CapOps R] in
theorem wfi_hRpUpdate {db : DB R} (h : WFI db) (mv uuid name : Nat) (parent : Option (Option Nat)) :
    WFI (hRpUpdate db mv uuid name parent).1 := by
  rcases hRpUpdate_cases db mv uuid name parent with e | ⟨id, p, a, db', e1, e2⟩
  · rw [e]; exact h
  · rw [e2]; exact wfi_updateProvider h e1

omit [CapOps R] in
theorem wfi_hRpDelete {db : DB R} (h : WFI db) (uuid : Nat) : WFI (hRpDelete db uuid).1 := by
  rcases hRpDelete_cases db uuid with e | ⟨me, db', -, e1, e2⟩
  · rw [e]; exact h
  · rw [e2]; exact wfi_deleteProvider h e1

theorem wfi_hInvSet {db : DB R} (h : WFI db) (mv uuid gen : Nat) (invs : List (InvSpec R)) :
    WFI (hInvSet db mv uuid gen invs).1 := by
  rcases hInvSet_cases db mv uuid gen invs with e | ⟨rp, db', -, e1, e2⟩
  · rw [e]; exact h
  · rw [e2]; exact wfi_setInventory h e1

theorem wfi_hInvAdd {db : DB R} (h : WFI db) (mv uuid : Nat) (inv : InvSpec R) :
    WFI (hInvAdd db mv uuid inv).1 := by
  rcases hInvAdd_cases db mv uuid inv with e | ⟨rp, db', -, e1, e2⟩
  · rw [e]; exact h
  · rw [e2]; exact wfi_addInventory h e1

theorem wfi_hInvUpdate {db : DB R} (h : WFI db) (mv uuid gen : Nat) (inv : InvSpec R) :
    WFI (hInvUpdate db mv uuid gen inv).1 := by
  rcases hInvUpdate_cases db mv uuid gen inv with e | ⟨rp, db', -, e1, e2⟩
  · rw [e]; exact h
  · rw [e2]; exact wfi_updateInventory h e1

omit [CapOps R] in
theorem wfi_hInvDelete {db : DB R} (h : WFI db) (uuid rcName : Nat) : WFI (hInvDelete db uuid rcName).1 := by
  rcases hInvDelete_cases db uuid rcName with e | ⟨rp, db', -, e1, e2⟩
  · rw [e]; exact h
  · rw [e2]; exact wfi_deleteInventory h e1

omit [CapOps R] in
theorem wfi_hInvDeleteAll {db : DB R} (h : WFI db) (mv uuid : Nat) : WFI (hInvDeleteAll db mv uuid).1 := by
  rcases hInvDeleteAll_cases db mv uuid with e | ⟨rp, db', -, e1, e2⟩
  · rw [e]; exact h
  · rw [e2]; exact wfi_setInventory h e1

omit [CapOps R] in
theorem wfi_hTraitPut {db : DB R} (h : WFI db) (name : Nat) : WFI (hTraitPut db name).1 := by
  rcases hTraitPut_cases db name with e | ⟨db', e1, e2⟩
  · rw [e]; exact h
  · rw [e2]; exact wfi_createTrait h e1

omit [CapOps R] in
theorem wfi_hTraitDelete {db : DB R} (h : WFI db) (name : Nat) : WFI (hTraitDelete db name).1 := by
  rcases hTraitDelete_cases db name with e | ⟨db', e1, e2⟩
  · rw [e]; exact h
  · rw [e2]; exact wfi_deleteTrait h e1

omit [CapOps R] in
theorem wfi_hRpTraitsSet {db : DB R} (h : WFI db) (uuid gen : Nat) (traits : List Nat) :
    WFI (hRpTraitsSet db uuid gen traits).1 := by
  rcases hRpTraitsSet_cases db uuid gen traits with e | ⟨rp, db', -, hT, e1, e2⟩
  · rw [e]; exact h
  · rw [e2]; exact wfi_setTraits h hT e1

omit [CapOps R] in
theorem wfi_hRpTraitsDelete {db : DB R} (h : WFI db) (uuid : Nat) : WFI (hRpTraitsDelete db uuid).1 := by
  rcases hRpTraitsDelete_cases db uuid with e | ⟨rp, db', -, e1, e2⟩
  · rw [e]; exact h
  · rw [e2]; exact wfi_setTraits h (by simp) e1

omit [CapOps R] in
theorem wfi_hRcPost {db : DB R} (h : WFI db) (name : Nat) : WFI (hRcPost db name).1 := by
  rcases hRcPost_cases db name with e | ⟨db', e1, e2⟩
  · rw [e]; exact h
  · rw [e2]; exact wfi_createRc h e1

omit [CapOps R] in
theorem wfi_hRcPut {db : DB R} (h : WFI db) (name : Nat) : WFI (hRcPut db name).1 := by
  rcases hRcPut_cases db name with e | ⟨db', e1, e2⟩
  · rw [e]; exact h
  · rw [e2]; exact wfi_createRc h e1

omit [CapOps R] in
theorem wfi_hRcRename {db : DB R} (h : WFI db) (old new : Nat) : WFI (hRcRename db old new).1 := by
  rcases hRcRename_cases db old new with e | ⟨id, db', -, e1, e2⟩
  · rw [e]; exact h
  · rw [e2]; exact wfi_renameRc h e1

omit [CapOps R] in
theorem wfi_hRcDelete {db : DB R} (h : WFI db) (name : Nat) : WFI (hRcDelete db name).1 := by
  rcases hRcDelete_cases db name with e | ⟨id, db', -, e1, e2⟩
  · rw [e]; exact h
  · rw [e2]; exact wfi_deleteRc h e1

omit [CapOps R] in
theorem wfi_hAggsSet {db : DB R} (h : WFI db) (mv uuid : Nat) (gen : Option Nat) (aggs : List Nat) :
    WFI (hAggsSet db mv uuid gen aggs).1 := by
  rcases hAggsSet_cases db mv uuid gen aggs with e | ⟨rp, b, db', hrp, e1, e2⟩
  · rw [e]; exact h
  · rw [e2]; exact wfi_setAggregates h ⟨rp, (hasRp_of_rpByUuid hrp).1, rfl⟩ e1

/-! ### DELETE /allocations/{consumer} -/

omit [CapOps R] in
theorem wfi_deleteAllocations {db : DB R} (h : WFI db) (consumer : Nat) : WFI (deleteAllocations db consumer) := by
  unfold deleteAllocations
  have hR : RI { db with allocs := db.allocs.filter (·.consumer != consumer) } :=
    { h.ri with
      allocRp := fun a ha => h.ri.allocRp a (List.mem_filter.1 ha).1
      allocInv := fun a ha => h.ri.allocInv a (List.mem_filter.1 ha).1
      allocCons := fun a ha => h.ri.allocCons a (List.mem_filter.1 ha).1 }
  have hU : UniqC { db with allocs := db.allocs.filter (·.consumer != consumer) } := { h.uniq with }
  exact ⟨uniqC_deleteConsumersIfNoAllocs hU _, ri_deleteConsumersIfNoAllocs hR _,
    L.nodup_map_filter _ h.keys, fun a ha => h.pos a (List.mem_filter.1 ha).1⟩

omit [CapOps R] in
theorem wfi_hAllocDelete {db : DB R} (h : WFI db) (consumer : Nat) : WFI (hAllocDelete db consumer).1 := by
  unfold hAllocDelete
  split
  · exact wfi_deleteAllocations h consumer
  · exact h

end Placement.Wf
