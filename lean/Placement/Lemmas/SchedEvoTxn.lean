import Placement.Lemmas.SchedEvo
import Placement.Lemmas.Gen
/-
  Every transaction of every transaction program of `Model/Txn.lean` other than a provider
  create/update/delete is an `EvoG` step (`prog_evo`); consequently no transaction of ANY request
  lowers a provider or consumer generation or reuses an id (`gens_monotone_all`).
-/
namespace Placement.Sched
open Placement Placement.Gens Placement.Hier
variable {R : Type} [CapOps R]
set_option linter.unusedSectionVars false

/-- `ensure_consumer` may create the consumer of this entry (below 1.28, or generation null) -/
def creatable (mv : Nat) (c : ConsumerReq) : Bool := !(decide (mv ≥ 28) && c.gen.isSome)

/-- uuids of the consumers a request may create -/
def opCreates : Op R → List Nat
  | .allocPut mv c => if creatable mv c then [c.uuid] else []
  | .allocPost mv cs => (cs.filter (creatable mv)).map (·.uuid)
  | .reshape mv _ cs => (cs.filter (creatable mv)).map (·.uuid)
  | _ => []

def isProviderOp : Op R → Bool
  | .rpCreate .. | .rpUpdate .. | .rpDelete .. => true
  | _ => false

variable {N : Nat → Prop}

/-- shorthand: the transaction leaves the state as it is -/
theorem all_same {l : Lbl} {f : DB R → DB R × P R} (h : ∀ db, (f db).1 = db ∧ All (QEvo N) (f db).2) :
    All (QEvo N) (.txn l f) :=
  All.txn' l f (fun db => ⟨by rw [(h db).1]; exact QEvo.refl N db, (h db).2⟩)

/-! ### cleanup and the main transaction -/

theorem aCleanup_all (r : Resp) : ∀ ids : List Nat, All (QEvo N) (.txn .cleanup (aCleanup (R := R) r ids))
  | [] => All.txn' _ _ (fun db => ⟨QEvo.refl N db, .done r⟩)
  | [id] => All.txn' _ _ (fun db => ⟨fun hI => deleteConsumerRows_evo db [id] hI, .done r⟩)
  | id :: id' :: rest => All.txn' _ _ (fun db =>
      ⟨fun hI => deleteConsumerRows_evo db [id] hI, aCleanup_all r (id' :: rest)⟩)

theorem cleanupThen_all (ids : List Nat) (r : Resp) : All (QEvo N) (cleanupThen (R := R) ids r) := by
  unfold cleanupThen
  split
  · exact .done r
  · exact aCleanup_all r ids

theorem aMain_res_evo {ctx : ACtx R} {objs : List AllocReq} {db db2 db3 : DB R}
    (h : (match ctx.kind with
          | .reshape => reshapeTxnR db2 ctx.rinvs objs
          | _ => replaceAll db retryCount db2 objs) = .ok db3) (hI : Ids db2.gcore) :
    EvoG N db2.gcore db3.gcore := by
  split at h
  · exact reshapeTxnR_evo h hI
  · exact replaceAll_evo _ _ _ _ h hI

theorem aMain_all (ctx : ACtx R) (objs : List AllocReq) (db : DB R) :
    QEvo N db (aMain ctx objs db).1 ∧ All (QEvo N) (aMain ctx objs db).2 := by
  unfold aMain
  dsimp only
  split
  · rename_i db3 h
    refine ⟨fun hI => ?_, .done _⟩
    have f1 := updateConsumers_evo (N := N) ctx.done db hI
    have f2 := f1.trans (aMain_res_evo h f1.ids)
    exact f2.trans (deleteConsumersIfNoAllocs_evo db3 _ f2.ids)
  · exact ⟨QEvo.refl N db, cleanupThen_all _ _⟩

/-! ### building the allocation objects -/

theorem aGetRps_all (created : List Nat) (k : List RpRow → P R) (hk : ∀ rows, All (QEvo N) (k rows)) :
    ∀ (us : List Nat) (rows : List RpRow), All (QEvo N) (.txn .getRp (aGetRps created k us rows))
  | [], rows => all_same (fun db => ⟨rfl, hk rows⟩)
  | [u], rows => all_same (fun db => by
      simp only [aGetRps]
      split
      · exact ⟨rfl, cleanupThen_all _ _⟩
      · exact ⟨rfl, hk _⟩)
  | u :: u' :: us, rows => all_same (fun db => by
      simp only [aGetRps]
      split
      · exact ⟨rfl, cleanupThen_all _ _⟩
      · exact ⟨rfl, aGetRps_all created k hk (u' :: us) _⟩)

theorem aBuildNext_all (ctx : ACtx R) : ∀ (l : List (ConsumerReq × ConsRow × ReqAttr)) (objs : List AllocReq),
    All (QEvo N) (aBuildNext ctx l objs)
  | [], objs => All.txn' _ _ (fun db => aMain_all ctx objs db)
  | (c, cons, _) :: rest, objs => by
    unfold aBuildNext
    split
    · exact all_same (fun db => ⟨rfl, aBuildNext_all ctx rest _⟩)
    · exact aGetRps_all _ _ (fun rows => aBuildNext_all ctx rest _) _ _

/-! ### `ensure_consumer` -/

section ensure
variable (ctx : ACtx R) (c : ConsumerReq) (k : ACtx R → P R)
  (hk : ∀ ctx' : ACtx R, ctx'.mv = ctx.mv → All (QEvo N) (k ctx'))
include hk

theorem aAdoptUpdate_all (cons : ConsRow) (t : Option Nat) :
    All (QEvo N) (.txn .updateConsumer (aAdoptUpdate ctx c cons t k)) :=
  All.txn' _ _ (fun db => by
    refine ⟨fun hI => ?_, hk _ rfl⟩
    exact EvoG.consMap hI _ (fun x => by split <;> rfl) (fun x => by split <;> rfl)
      (fun x _ => by split <;> exact Nat.le_refl _))

theorem aAdopt_all (t : Option Nat) : All (QEvo N) (.txn .getConsumer (aAdopt ctx c t k)) :=
  all_same (fun db => by
    unfold aAdopt
    dsimp only
    split
    · exact ⟨rfl, cleanupThen_all _ _⟩
    · split
      · exact ⟨rfl, aAdoptUpdate_all ctx c k hk _ _⟩
      · exact ⟨rfl, hk _ rfl⟩)

theorem aCreateConsumer_all (t : Option Nat) (hn : N c.uuid) :
    All (QEvo N) (.txn .createConsumer (aCreateConsumer ctx c t k)) :=
  All.txn' _ _ (fun db => by
    unfold aCreateConsumer
    dsimp only
    split
    · exact ⟨QEvo.refl N db, aAdopt_all ctx c k hk t⟩
    · exact ⟨fun hI => EvoG.consAppend hI _ rfl hn, hk _ rfl⟩)

theorem aAfterType_all (found : Option ConsRow) (t : Option Nat) (hn : found = none → N c.uuid) :
    All (QEvo N) (aAfterType ctx c found t k) := by
  unfold aAfterType
  split
  · exact hk _ rfl
  · exact aCreateConsumer_all ctx c k hk t (hn rfl)

end ensure

section ensure2
variable (ctx : ACtx R) (c : ConsumerReq) (k : ACtx R → P R)
  (hk : ∀ ctx' : ACtx R, ctx'.mv = ctx.mv → All (QEvo N) (k ctx'))
include hk

theorem aCreateCtype_all (found : Option ConsRow) (t : Nat) (hn : found = none → N c.uuid) :
    All (QEvo N) (.txn .createCtype (aCreateCtype ctx c found t k)) :=
  All.txn' _ _ (fun db => by
    unfold aCreateCtype
    split
    · exact ⟨QEvo.of_gcore rfl, all_same (fun db' =>
        ⟨rfl, aAfterType_all { ctx with ctCache := some db'.ctypes } c k (fun ctx' h => hk ctx' h) found (some t) hn⟩)⟩
    · exact ⟨QEvo.of_gcore rfl,
        aAfterType_all { ctx with ctCache := none } c k (fun ctx' h => hk ctx' h) found (some t) hn⟩)

theorem aGetCtype_all (found : Option ConsRow) (t : Nat) (hn : found = none → N c.uuid) :
    All (QEvo N) (.txn .getCtype (aGetCtype ctx c found t k)) :=
  all_same (fun db => by
    unfold aGetCtype
    dsimp only
    split
    · exact ⟨rfl, aAfterType_all { ctx with ctCache := some db.ctypes } c k (fun ctx' h => hk ctx' h) found (some t) hn⟩
    · exact ⟨rfl, aCreateCtype_all { ctx with ctCache := some db.ctypes } c k (fun ctx' h => hk ctx' h) found t hn⟩)

theorem aType_all (found : Option ConsRow) (hn : found = none → N c.uuid) :
    All (QEvo N) (aType ctx c found k) := by
  unfold aType
  split
  · split
    · exact aAfterType_all ctx c k hk found none hn
    · split
      · split
        · exact aAfterType_all ctx c k hk found _ hn
        · exact aGetCtype_all ctx c k hk found _ hn
      · exact aGetCtype_all ctx c k hk found _ hn
  · exact aAfterType_all ctx c k hk found none hn

theorem aGetConsumer_all (hn : creatable ctx.mv c = true → N c.uuid) :
    All (QEvo N) (.txn .getConsumer (aGetConsumer ctx c k)) :=
  all_same (fun db => by
    unfold aGetConsumer
    split
    · split
      · exact ⟨rfl, cleanupThen_all _ _⟩
      · exact ⟨rfl, aType_all ctx c k hk _ (fun h => by cases h)⟩
    · split
      · exact ⟨rfl, cleanupThen_all _ _⟩
      · rename_i hc
        refine ⟨rfl, aType_all ctx c k hk _ (fun _ => hn ?_)⟩
        simp only [creatable, Bool.not_eq_true', Bool.and_eq_false_iff, decide_eq_false_iff_not]
        simp only [Bool.and_eq_true, decide_eq_true_eq, not_and, Bool.not_eq_true] at hc
        by_cases h28 : ctx.mv ≥ 28
        · exact .inr (hc h28)
        · exact .inl h28)

theorem aCreateUser_all (hn : creatable ctx.mv c = true → N c.uuid) :
    All (QEvo N) (.txn .createUser (aCreateUser ctx c k)) :=
  All.txn' _ _ (fun db => by
    unfold aCreateUser
    split
    · exact ⟨QEvo.of_gcore rfl, all_same (fun _ => ⟨rfl, aGetConsumer_all ctx c k hk hn⟩)⟩
    · exact ⟨QEvo.of_gcore rfl, aGetConsumer_all ctx c k hk hn⟩)

theorem aGetUser_all (hn : creatable ctx.mv c = true → N c.uuid) :
    All (QEvo N) (.txn .getUser (aGetUser ctx c k)) :=
  all_same (fun db => by
    unfold aGetUser
    split
    · exact ⟨rfl, aGetConsumer_all ctx c k hk hn⟩
    · exact ⟨rfl, aCreateUser_all ctx c k hk hn⟩)

theorem aCreateProject_all (hn : creatable ctx.mv c = true → N c.uuid) :
    All (QEvo N) (.txn .createProject (aCreateProject ctx c k)) :=
  All.txn' _ _ (fun db => by
    unfold aCreateProject
    split
    · exact ⟨QEvo.of_gcore rfl, all_same (fun _ => ⟨rfl, aGetUser_all ctx c k hk hn⟩)⟩
    · exact ⟨QEvo.of_gcore rfl, aGetUser_all ctx c k hk hn⟩)

theorem aGetProject_all (hn : creatable ctx.mv c = true → N c.uuid) :
    All (QEvo N) (.txn .getProject (aGetProject ctx c k)) :=
  all_same (fun db => by
    unfold aGetProject
    split
    · exact ⟨rfl, aGetUser_all ctx c k hk hn⟩
    · exact ⟨rfl, aCreateProject_all ctx c k hk hn⟩)

end ensure2

theorem aNext_all : ∀ (cs : List ConsumerReq) (ctx : ACtx R),
    (∀ c ∈ cs, creatable ctx.mv c = true → N c.uuid) → All (QEvo N) (aNext ctx cs)
  | [], ctx, _ => aBuildNext_all ctx _ _
  | c :: rest, ctx, hn => by
    unfold aNext
    refine aGetProject_all ctx c _ (fun ctx' hmv => ?_) (hn c List.mem_cons_self)
    exact aNext_all rest ctx' (fun c' hc' => by rw [hmv]; exact hn c' (List.mem_cons_of_mem _ hc'))

theorem aReshapeRps_all (cfg : Config) (mv : Nat) (cs : List ConsumerReq)
    (hn : ∀ c ∈ cs, creatable mv c = true → N c.uuid) :
    ∀ (todo : List (RpInvReq R)) (acc : List (Nat × Nat × List (InvSpec R))),
      All (QEvo N) (.txn .getRp (aReshapeRps cfg mv todo acc cs))
  | [], acc => all_same (fun db => ⟨rfl, .done _⟩)
  | r :: rest, acc => all_same (fun db => by
      unfold aReshapeRps
      dsimp only
      split
      · exact ⟨rfl, .done _⟩
      · split
        · exact ⟨rfl, .done _⟩
        · split
          · exact ⟨rfl, aReshapeRps_all cfg mv cs hn _ _⟩
          · exact ⟨rfl, aNext_all cs _ hn⟩)

/-! ### generation-guarded and generation-deriving provider writes -/

/-- a write transaction: on success an `EvoG` step, otherwise the state is unchanged -/
theorem write_all {l : Lbl} {f : DB R → DB R × P R}
    (h : ∀ db, (QEvo N db (f db).1) ∧ ∃ r, (f db).2 = .done r) : All (QEvo N) (.txn l f) :=
  All.txn' l f (fun db => by
    obtain ⟨h1, r, h2⟩ := h db
    exact ⟨h1, h2 ▸ .done r⟩)

theorem tInvSetW_all (rp gen : Nat) (invs : List (InvSpec R)) : All (QEvo N) (.txn .main (tInvSetW rp gen invs)) :=
  write_all (fun db => by
    unfold tInvSetW
    split
    · rename_i db' h; exact ⟨fun hI => setInventory_evo h hI, _, rfl⟩
    · exact ⟨QEvo.refl N db, _, rfl⟩)

theorem tInvAddW_all (rp gen : Nat) (inv : InvSpec R) : All (QEvo N) (.txn .main (tInvAddW rp gen inv)) :=
  write_all (fun db => by
    unfold tInvAddW
    split
    · rename_i db' h; exact ⟨fun hI => addInventory_evo h hI, _, rfl⟩
    · exact ⟨QEvo.refl N db, _, rfl⟩)

theorem tInvUpdateW_all (rp gen : Nat) (inv : InvSpec R) : All (QEvo N) (.txn .main (tInvUpdateW rp gen inv)) :=
  write_all (fun db => by
    unfold tInvUpdateW
    split
    · rename_i db' h; exact ⟨fun hI => updateInventory_evo h hI, _, rfl⟩
    · exact ⟨QEvo.refl N db, _, rfl⟩)

theorem tInvDeleteW_all (rp gen rc : Nat) : All (QEvo N) (.txn .main (tInvDeleteW (R := R) rp gen rc)) :=
  write_all (fun db => by
    unfold tInvDeleteW
    split
    · rename_i db' h; exact ⟨fun hI => deleteInventory_evo h hI, _, rfl⟩
    · exact ⟨QEvo.refl N db, _, rfl⟩)

theorem tInvDeleteAllW_all (rp gen : Nat) : All (QEvo N) (.txn .main (tInvDeleteAllW (R := R) rp gen)) :=
  write_all (fun db => by
    unfold tInvDeleteAllW
    split
    · rename_i db' h; exact ⟨fun hI => setInventory_evo h hI, _, rfl⟩
    · exact ⟨QEvo.refl N db, _, rfl⟩)

theorem tRpTraitsSetW_all (rp gen : Nat) (ts : List Nat) :
    All (QEvo N) (.txn .main (tRpTraitsSetW (R := R) rp gen ts)) :=
  write_all (fun db => by
    unfold tRpTraitsSetW
    split
    · rename_i db' h; exact ⟨fun hI => setTraits_evo h hI, _, rfl⟩
    · exact ⟨QEvo.refl N db, _, rfl⟩)

theorem tRpTraitsDeleteW_all (rp gen : Nat) : All (QEvo N) (.txn .main (tRpTraitsDeleteW (R := R) rp gen)) :=
  write_all (fun db => by
    unfold tRpTraitsDeleteW
    split
    · rename_i db' h; exact ⟨fun hI => setTraits_evo h hI, _, rfl⟩
    · exact ⟨QEvo.refl N db, _, rfl⟩)

theorem tAggsSetW_all (rp gen : Nat) (aggs : List Nat) (consider : Bool) :
    All (QEvo N) (.txn .main (tAggsSetW (R := R) rp gen aggs consider)) :=
  write_all (fun db => by
    unfold tAggsSetW
    split
    · rename_i db' h; exact ⟨fun hI => setAggregates_evo h hI, _, rfl⟩
    · exact ⟨QEvo.refl N db, _, rfl⟩)

theorem pInvSet_all (mv u g : Nat) (invs : List (InvSpec R)) : All (QEvo N) (pInvSet mv u g invs) :=
  all_same (fun db => by
    unfold tInvSetR
    repeat' split
    all_goals first | exact ⟨rfl, .done _⟩ | exact ⟨rfl, tInvSetW_all _ _ _⟩)

theorem pInvAdd_all (mv u : Nat) (inv : InvSpec R) : All (QEvo N) (pInvAdd mv u inv) :=
  all_same (fun db => by
    unfold tInvAddR
    repeat' split
    all_goals first | exact ⟨rfl, .done _⟩ | exact ⟨rfl, tInvAddW_all _ _ _⟩)

theorem pInvUpdate_all (mv u g : Nat) (inv : InvSpec R) : All (QEvo N) (pInvUpdate mv u g inv) :=
  all_same (fun db => by
    unfold tInvUpdateR
    repeat' split
    all_goals first | exact ⟨rfl, .done _⟩ | exact ⟨rfl, tInvUpdateW_all _ _ _⟩)

theorem pInvDelete_all (u rc : Nat) : All (QEvo N) (pInvDelete (R := R) u rc) :=
  all_same (fun db => by
    unfold tInvDeleteR
    repeat' split
    all_goals first | exact ⟨rfl, .done _⟩ | exact ⟨rfl, tInvDeleteW_all _ _ _⟩)

theorem pInvDeleteAll_all (mv u : Nat) : All (QEvo N) (pInvDeleteAll (R := R) mv u) := by
  unfold pInvDeleteAll
  split
  · exact .done _
  · exact all_same (fun db => by
      unfold tInvDeleteAllR
      repeat' split
      all_goals first | exact ⟨rfl, .done _⟩ | exact ⟨rfl, tInvDeleteAllW_all _ _⟩)

theorem pRpTraitsSet_all (u g : Nat) (ts : List Nat) : All (QEvo N) (pRpTraitsSet (R := R) u g ts) :=
  all_same (fun db => by
    unfold tRpTraitsSetR
    repeat' split
    all_goals first
      | exact ⟨rfl, .done _⟩
      | exact ⟨rfl, all_same (fun db => by
          unfold tRpTraitsSetT
          split
          · exact ⟨rfl, .done _⟩
          · exact ⟨rfl, tRpTraitsSetW_all _ _ _⟩)⟩)

theorem pRpTraitsDelete_all (u : Nat) : All (QEvo N) (pRpTraitsDelete (R := R) u) :=
  all_same (fun db => by
    unfold tRpTraitsDeleteR
    repeat' split
    all_goals first | exact ⟨rfl, .done _⟩ | exact ⟨rfl, tRpTraitsDeleteW_all _ _⟩)

theorem pAggsSet_all (mv u : Nat) (g : Option Nat) (aggs : List Nat) : All (QEvo N) (pAggsSet (R := R) mv u g aggs) := by
  unfold pAggsSet
  split
  · exact .done _
  · exact all_same (fun db => by
      unfold tAggsSetR
      dsimp only
      repeat' split
      all_goals first | exact ⟨rfl, .done _⟩ | exact ⟨rfl, tAggsSetW_all _ _ _ _⟩)

/-! ### requests that run as one transaction -/

theorem hTraitPut_gcore (db : DB R) (n : Nat) : (hTraitPut db n).1.gcore = db.gcore := by
  unfold hTraitPut
  repeat' split
  all_goals first | rfl | exact createTrait_gcore (by assumption)

theorem hTraitDelete_gcore (db : DB R) (n : Nat) : (hTraitDelete db n).1.gcore = db.gcore := by
  unfold hTraitDelete
  repeat' split
  all_goals first | rfl | exact deleteTrait_gcore (by assumption)

theorem hRcPost_gcore (db : DB R) (n : Nat) : (hRcPost db n).1.gcore = db.gcore := by
  unfold hRcPost
  repeat' split
  all_goals first | rfl | exact createRc_gcore (by assumption)

theorem hRcPut_gcore (db : DB R) (n : Nat) : (hRcPut db n).1.gcore = db.gcore := by
  unfold hRcPut
  repeat' split
  all_goals first | rfl | exact createRc_gcore (by assumption)

theorem hRcRename_gcore (db : DB R) (o n : Nat) : (hRcRename db o n).1.gcore = db.gcore := by
  unfold hRcRename
  repeat' split
  all_goals first | rfl | exact renameRc_gcore (by assumption)

theorem hRcDelete_gcore (db : DB R) (n : Nat) : (hRcDelete db n).1.gcore = db.gcore := by
  unfold hRcDelete
  repeat' split
  all_goals first | rfl | exact deleteRc_gcore (by assumption)

theorem hAllocDelete_evo (db : DB R) (c : Nat) : QEvo N db (hAllocDelete db c).1 := by
  unfold hAllocDelete
  split
  · exact fun hI => deleteAllocations_evo db c hI
  · exact QEvo.refl N db

theorem pAllocDelete_all (c : Nat) : All (QEvo N) (pAllocDelete (R := R) c) :=
  all_same (fun db => by
    unfold tAllocDeleteR
    dsimp only
    split
    · exact ⟨rfl, .done _⟩
    · exact ⟨rfl, All.txn' _ _ (fun db' =>
        ⟨fun hI => EvoG.consFilter (a := db'.gcore) hI _, .done _⟩)⟩)

theorem other_all (cfg : Config) (op : Op R) (h : ∀ db, QEvo N db (step cfg db op).1) :
    All (QEvo N) (.txn .other (stepTxn cfg op)) :=
  All.txn' _ _ (fun db => ⟨h db, .done _⟩)

/-- **every transaction of every request other than a provider create/update/delete** leaves
provider rows as they were up to raised generations, keeps consumer ids and uuids, never lowers a
consumer generation, and creates consumer rows only with fresh ids and uuids the request may create -/
theorem prog_evo (cfg : Config) (op : Op R) (hop : isProviderOp op = false)
    (hN : ∀ u ∈ opCreates op, N u) : All (QEvo N) (prog cfg op) := by
  cases op with
  | rpCreate mv u n p => simp [isProviderOp] at hop
  | rpUpdate mv u n p => simp [isProviderOp] at hop
  | rpDelete u => simp [isProviderOp] at hop
  | invSet mv u g is => exact pInvSet_all mv u g is
  | invAdd mv u i => exact pInvAdd_all mv u i
  | invUpdate mv u g i => exact pInvUpdate_all mv u g i
  | invDelete u rc => exact pInvDelete_all u rc
  | invDeleteAll mv u => exact pInvDeleteAll_all mv u
  | traitPut n => exact other_all cfg _ (fun db => QEvo.of_gcore (hTraitPut_gcore db n))
  | traitDelete n => exact other_all cfg _ (fun db => QEvo.of_gcore (hTraitDelete_gcore db n))
  | rpTraitsSet u g ts => exact pRpTraitsSet_all u g ts
  | rpTraitsDelete u => exact pRpTraitsDelete_all u
  | rcPost n => exact other_all cfg _ (fun db => QEvo.of_gcore (hRcPost_gcore db n))
  | rcPut n => exact other_all cfg _ (fun db => QEvo.of_gcore (hRcPut_gcore db n))
  | rcRename o n => exact other_all cfg _ (fun db => QEvo.of_gcore (hRcRename_gcore db o n))
  | rcDelete n => exact other_all cfg _ (fun db => QEvo.of_gcore (hRcDelete_gcore db n))
  | aggsSet mv u g as => exact pAggsSet_all mv u g as
  | allocPut mv c =>
    show All (QEvo N) (pAllocPut cfg mv c)
    unfold pAllocPut
    split
    · exact .done _
    · refine aNext_all [c] _ (fun c' hc' hcr => ?_)
      rw [List.mem_singleton.mp hc'] at hcr ⊢
      exact hN _ (by simp [opCreates, show creatable mv c = true from hcr])
  | allocPost mv cs =>
    show All (QEvo N) (pAllocPost cfg mv cs)
    unfold pAllocPost
    split
    · exact .done _
    · refine aNext_all cs _ (fun c' hc' hcr => hN _ ?_)
      exact List.mem_map.mpr ⟨c', List.mem_filter.mpr ⟨hc', hcr⟩, rfl⟩
  | allocDelete c => exact pAllocDelete_all c
  | reshape mv invs cs =>
    have hn : ∀ c ∈ cs, creatable mv c = true → N c.uuid := fun c' hc' hcr =>
      hN _ (List.mem_map.mpr ⟨c', List.mem_filter.mpr ⟨hc', hcr⟩, rfl⟩)
    show All (QEvo N) (pReshape cfg mv invs cs)
    unfold pReshape
    split
    · exact .done _
    · split
      · exact aNext_all cs _ hn
      · exact aReshapeRps_all cfg mv cs hn _ _

/-! ### generation monotonicity of every transaction of every request (`generation_monotone_step`) -/

/-- no transaction lowers a generation or reuses an id (`GenLe` of C10) -/
def QGenLe (s s' : DB R) : Prop := Ids s.gcore → GenLe s.gcore s'.gcore

/-- PUT /resource_providers/{u}: the look-up changes nothing, the write is `updateProvider` -/
theorem pRpUpdate_genLe (mv u n : Nat) (p : Option (Option Nat)) : All QGenLe (pRpUpdate (R := R) mv u n p) := by
  refine All.txn' _ _ (fun db => ?_)
  unfold tRpUpdateR
  split
  · exact ⟨fun hI => GenLe.refl hI, .done _⟩
  · split
    · exact ⟨fun hI => GenLe.refl hI, .done _⟩
    · refine ⟨fun hI => GenLe.refl hI, All.txn' _ _ (fun db' => ?_)⟩
      unfold tRpUpdateW
      split
      · next h => exact ⟨fun hI => genLe_update h hI, .done _⟩
      · exact ⟨fun hI => GenLe.refl hI, .done _⟩

/-- DELETE /resource_providers/{u}: the look-up changes nothing, the write is `deleteProvider` -/
theorem pRpDelete_genLe (u : Nat) : All QGenLe (pRpDelete (R := R) u) := by
  refine All.txn' _ _ (fun db => ?_)
  unfold tRpDeleteR
  split
  · exact ⟨fun hI => GenLe.refl hI, .done _⟩
  · refine ⟨fun hI => GenLe.refl hI, All.txn' _ _ (fun db' => ?_)⟩
    unfold tRpDeleteW
    split
    · next h => exact ⟨fun hI => genLe_delete h hI, .done _⟩
    · exact ⟨fun hI => GenLe.refl hI, .done _⟩

theorem gens_monotone_all (cfg : Config) (op : Op R) : All QGenLe (prog cfg op) := by
  by_cases hop : isProviderOp op = true
  · have : ∀ (l : Lbl) (op' : Op R), All QGenLe (.txn l (stepTxn cfg op')) := fun l op' =>
      All.txn' _ _ (fun db => ⟨fun hI => step_genLe cfg hI op', .done _⟩)
    cases op <;> first | exact this _ _ | exact pRpUpdate_genLe _ _ _ _ | exact pRpDelete_genLe _ | simp [isProviderOp] at hop
  · have := prog_evo (N := fun _ => True) cfg op (by simpa using hop) (fun _ _ => trivial)
    exact this.mono (fun s s' h hI => (h hI).frame.genLe)

end Placement.Sched
