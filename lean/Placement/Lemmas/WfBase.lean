import Placement.Spec.Inv
/-
  List helpers, the trivial `CapOps` instance used by the satisfiability examples, and small
  characterisation lemmas of the model's primitive functions (`incRpGen`, `setRp`, look-ups).
  Used by `Lemmas/Wf*.lean` (preservation of `Uniq`, `RI`, `AllocPos`; C08) and `Lemmas/ConsIff*.lean` (C12).
-/
namespace Placement.Wf

/-! ### a trivial `CapOps` instance for examples: the ratio is a natural number -/

instance instCapOpsNat : CapOps Nat where
  capLt a r n := decide (a * (r : Int) < n)
  capTrunc a r := a * (r : Int)

namespace L

variable {α β : Type}

/-! ### `eraseDups` -/

theorem eraseDups_length_le [BEq α] : ∀ (n : Nat) (l : List α), l.length ≤ n → l.eraseDups.length ≤ l.length
  | 0, l, h => by
    have : l = [] := List.eq_nil_of_length_eq_zero (by omega)
    subst this; simp
  | n + 1, [], _ => by simp
  | n + 1, a :: as, h => by
    rw [List.eraseDups_cons]
    have h1 : (as.filter (fun b => !b == a)).length ≤ as.length := List.length_filter_le _ _
    have := eraseDups_length_le n (as.filter (fun b => !b == a)) (by simp at h; omega)
    simp; omega

theorem nodup_eraseDups_aux [BEq α] [LawfulBEq α] :
    ∀ (n : Nat) (l : List α), l.length ≤ n → l.eraseDups.Nodup
  | 0, l, h => by
    have : l = [] := List.eq_nil_of_length_eq_zero (by omega)
    subst this; simp
  | n + 1, [], _ => by simp
  | n + 1, a :: as, h => by
    rw [List.eraseDups_cons, List.nodup_cons]
    have h1 : (as.filter (fun b => !b == a)).length ≤ as.length := List.length_filter_le _ _
    refine ⟨?_, nodup_eraseDups_aux n _ (by simp at h; omega)⟩
    intro hm
    rw [List.mem_eraseDups] at hm
    simp at hm

theorem nodup_eraseDups [BEq α] [LawfulBEq α] (l : List α) : l.eraseDups.Nodup :=
  nodup_eraseDups_aux l.length l (Nat.le_refl _)

/-! ### `Nodup` of keys -/

theorem nodup_map_iff_pairwise {f : α → β} {l : List α} :
    (l.map f).Nodup ↔ l.Pairwise (fun a b => f a ≠ f b) := by
  simp [List.Nodup, List.pairwise_map]

theorem nodup_map_filter {f : α → β} {l : List α} (p : α → Bool) (h : (l.map f).Nodup) :
    ((l.filter p).map f).Nodup := by
  rw [nodup_map_iff_pairwise] at *
  exact h.filter p

/-- a row-wise update that keeps the key keeps the key list -/
theorem map_map_key {f : α → β} {g : α → α} (l : List α) (h : ∀ a ∈ l, f (g a) = f a) :
    (l.map g).map f = l.map f := by
  rw [List.map_map]
  exact List.map_congr_left (fun a ha => by simp [h a ha])

theorem nodup_map_append {f : α → β} {l₁ l₂ : List α} :
    ((l₁ ++ l₂).map f).Nodup ↔
      (l₁.map f).Nodup ∧ (l₂.map f).Nodup ∧ ∀ a ∈ l₁, ∀ b ∈ l₂, f a ≠ f b := by
  simp [List.map_append, List.nodup_append]

theorem nodup_map_snoc {f : α → β} {l : List α} {x : α} :
    ((l ++ [x]).map f).Nodup ↔ (l.map f).Nodup ∧ ∀ a ∈ l, f a ≠ f x := by
  rw [nodup_map_append]
  simp

/-- in a list with unique keys, membership + key determines the element -/
theorem eq_of_key_eq {f : α → β} {l : List α} (h : (l.map f).Nodup) {a b : α}
    (ha : a ∈ l) (hb : b ∈ l) (hk : f a = f b) : a = b := by
  induction l with
  | nil => cases ha
  | cons x xs ih =>
    simp only [List.map_cons, List.nodup_cons, List.mem_map, not_exists, not_and] at h
    rcases List.mem_cons.1 ha with rfl | ha' <;> rcases List.mem_cons.1 hb with rfl | hb'
    · rfl
    · exact absurd hk.symm (h.1 b hb')
    · exact absurd hk (h.1 a ha')
    · exact ih h.2 ha' hb'

theorem find?_key_of_mem {f : α → β} [DecidableEq β] {l : List α} (h : (l.map f).Nodup) {a : α}
    (ha : a ∈ l) : l.find? (fun x => f x == f a) = some a := by
  induction l with
  | nil => cases ha
  | cons x xs ih =>
    simp only [List.map_cons, List.nodup_cons, List.mem_map, not_exists, not_and] at h
    rcases List.mem_cons.1 ha with rfl | ha'
    · simp
    · have : f x ≠ f a := fun e => h.1 a ha' e.symm
      simp [this, ih h.2 ha']

end L

variable {R : Type}

/-! ### provider ids -/

/-- a provider row with internal id `x` exists -/
def HasRp (db : DB R) (x : Nat) : Prop := ∃ r ∈ db.rps, r.id = x

theorem hasRp_of_rpByUuid {db : DB R} {u : Nat} {r : RpRow} (h : db.rpByUuid u = some r) :
    r ∈ db.rps ∧ r.uuid = u := by
  unfold DB.rpByUuid at h
  exact ⟨List.mem_of_find?_eq_some h, by simpa using List.find?_some h⟩

theorem mem_of_rpById {db : DB R} {i : Nat} {r : RpRow} (h : db.rpById i = some r) :
    r ∈ db.rps ∧ r.id = i := by
  unfold DB.rpById at h
  exact ⟨List.mem_of_find?_eq_some h, by simpa using List.find?_some h⟩

theorem mem_of_consByUuid {db : DB R} {u : Nat} {c : ConsRow} (h : db.consByUuid u = some c) :
    c ∈ db.consumers ∧ c.uuid = u := by
  unfold DB.consByUuid at h
  exact ⟨List.mem_of_find?_eq_some h, by simpa using List.find?_some h⟩

theorem consByUuid_none {db : DB R} {u : Nat} (h : db.consByUuid u = none) :
    ∀ c ∈ db.consumers, c.uuid ≠ u := by
  unfold DB.consByUuid at h
  intro c hc
  have := List.find?_eq_none.1 h c hc
  simpa using this

theorem rcId_some {db : DB R} {n id : Nat} (h : db.rcId n = some id) : (id, n) ∈ db.rcs := by
  unfold DB.rcId at h
  cases hf : db.rcs.find? (·.2 == n) with
  | none => simp [hf] at h
  | some p =>
    simp [hf] at h
    have h1 := List.mem_of_find?_eq_some hf
    have h2 := List.find?_some hf
    simp at h2
    cases p; simp_all

theorem rcName_some {db : DB R} {n id : Nat} (h : db.rcName id = some n) : (id, n) ∈ db.rcs := by
  unfold DB.rcName at h
  cases hf : db.rcs.find? (·.1 == id) with
  | none => simp [hf] at h
  | some p =>
    simp [hf] at h
    have h1 := List.mem_of_find?_eq_some hf
    have h2 := List.find?_some hf
    simp at h2
    cases p; simp_all

theorem invOf_some {db : DB R} {rp rc : Nat} {i : InvRow R} (h : db.invOf rp rc = some i) :
    i ∈ db.invs ∧ i.rp = rp ∧ i.rc = rc := by
  unfold DB.invOf at h
  have h2 := List.find?_some h
  simp at h2
  exact ⟨List.mem_of_find?_eq_some h, h2.1, h2.2⟩

theorem invOf_isNone {db : DB R} {rp rc : Nat} (h : (db.invOf rp rc).isNone = true) :
    ∀ i ∈ db.invs, ¬ (i.rp = rp ∧ i.rc = rc) := by
  unfold DB.invOf at h
  simp at h
  intro i hi hh
  exact h i hi hh.1 hh.2

/-! ### `setRp`, `incRpGen` -/

theorem mem_setRp {db : DB R} {id : Nat} {f : RpRow → RpRow} {r : RpRow} :
    r ∈ (db.setRp id f).rps ↔ ∃ r0 ∈ db.rps, r = if r0.id == id then f r0 else r0 := by
  simp only [DB.setRp, List.mem_map]
  constructor
  · rintro ⟨a, ha, rfl⟩; exact ⟨a, ha, rfl⟩
  · rintro ⟨a, ha, rfl⟩; exact ⟨a, ha, rfl⟩

/-- the effect of a successful provider-generation compare-and-swap -/
theorem incRpGen_ok {db db' : DB R} {id gen : Nat} (h : incRpGen db id gen = .ok db') :
    db' = db.setRp id (fun r => { r with gen := gen + 1 }) ∧ HasRp db id := by
  unfold incRpGen at h
  split at h
  · next r hr =>
    have h1 := List.mem_of_find?_eq_some hr
    have h2 := List.find?_some hr
    simp at h2
    injection h with h
    exact ⟨h.symm, r, h1, h2.1⟩
  · cases h

theorem incConsGen_ok {db db' : DB R} {id gen : Nat} (h : incConsGen db id gen = .ok db') :
    db' = { db with consumers := db.consumers.map (fun c => if c.id == id then { c with gen := gen + 1 } else c) } := by
  unfold incConsGen at h
  split at h
  · injection h with h; exact h.symm
  · cases h

/-- the generation bump as a row update -/
def bumpRow (id gen : Nat) (r : RpRow) : RpRow := if r.id == id then { r with gen := gen + 1 } else r

theorem setRp_gen_rps (db : DB R) (id gen : Nat) :
    (db.setRp id (fun r => { r with gen := gen + 1 })).rps = db.rps.map (bumpRow id gen) := rfl

@[simp] theorem bumpRow_id (id gen : Nat) (r : RpRow) : (bumpRow id gen r).id = r.id := by
  unfold bumpRow; split <;> rfl
@[simp] theorem bumpRow_uuid (id gen : Nat) (r : RpRow) : (bumpRow id gen r).uuid = r.uuid := by
  unfold bumpRow; split <;> rfl
@[simp] theorem bumpRow_name (id gen : Nat) (r : RpRow) : (bumpRow id gen r).name = r.name := by
  unfold bumpRow; split <;> rfl
@[simp] theorem bumpRow_parent (id gen : Nat) (r : RpRow) : (bumpRow id gen r).parent = r.parent := by
  unfold bumpRow; split <;> rfl
@[simp] theorem bumpRow_root (id gen : Nat) (r : RpRow) : (bumpRow id gen r).root = r.root := by
  unfold bumpRow; split <;> rfl

end Placement.Wf

namespace Placement.Wf
variable {R : Type}

/-! ### the invariants, split -/

/-- `Uniq` without the allocation key.  (provider, class, consumer) is *not* a unique index of the
`allocations` table; that part of `Uniq` holds only for histories of well-formed requests, the rest
holds for every history. -/
structure UniqC (db : DB R) : Prop where
  rpId : (db.rps.map (·.id)).Nodup
  rpUuid : (db.rps.map (·.uuid)).Nodup
  rpName : (db.rps.map (·.name)).Nodup
  inv : (db.invs.map (fun i => (i.rp, i.rc))).Nodup
  consId : (db.consumers.map (·.id)).Nodup
  consUuid : (db.consumers.map (·.uuid)).Nodup
  rcId : (db.rcs.map (·.1)).Nodup
  rcName : (db.rcs.map (·.2)).Nodup
  traits : db.traits.Nodup
  rpTraits : db.rpTraits.Nodup
  rpAggs : db.rpAggs.Nodup
  aggs : db.aggs.Nodup
  freshRp : ∀ r ∈ db.rps, r.id < db.nextRp
  freshCons : ∀ c ∈ db.consumers, c.id < db.nextCons

def AllocKeys (db : DB R) : Prop := (db.allocs.map (fun a => (a.rp, a.rc, a.consumer))).Nodup

theorem uniq_iff {db : DB R} : Uniq db ↔ UniqC db ∧ AllocKeys db := by
  constructor
  · intro h
    exact ⟨⟨h.rpId, h.rpUuid, h.rpName, h.inv, h.consId, h.consUuid, h.rcId, h.rcName, h.traits,
            h.rpTraits, h.rpAggs, h.aggs, h.freshRp, h.freshCons⟩, h.alloc⟩
  · rintro ⟨h, ha⟩
    exact ⟨h.rpId, h.rpUuid, h.rpName, h.inv, ha, h.consId, h.consUuid, h.rcId, h.rcName, h.traits,
            h.rpTraits, h.rpAggs, h.aggs, h.freshRp, h.freshCons⟩

theorem _root_.Placement.Uniq.toC {db : DB R} (h : Uniq db) : UniqC db := (uniq_iff.1 h).1

/-! ### frame lemmas: replace one table -/

theorem hasRp_map {l : List RpRow} {g : RpRow → RpRow} (hg : ∀ r, (g r).id = r.id) (x : Nat) :
    (∃ r ∈ l.map g, r.id = x) ↔ ∃ r ∈ l, r.id = x := by
  constructor
  · rintro ⟨r, hr, rfl⟩
    obtain ⟨r0, h0, rfl⟩ := List.mem_map.1 hr
    exact ⟨r0, h0, (hg r0).symm⟩
  · rintro ⟨r, hr, rfl⟩
    exact ⟨g r, List.mem_map.2 ⟨r, hr, rfl⟩, hg r⟩

theorem _root_.Placement.RI.of_rps {db : DB R} (h : RI db) (rps' : List RpRow)
    (hh : ∀ x, HasRp db x → ∃ r ∈ rps', r.id = x) : RI { db with rps := rps' } :=
  { h with
    allocRp := fun a ha => hh _ (h.allocRp a ha)
    invRp := fun a ha => hh _ (h.invRp a ha)
    traitRp := fun a ha => hh _ (h.traitRp a ha)
    aggRp := fun a ha => hh _ (h.aggRp a ha) }

/-- row-wise provider updates that keep id, uuid and name (generation bumps) keep both invariants -/
theorem UniqC.map_rps {db : DB R} (h : UniqC db) (g : RpRow → RpRow)
    (hid : ∀ r, (g r).id = r.id) (huuid : ∀ r, (g r).uuid = r.uuid) (hname : ∀ r, (g r).name = r.name) :
    UniqC { db with rps := db.rps.map g } :=
  { h with
    rpId := by
      show ((db.rps.map g).map (·.id)).Nodup
      rw [L.map_map_key _ (fun a _ => hid a)]; exact h.rpId
    rpUuid := by
      show ((db.rps.map g).map (·.uuid)).Nodup
      rw [L.map_map_key _ (fun a _ => huuid a)]; exact h.rpUuid
    rpName := by
      show ((db.rps.map g).map (·.name)).Nodup
      rw [L.map_map_key _ (fun a _ => hname a)]; exact h.rpName
    freshRp := by
      intro r hr
      obtain ⟨r0, h0, rfl⟩ := List.mem_map.1 hr
      rw [hid]; exact h.freshRp r0 h0 }

theorem _root_.Placement.RI.map_rps {db : DB R} (h : RI db) (g : RpRow → RpRow) (hid : ∀ r, (g r).id = r.id) :
    RI { db with rps := db.rps.map g } :=
  h.of_rps _ (fun x hx => (hasRp_map hid x).2 hx)

theorem uniqC_incRpGen {db db' : DB R} {id gen : Nat} (h : UniqC db) (e : incRpGen db id gen = .ok db') :
    UniqC db' := by
  rw [(incRpGen_ok e).1]
  exact h.map_rps (bumpRow id gen) (by simp) (by simp) (by simp)

theorem ri_incRpGen {db db' : DB R} {id gen : Nat} (h : RI db) (e : incRpGen db id gen = .ok db') :
    RI db' := by
  rw [(incRpGen_ok e).1]
  exact h.map_rps (bumpRow id gen) (by simp)

end Placement.Wf
