import Placement.Lemmas.CoreWrite
/-
  C11, helper lemmas for the status prescriptions: unknown resource class names make the
  object-layer functions raise `ResourceClassNotFound`.
-/
namespace Placement.Core
variable {R : Type}
set_option linter.unusedSectionVars false
set_option linter.unusedSimpArgs false

theorem resolveRcs_unknown {db : DB R} : ∀ {is : List (InvSpec R)}, (∃ i ∈ is, db.rcId i.rcName = none) →
    resolveRcs db is = .error .rcNotFound
  | [], h => by obtain ⟨i, hi, -⟩ := h; cases hi
  | j :: is, h => by
    unfold resolveRcs
    split
    · rfl
    · rename_i id hid
      obtain ⟨i, hi, hn⟩ := h
      rcases List.mem_cons.mp hi with rfl | hi
      · rw [hn] at hid; cases hid
      · rw [resolveRcs_unknown ⟨i, hi, hn⟩]; rfl

theorem setInventory_unknown_class {db : DB R} {rp gen : Nat} {is : List (InvSpec R)}
    (h : ∃ i ∈ is, db.rcId i.rcName = none) : setInventory db rp gen is = .error .rcNotFound := by
  unfold setInventory
  rw [resolveRcs_unknown h]
  rfl

variable [CapOps R]

theorem resolveAllocRcs_unknown {db : DB R} : ∀ {objs : List AllocReq}, (∃ o ∈ objs, db.rcId o.rcName = none) →
    resolveAllocRcs db objs = .error .rcNotFound
  | [], h => by obtain ⟨i, hi, -⟩ := h; cases hi
  | j :: is, h => by
    unfold resolveAllocRcs
    split
    · rfl
    · rename_i id hid
      obtain ⟨i, hi, hn⟩ := h
      rcases List.mem_cons.mp hi with rfl | hi
      · rw [hn] at hid; cases hid
      · rw [resolveAllocRcs_unknown ⟨i, hi, hn⟩]; rfl

theorem setAllocations_unknown_class {db : DB R} {objs : List AllocReq}
    (h : ∃ o ∈ objs, db.rcId o.rcName = none) : setAllocations db objs = .error .rcNotFound := by
  unfold setAllocations checkCapacity
  have : ∀ l, resolveAllocRcs ({ db with allocs := l } : DB R) objs = .error .rcNotFound :=
    fun l => resolveAllocRcs_unknown h
  simp only [this, bind, Except.bind]

/-! ### `ensure_consumer` and the consumer generation -/

theorem ensureConsumer_consByUuid (cfg : Config) (db : DB R) (c : ConsumerReq) :
    DB.consByUuid ({ db with
      projects := addIfMissing db.projects (c.project.getD cfg.incompleteProject),
      users := addIfMissing db.users
        (if c.project.isNone then cfg.incompleteUser else c.user.getD cfg.incompleteUser) } : DB R) c.uuid =
    db.consByUuid c.uuid := rfl

/-- from 1.28 an existing consumer must be named with its generation ... -/
theorem ensureConsumer_stale (cfg : Config) {db : DB R} {mv : Nat} {c : ConsumerReq} {cons : ConsRow}
    (hmv : 28 ≤ mv) (h : db.consByUuid c.uuid = some cons) (hg : c.gen ≠ some cons.gen) :
    (ensureConsumer cfg db mv c).2 = .error (r409 .concurrentUpdate) := by
  unfold ensureConsumer
  dsimp only
  rw [ensureConsumer_consByUuid, h]
  have : (decide (mv ≥ 28) && (some cons.gen != c.gen)) = true := by
    simp only [ge_iff_le, hmv, decide_true, Bool.true_and, bne_iff_ne, ne_eq]
    exact fun e => hg e.symm
  simp only [this, ↓reduceIte]

/-- ... and a new consumer with `null` -/
theorem ensureConsumer_new_with_generation (cfg : Config) {db : DB R} {mv : Nat} {c : ConsumerReq}
    (hmv : 28 ≤ mv) (h : db.consByUuid c.uuid = none) (hg : c.gen ≠ none) :
    (ensureConsumer cfg db mv c).2 = .error (r409 .concurrentUpdate) := by
  unfold ensureConsumer
  dsimp only
  rw [ensureConsumer_consByUuid, h]
  have : (decide (mv ≥ 28) && c.gen.isSome) = true := by
    cases hc : c.gen with
    | none => exact absurd hc hg
    | some g => simp [hmv]
  simp only [this, ↓reduceIte]

/-- the generation named by the request is acceptable: below 1.28 always, from 1.28 when it is the
stored generation (`null` for a consumer without record) -/
def GenOk (db : DB R) (mv : Nat) (c : ConsumerReq) : Prop :=
  mv < 28 ∨ c.gen = (db.consByUuid c.uuid).map (·.gen)

theorem ensureConsumer_ok_of_genOk (cfg : Config) {db : DB R} {mv : Nat} {c : ConsumerReq}
    (hg : GenOk db mv c) : ∃ cons created attr, (ensureConsumer cfg db mv c).2 = .ok (cons, created, attr) := by
  unfold ensureConsumer
  dsimp only
  rw [ensureConsumer_consByUuid]
  cases h : db.consByUuid c.uuid with
  | some cons =>
    have : (decide (mv ≥ 28) && (some cons.gen != c.gen)) = false := by
      rcases hg with hlt | he
      · have : ¬ mv ≥ 28 := by omega
        simp [this]
      · rw [h] at he; simp [he]
    simp only [this]
    exact ⟨_, _, _, rfl⟩
  | none =>
    have : (decide (mv ≥ 28) && c.gen.isSome) = false := by
      rcases hg with hlt | he
      · have : ¬ mv ≥ 28 := by omega
        simp [this]
      · rw [h] at he; simp [he]
    simp only [this]
    exact ⟨_, _, _, rfl⟩

/-! ### `POST /reshaper`: resolving the providers -/

theorem resolveReshapeRps_unknown {db : DB R} : ∀ {invs : List (RpInvReq R)},
    (∀ r ∈ invs, ∀ rp, db.rpByUuid r.uuid = some rp → r.gen = rp.gen) →
    (∃ r ∈ invs, db.rpByUuid r.uuid = none) →
    resolveReshapeRps db invs = .error { status := 400, code := .resourceProviderNotFound }
  | [], _, h => by obtain ⟨r, hr, -⟩ := h; cases hr
  | r :: rest, hall, h => by
    unfold resolveReshapeRps
    split
    · rfl
    · rename_i rp hrp
      have hg := hall r (List.mem_cons_self ..) rp hrp
      obtain ⟨r', hr', hn⟩ := h
      rcases List.mem_cons.mp hr' with rfl | hr'
      · rw [hn] at hrp; cases hrp
      · rw [resolveReshapeRps_unknown (fun x hx => hall x (List.mem_cons_of_mem _ hx)) ⟨r', hr', hn⟩]
        simp [hg]; rfl

theorem resolveReshapeRps_stale {db : DB R} : ∀ {invs : List (RpInvReq R)},
    (∀ r ∈ invs, (db.rpByUuid r.uuid).isSome) →
    (∃ r ∈ invs, ∃ rp, db.rpByUuid r.uuid = some rp ∧ r.gen ≠ rp.gen) →
    resolveReshapeRps db invs = .error (r409 .concurrentUpdate)
  | [], _, h => by obtain ⟨r, hr, -⟩ := h; cases hr
  | r :: rest, hall, h => by
    unfold resolveReshapeRps
    split
    · rename_i hn
      have := hall r (List.mem_cons_self ..)
      rw [hn] at this; cases this
    · rename_i rp hrp
      by_cases hg : r.gen = rp.gen
      · obtain ⟨r', hr', rp', hrp', hg'⟩ := h
        rcases List.mem_cons.mp hr' with rfl | hr'
        · rw [hrp] at hrp'; cases hrp'; exact absurd hg hg'
        · rw [resolveReshapeRps_stale (fun x hx => hall x (List.mem_cons_of_mem _ hx)) ⟨r', hr', rp', hrp', hg'⟩]
          simp [hg]; rfl
      · simp [hg]

/-! ### `PUT /allocations/{consumer}` -/

theorem rpByUuid_of_rps {a b : DB R} (h : a.rps = b.rps) (u : Nat) : a.rpByUuid u = b.rpByUuid u := by
  unfold DB.rpByUuid; rw [h]

theorem rcId_of_rcs {a b : DB R} (h : a.rcs = b.rcs) (n : Nat) : a.rcId n = b.rcId n := by
  unfold DB.rcId; rw [h]

theorem allocObjects_unknown_provider {db : DB R} {cons : ConsRow} {c : ConsumerReq} (hne : c.allocs ≠ [])
    (hn : ∃ a ∈ c.allocs, db.rpByUuid a.1 = none) : allocObjects db cons c = .error r400 := by
  unfold allocObjects
  have h1 : c.allocs.isEmpty = false := by simpa using hne
  have h2 : c.allocs.any (fun a => (db.rpByUuid a.1).isNone) = true := by
    obtain ⟨a, ha, hno⟩ := hn
    exact List.any_eq_true.mpr ⟨a, ha, by simp [hno]⟩
  simp only [h1, Bool.false_eq_true, ↓reduceIte, h2]

theorem allocObjects_known {db : DB R} {cons : ConsRow} {c : ConsumerReq} (hne : c.allocs ≠ [])
    (hk : ∀ a ∈ c.allocs, (db.rpByUuid a.1).isSome) :
    ∃ objs, allocObjects db cons c = .ok objs ∧ ∀ a ∈ c.allocs, ∃ o ∈ objs, o.rcName = a.2.1 := by
  unfold allocObjects
  have h1 : c.allocs.isEmpty = false := by simpa using hne
  have h2 : c.allocs.any (fun a => (db.rpByUuid a.1).isNone) = false := by
    rw [List.any_eq_false]
    intro a ha
    have := hk a ha
    cases h : db.rpByUuid a.1 with
    | none => rw [h] at this; cases this
    | some _ => simp
  simp only [h1, Bool.false_eq_true, ↓reduceIte, h2]
  refine ⟨_, rfl, ?_⟩
  intro a ha
  have := hk a ha
  cases h : db.rpByUuid a.1 with
  | none => rw [h] at this; cases this
  | some rp =>
    exact ⟨_, List.mem_filterMap.mpr ⟨a, ha, by rw [h]; rfl⟩, rfl⟩

variable (cfg : Config)

theorem hAllocPut_stale {db : DB R} {mv : Nat} {c : ConsumerReq}
    (hmv : 28 ≤ mv) (he : (ensureConsumer cfg db mv c).2 = .error (r409 .concurrentUpdate)) :
    (hAllocPut cfg db mv c).2 = r409 .concurrentUpdate := by
  unfold hAllocPut
  have h28 : ¬ mv < 28 := by omega
  simp only [h28, decide_false, Bool.false_and, Bool.false_eq_true, ↓reduceIte]
  split
  · rename_i db1 r heq
    rw [heq] at he
    simp only [Except.error.injEq] at he
    exact he
  · rename_i heq
    rw [heq] at he
    cases he

theorem hAllocPut_unknown_provider {db : DB R} {mv : Nat} {c : ConsumerReq} (hne : c.allocs ≠ [])
    (hg : GenOk db mv c) (hn : ∃ a ∈ c.allocs, db.rpByUuid a.1 = none) :
    (hAllocPut cfg db mv c).2 = r400 := by
  obtain ⟨cons, created, attr, hok⟩ := ensureConsumer_ok_of_genOk cfg hg
  have hrps : (ensureConsumer cfg db mv c).1.rps = db.rps :=
    congrArg RestState.rps (ensureConsumer_shape cfg db mv c).1
  unfold hAllocPut
  have h1 : c.allocs.isEmpty = false := by simpa using hne
  simp only [h1, Bool.and_false, Bool.false_eq_true, ↓reduceIte]
  split
  · rename_i heq
    rw [heq] at hok; cases hok
  · rename_i db1 cons' created' attr' heq
    rw [heq] at hrps
    have : allocObjects db1 cons' c = .error r400 :=
      allocObjects_unknown_provider hne (by
        obtain ⟨a, ha, hno⟩ := hn
        exact ⟨a, ha, by rw [rpByUuid_of_rps hrps]; exact hno⟩)
    simp only [this]

theorem hAllocPut_unknown_class {db : DB R} {mv : Nat} {c : ConsumerReq} (hne : c.allocs ≠ [])
    (hg : GenOk db mv c) (hk : ∀ a ∈ c.allocs, (db.rpByUuid a.1).isSome)
    (hn : ∃ a ∈ c.allocs, db.rcId a.2.1 = none) :
    (hAllocPut cfg db mv c).2 = r400 := by
  obtain ⟨cons, created, attr, hok⟩ := ensureConsumer_ok_of_genOk cfg hg
  have hrest := (ensureConsumer_shape cfg db mv c).1
  unfold hAllocPut
  have h1 : c.allocs.isEmpty = false := by simpa using hne
  simp only [h1, Bool.and_false, Bool.false_eq_true, ↓reduceIte]
  split
  · rename_i heq
    rw [heq] at hok; cases hok
  · rename_i db1 cons' created' attr' heq
    rw [heq] at hrest
    have hrps : db1.rps = db.rps := congrArg RestState.rps hrest
    have hrcs : db1.rcs = db.rcs := congrArg RestState.rcs hrest
    obtain ⟨objs, hobjs, hmem⟩ := allocObjects_known (db := db1) (cons := cons') hne
      (fun a ha => by rw [rpByUuid_of_rps hrps]; exact hk a ha)
    have hrcs2 : (updateConsumer db1 cons' attr').rcs = db.rcs :=
      (congrArg RestState.rcs (updateConsumer_updOnly db1 cons' attr').rest).trans hrcs
    have : setAllocations (updateConsumer db1 cons' attr') objs = .error .rcNotFound :=
      setAllocations_unknown_class (by
        obtain ⟨a, ha, hno⟩ := hn
        obtain ⟨o, ho, hoa⟩ := hmem a ha
        exact ⟨o, ho, by rw [rcId_of_rcs hrcs2, hoa]; exact hno⟩)
    simp only [hobjs, this]
    rfl

end Placement.Core
