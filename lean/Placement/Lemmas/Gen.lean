import Placement.Lemmas.ForestReach
/-
  C10, part 1: generations never decrease.  `GenLe a b`: every provider / consumer row of `b` is new
  (its id is at least the next fresh id of `a`) or continues a row of `a` with the same id and a
  generation that is not smaller.  Ids are never reused, so the relation composes along histories.
-/
namespace Placement.Gens
open Placement.Hier
variable {R : Type}

structure GenLe (a b : GCore) : Prop where
  nextRp : a.nextRp ≤ b.nextRp
  rps : ∀ r' ∈ b.rps, a.nextRp ≤ r'.id ∨ ∃ r ∈ a.rps, r.id = r'.id ∧ r.gen ≤ r'.gen
  nextCons : a.nextCons ≤ b.nextCons
  cons : ∀ c' ∈ b.consumers, a.nextCons ≤ c'.id ∨ ∃ c ∈ a.consumers, c.id = c'.id ∧ c.gen ≤ c'.gen
  ids : Ids b

theorem GenLe.refl {a : GCore} (h : Ids a) : GenLe a a :=
  ⟨Nat.le_refl _, fun r hr => .inr ⟨r, hr, rfl, Nat.le_refl _⟩, Nat.le_refl _,
   fun c hc => .inr ⟨c, hc, rfl, Nat.le_refl _⟩, h⟩

theorem GenLe.trans {a b c : GCore} (h1 : GenLe a b) (h2 : GenLe b c) : GenLe a c := by
  refine ⟨Nat.le_trans h1.nextRp h2.nextRp, ?_, Nat.le_trans h1.nextCons h2.nextCons, ?_, h2.ids⟩
  · intro r'' hr''
    rcases h2.rps r'' hr'' with h | ⟨r', hr', hid, hle⟩
    · exact .inl (Nat.le_trans h1.nextRp h)
    · rcases h1.rps r' hr' with h | ⟨r0, hr0, hid0, hle0⟩
      · exact .inl (hid ▸ h)
      · exact .inr ⟨r0, hr0, hid0.trans hid, Nat.le_trans hle0 hle⟩
  · intro c'' hc''
    rcases h2.cons c'' hc'' with h | ⟨c', hc', hid, hle⟩
    · exact .inl (Nat.le_trans h1.nextCons h)
    · rcases h1.cons c' hc' with h | ⟨c0, hc0, hid0, hle0⟩
      · exact .inl (hid ▸ h)
      · exact .inr ⟨c0, hc0, hid0.trans hid, Nat.le_trans hle0 hle⟩

theorem Frame.genLe {a b : GCore} (f : Frame a b) : GenLe a b := by
  refine ⟨Nat.le_of_eq f.nextRp.symm, ?_, f.nextCons, f.cons, f.ids⟩
  intro r' hr'
  obtain ⟨r, hr, hid, -, hle⟩ := f.rps.mem hr'
  exact .inr ⟨r, hr, hid, hle⟩

/-- what `GenLe` says about a provider row that existed before -/
theorem GenLe.rp_mono {a b : GCore} (h : GenLe a b) (hI : Ids a) {r r' : RpRow} (hr : r ∈ a.rps)
    (hr' : r' ∈ b.rps) (hid : r'.id = r.id) : r.gen ≤ r'.gen := by
  rcases h.rps r' hr' with hge | ⟨r0, hr0, hid0, hle⟩
  · have := hI.rpFresh r hr; omega
  · rw [uniqId_of_nodup hI.rpNodup r hr r0 hr0 (hid.symm.trans hid0.symm)]; exact hle

theorem GenLe.cons_mono {a b : GCore} (h : GenLe a b) (hI : Ids a) {c c' : ConsRow} (hc : c ∈ a.consumers)
    (hc' : c' ∈ b.consumers) (hid : c'.id = c.id) : c.gen ≤ c'.gen := by
  rcases h.cons c' hc' with hge | ⟨c0, hc0, hid0, hle⟩
  · have := hI.consFresh c hc; omega
  · rw [uniqCons_of_nodup hI.consNodup c hc c0 hc0 (hid.symm.trans hid0.symm)]; exact hle

/-! ### the three provider requests -/

theorem genLe_create {db db' : DB R} {uuid name : Nat} {parent : Option Nat} {row : RpRow}
    (h : createProvider db uuid name parent = .ok (db', row)) (hI : Ids db.gcore) :
    GenLe db.gcore db'.gcore := by
  obtain ⟨rfl, hid, -⟩ := createProvider_ok h
  refine ⟨Nat.le_succ _, ?_, Nat.le_refl _, fun c hc => .inr ⟨c, hc, rfl, Nat.le_refl _⟩, ?_, ?_,
    hI.consNodup, hI.consFresh⟩
  · intro r' hr'
    rcases List.mem_append.mp hr' with h1 | h1
    · exact .inr ⟨r', h1, rfl, Nat.le_refl _⟩
    · rw [List.mem_singleton.mp h1, hid]; exact .inl (Nat.le_refl _)
  · show ((db.rps ++ [row]).map (·.id)).Nodup
    rw [List.map_append, List.nodup_append]
    refine ⟨hI.rpNodup, by simp, ?_⟩
    intro x hx y hy
    obtain ⟨r, hr, rfl⟩ := List.mem_map.mp hx
    simp only [List.map_cons, List.map_nil, List.mem_singleton] at hy
    have : r.id < db.nextRp := hI.rpFresh r hr
    omega
  · intro r hr
    show r.id < db.nextRp + 1
    rcases List.mem_append.mp hr with h1 | h1
    · have : r.id < db.nextRp := hI.rpFresh r h1; omega
    · rw [List.mem_singleton.mp h1]; omega

/-- a row-wise change of the provider table that keeps id and generation -/
theorem genLe_rpMap {db : DB R} (hI : Ids db.gcore) (f : RpRow → RpRow)
    (hf : ∀ r, (f r).id = r.id ∧ (f r).gen = r.gen) :
    GenLe db.gcore ({ db with rps := db.rps.map f } : DB R).gcore := by
  refine ⟨Nat.le_refl _, ?_, Nat.le_refl _, fun c hc => .inr ⟨c, hc, rfl, Nat.le_refl _⟩, ?_, ?_,
    hI.consNodup, hI.consFresh⟩
  · intro r' hr'
    obtain ⟨r, hr, rfl⟩ := List.mem_map.mp hr'
    exact .inr ⟨r, hr, (hf r).1.symm, Nat.le_of_eq (hf r).2.symm⟩
  · show ((db.rps.map f).map (·.id)).Nodup
    rw [List.map_map]
    have : ((fun x => x.id) ∘ f) = (fun x : RpRow => x.id) := funext fun r => (hf r).1
    rw [this]; exact hI.rpNodup
  · intro r' hr'
    obtain ⟨r, hr, rfl⟩ := List.mem_map.mp hr'
    rw [(hf r).1]; exact hI.rpFresh r hr

theorem genLe_update {db db' : DB R} {id name : Nat} {parent : Option Nat} {allow : Bool}
    (h : updateProvider db id name parent allow = .ok db') (hI : Ids db.gcore) :
    GenLe db.gcore db'.gcore := by
  obtain ⟨me, -, hc⟩ := updateProvider_ok h
  rcases hc with ⟨_, _, -, -, -, -, rfl⟩ | ⟨-, -, -, rfl⟩ | ⟨-, -, rfl⟩
  · exact genLe_rpMap hI _ (fun r => ⟨upd_id .., upd_gen ..⟩)
  · exact genLe_rpMap hI _ (fun r => ⟨upd_id .., upd_gen ..⟩)
  · exact genLe_rpMap hI _ (fun r => by split <;> exact ⟨rfl, rfl⟩)

theorem genLe_delete {db db' : DB R} {id : Nat} (h : deleteProvider db id = .ok db') (hI : Ids db.gcore) :
    GenLe db.gcore db'.gcore := by
  obtain ⟨-, -, rfl⟩ := deleteProvider_ok h
  refine ⟨Nat.le_refl _, ?_, Nat.le_refl _, fun c hc => .inr ⟨c, hc, rfl, Nat.le_refl _⟩, ?_, ?_,
    hI.consNodup, hI.consFresh⟩
  · intro r' hr'
    exact .inr ⟨r', (List.mem_filter.mp hr').1, rfl, Nat.le_refl _⟩
  · exact hI.rpNodup.sublist (List.filter_sublist.map _)
  · intro r hr; exact hI.rpFresh r (List.mem_filter.mp hr).1

variable [CapOps R]

theorem step_genLe (cfg : Config) {db : DB R} (hI : Ids db.gcore) (op : Op R) :
    GenLe db.gcore (step cfg db op).1.gcore := by
  cases op with
  | rpCreate mv u n p =>
    show GenLe db.gcore (hRpCreate db mv u n p).1.gcore
    unfold hRpCreate
    split
    · exact GenLe.refl hI
    · split
      · exact genLe_create (by assumption) hI
      all_goals exact GenLe.refl hI
  | rpUpdate mv u n p =>
    show GenLe db.gcore (hRpUpdate db mv u n p).1.gcore
    unfold hRpUpdate
    dsimp only
    repeat' split
    all_goals first | exact GenLe.refl hI | exact genLe_update (by assumption) hI
  | rpDelete u =>
    show GenLe db.gcore (hRpDelete db u).1.gcore
    unfold hRpDelete
    repeat' split
    all_goals first | exact GenLe.refl hI | exact genLe_delete (by assumption) hI
  | _ => exact (step_frame cfg hI _ (by intros; simp) (by intros; simp) (by intros; simp)).genLe

theorem run_cons (cfg : Config) (db : DB R) (op : Op R) (ops : List (Op R)) :
    (run cfg db (op :: ops)).1 = (run cfg (step cfg db op).1 ops).1 := by
  simp only [run]

theorem run_genLe (cfg : Config) : ∀ (ops : List (Op R)) {db : DB R}, Ids db.gcore →
    GenLe db.gcore (run cfg db ops).1.gcore
  | [], db, hI => GenLe.refl hI
  | op :: ops, db, hI => by
    rw [run_cons]
    have h1 := step_genLe cfg hI op
    exact h1.trans (run_genLe cfg ops h1.ids)

end Placement.Gens
