import Placement.Lemmas.AllocInvariant
/-
  A small lawful ratio type and concrete states / requests used by the `example`s of
  `Props/C01.lean` (hypotheses of the C01 theorems are satisfiable on non-trivial states).
-/
namespace Placement

/-- allocation ratios with two binary digits: `⟨n⟩` is the ratio `n / 4` -/
structure Q4 where
  num : Int
deriving DecidableEq, Repr

instance : CapOps Q4 where
  capLt a r n := a * r.num < 4 * n
  capTrunc a r := Int.tdiv (a * r.num) 4

instance : MonoCapOps Q4 where
  capLt_mono a r n m h := by
    simp only [CapOps.capLt, decide_eq_true_eq]
    intro h1; omega

instance (db : DB Q4) : Decidable (InvKeysNodup db) := by unfold InvKeysNodup; infer_instance
instance (db : DB Q4) : Decidable (AllocNonneg db) := by unfold AllocNonneg; infer_instance
instance (db : DB Q4) : Decidable (AllocPos db) := by unfold AllocPos; infer_instance
instance (db : DB Q4) (rp rc : Nat) : Decidable (OverCommitted db rp rc) := by
  unfold OverCommitted; infer_instance

namespace C01Ex

def cfg : Config := { incompleteProject := 0, incompleteUser := 0 }

/-- VCPU: class id 0, name 10; 8 units at ratio 2.0, so capacity 16; amounts in steps of 2 -/
def vcpu8 : InvSpec Q4 :=
  { rcName := 10, total := 8, reserved := 0, minUnit := 2, maxUnit := 8, stepSize := 2, ratio := ⟨8⟩ }
/-- the same class shrunk to capacity 8 -/
def vcpu4 : InvSpec Q4 := { vcpu8 with total := 4 }

/-- Provider 1 (uuid 100) with child provider 2 (uuid 101); provider 1 has `vcpu8`;
consumers 500, 501, 502 hold 6 + 4 + 2 = 12 of the capacity 16. -/
def db0 : DB Q4 :=
  { rps := [{ id := 1, uuid := 100, name := 200, gen := 3, parent := none, root := 1 },
            { id := 2, uuid := 101, name := 201, gen := 0, parent := some 1, root := 1 }]
    rcs := [(0, 10), (1, 12)]
    invs := [vcpu8.toRow 1 0]
    allocs := [{ rp := 1, rc := 0, consumer := 500, used := 6 },
               { rp := 1, rc := 0, consumer := 501, used := 4 },
               { rp := 1, rc := 0, consumer := 502, used := 2 }]
    consumers := [{ id := 1, uuid := 500, project := 7, user := 8, ctype := none, gen := 1 },
                  { id := 2, uuid := 501, project := 7, user := 8, ctype := none, gen := 1 },
                  { id := 3, uuid := 502, project := 7, user := 8, ctype := none, gen := 1 }]
    projects := [7], users := [8], nextRp := 3, nextCons := 4 }

def consumer (uuid : Nat) (gen : Option Nat) (allocs : List (Nat × Nat × Int)) : ConsumerReq :=
  { uuid := uuid, project := some 7, user := some 8, ctype := none, gen := gen, allocs := allocs }

/-- a new consumer takes the last 4 units: total 16 = capacity -/
def put4 : Op Q4 := .allocPut 28 (consumer 503 none [(100, 10, 4)])
/-- two new consumers land on the same inventory in one request: 2 + 2 -/
def post22 : Op Q4 := .allocPost 28 [consumer 503 none [(100, 10, 2)], consumer 504 none [(100, 10, 2)]]
/-- move the inventory and consumer 500's usage from provider 1 to its child; 501 and 502 release -/
def reshape6 : Op Q4 :=
  .reshape 30 [{ uuid := 100, gen := 3, invs := [] }, { uuid := 101, gen := 0, invs := [vcpu8] }]
    [consumer 500 (some 1) [(101, 10, 6)], consumer 501 (some 1) [], consumer 502 (some 1) []]
/-- shrink the inventory below what is used (legal over-commit) -/
def shrink : Op Q4 := .invUpdate 26 100 3 vcpu4
/-- consumer 502 releases its 2 units -/
def release502 : Op Q4 := .allocDelete 502

/-- the state after `shrink`: 12 used of capacity 8 -/
def dbOver : DB Q4 := (step cfg db0 shrink).1

theorem uniq_db0 : Uniq db0 := by constructor <;> decide
theorem uniq_dbOver : Uniq dbOver := by constructor <;> decide

/-- the objects `_set_allocations` receives when consumer 500 replaces its 6 by 8 (+ others' 6 = 14) -/
def objs500 : List AllocReq :=
  [{ rpId := 1, rpGen := 3, rcName := 10, consId := 1, consUuid := 500, consGen := 1, used := 8 }]

end C01Ex
end Placement
