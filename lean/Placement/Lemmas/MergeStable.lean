import Placement.Props.C02Merge
/-
  The whole loop of `_merge_candidates` over the combinations of one anchor is free of interference: under the copy
  rule of the tree, consolidating a later combination never changes the value of an allocation request that was
  added for an earlier one (nor of any object that existed before) - the statement whose failure was finding A.
-/
namespace Placement.MergeStable
open Placement Placement.Merge Placement.Props.C02Merge

theorem consArrs_length_ge (cp : Nat → Bool) : ∀ (is : List Nat) (st : Store) (acc : List ((Nat × Nat) × Nat)),
    st.length ≤ (consArrs cp st acc is).1.length
  | [], st, acc => Nat.le_refl _
  | i :: is, st, acc => by
    simp only [consArrs]
    cases lookupKey ((getArr st i).rp, (getArr st i).rc) acc with
    | none =>
      simp only []
      split
      · exact Nat.le_trans (by simp) (consArrs_length_ge cp is _ _)
      · exact consArrs_length_ge cp is _ _
    | some j =>
      exact Nat.le_trans (by rw [length_addTo]; exact Nat.le_refl _) (consArrs_length_ge cp is _ _)

/-- `countKey` only looks at the objects named -/
theorem countKey_congr (st st' : Store) (k : Nat × Nat) : ∀ (ids : List Nat),
    (∀ i ∈ ids, getArr st' i = getArr st i) → countKey st' k ids = countKey st k ids
  | [], _ => rfl
  | i :: is, h => by
    simp only [countKey, h i List.mem_cons_self,
      countKey_congr st st' k is (fun j hj => h j (List.mem_cons_of_mem _ hj))]

/-- a combination whose objects are original objects and whose doubly placed keys are of multi-group classes -/
structure ComboOk (ctx : Ctx) (st0 : Store) (combo : List Areq) : Prop where
  lt : ∀ i ∈ combo.flatMap (·.arrs), i < st0.length
  multi : ∀ k, 2 ≤ countKey st0 k (combo.flatMap (·.arrs)) → ctx.multiRcs.contains k.2 = true

/-- the store has only grown and the original objects are as they were -/
structure Good (st0 st : Store) : Prop where
  len : st0.length ≤ st.length
  frame : ∀ n, n < st0.length → getArr st n = getArr st0 n

theorem consolidate_frame (ctx : Ctx) (st0 st : Store) (combo : List Areq) (hg : Good st0 st) (hc : ComboOk ctx st0 combo) :
    st.length ≤ (consolidate ctx st combo).1.length ∧
    (∀ n, n < st.length → getArr (consolidate ctx st combo).1 n = getArr st n) := by
  have hlt : ∀ i ∈ combo.flatMap (·.arrs), i < st.length := fun i hi => Nat.lt_of_lt_of_le (hc.lt i hi) hg.len
  have hm : ∀ k, 2 ≤ countKey st k (combo.flatMap (·.arrs)) → ctx.multiRcs.contains k.2 = true := by
    intro k hk
    rw [countKey_congr st0 st k _ (fun i hi => hg.frame i (hc.lt i hi))] at hk
    exact hc.multi k hk
  have h := consolidation_pure_and_adds_up ctx st (combo.flatMap (·.arrs)) hlt hm
  have hl : st.length ≤ (consolidateArrs ctx st [] (combo.flatMap (·.arrs))).1.length := by
    rw [consolidateArrs_eq]; exact consArrs_length_ge _ _ _ _
  unfold consolidate
  exact ⟨hl, h.1⟩

/-- the objects of the consolidated request lie in the store it leaves -/
theorem consolidate_arrs_lt (ctx : Ctx) (st0 st : Store) (combo : List Areq) (hg : Good st0 st) (hc : ComboOk ctx st0 combo) :
    ∀ i ∈ (consolidate ctx st combo).2.arrs, i < (consolidate ctx st combo).1.length := by
  have hlt : ∀ i ∈ combo.flatMap (·.arrs), i < st.length := fun i hi => Nat.lt_of_lt_of_le (hc.lt i hi) hg.len
  have hm : ∀ k, 2 ≤ countKey st k (combo.flatMap (·.arrs)) →
      (fun rc => Gen.copyArrNeeded ctx.policyNone ctx.isolate (ctx.multiRcs.contains rc)) k.2 = true := by
    intro k hk
    rw [countKey_congr st0 st k _ (fun i hi => hg.frame i (hc.lt i hi))] at hk
    show Gen.copyArrNeeded _ _ _ = true
    rw [hc.multi k hk]
    exact copy_rule_covers_every_policy _ _
  have h := consArrs_inv (fun rc => Gen.copyArrNeeded ctx.policyNone ctx.isolate (ctx.multiRcs.contains rc))
    st st.length (combo.flatMap (·.arrs)) hm (combo.flatMap (·.arrs)) [] st [] rfl hlt
    ⟨Nat.le_refl _, fun _ _ => rfl, fun e he => (by cases he), fun e he => (by cases he), (by simp), fun _ _ => rfl⟩
  intro i hi
  unfold consolidate at hi ⊢
  rw [consolidateArrs_eq] at hi ⊢
  simp only [List.mem_map] at hi
  obtain ⟨e, he, rfl⟩ := hi
  exact (h.entry e he).1

theorem valueOf_congr (st st' : Store) (a : Areq) (h : ∀ i ∈ a.arrs, getArr st' i = getArr st i) :
    valueOf st' a = valueOf st a := by
  unfold valueOf
  have : a.arrs.map (getArr st') = a.arrs.map (getArr st) := List.map_congr_left h
  rw [this]

/-- **no interference across combinations**: every allocation request in the set keeps its value while the remaining
combinations are processed (so what is serialised at the end is what was checked when the request was added) -/
theorem mergeCombos_values_stable (ctx : Ctx) (st0 : Store) :
    ∀ (combos : List (List Areq)) (st : Store) (set : List Entry),
      (∀ combo ∈ combos, ComboOk ctx st0 combo) → Good st0 st →
      (∀ e ∈ set, ∀ i ∈ e.areq.arrs, i < st.length) →
      Good st0 (mergeCombos ctx st set combos).1 ∧
      (∀ n, n < st.length → getArr (mergeCombos ctx st set combos).1 n = getArr st n) ∧
      (∀ e ∈ set, valueOf (mergeCombos ctx st set combos).1 e.areq = valueOf st e.areq)
  | [], st, set, _, hg, _ => ⟨hg, fun _ _ => rfl, fun _ _ => rfl⟩
  | combo :: rest, st, set, hc, hg, hs => by
    have hrest : ∀ c ∈ rest, ComboOk ctx st0 c := fun c h => hc c (List.mem_cons_of_mem _ h)
    simp only [mergeCombos]
    split
    · exact mergeCombos_values_stable ctx st0 rest st set hrest hg hs
    · split
      · exact mergeCombos_values_stable ctx st0 rest st set hrest hg hs
      · have hf := consolidate_frame ctx st0 st combo hg (hc combo List.mem_cons_self)
        have hg' : Good st0 (consolidate ctx st combo).1 :=
          ⟨Nat.le_trans hg.len hf.1, fun n hn => by rw [hf.2 n (Nat.lt_of_lt_of_le hn hg.len), hg.frame n hn]⟩
        have hs' : ∀ e ∈ set, ∀ i ∈ e.areq.arrs, i < (consolidate ctx st combo).1.length :=
          fun e he i hi => Nat.lt_of_lt_of_le (hs e he i hi) hf.1
        have hval : ∀ e ∈ set, valueOf (consolidate ctx st combo).1 e.areq = valueOf st e.areq :=
          fun e he => valueOf_congr _ _ _ (fun i hi => hf.2 i (hs e he i hi))
        split
        · obtain ⟨a, b, c⟩ := mergeCombos_values_stable ctx st0 rest _ set hrest hg' hs'
          refine ⟨a, fun n hn => ?_, fun e he => ?_⟩
          · rw [b n (Nat.lt_of_lt_of_le hn hf.1), hf.2 n hn]
          · rw [c e he, hval e he]
        · -- the request of this combination joins the set (or is already in it)
          have hsub : ∀ e ∈ setAdd (consolidate ctx st combo).1 set (consolidate ctx st combo).2, e ∈ set ∨
              e.areq = (consolidate ctx st combo).2 := by
            intro e he
            unfold setAdd at he
            dsimp only at he
            split at he
            · exact .inl he
            · rcases List.mem_append.mp he with h | h
              · exact .inl h
              · exact .inr (by rw [List.mem_singleton.mp h])
          have hnew := consolidate_arrs_lt ctx st0 st combo hg (hc combo List.mem_cons_self)
          have hs'' : ∀ e ∈ setAdd (consolidate ctx st combo).1 set (consolidate ctx st combo).2, ∀ i ∈ e.areq.arrs,
              i < (consolidate ctx st combo).1.length := by
            intro e he i hi
            rcases hsub e he with h | h
            · exact hs' e h i hi
            · rw [h] at hi; exact hnew i hi
          obtain ⟨a, b, c⟩ := mergeCombos_values_stable ctx st0 rest _ _ hrest hg' hs''
          refine ⟨a, fun n hn => ?_, fun e he => ?_⟩
          · rw [b n (Nat.lt_of_lt_of_le hn hf.1), hf.2 n hn]
          · have hin : e ∈ setAdd (consolidate ctx st combo).1 set (consolidate ctx st combo).2 := by
              unfold setAdd
              dsimp only
              split
              · exact he
              · exact List.mem_append_left _ he
            rw [c e hin, hval e he]

/-- the set only grows -/
theorem mergeCombos_set_mono (ctx : Ctx) : ∀ (combos : List (List Areq)) (st : Store) (set : List Entry) (e : Entry),
    e ∈ set → e ∈ (mergeCombos ctx st set combos).2
  | [], _, _, _, h => h
  | c :: cs, st, set, e, h => by
    simp only [mergeCombos]
    split
    · exact mergeCombos_set_mono ctx cs st set e h
    · split
      · exact mergeCombos_set_mono ctx cs st set e h
      · split
        · exact mergeCombos_set_mono ctx cs _ set e h
        · refine mergeCombos_set_mono ctx cs _ _ e ?_
          unfold setAdd
          dsimp only
          split
          · exact h
          · exact List.mem_append_left _ h

/-- every request of the resulting set has its objects in the resulting store, and the store has only grown -/
theorem mergeCombos_arrs_lt (ctx : Ctx) (st0 : Store) :
    ∀ (combos : List (List Areq)) (st : Store) (set : List Entry),
      (∀ combo ∈ combos, ComboOk ctx st0 combo) → Good st0 st →
      (∀ e ∈ set, ∀ i ∈ e.areq.arrs, i < st.length) →
      ∀ e ∈ (mergeCombos ctx st set combos).2, ∀ i ∈ e.areq.arrs, i < (mergeCombos ctx st set combos).1.length
  | [], st, set, _, _, hs => hs
  | combo :: rest, st, set, hc, hg, hs => by
    have hrest : ∀ c ∈ rest, ComboOk ctx st0 c := fun c h => hc c (List.mem_cons_of_mem _ h)
    simp only [mergeCombos]
    split
    · exact mergeCombos_arrs_lt ctx st0 rest st set hrest hg hs
    · split
      · exact mergeCombos_arrs_lt ctx st0 rest st set hrest hg hs
      · have hf := consolidate_frame ctx st0 st combo hg (hc combo List.mem_cons_self)
        have hg' : Good st0 (consolidate ctx st combo).1 :=
          ⟨Nat.le_trans hg.len hf.1, fun n hn => by rw [hf.2 n (Nat.lt_of_lt_of_le hn hg.len), hg.frame n hn]⟩
        have hs' : ∀ e ∈ set, ∀ i ∈ e.areq.arrs, i < (consolidate ctx st combo).1.length :=
          fun e he i hi => Nat.lt_of_lt_of_le (hs e he i hi) hf.1
        split
        · exact mergeCombos_arrs_lt ctx st0 rest _ set hrest hg' hs'
        · have hnew := consolidate_arrs_lt ctx st0 st combo hg (hc combo List.mem_cons_self)
          refine mergeCombos_arrs_lt ctx st0 rest _ _ hrest hg' ?_
          intro e he i hi
          unfold setAdd at he
          dsimp only at he
          split at he
          · exact hs' e he i hi
          · rcases List.mem_append.mp he with h | h
            · exact hs' e h i hi
            · rw [List.mem_singleton.mp h] at hi; exact hnew i hi

theorem mergeCombos_length_ge (ctx : Ctx) (st0 : Store) (combos : List (List Areq)) (st : Store) (set : List Entry)
    (hc : ∀ combo ∈ combos, ComboOk ctx st0 combo) (hg : Good st0 st)
    (hs : ∀ e ∈ set, ∀ i ∈ e.areq.arrs, i < st.length) : st.length ≤ (mergeCombos ctx st set combos).1.length := by
  induction combos generalizing st set with
  | nil => exact Nat.le_refl _
  | cons combo rest ih =>
    have hrest : ∀ c ∈ rest, ComboOk ctx st0 c := fun c h => hc c (List.mem_cons_of_mem _ h)
    simp only [mergeCombos]
    split
    · exact ih st set hrest hg hs
    · split
      · exact ih st set hrest hg hs
      · have hf := consolidate_frame ctx st0 st combo hg (hc combo List.mem_cons_self)
        have hg' : Good st0 (consolidate ctx st combo).1 :=
          ⟨Nat.le_trans hg.len hf.1, fun n hn => by rw [hf.2 n (Nat.lt_of_lt_of_le hn hg.len), hg.frame n hn]⟩
        have hs' : ∀ e ∈ set, ∀ i ∈ e.areq.arrs, i < (consolidate ctx st combo).1.length :=
          fun e he i hi => Nat.lt_of_lt_of_le (hs e he i hi) hf.1
        split
        · exact Nat.le_trans hf.1 (ih _ set hrest hg' hs')
        · have hnew := consolidate_arrs_lt ctx st0 st combo hg (hc combo List.mem_cons_self)
          refine Nat.le_trans hf.1 (ih _ _ hrest hg' ?_)
          intro e he i hi
          unfold setAdd at he
          dsimp only at he
          split at he
          · exact hs' e he i hi
          · rcases List.mem_append.mp he with h | h
            · exact hs' e h i hi
            · rw [List.mem_singleton.mp h] at hi; exact hnew i hi

/-- the same over all anchors (`_merge_candidates` as a whole) -/
theorem mergeAnchors_values_stable (ctx : Ctx) (st0 : Store) (groups : List (Nat × List Areq))
    (hc : ∀ an ls, listsFor groups an = some ls → ∀ combo ∈ prods ls, ComboOk ctx st0 combo) :
    ∀ (anchors : List Nat) (st : Store) (set : List Entry), Good st0 st →
      (∀ e ∈ set, ∀ i ∈ e.areq.arrs, i < st.length) →
      Good st0 (mergeAnchors ctx groups st set anchors).1 ∧
      (∀ n, n < st.length → getArr (mergeAnchors ctx groups st set anchors).1 n = getArr st n) ∧
      (∀ e ∈ set, valueOf (mergeAnchors ctx groups st set anchors).1 e.areq = valueOf st e.areq) ∧
      (∀ e ∈ (mergeAnchors ctx groups st set anchors).2, ∀ i ∈ e.areq.arrs, i < (mergeAnchors ctx groups st set anchors).1.length)
  | [], st, set, hg, hs => ⟨hg, fun _ _ => rfl, fun _ _ => rfl, hs⟩
  | an :: rest, st, set, hg, hs => by
    simp only [mergeAnchors]
    cases hl : listsFor groups an with
    | none => exact mergeAnchors_values_stable ctx st0 groups hc rest st set hg hs
    | some ls =>
      simp only []
      obtain ⟨g1, f1, v1⟩ := mergeCombos_values_stable ctx st0 (prods ls) st set (hc an ls hl) hg hs
      have hs1 := mergeCombos_arrs_lt ctx st0 (prods ls) st set (hc an ls hl) hg hs
      obtain ⟨g2, f2, v2, l2⟩ := mergeAnchors_values_stable ctx st0 groups hc rest _ _ g1 hs1
      refine ⟨g2, fun n hn => ?_, fun e he => ?_, l2⟩
      · have hle : st.length ≤ (mergeCombos ctx st set (prods ls)).1.length := mergeCombos_length_ge ctx st0 (prods ls) st set (hc an ls hl) hg hs
        rw [f2 n (Nat.lt_of_lt_of_le hn hle), f1 n hn]
      · rw [v2 e (mergeCombos_set_mono ctx (prods ls) st set e he), v1 e he]

end Placement.MergeStable
