import Placement.Lemmas.SchedSer
import Placement.Lemmas.SchedAlloc
/-
  "A request answered with an error has no effect", for allocation writes under every schedule.

  `QUO W ok p`: on states satisfying `W`, every transaction of `p` either finishes the request with an
  `ok` answer (leaving a state that satisfies `W` again) or leaves the state unchanged.
  `quo_quietElse`: in a pool of such programs every scheduling step that does not finish a request
  `ok` leaves the state unchanged.

  Instance: PUT /allocations/{c} and POST /allocations at >= 1.28 whose entries all carry a consumer
  generation (so that `ensure_consumer` never creates a consumer) and whose projects, users and
  consumer types exist (`WAux`).
-/
namespace Placement.Sched
open Placement
variable {σ α : Type}

/-- the transaction run on `s` finishes the request `ok` and re-establishes `W` -/
def FinW (W : σ → Prop) (ok : α → Bool) (f : σ → σ × Prog σ α) (s : σ) : Prop :=
  ∃ a, (f s).2 = .done a ∧ ok a = true ∧ W (f s).1

inductive QUO (W : σ → Prop) (ok : α → Bool) : Prog σ α → Prop
  | done (a : α) : QUO W ok (.done a)
  | txn (l : Lbl) (f : σ → σ × Prog σ α) :
      (∀ s, W s → ¬ FinW W ok f s → (f s).1 = s ∧ ∀ a, (f s).2 = .done a → ok a = false) →
      (∀ s, W s → ¬ FinW W ok f s → QUO W ok (f s).2) → QUO W ok (.txn l f)

theorem QUO.txn' {W : σ → Prop} {ok : α → Bool} (l : Lbl) (f : σ → σ × Prog σ α)
    (h : ∀ s, W s → ((f s).1 = s ∧ QUO W ok (f s).2 ∧ ∀ a, (f s).2 = .done a → ok a = false) ∨ FinW W ok f s) :
    QUO W ok (.txn l f) :=
  .txn l f (fun s hw hn => ((h s hw).resolve_right hn).imp_right (·.2))
    (fun s hw hn => ((h s hw).resolve_right hn).2.1)

theorem QUO.step {W : σ → Prop} {ok : α → Bool} {l : Lbl} {f : σ → σ × Prog σ α} (h : QUO W ok (.txn l f))
    {s : σ} (hw : W s) :
    ((f s).1 = s ∧ QUO W ok (f s).2 ∧ ∀ a, (f s).2 = .done a → ok a = false) ∨ FinW W ok f s := by
  cases h with
  | txn _ _ h1 h2 =>
    by_cases hf : FinW W ok f s
    · exact .inr hf
    · exact .inl ⟨(h1 s hw hf).1, h2 s hw hf, (h1 s hw hf).2⟩

/-- **errors have no effect** (generic): every scheduling step that does not finish a request with
an `ok` answer leaves the state unchanged -/
theorem quo_quietElse {W : σ → Prop} {ok : α → Bool} : ∀ (sched : List Nat) (s : σ) (ps : List (Prog σ α)), W s →
    (∀ (i : Nat) (p : Prog σ α), ps[i]? = some p → QUO W ok p) → QuietElse ok sched s ps
  | [], _, _, _, _ => trivial
  | j :: rest, s, ps, hw, hps => by
    rcases stepAt_cases ps j s with ⟨e, -⟩ | ⟨l, f, hj, e⟩
    · refine ⟨fun _ => by rw [e], ?_⟩
      rw [e]; exact quo_quietElse rest s ps hw hps
    · have hjlt : j < ps.length := (List.getElem?_eq_some_iff.mp hj).1
      have hpend : pending ps j = true := by unfold pending; rw [hj]; rfl
      have hset : (Prog.stepAt ps j s).2[j]? = some (f s).2 := by rw [e]; exact List.getElem?_set_self hjlt
      have hps' : QUO W ok (f s).2 → ∀ (i : Nat) (p : Prog σ α), (ps.set j (f s).2)[i]? = some p → QUO W ok p := by
        intro hq i p hp
        by_cases hij : j = i
        · subst hij; rw [List.getElem?_set_self hjlt] at hp; cases hp; exact hq
        · rw [List.getElem?_set_ne hij] at hp; exact hps i p hp
      rcases (hps j _ hj).step hw with ⟨hsame, hq, -⟩ | ⟨a, hdone, hoka, hw'⟩
      · refine ⟨fun _ => by rw [e]; exact hsame, ?_⟩
        rw [e]
        exact quo_quietElse rest _ _ (by rw [hsame]; exact hw) (hps' hq)
      · have hfin : finishesOk ok ps j s = true := by
          unfold finishesOk
          rw [hpend, hset, hdone]; simpa using hoka
        refine ⟨(fun h => by rw [hfin] at h; cases h), ?_⟩
        rw [e]
        exact quo_quietElse rest _ _ hw' (hps' (hdone ▸ .done a))

/-! ### allocation writes -/

variable {R : Type} [CapOps R]
set_option linter.unusedSectionVars false

/-- the projects, users and consumer types the requests name exist -/
def WAux (Ps Us Ts : List Nat) (s : DB R) : Prop :=
  (∀ p ∈ Ps, p ∈ s.projects) ∧ (∀ u ∈ Us, u ∈ s.users) ∧ (∀ t ∈ Ts, t ∈ s.ctypes)

/-- the auxiliary registries are untouched -/
def SameAux (a b : DB R) : Prop := b.projects = a.projects ∧ b.users = a.users ∧ b.ctypes = a.ctypes

theorem SameAux.refl (a : DB R) : SameAux a a := ⟨rfl, rfl, rfl⟩
theorem SameAux.trans {a b c : DB R} (h1 : SameAux a b) (h2 : SameAux b c) : SameAux a c :=
  ⟨h2.1.trans h1.1, h2.2.1.trans h1.2.1, h2.2.2.trans h1.2.2⟩
theorem SameAux.w {Ps Us Ts : List Nat} {a b : DB R} (h : SameAux a b) (hw : WAux Ps Us Ts a) : WAux Ps Us Ts b := by
  unfold WAux; rw [h.1, h.2.1, h.2.2]; exact hw

theorem updateConsumers_aux : ∀ (l : List (ConsumerReq × ConsRow × ReqAttr)) (db : DB R), SameAux db (updateConsumers db l)
  | [], db => SameAux.refl db
  | (_, cons, attr) :: rest, db => by
    have h1 : SameAux db (updateConsumer db cons attr) := by
      unfold updateConsumer
      dsimp only
      repeat' split
      all_goals exact ⟨rfl, rfl, rfl⟩
    exact h1.trans (updateConsumers_aux rest _)

theorem incRpGensP_aux : ∀ (l : List (Nat × Nat)) (db : DB R), SameAux db (incRpGensP db l).1
  | [], db => SameAux.refl db
  | (id, gen) :: rest, db => by
    unfold incRpGensP
    split
    · rename_i db1 h1
      have : SameAux db db1 := by
        unfold incRpGen at h1
        split at h1
        · cases h1; exact ⟨rfl, rfl, rfl⟩
        · cases h1
      exact this.trans (incRpGensP_aux rest db1)
    · exact SameAux.refl db

theorem incConsGensP_aux : ∀ (l : List (Nat × Nat)) (db : DB R), SameAux db (incConsGensP db l).1
  | [], db => SameAux.refl db
  | (id, gen) :: rest, db => by
    unfold incConsGensP
    split
    · rename_i db1 h1
      have : SameAux db db1 := by
        unfold incConsGen at h1
        split at h1
        · cases h1; exact ⟨rfl, rfl, rfl⟩
        · cases h1
      exact this.trans (incConsGensP_aux rest db1)
    · exact SameAux.refl db

theorem setAllocationsP_aux (db : DB R) (objs : List AllocReq) : SameAux db (setAllocationsP db objs).1 := by
  unfold setAllocationsP
  dsimp only
  split
  · exact ⟨rfl, rfl, rfl⟩
  · exact ⟨rfl, rfl, rfl⟩
  · generalize hdb2 : ({ db with allocs := _ } : DB R) = db2
    have h2 : SameAux db db2 := by subst hdb2; exact ⟨rfl, rfl, rfl⟩
    have h3 := incRpGensP_aux (firstByKey (objs.map (fun a => (a.rpId, a.rpGen)))) db2
    split
    · rename_i db3 e he
      rw [he] at h3; exact h2.trans h3
    · rename_i db3 he
      rw [he] at h3
      have h4 := incConsGensP_aux (firstByKey (objs.map (fun a => (a.consId, a.consGen)))) db3
      split
      · rename_i db4 e he4
        rw [he4] at h4; exact (h2.trans h3).trans h4
      · rename_i db4 he4
        rw [he4] at h4
        exact ((h2.trans h3).trans h4).trans ⟨rfl, rfl, rfl⟩

theorem replaceAll_aux (committed : DB R) : ∀ (n : Nat) (db : DB R) (objs : List AllocReq) {db' : DB R},
    replaceAll committed n db objs = .ok db' → SameAux db db'
  | 0, _, _, _, h => by simp [replaceAll] at h
  | n + 1, db, objs, db', h => by
    have hs := setAllocationsP_aux db objs
    unfold replaceAll at h
    split at h
    · rename_i db1 h1
      rw [h1] at hs
      simp only [Except.ok.injEq] at h
      exact h ▸ hs
    · rename_i db1 h1
      rw [h1] at hs
      split at h
      · cases h
      · exact hs.trans (replaceAll_aux committed n db1 _ h)
    · cases h

section stages
variable {Ps Us Ts : List Nat}

abbrev QA (Ps Us Ts : List Nat) (p : P R) : Prop := QUO (WAux (R := R) Ps Us Ts) Resp.ok p

theorem quo_same {l : Lbl} {f : DB R → DB R × P R}
    (h : ∀ s, WAux Ps Us Ts s → (f s).1 = s ∧ QA Ps Us Ts (f s).2 ∧ ∀ a, (f s).2 = .done a → a.ok = false) :
    QA Ps Us Ts (.txn l f) := QUO.txn' l f (fun s hw => .inl (h s hw))

theorem aMain_qa (ctx : ACtx R) (hk : ctx.kind ≠ .reshape) (hc : ctx.created = []) (objs : List AllocReq) :
    QA Ps Us Ts (.txn .main (aMain ctx objs)) :=
  QUO.txn' _ _ (fun s hw => by
    unfold FinW aMain
    dsimp only
    split
    · rename_i db3 h
      refine .inr ⟨r204, rfl, rfl, ?_⟩
      split at h
      · rename_i hkind; exact absurd hkind hk
      · have h1 := updateConsumers_aux ctx.done s
        have h2 := replaceAll_aux _ _ _ _ h
        exact ((h1.trans h2).trans ⟨rfl, rfl, rfl⟩).w hw
    · rename_i e h
      rw [hc]
      refine .inl ⟨rfl, .done _, fun a ha => ?_⟩
      simp only [cleanupThen, Prog.done.injEq] at ha
      subst ha
      unfold aErr
      split
      · rename_i hkind; exact absurd hkind hk
      · cases e <;> rfl)

theorem aGetRps_qa (k : List RpRow → P R) (hk : ∀ rows, QA Ps Us Ts (k rows)) (hkn : ∀ rows a, k rows ≠ .done a) :
    ∀ (us : List Nat) (rows : List RpRow), QA Ps Us Ts (.txn .getRp (aGetRps [] k us rows))
  | [], rows => quo_same (fun s _ => by
      simp only [aGetRps]; exact ⟨trivial, hk rows, fun a h => absurd h (hkn rows a)⟩)
  | [u], rows => quo_same (fun s _ => by
      simp only [aGetRps]
      split
      · exact ⟨rfl, .done _, fun a h => by simp only [cleanupThen, Prog.done.injEq] at h; subst h; rfl⟩
      · exact ⟨rfl, hk _, fun a h => absurd h (hkn _ a)⟩)
  | u :: u' :: us, rows => quo_same (fun s _ => by
      simp only [aGetRps]
      split
      · exact ⟨rfl, .done _, fun a h => by simp only [cleanupThen, Prog.done.injEq] at h; subst h; rfl⟩
      · exact ⟨rfl, aGetRps_qa k hk hkn (u' :: us) _, fun a h => by cases h⟩)

theorem aBuildNext_ne_done (ctx : ACtx R) : ∀ (l : List (ConsumerReq × ConsRow × ReqAttr)) (objs : List AllocReq) (a : Resp),
    aBuildNext ctx l objs ≠ .done a
  | [], _, _ => by unfold aBuildNext; intro h; cases h
  | (c, cons, _) :: rest, _, _ => by
    unfold aBuildNext
    split <;> (intro h; cases h)

theorem aBuildNext_qa (ctx : ACtx R) (hk : ctx.kind ≠ .reshape) (hc : ctx.created = []) :
    ∀ (l : List (ConsumerReq × ConsRow × ReqAttr)) (objs : List AllocReq), QA Ps Us Ts (aBuildNext ctx l objs)
  | [], objs => by unfold aBuildNext; exact aMain_qa ctx hk hc objs
  | (c, cons, _) :: rest, objs => by
    unfold aBuildNext
    split
    · exact quo_same (fun s _ => ⟨rfl, aBuildNext_qa ctx hk hc rest _, fun a h => absurd h (aBuildNext_ne_done ctx rest _ a)⟩)
    · rw [hc]
      exact aGetRps_qa _ (fun rows => aBuildNext_qa ctx hk hc rest _) (fun rows a => aBuildNext_ne_done ctx rest _ a) _ _

/-- the entry carries a consumer generation and names registered project / user / type -/
def EntryAux (cfg : Config) (Ps Us Ts : List Nat) (c : ConsumerReq) : Prop :=
  c.gen.isSome = true ∧ reqProject cfg c ∈ Ps ∧ reqUser cfg c ∈ Us ∧ ∀ t, c.ctype = some t → t ∈ Ts

/-- locals of a request that has created nothing -/
def CtxQ (cfg : Config) (ctx : ACtx R) : Prop :=
  ctx.cfg = cfg ∧ ctx.mv ≥ 28 ∧ ctx.kind ≠ .reshape ∧ ctx.created = []

section ensure
variable (cfg : Config) (ctx : ACtx R) (c : ConsumerReq) (k : ACtx R → P R) (hctx : CtxQ cfg ctx)
  (hk : ∀ ctx' : ACtx R, CtxQ cfg ctx' → QA Ps Us Ts (k ctx') ∧ ∀ a, k ctx' ≠ .done a)
include hctx hk

theorem aAfterType_qa (cons : ConsRow) (t : Option Nat) (cache : Option (List Nat)) :
    QA Ps Us Ts (aAfterType { ctx with ctCache := cache } c (some cons) t k) ∧
    ∀ a, aAfterType { ctx with ctCache := cache } c (some cons) t k ≠ .done a := by
  unfold aAfterType
  exact hk _ ⟨hctx.1, hctx.2.1, hctx.2.2.1, hctx.2.2.2⟩

theorem aGetCtype_qa (cons : ConsRow) (t : Nat) (ht : t ∈ Ts) :
    QA Ps Us Ts (.txn .getCtype (aGetCtype ctx c (some cons) t k)) :=
  quo_same (fun s hw => by
    unfold aGetCtype
    dsimp only
    have : s.ctypes.contains t = true := by simpa using hw.2.2 t ht
    rw [if_pos this]
    have := aAfterType_qa cfg ctx c k hctx hk cons (some t) (some s.ctypes)
    exact ⟨rfl, this.1, fun a h => absurd h (this.2 a)⟩)

theorem aType_qa (cons : ConsRow) (hty : ∀ t, c.ctype = some t → t ∈ Ts) :
    QA Ps Us Ts (aType ctx c (some cons) k) ∧ ∀ a, aType ctx c (some cons) k ≠ .done a := by
  have base := fun t => aAfterType_qa cfg ctx c k hctx hk cons t ctx.ctCache
  unfold aType
  split
  · split
    · exact base none
    · rename_i t ht
      split
      · split
        · exact base (some t)
        · exact ⟨aGetCtype_qa cfg ctx c k hctx hk cons t (hty t ht), fun a h => by cases h⟩
      · exact ⟨aGetCtype_qa cfg ctx c k hctx hk cons t (hty t ht), fun a h => by cases h⟩
  · exact base none

theorem aGetConsumer_qa (he : EntryAux cfg Ps Us Ts c) :
    QA Ps Us Ts (.txn .getConsumer (aGetConsumer ctx c k)) :=
  quo_same (fun s _ => by
    unfold aGetConsumer
    rw [hctx.2.2.2]
    split
    · rename_i cons _
      split
      · exact ⟨rfl, .done _, fun a h => by simp only [cleanupThen, Prog.done.injEq] at h; subst h; rfl⟩
      · have := aType_qa cfg ctx c k hctx hk cons he.2.2.2
        exact ⟨rfl, this.1, fun a h => absurd h (this.2 a)⟩
    · have : (decide (ctx.mv ≥ 28) && c.gen.isSome) = true := by
        simp only [Bool.and_eq_true, decide_eq_true_eq]; exact ⟨hctx.2.1, he.1⟩
      rw [if_pos this]
      exact ⟨rfl, .done _, fun a h => by simp only [cleanupThen, Prog.done.injEq] at h; subst h; rfl⟩)

theorem aGetUser_qa (he : EntryAux cfg Ps Us Ts c) : QA Ps Us Ts (.txn .getUser (aGetUser ctx c k)) :=
  quo_same (fun s hw => by
    unfold aGetUser
    have : s.users.contains (reqUser ctx.cfg c) = true := by
      rw [hctx.1]; simpa using hw.2.1 _ he.2.2.1
    rw [if_pos this]
    exact ⟨rfl, aGetConsumer_qa cfg ctx c k hctx hk he, fun a h => by cases h⟩)

theorem aGetProject_qa (he : EntryAux cfg Ps Us Ts c) : QA Ps Us Ts (.txn .getProject (aGetProject ctx c k)) :=
  quo_same (fun s hw => by
    unfold aGetProject
    have : s.projects.contains (reqProject ctx.cfg c) = true := by
      rw [hctx.1]; simpa using hw.1 _ he.2.1
    rw [if_pos this]
    exact ⟨rfl, aGetUser_qa cfg ctx c k hctx hk he, fun a h => by cases h⟩)

end ensure

theorem aNext_ne_done : ∀ (cs : List ConsumerReq) (ctx : ACtx R) (a : Resp), aNext ctx cs ≠ .done a
  | [], ctx, a => by unfold aNext; exact aBuildNext_ne_done ctx _ _ a
  | c :: rest, ctx, a => by unfold aNext; intro h; cases h

theorem aNext_qa (cfg : Config) : ∀ (cs : List ConsumerReq) (ctx : ACtx R), CtxQ cfg ctx →
    (∀ c ∈ cs, EntryAux cfg Ps Us Ts c) → QA Ps Us Ts (aNext ctx cs)
  | [], ctx, hctx, _ => by unfold aNext; exact aBuildNext_qa ctx hctx.2.2.1 hctx.2.2.2 _ _
  | c :: rest, ctx, hctx, he => by
    unfold aNext
    exact aGetProject_qa cfg ctx c _ hctx
      (fun ctx' h' => ⟨aNext_qa cfg rest ctx' h' (fun c' hc' => he c' (List.mem_cons_of_mem _ hc')),
        aNext_ne_done rest ctx'⟩) (he c List.mem_cons_self)

end stages

/-- PUT /allocations/{c} or POST /allocations at >= 1.28, every entry with a consumer generation and
registered project / user / consumer type -/
def allocWriteAux (cfg : Config) (Ps Us Ts : List Nat) : Op R → Prop
  | .allocPut mv c => mv ≥ 28 ∧ EntryAux cfg Ps Us Ts c
  | .allocPost mv cs => mv ≥ 28 ∧ ∀ c ∈ cs, EntryAux cfg Ps Us Ts c
  | _ => False

theorem allocWriteAux_qa (cfg : Config) {Ps Us Ts : List Nat} {op : Op R} (h : allocWriteAux cfg Ps Us Ts op) :
    QA Ps Us Ts (prog cfg op) := by
  cases op <;> simp only [allocWriteAux] at h
  case allocPut mv c =>
    show QA Ps Us Ts (pAllocPut cfg mv c)
    unfold pAllocPut
    rw [if_neg (by simp; omega)]
    exact aNext_qa cfg [c] _ ⟨rfl, h.1, by simp, rfl⟩ (fun c' hc' => by rw [List.mem_singleton.mp hc']; exact h.2)
  case allocPost mv cs =>
    show QA Ps Us Ts (pAllocPost cfg mv cs)
    unfold pAllocPost
    rw [if_neg (by omega)]
    exact aNext_qa cfg cs _ ⟨rfl, h.1, by simp, rfl⟩ h.2

end Placement.Sched
