import Placement.Lemmas.SchedBase
/-
  Generic optimistic-concurrency arguments over scheduled pools.

  * `Commits W ok C B p`: on states satisfying the (environment-stable) condition `W`, every path of
    `p` to an answer accepted by `ok` passes through a transaction that ran on a state satisfying
    the guard `C` and left a state related by `B` (the commit).
  * `at_most_one_commit`: if the guard can never hold again once some commit has happened
    (`B s s' → D s'`, `D` stable, `C s → ¬ D s`), then under every schedule at most one of the
    requests of the pool that are `Commits` answers with `ok`.
  * `commit_step_exists`: an `ok` answer of such a request pins down the scheduling step at which
    its commit ran.
  * `obsOf` / `feed` / `Chain`: the answer of request `i` is a function of the states its own
    transactions ran on, and consecutive observations are related by the environment relation.
-/
namespace Placement.Sched
open Placement
variable {σ α : Type}

/-- if the transaction run on `s` is not a commit, the rest of the program still has to commit -/
inductive Commits (W : σ → Prop) (ok : α → Prop) (C : σ → Prop) (B : σ → σ → Prop) : Prog σ α → Prop
  | done (a : α) : ¬ ok a → Commits W ok C B (.done a)
  | txn (l : Lbl) (f : σ → σ × Prog σ α) :
      (∀ s, W s → ¬ (C s ∧ B s (f s).1) → Commits W ok C B (f s).2) → Commits W ok C B (.txn l f)

theorem Commits.not_ok {W : σ → Prop} {ok : α → Prop} {C : σ → Prop} {B : σ → σ → Prop} {a : α}
    (h : Commits W ok C B (.done a)) : ¬ ok a := by
  cases h with
  | done _ h => exact h

theorem Commits.step {W : σ → Prop} {ok : α → Prop} {C : σ → Prop} {B : σ → σ → Prop} {l : Lbl}
    {f : σ → σ × Prog σ α} (h : Commits W ok C B (.txn l f)) {s : σ} (hw : W s)
    (hn : ¬ (C s ∧ B s (f s).1)) : Commits W ok C B (f s).2 := by
  cases h with
  | txn _ _ h => exact h s hw hn

/-- introduction rule with the case split made explicit -/
theorem Commits.txn' {W : σ → Prop} {ok : α → Prop} {C : σ → Prop} {B : σ → σ → Prop} (l : Lbl)
    (f : σ → σ × Prog σ α) (h : ∀ s, W s → Commits W ok C B (f s).2 ∨ (C s ∧ B s (f s).1)) :
    Commits W ok C B (.txn l f) :=
  .txn l f (fun s hw hn => (h s hw).resolve_right hn)

/-- a program that can never answer `ok` -/
theorem Commits.of_never {W : σ → Prop} {ok : α → Prop} {C : σ → Prop} {B : σ → σ → Prop}
    {Q : σ → σ → Prop} : ∀ {p : Prog σ α}, All Q p → (∀ a, ¬ ok a) → Commits W ok C B p := by
  intro p hp hok
  induction hp with
  | done a => exact .done a (hok a)
  | txn l f _ _ ih => exact .txn l f (fun s _ _ => ih s)

section atMostOne
variable {Q : σ → σ → Prop} {W D C : σ → Prop} {ok : α → Prop} {B : σ → σ → Prop} (S : Nat → Prop)

/-- invariant of `at_most_one_commit` -/
def AmoInv (Q : σ → σ → Prop) (W D : σ → Prop) (ok : α → Prop) (C : σ → Prop) (B : σ → σ → Prop)
    (S : Nat → Prop) (s : σ) (ps : List (Prog σ α)) : Prop :=
  PoolAll Q ps ∧ W s ∧
  ((∀ i, S i → ∀ p, ps[i]? = some p → Commits W ok C B p) ∨
   (D s ∧ ∃ k, ∀ i, S i → i ≠ k → ∀ p, ps[i]? = some p → Commits W ok C B p))

theorem amoInv_step (hW : ∀ s s', Q s s' → W s → W s') (hD : ∀ s s', Q s s' → W s → D s → D s')
    (hCD : ∀ s, W s → C s → ¬ D s) (hBD : ∀ s s', W s → B s s' → D s')
    (s : σ) (ps : List (Prog σ α)) (j : Nat) (h : AmoInv Q W D ok C B S s ps) :
    AmoInv Q W D ok C B S (Prog.stepAt ps j s).1 (Prog.stepAt ps j s).2 := by
  obtain ⟨hp, hw, hc⟩ := h
  rcases stepAt_cases ps j s with ⟨e, -⟩ | ⟨l, f, hj, e⟩
  · rw [e]; exact ⟨hp, hw, hc⟩
  · rw [e]
    have hq := (hp _ (List.mem_of_getElem? hj)).step s
    have hjlt : j < ps.length := (List.getElem?_eq_some_iff.mp hj).1
    refine ⟨hp.set j hq.2, hW _ _ hq.1 hw, ?_⟩
    show (∀ i, S i → ∀ p, (ps.set j (f s).2)[i]? = some p → _) ∨ _
    rcases hc with hall | ⟨hd, k, hk⟩
    · by_cases hcom : C s ∧ B s (f s).1
      · by_cases hS : S j
        · refine .inr ⟨hBD _ _ hw hcom.2, j, ?_⟩
          intro i hi hij p hpi
          rw [List.getElem?_set_ne (Ne.symm hij)] at hpi
          exact hall i hi p hpi
        · refine .inl ?_
          intro i hi p hpi
          have hij : j ≠ i := fun e => hS (e ▸ hi)
          rw [List.getElem?_set_ne hij] at hpi
          exact hall i hi p hpi
      · refine .inl ?_
        intro i hi p hpi
        by_cases hij : j = i
        · subst hij
          rw [List.getElem?_set_self hjlt] at hpi
          cases hpi
          exact (hall j hi _ hj).step hw hcom
        · rw [List.getElem?_set_ne hij] at hpi
          exact hall i hi p hpi
    · refine .inr ⟨hD _ _ hq.1 hw hd, k, ?_⟩
      intro i hi hik p hpi
      by_cases hij : j = i
      · subst hij
        rw [List.getElem?_set_self hjlt] at hpi
        cases hpi
        exact (hk j hi hik _ hj).step hw (fun hcom => hCD s hw hcom.1 hd)
      · rw [List.getElem?_set_ne hij] at hpi
        exact hk i hi hik p hpi

/-- **at most one commit**: under every schedule, of the requests `S` of the pool whose every
successful path commits against the guard `C`, at most one answers `ok`, provided a commit makes
the guard unsatisfiable for good (`D`) -/
theorem at_most_one_commit (hW : ∀ s s', Q s s' → W s → W s') (hD : ∀ s s', Q s s' → W s → D s → D s')
    (hCD : ∀ s, W s → C s → ¬ D s) (hBD : ∀ s s', W s → B s s' → D s')
    (sched : List Nat) (s : σ) (ps : List (Prog σ α)) (hps : PoolAll Q ps) (hw : W s)
    (hS : ∀ i, S i → ∀ p, ps[i]? = some p → Commits W ok C B p)
    {i j : Nat} {a b : α} (hi : S i) (hj : S j)
    (hia : (Prog.runSched sched s ps).2[i]? = some (.done a)) (ha : ok a)
    (hjb : (Prog.runSched sched s ps).2[j]? = some (.done b)) (hb : ok b) : i = j := by
  have := runSched_inv (AmoInv Q W D ok C B S) (amoInv_step S hW hD hCD hBD) sched s ps ⟨hps, hw, .inl hS⟩
  obtain ⟨-, -, hc⟩ := this
  rcases hc with hall | ⟨-, k, hk⟩
  · exact absurd ha (hall i hi _ hia).not_ok
  · have h1 : i = k := Classical.byContradiction fun h => absurd ha (hk i hi h _ hia).not_ok
    have h2 : j = k := Classical.byContradiction fun h => absurd hb (hk j hj h _ hjb).not_ok
    rw [h1, h2]

end atMostOne

/-- an `ok` answer of a committing request pins down its commit step: the schedule splits into
`pre ++ i :: post`, the state after `pre` satisfies the guard and the step of `i` establishes `B` -/
theorem commit_step_exists {Q : σ → σ → Prop} {W C : σ → Prop} {ok : α → Prop} {B : σ → σ → Prop}
    (hW : ∀ s s', Q s s' → W s → W s') (i : Nat) :
    ∀ (sched : List Nat) (s : σ) (ps : List (Prog σ α)) (p : Prog σ α), PoolAll Q ps → W s →
      ps[i]? = some p → Commits W ok C B p →
      ∀ a, (Prog.runSched sched s ps).2[i]? = some (.done a) → ok a →
      ∃ pre post, sched = pre ++ i :: post ∧ C (Prog.runSched pre s ps).1 ∧
        B (Prog.runSched pre s ps).1 (Prog.runSched (pre ++ [i]) s ps).1
  | [], s, ps, p, _, _, hi, hc, a, hfin, ha => by
    have : p = .done a := by
      have : some p = some (.done a) := hi.symm.trans hfin
      exact Option.some.inj this
    exact absurd ha (this ▸ hc).not_ok
  | j :: rest, s, ps, p, hps, hw, hi, hc, a, hfin, ha => by
    rw [runSched_cons] at hfin
    rcases stepAt_cases ps j s with ⟨e, -⟩ | ⟨l, f, hj, e⟩
    · rw [e] at hfin
      obtain ⟨pre, post, h1, h2, h3⟩ := commit_step_exists hW i rest s ps p hps hw hi hc a hfin ha
      refine ⟨j :: pre, post, by rw [h1]; rfl, ?_, ?_⟩
      · rw [runSched_cons, e]; exact h2
      · rw [List.cons_append, runSched_cons, runSched_cons, e]; exact h3
    · have hq := (hps _ (List.mem_of_getElem? hj)).step s
      have hjlt : j < ps.length := (List.getElem?_eq_some_iff.mp hj).1
      have hps' : PoolAll Q (ps.set j (f s).2) := hps.set j hq.2
      have hw' : W (f s).1 := hW _ _ hq.1 hw
      rw [e] at hfin
      by_cases hij : j = i
      · subst hij
        have hp : p = .txn l f := Option.some.inj (hi.symm.trans hj)
        subst hp
        by_cases hcom : C s ∧ B s (f s).1
        · refine ⟨[], rest, rfl, hcom.1, ?_⟩
          show B s (Prog.runSched [j] s ps).1
          rw [runSched_cons, e]; exact hcom.2
        · obtain ⟨pre, post, h1, h2, h3⟩ := commit_step_exists hW j rest (f s).1 (ps.set j (f s).2) (f s).2
            hps' hw' (List.getElem?_set_self hjlt) (hc.step hw hcom) a hfin ha
          refine ⟨j :: pre, post, by rw [h1]; rfl, ?_, ?_⟩
          · rw [runSched_cons, e]; exact h2
          · rw [List.cons_append, runSched_cons, runSched_cons, e]; exact h3
      · obtain ⟨pre, post, h1, h2, h3⟩ := commit_step_exists hW i rest (f s).1 (ps.set j (f s).2) p
          hps' hw' (by rw [List.getElem?_set_ne hij]; exact hi) hc a hfin ha
        refine ⟨j :: pre, post, by rw [h1]; rfl, ?_, ?_⟩
        · rw [runSched_cons, e]; exact h2
        · rw [List.cons_append, runSched_cons, runSched_cons, e]; exact h3

/-! ### what one request observes -/

/-- run successive transactions of a program on the given states (the states left by the
transactions are dropped: other requests run in between) -/
def feed : Prog σ α → List σ → Prog σ α
  | .txn _ f, s :: ss => feed (f s).2 ss
  | p, _ => p

/-- the states on which request `i` ran its transactions, in order -/
def obsOf (i : Nat) : List Nat → σ → List (Prog σ α) → List σ
  | [], _, _ => []
  | j :: rest, s, ps =>
    if j = i ∧ ((ps[i]?).bind Prog.next?).isSome = true then
      s :: obsOf i rest (Prog.stepAt ps j s).1 (Prog.stepAt ps j s).2
    else obsOf i rest (Prog.stepAt ps j s).1 (Prog.stepAt ps j s).2

/-- `cur` is the state left by the request's previous transaction (or the start state); every
observed state is `T`-related to the state the request left before -/
def Chain (T : σ → σ → Prop) : σ → Prog σ α → List σ → Prop
  | _, _, [] => True
  | cur, .txn _ f, s :: ss => T cur s ∧ Chain T (f s).1 (f s).2 ss
  | _, .done _, _ :: _ => False

/-- the answer of request `i` is determined by the states it observed, and between two of its
transactions the state moved by environment steps only -/
theorem observe {Q T : σ → σ → Prop} (hrefl : ∀ s, T s s) (htrans : ∀ a b c, T a b → Q b c → T a c) (i : Nat) :
    ∀ (sched : List Nat) (s cur : σ) (ps : List (Prog σ α)) (p : Prog σ α), PoolAll Q ps → T cur s →
      ps[i]? = some p →
      (Prog.runSched sched s ps).2[i]? = some (feed p (obsOf i sched s ps)) ∧ Chain T cur p (obsOf i sched s ps)
  | [], s, cur, ps, p, _, _, hi => by
    refine ⟨?_, trivial⟩
    show ps[i]? = some (feed p [])
    rw [hi]; cases p <;> rfl
  | j :: rest, s, cur, ps, p, hps, ht, hi => by
    rw [runSched_cons]
    rcases stepAt_cases ps j s with ⟨e, hno⟩ | ⟨l, f, hj, e⟩
    · have hcond : ¬ (j = i ∧ ((ps[i]?).bind Prog.next?).isSome = true) := by
        rintro ⟨rfl, h⟩
        rw [hi] at h
        cases p with
        | done a => simp [Prog.next?] at h
        | txn l f => exact hno l f hi
      have : obsOf i (j :: rest) s ps = obsOf i rest s ps := by
        show (if _ then _ else _) = _
        rw [if_neg hcond, e]
      rw [this, e]
      exact observe hrefl htrans i rest s cur ps p hps ht hi
    · have hq := (hps _ (List.mem_of_getElem? hj)).step s
      have hjlt : j < ps.length := (List.getElem?_eq_some_iff.mp hj).1
      have hps' : PoolAll Q (ps.set j (f s).2) := hps.set j hq.2
      by_cases hij : j = i
      · subst hij
        have hp : p = .txn l f := Option.some.inj (hi.symm.trans hj)
        subst hp
        have : obsOf j (j :: rest) s ps = s :: obsOf j rest (f s).1 (ps.set j (f s).2) := by
          show (if _ then _ else _) = _
          rw [if_pos ⟨rfl, by rw [hj]; rfl⟩, e]
        rw [this, e]
        have ih := observe hrefl htrans j rest (f s).1 (f s).1 (ps.set j (f s).2) (f s).2 hps' (hrefl _)
          (List.getElem?_set_self hjlt)
        exact ⟨ih.1, ht, ih.2⟩
      · have : obsOf i (j :: rest) s ps = obsOf i rest (f s).1 (ps.set j (f s).2) := by
          show (if _ then _ else _) = _
          rw [if_neg (fun h => hij h.1), e]
        rw [this, e]
        exact observe hrefl htrans i rest (f s).1 cur (ps.set j (f s).2) p hps' (htrans _ _ _ ht hq.1)
          (by rw [List.getElem?_set_ne hij]; exact hi)

/-- every observed state is the state of the run at a step of request `i` -/
theorem obsOf_mem (i : Nat) : ∀ (sched : List Nat) (s : σ) (ps : List (Prog σ α)) (o : σ),
    o ∈ obsOf i sched s ps → ∃ pre post, sched = pre ++ i :: post ∧ o = (Prog.runSched pre s ps).1
  | [], _, _, _, h => by cases h
  | j :: rest, s, ps, o, h => by
    have hrec : o ∈ obsOf i rest (Prog.stepAt ps j s).1 (Prog.stepAt ps j s).2 →
        ∃ pre post, j :: rest = pre ++ i :: post ∧ o = (Prog.runSched pre s ps).1 := by
      intro h'
      obtain ⟨pre, post, h1, h2⟩ := obsOf_mem i rest _ _ o h'
      exact ⟨j :: pre, post, by rw [h1]; rfl, h2⟩
    unfold obsOf at h
    split at h
    · rename_i hc
      rcases List.mem_cons.mp h with h' | h'
      · exact ⟨[], rest, by rw [hc.1]; rfl, h'⟩
      · exact hrec h'
    · exact hrec h

end Placement.Sched

namespace Placement.Sched
open Placement
variable {σ α : Type}

/-! ### requests that can no longer succeed -/

/-- on states satisfying `D` every transaction of the program leaves the state unchanged and the
answer satisfies `A` -/
inductive Inert (D : σ → Prop) (A : α → Prop) : Prog σ α → Prop
  | done (a : α) : A a → Inert D A (.done a)
  | txn (l : Lbl) (f : σ → σ × Prog σ α) : (∀ s, D s → (f s).1 = s) → (∀ s, D s → Inert D A (f s).2) →
      Inert D A (.txn l f)

theorem Inert.step {D : σ → Prop} {A : α → Prop} {l : Lbl} {f : σ → σ × Prog σ α} (h : Inert D A (.txn l f))
    {s : σ} (hd : D s) : (f s).1 = s ∧ Inert D A (f s).2 := by
  cases h with
  | txn _ _ h1 h2 => exact ⟨h1 s hd, h2 s hd⟩

theorem Inert.answer {D : σ → Prop} {A : α → Prop} {a : α} (h : Inert D A (.done a)) : A a := by
  cases h with
  | done _ h => exact h

theorem inert_inv {Q : σ → σ → Prop} {D : σ → Prop} {A : α → Prop} (hD : ∀ s s', Q s s' → D s → D s') (i : Nat)
    (sched : List Nat) (s : σ) (ps : List (Prog σ α)) (hps : PoolAll Q ps) (hd : D s)
    (hi : ∀ p, ps[i]? = some p → Inert D A p) :
    PoolAll Q (Prog.runSched sched s ps).2 ∧ D (Prog.runSched sched s ps).1 ∧
    ∀ p, (Prog.runSched sched s ps).2[i]? = some p → Inert D A p := by
  refine runSched_inv (fun s ps => PoolAll Q ps ∧ D s ∧ ∀ p, ps[i]? = some p → Inert D A p) ?_ sched s ps ⟨hps, hd, hi⟩
  intro s ps j ⟨hps, hd, hi⟩
  rcases stepAt_cases ps j s with ⟨e, -⟩ | ⟨l, f, hj, e⟩
  · rw [e]; exact ⟨hps, hd, hi⟩
  · rw [e]
    have hq := (hps _ (List.mem_of_getElem? hj)).step s
    have hjlt : j < ps.length := (List.getElem?_eq_some_iff.mp hj).1
    refine ⟨hps.set j hq.2, hD _ _ hq.1 hd, ?_⟩
    intro p hp
    show Inert D A p
    by_cases hji : j = i
    · subst hji
      rw [List.getElem?_set_self hjlt] at hp
      cases hp
      exact ((hi _ hj).step hd).2
    · rw [List.getElem?_set_ne hji] at hp
      exact hi p hp

/-- **a request that can no longer succeed**: from a state satisfying the stable condition `D`, under
every schedule, its answer satisfies `A` and none of its steps changes the state -/
theorem inert_runSched {Q : σ → σ → Prop} {D : σ → Prop} {A : α → Prop} (hD : ∀ s s', Q s s' → D s → D s')
    (i : Nat) (sched : List Nat) (s : σ) (ps : List (Prog σ α)) (hps : PoolAll Q ps) (hd : D s)
    (hi : ∀ p, ps[i]? = some p → Inert D A p) :
    (∀ a, (Prog.runSched sched s ps).2[i]? = some (.done a) → A a) ∧
    (∀ pre post, sched = pre ++ i :: post →
      (Prog.runSched (pre ++ [i]) s ps).1 = (Prog.runSched pre s ps).1) := by
  constructor
  · intro a ha
    exact ((inert_inv hD i sched s ps hps hd hi).2.2 _ ha).answer
  · intro pre post _
    obtain ⟨-, hd', hi'⟩ := inert_inv hD i pre s ps hps hd hi
    rw [runSched_append]
    show (Prog.stepAt _ i _).1 = _
    rcases stepAt_cases (Prog.runSched pre s ps).2 i (Prog.runSched pre s ps).1 with ⟨e, -⟩ | ⟨l, f, hj, e⟩
    · rw [e]
    · rw [e]; exact ((hi' _ hj).step hd').1

/-- a request that has not been scheduled yet is still in its initial stage -/
theorem runSched_untouched (i : Nat) : ∀ (pre : List Nat) (s : σ) (ps : List (Prog σ α)), i ∉ pre →
    (Prog.runSched pre s ps).2[i]? = ps[i]?
  | [], _, _, _ => rfl
  | j :: rest, s, ps, h => by
    rw [runSched_cons, runSched_untouched i rest _ _ (fun h' => h (List.mem_cons_of_mem _ h'))]
    rcases stepAt_cases ps j s with ⟨e, -⟩ | ⟨l, f, hj, e⟩
    · rw [e]
    · rw [e]; exact List.getElem?_set_ne (fun e' : j = i => h (by rw [e']; exact List.mem_cons_self))

/-! ### two-stage requests: one read, one write -/

/-- a request that reads once (state unchanged) and then runs one write transaction: an accepted
answer means exactly two observed states, related by the environment relation -/
theorem chain_two_stage {T : σ → σ → Prop} {ok : α → Prop} {l1 : Lbl} {f1 : σ → σ × Prog σ α}
    (h1 : ∀ s, (f1 s).1 = s ∧ ((∃ r, (f1 s).2 = .done r ∧ ¬ ok r) ∨
        ∃ l2 f2, (f1 s).2 = .txn l2 f2 ∧ ∀ s2, ∃ r, (f2 s2).2 = .done r))
    {cur : σ} {obs : List σ} {a : α} (hc : Chain T cur (.txn l1 f1) obs)
    (hf : feed (.txn l1 f1) obs = .done a) (hok : ok a) :
    ∃ s1 s2 l2 f2, obs = [s1, s2] ∧ T cur s1 ∧ (f1 s1).2 = .txn l2 f2 ∧ T s1 s2 ∧ (f2 s2).2 = .done a := by
  cases obs with
  | nil => cases hf
  | cons s1 rest =>
    obtain ⟨ht1, hc1⟩ := hc
    have hf1 : feed (f1 s1).2 rest = .done a := hf
    obtain ⟨hs1, hcase⟩ := h1 s1
    rcases hcase with ⟨r, hr, hnok⟩ | ⟨l2, f2, hq, hfin⟩
    · rw [hr] at hf1
      have : r = a := by cases rest <;> (simp only [feed] at hf1; cases hf1; rfl)
      exact absurd (this ▸ hok) hnok
    · rw [hq] at hf1 hc1
      cases rest with
      | nil => cases hf1
      | cons s2 rest2 =>
        obtain ⟨ht2, hc2⟩ := hc1
        have hf2 : feed (f2 s2).2 rest2 = .done a := hf1
        obtain ⟨r, hr⟩ := hfin s2
        rw [hr] at hf2 hc2
        cases rest2 with
        | cons _ _ => exact absurd hc2 (by simp [Chain])
        | nil =>
          have : r = a := by simp only [feed] at hf2; cases hf2; rfl
          rw [hs1] at ht2
          exact ⟨s1, s2, l2, f2, rfl, ht1, hq, ht2, this ▸ hr⟩

end Placement.Sched

namespace Placement.Sched
open Placement
variable {σ α : Type}

/-! ### at most one effective writer -/

/-- every transaction of the program, on states satisfying `W`, is a commit against the guard `C`
or leaves the state unchanged -/
inductive CoQ (W : σ → Prop) (C : σ → Prop) (B : σ → σ → Prop) : Prog σ α → Prop
  | done (a : α) : CoQ W C B (.done a)
  | txn (l : Lbl) (f : σ → σ × Prog σ α) : (∀ s, W s → ¬ (C s ∧ B s (f s).1) → (f s).1 = s) →
      (∀ s, W s → CoQ W C B (f s).2) → CoQ W C B (.txn l f)

theorem CoQ.step {W C : σ → Prop} {B : σ → σ → Prop} {l : Lbl} {f : σ → σ × Prog σ α}
    (h : CoQ W C B (.txn l f)) {s : σ} (hw : W s) :
    (¬ (C s ∧ B s (f s).1) → (f s).1 = s) ∧ CoQ W C B (f s).2 := by
  cases h with
  | txn _ _ h1 h2 => exact ⟨h1 s hw, h2 s hw⟩

/-- every step of a request of `S` other than `k` leaves the state unchanged -/
def QuietFor (S : Nat → Prop) (k : Option Nat) : List Nat → σ → List (Prog σ α) → Prop
  | [], _, _ => True
  | j :: rest, s, ps => (S j → some j ≠ k → (Prog.stepAt ps j s).1 = s) ∧
                        QuietFor S k rest (Prog.stepAt ps j s).1 (Prog.stepAt ps j s).2

theorem quietFor_split {S : Nat → Prop} {k : Option Nat} : ∀ (pre : List Nat) (j : Nat) (post : List Nat) (s : σ)
    (ps : List (Prog σ α)), QuietFor S k (pre ++ j :: post) s ps → S j → some j ≠ k →
    (Prog.runSched (pre ++ [j]) s ps).1 = (Prog.runSched pre s ps).1
  | [], _, _, _, _, h, hs, hk => h.1 hs hk
  | _ :: pre, j, post, _, _, h, hs, hk => quietFor_split pre j post _ _ h.2 hs hk

section
variable {Q : σ → σ → Prop} {W D C : σ → Prop} {B : σ → σ → Prop} (S : Nat → Prop)

theorem coq_pool_step (hW : ∀ s s', Q s s' → W s → W s') {s : σ} {ps : List (Prog σ α)} (hps : PoolAll Q ps)
    (hw : W s) (hS : ∀ i, S i → ∀ p, ps[i]? = some p → CoQ W C B p) (j : Nat) :
    PoolAll Q (Prog.stepAt ps j s).2 ∧ W (Prog.stepAt ps j s).1 ∧
    (∀ i, S i → ∀ p, (Prog.stepAt ps j s).2[i]? = some p → CoQ W C B p) := by
  rcases stepAt_cases ps j s with ⟨e, -⟩ | ⟨l, f, hj, e⟩
  · rw [e]; exact ⟨hps, hw, hS⟩
  · rw [e]
    have hq := (hps _ (List.mem_of_getElem? hj)).step s
    have hjlt : j < ps.length := (List.getElem?_eq_some_iff.mp hj).1
    refine ⟨hps.set j hq.2, hW _ _ hq.1 hw, ?_⟩
    intro i hi p hp
    show CoQ W C B p
    by_cases hji : j = i
    · subst hji
      rw [List.getElem?_set_self hjlt] at hp
      cases hp
      exact ((hS j hi _ hj).step hw).2
    · rw [List.getElem?_set_ne hji] at hp
      exact hS i hi p hp

theorem quiet_after_commit (hW : ∀ s s', Q s s' → W s → W s') (hD : ∀ s s', Q s s' → W s → D s → D s')
    (hCD : ∀ s, W s → C s → ¬ D s) (k : Option Nat) :
    ∀ (sched : List Nat) (s : σ) (ps : List (Prog σ α)), PoolAll Q ps → W s → D s →
      (∀ i, S i → ∀ p, ps[i]? = some p → CoQ W C B p) → QuietFor S k sched s ps
  | [], _, _, _, _, _, _ => trivial
  | j :: rest, s, ps, hps, hw, hd, hS => by
    obtain ⟨h1, h2, h3⟩ := coq_pool_step S hW hps hw hS j
    have hd' : D (Prog.stepAt ps j s).1 := by
      rcases (hps.stepAt j s).2 with e | q
      · rw [e]; exact hd
      · exact hD _ _ q hw hd
    refine ⟨fun hj _ => ?_, quiet_after_commit hW hD hCD k rest _ _ h1 h2 hd' h3⟩
    rcases stepAt_cases ps j s with ⟨e, -⟩ | ⟨l, f, hjj, e⟩
    · rw [e]
    · rw [e]
      exact ((hS j hj _ hjj).step hw).1 (fun hc => hCD s hw hc.1 hd)

/-- **at most one effective writer**: of the requests `S`, each of whose transactions is a commit
against the guard or leaves the state unchanged, all but at most one (`k`) leave the state unchanged
in every one of their steps, provided a commit makes the guard unsatisfiable for good -/
theorem at_most_one_effective (hW : ∀ s s', Q s s' → W s → W s') (hD : ∀ s s', Q s s' → W s → D s → D s')
    (hCD : ∀ s, W s → C s → ¬ D s) (hBD : ∀ s s', W s → B s s' → D s') :
    ∀ (sched : List Nat) (s : σ) (ps : List (Prog σ α)), PoolAll Q ps → W s →
      (∀ i, S i → ∀ p, ps[i]? = some p → CoQ W C B p) → ∃ k, QuietFor S k sched s ps
  | [], _, _, _, _, _ => ⟨none, trivial⟩
  | j :: rest, s, ps, hps, hw, hS => by
    obtain ⟨h1, h2, h3⟩ := coq_pool_step S hW hps hw hS j
    rcases stepAt_cases ps j s with ⟨e, -⟩ | ⟨l, f, hjj, e⟩
    · obtain ⟨k, hk⟩ := at_most_one_effective hW hD hCD hBD rest _ _ h1 h2 h3
      exact ⟨k, fun _ _ => by rw [e], hk⟩
    · by_cases hcom : S j ∧ C s ∧ B s (f s).1
      · refine ⟨some j, fun _ hne => absurd rfl hne, ?_⟩
        refine quiet_after_commit S hW hD hCD (some j) rest _ _ h1 h2 ?_ h3
        rw [e]; exact hBD _ _ hw hcom.2.2
      · obtain ⟨k, hk⟩ := at_most_one_effective hW hD hCD hBD rest _ _ h1 h2 h3
        refine ⟨k, fun hj _ => ?_, hk⟩
        rw [e]
        exact ((hS j hj _ hjj).step hw).1 (fun hc => hcom ⟨hj, hc⟩)

end

end Placement.Sched
