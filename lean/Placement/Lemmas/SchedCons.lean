import Placement.Lemmas.SchedOcc
import Placement.Lemmas.SchedEvoTxn
import Placement.Lemmas.GenBump
/-
  Consumer generations, object layer: what a successful `replace_all` / reshape (with the partial
  effects and retries of `Model/Txn.lean`) says about the consumer rows named by the allocation
  objects: every `(consId, consGen)` was the consumer's generation in the state the transaction ran
  on (compare-and-swap of `Consumer.increment_generation`), and the consumer is gone or one
  generation further afterwards.
-/
namespace Placement.Sched
open Placement Placement.Gens Placement.Hier
variable {R : Type}
set_option linter.unusedSectionVars false

/-- consumer `c` exists with generation `g` -/
def ConsAt (c g : Nat) (s : DB R) : Prop := ∃ r ∈ s.consumers, r.id = c ∧ r.gen = g

/-- consumer `c` is gone or beyond generation `g` -/
def ConsPast (c g : Nat) (s : DB R) : Prop := ∀ r ∈ s.consumers, r.id = c → g < r.gen

theorem consAt_not_past {c g : Nat} {s : DB R} (h : ConsAt c g s) : ¬ ConsPast c g s := by
  obtain ⟨r, hr, hid, hg⟩ := h
  intro hp
  have := hp r hr hid
  omega

theorem ConsPast.evoG {N : Nat → Prop} {c g : Nat} {s s' : DB R} (e : EvoG N s.gcore s'.gcore)
    (hc : c < s.nextCons) (h : ConsPast c g s) : ConsPast c g s' := by
  intro r' hr' hid
  rcases e.frame.cons r' hr' with hge | ⟨r, hr, hid', hle⟩
  · have : s.nextCons ≤ r'.id := hge
    omega
  · have := h r hr (hid'.trans hid)
    omega

theorem nextCons_evoG {N : Nat → Prop} {c : Nat} {s s' : DB R} (e : EvoG N s.gcore s'.gcore)
    (hc : c < s.nextCons) : c < s'.nextCons := by
  have : s.nextCons ≤ s'.nextCons := e.frame.nextCons
  omega

/-- the two states have the same (id, generation) pairs in the consumer table -/
def SameCG (a b : DB R) : Prop := ∀ c g, ConsAt c g a ↔ ConsAt c g b

theorem SameCG.refl (a : DB R) : SameCG a a := fun _ _ => Iff.rfl
theorem SameCG.trans {a b c : DB R} (h1 : SameCG a b) (h2 : SameCG b c) : SameCG a c :=
  fun x g => (h1 x g).trans (h2 x g)
theorem SameCG.of_eq {a b : DB R} (h : b.consumers = a.consumers) : SameCG a b := by
  intro c g; unfold ConsAt; rw [h]

theorem SameCG.of_map {a b : DB R} (f : ConsRow → ConsRow) (hf : ∀ c, (f c).id = c.id ∧ (f c).gen = c.gen)
    (h : b.consumers = a.consumers.map f) : SameCG a b := by
  intro c g
  unfold ConsAt
  rw [h]
  constructor
  · rintro ⟨r, hr, hid, hg⟩
    exact ⟨f r, List.mem_map.mpr ⟨r, hr, rfl⟩, (hf r).1.trans hid, (hf r).2.trans hg⟩
  · rintro ⟨r', hr', hid, hg⟩
    obtain ⟨r, hr, rfl⟩ := List.mem_map.mp hr'
    exact ⟨r, hr, (hf r).1.symm.trans hid, (hf r).2.symm.trans hg⟩

theorem updateConsumer_sameCG (db : DB R) (cons : ConsRow) (a : ReqAttr) : SameCG db (updateConsumer db cons a) := by
  obtain ⟨f, hf, hg⟩ := updateConsumer_spec db cons a
  exact SameCG.of_map f (fun c => ⟨(hf c).1, (hf c).2.1⟩) (congrArg GCore.consumers hg)

theorem updateConsumers_sameCG : ∀ (l : List (ConsumerReq × ConsRow × ReqAttr)) (db : DB R),
    SameCG db (updateConsumers db l)
  | [], db => SameCG.refl db
  | (_, cons, attr) :: rest, db =>
    (updateConsumer_sameCG db cons attr).trans (updateConsumers_sameCG rest _)

theorem incRpGen_consumers {db db' : DB R} {id gen : Nat} (h : incRpGen db id gen = .ok db') :
    db'.consumers = db.consumers := by
  obtain ⟨-, rfl⟩ := incRpGen_ok h; rfl

theorem incRpGensP_consumers : ∀ (l : List (Nat × Nat)) (db : DB R), (incRpGensP db l).1.consumers = db.consumers
  | [], _ => rfl
  | (id, gen) :: rest, db => by
    unfold incRpGensP
    split
    · rename_i db1 h1
      rw [incRpGensP_consumers rest db1, incRpGen_consumers h1]
    · rfl

theorem incRpGensP_nextCons : ∀ (l : List (Nat × Nat)) (db : DB R), (incRpGensP db l).1.nextCons = db.nextCons
  | [], _ => rfl
  | (id, gen) :: rest, db => by
    unfold incRpGensP
    split
    · rename_i db1 h1
      obtain ⟨-, rfl⟩ := incRpGen_ok h1
      rw [incRpGensP_nextCons rest]; rfl
    · rfl

/-! ### the consumer compare-and-swap loop -/

theorem firstByKey_subset : ∀ (l : List (Nat × Nat)) (p : Nat × Nat), p ∈ firstByKey l → p ∈ l
  | [], _, h => by simp [firstByKey] at h
  | (k, v) :: rest, p, h => by
    simp only [firstByKey, List.mem_cons, List.mem_filter] at h
    rcases h with h | ⟨h, -⟩
    · exact h ▸ List.mem_cons_self
    · exact List.mem_cons_of_mem _ (firstByKey_subset rest p h)

/-- a key all of whose entries carry the value `v` is listed with `v` -/
theorem firstByKey_mem_of_const {l : List (Nat × Nat)} {k v : Nat} (hk : k ∈ l.map (·.1))
    (hv : ∀ p ∈ l, p.1 = k → p.2 = v) : (k, v) ∈ firstByKey l := by
  obtain ⟨p, hp, hpk⟩ := List.mem_map.mp ((firstByKey_keys l k).mpr hk)
  have := hv p (firstByKey_subset l p hp) hpk
  obtain ⟨a, b⟩ := p
  simp only at hpk this
  subst hpk; subst this
  exact hp

theorem incConsGen_other {db db' : DB R} {id gen : Nat} (h : incConsGen db id gen = .ok db') (r : ConsRow)
    (hne : r.id ≠ id) : r ∈ db'.consumers ↔ r ∈ db.consumers := by
  obtain ⟨-, rfl⟩ := incConsGen_ok h
  simp only [List.mem_map]
  constructor
  · rintro ⟨c, hc, rfl⟩
    by_cases hid : c.id = id
    · simp [hid] at hne
    · simpa [hid] using hc
  · intro hr
    exact ⟨r, hr, by simp [hne]⟩

theorem incConsGensP_error : ∀ (l : List (Nat × Nat)) (db : DB R) (e : Exc),
    (incConsGensP db l).2 = some e → e = .concurrentUpdate
  | [], _, _, h => by simp [incConsGensP] at h
  | (id, gen) :: rest, db, e, h => by
    unfold incConsGensP at h
    split at h
    · exact incConsGensP_error rest _ e h
    · rename_i e' h'
      simp only [Option.some.injEq] at h
      subst h
      unfold incConsGen at h'
      split at h'
      · cases h'
      · cases h'; rfl

/-- all compare-and-swaps succeeded: each listed `(id, gen)` was a row of the table, and the row with
that id is one generation further afterwards -/
theorem incConsGensP_ok : ∀ (l : List (Nat × Nat)) (db : DB R), (incConsGensP db l).2 = none →
    (l.map (·.1)).Nodup → ∀ id gen, (id, gen) ∈ l →
      ConsAt id gen db ∧ ∀ r' ∈ (incConsGensP db l).1.consumers, r'.id = id → r'.gen = gen + 1
  | [], _, _, _, _, _, h => by cases h
  | (id0, gen0) :: rest, db, hok, hnd, id, gen, hm => by
    unfold incConsGensP at hok ⊢
    rw [List.map_cons, List.nodup_cons] at hnd
    split at hok
    · rename_i db1 h1
      rcases List.mem_cons.mp hm with heq | hm'
      · have e1 : id = id0 := congrArg Prod.fst heq
        have e2 : gen = gen0 := congrArg Prod.snd heq
        subst e1; subst e2
        obtain ⟨hex, hdb1⟩ := incConsGen_ok h1
        refine ⟨hex, ?_⟩
        -- the remaining keys differ from `id`: the row is not touched any more
        have hrest : ∀ (l : List (Nat × Nat)) (d : DB R), id ∉ l.map (·.1) →
            ∀ r' ∈ (incConsGensP d l).1.consumers, r'.id = id → r' ∈ d.consumers := by
          intro l
          induction l with
          | nil => intro d _ r' hr' _; exact hr'
          | cons p l ih =>
            obtain ⟨k, v⟩ := p
            intro d hnot r' hr' hid
            rw [List.map_cons, List.mem_cons, not_or] at hnot
            unfold incConsGensP at hr'
            split at hr'
            · rename_i d1 hd1
              have := ih d1 hnot.2 r' hr' hid
              exact (incConsGen_other hd1 r' (by rw [hid]; exact hnot.1)).mp this
            · exact hr'
        intro r' hr' hid
        have hmem := hrest rest db1 hnd.1 r' hr' hid
        rw [hdb1] at hmem
        simp only [List.mem_map] at hmem
        obtain ⟨c, -, rfl⟩ := hmem
        by_cases hc : c.id = id
        · simp [hc]
        · simp [hc] at hid
      · have hne : id ≠ id0 := fun e => hnd.1 (List.mem_map.mpr ⟨(id, gen), hm', e⟩)
        obtain ⟨⟨r, hr, hid, hg⟩, hpost⟩ := incConsGensP_ok rest db1 hok hnd.2 id gen hm'
        exact ⟨⟨r, (incConsGen_other h1 r (by rw [hid]; exact hne)).mp hr, hid, hg⟩, hpost⟩
    · cases hok

variable [CapOps R]

/-- the allocation objects name consumer `c` and carry generation `g` for it -/
def ObjsFor (c g : Nat) (objs : List AllocReq) : Prop :=
  (∃ o ∈ objs, o.consId = c) ∧ ∀ o ∈ objs, o.consId = c → o.consGen = g

theorem objsFor_key {c g : Nat} {objs : List AllocReq} (h : ObjsFor c g objs) :
    (c, g) ∈ firstByKey (objs.map (fun a => (a.consId, a.consGen))) := by
  obtain ⟨⟨o, ho, hoc⟩, hall⟩ := h
  apply firstByKey_mem_of_const
  · exact List.mem_map.mpr ⟨(o.consId, o.consGen), List.mem_map.mpr ⟨o, ho, rfl⟩, hoc⟩
  · intro p hp hk
    obtain ⟨o', ho', rfl⟩ := List.mem_map.mp hp
    exact hall o' ho' hk

/-- one attempt of `_set_allocations`: a failure on a provider generation leaves the consumer table
alone; success means every consumer compare-and-swap succeeded -/
theorem setAllocationsP_cons (db : DB R) (objs : List AllocReq) (hI : Ids db.gcore) {c g : Nat}
    (hc : c < db.nextCons) (hobjs : ObjsFor c g objs) :
    ((setAllocationsP db objs).2 = none → ConsAt c g db ∧ ConsPast c g (setAllocationsP db objs).1) ∧
    ((setAllocationsP db objs).2 = some .rpConcurrentUpdate → (setAllocationsP db objs).1.consumers = db.consumers) := by
  unfold setAllocationsP
  dsimp only
  split
  · exact ⟨(fun h => by cases h), fun _ => rfl⟩
  · exact ⟨(fun h => by cases h), fun _ => rfl⟩
  · rename_i res _ _
    generalize hdb2 : ({ db with allocs := _ } : DB R) = db2
    have hg2 : db2.gcore = db.gcore := by subst hdb2; rfl
    have hc2 : db2.consumers = db.consumers := congrArg GCore.consumers hg2
    have hcons3 := incRpGensP_consumers (firstByKey (objs.map (fun a => (a.rpId, a.rpGen)))) db2
    have hev3 := incRpGensP_evo (N := fun _ => True) (firstByKey (objs.map (fun a => (a.rpId, a.rpGen)))) db2 (hg2 ▸ hI)
    split
    · rename_i db3 e h3
      rw [h3] at hcons3
      exact ⟨(fun h => by cases h), fun _ => hcons3.trans hc2⟩
    · rename_i db3 h3
      rw [h3] at hcons3 hev3
      have hI3 : Ids db3.gcore := hev3.ids
      split
      · rename_i db4 e h4
        refine ⟨(fun h => by cases h), fun h => ?_⟩
        have := incConsGensP_error _ db3 e (by rw [h4])
        simp only [Option.some.injEq] at h
        rw [this] at h; cases h
      · rename_i db4 h4
        refine ⟨fun _ => ?_, fun h => by cases h⟩
        have hok := incConsGensP_ok (firstByKey (objs.map (fun a => (a.consId, a.consGen)))) db3
          (by rw [h4]) (firstByKey_nodup _) c g (objsFor_key hobjs)
        rw [h4] at hok
        obtain ⟨⟨r, hr, hid, hgen⟩, hpost⟩ := hok
        refine ⟨⟨r, hc2 ▸ hcons3 ▸ hr, hid, hgen⟩, ?_⟩
        intro r' hr' hid'
        have hr4 : r' ∈ db4.consumers := (List.mem_filter.mp hr').1
        have := hpost r' hr4 hid'
        omega

theorem refreshRps_objsFor {committed : DB R} : ∀ {objs objs' : List AllocReq} {c g : Nat},
    refreshRps committed objs = .ok objs' → ObjsFor c g objs → ObjsFor c g objs'
  | [], objs', c, g, h, hf => by
    simp only [refreshRps, Except.ok.injEq] at h; subst h; exact hf
  | a :: as, objs', c, g, h, hf => by
    unfold refreshRps at h
    split at h
    · cases h
    · rename_i rp hrp
      cases hrec : refreshRps committed as with
      | error e => rw [hrec] at h; cases h
      | ok as' =>
        rw [hrec] at h
        simp only [Except.map, Except.ok.injEq] at h
        subst h
        -- componentwise: the tail keeps consumer ids and generations
        have htail : ∀ {l l' : List AllocReq}, refreshRps committed l = .ok l' →
            l'.map (fun o => (o.consId, o.consGen)) = l.map (fun o => (o.consId, o.consGen)) := by
          intro l
          induction l with
          | nil => intro l' h; simp only [refreshRps, Except.ok.injEq] at h; subst h; rfl
          | cons b bs ih =>
            intro l' h
            unfold refreshRps at h
            split at h
            · cases h
            · cases hr : refreshRps committed bs with
              | error e => rw [hr] at h; cases h
              | ok bs' =>
                rw [hr] at h
                simp only [Except.map, Except.ok.injEq] at h
                subst h
                simp only [List.map_cons, ih hr]
        have hmap := htail hrec
        obtain ⟨⟨o, ho, hoc⟩, hall⟩ := hf
        have key : ∀ (l l' : List AllocReq), l'.map (fun o => (o.consId, o.consGen)) = l.map (fun o => (o.consId, o.consGen)) →
            ((∃ o ∈ l, o.consId = c) ↔ (∃ o ∈ l', o.consId = c)) ∧
            ((∀ o ∈ l, o.consId = c → o.consGen = g) ↔ (∀ o ∈ l', o.consId = c → o.consGen = g)) := by
          intro l l' hm
          have hmem : ∀ x y : Nat, (∃ o ∈ l, o.consId = x ∧ o.consGen = y) ↔ (∃ o ∈ l', o.consId = x ∧ o.consGen = y) := by
            intro x y
            have h1 : (∃ o ∈ l, o.consId = x ∧ o.consGen = y) ↔ (x, y) ∈ l.map (fun o => (o.consId, o.consGen)) := by
              simp only [List.mem_map, Prod.mk.injEq]
            have h2 : (∃ o ∈ l', o.consId = x ∧ o.consGen = y) ↔ (x, y) ∈ l'.map (fun o => (o.consId, o.consGen)) := by
              simp only [List.mem_map, Prod.mk.injEq]
            rw [h1, h2, hm]
          constructor
          · constructor
            · rintro ⟨o, ho, hc⟩
              obtain ⟨o', ho', h1, -⟩ := (hmem c o.consGen).mp ⟨o, ho, hc, rfl⟩
              exact ⟨o', ho', h1⟩
            · rintro ⟨o, ho, hc⟩
              obtain ⟨o', ho', h1, -⟩ := (hmem c o.consGen).mpr ⟨o, ho, hc, rfl⟩
              exact ⟨o', ho', h1⟩
          · constructor
            · intro h o ho hc
              obtain ⟨o', ho', h1, h2⟩ := (hmem c o.consGen).mpr ⟨o, ho, hc, rfl⟩
              rw [← h2]; exact h o' ho' h1
            · intro h o ho hc
              obtain ⟨o', ho', h1, h2⟩ := (hmem c o.consGen).mp ⟨o, ho, hc, rfl⟩
              rw [← h2]; exact h o' ho' h1
        have := key (a :: as) ({ a with rpGen := rp.gen } :: as') (by simp only [List.map_cons, hmap])
        exact ⟨this.1.mp ⟨o, ho, hoc⟩, this.2.mp hall⟩

/-- `replace_all` succeeded: the consumer compare-and-swap on `(c, g)` succeeded against the consumer
table the transaction started with -/
theorem replaceAll_cons (committed : DB R) {c g : Nat} : ∀ (n : Nat) (db : DB R) (objs : List AllocReq) {db' : DB R},
    replaceAll committed n db objs = .ok db' → Ids db.gcore → c < db.nextCons → ObjsFor c g objs →
    ConsAt c g db ∧ ConsPast c g db'
  | 0, _, _, _, h, _, _, _ => by simp [replaceAll] at h
  | n + 1, db, objs, db', h, hI, hc, hobjs => by
    have hs := setAllocationsP_cons db objs hI hc hobjs
    have hev := setAllocationsP_evo (N := fun _ => True) db objs hI
    unfold replaceAll at h
    split at h
    · rename_i db1 h1
      rw [h1] at hs
      simp only [Except.ok.injEq] at h
      subst h
      exact hs.1 rfl
    · rename_i db1 h1
      rw [h1] at hs hev
      split at h
      · cases h
      · rename_i objs' hr
        have hcons : db1.consumers = db.consumers := hs.2 rfl
        obtain ⟨h1', h2'⟩ := replaceAll_cons committed n db1 objs' h hev.ids (nextCons_evoG hev hc)
          (refreshRps_objsFor hr hobjs)
        exact ⟨(SameCG.of_eq hcons c g).mpr h1', h2'⟩
    · cases h

theorem cas_sameCG {db db0 db' : DB R} {rp gen : Nat} (hg : db0.gcore = db.gcore)
    (h : incRpGen db0 rp gen = .ok db') : SameCG db db' :=
  SameCG.of_eq ((incRpGen_consumers h).trans (congrArg GCore.consumers hg))

theorem reshapeInterim_sameCG : ∀ (l : List (Nat × List (InvSpec R))) (gens : List (Nat × Nat))
    {db db' : DB R} {gens' : List (Nat × Nat)}, reshapeInterim db l gens = .ok (db', gens') → SameCG db db'
  | [], gens, db, db', gens', h => by
    simp only [reshapeInterim, Except.ok.injEq, Prod.mk.injEq] at h
    rw [← h.1]; exact SameCG.refl db
  | (rp, newInvs) :: rest, gens, db, db', gens', h => by
    rw [reshapeInterim] at h
    split at h
    · exact reshapeInterim_sameCG rest gens h
    · dsimp only at h
      split at h
      · cases h
      · rename_i db1 h1
        obtain ⟨db0, hg, hc⟩ := setInventory_ok h1
        exact (cas_sameCG hg hc).trans (reshapeInterim_sameCG rest _ h)

theorem reshapeTxnR_cons {db db' : DB R} {invs : List (Nat × Nat × List (InvSpec R))} {objs : List AllocReq}
    {c g : Nat} (h : reshapeTxnR db invs objs = .ok db') (hI : Ids db.gcore) (hc : c < db.nextCons)
    (hobjs : ObjsFor c g objs) : ConsAt c g db ∧ ConsPast c g db' := by
  unfold reshapeTxnR at h
  simp only [bind, Except.bind] at h
  split at h
  · cases h
  · rename_i v h1
    obtain ⟨db1, gens1⟩ := v
    dsimp only at h
    split at h
    · cases h
    · rename_i db2 h2
      have f1 := reshapeInterim_evo (N := fun _ => True) _ _ h1 hI
      have s1 := reshapeInterim_sameCG _ _ h1
      have hobjs' : ObjsFor c g (objs.map (fun a => { a with rpGen := knownGen gens1 a.rpId a.rpGen })) := by
        obtain ⟨⟨o, ho, hoc⟩, hall⟩ := hobjs
        refine ⟨⟨_, List.mem_map.mpr ⟨o, ho, rfl⟩, hoc⟩, ?_⟩
        intro o' ho' hc'
        obtain ⟨o0, ho0, rfl⟩ := List.mem_map.mp ho'
        exact hall o0 ho0 hc'
      obtain ⟨h3, h4⟩ := replaceAll_cons _ _ _ _ h2 f1.ids (nextCons_evoG f1 hc) hobjs'
      have f2 := replaceAll_evo (N := fun _ => True) _ _ _ _ h2 f1.ids
      have f3 := reshapeFinal_evo (N := fun _ => True) _ _ h f2.ids
      exact ⟨(s1 c g).mpr h3, h4.evoG f3 (nextCons_evoG f2 (nextCons_evoG f1 hc))⟩

end Placement.Sched
