import Placement.Lemmas.SchedEvo
import Placement.Lemmas.AllocHandlers
/-
  `replace_all` with its partial effects and server-side retries (`Model/Txn.lean`): when it
  succeeds, its last attempt IS a successful `_set_allocations` (`setAllocations` of
  `Model/Objects.lean`) of the same allocation objects up to the refreshed provider generations, on a
  state with the same inventories and classes: the capacity and unit checks passed against the state
  of the write transaction itself, whatever the request read before (C01's `setAllocations_safe`
  applies at commit).
-/
namespace Placement.Sched
open Placement
variable {R : Type}
set_option linter.unusedSectionVars false

theorem incRpGensP_ok_eq : ∀ (l : List (Nat × Nat)) (db db' : DB R), incRpGensP db l = (db', none) →
    incRpGens db l = .ok db'
  | [], db, db', h => by simp only [incRpGensP, Prod.mk.injEq] at h; simp [incRpGens, h.1]
  | (id, gen) :: rest, db, db', h => by
    unfold incRpGensP at h
    simp only [incRpGens, bind, Except.bind]
    split at h
    · rename_i db1 h1
      rw [h1]; exact incRpGensP_ok_eq rest db1 db' h
    · simp at h

theorem incConsGensP_ok_eq : ∀ (l : List (Nat × Nat)) (db db' : DB R), incConsGensP db l = (db', none) →
    incConsGens db l = .ok db'
  | [], db, db', h => by simp only [incConsGensP, Prod.mk.injEq] at h; simp [incConsGens, h.1]
  | (id, gen) :: rest, db, db', h => by
    unfold incConsGensP at h
    simp only [incConsGens, bind, Except.bind]
    split at h
    · rename_i db1 h1
      rw [h1]; exact incConsGensP_ok_eq rest db1 db' h
    · simp at h

theorem incRpGensP_static : ∀ (l : List (Nat × Nat)) (db : DB R),
    (incRpGensP db l).1.invs = db.invs ∧ (incRpGensP db l).1.rcs = db.rcs
  | [], _ => ⟨rfl, rfl⟩
  | (id, gen) :: rest, db => by
    unfold incRpGensP
    split
    · rename_i db1 h1
      have := incRpGensP_static rest db1
      unfold incRpGen at h1
      split at h1
      · cases h1; exact this
      · cases h1
    · exact ⟨rfl, rfl⟩

theorem incConsGensP_static : ∀ (l : List (Nat × Nat)) (db : DB R),
    (incConsGensP db l).1.invs = db.invs ∧ (incConsGensP db l).1.rcs = db.rcs
  | [], _ => ⟨rfl, rfl⟩
  | (id, gen) :: rest, db => by
    unfold incConsGensP
    split
    · rename_i db1 h1
      have := incConsGensP_static rest db1
      unfold incConsGen at h1
      split at h1
      · cases h1; exact this
      · cases h1
    · exact ⟨rfl, rfl⟩

variable [CapOps R]

/-- an attempt never touches inventories or classes -/
theorem setAllocationsP_static (db : DB R) (objs : List AllocReq) :
    (setAllocationsP db objs).1.invs = db.invs ∧ (setAllocationsP db objs).1.rcs = db.rcs := by
  unfold setAllocationsP
  dsimp only
  split
  · exact ⟨rfl, rfl⟩
  · exact ⟨rfl, rfl⟩
  · generalize hdb2 : ({ db with allocs := _ } : DB R) = db2
    have h2 : db2.invs = db.invs ∧ db2.rcs = db.rcs := by subst hdb2; exact ⟨rfl, rfl⟩
    have h3 := incRpGensP_static (firstByKey (objs.map (fun a => (a.rpId, a.rpGen)))) db2
    split
    · rename_i db3 e he
      rw [he] at h3; exact ⟨h3.1.trans h2.1, h3.2.trans h2.2⟩
    · rename_i db3 he
      rw [he] at h3
      have h4 := incConsGensP_static (firstByKey (objs.map (fun a => (a.consId, a.consGen)))) db3
      split
      · rename_i db4 e he4
        rw [he4] at h4; exact ⟨h4.1.trans (h3.1.trans h2.1), h4.2.trans (h3.2.trans h2.2)⟩
      · rename_i db4 he4
        rw [he4] at h4
        exact ⟨h4.1.trans (h3.1.trans h2.1), h4.2.trans (h3.2.trans h2.2)⟩

/-- a successful attempt is a successful `_set_allocations` -/
theorem setAllocationsP_ok_eq (db : DB R) (objs : List AllocReq) (h : (setAllocationsP db objs).2 = none) :
    setAllocations db objs = .ok (setAllocationsP db objs).1 := by
  unfold setAllocationsP at h ⊢
  unfold setAllocations
  dsimp only at h ⊢
  simp only [bind, Except.bind, pure, Except.pure]
  split at h
  · cases h
  · cases h
  · rename_i u res hcap hres
    rw [hcap, hres]
    dsimp only
    split at h
    · cases h
    · rename_i db3 h3
      rw [incRpGensP_ok_eq _ _ _ h3]
      dsimp only
      split at h
      · cases h
      · rename_i db4 h4
        rw [incConsGensP_ok_eq _ _ _ h4]

/-- the parts of an allocation object that a refresh leaves alone -/
def objCore (a : AllocReq) : Nat × Nat × Nat × Nat × Nat × Int :=
  (a.rpId, a.rcName, a.consId, a.consUuid, a.consGen, a.used)

theorem refreshRps_core {committed : DB R} : ∀ {objs objs' : List AllocReq},
    refreshRps committed objs = .ok objs' → objs'.map objCore = objs.map objCore
  | [], objs', h => by simp only [refreshRps, Except.ok.injEq] at h; subst h; rfl
  | a :: as, objs', h => by
    unfold refreshRps at h
    split at h
    · cases h
    · cases hr : refreshRps committed as with
      | error e => rw [hr] at h; cases h
      | ok as' =>
        rw [hr] at h
        simp only [Except.map, Except.ok.injEq] at h
        subst h
        simp only [List.map_cons, refreshRps_core hr]
        rfl

/-- **`replace_all` succeeds only through a successful `_set_allocations`** of the same objects (up
to provider generations) on a state with the same inventories and classes -/
theorem replaceAll_ok_eq (committed : DB R) : ∀ (n : Nat) (db : DB R) (objs : List AllocReq) {db' : DB R},
    replaceAll committed n db objs = .ok db' →
    ∃ dbk objsk, setAllocations dbk objsk = .ok db' ∧ dbk.invs = db.invs ∧ dbk.rcs = db.rcs ∧
      objsk.map objCore = objs.map objCore
  | 0, _, _, _, h => by simp [replaceAll] at h
  | n + 1, db, objs, db', h => by
    have hst := setAllocationsP_static db objs
    unfold replaceAll at h
    split at h
    · rename_i db1 h1
      simp only [Except.ok.injEq] at h
      subst h
      have := setAllocationsP_ok_eq db objs (by rw [h1])
      rw [h1] at this
      exact ⟨db, objs, this, rfl, rfl, rfl⟩
    · rename_i db1 h1
      rw [h1] at hst
      split at h
      · cases h
      · rename_i objs' hr
        obtain ⟨dbk, objsk, h2, h3, h4, h5⟩ := replaceAll_ok_eq committed n db1 objs' h
        exact ⟨dbk, objsk, h2, h3.trans hst.1, h4.trans hst.2, h5.trans (refreshRps_core hr)⟩
    · cases h

/-- what C01's `setAllocations_safe` gives for the objects of a successful `replace_all`: every
positive amount fits its inventory row in the RESULTING state (units, and total usage by all
consumers within capacity) -/
theorem replaceAll_safe (committed : DB R) {n : Nat} {db db' : DB R} {objs : List AllocReq}
    (h : replaceAll committed n db objs = .ok db') (hnn : ∀ a ∈ objs, 0 ≤ a.used) (hu : InvKeysNodup db) :
    ∀ a ∈ objs, 0 < a.used → ∀ rc, db.rcId a.rcName = some rc →
      (∃ i ∈ db'.invs, i.rp = a.rpId ∧ i.rc = rc) ∧
      ∀ i ∈ db'.invs, i.rp = a.rpId → i.rc = rc → FitsRow i a.used (db'.usage a.rpId rc) := by
  obtain ⟨dbk, objsk, h2, h3, h4, h5⟩ := replaceAll_ok_eq committed n db objs h
  intro a ha hpos rc hrc
  -- the corresponding refreshed object
  have hmem : objCore a ∈ objsk.map objCore := by rw [h5]; exact List.mem_map.mpr ⟨a, ha, rfl⟩
  obtain ⟨a', ha', hcore⟩ := List.mem_map.mp hmem
  simp only [objCore, Prod.mk.injEq] at hcore
  obtain ⟨e1, e2, -, -, -, e6⟩ := hcore
  have hnn' : ∀ b ∈ objsk, 0 ≤ b.used := by
    intro b hb
    have : objCore b ∈ objs.map objCore := by rw [← h5]; exact List.mem_map.mpr ⟨b, hb, rfl⟩
    obtain ⟨b0, hb0, hc⟩ := List.mem_map.mp this
    simp only [objCore, Prod.mk.injEq] at hc
    rw [← hc.2.2.2.2.2]; exact hnn b0 hb0
  have hu' : InvKeysNodup dbk := by unfold InvKeysNodup; rw [h3]; exact hu
  have hrc' : dbk.rcId a'.rcName = some rc := by
    unfold DB.rcId; rw [h4, e2]; exact hrc
  have := setAllocations_safe_all h2 hnn' hu' a' ha' (by rw [e6]; exact hpos) rc hrc'
  rw [e1, e6] at this
  exact this

/-- the main write transaction of PUT /allocations/{c} and POST /allocations: a 2xx answer means
that every positive amount fits its inventory row in the state the transaction leaves - the checks
ran inside this transaction, on the usage committed by everybody else -/
theorem aMain_safe (ctx : ACtx R) (hk : ctx.kind ≠ .reshape) (objs : List AllocReq) (db : DB R)
    (hnn : ∀ a ∈ objs, 0 ≤ a.used) (hu : InvKeysNodup db) (hok : (aMain ctx objs db).2 = .done r204) :
    ∀ a ∈ objs, 0 < a.used → ∀ rc, db.rcId a.rcName = some rc →
      (∃ i ∈ (aMain ctx objs db).1.invs, i.rp = a.rpId ∧ i.rc = rc) ∧
      ∀ i ∈ (aMain ctx objs db).1.invs, i.rp = a.rpId → i.rc = rc →
        FitsRow i a.used ((aMain ctx objs db).1.usage a.rpId rc) := by
  unfold aMain at hok ⊢
  dsimp only at hok ⊢
  have hco := _root_.Placement.updateConsumers_frame db ctx.done
  split
  · rename_i db3 h
    split at h
    · rename_i hkind; exact absurd hkind hk
    · have hu2 : InvKeysNodup (updateConsumers db ctx.done) := by unfold InvKeysNodup; rw [hco.2.1]; exact hu
      intro a ha hpos rc hrc
      have hrc2 : (updateConsumers db ctx.done).rcId a.rcName = some rc := by
        unfold DB.rcId; rw [hco.2.2.2.1]; exact hrc
      exact replaceAll_safe db h hnn hu2 a ha hpos rc hrc2
  · rename_i e h
    rw [h] at hok
    dsimp only at hok
    exfalso
    unfold cleanupThen at hok
    split at hok
    · simp only [Prog.done.injEq] at hok
      unfold aErr at hok
      split at hok
      · rename_i hkind; exact hk hkind
      · revert hok; cases e <;> decide
    · cases hok

end Placement.Sched
