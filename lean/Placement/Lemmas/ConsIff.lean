import Placement.Lemmas.Wf
/-
  C12: `ConsIff` (a consumer record exists iff the consumer holds an allocation) is preserved by every
  request.  One lemma per handler; the allocation-writing handlers share `Insp.consIff_final`.
-/
namespace Placement.Wf
variable {R : Type}

theorem ConsIff.of_eq {db db' : DB R} (h : ConsIff db) (ec : db'.consumers = db.consumers)
    (ea : db'.allocs = db.allocs) : ConsIff db' := by
  intro u; rw [ec, ea]; exact h u

/-! ### frames of the object layer: consumers and allocations untouched -/

theorem incRpGen_ca {db db' : DB R} {id gen : Nat} (e : incRpGen db id gen = .ok db') :
    db'.consumers = db.consumers ∧ db'.allocs = db.allocs := by rw [(incRpGen_ok e).1]; exact ⟨rfl, rfl⟩

theorem createProvider_ca {db db' : DB R} {uuid name : Nat} {parent : Option Nat} {row : RpRow}
    (e : createProvider db uuid name parent = .ok (db', row)) :
    db'.consumers = db.consumers ∧ db'.allocs = db.allocs := by rw [(createProvider_ok e).1]; exact ⟨rfl, rfl⟩

theorem updateProvider_ca {db db' : DB R} {id name : Nat} {parent : Option Nat} {allow : Bool}
    (e : updateProvider db id name parent allow = .ok db') :
    db'.consumers = db.consumers ∧ db'.allocs = db.allocs := by
  obtain ⟨g, rfl, -⟩ := updateProvider_ok e; exact ⟨rfl, rfl⟩

theorem deleteProvider_ca {db db' : DB R} {id : Nat} (e : deleteProvider db id = .ok db') :
    db'.consumers = db.consumers ∧ db'.allocs = db.allocs := by rw [(deleteProvider_ok e).1]; exact ⟨rfl, rfl⟩

theorem setInventory_ca {db db' : DB R} {rp gen : Nat} {invs : List (InvSpec R)}
    (e : setInventory db rp gen invs = .ok db') : db'.consumers = db.consumers ∧ db'.allocs = db.allocs :=
  ⟨(setInventory_frame e).2.1, (setInventory_frame e).1⟩

theorem addInventory_ca {db db' : DB R} {rp gen : Nat} {inv : InvSpec R}
    (e : addInventory db rp gen inv = .ok db') : db'.consumers = db.consumers ∧ db'.allocs = db.allocs := by
  unfold addInventory at e
  split at e
  · cases e
  · split at e
    · cases e
    · have := incRpGen_ca e; exact this

theorem updateInventory_ca {db db' : DB R} {rp gen : Nat} {inv : InvSpec R}
    (e : updateInventory db rp gen inv = .ok db') : db'.consumers = db.consumers ∧ db'.allocs = db.allocs := by
  unfold updateInventory at e
  split at e
  · cases e
  · split at e
    · cases e
    · dsimp only at e
      have := incRpGen_ca e; exact this

theorem deleteInventory_ca {db db' : DB R} {rp gen rcName : Nat}
    (e : deleteInventory db rp gen rcName = .ok db') : db'.consumers = db.consumers ∧ db'.allocs = db.allocs := by
  obtain ⟨rc, -, -, e⟩ := deleteInventory_ok e
  have := incRpGen_ca e; exact this

theorem setTraits_ca {db db' : DB R} {rp gen : Nat} {traits : List Nat}
    (e : setTraits db rp gen traits = .ok db') : db'.consumers = db.consumers ∧ db'.allocs = db.allocs := by
  rcases setTraits_ok e with rfl | ⟨p, add, -, -, e⟩
  · exact ⟨rfl, rfl⟩
  · have := incRpGen_ca e; exact this

theorem createTrait_ca {db db' : DB R} {name : Nat} (e : createTrait db name = .ok db') :
    db'.consumers = db.consumers ∧ db'.allocs = db.allocs := by
  unfold createTrait at e
  split at e
  · cases e
  · injection e with e; subst e; exact ⟨rfl, rfl⟩

theorem deleteTrait_ca {db db' : DB R} {name : Nat} (e : deleteTrait db name = .ok db') :
    db'.consumers = db.consumers ∧ db'.allocs = db.allocs := by rw [(deleteTrait_ok e).1]; exact ⟨rfl, rfl⟩

theorem setAggregates_ca {db db' : DB R} {rp gen : Nat} {aggs : List Nat} {incGen : Bool}
    (e : setAggregates db rp gen aggs incGen = .ok db') : db'.consumers = db.consumers ∧ db'.allocs = db.allocs := by
  unfold setAggregates at e
  dsimp only at e
  split at e
  · have := incRpGen_ca e; exact this
  · injection e with e; subst e; exact ⟨rfl, rfl⟩

theorem createRc_ca {db db' : DB R} {name : Nat} (e : createRc db name = .ok db') :
    db'.consumers = db.consumers ∧ db'.allocs = db.allocs := by rw [(createRc_ok e).1]; exact ⟨rfl, rfl⟩

theorem deleteRc_ca {db db' : DB R} {id : Nat} (e : deleteRc db id = .ok db') :
    db'.consumers = db.consumers ∧ db'.allocs = db.allocs := by rw [(deleteRc_ok e).1]; exact ⟨rfl, rfl⟩

theorem renameRc_ca {db db' : DB R} {id n : Nat} (e : renameRc db id n = .ok db') :
    db'.consumers = db.consumers ∧ db'.allocs = db.allocs := by rw [(renameRc_ok e).1]; exact ⟨rfl, rfl⟩

/-! ### handlers that do not write allocations leave consumers and allocations alone -/

section
variable [CapOps R]

/-- the 17 non-allocation operations do not touch the consumers and allocations tables -/
theorem step_ca {cfg : Config} (db : DB R) (op : Op R)
    (hop : match op with | .allocPut .. | .allocPost .. | .allocDelete .. | .reshape .. => False | _ => True) :
    (step cfg db op).1.consumers = db.consumers ∧ (step cfg db op).1.allocs = db.allocs := by
  cases op with
  | rpCreate mv u n p =>
    rcases hRpCreate_cases db mv u n p with e | ⟨db', row, e1, e2⟩
    · show (hRpCreate db mv u n p).1.consumers = db.consumers ∧ (hRpCreate db mv u n p).1.allocs = db.allocs; rw [e]; exact ⟨rfl, rfl⟩
    · show (hRpCreate db mv u n p).1.consumers = db.consumers ∧ (hRpCreate db mv u n p).1.allocs = db.allocs; rw [e2]; exact createProvider_ca e1
  | rpUpdate mv u n p =>
    rcases hRpUpdate_cases db mv u n p with e | ⟨id, p', a, db', e1, e2⟩
    · show (hRpUpdate db mv u n p).1.consumers = db.consumers ∧ (hRpUpdate db mv u n p).1.allocs = db.allocs; rw [e]; exact ⟨rfl, rfl⟩
    · show (hRpUpdate db mv u n p).1.consumers = db.consumers ∧ (hRpUpdate db mv u n p).1.allocs = db.allocs; rw [e2]; exact updateProvider_ca e1
  | rpDelete u =>
    rcases hRpDelete_cases db u with e | ⟨me, db', -, e1, e2⟩
    · show (hRpDelete db u).1.consumers = db.consumers ∧ (hRpDelete db u).1.allocs = db.allocs; rw [e]; exact ⟨rfl, rfl⟩
    · show (hRpDelete db u).1.consumers = db.consumers ∧ (hRpDelete db u).1.allocs = db.allocs; rw [e2]; exact deleteProvider_ca e1
  | invSet mv u g is =>
    rcases hInvSet_cases db mv u g is with e | ⟨rp, db', -, e1, e2⟩
    · show (hInvSet db mv u g is).1.consumers = db.consumers ∧ (hInvSet db mv u g is).1.allocs = db.allocs; rw [e]; exact ⟨rfl, rfl⟩
    · show (hInvSet db mv u g is).1.consumers = db.consumers ∧ (hInvSet db mv u g is).1.allocs = db.allocs; rw [e2]; exact setInventory_ca e1
  | invAdd mv u i =>
    rcases hInvAdd_cases db mv u i with e | ⟨rp, db', -, e1, e2⟩
    · show (hInvAdd db mv u i).1.consumers = db.consumers ∧ (hInvAdd db mv u i).1.allocs = db.allocs; rw [e]; exact ⟨rfl, rfl⟩
    · show (hInvAdd db mv u i).1.consumers = db.consumers ∧ (hInvAdd db mv u i).1.allocs = db.allocs; rw [e2]; exact addInventory_ca e1
  | invUpdate mv u g i =>
    rcases hInvUpdate_cases db mv u g i with e | ⟨rp, db', -, e1, e2⟩
    · show (hInvUpdate db mv u g i).1.consumers = db.consumers ∧ (hInvUpdate db mv u g i).1.allocs = db.allocs; rw [e]; exact ⟨rfl, rfl⟩
    · show (hInvUpdate db mv u g i).1.consumers = db.consumers ∧ (hInvUpdate db mv u g i).1.allocs = db.allocs; rw [e2]; exact updateInventory_ca e1
  | invDelete u rc =>
    rcases hInvDelete_cases db u rc with e | ⟨rp, db', -, e1, e2⟩
    · show (hInvDelete db u rc).1.consumers = db.consumers ∧ (hInvDelete db u rc).1.allocs = db.allocs; rw [e]; exact ⟨rfl, rfl⟩
    · show (hInvDelete db u rc).1.consumers = db.consumers ∧ (hInvDelete db u rc).1.allocs = db.allocs; rw [e2]; exact deleteInventory_ca e1
  | invDeleteAll mv u =>
    rcases hInvDeleteAll_cases db mv u with e | ⟨rp, db', -, e1, e2⟩
    · show (hInvDeleteAll db mv u).1.consumers = db.consumers ∧ (hInvDeleteAll db mv u).1.allocs = db.allocs; rw [e]; exact ⟨rfl, rfl⟩
    · show (hInvDeleteAll db mv u).1.consumers = db.consumers ∧ (hInvDeleteAll db mv u).1.allocs = db.allocs; rw [e2]; exact setInventory_ca e1
  | traitPut n =>
    rcases hTraitPut_cases db n with e | ⟨db', e1, e2⟩
    · show (hTraitPut db n).1.consumers = db.consumers ∧ (hTraitPut db n).1.allocs = db.allocs; rw [e]; exact ⟨rfl, rfl⟩
    · show (hTraitPut db n).1.consumers = db.consumers ∧ (hTraitPut db n).1.allocs = db.allocs; rw [e2]; exact createTrait_ca e1
  | traitDelete n =>
    rcases hTraitDelete_cases db n with e | ⟨db', e1, e2⟩
    · show (hTraitDelete db n).1.consumers = db.consumers ∧ (hTraitDelete db n).1.allocs = db.allocs; rw [e]; exact ⟨rfl, rfl⟩
    · show (hTraitDelete db n).1.consumers = db.consumers ∧ (hTraitDelete db n).1.allocs = db.allocs; rw [e2]; exact deleteTrait_ca e1
  | rpTraitsSet u g ts =>
    rcases hRpTraitsSet_cases db u g ts with e | ⟨rp, db', -, -, e1, e2⟩
    · show (hRpTraitsSet db u g ts).1.consumers = db.consumers ∧ (hRpTraitsSet db u g ts).1.allocs = db.allocs; rw [e]; exact ⟨rfl, rfl⟩
    · show (hRpTraitsSet db u g ts).1.consumers = db.consumers ∧ (hRpTraitsSet db u g ts).1.allocs = db.allocs; rw [e2]; exact setTraits_ca e1
  | rpTraitsDelete u =>
    rcases hRpTraitsDelete_cases db u with e | ⟨rp, db', -, e1, e2⟩
    · show (hRpTraitsDelete db u).1.consumers = db.consumers ∧ (hRpTraitsDelete db u).1.allocs = db.allocs; rw [e]; exact ⟨rfl, rfl⟩
    · show (hRpTraitsDelete db u).1.consumers = db.consumers ∧ (hRpTraitsDelete db u).1.allocs = db.allocs; rw [e2]; exact setTraits_ca e1
  | rcPost n =>
    rcases hRcPost_cases db n with e | ⟨db', e1, e2⟩
    · show (hRcPost db n).1.consumers = db.consumers ∧ (hRcPost db n).1.allocs = db.allocs; rw [e]; exact ⟨rfl, rfl⟩
    · show (hRcPost db n).1.consumers = db.consumers ∧ (hRcPost db n).1.allocs = db.allocs; rw [e2]; exact createRc_ca e1
  | rcPut n =>
    rcases hRcPut_cases db n with e | ⟨db', e1, e2⟩
    · show (hRcPut db n).1.consumers = db.consumers ∧ (hRcPut db n).1.allocs = db.allocs; rw [e]; exact ⟨rfl, rfl⟩
    · show (hRcPut db n).1.consumers = db.consumers ∧ (hRcPut db n).1.allocs = db.allocs; rw [e2]; exact createRc_ca e1
  | rcRename o n =>
    rcases hRcRename_cases db o n with e | ⟨id, db', -, e1, e2⟩
    · show (hRcRename db o n).1.consumers = db.consumers ∧ (hRcRename db o n).1.allocs = db.allocs; rw [e]; exact ⟨rfl, rfl⟩
    · show (hRcRename db o n).1.consumers = db.consumers ∧ (hRcRename db o n).1.allocs = db.allocs; rw [e2]; exact renameRc_ca e1
  | rcDelete n =>
    rcases hRcDelete_cases db n with e | ⟨id, db', -, e1, e2⟩
    · show (hRcDelete db n).1.consumers = db.consumers ∧ (hRcDelete db n).1.allocs = db.allocs; rw [e]; exact ⟨rfl, rfl⟩
    · show (hRcDelete db n).1.consumers = db.consumers ∧ (hRcDelete db n).1.allocs = db.allocs; rw [e2]; exact deleteRc_ca e1
  | aggsSet mv u g as =>
    rcases hAggsSet_cases db mv u g as with e | ⟨rp, b, db', -, e1, e2⟩
    · show (hAggsSet db mv u g as).1.consumers = db.consumers ∧ (hAggsSet db mv u g as).1.allocs = db.allocs; rw [e]; exact ⟨rfl, rfl⟩
    · show (hAggsSet db mv u g as).1.consumers = db.consumers ∧ (hAggsSet db mv u g as).1.allocs = db.allocs; rw [e2]; exact setAggregates_ca e1
  | allocPut mv c => exact absurd hop id
  | allocPost mv cs => exact absurd hop id
  | allocDelete c => exact absurd hop id
  | reshape mv invs cs => exact absurd hop id

end


/-! ### DELETE /allocations/{consumer} -/

theorem consIff_deleteAllocations {db : DB R} (h : ConsIff db) (consumer : Nat) :
    ConsIff (deleteAllocations db consumer) := by
  intro u
  unfold deleteAllocations deleteConsumersIfNoAllocs
  simp only [List.mem_filter, Bool.not_eq_eq_eq_not, Bool.not_true, Bool.and_eq_false_imp, List.contains_eq_mem,
    List.mem_singleton, decide_eq_true_eq, List.any_eq_true, bne_iff_ne, ne_eq,
    beq_iff_eq, Bool.not_false]
  constructor
  · rintro ⟨c, ⟨hc, hk⟩, rfl⟩
    by_cases e : c.uuid = consumer
    · obtain ⟨a, ⟨ha, hne⟩, e'⟩ := hk e
      exact ⟨a, ⟨ha, hne⟩, e'⟩
    · obtain ⟨a, ha, e'⟩ := (h c.uuid).1 ⟨c, hc, rfl⟩
      exact ⟨a, ⟨ha, by rw [e']; exact e⟩, e'⟩
  · rintro ⟨a, ⟨ha, hne⟩, rfl⟩
    obtain ⟨c, hc, e⟩ := (h a.consumer).2 ⟨a, ha, rfl⟩
    exact ⟨c, ⟨hc, fun _ => ⟨a, ⟨ha, hne⟩, e.symm⟩⟩, e⟩

/-! ### the clean-up paths of the allocation-writing handlers -/

section
variable {cfg : Config} {mv : Nat} {db0 db1 : DB R} {triples : List (ConsumerReq × ConsRow × ReqAttr)}
  {created : List Nat}

/-- deleting the rows created by the request gives back the consumers of the state before the request -/
theorem Insp.cleanup_mem (I : Insp cfg mv db0 db1 triples created) (c : ConsRow) :
    c ∈ (deleteConsumerRows db1 created).consumers ↔ c ∈ db0.consumers := by
  unfold deleteConsumerRows
  simp only [List.mem_filter, Bool.not_eq_eq_eq_not, Bool.not_true, List.contains_eq_mem, decide_eq_false_iff_not]
  constructor
  · rintro ⟨hc, hn⟩
    rcases I.split c hc with ⟨h1, -⟩ | ⟨h1, -⟩
    · exact h1
    · exact absurd h1 hn
  · intro hc
    refine ⟨I.old c hc, ?_⟩
    rcases I.split c (I.old c hc) with ⟨-, h2⟩ | ⟨-, h2⟩
    · exact h2
    · exact absurd rfl (h2 c hc)

theorem Insp.consIff_cleanup (h0 : ConsIff db0) (I : Insp cfg mv db0 db1 triples created) :
    ConsIff (deleteConsumerRows db1 created) := by
  intro u
  have ha : (deleteConsumerRows db1 created).allocs = db0.allocs := I.allocs
  rw [ha, ← h0 u]
  constructor
  · rintro ⟨c, hc, e⟩; exact ⟨c, (I.cleanup_mem c).1 hc, e⟩
  · rintro ⟨c, hc, e⟩; exact ⟨c, (I.cleanup_mem c).2 hc, e⟩

theorem deleteConsumerRows_nil (db : DB R) : deleteConsumerRows db [] = db := by
  have : db.consumers.filter (fun c => !([] : List Nat).contains c.id) = db.consumers := by
    rw [List.filter_eq_self]; simp
  unfold deleteConsumerRows
  rw [this]

theorem Insp.consIff_nil (h0 : ConsIff db0) (I : Insp cfg mv db0 db1 triples []) : ConsIff db1 := by
  have := I.consIff_cleanup h0
  rwa [deleteConsumerRows_nil] at this

/-- **the success path**: after the write transaction and the removal of the consumers created for an
empty entry, a consumer exists iff it holds allocations -/
theorem Insp.consIff_final (h0 : ConsIff db0) (I : Insp cfg mv db0 db1 triples created)
    (hn : (triples.map (fun t => t.2.1.uuid)).Nodup) {objs : List AllocReq} {db2 db3 : DB R}
    (hM : ConsMap db1 db2) (hO : allocObjectsAll db1 triples = .ok objs) (hT : AllocTxn db2 db3 objs) :
    ConsIff (deleteConsumerRows db3 (createdEmpty triples created)) := by
  obtain ⟨g, rfl, hg⟩ := hM
  have ha2 : ∀ a : AllocRow, a ∈ db1.allocs ↔ a ∈ db0.allocs := fun a => by rw [I.allocs]
  -- membership in the list of rows to delete
  have hCE : ∀ i, i ∈ createdEmpty triples created ↔
      ∃ t ∈ triples, t.2.1.id ∈ created ∧ t.1.allocs.isEmpty = true ∧ t.2.1.id = i := by
    intro i
    unfold createdEmpty
    simp only [List.mem_map, List.mem_filter, Bool.and_eq_true, List.contains_eq_mem, decide_eq_true_eq]
    constructor
    · rintro ⟨t, ⟨ht, h1, h2⟩, e⟩; exact ⟨t, ht, h1, h2, e⟩
    · rintro ⟨t, ht, h1, h2, e⟩; exact ⟨t, ⟨ht, h1, h2⟩, e⟩
  intro u
  unfold deleteConsumerRows
  simp only [List.mem_filter, Bool.not_eq_eq_eq_not, Bool.not_true, List.contains_eq_mem, decide_eq_false_iff_not]
  constructor
  · rintro ⟨c', ⟨hc', hnot⟩, rfl⟩
    by_cases hA : ∃ o ∈ objs, o.consUuid = c'.uuid
    · exact hT.consGone c' hc' hA
    · have hA' : ∀ o ∈ objs, o.consUuid ≠ c'.uuid := fun o ho e => hA ⟨o, ho, e⟩
      obtain ⟨c2, hc2, i2, u2, -⟩ := hT.consSub c' hc'
      obtain ⟨c1, hc1, rfl⟩ := List.mem_map.1 hc2
      have i1 : c1.id = c'.id := by rw [← (hg c1).1]; exact i2
      have u1 : c1.uuid = c'.uuid := by rw [← (hg c1).2.1]; exact u2
      rcases I.split c1 hc1 with ⟨hold, -⟩ | ⟨hcr, -⟩
      · obtain ⟨a, ha, e⟩ := (h0 c1.uuid).1 ⟨c1, hold, rfl⟩
        refine ⟨a, hT.kept a ((ha2 a).2 ha) ?_, e.trans u1⟩
        intro o ho e'
        exact hA' o ho (by rw [e', e, u1])
      · exfalso
        obtain ⟨t, ht, et, -⟩ := I.fromAcc c1 hc1 hcr
        obtain ⟨os, hos, hsub⟩ := (allocObjectsAll_ok hO).2 t ht
        have hnil : os = [] := by
          cases os with
          | nil => rfl
          | cons o rest =>
            exfalso
            have := allocObjects_consUuid hos o List.mem_cons_self
            exact hA' o (hsub o List.mem_cons_self) (by rw [this, et, u1])
        have hemp : t.1.allocs.isEmpty = true := by
          cases he : t.1.allocs.isEmpty with
          | true => rfl
          | false => exact absurd hnil (allocObjects_nonempty hos he).2.2
        exact hnot ((hCE c'.id).2 ⟨t, ht, by rw [et]; exact hcr, hemp, by rw [et]; exact i1⟩)
  · rintro ⟨a, ha, rfl⟩
    -- a consumer row of the intermediate state that survives and is not among the deleted ones
    have fin : ∀ c1 ∈ db1.consumers, c1.uuid = a.consumer →
        (∀ t ∈ triples, t.2.1 = c1 → t.2.1.id ∈ created → t.1.allocs.isEmpty = true → False) →
        ((∀ o ∈ objs, o.consUuid ≠ c1.uuid) ∨ ∃ x ∈ db3.allocs, x.consumer = c1.uuid) →
        ∃ c, (c ∈ db3.consumers ∧ c.id ∉ createdEmpty triples created) ∧ c.uuid = a.consumer := by
      intro c1 hc1 eu hno hor
      obtain ⟨c', hc', i', u'⟩ := hT.consKept (g c1) (List.mem_map.2 ⟨c1, hc1, rfl⟩)
        (by rw [(hg c1).2.1]; exact hor)
      refine ⟨c', ⟨hc', ?_⟩, by rw [u', (hg c1).2.1, eu]⟩
      intro hin
      obtain ⟨t, ht, h1, h2, e⟩ := (hCE c'.id).1 hin
      have : t.2.1 = c1 :=
        L.eq_of_key_eq I.uniq.consId (I.acc t ht).1 hc1 (by rw [e, i', (hg c1).1])
      exact hno t ht this h1 h2
    rcases hT.origin a ha with ⟨hold, hnone⟩ | ⟨o, ho, h0', eo⟩
    · have hold0 := (ha2 a).1 hold
      obtain ⟨c0, hc0, e0⟩ := (h0 a.consumer).2 ⟨a, hold0, rfl⟩
      refine fin c0 (I.old c0 hc0) e0 ?_ (Or.inl (by rw [e0]; exact hnone))
      intro t _ et hcr _
      rcases I.split c0 (I.old c0 hc0) with ⟨-, h2⟩ | ⟨-, h2⟩
      · exact h2 (by rw [← et]; exact hcr)
      · exact h2 c0 hc0 rfl
    · obtain ⟨t', ht', os, hos, ho'⟩ := (allocObjectsAll_ok hO).1 o ho
      have eu : t'.2.1.uuid = a.consumer := by rw [eo, allocObjects_consUuid hos o ho']
      refine fin t'.2.1 (I.acc t' ht').1 eu ?_ (Or.inr ⟨a, ha, eu.symm⟩)
      intro t ht et _ hemp
      have : t = t' := L.eq_of_key_eq hn ht ht' (by rw [et])
      subst this
      exact h0' (allocObjects_empty hos hemp o ho').1

end


variable [CapOps R]

/-! ### one lemma per allocation-writing handler -/

omit [CapOps R] in
theorem consIff_hAllocDelete {db : DB R} (h : ConsIff db) (consumer : Nat) :
    ConsIff (hAllocDelete db consumer).1 := by
  unfold hAllocDelete
  split
  · exact consIff_deleteAllocations h consumer
  · exact h

theorem consIff_hAllocPost {cfg : Config} {db : DB R} (hW : WFI db) (h : ConsIff db) (mv : Nat)
    (cs : List ConsumerReq) (hwf : OpWF (.allocPost mv cs : Op R)) : ConsIff (hAllocPost cfg db mv cs).1 := by
  obtain ⟨hn, -⟩ := hwf
  unfold hAllocPost
  split
  · exact h
  · generalize hI : inspectConsumers cfg mv db cs [] [] = p
    obtain ⟨db1, res⟩ := p
    have hs := inspectConsumers_spec cs (Insp.init hW.uniq hW.ri) hI
    cases res with
    | error r =>
      obtain ⟨d, acc', created', I, rfl⟩ := hs
      exact I.consIff_cleanup h
    | ok v =>
      obtain ⟨triples, created⟩ := v
      obtain ⟨I, hm⟩ := hs
      simp only [List.map_nil, List.nil_append] at hm
      dsimp only
      split
      · exact I.consIff_cleanup h
      · next objs hO =>
        split
        · next db3 h3 =>
          exact I.consIff_final h (I.uuids_nodup hm hn) (consMap_updateConsumers db1 triples) hO
            (allocTxn_setAllocations h3)
        · exact I.consIff_cleanup h

theorem consIff_hReshape {cfg : Config} {db : DB R} (hW : WFI db) (h : ConsIff db) (mv : Nat)
    (invs : List (RpInvReq R)) (cs : List ConsumerReq) (hwf : OpWF (.reshape mv invs cs : Op R)) :
    ConsIff (hReshape cfg db mv invs cs).1 := by
  obtain ⟨hn, -⟩ := hwf
  unfold hReshape
  split
  · exact h
  · split
    · exact h
    · next rinvs _ =>
      generalize hI : inspectConsumers cfg mv db cs [] [] = p
      obtain ⟨db1, res⟩ := p
      have hs := inspectConsumers_spec cs (Insp.init hW.uniq hW.ri) hI
      cases res with
      | error r =>
        obtain ⟨d, acc', created', I, rfl⟩ := hs
        exact I.consIff_cleanup h
      | ok v =>
        obtain ⟨triples, created⟩ := v
        obtain ⟨I, hm⟩ := hs
        simp only [List.map_nil, List.nil_append] at hm
        dsimp only
        split
        · exact I.consIff_cleanup h
        · next objs hO =>
          split
          · next db3 h3 =>
            have hM := consMap_updateConsumers db1 triples
            have h2 := I.wfi_updated hW
            obtain ⟨-, -, hT, -, -⟩ := reshapeTxn_ok h2.uniq h2.ri (I.objs_cons hO hM) h3
            exact I.consIff_final h (I.uuids_nodup hm hn) hM hO hT
          · exact I.consIff_cleanup h

theorem consIff_hAllocPut {cfg : Config} {db : DB R} (hW : WFI db) (h : ConsIff db) (mv : Nat)
    (c : ConsumerReq) : ConsIff (hAllocPut cfg db mv c).1 := by
  unfold hAllocPut
  split
  · exact h
  · generalize hE : ensureConsumer cfg db mv c = p
    obtain ⟨db1, res⟩ := p
    have hs := (Insp.init (cfg := cfg) (mv := mv) hW.uniq hW.ri).step hE
    cases res with
    | error r => exact hs.consIff_nil h
    | ok v =>
      obtain ⟨cons, isNew, attr⟩ := v
      dsimp only at hs ⊢
      simp only [List.nil_append] at hs
      have hclean : ConsIff (if isNew = true then deleteConsumerRows db1 [cons.id] else db1) := by
        cases isNew with
        | true => exact hs.consIff_cleanup h
        | false => exact hs.consIff_nil h
      split
      · exact hclean
      · next objs hO =>
        have hOA := allocObjectsAll_single (attr := attr) hO
        have hM : ConsMap db1 (updateConsumer db1 cons attr) := consMap_updateConsumer db1 cons attr
        have hnd : (([(c, cons, attr)] : List (ConsumerReq × ConsRow × ReqAttr)).map (fun t => t.2.1.uuid)).Nodup := by
          simp
        split
        · next db3 h3 =>
          have hfin := hs.consIff_final h hnd hM hOA (allocTxn_setAllocations h3)
          show ConsIff (if (isNew && objs.isEmpty) = true then deleteConsumerRows db3 [cons.id] else db3)
          -- the list of rows deleted by the model is the one of `createdEmpty`
          have hce : createdEmpty [(c, cons, attr)] (if isNew = true then [cons.id] else []) =
              if (isNew && objs.isEmpty) = true then [cons.id] else [] := by
            cases isNew with
            | false => simp [createdEmpty]
            | true =>
              cases he : c.allocs.isEmpty with
              | false =>
                have := (allocObjects_nonempty hO he).2.2
                have h2 : objs.isEmpty = false := by
                  cases objs with
                  | nil => exact absurd rfl this
                  | cons _ _ => rfl
                simp [createdEmpty, he, h2]
              | true =>
                have h2 : objs.isEmpty = true := by
                  cases objs with
                  | nil => rfl
                  | cons o rest =>
                    exfalso
                    obtain ⟨-, eu, a, ha, ea⟩ := allocObjects_empty hO he o List.mem_cons_self
                    simp only [if_true] at hs
                    exact hs.createdOK hW.ri cons (hs.acc _ (List.mem_singleton.2 rfl)).1
                      (List.mem_singleton.2 rfl) a ha ea
                simp [createdEmpty, he, h2]
          rw [hce] at hfin
          split
          · next hc => rw [if_pos hc] at hfin; exact hfin
          · next hc => rw [if_neg hc, deleteConsumerRows_nil] at hfin; exact hfin
        · exact hclean

/-- **C12**: one request keeps `ConsIff`. -/
theorem consIff_step {cfg : Config} {db : DB R} (hW : WFI db) (h : ConsIff db) (op : Op R) (hwf : OpWF op) :
    ConsIff (step cfg db op).1 := by
  cases op with
  | allocPut mv c => exact consIff_hAllocPut hW h mv c
  | allocPost mv cs => exact consIff_hAllocPost hW h mv cs hwf
  | allocDelete c => exact consIff_hAllocDelete h c
  | reshape mv invs cs => exact consIff_hReshape hW h mv invs cs hwf
  | _ => exact ConsIff.of_eq h (step_ca db _ trivial).1 (step_ca db _ trivial).2

omit [CapOps R] in
theorem consIff_init {stdRcs stdTraits : List Nat} : ConsIff (initDb stdRcs stdTraits : DB R) := by
  intro u; simp [initDb]

theorem reach_consIff {cfg : Config} {stdRcs stdTraits : List Nat} (h1 : stdRcs.Nodup) (h2 : stdTraits.Nodup)
    {db : DB R} (h : ReachWF cfg stdRcs stdTraits db) : ConsIff db := by
  induction h with
  | init => exact consIff_init
  | step db op hr hwf ih => exact consIff_step (reach_wfi h1 h2 hr) ih op hwf

end Placement.Wf
