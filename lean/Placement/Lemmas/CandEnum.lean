import Placement.Spec.Candidates
/-
  Lemmas about the enumeration combinators of `Spec/Candidates.lean` (`prods`, `dedup`) and the membership
  characterisation of `candidatesFor` / `candidates` (used by `Props/C03.lean`).
-/
namespace Placement.Spec

variable {R : Type}

/-! ### `prods`, `dedup` -/

theorem mem_prods_map {α β : Type} (sel : β → List α) : ∀ (gs : List β) (ps : List α),
    ps ∈ prods (gs.map sel) ↔ Forall₂ (fun g p => p ∈ sel g) gs ps
  | [], ps => by
    simp only [List.map_nil, prods, List.mem_singleton]
    constructor
    · rintro rfl; exact .nil
    · intro h; cases h; rfl
  | g :: gs, ps => by
    simp only [List.map_cons, prods, List.mem_flatMap, List.mem_map]
    constructor
    · rintro ⟨x, hx, t, ht, rfl⟩
      exact .cons hx ((mem_prods_map sel gs t).mp ht)
    · intro h
      cases h with
      | cons hx ht => exact ⟨_, hx, _, (mem_prods_map sel gs _).mpr ht, rfl⟩

theorem Forall₂.imp {α β : Type} {P Q : α → β → Prop} (h : ∀ a b, P a b → Q a b) :
    ∀ {l : List α} {m : List β}, Forall₂ P l m → Forall₂ Q l m
  | _, _, .nil => .nil
  | _, _, .cons hab t => .cons (h _ _ hab) (Forall₂.imp h t)

theorem Forall₂.length_eq {α β : Type} {P : α → β → Prop} : ∀ {l : List α} {m : List β}, Forall₂ P l m → l.length = m.length
  | _, _, .nil => rfl
  | _, _, .cons _ t => by simp [Forall₂.length_eq t]

/-- corresponding elements are related: the relation holds on the zipped list -/
theorem Forall₂.zip {α β : Type} {P : α → β → Prop} : ∀ {l : List α} {m : List β}, Forall₂ P l m →
    ∀ x ∈ l.zip m, P x.1 x.2
  | _, _, .nil => by simp
  | _, _, .cons hab t => by
    intro x hx
    simp only [List.zip_cons_cons, List.mem_cons] at hx
    rcases hx with rfl | hx
    · exact hab
    · exact Forall₂.zip t x hx

theorem Forall₂.right_mem {α β : Type} {P : α → β → Prop} : ∀ {l : List α} {m : List β}, Forall₂ P l m →
    ∀ b ∈ m, ∃ a ∈ l, P a b
  | _, _, .nil => by simp
  | _, _, .cons hab t => by
    intro b hb
    rcases List.mem_cons.mp hb with rfl | hb
    · exact ⟨_, List.mem_cons_self, hab⟩
    · obtain ⟨a, ha, h⟩ := Forall₂.right_mem t b hb
      exact ⟨a, List.mem_cons_of_mem _ ha, h⟩

theorem Forall₂.of_zip {α β : Type} {P : α → β → Prop} : ∀ (l : List α) (m : List β), l.length = m.length →
    (∀ x ∈ l.zip m, P x.1 x.2) → Forall₂ P l m
  | [], [], _, _ => .nil
  | [], _ :: _, h, _ => by simp at h
  | _ :: _, [], h, _ => by simp at h
  | a :: as, b :: bs, h, hz =>
    .cons (hz (a, b) (by simp)) (Forall₂.of_zip as bs (by simpa using h) (fun x hx => hz x (by simp [hx])))

theorem mem_insertUniq (a : Nat) : ∀ (l : List Nat) (x : Nat), x ∈ insertUniq a l ↔ x = a ∨ x ∈ l
  | [], x => by simp [insertUniq]
  | z :: zs, x => by
    simp only [insertUniq]
    split
    · rename_i h; subst h
      simp only [List.mem_cons]
      constructor
      · intro h; exact Or.inr h
      · rintro (h | h); exact Or.inl h; exact h
    · split
      · simp [List.mem_cons]
      · simp only [List.mem_cons, mem_insertUniq a zs x]
        constructor
        · rintro (h | h | h); exact Or.inr (Or.inl h); exact Or.inl h; exact Or.inr (Or.inr h)
        · rintro (h | h | h); exact Or.inr (Or.inl h); exact Or.inl h; exact Or.inr (Or.inr h)

theorem mem_sortDedup : ∀ (l : List Nat) (x : Nat), x ∈ sortDedup l ↔ x ∈ l
  | [], x => by simp [sortDedup]
  | y :: ys, x => by simp only [sortDedup, mem_insertUniq, mem_sortDedup ys x, List.mem_cons]

theorem mem_dedup {α : Type} [DecidableEq α] {x : α} : ∀ {l : List α}, x ∈ dedup l ↔ x ∈ l
  | [] => by simp [dedup]
  | y :: ys => by
    simp only [dedup]
    split
    · rename_i h
      rw [mem_dedup (l := ys), List.mem_cons]
      constructor
      · exact Or.inr
      · rintro (rfl | h')
        · exact mem_dedup.mp h
        · exact h'
    · simp only [List.mem_cons, mem_dedup (l := ys)]

theorem nodup_dedup {α : Type} [DecidableEq α] : ∀ (l : List α), (dedup l).Nodup
  | [] => by simp [dedup]
  | y :: ys => by
    simp only [dedup]
    split
    · exact nodup_dedup ys
    · rename_i h
      exact List.nodup_cons.mpr ⟨h, nodup_dedup ys⟩

/-! ### membership in the enumeration -/

variable [CapOps R]

theorem mem_candidatesFor (db : DB R) (q : Query) (r : RpRow) (c : Candidate) :
    c ∈ candidatesFor db q r ↔
      ∃ ps us : List RpRow,
        Forall₂ (fun g p => p ∈ db.rps ∧ GroupSat db q r g p) q.groups ps ∧
        Forall₂ (fun e u => u ∈ db.rps ∧ EntrySat db q r q.g0 e u) q.unsuffRes us ∧
        (q.unsuff.isSome = true → UnsuffSat db r q.g0 us) ∧
        Joint db q ps us ∧
        c = build q ps us := by
  unfold candidatesFor
  simp only [List.mem_flatMap, List.mem_filterMap]
  constructor
  · rintro ⟨ps, hps, us, hus, hc⟩
    rw [mem_prods_map] at hps hus
    split at hc
    · rename_i hcond
      refine ⟨ps, us, hps.imp ?_, hus.imp ?_, hcond.1, hcond.2, ?_⟩
      · intro g p h; simpa using h
      · intro e u h; simpa using h
      · cases hc; rfl
    · cases hc
  · rintro ⟨ps, us, hps, hus, h1, h2, rfl⟩
    refine ⟨ps, ?_, us, ?_, ?_⟩
    · rw [mem_prods_map]; exact hps.imp (by intro g p h; simpa using h)
    · rw [mem_prods_map]; exact hus.imp (by intro e u h; simpa using h)
    · rw [if_pos ⟨h1, h2⟩]

theorem mem_candidates (db : DB R) (q : Query) (c : Candidate) : c ∈ candidates db q ↔ IsCandidate db q c := by
  unfold candidates IsCandidate
  rw [mem_dedup]
  simp only [List.mem_flatMap, List.mem_filter, decide_eq_true_eq, mem_candidatesFor]
  constructor
  · rintro ⟨r, ⟨hr, ha⟩, h⟩; exact ⟨r, hr, ha, h⟩
  · rintro ⟨r, hr, ha, h⟩; exact ⟨r, ⟨hr, ha⟩, h⟩

/-- the property is decidable for a given combination: by enumeration -/
instance (db : DB R) (q : Query) (c : Candidate) : Decidable (IsCandidate db q c) :=
  decidable_of_iff _ (mem_candidates db q c)

end Placement.Spec
