import Placement.Spec.Candidates
/-
  A lawful ratio type with halves (`⟨n⟩` is the ratio n / 2) and a concrete non-trivial state used by the
  `example`s of `Props/C13.lean`, `Props/C03.lean`, `Props/C02.lean`, `Props/C20.lean`.
-/
namespace Placement

/-- allocation ratios with one binary digit: `⟨n⟩` is the ratio `n / 2` -/
structure Half where
  num : Int
deriving DecidableEq, Repr

instance : CapOps Half where
  capLt a r n := decide (a * r.num < 2 * n)
  capTrunc a r := Int.tdiv (a * r.num) 2

instance : LawfulCapOps Half where
  trunc_spec a r n h := by
    simp only [CapOps.capLt, decide_eq_false_iff_not, Int.not_lt] at *
    simp only [CapOps.capTrunc]
    have h0 : 0 ≤ a * r.num := by omega
    rw [Int.tdiv_eq_ediv_of_nonneg h0]
    omega

namespace CandEx

/-!
  Two trees and a sharing provider (ids = uuids - 100 = names - 200):

      1 (root, aggregate 50, trait 70)          4 (root, aggregates 50 and 51)        5 (root, sharing, aggregate 50)
      ├─ 2  VCPU 8 @ 1.5, step 2, 4 used         VCPU 4 @ 1.0, MEMORY 16 @ 1.0            DISK 100 @ 1.0, max_unit 40
      └─ 3  VCPU 4 @ 0.5 (capacity 2), trait 71
      1 itself: MEMORY 8 @ 1.0 reserved 8 (no room), DISK 10 @ 1.0

  classes: 0 VCPU, 1 MEMORY_MB, 2 DISK_GB;   traits: 60 = MISC_SHARES_VIA_AGGREGATE, 70, 71;   aggregates 50, 51, 52 (52 unused)
-/
def db : DB Half :=
  { rps := [{ id := 1, uuid := 101, name := 201, gen := 0, parent := none, root := 1 },
            { id := 2, uuid := 102, name := 202, gen := 0, parent := some 1, root := 1 },
            { id := 3, uuid := 103, name := 203, gen := 0, parent := some 1, root := 1 },
            { id := 4, uuid := 104, name := 204, gen := 0, parent := none, root := 4 },
            { id := 5, uuid := 105, name := 205, gen := 0, parent := none, root := 5 }]
    rcs := [(0, 10), (1, 11), (2, 12)]
    invs := [{ rp := 1, rc := 1, total := 8, reserved := 8, minUnit := 1, maxUnit := 8, stepSize := 1, ratio := ⟨2⟩ },
             { rp := 1, rc := 2, total := 10, reserved := 0, minUnit := 1, maxUnit := 10, stepSize := 1, ratio := ⟨2⟩ },
             { rp := 2, rc := 0, total := 8, reserved := 0, minUnit := 2, maxUnit := 8, stepSize := 2, ratio := ⟨3⟩ },
             { rp := 3, rc := 0, total := 4, reserved := 0, minUnit := 1, maxUnit := 4, stepSize := 1, ratio := ⟨1⟩ },
             { rp := 4, rc := 0, total := 4, reserved := 0, minUnit := 1, maxUnit := 4, stepSize := 1, ratio := ⟨2⟩ },
             { rp := 4, rc := 1, total := 16, reserved := 0, minUnit := 1, maxUnit := 16, stepSize := 1, ratio := ⟨2⟩ },
             { rp := 5, rc := 2, total := 100, reserved := 0, minUnit := 1, maxUnit := 40, stepSize := 1, ratio := ⟨2⟩ }]
    allocs := [{ rp := 2, rc := 0, consumer := 500, used := 4 }]
    consumers := [{ id := 1, uuid := 500, project := 7, user := 8, ctype := none, gen := 1 }]
    projects := [7], users := [8]
    traits := [60, 70, 71]
    rpTraits := [(1, 70), (3, 71), (5, 60)]
    aggs := [50, 51, 52]
    rpAggs := [(1, 50), (4, 50), (4, 51), (5, 50)]
    nextRp := 6, nextCons := 2 }

end CandEx
end Placement
