import Placement.Lemmas.GenProv
/-
  C10, part 6: POST /allocations and POST /reshaper raise the generation of every provider their
  allocations name.
-/
namespace Placement.Gens
open Placement.Hier
variable {R : Type}
set_option linter.unusedSectionVars false
set_option linter.unusedSimpArgs false

theorem inspectConsumers_triples (cfg : Config) (mv : Nat) :
    ∀ (cs : List ConsumerReq) (db : DB R) acc created {db1 : DB R} {triples created'},
      inspectConsumers cfg mv db cs acc created = (db1, .ok (triples, created')) →
      ∃ new, triples = acc ++ new ∧ new.map (·.1) = cs
  | [], db, acc, created, db1, triples, created', h => by
    simp only [inspectConsumers, Prod.mk.injEq, Except.ok.injEq] at h
    exact ⟨[], by simp [h.2.1], rfl⟩
  | c :: cs, db, acc, created, db1, triples, created', h => by
    unfold inspectConsumers at h
    split at h
    · simp only [Prod.mk.injEq, reduceCtorEq, and_false] at h
    · rename_i db0 cons isNew attr _
      obtain ⟨new, hn, hm⟩ := inspectConsumers_triples cfg mv cs db0 _ _ h
      exact ⟨(c, cons, attr) :: new, by rw [hn, List.append_assoc]; rfl, by simp [hm]⟩

theorem allocObjectsAll_mem {db : DB R} : ∀ {triples : List (ConsumerReq × ConsRow × ReqAttr)} {objs : List AllocReq},
    allocObjectsAll db triples = .ok objs →
    ∀ t ∈ triples, ∃ o, allocObjects db t.2.1 t.1 = .ok o ∧ ∀ x ∈ o, x ∈ objs
  | [], _, _ => by intro t ht; cases ht
  | (c, cons, attr) :: rest, objs, h => by
    simp only [allocObjectsAll, bind, Except.bind] at h
    split at h
    · cases h
    · rename_i a ha
      split at h
      · cases h
      · rename_i b hb
        simp only [pure, Except.pure, Except.ok.injEq] at h
        subst h
        intro t ht
        rcases List.mem_cons.mp ht with rfl | ht
        · exact ⟨a, ha, fun x hx => List.mem_append_left _ hx⟩
        · obtain ⟨o, ho, hsub⟩ := allocObjectsAll_mem hb t ht
          exact ⟨o, ho, fun x hx => List.mem_append_right _ (hsub x hx)⟩

/-- looking a provider up by uuid after some generations were raised -/
theorem GenStep.find_uuid {t t' : List RpRow} (h : GenStep t t') {u : Nat} {r : RpRow}
    (hr : t.find? (·.uuid == u) = some r) :
    ∃ r', t'.find? (·.uuid == u) = some r' ∧ r'.id = r.id ∧ r.gen ≤ r'.gen := by
  obtain ⟨g, hg, rfl⟩ := h
  rw [List.find?_map]
  have : ((fun x : RpRow => x.uuid == u) ∘ fun r => { r with gen := g r }) = (fun x : RpRow => x.uuid == u) := rfl
  rw [this, hr]
  exact ⟨_, rfl, rfl, hg r (List.mem_of_find?_eq_some hr)⟩

variable [CapOps R]

theorem inspectConsumers_err_status (cfg : Config) (mv : Nat) :
    ∀ (cs : List ConsumerReq) (db : DB R) acc created db1 r,
      inspectConsumers cfg mv db cs acc created = (db1, .error r) → r = r409 .concurrentUpdate := by
  intro cs
  induction cs with
  | nil => intro db acc created db1 r h; simp [inspectConsumers] at h
  | cons c cs ih =>
    intro db acc created db1 r h
    unfold inspectConsumers at h
    split at h
    · rename_i db0 r0 he
      simp only [Prod.mk.injEq, Except.error.injEq] at h
      rw [← h.2]
      exact (ensureConsumer_err (by rw [he] : (ensureConsumer cfg db mv c).2 = .error r0)).1
    · exact ih _ _ _ _ _ h

theorem allocObjectsAll_err {db1 : DB R} :
    ∀ (l : List (ConsumerReq × ConsRow × ReqAttr)) r, allocObjectsAll db1 l = .error r → r = r400 := by
  intro l
  induction l with
  | nil => intro r h; simp [allocObjectsAll] at h
  | cons t rest ih =>
    intro r h
    obtain ⟨c, cons, attr⟩ := t
    simp only [allocObjectsAll, bind, Except.bind] at h
    split at h
    · rename_i e he
      simp only [Except.error.injEq] at h
      rw [← h]; exact allocObjects_err he
    · split at h
      · rename_i e he
        simp only [Except.error.injEq] at h
        rw [← h]; exact ih _ he
      · cases h

theorem hAllocPost_cases (cfg : Config) (db : DB R) (mv : Nat) (cs : List ConsumerReq) :
    (∃ db1 triples created objs db3,
        inspectConsumers cfg mv db cs [] [] = (db1, .ok (triples, created)) ∧
        allocObjectsAll db1 triples = .ok objs ∧
        setAllocations (updateConsumers db1 triples) objs = .ok db3 ∧
        hAllocPost cfg db mv cs = (deleteConsumerRows db3 (createdEmpty triples created), r204)) ∨
    400 ≤ (hAllocPost cfg db mv cs).2.status := by
  unfold hAllocPost
  split
  · exact .inr (by simp [r404])
  · split
    · rename_i db1 r heq
      right
      rw [inspectConsumers_err_status cfg mv _ _ _ _ _ _ heq]; simp [r409]
    · rename_i db1 triples created heq
      split
      · rename_i r hobj
        right
        rw [allocObjectsAll_err _ _ hobj]; simp [r400]
      · rename_i objs hobj
        dsimp only
        split
        · rename_i db3 h3
          exact .inl ⟨db1, triples, created, objs, db3, heq, hobj, h3, rfl⟩
        · rename_i e _
          exact .inr (allocErr_status e)

/-- Every provider named in a successful `POST /allocations` is exactly one generation further. -/
theorem allocPost_bumps_providers (cfg : Config) {db : DB R} (hI : Ids db.gcore) {mv : Nat} {cs : List ConsumerReq}
    (h : (hAllocPost cfg db mv cs).2.ok = true) :
    ∀ c ∈ cs, ∀ a ∈ c.allocs, ∃ rp, db.rpByUuid a.1 = some rp ∧
      (hAllocPost cfg db mv cs).1.rpByUuid a.1 = some { rp with gen := rp.gen + 1 } := by
  rcases hAllocPost_cases cfg db mv cs with ⟨db1, triples, created, objs, db3, hins, hobj, h3, hres⟩ | hst
  · intro c hc a ha
    have hne : c.allocs ≠ [] := fun hn => by rw [hn] at ha; cases ha
    have hr1 : db1.rps = db.rps := by
      have := (inspectConsumers_ext cfg mv db.consumers db.nextCons hI.consFresh cs db [] []
        ⟨Nat.le_refl _, [], by simp, rfl, by simp⟩).1
      rwa [hins] at this
    have hr2 := updateConsumers_rps triples db1
    have hr3 := setAllocations_rps h3 (by rw [hr2, hr1]; exact hI.rpNodup)
    obtain ⟨new, hn, hm⟩ := inspectConsumers_triples cfg mv cs db [] [] hins
    rw [List.nil_append] at hn; subst hn
    obtain ⟨t, ht, rfl⟩ : ∃ t ∈ triples, t.1 = c := by
      rw [← hm] at hc; obtain ⟨t, ht, rfl⟩ := List.mem_map.mp hc; exact ⟨t, ht, rfl⟩
    obtain ⟨o, ho, hsub⟩ := allocObjectsAll_mem hobj t ht
    obtain ⟨hprov, -, -⟩ := allocObjects_nonempty ho hne
    obtain ⟨rp, hrp, x, hx, hxid⟩ := hprov a ha
    have hrp' : db.rpByUuid a.1 = some rp := by
      have : db1.rps.find? (·.uuid == a.1) = some rp := hrp
      rw [hr1] at this; exact this
    refine ⟨rp, hrp', ?_⟩
    show (hAllocPost cfg db mv cs).1.rps.find? (·.uuid == a.1) = _
    rw [hres]
    show db3.rps.find? _ = _
    rw [hr3, hr2, hr1]
    apply mem_bumpAll_keys hrp'
    rw [firstByKey_keys, List.map_map]
    exact List.mem_map.mpr ⟨x, hsub x hx, hxid⟩
  · exact ok_false_of_400 h hst

/-! ### reshaper -/

theorem resolveReshapeRps_err {db : DB R} : ∀ {l : List (RpInvReq R)} {r : Resp},
    resolveReshapeRps db l = .error r → 400 ≤ r.status
  | [], r, h => by simp [resolveReshapeRps] at h
  | x :: rest, r, h => by
    unfold resolveReshapeRps at h
    split at h
    · cases h; simp
    · split at h
      · cases h; simp [r409]
      · cases hrest : resolveReshapeRps db rest with
        | error e => rw [hrest] at h; cases h; exact resolveReshapeRps_err hrest
        | ok v => rw [hrest] at h; cases h

theorem reshapeErr_status (e : Exc) : 400 ≤ (reshapeErr e).status := by
  unfold reshapeErr
  repeat' split
  all_goals simp [r400, r409, r500]

theorem hReshape_cases (cfg : Config) (db : DB R) (mv : Nat) (invs : List (RpInvReq R)) (cs : List ConsumerReq) :
    (∃ rinvs db1 triples created objs db3,
        inspectConsumers cfg mv db cs [] [] = (db1, .ok (triples, created)) ∧
        allocObjectsAll db1 triples = .ok objs ∧
        reshapeTxn (updateConsumers db1 triples) rinvs objs = .ok db3 ∧
        hReshape cfg db mv invs cs = (deleteConsumerRows db3 (createdEmpty triples created), r204)) ∨
    400 ≤ (hReshape cfg db mv invs cs).2.status := by
  unfold hReshape
  split
  · exact .inr (by simp [r404])
  · split
    · rename_i r hres
      exact .inr (resolveReshapeRps_err hres)
    · rename_i rinvs _
      split
      · rename_i db1 r heq
        right
        rw [inspectConsumers_err_status cfg mv _ _ _ _ _ _ heq]; simp [r409]
      · rename_i db1 triples created heq
        split
        · rename_i r hobj
          right
          rw [allocObjectsAll_err _ _ hobj]; simp [r400]
        · rename_i objs hobj
          dsimp only
          split
          · rename_i db3 h3
            exact .inl ⟨rinvs, db1, triples, created, objs, db3, heq, hobj, h3, rfl⟩
          · rename_i e _
            exact .inr (reshapeErr_status e)

/-- the three phases of `reshape`: interim inventories, allocations, final inventories; the
allocation objects keep the providers they name -/
theorem reshapeTxn_ok {db db' : DB R} {invs : List (Nat × Nat × List (InvSpec R))} {objs : List AllocReq}
    (h : reshapeTxn db invs objs = .ok db') :
    ∃ (dbA dbB : DB R) (gens0 gens1 gens2 : List (Nat × Nat)) (objs' : List AllocReq),
      reshapeInterim db (invs.map (fun t => (t.1, t.2.2))) gens0 = .ok (dbA, gens1) ∧
      objs'.map (·.rpId) = objs.map (·.rpId) ∧
      setAllocations dbA objs' = .ok dbB ∧
      reshapeFinal dbB (invs.map (fun t => (t.1, t.2.2))) gens2 = .ok db' := by
  unfold reshapeTxn at h
  simp only [bind, Except.bind] at h
  split at h
  · cases h
  · rename_i v h1
    obtain ⟨dbA, gens1⟩ := v
    dsimp only at h
    split at h
    · cases h
    · rename_i dbB h2
      exact ⟨dbA, dbB, _, gens1, _, _, h1, by simp [List.map_map, Function.comp], h2, h⟩

/-- Every provider named by the allocations of a successful `POST /reshaper` has a strictly larger
generation afterwards (its inventories may be rewritten in the same request, which raises it further). -/
theorem reshape_bumps_providers (cfg : Config) {db : DB R} (hI : Ids db.gcore) {mv : Nat}
    {invs : List (RpInvReq R)} {cs : List ConsumerReq} (h : (hReshape cfg db mv invs cs).2.ok = true) :
    ∀ c ∈ cs, ∀ a ∈ c.allocs, ∃ rp rp', db.rpByUuid a.1 = some rp ∧
      (hReshape cfg db mv invs cs).1.rpByUuid a.1 = some rp' ∧ rp'.id = rp.id ∧ rp.gen < rp'.gen := by
  rcases hReshape_cases cfg db mv invs cs with ⟨rinvs, db1, triples, created, objs, db3, hins, hobj, h3, hres⟩ | hst
  · intro c hc a ha
    have hne : c.allocs ≠ [] := fun hn => by rw [hn] at ha; cases ha
    have hr1 : db1.rps = db.rps := by
      have := (inspectConsumers_ext cfg mv db.consumers db.nextCons hI.consFresh cs db [] []
        ⟨Nat.le_refl _, [], by simp, rfl, by simp⟩).1
      rwa [hins] at this
    have hr2 := updateConsumers_rps triples db1
    have fI : Frame db.gcore db1.gcore := by
      have := inspectConsumers_frame cfg mv cs db [] [] hI
      rwa [hins] at this
    have fU := updateConsumers_frame triples db1 fI.ids
    obtain ⟨dbA, dbB, gens0, gens1, gens2, objs', hA, hobjs', hB, hC⟩ := reshapeTxn_ok h3
    have fA := reshapeInterim_frame _ _ hA fU.ids
    have fC := reshapeFinal_frame _ _ hC (setAllocations_frame hB fA.ids).ids
    have hrB := setAllocations_rps hB fA.ids.rpNodup
    obtain ⟨new, hn, hm⟩ := inspectConsumers_triples cfg mv cs db [] [] hins
    rw [List.nil_append] at hn; subst hn
    obtain ⟨t, ht, rfl⟩ : ∃ t ∈ triples, t.1 = c := by
      rw [← hm] at hc; obtain ⟨t, ht, rfl⟩ := List.mem_map.mp hc; exact ⟨t, ht, rfl⟩
    obtain ⟨o, ho, hsub⟩ := allocObjectsAll_mem hobj t ht
    obtain ⟨hprov, -, -⟩ := allocObjects_nonempty ho hne
    obtain ⟨rp, hrp, x, hx, hxid⟩ := hprov a ha
    have hrp' : db.rpByUuid a.1 = some rp := by
      have : db1.rps.find? (·.uuid == a.1) = some rp := hrp
      rw [hr1] at this; exact this
    -- before the allocation phase
    have hpre : (updateConsumers db1 triples).rps.find? (·.uuid == a.1) = some rp := by
      rw [hr2, hr1]; exact hrp'
    obtain ⟨rpA, hfA, hidA, hgenA⟩ := fA.rps.find_uuid hpre
    -- the allocation phase raises it by one
    have hkey : rpA.id ∈ (firstByKey (objs'.map (fun a => (a.rpId, a.rpGen)))).map (·.1) := by
      rw [firstByKey_keys, List.map_map]
      have : x.rpId ∈ objs'.map (·.rpId) := by rw [hobjs']; exact List.mem_map.mpr ⟨x, hsub x hx, rfl⟩
      rw [hidA, ← hxid]; exact this
    have hfB : dbB.rps.find? (·.uuid == a.1) = some { rpA with gen := rpA.gen + 1 } := by
      rw [hrB]; exact mem_bumpAll_keys hfA hkey
    -- the final inventories only raise generations
    obtain ⟨rpC, hfC, hidC, hgenC⟩ := fC.rps.find_uuid hfB
    refine ⟨rp, rpC, hrp', ?_, hidC.trans hidA, ?_⟩
    · show (hReshape cfg db mv invs cs).1.rps.find? (·.uuid == a.1) = _
      rw [hres]; exact hfC
    · simp only at hgenC; omega
  · exact ok_false_of_400 h hst

end Placement.Gens
