/-
  Helper lemmas for C16: `rule:` references can be inlined, and two reference-free checks that agree
  on every assignment of their (finitely many) atoms agree for every caller and target.
-/
import Placement.Model.Policy

namespace Placement.Policy

/-- The leaves of a check whose value depends on the caller / target. -/
inductive Atom
  | role (r : Name)
  | generic (k : Name) (m : Match)
deriving DecidableEq, Repr

/-- Value of a check in which every `rule:` reference has been inlined (a left-over reference is false). -/
def evalA (σ : Atom → Bool) : Check → Bool
  | .tt => true
  | .ff => false
  | .role r => σ (.role r)
  | .rule _ => false
  | .generic k m => σ (.generic k m)
  | .and a b => evalA σ a && evalA σ b
  | .or a b => evalA σ a || evalA σ b
  | .not a => !evalA σ a

def atomVal (c : Creds) (t : Target) : Atom → Bool
  | .role r => hasRole c r
  | .generic k m => genericCheck c t k m

def inlineWith (sub : Name → Check) : Check → Check
  | .tt => .tt
  | .ff => .ff
  | .role r => .role r
  | .rule n => sub n
  | .generic k m => .generic k m
  | .and a b => .and (inlineWith sub a) (inlineWith sub b)
  | .or a b => .or (inlineWith sub a) (inlineWith sub b)
  | .not a => .not (inlineWith sub a)

/-- The check a rule name stands for, with `fuel` levels of references expanded
(unknown rule / exhausted fuel = `!`, exactly as `ruleVal`). -/
def inlineRule (rules : Rules) : Nat → Name → Check
  | 0, _ => .ff
  | fuel + 1, name =>
    match rules.lookup name with
    | none => .ff
    | some k => inlineWith (inlineRule rules fuel) k

theorem evalA_inlineWith (c : Creds) (t : Target) (sub : Name → Check) (k : Check) :
    evalA (atomVal c t) (inlineWith sub k)
      = evalWith (fun n => evalA (atomVal c t) (sub n)) c t k := by
  induction k with
  | tt => rfl
  | ff => rfl
  | role r => rfl
  | rule n => rfl
  | generic k m => rfl
  | and a b iha ihb => simp [inlineWith, evalA, evalWith, iha, ihb]
  | or a b iha ihb => simp [inlineWith, evalA, evalWith, iha, ihb]
  | not a iha => simp [inlineWith, evalA, evalWith, iha]

theorem ruleVal_eq_evalA (rules : Rules) (c : Creds) (t : Target) :
    ∀ (fuel : Nat) (name : Name),
      ruleVal rules c t fuel name = evalA (atomVal c t) (inlineRule rules fuel name) := by
  intro fuel
  induction fuel with
  | zero => intro name; rfl
  | succ n ih =>
    intro name
    simp only [ruleVal, inlineRule]
    cases h : rules.lookup name with
    | none => rfl
    | some k =>
      simp only []
      rw [evalA_inlineWith]
      have : ruleVal rules c t n = fun m => evalA (atomVal c t) (inlineRule rules n m) := funext ih
      rw [this]

/-! ### Finite truth tables -/

def atomsOf : Check → List Atom
  | .tt => []
  | .ff => []
  | .role r => [.role r]
  | .rule _ => []
  | .generic k m => [.generic k m]
  | .and a b => atomsOf a ++ atomsOf b
  | .or a b => atomsOf a ++ atomsOf b
  | .not a => atomsOf a

def assign (l : List (Atom × Bool)) (a : Atom) : Bool := (l.lookup a).getD false

def assignments : List Atom → List (List (Atom × Bool))
  | [] => [[]]
  | a :: as => (assignments as).flatMap (fun l => [(a, true) :: l, (a, false) :: l])

/-- Do the two checks have the same value under every assignment of their atoms? -/
def equivChecks (k s : Check) : Bool :=
  (assignments (atomsOf k ++ atomsOf s)).all (fun l => evalA (assign l) k == evalA (assign l) s)

theorem evalA_congr (σ τ : Atom → Bool) (k : Check) (h : ∀ a ∈ atomsOf k, σ a = τ a) :
    evalA σ k = evalA τ k := by
  induction k with
  | tt => rfl
  | ff => rfl
  | role r => exact h _ (by simp [atomsOf])
  | rule n => rfl
  | generic k m => exact h _ (by simp [atomsOf])
  | and a b iha ihb =>
    simp only [evalA]
    rw [iha (fun x hx => h x (by simp [atomsOf, hx])), ihb (fun x hx => h x (by simp [atomsOf, hx]))]
  | or a b iha ihb =>
    simp only [evalA]
    rw [iha (fun x hx => h x (by simp [atomsOf, hx])), ihb (fun x hx => h x (by simp [atomsOf, hx]))]
  | not a iha =>
    simp only [evalA]
    rw [iha (fun x hx => h x (by simpa [atomsOf] using hx))]

theorem mem_assignments (σ : Atom → Bool) :
    ∀ as : List Atom, as.map (fun a => (a, σ a)) ∈ assignments as := by
  intro as
  induction as with
  | nil => simp [assignments]
  | cons a as ih =>
    simp only [assignments, List.map_cons, List.mem_flatMap]
    refine ⟨_, ih, ?_⟩
    cases σ a <;> simp

theorem assign_map (σ : Atom → Bool) :
    ∀ (as : List Atom) (a : Atom), a ∈ as → assign (as.map (fun b => (b, σ b))) a = σ a := by
  intro as
  induction as with
  | nil => intro a h; cases h
  | cons b as ih =>
    intro a h
    by_cases hab : a = b
    · subst hab
      simp [assign]
    · have hmem : a ∈ as := by
        cases h with
        | head => exact absurd rfl hab
        | tail _ h' => exact h'
      have hne : (a == b) = false := by simpa using hab
      have := ih a hmem
      simp only [assign, List.map_cons, List.lookup, hne] at this ⊢
      exact this

theorem equivChecks_sound (k s : Check) (h : equivChecks k s = true) (σ : Atom → Bool) :
    evalA σ k = evalA σ s := by
  let as := atomsOf k ++ atomsOf s
  let l := as.map (fun a => (a, σ a))
  have hl : l ∈ assignments as := mem_assignments σ as
  have hall := List.all_eq_true.mp h l hl
  have hk : evalA σ k = evalA (assign l) k :=
    evalA_congr _ _ _ (fun a ha => (assign_map σ as a (by simp [as, ha])).symm)
  have hs : evalA σ s = evalA (assign l) s :=
    evalA_congr _ _ _ (fun a ha => (assign_map σ as a (by simp [as, ha])).symm)
  rw [hk, hs]
  simpa using hall

theorem scopeOk_project (c : Creds) : scopeOk [n!"project"] c = true ↔ tokenScope c = n!"project" := by
  simp [scopeOk]

theorem evalRule_override_self (name : Name) (x : Check) (rest : Rules) (c : Creds) (t : Target)
    (hx : x = .tt ∨ x = .ff) : evalRule ((name, x) :: rest) name c t = (x == .tt) := by
  unfold evalRule fuelFor
  simp only [List.length_cons, ruleVal, List.lookup, beq_self_eq_true]
  rcases hx with rfl | rfl <;> simp [evalWith]

end Placement.Policy
