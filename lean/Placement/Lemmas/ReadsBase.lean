import Placement.Model.Reads
/-
  Helper lemmas for `Props/C11Reads.lean`: sums over groups, `eraseDups`, accessors of `Body`.
-/
namespace Placement
namespace ReadsL

/-! ### lists -/

theorem nodup_eraseDups {α : Type} [BEq α] [LawfulBEq α] (l : List α) : l.eraseDups.Nodup := by
  generalize hn : l.length = n
  induction n using Nat.strongRecOn generalizing l with
  | _ n ih =>
    cases l with
    | nil => simp
    | cons a as =>
      rw [List.eraseDups_cons, List.nodup_cons]
      constructor
      · intro h
        rw [List.mem_eraseDups, List.mem_filter] at h
        simp at h
      · have hlen : (as.filter (fun b => !b == a)).length < n := by
          have := List.length_filter_le (fun b => !b == a) as
          simp at hn; omega
        exact ih _ hlen _ rfl

theorem eq_of_nodup_map {α β : Type} (f : α → β) :
    ∀ (l : List α), (l.map f).Nodup → ∀ a ∈ l, ∀ b ∈ l, f a = f b → a = b := by
  intro l
  induction l with
  | nil => intro _ a ha; cases ha
  | cons x xs ih =>
    intro hnd a ha b hb hab
    simp only [List.map_cons, List.nodup_cons, List.mem_map, not_exists, not_and] at hnd
    rcases List.mem_cons.mp ha with rfl | ha' <;> rcases List.mem_cons.mp hb with rfl | hb'
    · rfl
    · exact absurd hab.symm (hnd.1 b hb')
    · exact absurd hab (hnd.1 a ha')
    · exact ih hnd.2 a ha' b hb' hab

theorem sum_map_add {α : Type} (f g : α → Int) (l : List α) :
    (l.map (fun x => f x + g x)).sum = (l.map f).sum + (l.map g).sum := by
  induction l with
  | nil => simp
  | cons a as ih => simp only [List.map_cons, List.sum_cons, ih]; omega

theorem sum_map_zero {α : Type} (l : List α) (f : α → Int) (h : ∀ x ∈ l, f x = 0) : (l.map f).sum = 0 := by
  induction l with
  | nil => simp
  | cons a as ih =>
    simp only [List.map_cons, List.sum_cons]
    rw [h a (List.mem_cons_self ..), ih (fun x hx => h x (List.mem_cons_of_mem _ hx))]; rfl

theorem sum_map_congr {α : Type} (l : List α) (f g : α → Int) (h : ∀ x ∈ l, f x = g x) :
    (l.map f).sum = (l.map g).sum := by
  induction l with
  | nil => simp
  | cons a as ih =>
    simp only [List.map_cons, List.sum_cons]
    rw [h a (List.mem_cons_self ..), ih (fun x hx => h x (List.mem_cons_of_mem _ hx))]

/-- `Σ_{k ∈ ks} [k = x] · v = v` when `x` occurs exactly once in `ks` -/
theorem sum_indicator {κ : Type} [DecidableEq κ] (ks : List κ) (hnd : ks.Nodup) (x : κ) (hx : x ∈ ks) (v : Int) :
    (ks.map (fun k => if x = k then v else 0)).sum = v := by
  induction ks with
  | nil => cases hx
  | cons k ks ih =>
    rw [List.nodup_cons] at hnd
    simp only [List.map_cons, List.sum_cons]
    rcases List.mem_cons.mp hx with rfl | hx'
    · simp only [if_true]
      rw [sum_map_zero ks _ (fun y hy => by
        by_cases hxy : x = y
        · subst hxy; exact absurd hy hnd.1
        · simp [hxy])]
      omega
    · have hne : x ≠ k := fun h => hnd.1 (h ▸ hx')
      simp only [hne, if_false]
      rw [ih hnd.2 hx']; omega

/-- partition of a sum by a key: if every element's key is in the duplicate-free list `ks`, the sum
over the list is the sum over the keys of the sums over the elements carrying that key -/
theorem sum_by_key {α κ : Type} [DecidableEq κ] (key : α → κ) (f : α → Int) (ks : List κ) (hnd : ks.Nodup) :
    ∀ (l : List α), (∀ a ∈ l, key a ∈ ks) →
      (l.map f).sum = (ks.map (fun k => ((l.filter (fun a => key a == k)).map f).sum)).sum := by
  intro l
  induction l with
  | nil => intro _; simp; exact (sum_map_zero ks _ (fun _ _ => rfl)).symm
  | cons a as ih =>
    intro h
    have ha := h a (List.mem_cons_self ..)
    have ih' := ih (fun b hb => h b (List.mem_cons_of_mem _ hb))
    have hrw : ∀ k, (((a :: as).filter (fun b => key b == k)).map f).sum
        = (if key a = k then f a else 0) + ((as.filter (fun b => key b == k)).map f).sum := by
      intro k
      by_cases hk : key a = k
      · simp [hk]
      · simp [hk]
    simp only [List.map_cons, List.sum_cons]
    rw [show (fun k => (((a :: as).filter (fun b => key b == k)).map f).sum)
          = (fun k => (if key a = k then f a else 0) + ((as.filter (fun b => key b == k)).map f).sum) from funext hrw]
    rw [sum_map_add, sum_indicator ks hnd (key a) ha (f a), ih']

/-- the special case `ks = eraseDups (keys of l)` -/
theorem sum_by_key_eraseDups {α κ : Type} [DecidableEq κ] (key : α → κ) (f : α → Int) (l : List α) :
    (l.map f).sum = (((l.map key).eraseDups).map (fun k => ((l.filter (fun a => key a == k)).map f).sum)).sum :=
  sum_by_key key f _ (nodup_eraseDups _) l (fun a ha => by
    rw [List.mem_eraseDups]; exact List.mem_map_of_mem ha)

/-! ### bodies -/

variable {R : Type}

@[simp] theorem fields_obj (kvs : List (Key × Body R)) : (Body.obj kvs).fields = kvs := rfl
@[simp] theorem fields_null : (Body.null : Body R).fields = [] := rfl
@[simp] theorem items_arr (xs : List (Body R)) : (Body.arr xs).items = xs := rfl

theorem named_map (ks : List α) (f : α → Nat) (g : α → Body R) :
    (Body.obj (ks.map (fun k => (Key.nm (f k), g k)))).named = ks.map (fun k => (f k, g k)) := by
  simp only [Body.named, fields_obj]
  induction ks with
  | nil => rfl
  | cons k ks ih => simp [ih]

theorem namedInts_filterMap (rows : List α) (nm : α → Option Nat) (v : α → Int) :
    (Body.obj (R := R) (rows.filterMap (fun a => (nm a).map (fun n => (Key.nm n, Body.int (v a)))))).namedInts
      = rows.filterMap (fun a => (nm a).map (fun n => (n, v a))) := by
  simp only [Body.namedInts, fields_obj]
  induction rows with
  | nil => rfl
  | cons a as ih =>
    cases h : nm a with
    | none => simp [h, ih]
    | some n => simp [h, ih]

theorem namedInts_resourcesObj (db : DB R) (rows : List AllocRow) :
    (resourcesObj db rows).namedInts = rows.filterMap (fun a => (db.rcName a.rc).map (fun n => (n, a.used))) :=
  namedInts_filterMap rows (fun a => db.rcName a.rc) (·.used)

/-- appending a member whose key is a field name does not change the named integer members -/
theorem namedInts_append_fld (kvs : List (Key × Body R)) (f : Fld) (b : Body R) :
    (Body.obj (kvs ++ [(Key.fld f, b)])).namedInts = (Body.obj kvs).namedInts := by
  simp [Body.namedInts, List.filterMap_append]

/-! ### lookups -/

theorem rpByUuid_mem {db : DB R} {u : Nat} {p : RpRow} (h : db.rpByUuid u = some p) : p ∈ db.rps ∧ p.uuid = u := by
  unfold DB.rpByUuid at h
  exact ⟨List.mem_of_find?_eq_some h, by simpa using List.find?_some h⟩

theorem rpById_mem {db : DB R} {i : Nat} {p : RpRow} (h : db.rpById i = some p) : p ∈ db.rps ∧ p.id = i := by
  unfold DB.rpById at h
  exact ⟨List.mem_of_find?_eq_some h, by simpa using List.find?_some h⟩

theorem consByUuid_mem {db : DB R} {u : Nat} {c : ConsRow} (h : db.consByUuid u = some c) :
    c ∈ db.consumers ∧ c.uuid = u := by
  unfold DB.consByUuid at h
  exact ⟨List.mem_of_find?_eq_some h, by simpa using List.find?_some h⟩

theorem rpById_of_mem {db : DB R} (hid : (db.rps.map (·.id)).Nodup) {p : RpRow} (hp : p ∈ db.rps) :
    db.rpById p.id = some p := by
  unfold DB.rpById
  cases h : db.rps.find? (·.id == p.id) with
  | none =>
    rw [List.find?_eq_none] at h
    exact absurd (h p hp) (by simp)
  | some q =>
    have hq := List.mem_of_find?_eq_some h
    have hqi : q.id = p.id := by simpa using List.find?_some h
    rw [eq_of_nodup_map (·.id) db.rps hid q hq p hp hqi]

theorem consByUuid_of_mem {db : DB R} (hu : (db.consumers.map (·.uuid)).Nodup) {c : ConsRow} (hc : c ∈ db.consumers) :
    db.consByUuid c.uuid = some c := by
  unfold DB.consByUuid
  cases h : db.consumers.find? (·.uuid == c.uuid) with
  | none =>
    rw [List.find?_eq_none] at h
    exact absurd (h c hc) (by simp)
  | some q =>
    have hq := List.mem_of_find?_eq_some h
    have hqi : q.uuid = c.uuid := by simpa using List.find?_some h
    rw [eq_of_nodup_map (·.uuid) db.consumers hu q hq c hc hqi]

theorem provider_some {db : DB R} {u : Nat} {v : RpView} (h : provider db u = some v) :
    db.rpByUuid u = some v.row ∧ rpView db v.row = some v := by
  unfold provider at h
  cases hp : db.rpByUuid u with
  | none => simp [hp] at h
  | some p =>
    simp only [hp, Option.bind_some] at h
    have hv : v.row = p := by
      unfold rpView at h
      cases hr : db.rpById p.root with
      | none => simp [hr] at h
      | some root => simp only [hr, Option.some.injEq] at h; rw [← h]
    rw [hv]; exact ⟨rfl, h⟩

end ReadsL
end Placement
