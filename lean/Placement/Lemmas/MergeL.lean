import Placement.Model.Merge
/-
  Lemmas about `_consolidate_allocation_requests` (Model/Merge.lean `consolidateArrs`), for an ARBITRARY copy rule
  `cp : class ↦ Bool` in place of the generated `Gen.copyArrNeeded`:

  `consolidateArrs_spec`: if every (provider, class) key that occurs more than once among the resource objects of a
  combination belongs to a class the rule copies, then consolidating the combination
    * leaves every object that existed before untouched (no shared AllocationRequestResource is mutated), and
    * yields, per key, one object whose amount is the SUM of the amounts of the objects with that key.
-/
namespace Placement.Merge

def keyOf (a : Arr) : Nat × Nat := (a.rp, a.rc)

/-- `consolidateArrs` with the copy decision abstracted -/
def consArrs (cp : Nat → Bool) : Store → List ((Nat × Nat) × Nat) → List Nat → Store × List ((Nat × Nat) × Nat)
  | st, acc, [] => (st, acc)
  | st, acc, i :: is =>
    let a := getArr st i
    match lookupKey (a.rp, a.rc) acc with
    | none =>
      if cp a.rc then consArrs cp (st ++ [a]) (acc ++ [((a.rp, a.rc), st.length)]) is
      else consArrs cp st (acc ++ [((a.rp, a.rc), i)]) is
    | some j => consArrs cp (addTo st j a.amount) acc is

theorem consolidateArrs_eq (ctx : Ctx) (st : Store) (acc : List ((Nat × Nat) × Nat)) (is : List Nat) :
    consolidateArrs ctx st acc is =
      consArrs (fun rc => Gen.copyArrNeeded ctx.policyNone ctx.isolate (ctx.multiRcs.contains rc)) st acc is := by
  induction is generalizing st acc with
  | nil => rfl
  | cons i is ih =>
    simp only [consolidateArrs, consArrs]
    cases lookupKey ((getArr st i).rp, (getArr st i).rc) acc with
    | none => simp only []; split <;> exact ih _ _
    | some j => exact ih _ _

/-- how often key `k` occurs among the objects `is` of the original store -/
def countKey (st0 : Store) (k : Nat × Nat) : List Nat → Nat
  | [] => 0
  | i :: is => (if keyOf (getArr st0 i) = k then 1 else 0) + countKey st0 k is

/-- the amounts of the objects with key `k`, added up -/
def sumKey (st0 : Store) (k : Nat × Nat) : List Nat → Int
  | [] => 0
  | i :: is => (if keyOf (getArr st0 i) = k then (getArr st0 i).amount else 0) + sumKey st0 k is

theorem countKey_append (st0 : Store) (k : Nat × Nat) (a b : List Nat) :
    countKey st0 k (a ++ b) = countKey st0 k a + countKey st0 k b := by
  induction a with
  | nil => simp [countKey]
  | cons x xs ih => simp only [List.cons_append, countKey, ih]; omega

theorem sumKey_append (st0 : Store) (k : Nat × Nat) (a b : List Nat) :
    sumKey st0 k (a ++ b) = sumKey st0 k a + sumKey st0 k b := by
  induction a with
  | nil => simp [sumKey]
  | cons x xs ih => simp only [List.cons_append, sumKey, ih]; omega

theorem sumKey_zero_of_count (st0 : Store) (k : Nat × Nat) (l : List Nat) (h : countKey st0 k l = 0) :
    sumKey st0 k l = 0 := by
  induction l with
  | nil => rfl
  | cons x xs ih =>
    simp only [countKey] at h
    simp only [sumKey]
    split
    · rename_i hk; simp [hk] at h
    · rw [ih (by omega)]; rfl

theorem lookupKey_some {k : Nat × Nat} {acc : List ((Nat × Nat) × Nat)} {j : Nat} (h : lookupKey k acc = some j) :
    (k, j) ∈ acc := by
  induction acc with
  | nil => simp [lookupKey] at h
  | cons e rest ih =>
    obtain ⟨k', v⟩ := e
    simp only [lookupKey] at h
    split at h
    · rename_i hk; cases h; subst hk; exact List.mem_cons_self
    · exact List.mem_cons_of_mem _ (ih h)

theorem lookupKey_none {k : Nat × Nat} {acc : List ((Nat × Nat) × Nat)} (h : lookupKey k acc = none) :
    ∀ e ∈ acc, e.1 ≠ k := by
  induction acc with
  | nil => intro e he; cases he
  | cons e rest ih =>
    obtain ⟨k', v⟩ := e
    simp only [lookupKey] at h
    split at h
    · cases h
    · rename_i hk
      intro e he
      rcases List.mem_cons.mp he with rfl | he
      · exact fun h' => hk h'.symm
      · exact ih h e he

theorem lookupKey_append_none {k : Nat × Nat} {acc : List ((Nat × Nat) × Nat)} {k' : Nat × Nat} {v : Nat}
    (h : lookupKey k (acc ++ [(k', v)]) = none) : lookupKey k acc = none ∧ k ≠ k' := by
  induction acc with
  | nil =>
    simp only [List.nil_append, lookupKey] at h
    split at h
    · cases h
    · rename_i hk; exact ⟨rfl, hk⟩
  | cons e rest ih =>
    obtain ⟨k2, v2⟩ := e
    simp only [List.cons_append, lookupKey] at h ⊢
    split at h
    · cases h
    · rename_i hk; simp only [hk, if_false]; exact ih h

theorem eq_of_nodup_keys {l : List ((Nat × Nat) × Nat)} (h : (l.map (·.1)).Nodup) {a b : (Nat × Nat) × Nat}
    (ha : a ∈ l) (hb : b ∈ l) (hk : a.1 = b.1) : a = b := by
  induction l with
  | nil => cases ha
  | cons x xs ih =>
    simp only [List.map_cons, List.nodup_cons, List.mem_map, not_exists, not_and] at h
    rcases List.mem_cons.mp ha with rfl | ha' <;> rcases List.mem_cons.mp hb with rfl | hb'
    · rfl
    · exact absurd hk.symm (h.1 b hb')
    · exact absurd hk (h.1 a ha')
    · exact ih h.2 ha' hb'

theorem getArr_append_lt (st : Store) (a : Arr) {n : Nat} (h : n < st.length) : getArr (st ++ [a]) n = getArr st n := by
  simp [getArr, List.getD, List.getElem?_append_left h]

theorem getArr_append_self (st : Store) (a : Arr) : getArr (st ++ [a]) st.length = a := by
  simp [getArr, List.getD]

theorem getArr_addTo_ne (st : Store) (j n : Nat) (x : Int) (h : n ≠ j) : getArr (addTo st j x) n = getArr st n := by
  simp [getArr, addTo, List.getD, List.getElem?_set_ne (Ne.symm h)]

theorem getArr_addTo_self (st : Store) (j : Nat) (x : Int) (h : j < st.length) :
    getArr (addTo st j x) j = { getArr st j with amount := (getArr st j).amount + x } := by
  simp [getArr, addTo, List.getD, List.getElem?_set_self h]

theorem length_addTo (st : Store) (j : Nat) (x : Int) : (addTo st j x).length = st.length := by
  simp [addTo]

/-- the invariant of the loop: `done` = the objects processed so far -/
structure Inv (cp : Nat → Bool) (st0 : Store) (n0 : Nat) (st : Store) (acc : List ((Nat × Nat) × Nat)) (done : List Nat) :
    Prop where
  len : n0 ≤ st.length
  frame : ∀ n, n < n0 → getArr st n = getArr st0 n
  entry : ∀ e ∈ acc, e.2 < st.length ∧ keyOf (getArr st e.2) = e.1 ∧ (getArr st e.2).amount = sumKey st0 e.1 done ∧
    1 ≤ countKey st0 e.1 done
  uncopied : ∀ e ∈ acc, e.2 < n0 → cp e.1.2 = false
  keys : (acc.map (·.1)).Nodup
  fresh : ∀ k, lookupKey k acc = none → countKey st0 k done = 0

theorem consArrs_inv (cp : Nat → Bool) (st0 : Store) (n0 : Nat) (all : List Nat)
    (hdup : ∀ k, 2 ≤ countKey st0 k all → cp k.2 = true) :
    ∀ (rest done : List Nat) (st : Store) (acc : List ((Nat × Nat) × Nat)),
      done ++ rest = all → (∀ i ∈ rest, i < n0) → Inv cp st0 n0 st acc done →
      Inv cp st0 n0 (consArrs cp st acc rest).1 (consArrs cp st acc rest).2 all := by
  intro rest
  induction rest with
  | nil =>
    intro done st acc hall _ hinv
    simp only [List.append_nil] at hall
    subst hall
    exact hinv
  | cons i is ih =>
    intro done st acc hall hlt hinv
    have hi : i < n0 := hlt i List.mem_cons_self
    have ha : getArr st i = getArr st0 i := hinv.frame i hi
    have hall' : (done ++ [i]) ++ is = all := by rw [← hall]; simp
    have hcount : countKey st0 (keyOf (getArr st0 i)) all =
        countKey st0 (keyOf (getArr st0 i)) done + 1 + countKey st0 (keyOf (getArr st0 i)) is := by
      rw [← hall, countKey_append]; simp [countKey]; omega
    simp only [consArrs]
    rw [ha]
    cases hl : lookupKey ((getArr st0 i).rp, (getArr st0 i).rc) acc with
    | none =>
      have hne : ∀ e ∈ acc, e.1 ≠ keyOf (getArr st0 i) := lookupKey_none hl
      have hfresh0 : countKey st0 (keyOf (getArr st0 i)) done = 0 := hinv.fresh _ hl
      have hsum0 : sumKey st0 (keyOf (getArr st0 i)) done = 0 := sumKey_zero_of_count _ _ _ hfresh0
      -- old entries keep their invariant for `done ++ [i]`
      have hold : ∀ (st' : Store), (∀ n, n < st.length → getArr st' n = getArr st n) → st.length ≤ st'.length →
          ∀ e ∈ acc, e.2 < st'.length ∧ keyOf (getArr st' e.2) = e.1 ∧
            (getArr st' e.2).amount = sumKey st0 e.1 (done ++ [i]) ∧ 1 ≤ countKey st0 e.1 (done ++ [i]) := by
        intro st' hsame hle e he
        obtain ⟨h1, h2, h3, h4⟩ := hinv.entry e he
        have hk : keyOf (getArr st0 i) ≠ e.1 := fun h => hne e he h.symm
        refine ⟨Nat.lt_of_lt_of_le h1 hle, by rw [hsame _ h1]; exact h2, ?_, ?_⟩
        · rw [hsame _ h1, h3, sumKey_append]; simp [sumKey, hk]
        · rw [countKey_append]; omega
      have hfresh' : ∀ (v : Nat) k, lookupKey k (acc ++ [(keyOf (getArr st0 i), v)]) = none →
          countKey st0 k (done ++ [i]) = 0 := by
        intro v k hk
        obtain ⟨h1, h2⟩ := lookupKey_append_none hk
        have hne' : ¬ keyOf (getArr st0 i) = k := fun h => h2 h.symm
        rw [countKey_append, hinv.fresh k h1]
        simp [countKey, hne']
      have hkeys' : ∀ v : Nat, ((acc ++ [(keyOf (getArr st0 i), v)]).map (·.1)).Nodup := by
        intro v
        rw [List.map_append, List.nodup_append]
        refine ⟨hinv.keys, by simp, ?_⟩
        intro a ha b hb
        obtain ⟨e, he, rfl⟩ := List.mem_map.mp ha
        simp only [List.map_cons, List.map_nil, List.mem_singleton] at hb
        subst hb
        exact hne e he
      simp only
      split
      · -- a copy is made: a new object
        rename_i hcp
        refine ih (done ++ [i]) _ _ hall' (fun j hj => hlt j (List.mem_cons_of_mem _ hj)) ?_
        refine ⟨by rw [List.length_append]; exact Nat.le_trans hinv.len (Nat.le_add_right _ _),
          fun n hn => by rw [getArr_append_lt _ _ (Nat.lt_of_lt_of_le hn hinv.len)]; exact hinv.frame n hn, ?_, ?_,
          hkeys' _, hfresh' _⟩
        · intro e he
          rcases List.mem_append.mp he with he | he
          · exact hold _ (fun n hn => getArr_append_lt _ _ hn) (by simp) e he
          · simp only [List.mem_singleton] at he
            subst he
            refine ⟨by simp, by rw [getArr_append_self]; rfl, ?_, ?_⟩
            · rw [getArr_append_self]
              show (getArr st0 i).amount = sumKey st0 (keyOf (getArr st0 i)) (done ++ [i])
              rw [sumKey_append, hsum0]; simp [sumKey]
            · show 1 ≤ countKey st0 (keyOf (getArr st0 i)) (done ++ [i])
              rw [countKey_append]; simp [countKey]
        · intro e he hlt'
          rcases List.mem_append.mp he with he | he
          · exact hinv.uncopied e he hlt'
          · simp only [List.mem_singleton] at he
            subst he
            simp only at hlt'
            exact absurd hlt' (by have := hinv.len; omega)
      · -- no copy: the object itself is used
        rename_i hcp
        refine ih (done ++ [i]) _ _ hall' (fun j hj => hlt j (List.mem_cons_of_mem _ hj)) ?_
        refine ⟨hinv.len, hinv.frame, ?_, ?_, hkeys' _, hfresh' _⟩
        · intro e he
          rcases List.mem_append.mp he with he | he
          · exact hold st (fun _ _ => rfl) (Nat.le_refl _) e he
          · simp only [List.mem_singleton] at he
            subst he
            refine ⟨Nat.lt_of_lt_of_le hi hinv.len, by rw [ha]; rfl, ?_, ?_⟩
            · show (getArr st i).amount = sumKey st0 (keyOf (getArr st0 i)) (done ++ [i])
              rw [ha, sumKey_append, hsum0]; simp [sumKey]
            · show 1 ≤ countKey st0 (keyOf (getArr st0 i)) (done ++ [i])
              rw [countKey_append]; simp [countKey]
        · intro e he hlt'
          rcases List.mem_append.mp he with he | he
          · exact hinv.uncopied e he hlt'
          · simp only [List.mem_singleton] at he
            subst he
            simpa using hcp
    | some j =>
      have hmem : (keyOf (getArr st0 i), j) ∈ acc := lookupKey_some hl
      obtain ⟨hj1, hj2, hj3, hj4⟩ := hinv.entry _ hmem
      -- the object amounts are added onto is a copy
      have hjn : n0 ≤ j := by
        rcases Nat.lt_or_ge j n0 with hlt' | hge
        · have hcpf := hinv.uncopied _ hmem hlt'
          have : cp (keyOf (getArr st0 i)).2 = true := hdup _ (by simp only at hj4; omega)
          simp only at hcpf
          rw [hcpf] at this; cases this
        · exact hge
      simp only
      refine ih (done ++ [i]) _ _ hall' (fun j' hj' => hlt j' (List.mem_cons_of_mem _ hj')) ?_
      refine ⟨by rw [length_addTo]; exact hinv.len,
        fun n hn => by rw [getArr_addTo_ne _ _ _ _ (by omega)]; exact hinv.frame n hn, ?_, hinv.uncopied, hinv.keys, ?_⟩
      · intro e he
        obtain ⟨h1, h2, h3, h4⟩ := hinv.entry e he
        by_cases hej : e.2 = j
        · -- the entry of this key
          have hek : e.1 = keyOf (getArr st0 i) := by rw [← h2, hej, hj2]
          refine ⟨by rw [length_addTo]; exact h1, ?_, ?_, by rw [countKey_append]; omega⟩
          · rw [hej, getArr_addTo_self _ _ _ hj1]; rw [← hej]; exact h2
          · rw [hej, getArr_addTo_self _ _ _ hj1, sumKey_append, hek]
            simp only [sumKey, if_pos]
            rw [← hej, h3, hek]; omega
        · have hk : keyOf (getArr st0 i) ≠ e.1 := by
            intro hk
            -- two entries with the same key are the same entry
            have := hinv.keys
            have hidx : e = (keyOf (getArr st0 i), j) := eq_of_nodup_keys this he hmem hk.symm
            exact hej (by rw [hidx])
          refine ⟨by rw [length_addTo]; exact h1, by rw [getArr_addTo_ne _ _ _ _ hej]; exact h2, ?_,
            by rw [countKey_append]; omega⟩
          rw [getArr_addTo_ne _ _ _ _ hej, h3, sumKey_append]; simp [sumKey, hk]
      · intro k hk
        have hkne : keyOf (getArr st0 i) ≠ k := by
          intro h; subst h
          have hl' : lookupKey (keyOf (getArr st0 i)) acc = some j := hl
          rw [hl'] at hk; cases hk
        rw [countKey_append, hinv.fresh k hk]; simp [countKey, hkne]

/-- **consolidation is pure and adds up**, for every store and combination in which every key that occurs twice is of
a class the copy rule copies -/
theorem consArrs_spec (cp : Nat → Bool) (st : Store) (is : List Nat) (hlt : ∀ i ∈ is, i < st.length)
    (hdup : ∀ k, 2 ≤ countKey st k is → cp k.2 = true) :
    let r := consArrs cp st [] is
    (∀ n, n < st.length → getArr r.1 n = getArr st n) ∧
    (∀ e ∈ r.2, keyOf (getArr r.1 e.2) = e.1 ∧ (getArr r.1 e.2).amount = sumKey st e.1 is ∧ 1 ≤ countKey st e.1 is) ∧
    (r.2.map (·.1)).Nodup ∧
    (∀ k, 1 ≤ countKey st k is → ∃ e ∈ r.2, e.1 = k) := by
  have h := consArrs_inv cp st st.length is hdup is [] st [] rfl hlt
    ⟨Nat.le_refl _, fun _ _ => rfl, fun e he => (by cases he), fun e he => (by cases he), (by simp), fun _ _ => rfl⟩
  refine ⟨h.frame, fun e he => ⟨(h.entry e he).2.1, (h.entry e he).2.2.1, (h.entry e he).2.2.2⟩, h.keys, ?_⟩
  intro k hk
  cases hl : lookupKey k (consArrs cp st [] is).2 with
  | none => have := h.fresh k hl; omega
  | some j => exact ⟨_, lookupKey_some hl, rfl⟩

end Placement.Merge
