import Placement.Lemmas.CrashBase
import Placement.Lemmas.CrashAlloc
import Placement.Lemmas.CoreBase
/-
  C18, allocation writes, part 1: what holds of the state while a PUT /allocations/{c},
  POST /allocations or POST /reshaper request is between two transactions.

  * `AuxOnly db0 s`: `s` is the state `db0` before the request plus auxiliary records only: project, user and
    consumer-type names appended, and consumer rows appended that carry fresh ids and hold no allocation.
  * `G db0 s p`: the configuration (state `s`, rest `p` of the request) a crash can leave: the bundled
    invariants `WFI` hold, and `s` is `AuxOnly` unless the request has finished.
  * `Ph db0 ctx s`: the knowledge the request has while it ensures its consumers (`ensure_consumer`
    for each entry), in terms of its locals `ctx`.
  * `Kc db0 ids s`: the knowledge while it removes the consumers it created (failure paths).
-/
namespace Placement.Crash
open Placement Placement.Wf Placement.Sched Placement.Core
variable {R : Type}
set_option linter.unusedSectionVars false
set_option linter.unusedVariables false

/-! ### auxiliary records only -/

/-- `s` is `db0` plus project, user and consumer-type names and consumer rows without allocations -/
structure AuxOnly (db0 s : DB R) : Prop where
  rest : rest s = rest db0
  projects : db0.projects <+: s.projects
  users : db0.users <+: s.users
  ctypes : db0.ctypes <+: s.ctypes
  nextCons : db0.nextCons ≤ s.nextCons
  cons : ∃ extra, s.consumers = db0.consumers ++ extra ∧
    ∀ e ∈ extra, db0.nextCons ≤ e.id ∧ ∀ a ∈ s.allocs, a.consumer ≠ e.uuid

theorem AuxOnly.refl (db : DB R) : AuxOnly db db :=
  ⟨rfl, List.prefix_refl _, List.prefix_refl _, List.prefix_refl _, Nat.le_refl _, [], by simp, by simp⟩

theorem rest_allocs {a b : DB R} (h : rest a = rest b) : a.allocs = b.allocs := by
  simp only [Core.rest, RestState.mk.injEq] at h; exact h.2.2.1

theorem rest_rps {a b : DB R} (h : rest a = rest b) : a.rps = b.rps := by
  simp only [Core.rest, RestState.mk.injEq] at h; exact h.1

theorem rest_invs {a b : DB R} (h : rest a = rest b) : a.invs = b.invs := by
  simp only [Core.rest, RestState.mk.injEq] at h; exact h.2.1

/-- the configuration a crash can leave -/
def G (db0 : DB R) (s : DB R) (p : P R) : Prop := WFI s ∧ (AuxOnly db0 s ∨ ∃ r, p = .done r)

/-! ### `Residue`: names appended, nothing else -/

theorem wfi_residue {s s' : DB R} (h : WFI s) (r : Residue s s') : WFI s' := by
  rw [r.eq]
  refine ⟨{ h.uniq with freshCons := ?_ }, { h.ri with consProject := ?_, consUser := ?_, consType := ?_ },
    h.keys, h.pos⟩
  · intro c hc
    exact Nat.lt_of_lt_of_le (h.uniq.freshCons c hc) r.nextCons
  · intro c hc; exact r.projects.subset (h.ri.consProject c hc)
  · intro c hc; exact r.users.subset (h.ri.consUser c hc)
  · intro c hc t ht; exact r.ctypes.subset (h.ri.consType c hc t ht)

theorem residue_names (s : DB R) (ps us ts : List Nat) (hp : s.projects <+: ps) (hu : s.users <+: us)
    (ht : s.ctypes <+: ts) : Residue s { s with projects := ps, users := us, ctypes := ts } :=
  ⟨rfl, rfl, hp, hu, ht, Nat.le_refl _⟩

theorem residue_projects (s : DB R) (x : Nat) : Residue s { s with projects := addIfMissing s.projects x } :=
  ⟨rfl, rfl, prefix_addIfMissing _ _, List.prefix_refl _, List.prefix_refl _, Nat.le_refl _⟩

theorem residue_users (s : DB R) (x : Nat) : Residue s { s with users := addIfMissing s.users x } :=
  ⟨rfl, rfl, List.prefix_refl _, prefix_addIfMissing _ _, List.prefix_refl _, Nat.le_refl _⟩

theorem residue_ctypes (s : DB R) (x : Nat) : Residue s { s with ctypes := addIfMissing s.ctypes x } :=
  ⟨rfl, rfl, List.prefix_refl _, List.prefix_refl _, prefix_addIfMissing _ _, Nat.le_refl _⟩

/-! ### the knowledge while consumers are ensured -/

/-- the request's cache of consumer types is a subset of the table -/
def CacheOK (cache : Option (List Nat)) (s : DB R) : Prop := ∀ l, cache = some l → ∀ x ∈ l, x ∈ s.ctypes

/-- knowledge of an allocation-writing request between two entries of `inspect_consumers` -/
structure Ph (db0 : DB R) (ctx : ACtx R) (s : DB R) : Prop where
  wfi : WFI s
  ext : Ext db0 s ctx.created
  acc : ∀ t ∈ ctx.done, t.2.1 ∈ s.consumers ∧ t.2.1.uuid = t.1.uuid ∧ AttrOK s t.2.1 t.2.2
  cache : CacheOK ctx.ctCache s

theorem Ph.init {db0 : DB R} (h0 : WFI db0) (ctx : ACtx R) (hc : ctx.created = []) (hd : ctx.done = [])
    (hcc : ctx.ctCache = none) : Ph db0 ctx db0 :=
  ⟨h0, hc ▸ Ext.refl db0, (by rw [hd]; intro t ht; cases ht), (by rw [hcc]; intro l hl; cases hl)⟩

/-- the rows created by the request hold no allocations -/
theorem _root_.Placement.Core.Ext.createdOK {db0 s : DB R} {created : List Nat} (h0 : WFI db0) (hU : UniqC s)
    (h : Ext db0 s created) : ∀ e ∈ s.consumers, db0.nextCons ≤ e.id → ∀ a ∈ s.allocs, a.consumer ≠ e.uuid := by
  intro e he hid a ha hau
  obtain ⟨extra, hc, -, -⟩ := h.cons
  rw [rest_allocs h.rest] at ha
  obtain ⟨c0, hc0, e0⟩ := h0.ri.allocCons a ha
  have hc0' : c0 ∈ s.consumers := by rw [hc]; exact List.mem_append_left _ hc0
  have : c0 = e := L.eq_of_key_eq hU.consUuid hc0' he (e0.trans hau)
  subst this
  have := h0.uniq.freshCons c0 hc0
  omega

theorem _root_.Placement.Core.Ext.aux {db0 s : DB R} {created : List Nat} (h0 : WFI db0) (hU : UniqC s) (h : Ext db0 s created) :
    AuxOnly db0 s := by
  obtain ⟨extra, hc, hcr, hfr⟩ := h.cons
  refine ⟨h.rest, h.projects, h.users, h.ctypes, h.nextCons, extra, hc, ?_⟩
  intro e he
  exact ⟨hfr e he, h.createdOK h0 hU e (by rw [hc]; exact List.mem_append_right _ he) (hfr e he)⟩

theorem Ph.g {db0 : DB R} {ctx : ACtx R} {s : DB R} (h0 : WFI db0) (h : Ph db0 ctx s) (p : P R) : G db0 s p :=
  ⟨h.wfi, .inl (h.ext.aux h0 h.wfi.uniq)⟩

theorem _root_.Placement.Core.Ext.residue {db0 s s' : DB R} {created : List Nat} (h : Ext db0 s created) (r : Residue s s') :
    Ext db0 s' created :=
  ⟨r.rest.trans h.rest, h.projects.trans r.projects, h.users.trans r.users, h.ctypes.trans r.ctypes,
   Nat.le_trans h.nextCons r.nextCons, by rw [r.consumers]; exact h.cons⟩

theorem Ph.residue {db0 : DB R} {ctx : ACtx R} {s s' : DB R} (h : Ph db0 ctx s) (r : Residue s s') :
    Ph db0 ctx s' :=
  ⟨wfi_residue h.wfi r, h.ext.residue r,
   fun t ht => by
     obtain ⟨a, b, c⟩ := h.acc t ht
     exact ⟨by rw [r.consumers]; exact a, b,
       c.mono (fun _ hx => r.projects.subset hx) (fun _ hx => r.users.subset hx) (fun _ hx => r.ctypes.subset hx)⟩,
   fun l hl x hx => r.ctypes.subset (h.cache l hl x hx)⟩

/-- the cache of consumer types may be replaced by a correct one -/
theorem Ph.setCache {db0 : DB R} {ctx : ACtx R} {s : DB R} (h : Ph db0 ctx s) (cache : Option (List Nat))
    (hc : CacheOK cache s) : Ph db0 { ctx with ctCache := cache } s :=
  ⟨h.wfi, h.ext, h.acc, hc⟩

/-! ### removal of the consumers created by the request -/

structure Kc (db0 : DB R) (ids : List Nat) (s : DB R) : Prop where
  wfi : WFI s
  aux : AuxOnly db0 s
  ok : CreatedOK s ids
  fresh : ∀ id ∈ ids, db0.nextCons ≤ id

theorem Kc.g {db0 : DB R} {ids : List Nat} {s : DB R} (h : Kc db0 ids s) (p : P R) : G db0 s p :=
  ⟨h.wfi, .inl h.aux⟩

theorem Ph.kc {db0 : DB R} {ctx : ACtx R} {s : DB R} (h0 : WFI db0) (h : Ph db0 ctx s) :
    Kc db0 ctx.created s := by
  obtain ⟨extra, hc, hcr, hfr⟩ := h.ext.cons
  refine ⟨h.wfi, h.ext.aux h0 h.wfi.uniq, ?_, ?_⟩
  · intro c hcm hid
    rw [hcr] at hid
    obtain ⟨e, he, eid⟩ := List.mem_map.1 hid
    exact h.ext.createdOK h0 h.wfi.uniq c hcm (eid ▸ hfr e he)
  · intro id hid
    rw [hcr] at hid
    obtain ⟨e, he, rfl⟩ := List.mem_map.1 hid
    exact hfr e he

theorem Kc.nil {db0 : DB R} {ids : List Nat} {s : DB R} (h : Kc db0 ids s) : Kc db0 [] s :=
  ⟨h.wfi, h.aux, fun _ _ hi => (by cases hi), fun _ hi => (by cases hi)⟩

/-- one clean-up transaction -/
theorem Kc.delete {db0 : DB R} {id : Nat} {ids : List Nat} {s : DB R} (h0 : WFI db0)
    (h : Kc db0 (id :: ids) s) : Kc db0 ids (deleteConsumerRows s [id]) := by
  have hok1 : CreatedOK s [id] := fun c hc hi => h.ok c hc (by simp at hi; simp [hi])
  have w : WFI (deleteConsumerRows s [id]) :=
    h.wfi.of_allocs_eq (uniqC_deleteConsumerRows h.wfi.uniq _) (ri_deleteConsumerRows h.wfi.ri hok1) rfl
  refine ⟨w, ?_, ?_, fun i hi => h.fresh i (List.mem_cons_of_mem _ hi)⟩
  · obtain ⟨extra, hc, hex⟩ := h.aux.cons
    refine ⟨h.aux.rest, h.aux.projects, h.aux.users, h.aux.ctypes, h.aux.nextCons,
      extra.filter (fun c => !([id] : List Nat).contains c.id), ?_, ?_⟩
    · show s.consumers.filter _ = _
      rw [hc, List.filter_append]
      congr 1
      rw [List.filter_eq_self]
      intro c hcm
      have h1 := h0.uniq.freshCons c hcm
      have h2 := h.fresh id (List.mem_cons_self ..)
      simp only [List.contains_eq_mem, List.mem_singleton, Bool.not_eq_eq_eq_not, Bool.not_true,
        decide_eq_false_iff_not]
      omega
    · intro e he
      exact hex e (List.mem_filter.1 he).1
  · intro c hc hi a ha
    exact h.ok c (List.mem_filter.1 hc).1 (List.mem_cons_of_mem _ hi) a ha

variable [CapOps R]

theorem aCleanup_path {db0 : DB R} (h0 : WFI db0) (r : Resp) : ∀ ids : List Nat,
    Path (G db0) (Kc db0 ids) (.txn .cleanup (aCleanup (R := R) r ids))
  | [] => Path.txn' _ _ (fun _ s' => Kc db0 [] s') (fun s hs => ⟨hs.g _, hs, .done _ _⟩)
  | [id] => Path.txn' _ _ (fun _ s' => Kc db0 [] s')
      (fun s hs => ⟨(hs.delete h0).g _, hs.delete h0, .done _ _⟩)
  | id :: id' :: rest => Path.txn' _ _ (fun _ s' => Kc db0 (id' :: rest) s')
      (fun s hs => ⟨(hs.delete h0).g _, hs.delete h0, aCleanup_path h0 r (id' :: rest)⟩)

theorem cleanupThen_path {db0 : DB R} (h0 : WFI db0) (ids : List Nat) (r : Resp) :
    Path (G db0) (Kc db0 ids) (cleanupThen (R := R) ids r) := by
  unfold cleanupThen
  split
  · exact .done _ _
  · exact aCleanup_path h0 r ids

/-- failure exit of a read transaction: the state is known exactly -/
theorem cleanupThen_at {db0 : DB R} (h0 : WFI db0) {ctx : ACtx R} {s : DB R} (h : Ph db0 ctx s) (r : Resp) :
    Path (G db0) (fun s' => s' = s) (cleanupThen (R := R) ctx.created r) :=
  (cleanupThen_path h0 ctx.created r).at (h.kc h0)

end Placement.Crash
