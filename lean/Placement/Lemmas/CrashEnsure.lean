import Placement.Lemmas.CrashPhase
/-
  C18, allocation writes, part 2: the transactions of `ensure_consumer` (project, user, consumer
  lookup, consumer type, consumer creation) for one entry, along the sequential path: each leaves
  a state that is the original one plus auxiliary records (`G`), and re-establishes the knowledge `Ph`
  for the next entry.
-/
namespace Placement.Crash
open Placement Placement.Wf Placement.Sched Placement.Core
variable {R : Type} [CapOps R] {db0 : DB R}
set_option linter.unusedSectionVars false
set_option linter.unusedVariables false

/-- project and user of the entry are recorded -/
def PU (cfg : Config) (c : ConsumerReq) (s : DB R) : Prop :=
  Placement.reqProject cfg c ∈ s.projects ∧ Placement.reqUser cfg c ∈ s.users

/-- what the consumer lookup found is still true -/
def Found (c : ConsumerReq) (found : Option ConsRow) (s : DB R) : Prop :=
  match found with
  | some cons => cons ∈ s.consumers ∧ cons.uuid = c.uuid
  | none => s.consByUuid c.uuid = none

/-- the consumer type of the entry is recorded -/
def TOK (t : Option Nat) (s : DB R) : Prop := ∀ x, t = some x → x ∈ s.ctypes

/-- the rest of the request after this entry -/
def Cont (db0 : DB R) (ctx : ACtx R) (c : ConsumerReq) (k : ACtx R → P R) : Prop :=
  ∀ ctx' : ACtx R, ctx'.done.map (·.1) = ctx.done.map (·.1) ++ [c] → Path (G db0) (Ph db0 ctx') (k ctx')

theorem PU.residue {cfg : Config} {c : ConsumerReq} {s s' : DB R} (h : PU cfg c s) (r : Residue s s') :
    PU cfg c s' := ⟨r.projects.subset h.1, r.users.subset h.2⟩

theorem Found.residue {c : ConsumerReq} {found : Option ConsRow} {s s' : DB R} (h : Found c found s)
    (r : Residue s s') : Found c found s' := by
  cases found with
  | some cons => exact ⟨by rw [r.consumers]; exact h.1, h.2⟩
  | none => show s'.consByUuid c.uuid = none; unfold DB.consByUuid; rw [r.consumers]; exact h

/-! ### the consumer row -/

def newRow (ctx : ACtx R) (c : ConsumerReq) (t : Option Nat) (s : DB R) : ConsRow :=
  { id := s.nextCons, uuid := c.uuid, project := Placement.reqProject ctx.cfg c,
    user := Placement.reqUser ctx.cfg c, ctype := t, gen := 0 }

def addConsRow (ctx : ACtx R) (c : ConsumerReq) (t : Option Nat) (s : DB R) : DB R :=
  { s with consumers := s.consumers ++ [newRow ctx c t s], nextCons := s.nextCons + 1 }

def attrOf (ctx : ACtx R) (c : ConsumerReq) (t : Option Nat) : ReqAttr :=
  { project := Placement.reqProject ctx.cfg c, user := Placement.reqUser ctx.cfg c, ctype := t }

def newCtx (ctx : ACtx R) (c : ConsumerReq) (t : Option Nat) (s : DB R) : ACtx R :=
  { ctx with done := ctx.done ++ [(c, newRow ctx c t s, attrOf ctx c t)],
             created := ctx.created ++ [(newRow ctx c t s).id] }

theorem aCreateConsumer_eq (ctx : ACtx R) (c : ConsumerReq) (t : Option Nat) (k : ACtx R → P R) (s : DB R)
    (hn : s.consByUuid c.uuid = none) :
    aCreateConsumer ctx c t k s = (addConsRow ctx c t s, k (newCtx ctx c t s)) := by
  unfold aCreateConsumer
  simp only [hn]
  rfl

theorem Ph.addCons {ctx : ACtx R} {c : ConsumerReq} {t : Option Nat} {s : DB R} (h : Ph db0 ctx s)
    (hpu : PU ctx.cfg c s) (hn : s.consByUuid c.uuid = none) (ht : TOK t s) :
    Ph db0 (newCtx ctx c t s) (addConsRow ctx c t s) := by
  have hU := h.wfi.uniq
  have hR := h.wfi.ri
  have w : WFI (addConsRow ctx c t s) := by
    refine h.wfi.of_allocs_eq ?_ ?_ rfl
    · exact { hU with
        consId := by
          show ((s.consumers ++ [newRow ctx c t s]).map (·.id)).Nodup
          rw [L.nodup_map_snoc]
          exact ⟨hU.consId, fun a ha => by have := hU.freshCons a ha; simp [newRow]; omega⟩
        consUuid := by
          show ((s.consumers ++ [newRow ctx c t s]).map (·.uuid)).Nodup
          rw [L.nodup_map_snoc]
          exact ⟨hU.consUuid, fun a ha => consByUuid_none hn a ha⟩
        freshCons := by
          intro x hx
          show x.id < s.nextCons + 1
          rcases List.mem_append.1 hx with hx | hx
          · have := hU.freshCons x hx; omega
          · simp at hx; subst hx; simp [newRow] }
    · exact { hR with
        allocCons := by
          intro a ha
          obtain ⟨x, hx, e⟩ := hR.allocCons a ha
          exact ⟨x, List.mem_append_left _ hx, e⟩
        consProject := by
          intro x hx
          rcases List.mem_append.1 hx with hx | hx
          · exact hR.consProject x hx
          · simp at hx; subst hx; exact hpu.1
        consUser := by
          intro x hx
          rcases List.mem_append.1 hx with hx | hx
          · exact hR.consUser x hx
          · simp at hx; subst hx; exact hpu.2
        consType := by
          intro x hx y hy
          rcases List.mem_append.1 hx with hx | hx
          · exact hR.consType x hx y hy
          · simp at hx; subst hx; exact ht y hy }
  refine ⟨w, ?_, ?_, h.cache⟩
  · obtain ⟨extra, hc, hcr, hfr⟩ := h.ext.cons
    refine ⟨h.ext.rest, h.ext.projects, h.ext.users, h.ext.ctypes, Nat.le_succ_of_le h.ext.nextCons,
      extra ++ [newRow ctx c t s], ?_, ?_, ?_⟩
    · show s.consumers ++ [newRow ctx c t s] = _
      rw [hc, List.append_assoc]
    · show ctx.created ++ [(newRow ctx c t s).id] = _
      rw [hcr]; simp
    · intro e he
      rcases List.mem_append.1 he with he | he
      · exact hfr e he
      · simp at he; subst he; exact h.ext.nextCons
  · intro x hx
    rcases List.mem_append.1 hx with hx | hx
    · obtain ⟨a, b, d⟩ := h.acc x hx
      exact ⟨List.mem_append_left _ a, b, d⟩
    · simp at hx; subst hx
      exact ⟨List.mem_append_right _ (List.mem_singleton_self _), rfl, hpu.1, hpu.2, ht, ht⟩

/-- an existing consumer is recorded in the locals -/
theorem Ph.addDone {ctx : ACtx R} {c : ConsumerReq} {t : Option Nat} {s : DB R} {cons : ConsRow}
    (h : Ph db0 ctx s) (hpu : PU ctx.cfg c s) (hf : cons ∈ s.consumers ∧ cons.uuid = c.uuid) (ht : TOK t s) :
    Ph db0 { ctx with done := ctx.done ++ [(c, cons, attrOf ctx c t)] } s := by
  refine ⟨h.wfi, h.ext, ?_, h.cache⟩
  intro x hx
  rcases List.mem_append.1 hx with hx | hx
  · exact h.acc x hx
  · simp at hx; subst hx
    exact ⟨hf.1, hf.2, hpu.1, hpu.2, ht, fun y hy => h.wfi.ri.consType cons hf.1 y hy⟩

/-! ### the stages of one entry, last to first -/

section stages
variable (h0 : WFI db0) {ctx : ACtx R} {c : ConsumerReq} {k : ACtx R → P R}
include h0

theorem aCreateConsumer_path (hk : Cont db0 ctx c k) (t : Option Nat) :
    Path (G db0) (fun s => Ph db0 ctx s ∧ PU ctx.cfg c s ∧ s.consByUuid c.uuid = none ∧ TOK t s)
      (.txn .createConsumer (aCreateConsumer ctx c t k)) := by
  refine Path.txn' _ _ (fun s s' => Ph db0 (newCtx ctx c t s) s') ?_
  rintro s ⟨hp, hpu, hn, ht⟩
  rw [aCreateConsumer_eq ctx c t k s hn]
  have hp' := hp.addCons hpu hn ht
  refine ⟨hp'.g h0 _, hp', hk _ ?_⟩
  simp [newCtx]

theorem aAfterType_path (hk : Cont db0 ctx c k) (found : Option ConsRow) (t : Option Nat) :
    Path (G db0) (fun s => Ph db0 ctx s ∧ PU ctx.cfg c s ∧ Found c found s ∧ TOK t s)
      (aAfterType ctx c found t k) := by
  cases found with
  | some cons =>
    show Path (G db0) _ (k { ctx with done := ctx.done ++ [(c, cons, attrOf ctx c t)] })
    refine (hk _ (by simp)).weaken ?_
    rintro s ⟨hp, hpu, hf, ht⟩
    exact hp.addDone hpu hf ht
  | none => exact aCreateConsumer_path h0 hk t

theorem aCreateCtype_path (hk : Cont db0 ctx c k) (found : Option ConsRow) (t : Nat) :
    Path (G db0) (fun s => Ph db0 ctx s ∧ PU ctx.cfg c s ∧ Found c found s)
      (.txn .createCtype (aCreateCtype ctx c found t k)) := by
  refine Path.txn' _ _
    (fun _ s' => Ph db0 { ctx with ctCache := none } s' ∧ PU ctx.cfg c s' ∧ Found c found s' ∧ TOK (some t) s') ?_
  rintro s ⟨hp, hpu, hf⟩
  unfold aCreateCtype
  split
  · next hc =>
    -- lost the race: nothing is written, the type is looked up again
    have hp0 : Ph db0 { ctx with ctCache := none } s := hp.setCache none (fun l hl => by cases hl)
    refine ⟨hp.g h0 _, ⟨hp0, hpu, hf, fun x hx => by cases hx; simpa using hc⟩, ?_⟩
    refine Path.read _ _ ?_
    rintro s' ⟨hp1, hpu1, hf1, ht1⟩
    have hp2 : Ph db0 { ctx with ctCache := some s'.ctypes } s' :=
      hp1.setCache _ (fun l hl x hx => by cases hl; exact hx)
    refine ⟨rfl, hp1.g h0 _, ?_⟩
    refine (aAfterType_path h0 (ctx := { ctx with ctCache := some s'.ctypes }) hk found (some t)).weaken ?_
    rintro s'' rfl
    exact ⟨hp2, hpu1, hf1, ht1⟩
  · have r := residue_ctypes s t
    have hp' : Ph db0 { ctx with ctCache := none } { s with ctypes := addIfMissing s.ctypes t } :=
      (hp.residue r).setCache none (fun l hl => by cases hl)
    refine ⟨hp'.g h0 _, ⟨hp', hpu.residue r, hf.residue r, ?_⟩, ?_⟩
    · intro x hx; cases hx; exact mem_addIfMissing_self _ _
    · exact aAfterType_path h0 (ctx := { ctx with ctCache := none }) hk found (some t)

theorem aGetCtype_path (hk : Cont db0 ctx c k) (found : Option ConsRow) (t : Nat) :
    Path (G db0) (fun s => Ph db0 ctx s ∧ PU ctx.cfg c s ∧ Found c found s)
      (.txn .getCtype (aGetCtype ctx c found t k)) := by
  refine Path.read _ _ ?_
  rintro s ⟨hp, hpu, hf⟩
  have hp' : Ph db0 { ctx with ctCache := some s.ctypes } s := hp.setCache _ (fun l hl x hx => by cases hl; exact hx)
  unfold aGetCtype
  dsimp only
  split
  · next hc =>
    refine ⟨rfl, hp.g h0 _, ?_⟩
    refine (aAfterType_path h0 (ctx := { ctx with ctCache := some s.ctypes }) hk found (some t)).weaken ?_
    rintro s' rfl
    exact ⟨hp', hpu, hf, fun x hx => by cases hx; simpa using hc⟩
  · refine ⟨rfl, hp.g h0 _, ?_⟩
    refine (aCreateCtype_path h0 (ctx := { ctx with ctCache := some s.ctypes }) hk found t).weaken ?_
    rintro s' rfl
    exact ⟨hp', hpu, hf⟩

theorem aType_path (hk : Cont db0 ctx c k) (found : Option ConsRow) :
    Path (G db0) (fun s => Ph db0 ctx s ∧ PU ctx.cfg c s ∧ Found c found s) (aType ctx c found k) := by
  have hnone : Path (G db0) (fun s => Ph db0 ctx s ∧ PU ctx.cfg c s ∧ Found c found s)
      (aAfterType ctx c found none k) :=
    (aAfterType_path h0 hk found none).weaken (fun s ⟨a, b, d⟩ => ⟨a, b, d, fun x hx => by cases hx⟩)
  unfold aType
  split
  · split
    · exact hnone
    · next t ht =>
      split
      · next cache hcache =>
        split
        · next hc =>
          refine (aAfterType_path h0 hk found (some t)).weaken ?_
          rintro s ⟨a, b, d⟩
          exact ⟨a, b, d, fun x hx => by cases hx; exact a.cache cache hcache t (by simpa using hc)⟩
        · exact aGetCtype_path h0 hk found t
      · exact aGetCtype_path h0 hk found t
  · exact hnone

theorem aGetConsumer_path (hk : Cont db0 ctx c k) :
    Path (G db0) (fun s => Ph db0 ctx s ∧ PU ctx.cfg c s) (.txn .getConsumer (aGetConsumer ctx c k)) := by
  refine Path.read _ _ ?_
  rintro s ⟨hp, hpu⟩
  unfold aGetConsumer
  split
  · next cons hcons =>
    split
    · exact ⟨rfl, hp.g h0 _, cleanupThen_at h0 hp _⟩
    · refine ⟨rfl, hp.g h0 _, (aType_path h0 hk (some cons)).weaken ?_⟩
      rintro s' rfl
      exact ⟨hp, hpu, mem_of_consByUuid hcons⟩
  · next hnone =>
    split
    · exact ⟨rfl, hp.g h0 _, cleanupThen_at h0 hp _⟩
    · refine ⟨rfl, hp.g h0 _, (aType_path h0 hk none).weaken ?_⟩
      rintro s' rfl
      exact ⟨hp, hpu, hnone⟩

theorem aCreateUser_path (hk : Cont db0 ctx c k) :
    Path (G db0) (fun s => Ph db0 ctx s ∧ Placement.reqProject ctx.cfg c ∈ s.projects)
      (.txn .createUser (aCreateUser ctx c k)) := by
  refine Path.txn' _ _ (fun _ s' => Ph db0 ctx s' ∧ PU ctx.cfg c s') ?_
  rintro s ⟨hp, hpr⟩
  unfold aCreateUser
  split
  · next hc =>
    refine ⟨hp.g h0 _, ⟨hp, hpr, by simpa using hc⟩, ?_⟩
    refine Path.read _ _ ?_
    rintro s' ⟨hp1, hpu1⟩
    exact ⟨rfl, hp1.g h0 _, (aGetConsumer_path h0 hk).at ⟨hp1, hpu1⟩⟩
  · have r := residue_users s (Placement.reqUser ctx.cfg c)
    have hp' := hp.residue r
    exact ⟨hp'.g h0 _, ⟨hp', hpr, mem_addIfMissing_self _ _⟩, aGetConsumer_path h0 hk⟩

theorem aGetUser_path (hk : Cont db0 ctx c k) :
    Path (G db0) (fun s => Ph db0 ctx s ∧ Placement.reqProject ctx.cfg c ∈ s.projects)
      (.txn .getUser (aGetUser ctx c k)) := by
  refine Path.read _ _ ?_
  rintro s ⟨hp, hpr⟩
  unfold aGetUser
  split
  · next hc =>
    refine ⟨rfl, hp.g h0 _, (aGetConsumer_path h0 hk).weaken ?_⟩
    rintro s' rfl
    exact ⟨hp, hpr, by simpa using hc⟩
  · refine ⟨rfl, hp.g h0 _, (aCreateUser_path h0 hk).weaken ?_⟩
    rintro s' rfl
    exact ⟨hp, hpr⟩

theorem aCreateProject_path (hk : Cont db0 ctx c k) :
    Path (G db0) (Ph db0 ctx) (.txn .createProject (aCreateProject ctx c k)) := by
  refine Path.txn' _ _ (fun _ s' => Ph db0 ctx s' ∧ Placement.reqProject ctx.cfg c ∈ s'.projects) ?_
  intro s hp
  unfold aCreateProject
  split
  · next hc =>
    refine ⟨hp.g h0 _, ⟨hp, by simpa using hc⟩, ?_⟩
    refine Path.read _ _ ?_
    rintro s' ⟨hp1, hpr1⟩
    exact ⟨rfl, hp1.g h0 _, (aGetUser_path h0 hk).at ⟨hp1, hpr1⟩⟩
  · have r := residue_projects s (Placement.reqProject ctx.cfg c)
    have hp' := hp.residue r
    exact ⟨hp'.g h0 _, ⟨hp', mem_addIfMissing_self _ _⟩, aGetUser_path h0 hk⟩

theorem aGetProject_path (hk : Cont db0 ctx c k) :
    Path (G db0) (Ph db0 ctx) (.txn .getProject (aGetProject ctx c k)) := by
  refine Path.read _ _ ?_
  intro s hp
  unfold aGetProject
  split
  · next hc =>
    refine ⟨rfl, hp.g h0 _, (aGetUser_path h0 hk).weaken ?_⟩
    rintro s' rfl
    exact ⟨hp, by simpa using hc⟩
  · refine ⟨rfl, hp.g h0 _, (aCreateProject_path h0 hk).weaken ?_⟩
    rintro s' rfl
    exact hp

end stages

end Placement.Crash
